"""C04 — A structure survives a CIF / BinaryCIF write-read cycle unchanged.

Model level: tables of tokens (Structure <-> Block with atom_site / struct_conn / chem_comp_bond / cell).
Correspondence: set_structure / get_structure / _find_matches_* on in-memory BinaryCIF blocks, op by op.
Oracle (independent of the model): read(write(s)) == s through the three real writers
{CIFFile, BinaryCIFFile, compress(BinaryCIFFile)}, model selection, altloc selection.

Line protocol (tokens are percent-encoded, the empty string is `%e`; rows joined by `;`, fields by `,`):
  ccd NAME:pep|nuc|oth:a1/a2/t+...;...     atoms C I <rows>      coords <toks per model>;...   box B|-
  bonds -|_|i,j,t;...                       write 0|1             show_site  show_conn  show_ccb
  site <rows>  conn <rows>|-  ccb <rows>|-  read all|<m> first|occ incl C I       find <keys>|<keys>
"""
import ast
import io
import os
import re
import struct

PROP = "C04"
PROPS_MODULE = "BiotiteModel.Props.C04"
DRIVER_MODULE = "BiotiteModel.Driver.C04"
EXT_MODULES = ["biotite.structure.bonds", "biotite.structure.io.pdbx.encoding"]
GEN_FILES = ["BiotiteModel/Gen/C04.lean"]
RULE = ("seeded well-formed structures (1-4 chains, negative residue ids, insertion codes, hetero flags, names with "
        "quotes/primes, 1-4 models, optional fields on/off, box, intra-/inter-residue bonds of every type, backbone "
        "links implied by a synthetic component dictionary) written by set_structure and read by get_structure, op by "
        "op against the Lean model on in-memory blocks; hand-made atom_site/struct_conn/chem_comp_bond tables "
        "(altlocs, ambiguous keys, unequal models) for the reader; oracle = read(write(s)) == s through CIF, BinaryCIF "
        "and compressed BinaryCIF. non-trivial = >= 2 residues or >= 1 bond or an error branch; distinct = different ops")
TRUSTED = ["CIF text layer (C06) and BinaryCIF encodings (C05), msgpack: exercised by the oracle, not modelled here",
           "numpy unique/searchsorted/isin, BondList normalisation (C02): modelled by documented semantics",
           "float32 <-> text and the unit-cell trigonometry of the box: exercised numerically, not modelled"]
ASSUMPTIONS = ["the component dictionary is a parameter of the model (instantiated by fixtures/C04/components.bcif)",
               "coordinates, B-factors, occupancies, extra fields and the box are opaque tokens in the model",
               "inter-residue bonds of type ANY / AROMATIC* cannot be expressed in struct_conn (known findings)"]
LEVEL_TEXT = ("Lean theorems on a token-table model of set_structure/get_structure (component dictionary as a parameter): "
              "C04_stack_roundtrip: for every well-formed structure (WFS) writeBlock then readStructure returns, for "
              "model=None, the whole stack (atoms with all annotations, the coordinates of every model, box token, exactly "
              "the same typed bond set), for model=k+1 and k-M model k, and rejects model 0 / out of range; unequal model "
              "lengths rejected; model count = number of groups. Bond paths proved and composed: struct_conn (types "
              "SINGLE..QUADRUPLE/COORDINATION), chem_comp_bond (every type it can express, decidable component consistency), "
              "dropped backbone links restored (two-sided writer<->reader statement), dictionary-implied links of another "
              "type kept in struct_conn and winning the merge (precedence lemma). Altloc first/occupancy policies exact; "
              "mask filtering remaps bond indices consistently; the box is the first model's box (iff statement). dense == "
              "dict matching. Refusals proved and demanded by the oracle: empty structure, empty names with bonds, ambiguous "
              "struct_conn partner, model index out of range, unequal / interleaved models. Partial: inter-residue ANY/AROMATIC* and per-model differing boxes (known findings, format "
              "limits), inconsistent components / dictionary fallback without chem_comp_bond / implied backbone links (known "
              "findings with _defect witnesses, outside WFS), altloc='all', and text==binary==compressed (proved only relative to the assumed C05/C06 table "
              "identities) are covered by correspondence + the write-read oracle through the three real writers")
LEVEL_NOTE = "CIF text layer, BinaryCIF encodings, float formatting and box trigonometry are trusted/exercised only"
TECHNIQUE = "Lean 4 proof (induction over row lists / residue groups / dict insertion, composition through readStructure) + correspondence + write-read oracle"

# ------------------------------------------------------------------ synthetic component dictionary
# name -> (chem_comp.type, [(atom1, atom2, value_order, aromatic_flag)])
CCD = {
    "ALA": ("L-PEPTIDE LINKING", [("N", "CA", "SING", "N"), ("CA", "C", "SING", "N"), ("C", "O", "DOUB", "N"), ("CA", "CB", "SING", "N")]),
    "GLY": ("PEPTIDE LINKING", [("N", "CA", "SING", "N"), ("CA", "C", "SING", "N"), ("C", "O", "DOUB", "N")]),
    "TYR": ("L-PEPTIDE LINKING", [("N", "CA", "SING", "N"), ("CA", "C", "SING", "N"), ("C", "O", "DOUB", "N"), ("CA", "CB", "SING", "N"),
                                  ("CB", "CG", "SING", "N"), ("CG", "CD1", "DOUB", "Y"), ("CG", "CD2", "SING", "Y")]),
    "MSE": ("L-PEPTIDE LINKING", [("N", "CA", "SING", "N"), ("CA", "C", "SING", "N"), ("CA", "SE", "SING", "N")]),
    "DAL": ("D-PEPTIDE LINKING", [("N", "CA", "SING", "N"), ("CA", "C", "SING", "N"), ("C", "O", "DOUB", "N")]),
    "A": ("RNA LINKING", [("P", "O5'", "SING", "N"), ("O5'", "C5'", "SING", "N"), ("C5'", "C3'", "SING", "N"), ("C3'", "O3'", "SING", "N"), ("P", "OP1", "DOUB", "N")]),
    "DA": ("DNA LINKING", [("P", "O5'", "SING", "N"), ("O5'", "C5'", "SING", "N"), ("C5'", "C3'", "SING", "N"), ("C3'", "O3'", "SING", "N")]),
    "U": ("RNA LINKING", [("P", "O5'", "SING", "N"), ("O5'", "C3'", "SING", "N"), ("C3'", "O3'", "SING", "N")]),
    "HOH": ("NON-POLYMER", []),
    "LIG": ("NON-POLYMER", [("C1", "C2", "DOUB", "Y"), ("C2", "C3", "SING", "Y"), ("C3", "N1", "TRIP", "N"), ("C1", "C4", "QUAD", "N")]),
    "ZN": ("NON-POLYMER", []),
    # a custom compound appended to a standard dictionary, out of alphabetical order (the documented
    # set_ccd_path() use case); the dictionary below is deliberately NOT sorted by component name
    "FOO": ("NON-POLYMER", [("C1", "O1", "DOUB", "N"), ("C1", "C2", "SING", "N"), ("C2", "N1", "TRIP", "N")]),
    "CYS": ("L-PEPTIDE LINKING", [("N", "CA", "SING", "N"), ("CA", "C", "SING", "N"), ("C", "O", "DOUB", "N"), ("CA", "CB", "SING", "N"), ("CB", "SG", "SING", "N")]),
}
CCD_ORDER = list(CCD)        # file order = declaration order (not alphabetical)
INFO_BOND_TYPES = {("SING", "N"): 1, ("DOUB", "N"): 2, ("TRIP", "N"): 3, ("QUAD", "N"): 4, ("SING", "Y"): 5, ("DOUB", "Y"): 6, ("TRIP", "Y"): 7}
PEP = ("PEPTIDE LINKING", "L-PEPTIDE LINKING", "D-PEPTIDE LINKING")
NUC = ("RNA LINKING", "DNA LINKING")
INTER_OK = (1, 2, 3, 4, 8)          # bond types struct_conn can express
MASKCH = {0: "p", 1: "i", 2: "m"}
MASKNUM = {"p": 0, "i": 1, "m": 2}

_state = {"ready": False}


def _fixture_path():
    from common import paths
    return os.path.join(paths.FIXTURES, "C04", "components_unsorted.bcif")


def _alt_fixture_path():
    from common import paths
    return os.path.join(paths.FIXTURES, "C04", "components_alt.bcif")


def _setup():
    """Install the synthetic CCD (once per process, before any info function caches a lookup)."""
    if _state["ready"]:
        return
    import numpy as np
    import biotite.structure.info as info
    path = _fixture_path()
    if not os.path.exists(path):
        from biotite.structure.io.pdbx.bcif import BinaryCIFBlock, BinaryCIFCategory, BinaryCIFColumn, BinaryCIFFile
        names = list(CCD_ORDER)
        cc = BinaryCIFCategory()
        cc["id"] = np.array(names)
        cc["name"] = np.array([n.lower() for n in names])
        cc["type"] = np.array([CCD[n][0] for n in names])
        rows = [(n,) + b for n in names for b in CCD[n][1]]
        cb = BinaryCIFCategory()
        for k, col in enumerate(["comp_id", "atom_id_1", "atom_id_2", "value_order", "pdbx_aromatic_flag"]):
            cb[col] = np.array([r[k] for r in rows])
        atoms = [(n, a) for n in names for a in dict.fromkeys(x for b in CCD[n][1] for x in b[:2])]
        ca = BinaryCIFCategory()
        ca["comp_id"] = np.array([a[0] for a in atoms])
        ca["atom_id"] = np.array([a[1] for a in atoms])
        ca["type_symbol"] = np.array([a[1][0] for a in atoms])
        blk = BinaryCIFBlock()
        blk["chem_comp"], blk["chem_comp_atom"], blk["chem_comp_bond"] = cc, ca, cb
        f = BinaryCIFFile()
        f["components"] = blk
        os.makedirs(os.path.dirname(path), exist_ok=True)
        f.write(path)
    alt = _alt_fixture_path()
    if not os.path.exists(alt):
        # the same dictionary with FOO changed: all bonds SINGLE, peptide linking
        from biotite.structure.io.pdbx.bcif import BinaryCIFFile
        f = BinaryCIFFile.read(path)
        cb = f.block["chem_comp_bond"]
        vo = cb["value_order"].as_array(str).copy()
        vo[cb["comp_id"].as_array(str) == "FOO"] = "SING"
        cb["value_order"] = vo
        cc = f.block["chem_comp"]
        ty = cc["type"].as_array(str).astype("U40").copy()
        ty[cc["id"].as_array(str) == "FOO"] = "L-PEPTIDE LINKING"
        cc["type"] = ty
        f.write(alt)
    info.set_ccd_path(path)
    _state["ready"] = True


# ------------------------------------------------------------------ token encoding
_SAFE = set("abcdefghijklmnopqrstuvwxyzABCDEFGHIJKLMNOPQRSTUVWXYZ0123456789'\"*+-.()[]<>!?@#$^&=~`{}\\")


def enc(s):
    s = str(s)
    if s == "":
        return "%e"
    return "".join(c if (c in _SAFE and c not in "=") else "".join("%%%02X" % b for b in c.encode("utf-8")) for c in s)


def _f32bits(x):
    return struct.unpack("<I", struct.pack("<f", x))[0]


def _bits_f32(b):
    return struct.unpack("<f", struct.pack("<I", b))[0]


def xyz_tok(c):
    return ".".join("%08x" % _f32bits(float(v)) for v in c)


def tok_xyz(t):
    return [_bits_f32(int(h, 16)) for h in t.split(".")]


def ftok(x):
    return float(x).hex()


# ------------------------------------------------------------------ translator (Gen)
def _dict_literal(tree, name):
    for n in tree.body:
        if isinstance(n, ast.Assign) and len(n.targets) == 1 and getattr(n.targets[0], "id", None) == name:
            if isinstance(n.value, ast.Dict):
                return n.value
    raise ValueError(f"dict literal {name} not found in convert.py")


def _bt(node, bt):
    if isinstance(node, ast.Attribute) and getattr(node.value, "id", None) == "BondType":
        if node.attr not in bt:
            raise ValueError(f"unknown BondType member {node.attr}")
        return bt[node.attr]
    raise ValueError("expected BondType.<member>")


def _lstr(s):
    return '"' + s.replace("\\", "\\\\").replace('"', '\\"') + '"'


# ------------------------------------------------------------------ structural extraction (pass 7/8)
# Private functions are found by WHAT THEY CONTAIN (a string constant of the file format, a public name they call, the
# shape of an expression), never by their private name; locals, comments, docstrings, messages and formatting are
# irrelevant.  What is pinned are literals, operators, orders, defaults and exception classes.
def _strip_text(tree):
    """drop docstrings and the message arguments of raise / warnings.warn: wording is not pinned"""
    for n in ast.walk(tree):
        if isinstance(n, (ast.FunctionDef, ast.ClassDef, ast.Module)) and n.body and isinstance(n.body[0], ast.Expr) \
                and isinstance(n.body[0].value, ast.Constant) and isinstance(n.body[0].value.value, str):
            n.body = n.body[1:] or [ast.Pass()]
        if isinstance(n, ast.Raise) and isinstance(n.exc, ast.Call):
            n.exc.args, n.exc.keywords = [], []
        if isinstance(n, ast.Call) and isinstance(n.func, ast.Attribute) and n.func.attr == "warn" and n.args:
            n.args = n.args[1:]
    return tree


def _consts(node):
    return [n.value for n in ast.walk(node) if isinstance(n, ast.Constant) and isinstance(n.value, str)]


def _rhs(node):
    """right-hand side of a pinned comparison, without local names"""
    if isinstance(node, ast.Constant):
        return repr(node.value)
    if isinstance(node, ast.Attribute):
        return node.attr
    if isinstance(node, ast.Name):
        return node.id if node.id.isupper() else "<var>"
    return "<expr>"


def _funcs(tree):
    return [n for n in tree.body if isinstance(n, ast.FunctionDef)]


def _find_func(tree, what, pred):
    """public functions are addressed by name, private helpers (leading underscore) by content"""
    hits = [f for f in _funcs(tree) if pred(f)]
    if len(hits) > 1:
        hits = [f for f in hits if f.name.startswith("_")] or hits
    if len(hits) != 1:
        raise ValueError(f"structural extractor: expected exactly one function for '{what}', found {[f.name for f in hits]}")
    return hits[0]


def _raises(fn):
    """exception classes a function raises (sorted set: neither the wording nor the number of `raise` statements is pinned)"""
    return sorted(set(_raises_list(fn)))


def _raises_list(fn):
    out = []
    for n in ast.walk(fn):
        if isinstance(n, ast.Raise) and n.exc is not None:
            e = n.exc.func if isinstance(n.exc, ast.Call) else n.exc
            out.append(e.id if isinstance(e, ast.Name) else getattr(e, "attr", "?"))
    return out


def _defaults(fn):
    args = fn.args.args
    ds = fn.args.defaults
    out = []
    for a, d in zip(args[len(args) - len(ds):], ds):
        out.append((a.arg, ast.unparse(d)))
    return out


def _cmpop(op):
    return type(op).__name__


def _subscript_keys_assigned(fn):
    """`<var>["key"] = ...` in source order, variables numbered by first use (alpha-normalised)."""
    names, out = {}, []
    for n in ast.walk(fn):
        pass
    for st in _stmts(fn):
        if isinstance(st, ast.Assign):
            for t in st.targets:
                if isinstance(t, ast.Subscript) and isinstance(t.value, ast.Name) and isinstance(t.slice, ast.Constant) and isinstance(t.slice.value, str):
                    v = names.setdefault(t.value.id, len(names))
                    out.append((v, t.slice.value))
    return out


def _stmts(fn):
    """all statements of a function in source order"""
    out = []

    def rec(body):
        for st in body:
            out.append(st)
            for fld in ("body", "orelse", "finalbody"):
                if hasattr(st, fld):
                    rec(getattr(st, fld))
            if isinstance(st, ast.Try):
                for h in st.handlers:
                    rec(h.body)
    rec(fn.body)
    return out


def _called_names(fn):
    return {n.func.id for n in ast.walk(fn) if isinstance(n, ast.Call) and isinstance(n.func, ast.Name)}


def extract_convert(src):
    """Facts of structure/io/pdbx/convert.py + the (current) names of the private helpers the adapter needs."""
    tree = _strip_text(ast.parse(src))
    F = {}
    helpers = {}
    get_s = _find_func(tree, "get_structure", lambda f: f.name == "get_structure")
    set_s = _find_func(tree, "set_structure", lambda f: f.name == "set_structure")
    get_mc = _find_func(tree, "get_model_count", lambda f: f.name == "get_model_count")
    F["defaults.get_structure"] = _defaults(get_s)
    F["defaults.set_structure"] = _defaults(set_s)
    F["defaults.get_model_count"] = _defaults(get_mc)
    F["raises.get_structure"] = _raises(get_s)
    F["raises.set_structure"] = _raises(set_s)
    # the threshold switch between the two matchers
    thr = [n for n in tree.body if isinstance(n, ast.Assign) and getattr(n.targets[0], "id", None) == "FIND_MATCHES_SWITCH_THRESHOLD"]
    if len(thr) != 1 or not isinstance(thr[0].value, ast.Constant):
        raise ValueError("FIND_MATCHES_SWITCH_THRESHOLD literal not found")
    F["find.threshold"] = int(thr[0].value.value)
    sw = _find_func(tree, "matcher switch", lambda f: any(isinstance(n, ast.Name) and n.id == "FIND_MATCHES_SWITCH_THRESHOLD" for n in ast.walk(f)))
    cmp_ = [n for n in ast.walk(sw) if isinstance(n, ast.Compare) and any(isinstance(x, ast.Name) and x.id == "FIND_MATCHES_SWITCH_THRESHOLD" for x in ast.walk(n))]
    if len(cmp_) != 1 or len(cmp_[0].ops) != 1:
        raise ValueError("matcher switch: comparison with the threshold not found")
    thr_left = any(isinstance(x, ast.Name) and x.id == "FIND_MATCHES_SWITCH_THRESHOLD" for x in ast.walk(cmp_[0].left))
    op = _cmpop(cmp_[0].ops[0])
    # normalise to the form  <row pairs> OP threshold
    if thr_left:
        op = {"Lt": "Gt", "LtE": "GtE", "Gt": "Lt", "GtE": "LtE"}.get(op, op)
    called = [n.func.id for n in ast.walk(sw) if isinstance(n, ast.Call) and isinstance(n.func, ast.Name)]
    cand = [c for c in dict.fromkeys(called) if any(f.name == c for f in _funcs(tree))]
    if len(cand) != 2:
        raise ValueError(f"matcher switch: expected two matcher helpers, found {cand}")

    def kind(name):
        f = next(f for f in _funcs(tree) if f.name == name)
        return "dict" if any(isinstance(n, ast.Dict) for n in ast.walk(f)) else "dense"
    kinds = {kind(c): c for c in cand}
    if set(kinds) != {"dense", "dict"}:
        raise ValueError("matcher switch: cannot tell the dense from the dictionary matcher")
    helpers["dense"], helpers["dict"] = kinds["dense"], kinds["dict"]
    # canonical form of the switch: which matcher serves the LOW side (few row pairs) and to which side the
    # boundary  pairs == threshold  belongs - independent of if/else vs early return and of `<=` vs inverted `>`
    if_ = [n for n in ast.walk(sw) if isinstance(n, ast.If) and (n.test is cmp_[0] or (isinstance(n.test, ast.UnaryOp) and isinstance(n.test.op, ast.Not) and n.test.operand is cmp_[0]))]
    if len(if_) != 1:
        raise ValueError("matcher switch: `if` on the threshold comparison not found")
    negated = if_[0].test is not cmp_[0]
    in_body = [n.func.id for n in ast.walk(ast.Module(body=if_[0].body, type_ignores=[])) if isinstance(n, ast.Call) and isinstance(n.func, ast.Name) and n.func.id in cand]
    if len(set(in_body)) != 1:
        raise ValueError("matcher switch: the branch of the threshold comparison does not call exactly one matcher")
    body_kind = "dense" if in_body[0] == kinds["dense"] else "dict"
    other_kind = "dict" if body_kind == "dense" else "dense"
    if negated:
        op = {"Lt": "GtE", "LtE": "Gt", "Gt": "LtE", "GtE": "Lt"}.get(op, op)
    if op not in ("Lt", "LtE", "Gt", "GtE"):
        raise ValueError("matcher switch: comparison operator is not an ordering")
    low = body_kind if op in ("Lt", "LtE") else other_kind
    boundary = "low" if op in ("LtE", "Gt") else "high"
    op, when_true = "low=" + low, "boundary=" + boundary
    F["find.switch"] = [op, when_true]
    F["raises.matchers"] = ["dense:" + ",".join(_raises(next(f for f in _funcs(tree) if f.name == kinds["dense"]))),
                            "dict:" + ",".join(_raises(next(f for f in _funcs(tree) if f.name == kinds["dict"])))]
    # writers
    w_inter = _find_func(tree, "struct_conn writer", lambda f: ("conn_type_id", ) and any(k == "conn_type_id" for _v, k in _subscript_keys_assigned(f)))
    w_intra = _find_func(tree, "chem_comp_bond writer", lambda f: any(k == "pdbx_aromatic_flag" for _v, k in _subscript_keys_assigned(f)))
    F["columns.atom_site+cell"] = [f"{v}:{k}" for v, k in _subscript_keys_assigned(set_s)]
    F["columns.struct_conn"] = [k for _v, k in _subscript_keys_assigned(w_inter)]
    F["columns.chem_comp_bond"] = [k for _v, k in _subscript_keys_assigned(w_intra)]
    F["raises.chem_comp_bond_writer"] = _raises(w_intra)
    helpers["order_masked"] = [[e.attr for e in c.args[1].elts] for c in ast.walk(w_inter)
                               if isinstance(c, ast.Call) and getattr(c.func, "attr", None) == "isin" and isinstance(c.args[1], ast.Tuple)]
    lists = [n.value for n in ast.walk(w_inter) if isinstance(n, ast.Assign) and isinstance(n.value, ast.List) and all(isinstance(e, ast.Constant) for e in n.value.elts)]
    F["struct_conn.written_key_columns"] = [e.value for e in lists[0].elts] if lists else []
    # readers
    r_inter = _find_func(tree, "struct_conn reader", lambda f: "1_555" in _consts(f))
    lists = [n.value for n in ast.walk(r_inter) if isinstance(n, ast.Assign) and isinstance(n.value, ast.List) and all(isinstance(e, ast.Constant) for e in n.value.elts)]
    F["struct_conn.matched_columns"] = [e.value for e in lists[0].elts] if lists else []
    F["struct_conn.read_columns"] = sorted({c for c in _consts(r_inter) if c in ("conn_type_id", "ptnr1_symmetry", "ptnr2_symmetry", "pdbx_value_order", "1_555", "?", ".")})
    F["struct_conn.order_case"] = sorted({n.func.attr for n in ast.walk(r_inter) if isinstance(n, ast.Call) and isinstance(n.func, ast.Attribute) and n.func.attr in ("lower", "upper")})
    r_intra = _find_func(tree, "chem_comp_bond reader", lambda f: "value_order" in _consts(f) and "pdbx_aromatic_flag" in _consts(f) and not any(k == "pdbx_aromatic_flag" for _v, k in _subscript_keys_assigned(f)) and f.name not in ("get_component", "set_component"))
    F["chem_comp_bond.read_columns"] = [c for c in _consts(r_intra) if c in ("comp_id", "atom_id_1", "atom_id_2", "value_order", "pdbx_aromatic_flag")]
    F["chem_comp_bond.order_case"] = sorted({n.func.attr for n in ast.walk(r_intra) if isinstance(n, ast.Call) and isinstance(n.func, ast.Attribute) and n.func.attr in ("lower", "upper")})
    colname = _find_func(tree, "struct_conn column naming", lambda f: any(isinstance(n, ast.JoinedStr) for n in ast.walk(f)) and "label_alt_id" in _consts(f) and len(f.args.args) == 2 and "pdbx_" in _consts(f))
    F["struct_conn.colname_consts"] = [c for c in _consts(colname)]
    # annotations
    fill = _find_func(tree, "annotation reader", lambda f: "HETATM" in _consts(f) and f.name != "set_structure" and "group_PDB" in _consts(f) and not any(k == "group_PDB" for _v, k in _subscript_keys_assigned(f)))
    as_array_calls = []
    for n in ast.walk(fill):
        if isinstance(n, ast.Call) and isinstance(n.func, ast.Attribute) and n.func.attr == "as_array":
            as_array_calls.append(",".join(ast.unparse(a) for a in n.args))
    F["reader.as_array_args"] = as_array_calls
    F["reader.consts"] = [c for c in _consts(fill) if c in ("HETATM", "group_PDB", "type_symbol", "pdbx_PDB_ins_code", "id", "B_iso_or_equiv", "occupancy", "pdbx_formal_charge", "atom_id", "b_factor", "charge")]
    # altloc policy dispatcher
    alt = _find_func(tree, "altloc dispatcher", lambda f: {"occupancy", "first", "all"} <= set(_consts(f)) and f.name != "get_structure" and f.name != "get_assembly")
    F["altloc.options"] = sorted({n.comparators[0].value for n in ast.walk(alt) if isinstance(n, ast.Compare) and isinstance(n.ops[0], ast.Eq)
                                  and isinstance(n.comparators[0], ast.Constant) and isinstance(n.comparators[0].value, str)})
    F["altloc.columns"] = sorted({c for c in _consts(alt) if c in ("label_alt_id", "occupancy", "altloc_id")})
    F["raises.altloc"] = _raises(alt)
    # bond split and canonical link filter
    split = _find_func(tree, "bond split", lambda f: {"intra", "inter"} <= set(_consts(f)) and any(isinstance(n, ast.Attribute) and n.attr == "COORDINATION" for n in ast.walk(f)) and len(f.args.args) == 2)
    F["bond_split.ops"] = [_cmpop(n.ops[0]) + ":" + _rhs(n.comparators[0]) for n in ast.walk(split) if isinstance(n, ast.Compare) and not isinstance(n.comparators[0], ast.Constant)]

    def is_canon(f):
        rets = [c for c in ast.walk(f) if isinstance(c, ast.Return) and c.value is not None]
        if not rets:
            return False
        r = rets[-1].value
        while isinstance(r, ast.BinOp) and isinstance(r.op, ast.BitAnd):
            r = r.left
        return isinstance(r, ast.BinOp) and isinstance(r.op, ast.BitOr) and isinstance(r.left, ast.Name)
    canon = _find_func(tree, "canonical link filter", is_canon)
    helpers["canon"] = canon.name
    ret = [c for c in ast.walk(canon) if isinstance(c, ast.Return)][-1].value
    terms = []

    def flat(e):
        if isinstance(e, ast.BinOp) and isinstance(e.op, ast.BitAnd):
            flat(e.left)
            flat(e.right)
        else:
            terms.append(e)
    flat(ret)
    F["canon.compare_terms"] = [_cmpop(t.ops[0]) + ":" + _rhs(t.comparators[0]) for t in terms if isinstance(t, ast.Compare)]
    F["canon.shape"] = ["and-chain" if isinstance(ret, ast.BinOp) and isinstance(ret.op, ast.BitAnd) else type(ret).__name__, str(len(terms))]
    # the two kinds: which imported canonical list (resolved through the import alias) and which atom pair
    alias = {}
    for n in tree.body:
        if isinstance(n, ast.ImportFrom):
            for a in n.names:
                alias[a.asname or a.name] = a.name
    first = terms[0]
    assigned = {a.targets[0].id: a.value for a in ast.walk(canon) if isinstance(a, ast.Assign) and isinstance(a.targets[0], ast.Name)}
    kinds_ = []
    for nm in (first.left.id, first.right.id):
        parts = []

        def flat2(e):
            if isinstance(e, ast.BinOp) and isinstance(e.op, ast.BitAnd):
                flat2(e.left)
                flat2(e.right)
            else:
                parts.append(e)
        flat2(assigned[nm])
        lst = [p.args[1].id for p in parts if isinstance(p, ast.Call) and getattr(p.func, "attr", None) == "isin" and isinstance(p.args[1], ast.Name)]
        cs = [p.comparators[0].value for p in parts if isinstance(p, ast.Compare) and isinstance(p.comparators[0], ast.Constant)]
        if len(parts) != 4 or len(lst) != 2 or len(set(lst)) != 1 or len(cs) != 2:
            raise ValueError("canonical link filter: unexpected shape of a link kind")
        kinds_.append((alias.get(lst[0], lst[0]), cs[0], cs[1]))
    helpers["canon_kinds"] = kinds_
    # empty-structure check
    chk = _find_func(tree, "non-empty check", lambda f: {"BadStructureError", "ValueError"} <= set(_raises(f)) and len(f.args.args) == 1
                     and any(isinstance(n, ast.Call) and getattr(n.func, "id", None) == "isinstance" for n in ast.walk(f)))
    F["raises.non_empty_check"] = _raises(chk)
    # model selection
    fm = _find_func(tree, "model filter", lambda f: "pdbx_PDB_model_num" in _consts(f) and len(f.args.args) == 2 and f.name not in ("get_structure", "get_model_count", "get_assembly") and any(isinstance(n, ast.Attribute) and n.attr == "unique" for n in ast.walk(f)))
    F["model_filter.calls"] = [n.func.attr for n in ast.walk(fm) if isinstance(n, ast.Call) and isinstance(n.func, ast.Attribute) and n.func.attr in ("unique", "sort", "as_array")]
    F["model_filter.ops"] = [_cmpop(n.ops[0]) for n in ast.walk(fm) if isinstance(n, ast.Compare)] + \
        [type(n.op).__name__ + ":" + ast.unparse(n.right) for n in ast.walk(fm) if isinstance(n, ast.BinOp) and isinstance(n.right, ast.Constant)]
    F["get_structure.model_guards"] = [_cmpop(n.ops[0]) + ":" + _rhs(n.comparators[0]) for n in ast.walk(get_s)
                                       if isinstance(n, ast.Compare) and isinstance(n.left, ast.Name) and n.left.id == get_s.args.args[1].arg]
    # reserved names
    lists = [n.value for n in ast.walk(set_s) if isinstance(n, ast.Assign) and isinstance(n.value, ast.List) and n.value.elts and all(isinstance(e, ast.Constant) and isinstance(e.value, str) for e in n.value.elts)]
    F["set_structure.name_lists"] = [[e.value for e in lst.elts] for lst in lists]
    F["set_structure.strings"] = [c for c in _consts(set_s) if c in ("HETATM", "ATOM", ".", "?")]
    fmt = ["".join(c.value for c in n.format_spec.values if isinstance(c, ast.Constant)) for n in ast.walk(set_s)
           if isinstance(n, ast.FormattedValue) and n.format_spec is not None]
    F["set_structure.format_specs"] = fmt
    F["set_structure.box_index"] = [ast.unparse(n.slice) for n in ast.walk(set_s) if isinstance(n, ast.Subscript) and isinstance(n.value, ast.Attribute) and n.value.attr == "box"]
    return F, helpers


def extract_filter(src):
    tree = ast.parse(src)
    F = {}
    occ = _find_func(tree, "filter_highest_occupancy_altloc", lambda f: f.name == "filter_highest_occupancy_altloc")
    F["occupancy.ops"] = [_cmpop(n.ops[0]) for n in ast.walk(occ) if isinstance(n, ast.Compare) and isinstance(n.left, ast.Name) and isinstance(n.comparators[0], ast.Name)]
    F["occupancy.init"] = [ast.unparse(n.value) for n in _stmts(occ) if isinstance(n, ast.Assign) and isinstance(n.value, (ast.Constant, ast.UnaryOp)) and not isinstance(getattr(n.value, "value", None), str)]
    F["occupancy.id_order"] = [n.func.id for n in ast.walk(occ) if isinstance(n, ast.Call) and isinstance(n.func, ast.Name) and n.func.id in ("sorted", "set")]
    lists = {}
    for n in tree.body:
        if isinstance(n, ast.Assign) and isinstance(n.value, ast.List) and n.value.elts and all(isinstance(e, ast.Constant) and isinstance(e.value, str) for e in n.value.elts):
            vals = [e.value for e in n.value.elts]
            if "ALA" in vals and "GLY" in vals:
                lists["aa"] = vals
            elif "DA" in vals and "DG" in vals:
                lists["nuc"] = vals
    if set(lists) != {"aa", "nuc"}:
        raise ValueError("canonical residue lists not found in filter.py (by content)")
    return F, lists


def extract_bonds_pyx(src):
    m = re.search(r"\ndef (\w+)\(atoms, residue_starts\):(.*?)\n(?:def |cdef |@)", src + "\ndef ", re.S)
    body = None
    for mm in re.finditer(r"\ndef (\w+)\([^)]*\):(.*?)(?=\n(?:def |cdef |@|[A-Z_]+ = ))", src + "\ndef x():", re.S):
        if "link_type" in mm.group(2) and "O3'" in mm.group(2):
            body = mm.group(2)
    if body is None:
        raise ValueError("bonds.pyx: the function that links consecutive residues (uses link_type and O3') not found")
    F = {}
    F["link.res_id_guard"] = re.findall(r"if\s+\w+\[\w+\]\s*-\s*\w+\[\w+\]\s*([<>=!]+)\s*(-?\d+)\s*:", body)
    F["link.atom_names"] = re.findall(r"=\s*\"([A-Z0-9']+)\"", body)
    F["link.bond_type"] = re.findall(r"BondType\.([A-Z_]+)", body)
    F["link.chain_guard"] = re.findall(r"if\s+\w+\[\w+\]\s*(!=|==)\s*\w+\[\w+\]\s*:", body)
    lists = re.findall(r"=\s*(\[\s*\"[A-Z\- ]+LINKING\"[^\]]*\])", src)
    pep = [ast.literal_eval(x) for x in lists if "L-PEPTIDE LINKING" in x]
    nuc = [ast.literal_eval(x) for x in lists if "RNA LINKING" in x]
    if len(pep) != 1 or len(nuc) != 1:
        raise ValueError("bonds.pyx: link type lists not found (by content)")
    return F, pep[0], nuc[0]


def helper_names():
    """Current names of the private helpers of convert.py the adapter calls (found structurally in the imported module)."""
    if "helpers" not in _state:
        import inspect
        from biotite.structure.io.pdbx import convert as conv
        _state["helpers"] = extract_convert(inspect.getsource(conv))[1]
    return _state["helpers"]


def gen_lean():
    from common import paths
    base = os.path.join(paths.SRC, "biotite/structure")
    bsrc = open(os.path.join(base, "bonds.pyx")).read()
    m = re.search(r"class BondType\(IntEnum\):(.*?)\n    def ", bsrc, re.S)
    if not m:
        raise ValueError("BondType enum not found in bonds.pyx")
    bt = {n: int(c) for n, c in re.findall(r"^\s+([A-Z_]+)\s*=\s*(\d+)\s*$", m.group(1), re.M)}
    if len(bt) < 10:
        raise ValueError("BondType members not found")
    pyx_facts, pep_links, nuc_links = extract_bonds_pyx(bsrc)
    links = {"_PEPTIDE_LINKS": pep_links, "_NUCLEIC_LINKS": nuc_links}
    csrc = open(os.path.join(base, "io/pdbx/convert.py")).read()
    tree = ast.parse(csrc)
    d = _dict_literal(tree, "PDBX_BOND_TYPE_ID_TO_TYPE")
    id_to_type = [(k.value, _bt(v, bt)) for k, v in zip(d.keys, d.values)]
    d = _dict_literal(tree, "PDBX_BOND_TYPE_TO_TYPE_ID")
    type_to_id = sorted((_bt(k, bt), v.value) for k, v in zip(d.keys, d.values))
    d = _dict_literal(tree, "PDBX_BOND_TYPE_TO_ORDER")
    type_to_order = sorted((_bt(k, bt), v.value) for k, v in zip(d.keys, d.values))
    d = _dict_literal(tree, "PDBX_ORDER_TO_BOND_TYPE")
    order_to_type = [(k.value, _bt(v, bt)) for k, v in zip(d.keys, d.values)]
    d = _dict_literal(tree, "COMP_BOND_ORDER_TO_TYPE")
    comp = [((k.elts[0].value, k.elts[1].value), _bt(v, bt)) for k, v in zip(d.keys, d.values)]
    conv_facts, conv_helpers = extract_convert(csrc)
    if len(conv_helpers["order_masked"]) != 1:
        raise ValueError("np.isin(..., (BondType...)) mask not found in the struct_conn writer")
    masked = sorted(bt[x] for x in conv_helpers["order_masked"][0])
    canon_shape, n_terms = conv_facts["canon.shape"][0], int(conv_facts["canon.shape"][1])
    n_cmp = len(conv_facts["canon.compare_terms"])
    fsrc = open(os.path.join(base, "filter.py")).read()
    ftree = ast.parse(fsrc)
    filter_facts, flists = extract_filter(fsrc)
    lists = {"_canonical_aa_list": flists["aa"], "_canonical_nucleotide_list": flists["nuc"]}
    # which of the two lists of filter.py each link kind tests (resolved through the import alias, then by content)
    ftop = {n.targets[0].id: ast.literal_eval(n.value) for n in ftree.body
            if isinstance(n, ast.Assign) and isinstance(n.targets[0], ast.Name) and isinstance(n.value, ast.List)
            and all(isinstance(e, ast.Constant) for e in n.value.elts)}
    canon_kinds = []
    for lname, a1, a2 in conv_helpers["canon_kinds"]:
        vals = ftop.get(lname)
        which = "aa" if vals == flists["aa"] else "nuc" if vals == flists["nuc"] else None
        if which is None:
            raise ValueError("canonical link filter: the residue list of a link kind is not one of filter.py's canonical lists")
        canon_kinds.append((which, a1, a2))
    no_alt = None
    for n in ast.walk(ftree):
        if isinstance(n, ast.FunctionDef) and n.name == "filter_first_altloc":
            for c in ast.walk(n):
                if isinstance(c, ast.Call) and getattr(c.func, "attr", None) == "isin":
                    no_alt = ast.literal_eval(c.args[1])
    if no_alt is None:
        raise ValueError("np.isin(altloc_ids, [...]) not found in filter_first_altloc")
    uses_isalpha = "isalpha" in fsrc[fsrc.index("def filter_first_altloc"):]

    def pairs(xs, f):
        return "[" + ", ".join(f(x) for x in xs) + "]"
    body = [
        "/- REGENERATED on every run by harness/props/c04.py from structure/io/pdbx/convert.py, structure/filter.py, structure/bonds.pyx. Do not edit. -/",
        "namespace BiotiteModel.Gen.C04",
        "def bondTypes : List (String × Nat) := " + pairs(sorted(bt.items(), key=lambda kv: kv[1]), lambda kv: f"({_lstr(kv[0])}, {kv[1]})"),
        "def typeIdToType : List (String × Nat) := " + pairs(id_to_type, lambda kv: f"({_lstr(kv[0])}, {kv[1]})"),
        "def typeToTypeId : List (Nat × String) := " + pairs(type_to_id, lambda kv: f"({kv[0]}, {_lstr(kv[1])})"),
        "def typeToOrder : List (Nat × String) := " + pairs(type_to_order, lambda kv: f"({kv[0]}, {_lstr(kv[1])})"),
        "def orderToType : List (String × Nat) := " + pairs(order_to_type, lambda kv: f"({_lstr(kv[0])}, {kv[1]})"),
        "def orderMasked : List Nat := " + pairs(masked, str),
        "def compOrderToType : List ((String × String) × Nat) := " + pairs(comp, lambda kv: f"(({_lstr(kv[0][0])}, {_lstr(kv[0][1])}), {kv[1]})"),
        "def canonicalAA : List String := " + pairs(lists["_canonical_aa_list"], _lstr),
        "def canonicalNuc : List String := " + pairs(lists["_canonical_nucleotide_list"], _lstr),
        "def peptideLinks : List String := " + pairs(links["_PEPTIDE_LINKS"], _lstr),
        "def nucleicLinks : List String := " + pairs(links["_NUCLEIC_LINKS"], _lstr),
        "def noAltloc : List String := " + pairs(no_alt, _lstr),
        "/-- `_filter_canonical_links`: shape of the returned expression, number of `&` terms, number of comparison terms, the two atom-name tuples. -/",
        f"def canonShape : String := {_lstr(canon_shape)}",
        f"def canonTerms : Nat := {n_terms}",
        f"def canonCompareTerms : Nat := {n_cmp}",
        "/-- (residue list, first atom, second atom) of `is_peptide_link` and `is_nucleotide_link` -/",
        "def canonKinds : List (String × String × String) := " + pairs(canon_kinds, lambda k: f"({_lstr(k[0])}, {_lstr(k[1])}, {_lstr(k[2])})"),
        f"def altlocUsesIsalpha : Bool := {'true' if uses_isalpha else 'false'}",
        "/-- Structural facts of the source (literals, operators, orders, defaults, exception classes), alpha-normalised:",
        "no local / private names, no docstrings, comments or message texts. -/",
        "def facts : List (String × List String) := [",
        ",\n".join("  (" + _lstr(k) + ", " + pairs([x if isinstance(x, str) else (x[0] + "=" + x[1] if isinstance(x, tuple) else str(x)) for x in (v if isinstance(v, list) else [v])], _lstr) + ")"
                   for k, v in sorted({**conv_facts, **{"filter." + k: v for k, v in filter_facts.items()}, **{"pyx." + k: [x if isinstance(x, str) else "".join(x) for x in v] for k, v in pyx_facts.items()}}.items())),
        "]",
        "end BiotiteModel.Gen.C04", ""]
    return {"BiotiteModel/Gen/C04.lean": "\n".join(body)}


# ------------------------------------------------------------------ structure specs
# A spec (JSON): {"atoms":[[chain,res_id,ins,res_name,hetero,atom_name,element,charge,atom_id], ...],
#   "stack": bool, "coords": [[ [x,y,z] bits.. per atom ] per model] as tokens, "box": [a,b,c,al,be,ga] | None,
#   "bonds": [[i,j,t],...] | None, "has_charge", "has_atom_id", "b_factor": [..]|None, "occupancy": [..]|None,
#   "extra": {name: [str,...]}}
def ccd_line():
    ents = []
    for n in sorted(CCD):
        t, bonds = CCD[n]
        cls = "pep" if t in PEP else "nuc" if t in NUC else "oth"
        ents.append(f"{enc(n)}:{cls}:" + "+".join(f"{enc(a)}/{enc(b)}/{INFO_BOND_TYPES[(o, f)]}" for a, b, o, f in bonds))
    return "ccd " + ";".join(ents)


def _opt_tokens(spec, i):
    toks = []
    if spec.get("b_factor") is not None:
        toks.append(ftok(spec["b_factor"][i]))
    if spec.get("occupancy") is not None:
        toks.append(ftok(spec["occupancy"][i]))
    for name in sorted(spec.get("extra") or {}):
        toks.append(enc(spec["extra"][name][i]))
    return toks


def atom_rows(spec):
    rows = []
    for i, a in enumerate(spec["atoms"]):
        opt = _opt_tokens(spec, i)
        rows.append(",".join([enc(a[0]), str(a[1]), enc(a[2]), enc(a[3]), "1" if a[4] else "0", enc(a[5]), enc(a[6]),
                              str(a[7] if spec["has_charge"] else 0), str(a[8] if spec["has_atom_id"] else 0),
                              "/".join(opt) if opt else "-"]))
    return rows


def spec_ops(spec):
    ops = [ccd_line(),
           f"atoms {int(spec['has_charge'])} {int(spec['has_atom_id'])} " + (";".join(atom_rows(spec)) or "_"),
           "coords " + (";".join(",".join(m) if m else "_" for m in spec["coords"]) or "_"),
           "box " + ("B" if spec.get("box") else "-")]
    b = spec.get("bonds")
    ops.append("bonds " + ("-" if b is None else (";".join(f"{i},{j},{t}" for i, j, t in b) or "_")))
    return ops


def own_vectors(a, b, c, al, be, ga):
    """Box vectors from cell parameters (degrees), own float64 trigonometry (not biotite's box.py)."""
    import math
    ca, cb, cg, sg = (math.cos(math.radians(al)), math.cos(math.radians(be)), math.cos(math.radians(ga)),
                      math.sin(math.radians(ga)))
    cx = c * cb
    cy = c * (ca - cb * cg) / sg
    cz = math.sqrt(max(c * c - cx * cx - cy * cy, 0.0))
    return [[a, 0.0, 0.0], [b * cg, b * sg, 0.0], [cx, cy, cz]]


def own_unitcell(box):
    """(a, b, c, alpha, beta, gamma) in degrees from three box vectors, own float64 arithmetic."""
    import math
    v = [[float(x) for x in row] for row in box]
    ln = [math.sqrt(sum(x * x for x in r)) for r in v]

    def ang(p, q):
        d = sum(x * y for x, y in zip(v[p], v[q])) / (ln[p] * ln[q])
        return math.degrees(math.acos(max(-1.0, min(1.0, d))))
    return ln + [ang(1, 2), ang(0, 2), ang(0, 1)]


def cell_differs(b0, b1):
    """Cell parameters: lengths relative 1e-5, angles 1e-3 degrees."""
    u0, u1 = own_unitcell(b0), own_unitcell(b1)
    return any(abs(x - y) > 1e-5 * abs(x) for x, y in zip(u0[:3], u1[:3])) or any(abs(x - y) > 1e-3 for x, y in zip(u0[3:], u1[3:]))


def build_array(spec):
    import numpy as np
    import biotite.structure as struc
    n = len(spec["atoms"])
    m = len(spec["coords"])
    arr = struc.AtomArrayStack(m, n) if spec["stack"] else struc.AtomArray(n)
    cols = ["chain_id", "res_id", "ins_code", "res_name", "hetero", "atom_name", "element"]
    dts = [str, int, str, str, bool, str, str]
    for k, (c, dt) in enumerate(zip(cols, dts)):
        arr.set_annotation(c, np.array([a[k] for a in spec["atoms"]], dtype=dt))
    if spec["has_charge"]:
        arr.set_annotation("charge", np.array([a[7] for a in spec["atoms"]], dtype=int))
    if spec["has_atom_id"]:
        arr.set_annotation("atom_id", np.array([a[8] for a in spec["atoms"]], dtype=int))
    if spec.get("b_factor") is not None:
        arr.set_annotation("b_factor", np.array(spec["b_factor"], dtype=float))
    if spec.get("occupancy") is not None:
        arr.set_annotation("occupancy", np.array(spec["occupancy"], dtype=float))
    for name, vals in (spec.get("extra") or {}).items():
        is_int = all(isinstance(x, int) and not isinstance(x, bool) for x in vals)
        arr.set_annotation(name, np.array(vals, dtype=int if is_int else str))
    coord = np.array([[tok_xyz(t) for t in mdl] for mdl in spec["coords"]], dtype=np.float32).reshape(m, n, 3)
    if spec.get("layout") == "F":
        # same values, Fortran-like memory layout: coord[..., k] is one contiguous block
        coord = np.ascontiguousarray(coord.transpose(2, 1, 0)).transpose(2, 1, 0)
    if spec["stack"]:
        arr.coord = coord
    else:
        arr.coord = coord[0]
    if spec.get("box"):
        vec = own_vectors(*spec["box"][:6])
        if len(spec["box"]) > 6:
            # the same cell in another orientation (first vector not along x): rotation about z, then about x
            import math
            pz, px = spec["box"][6], spec["box"][7]
            cz, sz, cx, sx = math.cos(pz), math.sin(pz), math.cos(px), math.sin(px)
            rot = []
            for x, y, z in vec:
                x, y = cz * x - sz * y, sz * x + cz * y
                y, z = cx * y - sx * z, sx * y + cx * z
                rot.append([x, y, z])
            vec = rot
        box = np.array(vec, dtype=np.float32)
        arr.box = np.stack([box] * m) if spec["stack"] else box
    if spec.get("bonds") is not None:
        arr.bonds = struc.BondList(n, np.array(spec["bonds"], dtype=np.int64).reshape(-1, 3))
    return arr


def _extra_fields(spec):
    f = []
    if spec["has_charge"]:
        f.append("charge")
    if spec["has_atom_id"]:
        f.append("atom_id")
    if spec.get("b_factor") is not None:
        f.append("b_factor")
    if spec.get("occupancy") is not None:
        f.append("occupancy")
    return f + sorted(spec.get("extra") or {})


# ------------------------------------------------------------------ generator
_NAMES_ATOM = ["C1", "C2", "C3", "N1", "O1", "O1'", "C2'", "H\"1", "FE", "X*", "CA", "NZ", "OXT", "c1", "Cé"]
# components whose (res_name, atom_1, atom_2) triples collide when concatenated without a separator
_COLLIDE_RES = {"XY": (["Z1", "Q", "M"], [("Z1", "Q")]), "X": (["YZ1", "Q", "M"], [("YZ1", "Q"), ("Q", "M")]),
                "LI": (["GC", "11H", "C"], [("GC", "11H")]), "LIGC": (["1", "1H", "C"], [("1", "1H"), ("C", "1")])}
_CUSTOM_RES = ["LG1", "X'1", "Q\"2", "hem", "L-7", "ÅB", "3P*", "UNL", "ala"]
_CHAINS = ["A", "B", "C", "AA", "a", "B'", "C\"", "1", "x-y", "É"]
_ELEMENTS = ["C", "N", "O", "S", "FE", "ZN", "H", "SE", "P", "X"]
_INS = ["A", "B", "C", "1"]


def _rand_f32(rng, nice):
    import numpy as np
    if nice:
        return float(np.float32(rng.randint(-999999, 999999) / 1000.0))
    while True:
        b = rng.getrandbits(32)
        x = _bits_f32(b)
        if x == x and abs(x) < 1e6 and (x == 0 or abs(x) > 1e-3):
            return x


def _neg_cloud_column(rng, count, f32=True):
    """All values negative: magnitudes 25..9000 with 3 decimals, and 1-2 tiny high-precision values (1e-4..1e-6)."""
    import numpy as np
    centre = -rng.uniform(60, 8900)
    vals = [round(min(-25.0, centre + rng.uniform(-30, 30)), 3) for _ in range(count)]
    for _ in range(rng.choice([1, 1, 2])):
        mant = rng.randint(10000, 99999) / 10000.0
        vals[rng.randrange(count)] = -mant * 10.0 ** rng.choice([-4, -5, -6])
    if f32:
        return [float(np.float32(v)) for v in vals]
    return vals


def _template(rng, name, templates):
    """atom names + intra bonds (by name) of a component; CCD components use the CCD bonds."""
    if name in templates:
        return templates[name]
    if name in CCD:
        bonds = [(a, b, INFO_BOND_TYPES[(o, f)]) for a, b, o, f in CCD[name][1]]
        atoms = []
        for a, b, _ in bonds:
            for x in (a, b):
                if x not in atoms:
                    atoms.append(x)
        if not atoms:
            atoms = ["O"] if name == "HOH" else [name]
        rng.shuffle(atoms)
    elif name in _COLLIDE_RES:
        atoms, bonds = [list(x) for x in _COLLIDE_RES[name]]
        bonds = [(a, b, rng.choice([1, 2, 3, 5, 9])) for a, b in bonds]
    elif rng.random() < 0.3:
        # atom names a, a+x, x+b, b: the bonds a-(x+b) and (a+x)-b have the same concatenated names
        a, x, b = rng.choice(["C", "N1", "O"]), rng.choice(["1", "A", "'", "1H"]), rng.choice(["H", "2", "X"])
        atoms = [a, a + x, x + b, b] + rng.sample(["Q7", "Q8"], rng.randint(0, 2))
        rng.shuffle(atoms)
        bonds = [(a, x + b, rng.choice([1, 2, 5])), (a + x, b, rng.choice([2, 3, 9]))]
        if rng.random() < 0.5:
            bonds.append((a, b, 1))
        rng.shuffle(bonds)
    else:
        atoms = rng.sample(_NAMES_ATOM, rng.randint(1, 5))
        bonds = []
        for i in range(len(atoms)):
            for j in range(i + 1, len(atoms)):
                if rng.random() < 0.45:
                    a, b = (atoms[i], atoms[j]) if rng.random() < 0.8 else (atoms[j], atoms[i])
                    bonds.append((a, b, rng.choice([0, 1, 2, 3, 4, 5, 6, 7, 9, 9, 0])))
    templates[name] = (atoms, bonds)
    return templates[name]


def link_class(res_name):
    t = CCD.get(res_name.upper(), (None,))[0]
    return "pep" if t in PEP else "nuc" if t in NUC else "oth"


def res_starts(atoms):
    st = [0]
    for i in range(1, len(atoms)):
        if tuple(atoms[i][:4]) != tuple(atoms[i - 1][:4]):
            st.append(i)
    return st + [len(atoms)]


def backbone_links(atoms):
    """The links the reader derives from the component dictionary (written from the documentation of
    connect_via_residue_names: consecutive residues, same chain, res_id step <= 1, both peptide / both nucleotide)."""
    st = res_starts(atoms)
    out = []
    for r in range(len(st) - 2):
        a0, b0 = atoms[st[r]], atoms[st[r + 1]]
        if a0[0] != b0[0] or b0[1] - a0[1] > 1:
            continue
        ca, cb = link_class(a0[3]), link_class(b0[3])
        if ca == cb == "pep":
            n1, n2 = "C", "N"
        elif ca == cb == "nuc":
            n1, n2 = "O3'", "P"
        else:
            continue
        i = next((k for k in range(st[r], st[r + 1]) if atoms[k][5] == n1), None)
        j = next((k for k in range(st[r + 1], st[r + 2]) if atoms[k][5] == n2), None)
        if i is not None and j is not None:
            out.append((i, j))
    return out


def gen_spec(rng, flavour="valid"):
    """A well-formed structure: residues uniquely identifiable, components consistent, backbone links exactly
    those implied by the CCD.  flavour 'limit' adds inter-residue bonds of the types struct_conn cannot express."""
    templates = {}
    atoms = []
    used_chains = rng.sample(_CHAINS, rng.randint(1, 3))
    poly = rng.random() < 0.7
    for ch in used_chains:
        rid = rng.randint(-12, 40)
        kind = rng.choice(["pep", "pep", "nuc", "mix"]) if poly else "mix"
        used = set()
        for _ in range(rng.randint(1, 4)):
            if kind == "pep":
                rn = rng.choice(["ALA", "GLY", "TYR", "MSE", "DAL", "ALA", "GLY", "CYS"])
            elif kind == "nuc":
                rn = rng.choice(["A", "DA", "U"])
            else:
                rn = rng.choice(_CUSTOM_RES + ["HOH", "LIG", "ZN", "ALA", "A", "FOO", "FOO", "XY", "X", "LI", "LIGC"])
            names, _b = _template(rng, rn, templates)
            ins = rng.choice(_INS) if rng.random() < 0.15 else ""
            # residues must be uniquely identifiable: (chain, res_id, ins_code) is used once
            while (rid, ins) in used:
                ins = rng.choice([x for x in _INS + ["D", "E", "F", "G"] if (rid, x) not in used])
            used.add((rid, ins))
            het = rn not in ("ALA", "GLY", "TYR", "CYS", "A", "DA", "U") or rng.random() < 0.1
            present = [n for n in names if rng.random() < 0.9] or names[:1]
            for an in present:
                atoms.append([ch, rid, ins, rn, het, an, rng.choice(_ELEMENTS), rng.randint(-2, 2) if rng.random() < 0.4 else 0, 0])
            r = rng.random()
            # numbering: +1, same id (next residue gets another insertion code), forward jump, or DOWNWARDS
            # (20 -> 19, 18 -> 4: legal; the reader links consecutive residues by position unless the id grows by > 1)
            rid += 1 if r < 0.6 else (0 if r < 0.72 else (rng.randint(2, 5) if r < 0.86 else -rng.choice([1, 1, 2, 14])))
    if len(used_chains) > 1 and rng.random() < 0.15:
        # chains interleaved in array order (A, B, A, ...): residues stay uniquely identifiable, the order inside a
        # chain is kept; backbone links are implied between array-consecutive residues only
        st0 = res_starts(atoms)
        queues = {}
        for r in range(len(st0) - 1):
            queues.setdefault(atoms[st0[r]][0], []).append(atoms[st0[r]:st0[r + 1]])
        merged = []
        while any(queues.values()):
            ch = rng.choice([c for c, q in queues.items() if q])
            merged += queues[ch].pop(0)
        atoms = merged
    int_bound = rng.random() < 0.2
    _B = [127, 128, 129, 255, 256, 32767, 32768, 32769, 65535, 65536, 2147483647]
    if int_bound:
        # integer columns on the type boundaries, with and without a negative value in the same column:
        # res_id (per-chain offset keeps gaps/order), plus optionally a water with a negative res_id
        top = rng.choice(_B)
        last = atoms[-1][0]
        shift = top - max(a[1] for a in atoms if a[0] == last)
        for a in atoms:
            if a[0] == last:
                a[1] += shift
        if rng.random() < 0.6 and "W" not in used_chains:
            _template(rng, "HOH", templates)
            atoms.append(["W", -rng.randint(1, 300), "", "HOH", True, "O", "O", 0, 0])
    n = len(atoms)
    ids = rng.sample(range(1, 10 * n + 10), n)
    if int_bound:
        top = rng.choice(_B)
        ids = [top - k for k in range(n)]
        rng.shuffle(ids)
        if rng.random() < 0.6:
            ids[rng.randrange(n)] = -rng.randint(1, 9)
    for i, a in enumerate(atoms):
        a[8] = ids[i]
        if int_bound and rng.random() < 0.5:
            a[7] = rng.choice([127, 128, -128, -129, 32767, 32768, -32768, -32769, -3, 1])
    st = res_starts(atoms)
    with_bonds = rng.random() < 0.85
    bonds = None
    if with_bonds:
        bonds = {}
        no_intra = rng.random() < 0.1
        for r in range(len(st) - 1):
            rn = atoms[st[r]][3]
            _names, tb = templates[rn]
            pos = {atoms[k][5]: k for k in range(st[r], st[r + 1])}
            if not no_intra:
                for a, b, t in tb:
                    if a in pos and b in pos:
                        bonds[(min(pos[a], pos[b]), max(pos[a], pos[b]))] = t
            # coordination bonds within a residue go to struct_conn: any instance may have one
            if rng.random() < 0.08 and st[r + 1] - st[r] >= 2:
                i, j = rng.sample(range(st[r], st[r + 1]), 2)
                if (min(i, j), max(i, j)) not in bonds:
                    bonds[(min(i, j), max(i, j))] = 8
        if no_intra:
            # without chem_comp_bond the reader falls back to the CCD: only valid if the CCD implies no bond
            for r in range(len(st) - 1):
                rn = atoms[st[r]][3]
                pos = {atoms[k][5] for k in range(st[r], st[r + 1])}
                for a, b, _o, _f in CCD.get(rn, (None, []))[1]:
                    if a in pos and b in pos:
                        no_intra = False
            if not no_intra:
                return gen_spec(rng, flavour)
        for i, j in backbone_links(atoms):
            bonds[(i, j)] = 1 if rng.random() < 0.85 else rng.choice([2, 3, 8])
        # near-miss backbone links: C->N / O3'->P between array-adjacent residues that the reader does NOT
        # re-create (numbering gap, chain border, non-polymer partner) must be written to struct_conn
        for r in range(len(st) - 2):
            if rng.random() < 0.35:
                n1, n2 = rng.choice([("C", "N"), ("O3'", "P"), ("C", "P"), ("O3'", "N")])
                i = next((k for k in range(st[r], st[r + 1]) if atoms[k][5] == n1), None)
                j = next((k for k in range(st[r + 1], st[r + 2]) if atoms[k][5] == n2), None)
                if i is not None and j is not None and (i, j) not in bonds:
                    bonds[(i, j)] = 1
        resof = [0] * n
        for r in range(len(st) - 1):
            for k in range(st[r], st[r + 1]):
                resof[k] = r
        types = INTER_OK if flavour == "valid" else (0, 5, 6, 7, 9)
        for _ in range(rng.choice([0, 1, 1, 2, 3])):
            i, j = rng.randrange(n), rng.randrange(n)
            if resof[i] != resof[j] and (min(i, j), max(i, j)) not in bonds:
                bonds[(min(i, j), max(i, j))] = rng.choice(types)
        bonds = [[i, j, t] for (i, j), t in sorted(bonds.items())]
        if rng.random() < 0.5:
            rng.shuffle(bonds)
    m = rng.choice([1, 1, 1, 2, 3, 4])
    stack = m > 1 or rng.random() < 0.3
    nice = rng.random() < 0.5
    coords = [[xyz_tok([_rand_f32(rng, nice) for _ in range(3)]) for _ in range(n)] for _ in range(m)]
    neg_cloud = rng.random() < 0.18
    if neg_cloud:
        # a molecule far in the negative octant (every value of a column negative, large magnitude, 3 decimals)
        # plus a few tiny high-precision values: the compressed form must not lose either
        cols = [_neg_cloud_column(rng, n * m) for _ in range(3)]
        coords = [[xyz_tok([cols[a][k * n + i] for a in range(3)]) for i in range(n)] for k in range(m)]
    box = None
    if rng.random() < 0.5:
        box = [rng.randint(10, 200) + rng.choice([0, 0.5, 0.25]), rng.randint(10, 200), rng.randint(10, 200) + 0.125,
               rng.choice([90, 90, 75, 100.5]), rng.choice([90, 90, 110, 95.25]), rng.choice([90, 120, 60.5])]
    if box is not None and rng.random() < 0.35:
        # very anisotropic cell: a short vector slightly tilted (0.01..1 degree off 90) towards a vector up to 1e4 times longer
        long_len = rng.choice([1000.0, 5000.0, 20000.0, 50000.0]) * rng.uniform(0.5, 1.0)
        short_len = rng.uniform(1.0, 50.0)
        mid_len = rng.uniform(20.0, 400.0)
        delta = rng.choice([0.01, 0.02, 0.05, 0.115, 0.3, 1.0]) * rng.choice([1, -1])
        role = rng.choice(["c-a", "c-b", "b-a"])
        if role == "c-a":      # c short, a long: beta
            box = [long_len, mid_len, short_len, 90.0, 90.0 + delta, rng.choice([90.0, 90.0, 80.0])]
        elif role == "c-b":    # c short, b long: alpha
            box = [mid_len, long_len, short_len, 90.0 + delta, 90.0, 90.0]
        else:                  # b short, a long: gamma
            box = [long_len, short_len, mid_len, 90.0, rng.choice([90.0, 95.0]), 90.0 + delta]
    if box is not None and max(box[:3]) / min(box[:3]) < 50 and rng.random() < 0.3:
        box = box + [rng.uniform(0.1, 3.0), rng.uniform(0.1, 3.0)]      # a box that is not in the standard orientation
    spec = {"atoms": atoms, "stack": stack, "coords": coords, "box": box, "bonds": bonds, "layout": rng.choice(["C", "C", "F"]),
            "has_charge": rng.random() < 0.5, "has_atom_id": rng.random() < 0.4,
            "b_factor": [rng.randint(0, 99999) / 100.0 for _ in range(n)] if rng.random() < 0.4 else None,
            "occupancy": [rng.choice([1.0, 0.5, 0.25, 0.7, 0.33]) for _ in range(n)] if rng.random() < 0.4 else None,
            "extra": {}}
    if neg_cloud and rng.random() < 0.6:
        spec["b_factor"] = [float(v) for v in _neg_cloud_column(rng, n, f32=False)]
    if neg_cloud and rng.random() < 0.4:
        spec["occupancy"] = [float(v) for v in _neg_cloud_column(rng, n, f32=False)]
    if rng.random() < 0.3:
        spec["extra"]["my_field"] = [rng.choice(["a", "b'", "c\"d", "x-1", "Zé", "0"]) for _ in range(n)]
    if rng.random() < 0.1:
        spec["extra"]["second"] = [rng.choice(["u", "v"]) for _ in range(n)]
    if int_bound:
        spec["has_charge"] = spec["has_charge"] or rng.random() < 0.7
        spec["has_atom_id"] = spec["has_atom_id"] or rng.random() < 0.7
        top = rng.choice(_B[:-1])
        vals = [rng.choice([top, top - 1, top + 1, 0, 5]) for _ in range(n)]
        vals[rng.randrange(n)] = top
        if rng.random() < 0.6:
            vals[rng.randrange(n)] = -rng.randint(1, 100) if vals.count(top) > 1 or n == 1 else vals[0]
            if all(x >= 0 for x in vals) and n > 1:
                k = next(i for i, x in enumerate(vals) if x != top) if any(x != top for x in vals) else None
                if k is not None:
                    vals[k] = -rng.randint(1, 100)
        spec["extra"]["my_int"] = vals
    return spec


_W = ["A", "b1", "O5", "x", "Zn", "7", "CA", "h"]
_J = [" ", "' ", " '", "\" ", " \"", "' \"", "'", "\"", " ", "' x \""]
_PRE = ["", "", "", "_", "#", ";", "data_", "loop_"]


def weird(rng, used, maxlen=None):
    """An annotation string with inner blanks combined with ', ", both, or a leading _ # ; (never leading/trailing
    blank, never '.', '?')."""
    while True:
        v = rng.choice(_PRE) + rng.choice(_W) + rng.choice(_J) + rng.choice(_W)
        if rng.random() < 0.25:
            v += rng.choice(_J) + rng.choice(_W)
        if v not in used and v.upper() not in CCD and v == v.strip():
            used.add(v)
            return v


def weirdify(rng, spec):
    """Rename chains, non-dictionary residues and their atoms, insertion codes, elements and extra fields
    injectively with strings of the `weird` grammar (the structure stays well-formed)."""
    used = set()
    chain_map, res_map, atom_map, ins_map = {}, {}, {}, {}
    for a in spec["atoms"]:
        if a[0] not in chain_map:
            chain_map[a[0]] = weird(rng, used) if rng.random() < 0.7 else a[0]
        if a[3].upper() not in CCD:
            if a[3] not in res_map:
                res_map[a[3]] = weird(rng, used) if rng.random() < 0.7 else a[3]
            key = (a[3], a[5])
            if key not in atom_map:
                atom_map[key] = weird(rng, used) if rng.random() < 0.7 else a[5]
        if a[2] and a[2] not in ins_map:
            ins_map[a[2]] = weird(rng, used) if rng.random() < 0.7 else a[2]
    for a in spec["atoms"]:
        old_res, old_atom = a[3], a[5]
        a[0] = chain_map[a[0]]
        if old_res in res_map:
            a[3] = res_map[old_res]
            a[5] = atom_map[(old_res, old_atom)]
        if a[2]:
            a[2] = ins_map[a[2]]
        if rng.random() < 0.3:
            a[6] = weird(rng, set())
    n = len(spec["atoms"])
    spec["extra"]["my_field"] = [weird(rng, set()) if rng.random() < 0.6 else "q" for _ in range(n)]
    return spec


def gen_single_atom(rng):
    """One atom: atom_site is written as a single-row (non-looped) category in the CIF text form."""
    used = set()
    w = lambda: weird(rng, used) if rng.random() < 0.75 else rng.choice(["A", "X1"])  # noqa: E731
    atom = [w(), rng.randint(-9, 99), rng.choice(["", "", w()]), w(), rng.random() < 0.5, w(), w(), rng.randint(-1, 1), 7]
    stack = rng.random() < 0.3
    spec = {"atoms": [atom], "stack": stack, "coords": [[xyz_tok([_rand_f32(rng, True) for _ in range(3)])]], "box": None,
            "layout": rng.choice(["C", "F"]),
            "bonds": None, "has_charge": rng.random() < 0.5, "has_atom_id": rng.random() < 0.5,
            "b_factor": [12.5] if rng.random() < 0.5 else None, "occupancy": None,
            "extra": {"my_field": [w()]} if rng.random() < 0.7 else {}}
    return spec


def _struct_case(rng, spec, kind="struct", expect=None):
    ops = spec_ops(spec)
    incl = 1 if spec.get("bonds") is not None else rng.choice([0, 1])
    ops += [f"write {incl}", "show_site", "show_conn", "show_ccb"]
    c, i = int(spec["has_charge"]), int(spec["has_atom_id"])
    rb = 1 if spec.get("bonds") is not None else 0
    m = len(spec["coords"])
    ops.append(f"read all first {rb} {c} {i}")
    for k in sorted({1, m, -1, -m, rng.randint(-m - 2, m + 2)}):
        ops.append(f"read {k} first {rb} {c} {i}")
    if rng.random() < 0.3:
        ops.append(f"read 1 first {rb} {1 - c} {1 - i}")
    if ccd_fallback_ok(spec):
        # no chem_comp_bond in the file: intra-residue bonds come from the component dictionary
        ops += ["write 0", "show_ccb", f"read 1 first 1 {c} {i}", f"read all first 1 {c} {i}"]
    case = {"kind": kind, "ops": ops, "spec": spec}
    if expect:
        case["expect"] = expect
    return case


def _site_row(g, el, an, alt, comp, asym, seq, ins, charge, id_, model, xyz, occ):
    altc = "./i" if alt == "." else "?/m" if alt == "?" else f"{enc(alt)}/p"
    insc = f"{enc(ins)}/p" if ins else "%e/i"
    return ",".join([g, enc(el), enc(an), altc, enc(comp), enc(asym), str(seq), insc, charge, str(id_), str(model), xyz,
                     "-" if occ is None else str(occ)])


def gen_altloc_case(rng):
    """Hand-made atom_site with alternate locations (ids letters or digits) and occupancies in eighths."""
    rows, meta = [], []
    idn = 1
    ids_pool = rng.choice([["A", "B", "C"], ["1", "2", "3"], ["B", "A"], ["a", "2", "X"]])
    with_occ = rng.random() < 0.75
    for r in range(rng.randint(1, 4)):
        rn = rng.choice(["ALA", "LG1", "HOH", "GLY"])
        names = rng.sample(["N", "CA", "C", "O", "CB", "X1"], rng.randint(1, 4))
        alts_here = rng.sample(ids_pool, rng.randint(1, len(ids_pool))) if rng.random() < 0.7 else []
        for an in names:
            if alts_here and rng.random() < 0.6:
                for al in (alts_here if rng.random() < 0.8 else alts_here[:1]):
                    meta.append((r, an, al))
            else:
                meta.append((r, an, rng.choice([".", ".", "?"])))
    for (r, an, al) in meta:
        occ = rng.randint(0, 8) if with_occ else None
        xyz = xyz_tok([idn / 8.0, r, 0.5])
        rows.append(_site_row("ATOM", "C", an, al, ["ALA", "LG1", "HOH", "GLY"][r % 4], "A", r + 1, "", "-", idn, 1, xyz, occ))
        idn += 1
    policy = rng.choice(["first", "occ"]) if with_occ else "first"
    ops = [ccd_line(), "site " + ";".join(rows), "conn -", "ccb -", f"read 1 {policy} 0 0 1", f"read all {policy} 0 0 1"]
    if not with_occ:
        ops.append("read 1 occ 0 0 1")
    return {"kind": "altloc", "ops": ops,
            "altloc": {"rows": [[r, an, al] for r, an, al in meta], "policy": policy, "with_occ": with_occ,
                       "occ": [None if not with_occ else int(x.split(",")[-1]) for x in rows]}}


def gen_models_case(rng):
    """Hand-made atom_site whose model numbers are arbitrary (unequal lengths, unsorted numbers)."""
    m = rng.randint(1, 4)
    nums = rng.sample([1, 2, 3, 5, 7, 10, -1, 0], m)
    lens = [rng.randint(1, 3)] * m
    r = rng.random()
    if r < 0.3 and m > 1:
        lens[rng.randrange(m)] += 1
    elif r < 0.55 and m > 2 and lens[0] > 1:
        # unequal lengths whose total still equals length-of-first x model count (2,1,3): must be rejected too
        i, j = rng.sample(range(1, m), 2)
        lens[i] -= 1
        lens[j] += 1
    order = [(k, a) for k in range(m) for a in range(lens[k])]
    interleaved = False
    if m > 1 and rng.random() < 0.3:
        # the rows of the models are NOT contiguous (legal in a relational table): 1, 1, 2, 1 / 1, 2, 1, 2 ...
        # (the first row stays, so that the order of first appearance of the numbers can still vary freely)
        tail = order[1:]
        rng.shuffle(tail)
        order = order[:1] + tail
        interleaved = any(order[i][0] != order[i + 1][0] and order[i][0] in [o[0] for o in order[i + 1:]] for i in range(len(order) - 1))
    rows, row_models = [], []
    for idn, (k, a) in enumerate(order, start=1):
        rows.append(_site_row("ATOM" if a % 2 == 0 else "HETATM", "C", f"C{a}", ".", "LG1", "A", 1, "", "-", idn, nums[k],
                              xyz_tok([idn / 4.0, k, a]), None))
        row_models.append(nums[k])
    ops = [ccd_line(), "site " + ";".join(rows), "conn -", "ccb -", "read all first 0 0 1"]
    for k in sorted({1, m, -1, -m, m + 1, -m - 1, 0, rng.randint(-6, 6)}):
        ops.append(f"read {k} first 0 0 1")
    return {"kind": "models", "ops": ops, "models": {"nums": nums, "lens": lens, "row_models": row_models, "interleaved": interleaved}}


def gen_boxes_case(rng):
    """A stack whose models have their own boxes (NPT trajectory): token k = cubic box of edge 10 + k."""
    m = rng.randint(1, 4)
    if rng.random() < 0.2:
        toks = None
    elif rng.random() < 0.4:
        toks = [rng.randint(0, 9)] * m
    else:
        toks = [rng.randint(0, 9) for _ in range(m)]
    return {"kind": "boxes", "ops": ["boxes " + ("-" if toks is None else ",".join(str(t) for t in toks))], "boxes": toks, "m": m}


def _boxes_roundtrip(toks, m):
    import numpy as np
    import biotite.structure as struc
    from biotite.structure.io import pdbx
    arr = struc.AtomArrayStack(m if toks is None else len(toks), 1)
    arr.chain_id[:] = "A"
    arr.res_id[:] = 1
    arr.res_name[:] = "LG1"
    arr.atom_name[:] = "X1"
    arr.element[:] = "C"
    if toks is not None:
        arr.box = np.stack([np.eye(3) * (10.0 + t) for t in toks])
    f = pdbx.BinaryCIFFile()
    pdbx.set_structure(f, arr)
    cell = f.block.get("cell")
    back = pdbx.get_structure(f, model=None)

    def tok(a):
        return str(int(round(float(a) - 10.0)))
    cell_tok = "-" if cell is None else tok(cell["length_a"].as_item())
    read = "-" if back.box is None else ",".join(tok(b[0][0]) for b in back.box)
    return cell_tok, read


def _oracle_boxes(case):
    _setup()
    toks = case["boxes"]
    if toks is None:
        return []
    _cell, read = _boxes_roundtrip(toks, case["m"])
    want = ",".join(str(t) for t in toks)
    if read != want:
        if len(set(toks)) > 1 and read == ",".join([str(toks[0])] * len(toks)):
            return [("C04/box/per-model-boxes-collapsed", f"boxes {toks} of the models read back as {read}: only the first box is stored")]
        return [("C04/box/unit-cell", f"boxes {toks} read back as {read}")]
    return []


def _key(rng):
    return ",".join([enc(rng.choice(["A", "B", "?", "."])), enc(rng.choice(["ALA", "LG1"])), str(rng.choice([1, 2, -1])),
                     enc(rng.choice(["C", "N", "O1'"])), enc(rng.choice([".", "A", "?"]))])


def gen_find_case(rng):
    refs = [_key(rng) for _ in range(rng.randint(0, 8))]
    qs = [rng.choice(refs) if refs and rng.random() < 0.7 else _key(rng) for _ in range(rng.randint(1, 5))]
    return {"kind": "find", "ops": [f"find {';'.join(qs)} {';'.join(refs) or '_'}"]}


def gen_conn_case(rng):
    """Hand-made struct_conn / chem_comp_bond rows over a written atom_site: foreign type ids, orders in any
    case, unmatched and ambiguous partners, unknown value_order."""
    spec = gen_spec(rng)
    spec["stack"], spec["coords"] = False, spec["coords"][:1]
    spec["b_factor"] = spec["occupancy"] = None
    spec["extra"] = {}
    atoms = spec["atoms"]
    n = len(atoms)
    ambiguous = rng.random() < 0.15 and n >= 2
    if ambiguous:
        atoms[1][:6] = atoms[0][:6]
    rows = []
    for a in atoms:
        rows.append(_site_row("HETATM" if a[4] else "ATOM", a[6], a[5], ".", a[3], a[0], a[1], a[2], "-", a[8], 1, xyz_tok([1, 2, 3]), None))

    def k(a):
        return ",".join([enc(a[0]), enc(a[3]), str(a[1]), enc(a[5]), enc(a[2]) if a[2] else "."])
    conn = []
    for c in range(rng.randint(1, 4)):
        i, j = rng.randrange(n), rng.randrange(n)
        if i == j:
            continue
        tid = rng.choice(["covale", "covale", "disulf", "metalc", "hydrog", "covale_base", "modres", "mismat"])
        ordv = rng.choice(["sing/p", "doub/p", "DOUB/p", "Trip/p", "quad/p", "%e/m", "?/m", "arom/p", "%e/p"])
        k2 = k(atoms[j]) if rng.random() < 0.85 else k(atoms[j][:5] + ["ZZ9"] + atoms[j][6:])
        conn.append(f"{c + 1},{tid},{ordv},{k(atoms[i])},{k2}")
    ccb = []
    for c in range(rng.randint(0, 4)):
        a = rng.choice(atoms)
        others = [b for b in atoms if tuple(b[:4]) == tuple(a[:4]) and b[5] != a[5]]
        if not others:
            continue
        b = rng.choice(others)
        o = rng.choice(["SING/p", "doub/p", "TRIP/p", "AROM/p", "%e/m", "?/m", "delo/p", "QUAD/p"])
        f = rng.choice(["N/p", "Y/p", "Y/p", "%e/m", "N/p"])
        ccb.append(f"{enc(a[3])},{enc(a[5])},{enc(b[5])},{o},{f}")
    ops = [ccd_line(), "site " + ";".join(rows), "conn " + (";".join(conn) or "-"), "ccb " + (";".join(ccb) or "-"),
           "read 1 first 1 0 1"]
    return {"kind": "conn", "ops": ops}


def gen_malformed(rng):
    """Outside the theorem hypotheses: only 'rejected or round-trips' is asserted."""
    spec = gen_spec(rng)
    r = rng.random()
    if r < 0.3:
        spec["atoms"], spec["coords"], spec["bonds"] = [], [[] for _ in spec["coords"]], None
        spec["b_factor"] = spec["occupancy"] = None
        spec["extra"] = {}
        return _struct_case(rng, spec, "malformed", "BadStructureError")
    if r < 0.6 and spec["bonds"] is not None:
        a = rng.choice(spec["atoms"])
        a[rng.choice([3, 5])] = ""
        return _struct_case(rng, spec, "malformed", "BadStructureError-or-ok")
    n = len(spec["atoms"])
    spec["extra"] = {rng.choice(["res_id", "id", "label_asym_id", "charge"]): ["x"] * n}
    case = _struct_case(rng, spec, "malformed", "ValueError")
    case["ops"] = []          # the model says nothing about reserved annotation names: oracle only
    return case


def cases(rng, tier):
    n = 280 if tier == "quick" else 5000
    for k in range(n):
        r = rng.random()
        if r < 0.30:
            yield _struct_case(rng, gen_spec(rng, "valid"))
        elif r < 0.35:
            x = rng.random()
            yield gen_edge_case(rng) if x < 0.45 else gen_hyp_case(rng) if x < 0.9 else gen_symmetry_case(rng)
        elif r < 0.385:
            yield gen_api_case(rng)
        elif r < 0.56:
            yield _struct_case(rng, weirdify(rng, gen_spec(rng, "valid")), "struct-strings")
        elif r < 0.62:
            yield _struct_case(rng, gen_single_atom(rng), "struct-strings")
        elif r < 0.70:
            yield _struct_case(rng, gen_spec(rng, "limit"), "struct-limit")
        elif r < 0.80:
            yield gen_altloc_case(rng)
        elif r < 0.86:
            yield gen_models_case(rng)
        elif r < 0.885:
            yield gen_boxes_case(rng)
        elif r < 0.91:
            yield gen_find_case(rng)
        elif r < 0.96:
            yield gen_conn_case(rng)
        else:
            yield gen_malformed(rng)


def _mini(atoms, bonds, **kw):
    n = len(atoms)
    spec = {"atoms": [list(a) + [0, i + 1] for i, a in enumerate(atoms)], "stack": False,
            "coords": [[xyz_tok([i / 8.0, 1.5, -2.25]) for i in range(n)]], "box": None, "bonds": bonds,
            "has_charge": False, "has_atom_id": False, "b_factor": None, "occupancy": None, "extra": {}}
    spec.update(kw)
    return spec


def _pep(n_res, names=("N", "CA", "C", "O"), rn=("ALA", "GLY")):
    atoms = []
    for r in range(n_res):
        for an in names:
            atoms.append(["A", r + 1, "", rn[r % len(rn)], False, an, an[0]])
    return atoms


def large_case_exact():
    """2000 atoms x 2000 struct_conn rows = exactly FIND_MATCHES_SWITCH_THRESHOLD row pairs (still the dense matcher)."""
    return {"kind": "large-dict", "ops": [], "n": 2000, "extra_bond": True}


def large_case():
    """2001 one-atom residues, 2000 inter-residue bonds all starting at the FIRST atom: 2000 x 2001 row pairs exceed
    FIND_MATCHES_SWITCH_THRESHOLD, so get_structure uses _find_matches_by_dict (oracle only, BinaryCIF)."""
    return {"kind": "large-dict", "ops": [], "n": 2001}


def _oracle_large(case):
    import warnings
    import numpy as np
    _setup()
    import biotite.structure as struc
    from biotite.structure.io import pdbx
    from biotite.structure.io.pdbx import convert as conv
    n = case["n"]
    arr = struc.AtomArray(n)
    arr.chain_id[:] = "A"
    arr.res_id = np.arange(1, n + 1)
    arr.res_name[:] = "LG1"
    arr.atom_name[:] = "X1"
    arr.element[:] = "C"
    arr.hetero[:] = True
    arr.coord = np.zeros((n, 3), dtype=np.float32)
    blist = [[0, k, 1 + (k % 4)] for k in range(1, n)]
    if case.get("extra_bond"):
        blist.append([1, 2, 3])
    bonds = np.array(blist, dtype=np.int64)
    arr.bonds = struc.BondList(n, bonds)
    v = []
    pairs = len(blist) * n
    if case.get("extra_bond"):
        if pairs != conv.FIND_MATCHES_SWITCH_THRESHOLD:
            v.append(("C04/oracle/large-case-not-on-threshold", f"{pairs} row pairs != FIND_MATCHES_SWITCH_THRESHOLD"))
    elif pairs <= conv.FIND_MATCHES_SWITCH_THRESHOLD:
        v.append(("C04/oracle/large-case-too-small", f"{pairs} row pairs do not exceed FIND_MATCHES_SWITCH_THRESHOLD"))
    with warnings.catch_warnings():
        warnings.simplefilter("ignore")
        f = pdbx.BinaryCIFFile()
        pdbx.set_structure(f, arr, include_bonds=True)
        buf = io.BytesIO()
        f.write(buf)
        buf.seek(0)
        back = pdbx.get_structure(pdbx.BinaryCIFFile.read(buf), model=1, include_bonds=True)
    bi = {(int(b[0]), int(b[1])): int(b[2]) for b in arr.bonds.as_array()}
    bo = {(int(b[0]), int(b[1])): int(b[2]) for b in back.bonds.as_array()}
    if bi != bo:
        lost = sorted(set(bi) - set(bo))
        v.append(("C04/bonds/large/struct_conn-dict-matcher", f"{len(bi)} bonds written, {len(bo)} read; lost e.g. {lost[:3]}, "
                  f"changed {[k for k in bi if k in bo and bi[k] != bo[k]][:3]}"))
    return v


def corpus():
    import random
    rng = random.Random(4)
    out = []
    pep = _pep(6)
    i = lambda r, a: r * 4 + ["N", "CA", "C", "O"].index(a)  # noqa: E731
    intra = [b for r in range(6) for b in ([i(r, "N"), i(r, "CA"), 1], [i(r, "CA"), i(r, "C"), 1], [i(r, "C"), i(r, "O"), 2])]
    bb = intra + [[i(r, "C"), i(r + 1, "N"), 1] for r in range(5)]
    # regression witnesses of the repaired defects
    for d in (2, 3, 4, 5):
        out.append(_struct_case(rng, _mini(pep, bb + [[i(0, "C"), i(d, "N"), 1]]), "struct"))
    out.append(_struct_case(rng, _mini(pep, bb[:18] + bb[19:] + [[i(0, "C"), i(1, "N"), 2]]), "struct"))
    gap = [a[:1] + [a[1] + (5 if a[1] >= 2 else 0)] + a[2:] for a in pep]
    out.append(_struct_case(rng, _mini(gap, bb), "struct"))
    two = [["B" if a[1] >= 2 else "A"] + a[1:] for a in pep]
    out.append(_struct_case(rng, _mini(two, bb), "struct"))
    out.append(_struct_case(rng, _mini(pep, bb + [[i(0, "O"), i(3, "N"), 2], [i(1, "O"), i(4, "CA"), 3], [i(1, "CA"), i(5, "CA"), 4], [i(0, "N"), i(2, "O"), 8]]), "struct"))
    lig = [["A", 1, "", "LG1", True, "FE", "FE"], ["A", 1, "", "LG1", True, "N1", "N"], ["A", 1, "", "LG1", True, "C1", "C"], ["A", 2, "", "LG1", True, "FE", "FE"], ["A", 2, "", "LG1", True, "N1", "N"], ["A", 2, "", "LG1", True, "C1", "C"]]
    out.append(_struct_case(rng, _mini(lig, [[0, 1, 8], [1, 2, 9], [4, 5, 9], [2, 3, 1]]), "struct"))
    # backbone links between residues numbered downwards (20 -> 19 -> 5) and with equal ids + insertion codes
    down = [a[:1] + [{1: 20, 2: 19, 3: 5, 4: 5, 5: 5, 6: 4}[a[1]], {4: "A", 5: "B"}.get(a[1], "")] + a[3:] for a in pep]
    out.append(_struct_case(rng, _mini(down, bb), "struct"))
    out.append(large_case())
    out.append(large_case_exact())
    # atom / residue names whose concatenation collides: C-11H vs C1-1H in one ligand; XY:Z1-Q vs X:YZ1-Q
    lig2 = [["A", 1, "", "LG1", True, an, "C"] for an in ("C", "C1", "1H", "11H")]
    out.append(_struct_case(rng, _mini(lig2, [[0, 3, 1], [1, 2, 2]]), "struct"))
    cross = [["A", 1, "", "XY", True, "Z1", "C"], ["A", 1, "", "XY", True, "Q", "C"],
             ["A", 2, "", "X", True, "YZ1", "C"], ["A", 2, "", "X", True, "Q", "C"]]
    out.append(_struct_case(rng, _mini(cross, [[0, 1, 1], [2, 3, 3]]), "struct"))
    # dictionary compound appended out of alphabetical order, written without chem_comp_bond (dictionary fallback)
    foo = [["A", 1, "", "FOO", True, an, an[0]] for an in ("C1", "O1", "C2", "N1")] + \
          [["A", 2, "", "CYS", False, an, an[0]] for an in ("N", "CA", "C", "O", "CB", "SG")]
    out.append(_struct_case(rng, _mini(foo, [[0, 1, 2], [0, 2, 1], [2, 3, 3], [4, 5, 1], [5, 6, 1], [6, 7, 2], [5, 8, 1], [8, 9, 1]]), "struct"))
    # Fortran-ordered coordinates / a single atom (set_structure must copy them)
    out.append(_struct_case(rng, _mini(lig2, None, layout="F"), "struct"))
    out.append(_struct_case(rng, _mini(lig2[:1], None, layout="C"), "struct"))
    # the known limits of struct_conn
    out.append(_struct_case(rng, _mini(pep, bb + [[i(0, "O"), i(3, "N"), 9]]), "struct-limit"))
    return out


# ------------------------------------------------------------------ implementation adapter
def _err(e):
    return "ERR:" + type(e).__name__


def _mask_of(col, n):
    import numpy as np
    return np.zeros(n, dtype=int) if col.mask is None else col.mask.array.astype(int)


def _cell(col, k, n):
    return f"{enc(col.data.array[k])}/{MASKCH[int(_mask_of(col, n)[k])]}"


def _show_site(block, spec):
    import numpy as np
    s = block["atom_site"]
    n = s.row_count
    x, y, z = (s[c].as_array(np.float32) for c in ("Cartn_x", "Cartn_y", "Cartn_z"))
    for lab, au in (("label_seq_id", "auth_seq_id"), ("label_comp_id", "auth_comp_id"), ("label_asym_id", "auth_asym_id"), ("label_atom_id", "auth_atom_id")):
        if not (s[lab].as_array(str) == s[au].as_array(str)).all():
            return "ok auth-differs-from-label"
    rows = []
    ch = s.get("pdbx_formal_charge")
    for k in range(n):
        if ch is None:
            cg = "-"
        else:
            mk = int(_mask_of(ch, n)[k])
            cg = f"{int(ch.data.array[k]) if mk == 0 else 0}/{MASKCH[mk]}"
        opt = []
        if "B_iso_or_equiv" in s:
            opt.append(ftok(s["B_iso_or_equiv"].as_array(float)[k]))
        if "occupancy" in s:
            opt.append(ftok(s["occupancy"].as_array(float)[k]))
        for name in sorted(spec.get("extra") or {}):
            opt.append(enc(s[name].as_array(str)[k]))
        rows.append(",".join([enc(s["group_PDB"].as_array(str)[k]), enc(s["type_symbol"].as_array(str)[k]),
                              enc(s["label_atom_id"].as_array(str)[k]), _cell(s["label_alt_id"], k, n),
                              enc(s["label_comp_id"].as_array(str)[k]), enc(s["label_asym_id"].as_array(str)[k]),
                              str(int(s["label_entity_id"].as_array(int)[k])), str(int(s["label_seq_id"].as_array(int)[k])),
                              _cell(s["pdbx_PDB_ins_code"], k, n), cg, str(int(s["id"].as_array(int)[k])),
                              str(int(s["pdbx_PDB_model_num"].as_array(int)[k])), xyz_tok([x[k], y[k], z[k]]),
                              "/".join(opt) if opt else "-"]))
    return "ok " + (";".join(rows) or "_")


def _show_conn(block):
    c = block.get("struct_conn")
    if c is None:
        return "ok none"
    n = c.row_count
    rows = []
    for k in range(n):
        f = [str(int(c["id"].as_array(int)[k])), enc(c["conn_type_id"].as_array(str)[k]), _cell(c["pdbx_value_order"], k, n)]
        for p in (1, 2):
            f += [enc(c[f"ptnr{p}_label_asym_id"].as_array(str)[k]), enc(c[f"ptnr{p}_label_comp_id"].as_array(str)[k]),
                  str(int(c[f"ptnr{p}_label_seq_id"].as_array(int)[k])), enc(c[f"ptnr{p}_label_atom_id"].as_array(str)[k]),
                  enc(c[f"pdbx_ptnr{p}_PDB_ins_code"].as_array(str)[k])]
        rows.append(",".join(f))
    return "ok " + (";".join(rows) or "_")


def _show_ccb(block):
    c = block.get("chem_comp_bond")
    if c is None:
        return "ok none"
    n = c.row_count
    rows = []
    for k in range(n):
        if int(c["pdbx_ordinal"].as_array(int)[k]) != k + 1:
            return "ok bad-ordinal"
        rows.append(",".join([enc(c["comp_id"].as_array(str)[k]), enc(c["atom_id_1"].as_array(str)[k]), enc(c["atom_id_2"].as_array(str)[k]),
                              _cell(c["value_order"], k, n), _cell(c["pdbx_aromatic_flag"], k, n)]))
    return "ok " + (";".join(rows) or "_")


def _show_atoms(arr, want_c, want_i, opt_names):
    rows = []
    cats = arr.get_annotation_categories()
    for k in range(arr.array_length()):
        opt = []
        for name in opt_names:
            v = arr.get_annotation(name)[k]
            opt.append(ftok(v) if name in ("b_factor", "occupancy") else enc(v))
        rows.append(",".join([enc(arr.chain_id[k]), str(int(arr.res_id[k])), enc(arr.ins_code[k]), enc(arr.res_name[k]),
                              "1" if arr.hetero[k] else "0", enc(arr.atom_name[k]), enc(arr.element[k]),
                              str(int(arr.charge[k])) if want_c and "charge" in cats else "0",
                              str(int(arr.atom_id[k])) if want_i and "atom_id" in cats else "0",
                              "/".join(opt) if opt else "-"]))
    return ";".join(rows) or "_"


def _show_read(arr, want_c, want_i, opt_names):
    import biotite.structure as struc
    coord = arr.coord if isinstance(arr, struc.AtomArrayStack) else arr.coord[None]
    cs = ";".join((",".join(xyz_tok(c) for c in m) or "_") for m in coord)
    if arr.bonds is None:
        bs = "none"
    else:
        bl = sorted(tuple(int(v) for v in b) for b in arr.bonds.as_array())
        bs = ";".join(f"{i},{j},{t}" for i, j, t in bl) or "_"
    return f"ok atoms={_show_atoms(arr, want_c, want_i, opt_names)} coords={cs} box={'B' if arr.box is not None else '-'} bonds={bs}"


def _cell_parse(s):
    v, m = s.split("/")
    return ("" if v == "%e" else _dec(v)), MASKNUM[m]


def _dec(t):
    if t == "%e":
        return ""
    return re.sub(r"((?:%[0-9A-F]{2})+)", lambda m: bytes.fromhex(m.group(1).replace("%", "")).decode("utf-8"), t)


def _hand_block(site_rows, conn_rows, ccb_rows):
    import numpy as np
    from biotite.structure.io.pdbx.bcif import BinaryCIFBlock, BinaryCIFCategory, BinaryCIFColumn
    blk = BinaryCIFBlock()
    rows = [r.split(",") for r in site_rows]
    s = BinaryCIFCategory()

    def strcol(vals):
        return np.array(vals, dtype=str) if vals else np.array([], dtype="U1")
    s["group_PDB"] = strcol([_dec(r[0]) for r in rows])
    s["type_symbol"] = strcol([_dec(r[1]) for r in rows])
    alt = [_cell_parse(r[3]) for r in rows]
    ins = [_cell_parse(r[7]) for r in rows]
    s["label_alt_id"] = BinaryCIFColumn(strcol([a[0] for a in alt]), np.array([a[1] for a in alt], dtype=np.uint8))
    s["pdbx_PDB_ins_code"] = BinaryCIFColumn(strcol([a[0] for a in ins]), np.array([a[1] for a in ins], dtype=np.uint8))
    for lab in ("label", "auth"):
        s[f"{lab}_atom_id"] = strcol([_dec(r[2]) for r in rows])
        s[f"{lab}_comp_id"] = strcol([_dec(r[4]) for r in rows])
        s[f"{lab}_asym_id"] = strcol([_dec(r[5]) for r in rows])
        s[f"{lab}_seq_id"] = np.array([int(r[6]) for r in rows], dtype=int)
    if any(r[8] != "-" for r in rows):
        cg = [r[8].split("/") for r in rows]
        s["pdbx_formal_charge"] = BinaryCIFColumn(np.array([int(c[0]) for c in cg], dtype=int), np.array([MASKNUM[c[1]] for c in cg], dtype=np.uint8))
    s["id"] = np.array([int(r[9]) for r in rows], dtype=int)
    s["pdbx_PDB_model_num"] = np.array([int(r[10]) for r in rows], dtype=np.int32)
    xyz = np.array([tok_xyz(_dec(r[11])) for r in rows], dtype=np.float32).reshape(-1, 3)
    s["Cartn_x"], s["Cartn_y"], s["Cartn_z"] = xyz[:, 0].copy(), xyz[:, 1].copy(), xyz[:, 2].copy()
    if rows and all(r[12] != "-" for r in rows):
        s["occupancy"] = np.array([int(r[12]) / 8.0 for r in rows], dtype=float)
    blk["atom_site"] = s
    if conn_rows is not None:
        rows = [r.split(",") for r in conn_rows]
        c = BinaryCIFCategory()
        c["id"] = np.array([int(r[0]) for r in rows], dtype=int)
        c["conn_type_id"] = strcol([_dec(r[1]) for r in rows])
        od = [_cell_parse(r[2]) for r in rows]
        c["pdbx_value_order"] = BinaryCIFColumn(strcol([a[0] for a in od]), np.array([a[1] for a in od], dtype=np.uint8))
        for p, off in ((1, 3), (2, 8)):
            c[f"ptnr{p}_label_asym_id"] = strcol([_dec(r[off]) for r in rows])
            c[f"ptnr{p}_label_comp_id"] = strcol([_dec(r[off + 1]) for r in rows])
            c[f"ptnr{p}_label_seq_id"] = np.array([int(r[off + 2]) for r in rows], dtype=int)
            c[f"ptnr{p}_label_atom_id"] = strcol([_dec(r[off + 3]) for r in rows])
            c[f"pdbx_ptnr{p}_PDB_ins_code"] = strcol([_dec(r[off + 4]) for r in rows])
        blk["struct_conn"] = c
    if ccb_rows is not None:
        rows = [r.split(",") for r in ccb_rows]
        c = BinaryCIFCategory()
        c["pdbx_ordinal"] = np.arange(1, len(rows) + 1, dtype=np.int32)
        c["comp_id"] = strcol([_dec(r[0]) for r in rows])
        c["atom_id_1"] = strcol([_dec(r[1]) for r in rows])
        c["atom_id_2"] = strcol([_dec(r[2]) for r in rows])
        for name, k in (("value_order", 3), ("pdbx_aromatic_flag", 4)):
            cells = [_cell_parse(r[k]) for r in rows]
            c[name] = BinaryCIFColumn(strcol([a[0] for a in cells]), np.array([a[1] for a in cells], dtype=np.uint8))
        blk["chem_comp_bond"] = c
    return blk


def _keys_arrays(keys):
    import numpy as np
    cols = list(zip(*[k.split(",") for k in keys])) if keys else [[]] * 5
    out = []
    for c, col in enumerate(cols):
        vals = [_dec(v) for v in col]
        if c in (0, 1, 3, 4):
            vals = ["." if v == "?" else v for v in vals]      # the caller normalises "?" to "."
        out.append(np.array(vals, dtype="U16") if vals else np.array([], dtype="U16"))
    return out


def run_impl(case):
    _setup()
    res = _Worker.call("impl", case)
    if res[0] == "ok":
        return res[1]
    if res[0] == "err":
        return [f"UNCAUGHT:{res[1]}:{res[2][:100]}"]
    return ["CRASH"] * len(case["ops"])


def _run_impl_inner(case):
    import warnings
    import numpy as np
    _setup()
    from biotite.structure.io import pdbx
    from biotite.structure.io.pdbx import convert as conv
    import biotite.structure as struc
    spec = case.get("spec")
    out = []
    state = {"block": None, "site": [], "conn": None, "ccb": None, "hand": False, "n": 0, "file": None}
    with warnings.catch_warnings():
        warnings.simplefilter("ignore")
        for op in case["ops"]:
            w = op.split(" ")
            try:
                if w[0] == "ccd":
                    out.append("ok")
                elif w[0] == "atoms":
                    out.append(f"ok {len(spec['atoms'])}")
                elif w[0] == "coords":
                    out.append(f"ok {len(spec['coords'])}")
                elif w[0] == "box":
                    out.append("ok")
                elif w[0] == "bonds":
                    if w[1] == "-":
                        out.append("ok none")
                    else:
                        bl = struc.BondList(len(spec["atoms"]), np.array(spec["bonds"], dtype=np.int64).reshape(-1, 3))
                        out.append("ok " + (";".join(",".join(str(int(v)) for v in b) for b in bl.as_array()) or "_"))
                elif w[0] == "write":
                    arr = build_array(spec)
                    f = pdbx.BinaryCIFFile()
                    extra = sorted(spec.get("extra") or {})
                    state["file"], state["hand"] = None, False
                    pdbx.set_structure(f, arr, include_bonds=(w[1] == "1"), extra_fields=extra)
                    state["file"] = f
                    out.append("ok")
                elif w[0] == "show_site":
                    out.append(_show_site(state["file"].block, spec) if state["file"] is not None else "ERR:no-block")
                elif w[0] == "show_conn":
                    out.append(_show_conn(state["file"].block) if state["file"] is not None else "ERR:no-block")
                elif w[0] == "show_ccb":
                    out.append(_show_ccb(state["file"].block) if state["file"] is not None else "ERR:no-block")
                elif w[0] == "site":
                    state["site"] = [] if w[1] in ("_", "-") else w[1].split(";")
                    state["hand"] = True
                    out.append(f"ok {len(state['site'])}")
                elif w[0] == "conn":
                    state["conn"] = None if w[1] == "-" else ([] if w[1] == "_" else w[1].split(";"))
                    out.append("ok")
                elif w[0] == "ccb":
                    state["ccb"] = None if w[1] == "-" else ([] if w[1] == "_" else w[1].split(";"))
                    out.append("ok")
                elif w[0] == "read":
                    if state["hand"]:
                        src = _hand_block(state["site"], state["conn"], state["ccb"])
                        opt_names = []
                    else:
                        src = state["file"]
                        opt_names = [x for x in ("b_factor", "occupancy") if spec.get(x) is not None] + sorted(spec.get("extra") or {})
                    if src is None:
                        out.append("ERR:no-block")
                        continue
                    model = None if w[1] == "all" else int(w[1])
                    fields = list(opt_names) + (["charge"] if w[4] == "1" else []) + (["atom_id"] if w[5] == "1" else [])
                    arr = pdbx.get_structure(src, model=model, altloc={"first": "first", "occ": "occupancy"}[w[2]],
                                             extra_fields=fields, include_bonds=(w[3] == "1"))
                    out.append(_show_read(arr, w[4] == "1", w[5] == "1", opt_names))
                elif w[0] == "boxes":
                    toks = None if w[1] == "-" else [int(t) for t in w[1].split(",")]
                    cell_tok, read = _boxes_roundtrip(toks, 1)
                    out.append(f"ok cell={cell_tok} read={read}")
                elif w[0] == "find":
                    qs = w[1].split(";")
                    rs = [] if w[2] in ("_", "-") else w[2].split(";")
                    qa, ra = _keys_arrays(qs), _keys_arrays(rs)
                    res = []
                    hn = helper_names()
                    for fn in (getattr(conv, hn["dense"]), getattr(conv, hn["dict"])):
                        try:
                            r = fn(qa, ra)
                            res.append(",".join(str(int(v)) for v in r) or "_")
                        except Exception as e:  # noqa: BLE001
                            res.append(_err(e))
                    out.append(f"dense={res[0]} dict={res[1]}")
                else:
                    out.append("bad-op")
            except Exception as e:  # noqa: BLE001
                if os.environ.get("VERIF_DEBUG"):
                    import traceback
                    traceback.print_exc()
                out.append(_err(e))
    return out


# ------------------------------------------------------------------ audit streams: the regions the theorems exclude
_EDGE_STR = ["", ".", "?", " ", " a", "a ", "a\tb", "x\ny", "''", "\"", "a b"]
_EDGE_F = [float("nan"), float("inf"), float("-inf"), 1e30, -1e30, 1e-40, -0.0, 0.0, 16777217.0]


def gen_edge_case(rng):
    """Annotation strings and numbers the valid stream filters out: empty string, the CIF placeholders '.' and '?',
    leading / trailing blanks, tab, newline; NaN, infinities, huge, denormal, -0.0 coordinates / B-factors /
    occupancies (a fresh AtomArray has '' annotations and NaN coordinates).  No bonds (the bond paths need names)."""
    n_res = rng.randint(1, 2)
    atoms = []
    for r in range(n_res):
        names = rng.sample(["X1", "X2", "X3"] + _EDGE_STR, rng.randint(1, 3))
        rn = rng.choice(["LG1"] + _EDGE_STR)
        ch = rng.choice(["A"] + _EDGE_STR)
        ins = rng.choice(["", "", ".", "?", " ", "a", "\t"])
        for an in names:
            atoms.append([ch, r + 1, ins, rn, rng.random() < 0.5, an, rng.choice(["C"] + _EDGE_STR), 0, 0])
    n = len(atoms)
    m = rng.choice([1, 1, 2])

    def fl():
        return rng.choice(_EDGE_F) if rng.random() < 0.5 else rng.randint(-9999, 9999) / 8.0
    coords = [[xyz_tok([fl(), fl(), fl()]) for _ in range(n)] for _ in range(m)]
    spec = {"atoms": atoms, "stack": m > 1 or rng.random() < 0.3, "coords": coords, "box": None, "bonds": None,
            "layout": rng.choice(["C", "F"]), "has_charge": False, "has_atom_id": False,
            "b_factor": [fl() for _ in range(n)] if rng.random() < 0.6 else None,
            "occupancy": [fl() for _ in range(n)] if rng.random() < 0.4 else None,
            "extra": {"my_field": [rng.choice(_EDGE_STR + ["q"]) for _ in range(n)]} if rng.random() < 0.5 else {}}
    return _struct_case(rng, spec, "struct-edge")


def gen_hyp_case(rng):
    """Structures just outside one hypothesis of C04_stack_roundtrip (WFS); `hyp` names the hypothesis that is broken and
    the oracle demands exactly the documented outcome there (a refusal, or the known limitation of the format)."""
    hyp = rng.choice(["inconsistent-components", "no-intra-bonds", "missing-backbone-link", "ambiguous-atom"])
    for _ in range(200):
        spec = gen_spec(rng, "valid")
        if spec["bonds"] is None or len(spec["atoms"]) > 30:
            continue
        atoms, bonds = spec["atoms"], [list(b) for b in spec["bonds"]]
        st = res_starts(atoms)
        resof = {k: r for r in range(len(st) - 1) for k in range(st[r], st[r + 1])}
        intra = [b for b in bonds if resof[b[0]] == resof[b[1]] and b[2] != 8]
        if hyp == "inconsistent-components":
            # two residues of one component, the bond between equally named atoms removed (or retyped) in ONE of them
            cand = []
            for b in intra:
                r = resof[b[0]]
                key = (atoms[b[0]][3], atoms[b[0]][5], atoms[b[1]][5])
                twins = [c for c in intra if resof[c[0]] != r and (atoms[c[0]][3], atoms[c[0]][5], atoms[c[1]][5]) == key]
                if twins:
                    cand.append(b)
            if not cand:
                continue
            victim = rng.choice(cand)
            if rng.random() < 0.5:
                bonds.remove(victim)
            else:
                bonds[bonds.index(victim)] = [victim[0], victim[1], rng.choice([t for t in (1, 2, 3, 5, 9) if t != victim[2]])]
        elif hyp == "no-intra-bonds":
            # a BondList without any chem_comp_bond bond on dictionary residues: the reader falls back to the dictionary
            if not intra or not any(a[3] in CCD and CCD[a[3]][1] for a in atoms):
                continue
            implied = False
            for r in range(len(st) - 1):
                rn = atoms[st[r]][3]
                pos = {atoms[k][5] for k in range(st[r], st[r + 1])}
                implied = implied or any(a in pos and b in pos for a, b, _o, _f in CCD.get(rn, (None, []))[1])
            if not implied:
                continue
            bonds = [b for b in bonds if b not in intra]
        elif hyp == "missing-backbone-link":
            links = backbone_links(atoms)
            present = [b for b in bonds if (b[0], b[1]) in links or (b[1], b[0]) in links]
            if not present:
                continue
            bonds.remove(rng.choice(present))
        else:
            # an atom occurs twice (same chain, residue, name): a struct_conn bond on it cannot be assigned
            inter = [b for b in bonds if resof[b[0]] != resof[b[1]] and b[2] in INTER_OK
                     and (b[0], b[1]) not in backbone_links(atoms)]
            if not inter:
                continue
            b = rng.choice(inter)
            k = b[0]
            # a fresh atom_id that stays inside the column's integer range (max + 1 may leave int32 when the
            # integer-boundary flavour put the ids at 2**31 - 1: BinaryCIF rightly refuses such a column)
            used_ids = {a[8] for a in atoms}
            top_id = max(used_ids)
            fresh = next(x for x in range(top_id - 1, top_id - 10 ** 6, -1) if x not in used_ids)
            atoms.insert(k + 1, list(atoms[k][:8]) + [fresh])
            bonds = [[i + (i > k), j + (j > k), t] for i, j, t in bonds]
            for fld in ("b_factor", "occupancy"):
                if spec.get(fld) is not None:
                    spec[fld].insert(k + 1, spec[fld][k])
            for name in spec.get("extra") or {}:
                spec["extra"][name].insert(k + 1, spec["extra"][name][k])
            spec["coords"] = [c[:k + 1] + [c[k]] + c[k + 1:] for c in spec["coords"]]
        spec["bonds"] = bonds
        case = _struct_case(rng, spec, "struct-hyp")
        case["hyp"] = hyp
        return case
    return _struct_case(rng, gen_spec(rng, "valid"))


def gen_symmetry_case(rng):
    """struct_conn rows with symmetry operators (not in the Lean model): only identity / missing operators are bonds."""
    n = rng.randint(2, 6)
    rows = []
    for _ in range(rng.randint(1, 5)):
        i, j = rng.sample(range(n), 2)
        rows.append([i, j, rng.choice(["covale", "metalc", "disulf"]), rng.choice(["sing", "doub", "trip"]),
                     rng.choice(["1_555", "1_555", "2_655", "", "1_556"]), rng.choice(["1_555", "1_555", "3_545", ""])])
    return {"kind": "symmetry", "ops": [], "n": n, "rows": rows, "which": rng.choice(["both", "ptnr1", "ptnr2"])}


def _oracle_symmetry(case):
    import warnings
    import numpy as np
    _setup()
    from biotite.structure.io import pdbx
    from biotite.structure.io.pdbx.bcif import BinaryCIFColumn
    n = case["n"]
    site = [_site_row("ATOM", "C", f"C{i}", ".", "LG1", "A", 1, "", "-", i + 1, 1, xyz_tok([i, 0, 0]), None) for i in range(n)]

    def k(i):
        return f"A,LG1,1,C{i},."
    conn = [f"{r + 1},{tid},{o}/p,{k(i)},{k(j)}" for r, (i, j, tid, o, _s1, _s2) in enumerate(case["rows"])]
    blk = _hand_block(site, conn, None)
    for col, idx in (("ptnr1_symmetry", 4), ("ptnr2_symmetry", 5)):
        if case["which"] in ("both", col[:5]):
            vals = [r[idx] for r in case["rows"]]
            blk["struct_conn"][col] = BinaryCIFColumn(np.array([x or "?" for x in vals]), np.array([0 if x else 2 for x in vals], dtype=np.uint8))
    want = {}
    order = {"sing": 1, "doub": 2, "trip": 3}
    for i, j, tid, o, s1, s2 in case["rows"]:
        ok1 = case["which"] == "ptnr2" or s1 in ("1_555", "")
        ok2 = case["which"] == "ptnr1" or s2 in ("1_555", "")
        if ok1 and ok2 and (min(i, j), max(i, j)) not in want:
            want[(min(i, j), max(i, j))] = 8 if tid == "metalc" else order[o]
    with warnings.catch_warnings():
        warnings.simplefilter("ignore")
        got = {(int(b[0]), int(b[1])): int(b[2]) for b in pdbx.get_structure(blk, model=1, include_bonds=True).bonds.as_array()}
    if got != want:
        return [("C04/struct_conn/symmetry-operator", f"rows {case['rows']} ({case['which']}): bonds {got}, expected {want}")]
    return []


# ------------------------------------------------------------------ hardening: public API used like a caller would
def _small_spec(rng):
    sp = gen_spec(rng, "valid")
    for _ in range(60):
        if len(sp["atoms"]) <= 14:
            break
        sp = gen_spec(rng, "valid")
    return sp


def gen_api_case(rng):
    """Two small well-formed structures A and B for the API history checks (oracle only): one file object reused,
    refused calls, the same arguments in other spellings, arguments forwarded through the layers, ambient state."""
    a, b = _small_spec(rng), _small_spec(rng)
    if rng.random() < 0.4:
        b["bonds"] = None
    if rng.random() < 0.5:
        b["box"] = None
    return {"kind": "api", "ops": [], "spec": a, "spec_b": b, "pick": rng.randint(0, 10 ** 6)}


def _file_bytes(f):
    buf = io.StringIO() if type(f).__name__ == "CIFFile" else io.BytesIO()
    f.write(buf)
    return buf.getvalue()


def _reread(f):
    from biotite.structure.io import pdbx
    data = _file_bytes(f)
    if isinstance(data, str):
        return pdbx.CIFFile.read(io.StringIO(data))
    return pdbx.BinaryCIFFile.read(io.BytesIO(data))


def _read_kw(spec):
    return {"model": None if spec["stack"] else 1, "extra_fields": _extra_fields(spec), "include_bonds": spec.get("bonds") is not None}


def _pref(viol, prefix):
    return [(k.replace("C04/", f"C04/api/{prefix}/", 1), f"[{prefix}] " + m) for k, m in viol]


def _oracle_api(case):
    import warnings
    import numpy as np
    _setup()
    import biotite.structure as struc
    import biotite.structure.info as info
    from biotite.structure.io import pdbx
    from biotite.structure.io.pdbx.bcif import BinaryCIFBlock, BinaryCIFFile
    sa, sb = case["spec"], case["spec_b"]
    v = []
    with warnings.catch_warnings():
        warnings.simplefilter("ignore")
        A, B = build_array(sa), build_array(sb)
        mA = len(sa["coords"])
        files = ((pdbx.CIFFile, "cif"), (pdbx.BinaryCIFFile, "bcif"))

        def put(f, arr, sp, **kw):
            pdbx.set_structure(f, arr, include_bonds=arr.bonds is not None, extra_fields=sorted(sp.get("extra") or {}), **kw)

        # ---- 1. one file object reused: A, B (other size / no bonds / no box), A again
        for File, fmt in files:
            f = File()
            for step, (arr, sp) in enumerate(((A, sa), (B, sb), (A, sa))):
                try:
                    put(f, arr, sp)
                    direct1 = pdbx.get_structure(f, **_read_kw(sp))
                    direct2 = pdbx.get_structure(f, **_read_kw(sp))       # a second read of the same object
                    back = pdbx.get_structure(_reread(f), **_read_kw(sp))
                    count = pdbx.get_model_count(f)
                except Exception as e:  # noqa: BLE001
                    v.append((f"C04/api/reuse-file/error/{type(e).__name__}", f"{fmt} step {step}: {type(e).__name__}: {str(e)[:120]}"))
                    break
                for got in (direct1, direct2, back):
                    v += _pref(_compare(sp, arr, got, fmt, sp["stack"], "reuse"), f"reuse-file-step{step}")
                if count != len(sp["coords"]):
                    v.append(("C04/api/get_model_count", f"{fmt} step {step}: get_model_count = {count}, {len(sp['coords'])} models written"))

        # ---- 2. a refused call changes nothing
        for File, fmt in files:
            f = File()
            put(f, A, sa)
            snap = _file_bytes(f)
            n = A.array_length()
            bad = [("empty", lambda: pdbx.set_structure(f, struc.AtomArray(0)), ("BadStructureError",)),
                   ("not-a-structure", lambda: pdbx.set_structure(f, "abc"), ("ValueError", "TypeError")),
                   ("reserved-extra-field", lambda: pdbx.set_structure(f, A, extra_fields=["res_id"]), ("ValueError",)),
                   ("missing-extra-field", lambda: pdbx.set_structure(f, A, extra_fields=["no_such_annotation"]), ("ValueError", "KeyError"))]
            if n >= 2:
                def empty_name():
                    c = A.copy()
                    c.atom_name[n - 1] = ""
                    c.bonds = struc.BondList(n, np.array([[0, n - 1, 1]]))
                    pdbx.set_structure(f, c, include_bonds=True)

                def bad_type():
                    c = A.copy()
                    c.bonds = struc.BondList(n, np.array([[0, n - 1, 12]]))
                    pdbx.set_structure(f, c, include_bonds=True)
                bad += [("empty-atom-name", empty_name, ("BadStructureError",)), ("bond-type-12", bad_type, ("KeyError", "ValueError"))]
            before_A = A.copy()
            for name, call, allowed in bad:
                try:
                    call()
                    v.append((f"C04/api/refused-call/set_structure/{name}/accepted", f"{fmt}: set_structure accepted {name}"))
                    put(f, A, sa)
                    snap = _file_bytes(f)
                    continue
                except Exception as e:  # noqa: BLE001
                    if type(e).__name__ not in allowed:
                        v.append((f"C04/api/refused-call/set_structure/{name}/wrong-exception/{type(e).__name__}",
                                  f"{fmt}: {name} must be refused with {allowed}, got {type(e).__name__}: {str(e)[:80]}"))
                if _file_bytes(f) != snap:
                    v.append((f"C04/api/refused-call/set_structure/{name}/file-changed",
                              f"{fmt}: the file changed although set_structure raised for {name}; categories now {list(f.block.keys())}"))
                    f = File()
                    put(f, A, sa)
                    snap = _file_bytes(f)
            f0 = File()
            try:
                pdbx.set_structure(f0, A, extra_fields=["res_id"])
            except Exception:  # noqa: BLE001
                pass
            if list(f0.keys()) != []:
                v.append(("C04/api/refused-call/set_structure/empty-file-gets-block", f"{fmt}: blocks {list(f0.keys())} after a refused call on an empty file"))
            if A != before_A:
                v.append(("C04/api/refused-call/set_structure/array-changed", f"{fmt}: the structure changed"))
            fields = _extra_fields(sa)
            fields0 = list(fields)
            for name, kw, allowed in (("model-0", {"model": 0}, ("ValueError",)), ("model-too-large", {"model": mA + 1}, ("ValueError",)),
                                      ("model-too-negative", {"model": -mA - 1}, ("ValueError",)),
                                      ("altloc-bogus", {"altloc": "bogus"}, ("ValueError",)),
                                      ("altloc-occupancy-without-column", {"altloc": "occupancy"}, ("ValueError",) if "occupancy" not in A.get_annotation_categories() else None),
                                      ("unknown-block", {"data_block": "no_such_block"}, ("KeyError",)),
                                      ("unknown-extra-field", {"extra_fields": fields + ["no_such_column"]}, ("KeyError",))):
                if allowed is None:
                    continue
                kw2 = dict({"model": 1, "extra_fields": fields}, **kw)
                try:
                    pdbx.get_structure(f, **kw2)
                    v.append((f"C04/api/refused-call/get_structure/{name}/accepted", f"{fmt}: get_structure accepted {name}"))
                except Exception as e:  # noqa: BLE001
                    if type(e).__name__ not in allowed:
                        v.append((f"C04/api/refused-call/get_structure/{name}/wrong-exception/{type(e).__name__}",
                                  f"{fmt}: {name} must be refused with {allowed}, got {type(e).__name__}: {str(e)[:80]}"))
                if _file_bytes(f) != snap or fields != fields0:
                    v.append((f"C04/api/refused-call/get_structure/{name}/changed", f"{fmt}: file or extra_fields changed by a refused get_structure"))
                    fields[:] = fields0
            v += _pref(_compare(sa, A, pdbx.get_structure(f, **_read_kw(sa)), fmt, sa["stack"], "after"), "after-refused-calls")

        # ---- 3. the same value in another spelling
        g = pdbx.BinaryCIFFile()
        put(g, A, sa)
        kw = _read_kw(sa)
        for k in sorted({1, mA}):
            ref = pdbx.get_structure(g, **dict(kw, model=k))
            for T in (np.int8, np.int16, np.int32, np.int64, np.uint8, np.uint16, np.uint32, np.uint64):
                for val in ((k, k - mA - 1) if T(0).dtype.kind == "i" else (k,)):
                    try:
                        got = pdbx.get_structure(g, **dict(kw, model=T(val)))
                        if got != ref:
                            v.append((f"C04/api/spelling/model-{T.__name__}", f"model={T.__name__}({val}) of {mA} differs from model={k}"))
                    except Exception as e:  # noqa: BLE001
                        v.append((f"C04/api/spelling/model-{T.__name__}/error", f"model={T.__name__}({val}) of {mA}: {type(e).__name__}: {str(e)[:80]}"))
        ref = pdbx.get_structure(g, **kw)
        fl = kw["extra_fields"]
        for name, kw2 in (("extra_fields-tuple", {"extra_fields": tuple(fl)}), ("extra_fields-set", {"extra_fields": set(fl)}),
                          ("extra_fields-ndarray", {"extra_fields": np.array(fl, dtype=str) if fl else np.array([], dtype="U1")}),
                          ("include_bonds-np.bool_", {"include_bonds": np.bool_(kw["include_bonds"])}),
                          ("altloc-np.str_", {"altloc": np.str_("first")}),
                          ("use_author_fields-False", {"use_author_fields": False})):
            try:
                got = pdbx.get_structure(g, **dict(kw, **kw2))
                if got != ref:
                    v.append((f"C04/api/spelling/{name}", f"get_structure({name}) differs from the plain call"))
            except Exception as e:  # noqa: BLE001
                v.append((f"C04/api/spelling/{name}/error", f"{type(e).__name__}: {str(e)[:100]}"))
        variants = []

        def variant(name, fn):
            c = A.copy()
            try:
                fn(c)
            except Exception:  # noqa: BLE001
                return
            variants.append((name, c))

        def ro(x):
            x = x.copy()
            x.setflags(write=False)
            return x

        def strided(x):
            big = np.zeros(x.shape[:-1] + (2 * x.shape[-1],), dtype=x.dtype)
            big[..., ::2] = x
            return big[..., ::2]
        variant("res_id-int16", lambda c: setattr(c, "res_id", A.res_id.astype(np.int16)) if np.abs(A.res_id).max() < 32000 else 1 / 0)
        variant("res_id-int32", lambda c: setattr(c, "res_id", A.res_id.astype(np.int32)))
        variant("res_id-big-endian", lambda c: setattr(c, "res_id", A.res_id.astype(">i8")))
        variant("res_id-read-only", lambda c: c.set_annotation("res_id", ro(A.res_id)))
        variant("res_id-strided", lambda c: c.set_annotation("res_id", strided(A.res_id)))
        variant("names-read-only", lambda c: [c.set_annotation(x, ro(A.get_annotation(x))) for x in ("atom_name", "res_name", "chain_id", "ins_code", "element", "hetero")])
        variant("coord-float64", lambda c: setattr(c, "coord", A.coord.astype(np.float64)))
        variant("coord-big-endian", lambda c: setattr(c, "_coord", A.coord.astype(">f4")))
        variant("coord-read-only", lambda c: setattr(c, "_coord", ro(A.coord)))
        variant("coord-strided", lambda c: setattr(c, "_coord", strided(A.coord)))
        variant("coord-fortran", lambda c: setattr(c, "_coord", np.asfortranarray(A.coord)))
        if A.box is not None:
            variant("box-float64", lambda c: setattr(c, "box", A.box.astype(np.float64)))
            variant("box-read-only", lambda c: setattr(c, "_box", ro(A.box)))
        if "charge" in A.get_annotation_categories() and np.abs(A.charge).max() < 127:
            variant("charge-int8", lambda c: c.set_annotation("charge", A.charge.astype(np.int8)))
        if "atom_id" in A.get_annotation_categories() and A.atom_id.min() >= 0:
            variant("atom_id-uint32", lambda c: c.set_annotation("atom_id", A.atom_id.astype(np.uint32)))
        for fcat in ("b_factor", "occupancy"):
            if fcat in A.get_annotation_categories():
                variant(f"{fcat}-float32", lambda c, fcat=fcat: c.set_annotation(fcat, A.get_annotation(fcat).astype(np.float32)))
                variant(f"{fcat}-read-only", lambda c, fcat=fcat: c.set_annotation(fcat, ro(A.get_annotation(fcat))))
        if A.bonds is not None and A.bonds.get_bond_count() > 0:
            variant("bonds-int32-array", lambda c: setattr(c, "bonds", struc.BondList(A.array_length(), A.bonds.as_array().astype(np.int32))))
            variant("bonds-reversed-rows", lambda c: setattr(c, "bonds", struc.BondList(A.array_length(), A.bonds.as_array()[::-1][:, [1, 0, 2]])))
        for idx, (name, c) in enumerate(variants):
            fmt = FORMATS[(idx + case.get("pick", 0)) % 3]
            try:
                back = _roundtrip(c, fmt, sa, model=None if sa["stack"] else 1)
            except Aliased as e:
                v.append((f"C04/api/spelling/{name}/aliasing", f"{fmt}: column {e} follows the structure"))
                continue
            except Exception as e:  # noqa: BLE001
                v.append((f"C04/api/spelling/{name}/error/{type(e).__name__}", f"{fmt}: {name}: {type(e).__name__}: {str(e)[:100]}"))
                continue
            v += _pref(_compare(sa, c, back, fmt, sa["stack"], "spelling"), f"spelling/{name}")

        # ---- 3b. a copy of a file shares nothing with the original (whatever state its blocks are in)
        for File, fmt in files:
            try:
                base = File()
                put(base, A, sa)
                states = [("filled-by-set_structure", base)]
                accessed = _reread(base)
                pdbx.get_model_count(accessed)                    # the block now exists as an object
                pdbx.get_structure(accessed, **_read_kw(sa))
                states += [("read-and-accessed", accessed), ("read-not-accessed", _reread(base)), ("copy-of-copy", base.copy())]
                for sname, orig in states:
                    snap = _file_bytes(orig)
                    dup = orig.copy()
                    if _file_bytes(dup) != snap:
                        v.append((f"C04/api/copy/{fmt}/{sname}/copy-differs", "file.copy() does not serialise like the file"))
                    put(dup, B, sb)                               # another structure into the copy
                    if _file_bytes(orig) != snap:
                        v.append((f"C04/api/copy/{fmt}/{sname}/set_structure-on-copy-changes-original",
                                  "set_structure() on file.copy() changed what the original file decodes to"))
                        continue
                    v += _pref(_compare(sb, B, pdbx.get_structure(_reread(dup), **_read_kw(sb)), fmt, sb["stack"], "copy"), f"copy/{fmt}/{sname}/copy-content")
                    dup2 = orig.copy()
                    snap2 = _file_bytes(dup2)
                    put(orig, B, sb)                              # ... and the other way round
                    if _file_bytes(dup2) != snap2:
                        v.append((f"C04/api/copy/{fmt}/{sname}/set_structure-on-original-changes-copy",
                                  "set_structure() on the original changed its earlier copy"))
                    put(orig, A, sa)
                    # edits below the file level
                    snap = _file_bytes(orig)
                    dup3 = orig.copy()
                    blk = dup3.block
                    site = blk["atom_site"]
                    site["Cartn_x"] = np.asarray(site["Cartn_x"].as_array(np.float32)) + np.float32(1.0)
                    arr_x = blk["atom_site"]["Cartn_y"].data.array
                    if arr_x.flags.writeable:
                        arr_x[...] = arr_x[::-1].copy()
                    if "cell" in blk:
                        del blk["cell"]
                    dup3["extra_block"] = File.subcomponent_class()()
                    if _file_bytes(orig) != snap:
                        v.append((f"C04/api/copy/{fmt}/{sname}/edit-of-copy-changes-original",
                                  "editing categories / columns / arrays of file.copy() changed the original"))
                        put(orig, A, sa)
            except Exception as e:  # noqa: BLE001
                v.append((f"C04/api/copy/{fmt}/error/{type(e).__name__}", f"{type(e).__name__}: {str(e)[:140]}"))

        # ---- 3c. a structure that was read shares nothing with the file object it was read from
        try:
            import copy as _copy
            s1 = _copy.deepcopy(sa)
            s1["stack"], s1["coords"] = False, sa["coords"][:1]
            n1 = len(s1["atoms"])
            s1["atoms"][0][6] = "ZN"                                   # a two-letter element widens the column
            for a in s1["atoms"]:
                if a[0] == s1["atoms"][0][0]:
                    a[0] = (a[0] + "LONGCHAIN")[:9]                    # chain ids of >= 4 characters
            s1["extra"] = dict(s1.get("extra") or {}, my_field=[f"v{i}" for i in range(n1)])
            one = build_array(s1)
            for File, fmt in files:
                base = File()
                put(base, one, s1)
                for state, g in (("filled-by-set_structure", base), ("re-read", _reread(base))):
                    alts = ["first", "all"] + (["occupancy"] if "occupancy" in one.get_annotation_categories() else [])
                    for alt in alts:
                        for mdl in ((1, None) if alt == "all" else (1,)):
                            snap = _file_bytes(g)
                            kw = dict(_read_kw(s1), model=mdl, altloc=alt)
                            r = pdbx.get_structure(g, **kw)
                            ref = r.copy()
                            # the caller edits the result in place
                            if r.coord.flags.writeable:
                                r.coord[...] = r.coord * np.float32(2.0) + np.float32(1.0)
                            if r.box is not None and r.box.flags.writeable:
                                r.box[...] = r.box * 3
                            for c in r.get_annotation_categories():
                                arr_ = r.get_annotation(c)
                                if not arr_.flags.writeable:
                                    continue
                                if arr_.dtype.kind in "iu":
                                    arr_[...] = arr_ + 5
                                elif arr_.dtype.kind == "f":
                                    arr_[...] = arr_ * 2 + 1
                                elif arr_.dtype.kind == "b":
                                    arr_[...] = ~arr_
                                elif arr_.dtype.kind == "U":
                                    arr_[...] = "~"
                            try:
                                changed = _file_bytes(g) != snap
                            except Exception as e:  # noqa: BLE001
                                changed = True
                            again = pdbx.get_structure(g, **kw)
                            if changed or again != ref:
                                v.append((f"C04/api/aliasing/get_structure/altloc-{alt}",
                                          f"{fmt} ({state}, model={mdl}): editing the returned structure in place changed the file object "
                                          f"({'serialisation differs' if changed else 'a second get_structure returns the edited values'})"))
                                g = _reread(base) if state == "re-read" else g
                                if state != "re-read":
                                    base = File()
                                    put(base, one, s1)
                                    g = base
        except Exception as e:  # noqa: BLE001
            v.append((f"C04/api/aliasing/get_structure/error/{type(e).__name__}", f"{type(e).__name__}: {str(e)[:140]}"))

        # ---- 4. arguments forwarded through the layers, defaults, ambient state
        for File, fmt in files:
            f = File()
            try:
                put(f, B, sb, data_block="other")
                put(f, A, sa, data_block="mine")
                if list(f.keys()) != ["other", "mine"]:
                    v.append(("C04/api/data_block/keys", f"{fmt}: blocks {list(f.keys())}"))
                for h in (f, _reread(f)):
                    v += _pref(_compare(sa, A, pdbx.get_structure(h, data_block="mine", **_read_kw(sa)), fmt, sa["stack"], "blk"), "data_block-explicit")
                    v += _pref(_compare(sb, B, pdbx.get_structure(h, data_block="other", **_read_kw(sb)), fmt, sb["stack"], "blk"), "data_block-other")
                    # (with several blocks and no data_block the library refuses: ValueError; not part of the property)
                    if pdbx.get_model_count(h, data_block="mine") != mA or pdbx.get_model_count(h, data_block="other") != len(sb["coords"]):
                        v.append(("C04/api/data_block/get_model_count", f"{fmt}: model counts of the two blocks mixed up"))
                    v += _pref(_compare(sa, A, pdbx.get_structure(h["mine"], **_read_kw(sa)), fmt, sa["stack"], "blk"), "block-object-read")
                one = File()
                put(one, A, sa, data_block="mine")      # a single block with a non-default name is the default block
                v += _pref(_compare(sa, A, pdbx.get_structure(_reread(one), **_read_kw(sa)), fmt, sa["stack"], "blk"), "data_block-default")
                blk = File.subcomponent_class()()
                put(blk, A, sa)
                v += _pref(_compare(sa, A, pdbx.get_structure(blk, **_read_kw(sa)), fmt, sa["stack"], "blk"), "block-object-write")
            except Exception as e:  # noqa: BLE001
                v.append((f"C04/api/data_block/error/{type(e).__name__}", f"{fmt}: {type(e).__name__}: {str(e)[:120]}"))
        # compress(): the tolerance must arrive at every level
        g = pdbx.BinaryCIFFile()
        put(g, A, sa)
        for tol in (1e-6, 1e-2):
            try:
                whole = pdbx.compress(g, float_tolerance=tol)
                by_block, by_cat, by_col = BinaryCIFFile(), BinaryCIFFile(), BinaryCIFFile()
                for bname, blk in g.items():
                    by_block[bname] = pdbx.compress(blk, float_tolerance=tol)
                    nb, nc = BinaryCIFBlock(), BinaryCIFBlock()
                    for cname, cat in blk.items():
                        nb[cname] = pdbx.compress(cat, float_tolerance=tol)
                        ncat = type(cat)()
                        for col, column in cat.items():
                            ncat[col] = pdbx.compress(column, float_tolerance=tol)
                        nc[cname] = ncat
                    by_cat[bname], by_col[bname] = nb, nc
                ref_bytes = _file_bytes(whole)
                for lvl, other in (("block", by_block), ("category", by_cat), ("column", by_col)):
                    if _file_bytes(other) != ref_bytes:
                        v.append((f"C04/api/compress/float_tolerance-not-forwarded/{lvl}", f"compress(file, float_tolerance={tol}) differs from compressing every {lvl} with that tolerance"))
                back = pdbx.get_structure(_reread(whole), **_read_kw(sa))
                ca, cb = np.asarray(A.coord, dtype=np.float64), np.asarray(back.coord, dtype=np.float64)
                if ca.shape != cb.shape or not np.all(np.abs(ca - cb) <= tol * 1.01 * np.abs(ca) + 1e-30):
                    v.append(("C04/api/compress/out-of-tolerance", f"float_tolerance={tol}: coordinates off by more than the tolerance"))
            except Exception as e:  # noqa: BLE001
                v.append((f"C04/api/compress/error/{type(e).__name__}", f"float_tolerance={tol}: {type(e).__name__}: {str(e)[:120]}"))
        # ambient state: the component dictionary is changed between two reads of one file
        if ccd_fallback_ok(sa):
            try:
                h = pdbx.BinaryCIFFile()
                pdbx.set_structure(h, A, include_bonds=False)
                r1 = pdbx.get_structure(h, model=1, include_bonds=True).bonds
                info.set_ccd_path(_alt_fixture_path())
                r2 = pdbx.get_structure(h, model=1, include_bonds=True).bonds
                info.set_ccd_path(_fixture_path())
                r3 = pdbx.get_structure(h, model=1, include_bonds=True).bonds
                if r3 != r1:
                    v.append(("C04/api/ccd-switch/not-restored", "bonds differ after switching the dictionary away and back"))
                st = res_starts(sa["atoms"])
                foo_multi = False
                for i, j, t in sa["bonds"]:
                    ri = max(r for r in range(len(st) - 1) if st[r] <= i)
                    rj = max(r for r in range(len(st) - 1) if st[r] <= j)
                    if ri == rj and sa["atoms"][i][3] == "FOO" and t in (2, 3):
                        foo_multi = True
                want = {(min(i, j), max(i, j)): (1 if (sa["atoms"][i][3] == "FOO" and sa["atoms"][j][3] == "FOO" and t in (2, 3) and tuple(sa["atoms"][i][:4]) == tuple(sa["atoms"][j][:4])) else t)
                        for i, j, t in sa["bonds"]}
                got = {(int(b[0]), int(b[1])): int(b[2]) for b in r2.as_array()}
                if foo_multi and got != want:
                    v.append(("C04/api/ccd-switch/stale-dictionary", "after set_ccd_path() to a dictionary with other FOO bonds the old bonds are still returned"))
            except Exception as e:  # noqa: BLE001
                v.append((f"C04/api/ccd-switch/error/{type(e).__name__}", f"{type(e).__name__}: {str(e)[:120]}"))
            finally:
                info.set_ccd_path(_fixture_path())
    return v


# ------------------------------------------------------------------ property oracle (independent of the model)
FORMATS = ("cif", "bcif", "cbcif")


class Aliased(Exception):
    pass


def _alias_check(f, arr, fmt):
    """set_structure must have COPIED what it stores: the caller moves / edits the structure in place after
    set_structure() and before file.write(); no column of the file may follow.  The structure is restored."""
    import numpy as np
    block = f.block

    def snapshot():
        snap = {}
        for cname, cat in block.items():
            for col, column in cat.items():
                snap[(cname, col)] = np.array(column.data.array, copy=True)
        return snap
    before = snapshot()
    backup = {"coord": arr.coord.copy(), "box": None if arr.box is None else arr.box.copy()}
    move_coord = arr.coord.flags.writeable
    if move_coord:
        arr.coord[...] = arr.coord * np.float32(-3.0) + np.float32(11.5)
    if arr.box is not None and arr.box.flags.writeable:
        arr.box[...] = arr.box * 2
    cats = [c for c in arr.get_annotation_categories() if arr.get_annotation(c).flags.writeable]
    for c in cats:
        a = arr.get_annotation(c)
        backup[c] = a.copy()
        if a.dtype.kind in "iu":
            a[...] = a + 17
        elif a.dtype.kind == "f":
            a[...] = a * 2 + 1
        elif a.dtype.kind == "b":
            a[...] = ~a
        elif a.dtype.kind == "U" and a.dtype.itemsize >= 4:
            a[...] = "~"
    after = snapshot()
    if move_coord:
        arr.coord[...] = backup["coord"]
    if arr.box is not None and arr.box.flags.writeable:
        arr.box[...] = backup["box"]
    for c in cats:
        arr.get_annotation(c)[...] = backup[c]
    for k in before:
        x, y = before[k], after[k]
        same = x.shape == y.shape and (np.array_equal(x, y) if x.dtype.kind != "f" else np.array_equal(x, y, equal_nan=True))
        if not same:
            raise Aliased(f"{k[0]}.{k[1]}")


def ccd_fallback_ok(spec):
    """True if every residue is a dictionary component whose intra-residue bonds are exactly the bonds the
    dictionary implies for the atoms present: then the structure may be written WITHOUT chem_comp_bond
    (include_bonds=False) and get_structure(include_bonds=True) must restore the same bonds from the dictionary."""
    if spec.get("bonds") is None:
        return False
    atoms = spec["atoms"]
    st = res_starts(atoms)
    have = {}
    for i, j, t in spec["bonds"]:
        have[(min(i, j), max(i, j))] = t
    intra = {}
    for r in range(len(st) - 1):
        rn = atoms[st[r]][3]
        if rn not in CCD:
            return False
        pos = {}
        for k in range(st[r], st[r + 1]):
            if atoms[k][5] in pos:
                return False
            pos[atoms[k][5]] = k
        for a, b, o, f in CCD[rn][1]:
            if a in pos and b in pos:
                intra[(min(pos[a], pos[b]), max(pos[a], pos[b]))] = INFO_BOND_TYPES[(o, f)]
    resof = {}
    for r in range(len(st) - 1):
        for k in range(st[r], st[r + 1]):
            resof[k] = r
    mine = {k: t for k, t in have.items() if resof[k[0]] == resof[k[1]] and t != 8}
    return mine == intra and bool(intra)


def _roundtrip(arr, fmt, spec, fields=None, write_incl=None, **read_kw):
    """`fields`: the caller's extra_fields list object, deliberately the SAME object for every read of a case."""
    from biotite.structure.io import pdbx
    incl = arr.bonds is not None
    if write_incl is not None:
        return _roundtrip_ccd(arr, fmt, spec, fields, **read_kw)
    extra = sorted(spec.get("extra") or {})
    if fields is None:
        fields = _extra_fields(spec)
    if fmt == "cif":
        f = pdbx.CIFFile()
        pdbx.set_structure(f, arr, include_bonds=incl, extra_fields=extra)
        _alias_check(f, arr, fmt)
        buf = io.StringIO()
        f.write(buf)
        buf.seek(0)
        g = pdbx.CIFFile.read(buf)
    else:
        f = pdbx.BinaryCIFFile()
        pdbx.set_structure(f, arr, include_bonds=incl, extra_fields=extra)
        _alias_check(f, arr, fmt)
        if fmt == "cbcif":
            f = pdbx.compress(f)
        buf = io.BytesIO()
        f.write(buf)
        buf.seek(0)
        g = pdbx.BinaryCIFFile.read(buf)
    return pdbx.get_structure(g, extra_fields=fields, include_bonds=incl, **read_kw)


def _roundtrip_ccd(arr, fmt, spec, fields, **read_kw):
    """written with include_bonds=False (no chem_comp_bond), read with include_bonds=True (dictionary)"""
    from biotite.structure.io import pdbx
    extra = sorted(spec.get("extra") or {})
    if fields is None:
        fields = _extra_fields(spec)
    f = pdbx.CIFFile() if fmt == "cif" else pdbx.BinaryCIFFile()
    pdbx.set_structure(f, arr, include_bonds=False, extra_fields=extra)
    buf = io.StringIO() if fmt == "cif" else io.BytesIO()
    f.write(buf)
    buf.seek(0)
    g = (pdbx.CIFFile if fmt == "cif" else pdbx.BinaryCIFFile).read(buf)
    return pdbx.get_structure(g, extra_fields=fields, include_bonds=True, **read_kw)


def _bond_key(kind, spec, b_in, b_out):
    """Specific key of a bond difference: which class of bond, which type, what happened."""
    atoms = spec["atoms"]
    st = res_starts(atoms)

    def resof(i):
        return max(r for r in range(len(st) - 1) if st[r] <= i)
    (i, j) = (b_in or b_out)[:2]
    place = "intra" if resof(i) == resof(j) else "inter"
    if b_in and b_out:
        t_in, t_out = b_in[2], b_out[2]
        if place == "inter" and t_in == 0 and t_out == 1:
            return "C04/bonds/inter-residue-ANY-read-as-SINGLE"
        if place == "inter" and t_in in (5, 6, 7, 9) and t_out == {5: 1, 6: 2, 7: 3, 9: 1}[t_in]:
            return "C04/bonds/inter-residue-aromatic-flag-lost"
        return f"C04/bonds/{place}/type{t_in}-read-as-type{t_out}"
    if b_in:
        return f"C04/bonds/{place}/type{b_in[2]}-lost"
    return f"C04/bonds/{place}/type{b_out[2]}-invented"


def _compare(spec, arr, back, fmt, want_stack, tag):
    import numpy as np
    import biotite.structure as struc
    v = []
    if isinstance(back, struc.AtomArrayStack) != want_stack:
        v.append((f"C04/container/{tag}", f"{fmt}: got {type(back).__name__}"))
        return v
    if back.array_length() != arr.array_length():
        v.append((f"C04/atoms/count/{tag}", f"{fmt}: {arr.array_length()} atoms written, {back.array_length()} read"))
        return v
    for cat in arr.get_annotation_categories():
        if cat not in back.get_annotation_categories():
            v.append((f"C04/atoms/{cat}-missing", f"{fmt}: annotation {cat} not read back"))
            continue
        a, b = arr.get_annotation(cat), back.get_annotation(cat)
        if a.dtype.kind == "f":
            b = b.astype(a.dtype)          # a float16/float32 annotation is compared at its own precision
            same = np.array_equal(a, b, equal_nan=True) if fmt != "cbcif" else \
                np.allclose(a, b, rtol=max(2e-6, float(np.finfo(a.dtype).eps) * 2), atol=0, equal_nan=True)
        elif cat in (spec.get("extra") or {}):
            a, b = a.astype(str), b.astype(str)      # extra fields are read back as strings
            same = np.array_equal(a, b)
        else:
            same = np.array_equal(a, b)
        if not same:
            k = int(np.flatnonzero(np.asarray(a != b))[0])
            v.append((f"C04/atoms/{cat}", f"{fmt}: {cat}[{k}] {a[k]!r} read back as {b[k]!r}"))
    ca, cb = np.asarray(arr.coord, dtype=np.float32), np.asarray(back.coord, dtype=np.float32)
    if ca.shape != cb.shape:
        v.append((f"C04/coord/shape/{tag}", f"{fmt}: coord shape {ca.shape} -> {cb.shape}"))
    elif fmt == "cbcif":
        if not np.allclose(ca, cb, rtol=2e-6, atol=0, equal_nan=True):
            v.append(("C04/coord/compressed-out-of-tolerance", f"{fmt}: max rel err {np.max(np.abs(ca - cb) / np.maximum(np.abs(ca), 1e-30))}"))
    elif not np.array_equal(ca.view(np.uint32), cb.view(np.uint32)):
        k = np.argwhere(ca.view(np.uint32) != cb.view(np.uint32))[0]
        v.append((f"C04/coord/{fmt}", f"{fmt}: coord{tuple(int(x) for x in k)} {ca[tuple(k)]!r} read back as {cb[tuple(k)]!r}"))
    if (arr.box is None) != (back.box is None):
        v.append(("C04/box/presence", f"{fmt}: box {'lost' if back.box is None else 'invented'}"))
    elif arr.box is not None:
        b0 = arr.box[0] if arr.box.ndim == 3 else arr.box
        boxes = back.box if back.box.ndim == 3 else back.box[None]
        for b1 in boxes:
            if cell_differs(b0, b1):
                v.append(("C04/box/unit-cell", f"{fmt}: unit cell {[round(x, 5) for x in own_unitcell(b0)]} -> "
                          f"{[round(x, 5) for x in own_unitcell(b1)]}"))
                break
    if (arr.bonds is None) != (back.bonds is None):
        v.append(("C04/bonds/presence", f"{fmt}: bond list {'lost' if back.bonds is None else 'invented'}"))
    elif arr.bonds is not None:
        bi = {(int(b[0]), int(b[1])): int(b[2]) for b in arr.bonds.as_array()}
        bo = {(int(b[0]), int(b[1])): int(b[2]) for b in back.bonds.as_array()}
        for k in sorted(set(bi) | set(bo)):
            if bi.get(k) != bo.get(k):
                b_in = (k[0], k[1], bi[k]) if k in bi else None
                b_out = (k[0], k[1], bo[k]) if k in bo else None
                v.append((_bond_key("struct", spec, b_in, b_out), f"{fmt}: bond {b_in} read back as {b_out}"))
    return v


def _oracle_struct(case):
    """The write-read oracle, with the outcome the documentation allows in the regions the theorems exclude."""
    import warnings
    kind, hyp, spec = case.get("kind"), case.get("hyp"), case["spec"]
    if kind == "struct-hyp" and hyp == "ambiguous-atom":
        # an atom that occurs twice cannot be addressed by struct_conn: reading must REFUSE (InvalidFileError),
        # never pick one of the two silently; writing is still possible
        _setup()
        from biotite.file import InvalidFileError
        v = []
        with warnings.catch_warnings():
            warnings.simplefilter("ignore")
            arr = build_array(spec)
            for fmt in FORMATS:
                try:
                    _roundtrip(arr, fmt, spec, model=None if spec["stack"] else 1)
                    v.append(("C04/hyp/ambiguous-atom/accepted", f"{fmt}: a struct_conn bond on an atom that occurs twice was assigned silently"))
                except InvalidFileError:
                    pass
                except Exception as e:  # noqa: BLE001
                    v.append((f"C04/hyp/ambiguous-atom/error/{type(e).__name__}", f"{fmt}: {type(e).__name__}: {str(e)[:100]}"))
        return v
    v = _oracle_struct_raw(case)
    out = []
    placeholder = kind == "struct-edge" and any(a[2] in (".", "?") for a in spec["atoms"])
    for key, msg in v:
        if kind == "struct-hyp":
            if hyp == "inconsistent-components" and "/bonds/" in key and "/intra/" in key:
                key = "C04/bonds/intra/inconsistent-components"
            elif hyp == "no-intra-bonds" and "/intra/" in key and key.endswith("-invented"):
                key = "C04/bonds/intra/none-written-dictionary-fallback-invents"
            elif hyp == "missing-backbone-link" and key.endswith("/inter/type1-invented"):
                key = "C04/bonds/inter/implied-backbone-link-invented"
        if placeholder and ((key.endswith("/atoms/ins_code") and "cif:" in msg and "cbcif:" not in msg) or key == "C04/formats-differ/cif-vs-bcif"):
            key = "C04/atoms/ins_code/placeholder-in-cif-text"
        out.append((key, msg))
    return out


def _oracle_struct_raw(case):
    import warnings
    import numpy as np
    _setup()
    spec = case["spec"]
    expect = case.get("expect")
    v = []
    with warnings.catch_warnings():
        warnings.simplefilter("ignore")
        try:
            arr = build_array(spec)
        except Exception as e:  # noqa: BLE001
            return [] if expect else [("C04/oracle/build", f"cannot build the structure: {e!r}")]
        m = len(spec["coords"])
        results = {}
        # ONE list object for all reads of this case: get_structure must not modify its arguments
        fields = _extra_fields(spec)
        fields_before = list(fields)
        write_extra = sorted(spec.get("extra") or {})
        arr_cats = sorted(arr.get_annotation_categories())
        for fmt in FORMATS:
            try:
                back = _roundtrip(arr, fmt, spec, fields, model=None if spec["stack"] else 1)
            except Aliased as e:
                v.append((f"C04/aliasing/set_structure/{str(e).split('.')[-1]}",
                          f"{fmt}: column {e} of the file changed when the structure was edited in place after set_structure() "
                          f"(coord layout {spec.get('layout', 'C')}, {len(spec['atoms'])} atom(s))"))
                continue
            except Exception as e:  # noqa: BLE001
                if expect and (type(e).__name__ in expect):
                    continue
                v.append((f"C04/error/{type(e).__name__}", f"{fmt}: write/read raised {type(e).__name__}: {str(e)[:120]}"))
                continue
            if expect and "-or-ok" not in expect:
                v.append((f"C04/malformed-accepted/{expect}", f"{fmt}: expected {expect}, but the structure was written"))
                continue
            results[fmt] = back
            if fields != fields_before:
                v.append(("C04/args-mutated/get_structure-extra_fields",
                          f"{fmt}: get_structure changed the caller's extra_fields list {fields_before} -> {fields}"))
                fields[:] = fields_before
            if sorted(arr.get_annotation_categories()) != arr_cats or sorted(spec.get("extra") or {}) != write_extra:
                v.append(("C04/args-mutated/set_structure", f"{fmt}: set_structure changed its arguments"))
            v += _compare(spec, arr, back, fmt, spec["stack"], "all")
        if fields != fields_before:
            v.append(("C04/args-mutated/get_structure-extra_fields", f"extra_fields list {fields_before} -> {fields}"))
        # bonds restored from the component dictionary (file written without chem_comp_bond)
        if not expect and ccd_fallback_ok(spec):
            for fmt in ("cif", "bcif"):
                try:
                    back = _roundtrip(arr, fmt, spec, fields, write_incl=False, model=None if spec["stack"] else 1)
                except Exception as e:  # noqa: BLE001
                    v.append((f"C04/ccd-fallback/error/{type(e).__name__}", f"{fmt}: include_bonds=False/True raised {type(e).__name__}: {str(e)[:120]}"))
                    continue
                for key, msg in _compare(spec, arr, back, fmt, spec["stack"], "ccd"):
                    # only the intra-residue bonds take another path here; the rest is reported by the main check
                    if key.startswith("C04/bonds/intra/"):
                        v.append((key.replace("C04/bonds/intra/", "C04/bonds/ccd-fallback/intra/"),
                                  "written without chem_comp_bond, bonds from the dictionary: " + msg))
        # text == binary (== compressed up to tolerance)
        if "cif" in results and "bcif" in results:
            a, b = results["cif"], results["bcif"]
            def eq(x, y):
                return np.array_equal(x, y, equal_nan=True) if x.dtype.kind == "f" else np.array_equal(x, y)
            if a.array_length() != b.array_length() or not eq(a.coord, b.coord) or a.bonds != b.bonds or any(
                    not eq(a.get_annotation(c), b.get_annotation(c)) for c in a.get_annotation_categories()):
                v.append(("C04/formats-differ/cif-vs-bcif", "the text and the binary file decode to different structures"))
        # model selection: every positive and negative index selects exactly that model; others are rejected
        if not expect and spec["stack"]:
            import biotite.structure as struc
            for fmt in ("cif", "bcif"):
                for k in list(range(1, m + 1)) + list(range(-m, 0)):
                    try:
                        one = _roundtrip(arr, fmt, spec, fields, model=k)
                    except Exception as e:  # noqa: BLE001
                        v.append(("C04/model-select/error", f"{fmt}: model={k} of {m} raised {type(e).__name__}"))
                        continue
                    ref = arr[k - 1] if k > 0 else arr[m + k]
                    v += _compare(spec, ref, one, fmt, False, "model")
                if fields != fields_before:
                    v.append(("C04/args-mutated/get_structure-extra_fields", f"{fmt}: extra_fields list {fields_before} -> {fields}"))
                    fields[:] = fields_before
                for k in (0, m + 1, -m - 1, -m - 2):
                    try:
                        one = _roundtrip(arr, fmt, spec, model=k)
                        v.append(("C04/model-select/out-of-range-accepted", f"{fmt}: model={k} of {m} returned {one.array_length()} atoms"))
                    except ValueError:
                        pass
                    except Exception as e:  # noqa: BLE001
                        v.append(("C04/model-select/out-of-range-error", f"{fmt}: model={k} of {m} raised {type(e).__name__}"))
    return v


def _oracle_altloc(case):
    """Statement: `first` keeps, per residue, the atoms without altloc id and those with the first id that occurs;
    `occupancy` those with the id of the highest occupancy sum (ties: smallest id)."""
    import warnings
    _setup()
    from biotite.structure.io import pdbx
    info = case["altloc"]
    rows = info["rows"]
    ops = case["ops"]
    site = next(o for o in ops if o.startswith("site ")).split(" ", 1)[1].split(";")
    v = []
    for policy in (["first", "occ"] if info["with_occ"] else ["first"]):
        keep = []
        by_res = {}
        for k, (r, an, al) in enumerate(rows):
            by_res.setdefault(r, []).append(k)
        for r, ks in by_res.items():
            ids = [rows[k][2] for k in ks if rows[k][2] not in (".", "?")]
            if not ids:
                chosen = None
            elif policy == "first":
                chosen = ids[0]
            else:
                sums = {}
                for k in ks:
                    if rows[k][2] not in (".", "?"):
                        sums[rows[k][2]] = sums.get(rows[k][2], 0) + info["occ"][k]
                best = max(sums.values())
                chosen = min(i for i, s in sums.items() if s == best)
            keep += [k for k in ks if rows[k][2] in (".", "?") or rows[k][2] == chosen]
        keep = sorted(keep)
        with warnings.catch_warnings():
            warnings.simplefilter("ignore")
            try:
                arr = pdbx.get_structure(_hand_block(site, None, None), model=1, altloc={"first": "first", "occ": "occupancy"}[policy], extra_fields=["atom_id"])
            except Exception as e:  # noqa: BLE001
                v.append((f"C04/altloc/{policy}/error", f"raised {type(e).__name__}: {e}"))
                continue
        got = [int(x) - 1 for x in arr.atom_id]
        if policy == "first":
            # altloc="all": nothing is filtered, the ids come back as the `altloc_id` annotation
            with warnings.catch_warnings():
                warnings.simplefilter("ignore")
                try:
                    allarr = pdbx.get_structure(_hand_block(site, None, None), model=1, altloc="all", extra_fields=["atom_id"])
                    if [int(x) - 1 for x in allarr.atom_id] != list(range(len(rows))) or [str(x) for x in allarr.altloc_id] != [r[2] for r in rows]:
                        v.append(("C04/altloc/all", f"altloc='all' returned rows {[int(x) - 1 for x in allarr.atom_id]} ids {list(allarr.altloc_id)} for {[r[2] for r in rows]}"))
                except Exception as e:  # noqa: BLE001
                    v.append(("C04/altloc/all/error", f"altloc='all' raised {type(e).__name__}: {e}"))
        if got != keep:
            ids = sorted({rows[k][2] for k in set(got) ^ set(keep)})
            cls = "digit-ids" if any(i.isdigit() for i in ids) else "letter-ids"
            v.append((f"C04/altloc/{policy}/{cls}", f"altlocs {[r[2] for r in rows]} occ {info['occ']}: expected rows {keep}, got {got}"))
    return v


def _oracle_models(case):
    """Statement: model k (1-based, negative from the end) selects exactly the rows of the k-th model; unequal model
    lengths are rejected when all models are requested; out-of-range indices are rejected."""
    import warnings
    _setup()
    from biotite.file import InvalidFileError
    from biotite.structure.io import pdbx
    info = case["models"]
    site = next(o for o in case["ops"] if o.startswith("site ")).split(" ", 1)[1].split(";")
    m = len(info["nums"])
    row_models = info.get("row_models") or [info["nums"][k] for k in range(m) for _ in range(info["lens"][k])]
    appear = list(dict.fromkeys(row_models))                       # model numbers in order of first appearance
    contiguous = all(row_models[i] == row_models[i + 1] or row_models[i] not in row_models[i + 1:] for i in range(len(row_models) - 1))
    counts = [row_models.count(x) for x in appear]
    v = []
    with warnings.catch_warnings():
        warnings.simplefilter("ignore")
        blk = _hand_block(site, None, None)
        for k in list(range(-m - 2, m + 3)):
            try:
                arr = pdbx.get_structure(blk, model=k, extra_fields=["atom_id"])
                got = [int(x) for x in arr.atom_id]
            except ValueError:
                got = "rejected"
            except Exception as e:  # noqa: BLE001
                got = type(e).__name__
            kk = k - 1 if k > 0 else m + k
            want = [i + 1 for i, x in enumerate(row_models) if x == appear[kk]] if (k != 0 and 0 <= kk < m) else "rejected"
            if got != want:
                cls = "in-range" if want != "rejected" else ("negative-out-of-range" if k < 0 else "out-of-range")
                if not contiguous and want != "rejected":
                    cls = "interleaved-models"
                v.append((f"C04/model-select/{cls}", f"model numbers per row {row_models}: model={k} gave ids {got}, expected {want}"))
        try:
            arr = pdbx.get_structure(blk, model=None, extra_fields=["atom_id"])
            if not contiguous:
                v.append(("C04/model-select/interleaved-models-accepted", f"model numbers per row {row_models} read as a stack {arr.stack_depth()}x{arr.array_length()}"))
            elif len(set(counts)) > 1:
                v.append(("C04/model-select/unequal-lengths-accepted", f"lengths {counts} read as a stack of depth {arr.stack_depth()}"))
            elif arr.stack_depth() != m or arr.array_length() != counts[0]:
                v.append(("C04/model-select/stack-shape", f"lengths {counts} read as {arr.stack_depth()}x{arr.array_length()}"))
        except InvalidFileError:
            if contiguous and len(set(counts)) == 1:
                v.append(("C04/model-select/equal-lengths-rejected", f"lengths {counts} rejected"))
    return v


class _Worker:
    """One persistent forked child executes run_impl / oracle requests (a fork per call costs ~35 ms, far too much
    for ~900 calls).  If the child dies (signal) or hangs, the request's case gets the verdict and a new child is
    forked for the next request - a crash of the code under test is a failing input, never a dead check."""
    pid = None
    to_child = from_child = None

    @classmethod
    def _spawn(cls):
        import pickle
        import struct as st
        c_r, p_w = os.pipe()
        p_r, c_w = os.pipe()
        pid = os.fork()
        if pid == 0:
            os.close(p_w)
            os.close(p_r)
            fin, fout = os.fdopen(c_r, "rb"), os.fdopen(c_w, "wb")
            try:
                while True:
                    head = fin.read(4)
                    if len(head) < 4:
                        break
                    what, case = pickle.loads(fin.read(st.unpack("<I", head)[0]))
                    try:
                        res = ("ok", (_run_impl_inner if what == "impl" else _oracle_inner)(case))
                    except BaseException as e:  # noqa: BLE001
                        res = ("err", type(e).__name__, str(e)[:300])
                    data = pickle.dumps(res)
                    fout.write(st.pack("<I", len(data)) + data)
                    fout.flush()
            finally:
                os._exit(0)
        os.close(c_r)
        os.close(c_w)
        cls.pid, cls.to_child, cls.from_child = pid, os.fdopen(p_w, "wb"), os.fdopen(p_r, "rb")

    @classmethod
    def _kill(cls):
        import signal
        try:
            os.kill(cls.pid, signal.SIGKILL)
        except OSError:
            pass
        try:
            _, status = os.waitpid(cls.pid, 0)
        except OSError:
            status = 0
        for fh in (cls.to_child, cls.from_child):
            try:
                fh.close()
            except Exception:  # noqa: BLE001
                pass
        cls.pid = None
        return status

    @classmethod
    def call(cls, what, case, timeout=120):
        import pickle
        import select
        import struct as st
        if cls.pid is None:
            cls._spawn()
        try:
            data = pickle.dumps((what, case))
            cls.to_child.write(st.pack("<I", len(data)) + data)
            cls.to_child.flush()
            ready, _, _ = select.select([cls.from_child], [], [], timeout)
            if not ready:
                cls._kill()
                return ("timeout",)
            head = cls.from_child.read(4)
            if len(head) < 4:
                status = cls._kill()
                return ("crash", os.WTERMSIG(status) if os.WIFSIGNALED(status) else -1)
            return pickle.loads(cls.from_child.read(st.unpack("<I", head)[0]))
        except (BrokenPipeError, OSError):
            status = cls._kill()
            return ("crash", os.WTERMSIG(status) if os.WIFSIGNALED(status) else -1)


def oracle(case):
    """Runs in a (persistent) forked child: a crash or hang of the code under test (bonds.pyx, encoding.pyx) is a
    verdict with this case as the failing input, never a dead check."""
    _setup()
    res = _Worker.call("oracle", case)
    if res[0] == "ok":
        return res[1]
    if res[0] == "err":
        return [(f"oracle-crash/{res[1]}", f"oracle raised {res[1]}: {res[2]}")]
    if res[0] == "crash":
        return [(f"C04/crash/signal{res[1]}", f"the process died (signal {res[1]}) while writing/reading this case")]
    return [("C04/crash/timeout", "writing/reading this case did not finish within 120 s")]


def _oracle_inner(case):
    """An exception that escapes one of the oracles is itself a verdict with a key of its own (kind + exception)."""
    import traceback
    try:
        return _oracle_dispatch(case)
    except Exception as e:  # noqa: BLE001
        tb = traceback.extract_tb(e.__traceback__)
        where = next((f"{fr.name}:{fr.lineno}" for fr in reversed(tb) if "biotite" in fr.filename), f"{tb[-1].name}:{tb[-1].lineno}")
        return [(f"C04/{case.get('kind')}/exception/{type(e).__name__}",
                 f"{type(e).__name__} escaped while checking this case at {where}: {str(e)[:160]}")]


def _oracle_dispatch(case):
    k = case.get("kind")
    if k == "api":
        return _oracle_api(case)
    if k in ("struct", "struct-limit", "struct-strings", "struct-edge", "struct-hyp", "malformed"):
        return _oracle_struct(case)
    if k == "altloc":
        return _oracle_altloc(case)
    if k == "models":
        return _oracle_models(case)
    if k == "large-dict":
        return _oracle_large(case)
    if k == "boxes":
        return _oracle_boxes(case)
    if k == "symmetry":
        return _oracle_symmetry(case)
    return []


def nontrivial(case, impl_out):
    spec = case.get("spec")
    if spec is not None:
        return len(res_starts(spec["atoms"])) > 2 or bool(spec.get("bonds")) or any(o.startswith("ERR") for o in impl_out or [])
    return True


def signature(case):
    return "|".join(case["ops"])


def distribution(cases_, impl_outs):
    d = {"models": {}, "bond_types_inter": {}, "bond_types_intra": {}, "outcomes": {}, "atoms": {}}
    for c, o in zip(cases_, impl_outs):
        for line in o or []:
            k = line.split(" ")[0].split("=")[0]
            d["outcomes"][k] = d["outcomes"].get(k, 0) + 1
        spec = c.get("spec")
        if not spec:
            continue
        m = str(len(spec["coords"]))
        d["models"][m] = d["models"].get(m, 0) + 1
        n = len(spec["atoms"])
        b = "0" if n == 0 else "1-5" if n <= 5 else "6-15" if n <= 15 else "16+"
        d["atoms"][b] = d["atoms"].get(b, 0) + 1
        st = res_starts(spec["atoms"])
        for i, j, t in spec.get("bonds") or []:
            ri = max(r for r in range(len(st) - 1) if st[r] <= i)
            rj = max(r for r in range(len(st) - 1) if st[r] <= j)
            key = "bond_types_intra" if ri == rj else "bond_types_inter"
            d[key][str(t)] = d[key].get(str(t), 0) + 1
    return d


def search(rng, problems, tier):
    yield from corpus()
    yield from cases(rng, "quick")
    for _ in range(150):
        yield _struct_case(rng, gen_spec(rng, "valid"))


def shrink(case, key):
    """Drop bonds / models / optional fields while the same key is still reported."""
    spec = case.get("spec")
    if not spec or case.get("kind") not in ("struct", "struct-limit", "struct-strings"):
        return case
    import copy
    import random
    from common.util import shrink_list

    def fails(sp):
        c = dict(case, spec=sp)
        try:
            return any(k == key for k, _ in oracle(c))
        except Exception:  # noqa: BLE001
            return False
    sp = copy.deepcopy(spec)
    for field, val in (("b_factor", None), ("occupancy", None), ("extra", {}), ("box", None)):
        t = dict(sp, **{field: val})
        if fails(t):
            sp = t
    if len(sp["coords"]) > 1:
        t = dict(sp, coords=sp["coords"][:1], stack=False)
        if fails(t):
            sp = t
    if sp.get("bonds"):
        sp["bonds"] = shrink_list(sp["bonds"], lambda bs: fails(dict(sp, bonds=bs)), max_steps=60)
    return _struct_case(random.Random(0), sp, case["kind"], case.get("expect"))

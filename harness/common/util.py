"""Small shared helpers: PRNG, canonical printing, shrinking."""
import json
import random


def rng_for(seed, stream):
    """All random choices of one run derive from (VERIF_SEED, stream name)."""
    return random.Random(f"{seed}/{stream}")


def canon_err(e):
    return "ERR:" + type(e).__name__


def shrink_list(items, still_fails, max_steps=400):
    """Delta-debugging style shrink of a list; still_fails(list)->bool."""
    steps = 0
    n = 2
    cur = list(items)
    while len(cur) >= 1 and steps < max_steps:
        chunk = max(1, len(cur) // n)
        reduced = False
        i = 0
        while i < len(cur):
            cand = cur[:i] + cur[i + chunk:]
            steps += 1
            if cand != cur and still_fails(cand):
                cur = cand
                reduced = True
            else:
                i += chunk
            if steps >= max_steps:
                break
        if not reduced:
            if chunk == 1:
                break
            n = min(len(cur), n * 2)
    return cur


def jdump(x):
    return json.dumps(x, sort_keys=True, default=str)

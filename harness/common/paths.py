"""Checkout-relative locations used by every part of the harness."""
import os

VERIF = os.path.dirname(os.path.dirname(os.path.dirname(os.path.abspath(__file__))))
REPO = os.environ.get("VERIF_REPO", "/repo")
SRC = os.path.join(REPO, "src")
LEAN = os.path.join(VERIF, "lean")
BUILD = os.path.join(VERIF, ".build")
EVIDENCE = os.path.join(VERIF, "evidence")
REPLAYS = os.path.join(VERIF, "replays")
CORPUS = os.path.join(VERIF, "corpus")
FIXTURES = os.path.join(VERIF, "fixtures")
KNOWN_FINDINGS = os.path.join(VERIF, "known_findings.json")
PYTHON = "/venv/bin/python"

"""known_findings.json: committed, never written at run time (DESIGN.md §4.3)."""
import json
import os

from . import paths


def load(prop):
    """Returns (open_findings: {key: entry}, fixed: [entry])."""
    data = {"findings": [], "fixed": []}
    files = [paths.KNOWN_FINDINGS]
    ddir = os.path.join(paths.VERIF, "known_findings.d")
    if os.path.isdir(ddir):
        files += [os.path.join(ddir, f) for f in sorted(os.listdir(ddir)) if f.endswith(".json")]
    for fn in files:
        if os.path.exists(fn):
            with open(fn) as f:
                d = json.load(f)
            data["findings"] += d.get("findings", [])
            data["fixed"] += d.get("fixed", [])
    open_f = {e["key"]: e for e in data.get("findings", []) if e["property"] == prop}
    fixed = [e for e in data.get("fixed", []) if e["property"] == prop]
    return open_f, fixed

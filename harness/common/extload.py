"""Tie between Cython sources (.pyx), their generated C (.c/.cpp) and the loaded binary (.so).

DESIGN.md §3.3.  The sandbox has no Cython.  /repo ships the generated C next to every
.pyx (git-ignored), and gcc + headers are present.  On every run, for every extension a
property is anchored in:

* .c/.cpp hash == pinned baseline and normalised .pyx hash == baseline  -> shipped .so is used;
* .c/.cpp hash != baseline -> it is compiled into /verif/.build/ext/<hash>/ and loaded
  instead of the shipped .so (a sys.meta_path finder overrides exactly that module name);
  the source lines quoted in the C are compared with the current .pyx (coherence);
* .pyx changed (code lines, not comments/docstrings/blank lines) but .c did not: try
  `cython` if the environment has it, otherwise the tie for that module is broken.

Returns a list of tie problems; never raises for a broken tie.
"""
import hashlib
import importlib.abc
import importlib.machinery
import importlib.util
import json
import os
import re
import shutil
import subprocess
import sys
import sysconfig

from . import paths

BASELINE_FILE = os.path.join(paths.VERIF, "tools", "ext_baseline.json")
SUFFIX = ".cpython-312-x86_64-linux-gnu.so"


def normalise_pyx(text):
    """Code lines of a .pyx: comments, blank lines and docstring statements removed."""
    out = []
    in_doc = None
    for raw in text.splitlines():
        line = raw.rstrip()
        s = line.strip()
        if in_doc:
            if in_doc in s:
                in_doc = None
            continue
        m = re.match(r'^[rRuUbB]{0,2}("""|\'\'\')', s)
        if m:
            q = m.group(1)
            rest = s[m.end():]
            if q not in rest:
                in_doc = q
            continue
        if not s or s.startswith("#"):
            continue
        # strip trailing comment (naive but quote-aware enough: only when no quote after '#')
        if "#" in line:
            idx = line.find("#")
            before = line[:idx]
            if before.count('"') % 2 == 0 and before.count("'") % 2 == 0:
                line = before.rstrip()
                if not line.strip():
                    continue
        out.append(re.sub(r"\s+", " ", line.strip()))
    return "\n".join(out)


def sha(b):
    if isinstance(b, str):
        b = b.encode()
    return hashlib.sha256(b).hexdigest()


def module_files(modname):
    rel = modname.replace(".", "/")
    base = os.path.join(paths.SRC, rel)
    pyx = base + ".pyx"
    c = base + ".c" if os.path.exists(base + ".c") else (base + ".cpp" if os.path.exists(base + ".cpp") else None)
    so = base + SUFFIX
    return pyx, c, so


def all_ext_modules():
    mods = []
    for root, _dirs, files in os.walk(os.path.join(paths.SRC, "biotite")):
        for f in files:
            if f.endswith(".pyx"):
                rel = os.path.relpath(os.path.join(root, f), paths.SRC)[:-4]
                mods.append(rel.replace(os.sep, "."))
    return sorted(mods)


def snapshot(modname):
    pyx, c, so = module_files(modname)
    d = {}
    d["pyx"] = sha(normalise_pyx(open(pyx, encoding="utf-8").read())) if os.path.exists(pyx) else None
    d["c"] = sha(open(c, "rb").read()) if c and os.path.exists(c) else None
    d["so"] = sha(open(so, "rb").read()) if os.path.exists(so) else None
    return d


def write_baseline():
    data = {m: snapshot(m) for m in all_ext_modules()}
    with open(BASELINE_FILE, "w") as f:
        json.dump(data, f, indent=1, sort_keys=True)
    return data


def load_baseline():
    with open(BASELINE_FILE) as f:
        return json.load(f)


def _compile(csrc, modname, outdir):
    os.makedirs(outdir, exist_ok=True)
    out = os.path.join(outdir, modname.split(".")[-1] + SUFFIX)
    if os.path.exists(out):
        return out, ""
    import numpy

    inc_py = sysconfig.get_paths()["include"]
    inc_np = numpy.get_include()
    cpp = csrc.endswith(".cpp")
    cmd = ["g++" if cpp else "gcc", "-shared", "-fPIC", "-O1", "-w",
           "-DNPY_NO_DEPRECATED_API=NPY_1_7_API_VERSION",
           "-I" + inc_py, "-I" + inc_np, "-I" + os.path.dirname(csrc), csrc, "-o", out + ".tmp"]
    if cpp:
        cmd.insert(1, "-std=c++11")
    p = subprocess.run(cmd, capture_output=True, text=True)
    if p.returncode != 0:
        return None, p.stderr[-2000:]
    os.replace(out + ".tmp", out)
    return out, ""


def _same_ascii(quoted, cur):
    """Cython does not reproduce non-ASCII characters of the source line in the comment it writes into the C file (it drops or
    replaces them): compare what is left when they are taken out on both sides."""
    def strip(s_):
        return re.sub(r"[^\x20-\x7e]", "", s_).strip()

    def mask(s_):
        return re.sub(r"[^\x20-\x7e]", "?", s_).strip()
    q = quoted.strip()
    return strip(q) == strip(cur) or q == mask(cur) or strip(q.replace("?", "")) == strip(cur).replace("?", "")


def coherence(pyx_path, c_path):
    """Compare the source lines the generated C quotes with the current .pyx.

    Returns list of (lineno, quoted, current) mismatches."""
    try:
        pyx_lines = open(pyx_path, encoding="utf-8").read().splitlines()
        ctext = open(c_path, encoding="utf-8", errors="replace").read()
    except OSError:
        return [(-1, "missing", "missing")]
    base = os.path.basename(pyx_path)
    mism = {}
    for m in re.finditer(r'/\* "[^"\n]*' + re.escape(base) + r'":(\d+)\n(.*?)\*/', ctext, re.S):
        n = int(m.group(1))
        for ln in m.group(2).splitlines():
            if ln.rstrip().endswith("# <<<<<<<<<<<<<<"):
                quoted = ln[3:].rstrip()[: -len("# <<<<<<<<<<<<<<")].rstrip() if ln.startswith(" * ") else ln
                cur = pyx_lines[n - 1].rstrip() if 0 < n <= len(pyx_lines) else "<EOF>"
                if quoted.strip() != cur.strip() and not _same_ascii(quoted, cur):
                    mism[n] = (n, quoted.strip(), cur.strip())
    return sorted(mism.values())


class _OverrideFinder(importlib.abc.MetaPathFinder):
    def __init__(self):
        self.map = {}

    def find_spec(self, fullname, path=None, target=None):
        p = self.map.get(fullname)
        if p is None:
            return None
        loader = importlib.machinery.ExtensionFileLoader(fullname, p)
        return importlib.util.spec_from_file_location(fullname, p, loader=loader)


_finder = _OverrideFinder()


def prepare(modnames):
    """Establish the source<->binary tie for the given extension modules.

    Must be called before biotite is imported.  Returns (problems, info):
    problems: list of dicts {kind, module, detail}; info: per-module status string."""
    problems = []
    info = {}
    try:
        baseline = load_baseline()
    except OSError:
        return [{"kind": "ext-baseline-missing", "module": "*", "detail": BASELINE_FILE}], {}
    if _finder not in sys.meta_path:
        sys.meta_path.insert(0, _finder)
    for mod in modnames:
        pyx, c, so = module_files(mod)
        cur = snapshot(mod)
        base = baseline.get(mod)
        if base is None:
            info[mod] = "not-in-baseline"
            continue
        pyx_changed = cur["pyx"] != base["pyx"]
        c_changed = cur["c"] != base["c"]
        so_changed = cur["so"] != base["so"]
        if not pyx_changed and not c_changed:
            info[mod] = "shipped" if not so_changed else "shipped(so differs from baseline; used as is)"
            continue
        if pyx_changed and not c_changed:
            # try cython if present
            cy = shutil.which("cython") or shutil.which("cython3")
            regenerated = None
            if cy is None:
                try:
                    import Cython  # noqa: F401
                    cy = [sys.executable, "-m", "cython"]
                except Exception:
                    cy = None
            else:
                cy = [cy]
            if cy is not None:
                outdir = os.path.join(paths.BUILD, "ext", "cy-" + cur["pyx"][:16])
                os.makedirs(outdir, exist_ok=True)
                ext = ".cpp" if (c or "").endswith(".cpp") else ".c"
                cout = os.path.join(outdir, os.path.basename(pyx)[:-4] + ext)
                cmd = cy + ["-3", pyx, "-o", cout] + (["--cplus"] if ext == ".cpp" else [])
                import numpy
                p = subprocess.run(cmd + ["-I", os.path.dirname(pyx), "-I", numpy.get_include()], capture_output=True, text=True)
                if p.returncode == 0:
                    regenerated = cout
            if regenerated:
                out, err = _compile(regenerated, mod, os.path.dirname(regenerated))
                if out:
                    _finder.map[mod] = out
                    info[mod] = "regenerated with cython and rebuilt"
                    continue
            if so_changed:
                # the tree ships a new binary without the C: cannot relate it to the source, use as is
                info[mod] = "pyx changed, .so changed, .c unchanged: shipped .so used, source tie not checkable"
                problems.append({"kind": "pyx-binary", "module": mod,
                                 "detail": ".pyx code changed and .so changed but the generated C did not; cannot show the binary reflects the source"})
            else:
                info[mod] = "pyx changed but neither .c nor .so followed; no Cython available"
                problems.append({"kind": "pyx-binary", "module": mod,
                                 "detail": ".pyx code lines changed but generated C and binary are unchanged and Cython is not available: the running code is not the source"})
            continue
        # c changed: rebuild and load it
        out, err = _compile(c, mod, os.path.join(paths.BUILD, "ext", cur["c"][:16]))
        if out is None:
            info[mod] = "compile failed"
            problems.append({"kind": "ext-compile", "module": mod, "detail": err})
            continue
        _finder.map[mod] = out
        info[mod] = "rebuilt from changed generated C"
        if pyx_changed:
            mism = coherence(pyx, c)
            if mism:
                problems.append({"kind": "pyx-c-coherence", "module": mod,
                                 "detail": "generated C quotes source lines that differ from the .pyx: " + repr(mism[:5])})
        else:
            # C changed, source did not: the binary we run is built from the C, source tie unknown
            problems.append({"kind": "pyx-c-coherence", "module": mod,
                             "detail": "generated C changed while the .pyx code did not"})
    return problems, info


if __name__ == "__main__":
    if len(sys.argv) > 1 and sys.argv[1] == "baseline":
        d = write_baseline()
        print("wrote", BASELINE_FILE, len(d), "modules")
    else:
        pr, inf = prepare(all_ext_modules())
        print(json.dumps({"problems": pr, "info": inf}, indent=1))

"""Build, audit and drive the Lean project (DESIGN.md §2.1 steps 2-4)."""
import fcntl
import os
import re
import subprocess
import time

from . import paths

ALLOWED_AXIOMS = {"propext", "Classical.choice", "Quot.sound"}
FORBIDDEN = re.compile(r"\b(sorry|admit|native_decide|bv_decide|implemented_by|unsafe)\b|^\s*axiom\s|maxHeartbeats\s+0\b", re.M)


def _lock(shared=False):
    """Build-directory lock.  Writers (lake build, possibly after deleting .olean files for a clean rebuild; the axiom audit)
    take it exclusively; readers that only load compiled files (the driver, leanchecker) take it shared, so that a clean rebuild
    by a concurrent thorough run cannot delete files under them."""
    os.makedirs(os.path.join(paths.LEAN, ".lake"), exist_ok=True)
    f = open(os.path.join(paths.LEAN, ".lake", "verif.lock"), "a")
    fcntl.flock(f, fcntl.LOCK_SH if shared else fcntl.LOCK_EX)
    return f


def strip_comments(src):
    # remove nested block comments and line comments (string literals containing "--" are rare in our sources)
    out = []
    i = 0
    depth = 0
    n = len(src)
    while i < n:
        if src.startswith("/-", i):
            depth += 1
            i += 2
        elif depth and src.startswith("-/", i):
            depth -= 1
            i += 2
        elif depth:
            if src[i] == "\n":
                out.append("\n")
            i += 1
        elif src.startswith("--", i):
            j = src.find("\n", i)
            i = n if j < 0 else j
        elif src[i] == "'" and i + 2 < n and (src[i + 2] == "'" or (src[i + 1] == "\\" and i + 3 < n and src[i + 3] == "'")):
            # char literal such as '"' or '\n' (not a string start, not a prime in an identifier)
            k = i + 3 if src[i + 2] == "'" else i + 4
            out.append("'c'")
            i = k
        elif src[i] == '"':
            j = i + 1
            while j < n and src[j] != '"':
                j += 2 if src[j] == "\\" else 1
            out.append('""')
            i = j + 1
        else:
            out.append(src[i])
            i += 1
    return "".join(out)


def module_path(mod):
    return os.path.join(paths.LEAN, mod.replace(".", "/") + ".lean")


def theorems_in(mod):
    """Names of the top-level theorems declared in a module, in order."""
    try:
        src = strip_comments(open(module_path(mod)).read())
    except OSError:
        return []
    return re.findall(r"^\s*(?:@\[[^\]]*\]\s*)?(?:private\s+|protected\s+)?theorem\s+([^\s:({\[]+)", src, re.M)


def imports_closure(mods):
    """All project-local modules transitively imported by mods."""
    seen = []
    todo = list(mods)
    while todo:
        m = todo.pop()
        if m in seen or not m.startswith("BiotiteModel"):
            continue
        p = module_path(m)
        if not os.path.exists(p):
            continue
        seen.append(m)
        for imp in re.findall(r"^import\s+(\S+)", open(p).read(), re.M):
            todo.append(imp)
    return seen


def source_audit(mods):
    """grep the sources of mods (+ local imports) for forbidden constructs outside comments."""
    hits = []
    for m in imports_closure(mods):
        src = strip_comments(open(module_path(m)).read())
        for mm in FORBIDDEN.finditer(src):
            line = src.count("\n", 0, mm.start()) + 1
            hits.append(f"{m}:{line}:{mm.group(0).strip()}")
    return hits


def build(mods, clean=False, timeout=3000, only=None):
    """lake build the given modules. Returns (ok, log, failing: {module: [theorem names or '?']})."""
    lock = _lock()
    try:
        if clean:
            for m in imports_closure(mods):
                if only is not None and only not in m:
                    continue          # shared modules (Common, other properties' models) are never deleted under others' feet
                rel = m.replace(".", "/")
                for ext in (".olean", ".ilean", ".trace", ".olean.hash", ".ilean.hash", ".c", ".c.hash",
                            ".olean.server", ".olean.private", ".ir", ".ir.hash"):
                    p = os.path.join(paths.LEAN, ".lake", "build", "lib", "lean", rel + ext)
                    if os.path.exists(p):
                        os.remove(p)
        t0 = time.time()
        p = subprocess.run(["lake", "build"] + list(mods), cwd=paths.LEAN, capture_output=True, text=True, timeout=timeout)
        log = p.stdout + p.stderr
        failing = {}
        if p.returncode != 0:
            for mm in re.finditer(r"error: ([^\s:]+\.lean):(\d+):(\d+):", log):
                f, line = mm.group(1), int(mm.group(2))
                fp = f if os.path.isabs(f) else os.path.join(paths.LEAN, f)
                mod = os.path.relpath(fp, paths.LEAN)[:-5].replace(os.sep, ".")
                name = "?"
                try:
                    src = open(fp).read().splitlines()
                    for k in range(min(line, len(src)) - 1, -1, -1):
                        m2 = re.match(r"\s*(?:@\[[^\]]*\]\s*)?(?:private\s+|protected\s+)?(?:theorem|lemma|def|example|instance|abbrev)\s+([^\s:({\[]+)?", src[k])
                        if m2:
                            name = m2.group(1) or "example"
                            break
                except OSError:
                    pass
                failing.setdefault(mod, [])
                if name not in failing[mod]:
                    failing[mod].append(name)
            if not failing:
                failing["?"] = ["?"]
        return p.returncode == 0, log, failing, time.time() - t0
    finally:
        lock.close()


def audit_axioms(prop, props_mod, names, timeout=1200):
    """`#print axioms` for every name. Returns {name: set(axioms) | None if unknown}."""
    d = os.path.join(paths.LEAN, ".lake", "audit")
    os.makedirs(d, exist_ok=True)
    # one file per process: concurrent checks of the same property must not overwrite each other's audit file
    f = os.path.join(d, f"{prop}-{os.getpid()}.lean")
    with open(f, "w") as fh:
        fh.write(f"import {props_mod}\n")
        try:
            for ns in dict.fromkeys(re.findall(r"^namespace\s+(\S+)", strip_comments(open(module_path(props_mod)).read()), re.M)):
                fh.write(f"open {ns}\n")
        except OSError:
            pass
        for n in names:
            fh.write(f"#print axioms {n}\n")
    for attempt in range(2):
        lock = _lock()
        try:
            p = subprocess.run(["lake", "env", "lean", f], cwd=paths.LEAN, capture_output=True, text=True, timeout=timeout)
        finally:
            lock.close()
        if attempt == 0 and p.returncode != 0 and re.search(r"object file .* does not exist|unknown module prefix|could not find", p.stdout + p.stderr):
            # another run's clean rebuild removed compiled files between our build and this audit: build again, audit again
            try:
                build([props_mod])
            except Exception:
                pass
            continue
        break
    try:
        # keep the last audit file under the stable name the evidence's checker_cmd refers to
        os.replace(f, os.path.join(d, f"{prop}.lean"))
    except OSError:
        pass
    out = p.stdout + p.stderr
    res = {n: None for n in names}

    def put(full, val):
        for n in names:
            if full == n or full.endswith("." + n):
                res[n] = val

    for m in re.finditer(r"'([^']+)' depends on axioms: \[([^\]]*)\]", out):
        put(m.group(1), {a.strip() for a in m.group(2).replace("\n", " ").split(",") if a.strip()})
    for m in re.finditer(r"'([^']+)' does not depend on any axioms", out):
        put(m.group(1), set())
    return res, out


def leanchecker(mods, timeout=3000):
    lock = _lock(shared=True)
    try:
        p = subprocess.run(["lake", "env", "leanchecker"] + list(mods), cwd=paths.LEAN, capture_output=True, text=True, timeout=timeout)
    finally:
        lock.close()
    return p.returncode == 0, (p.stdout + p.stderr)[-3000:]


def run_driver(prop, lines, timeout=1800):
    """Feed protocol lines to the Lean driver of a property; returns output lines (one per input line)."""
    stub = os.path.join(paths.LEAN, "Drivers", f"{prop}.lean")
    data = "\n".join(lines) + "\n"
    # no `lake` here: plain `lean --run` with the project's build directory on LEAN_PATH, so that a concurrent
    # `lake build` of another property cannot interfere; one retry for transient failures
    env = dict(os.environ)
    env["LEAN_PATH"] = os.path.join(paths.LEAN, ".lake", "build", "lib", "lean")
    for attempt in range(3):
        lock = _lock(shared=True)          # a concurrent clean rebuild must not delete the compiled model while the driver loads it
        try:
            p = subprocess.run(["lean", "--run", stub], cwd=paths.LEAN, input=data, env=env,
                               capture_output=True, text=True, timeout=timeout)
        finally:
            lock.close()
        out = p.stdout.splitlines()
        if p.returncode == 0 and len(out) == len(lines):
            break
        time.sleep(1.0)
        if attempt == 1:
            # the compiled files may have been removed by another run's clean rebuild in between: bring them back, then a last try
            try:
                build([f"BiotiteModel.Driver.{prop}"])
            except Exception:
                pass
    return out, p.returncode, p.stderr[-3000:]

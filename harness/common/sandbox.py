"""Run crash-prone calls (Cython with boundscheck(False), deep recursion) in a forked child."""
import os
import pickle
import signal
import traceback


def err_name(e):
    """Canonical error enum used on both sides of the line protocol."""
    n = type(e).__name__
    return n


def run_forked(fn, *args, timeout=60):
    """Returns ('ok', value) | ('err', ExceptionClassName, message) | ('crash', signal number) | ('timeout',)."""
    r, w = os.pipe()
    pid = os.fork()
    if pid == 0:
        os.close(r)
        try:
            try:
                res = ("ok", fn(*args))
            except BaseException as e:  # noqa: BLE001
                res = ("err", type(e).__name__, str(e)[:300])
            with os.fdopen(w, "wb") as f:
                pickle.dump(res, f)
        except BaseException:  # noqa: BLE001
            traceback.print_exc()
        finally:
            os._exit(0)
    os.close(w)

    def _alarm(_s, _f):
        raise TimeoutError

    old = signal.signal(signal.SIGALRM, _alarm)
    signal.alarm(timeout)
    try:
        with os.fdopen(r, "rb") as f:
            data = f.read()
        _, status = os.waitpid(pid, 0)
    except TimeoutError:
        os.kill(pid, signal.SIGKILL)
        os.waitpid(pid, 0)
        return ("timeout",)
    finally:
        signal.alarm(0)
        signal.signal(signal.SIGALRM, old)
    if os.WIFSIGNALED(status):
        return ("crash", os.WTERMSIG(status))
    if not data:
        return ("crash", -1)
    return pickle.loads(data)

#!/bin/bash
# tools/mk_scratch_repo.sh <dir>   — scratch git worktree of /repo (HEAD) including the git-ignored
# build artefacts (*.so, generated *.c/*.cpp) the checks need.  Use with  VERIF_REPO=<dir> ./check Cxx quick
# Remove with:  git -C /repo worktree remove --force <dir>
set -e
d="$1"; [ -n "$d" ] || { echo "usage: $0 <dir>"; exit 2; }
git -C /repo worktree add --detach "$d" HEAD >/dev/null
cd /repo
find src -name '*.so' -o -name '*.c' -o -name '*.cpp' | while read f; do cp -p "$f" "$d/$f"; done
# non-tracked data files the package needs at import time (if any)
for f in src/biotite/version.py; do [ -f "$f" ] && [ ! -f "$d/$f" ] && cp -p "$f" "$d/$f"; done
echo "scratch repo at $d"

#!/usr/bin/env python3
"""Regenerate MANIFEST.json from the plugins' constants (run after adding/changing a plugin)."""
import ast
import json
import os

VERIF = os.path.dirname(os.path.dirname(os.path.abspath(__file__)))
BASELINE = "cd /repo && /venv/bin/python -m pytest -ra -q -p no:cacheprovider --timeout=900 --continue-on-collection-errors"


def meta(path):
    tree = ast.parse(open(path).read())
    m = {}
    for node in tree.body:
        if isinstance(node, ast.Assign) and len(node.targets) == 1 and isinstance(node.targets[0], ast.Name):
            try:
                m[node.targets[0].id] = ast.literal_eval(node.value)
            except Exception:
                pass
    return m


def main():
    props = [json.loads(l) for l in open(os.path.join(VERIF, "properties.jsonl"))]
    checks, na = [], []
    pending = {}
    pf = os.path.join(VERIF, "tools", "not_claimed.json")
    if os.path.exists(pf):
        pending = json.load(open(pf))
    for p in props:
        pid = p["id"]
        plug = os.path.join(VERIF, "harness", "props", pid.lower() + ".py")
        if pid in pending or not os.path.exists(plug):
            na.append({"property_id": pid, "reason": pending.get(pid, "check not built yet (under construction; see DESIGN.md §7 for the plan)")})
            continue
        m = meta(plug)
        checks.append({
            "property_id": pid,
            "quick_cmd": f"./check {pid} quick",
            "thorough_cmd": f"./check {pid} thorough",
            "evidence_file": f"evidence/{pid}.json",
            "replay_cmd_template": f"./check {pid} --replay {{path}}",
            "engine": "lean4-model+correspondence",
            "level_claimed": {
                "category": "proof",
                "text": m.get("LEVEL_TEXT", "Lean 4 theorems about an executable model of the anchored code, tied to /repo by regenerated tables and a differential correspondence check"),
                "design_ref": f"DESIGN.md §7 {pid}",
            },
            "level_note": m.get("LEVEL_NOTE", "Trusted: Lean kernel + {propext, Classical.choice, Quot.sound}; the correspondence harness and translators; numpy/CPython/Cython-generated C modelled, not verified."),
            "technique": m.get("TECHNIQUE", "Lean 4 machine-checked proof over a hand-written executable model + regenerated tables; model tied to the code by differential correspondence on seeded inputs"),
        })
    man = {
        "version": 1,
        "setup_cmd": "cd lean && lake build 2>&1 | tail -5",
        "hooks": {
            "guard": "BIOTITE_VERIF",
            "enable": "no source hooks are needed: every observation goes through public API; the checks export BIOTITE_VERIF=1 for uniformity",
            "baseline_off_cmd": BASELINE,
            "source_commits": [],
            "add_only": True,
        },
        "engines": [{
            "name": "lean4-model+correspondence",
            "path": "lean/ (lake project BiotiteModel), harness/run_check.py, harness/props/*.py",
            "serves_properties": [c["property_id"] for c in checks],
            "kind_free_text": "Lean 4.33 theorems over executable models; Gen/*.lean regenerated from /repo on every run; Python harness drives real code and Lean driver through a line protocol and diffs; independent property oracle for the failing-input search",
        }],
        "checks": checks,
        "not_applicable": na,
        "notes": "See DESIGN.md. known_findings.json (+ known_findings.d/) lists genuine defects recorded rather than repaired.",
    }
    with open(os.path.join(VERIF, "MANIFEST.json"), "w") as f:
        json.dump(man, f, indent=1)
    print("claimed:", [c["property_id"] for c in checks], "not claimed:", [n["property_id"] for n in na])


if __name__ == "__main__":
    main()

#!/usr/bin/env python3
"""tools/keep_seeded.py <src dir> <seeded id> <PID> <exit code of check> "<how it was caught / missed>"
Copies patch.diff [c.diff] demo.py meta.json into /verif/seeded/<id>/ and records what was run."""
import json, os, shutil, sys
src, sid, pid, rc, how = sys.argv[1:6]
V = os.path.dirname(os.path.dirname(os.path.abspath(__file__)))
dst = os.path.join(V, "seeded", sid)
if os.path.exists(os.path.join(dst, 'meta.json')) and not os.environ.get('KEEP_OVERWRITE'):
    sys.exit(f'{dst} exists already - choose the next free id (KEEP_OVERWRITE=1 to replace)')
os.makedirs(dst, exist_ok=True)
for f in ("patch.diff", "c.diff", "demo.py"):
    if os.path.exists(os.path.join(src, f)):
        shutil.copy(os.path.join(src, f), os.path.join(dst, f))
m = json.load(open(os.path.join(src, "meta.json")))
m.update({"breaks_property": pid, "confirmed": {
    "demo_on_mutated_tree_exit": 1, "demo_on_repo_exit": 0,
    "ran": f"tools/try_seeded.sh seeded/{sid} {pid}  (scratch worktree of /repo + patch; VERIF_REPO=<wt> ./check {pid} quick)",
    "check_exit": int(rc), "caught": int(rc) == 1, "how": how}})
json.dump(m, open(os.path.join(dst, "meta.json"), "w"), indent=1)
print("kept", dst)

#!/usr/bin/env python3
"""tools/make_mutation_prompt.py PID N WT  -> prints the self-contained prompt for a mutation sub-agent."""
import json, os, sys
V = os.path.dirname(os.path.dirname(os.path.abspath(__file__)))
pid, n, wt = sys.argv[1], sys.argv[2], sys.argv[3]
p = next(json.loads(l) for l in open(os.path.join(V, "properties.jsonl")) if json.loads(l)["id"] == pid)
t = open(os.path.join(V, "tools", "mutation_prompt.md")).read()
anch = "; ".join(p["anchors"].get("files", [])) + " — mechanisms: " + "; ".join(f"{m['name']} ({m['where']})" for m in p["anchors"].get("mechanism", []))
for k, v in {"{WT}": wt, "{PID}": pid, "{TITLE}": p["title"], "{STATEMENT}": p["statement"], "{QUANT}": p["quantifier"]["text"], "{ANCHORS}": anch, "{N}": n}.items():
    t = t.replace(k, v)
print(t)

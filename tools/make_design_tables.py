#!/usr/bin/env python3
"""Regenerate the generated parts of DESIGN.md (between `<!-- BEGIN GENERATED:x -->` / `<!-- END GENERATED:x -->` markers)
from what is actually in the tree: plugins' constants, Props/*.lean theorem names, known findings, seeded changes."""
import ast
import glob
import json
import os
import re
import sys

V = os.path.dirname(os.path.dirname(os.path.abspath(__file__)))
sys.path.insert(0, os.path.join(V, "harness"))
from common import lean  # noqa: E402


def meta(path):
    m = {}
    for node in ast.parse(open(path).read()).body:
        if isinstance(node, ast.Assign) and len(node.targets) == 1 and isinstance(node.targets[0], ast.Name):
            try:
                m[node.targets[0].id] = ast.literal_eval(node.value)
            except Exception:
                pass
    return m


def findings():
    data = {"findings": [], "fixed": []}
    for fn in [os.path.join(V, "known_findings.json")] + sorted(glob.glob(os.path.join(V, "known_findings.d", "*.json"))):
        d = json.load(open(fn))
        data["findings"] += d.get("findings", [])
        data["fixed"] += d.get("fixed", [])
    return data


def seeded():
    out = []
    for d in sorted(glob.glob(os.path.join(V, "seeded", "*"))):
        mp = os.path.join(d, "meta.json")
        if os.path.exists(mp):
            m = json.load(open(mp))
            m["_id"] = os.path.basename(d)
            out.append(m)
    return out


def esc(s):
    return str(s).replace("|", "\\|").replace("\n", " ")


def per_property():
    props = [json.loads(l) for l in open(os.path.join(V, "properties.jsonl"))]
    man = json.load(open(os.path.join(V, "MANIFEST.json")))
    claimed = {c["property_id"] for c in man["checks"]}
    f = findings()
    sd = seeded()
    out = []
    for p in props:
        pid = p["id"]
        plug = os.path.join(V, "harness", "props", pid.lower() + ".py")
        out.append(f"### {pid} — {p['title']}\n")
        if pid not in claimed:
            na = next((n["reason"] for n in man.get("not_applicable", []) if n["property_id"] == pid), "not claimed")
            out.append(f"*Not claimed:* {na}\n")
            continue
        m = meta(plug)
        pm = m.get("PROPS_MODULE", f"BiotiteModel.Props.{pid}")
        ths = lean.theorems_in(pm)
        models = sorted(os.path.basename(x) for x in glob.glob(os.path.join(V, "lean/BiotiteModel/Model", pid + "*.lean")))
        proofs = sorted(os.path.basename(x) for x in glob.glob(os.path.join(V, "lean/BiotiteModel/Proofs", pid + "*.lean")))
        out.append(f"**Claim.** {m.get('LEVEL_TEXT', '')}\n")
        out.append(f"**Trusted / modelled-not-verified.** {m.get('LEVEL_NOTE', '')}\n")
        out.append(f"**Lean.** models `{', '.join(models)}`; helper proofs `{', '.join(proofs)}`; regenerated `{', '.join(m.get('GEN_FILES', [])) or '—'}`; "
                   f"{len(ths)} theorems in `Props/{pid}.lean`: " + ", ".join(f"`{t}`" for t in ths) + "\n")
        out.append(f"**Correspondence / oracle.** {m.get('RULE', '')}\n")
        kf = [e for e in f["findings"] if e["property"] == pid]
        fx = [e for e in f["fixed"] if e["property"] == pid]
        if kf:
            out.append("**Known findings (open, replayed on every run):**\n")
            for e in kf:
                out.append(f"* `{e['key']}` — {e['what']}")
            out.append("")
        if fx:
            out.append("**Fixed in /repo (witness kept as regression case):**\n")
            seen = set()
            for e in fx:
                k = (e.get("commit"), e.get("what"))
                if k in seen:
                    continue
                seen.add(k)
                out.append(f"* `{e.get('commit', '?')}` — {e['what']}")
            out.append("")
        ss = [s for s in sd if s.get("breaks_property") == pid]
        if ss:
            out.append("**Seeded changes (independent sub-agents; see `seeded/<id>/`):**\n")
            out.append("| id | change | needs | caught | by |")
            out.append("|---|---|---|---|---|")
            for s in ss:
                c = s.get("confirmed", {})
                out.append(f"| {s['_id']} | {esc(s.get('what', ''))} | {esc(s.get('needs', ''))} | {'yes' if c.get('caught') else 'NO'} | {esc(c.get('how', ''))} |")
            out.append("")
        out.append(f"Details: `notes/{pid}.md`.\n")
    return "\n".join(out)


def findings_table():
    f = findings()
    out = ["| property | status | key / commit | what |", "|---|---|---|---|"]
    for e in f["findings"]:
        out.append(f"| {e['property']} | known finding | `{e['key']}` | {esc(e['what'])} |")
    seen = set()
    for e in f["fixed"]:
        k = (e.get("commit"), e.get("what"))
        if k in seen:
            continue
        seen.add(k)
        out.append(f"| {e['property']} | fixed | `{e.get('commit', '?')}` | {esc(e['what'])} |")
    return "\n".join(out)


def seeded_table():
    sd = seeded()
    out = ["| id | property | change | caught | by |", "|---|---|---|---|---|"]
    for s in sd:
        c = s.get("confirmed", {})
        out.append(f"| {s['_id']} | {s.get('breaks_property')} | {esc(s.get('what', ''))} | {'yes' if c.get('caught') else 'NO'} | {esc(c.get('how', ''))} |")
    n = len(sd)
    k = sum(1 for s in sd if s.get("confirmed", {}).get("caught"))
    out.append(f"\n{k} of {n} seeded changes are caught by the quick checks.")
    return "\n".join(out)


def main():
    p = os.path.join(V, "DESIGN.md")
    s = open(p).read()
    for name, fn in (("properties", per_property), ("findings", findings_table), ("seeded", seeded_table)):
        b, e = f"<!-- BEGIN GENERATED:{name} -->", f"<!-- END GENERATED:{name} -->"
        if b in s and e in s:
            s = s[:s.index(b) + len(b)] + "\n" + fn() + "\n" + s[s.index(e):]
    open(p, "w").write(s)
    print("DESIGN.md regenerated")


if __name__ == "__main__":
    main()

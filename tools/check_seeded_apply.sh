#!/bin/bash
# tools/check_seeded_apply.sh — list the seeded changes whose patch.diff no longer applies to /repo's HEAD
# (a later `fix:` commit rewrote the lines); those must be re-made with the same mutation (keep the original as patch.diff.orig).
cd /repo
bad=0
for d in /verif/seeded/*/; do
  id=$(basename "$d")
  if ! git apply --check "$d/patch.diff" 2>/dev/null; then echo "does not apply: $id"; bad=1; fi
done
exit $bad

#!/bin/bash
# tools/try_seeded.sh <dir containing patch.diff [c.diff]> <PID> [tier]
# Applies the change to a scratch worktree of /repo, runs the check against it (VERIF_REPO), prints the verdict,
# removes the worktree and re-runs the check on /repo (so that Gen/*.lean is regenerated from the real tree).
d="$(cd "$1" && pwd)"; pid="$2"; tier="${3:-quick}"
cd "$(dirname "$0")/.."
wt=/tmp/seeded-$pid-$$
tools/mk_scratch_repo.sh $wt >/dev/null 2>&1 || { echo "cannot create worktree"; exit 2; }
( cd $wt && git apply "$d/patch.diff" ) || { echo "patch does not apply"; git -C /repo worktree remove --force $wt; exit 2; }
if [ -f "$d/c.diff" ]; then
  # c.diff was made with `diff -u /repo/src/...c <worktree>/src/...c` (possibly several files): apply each to the scratch tree and rebuild its .so
  /venv/bin/python - "$d/c.diff" "$wt" <<'PY'
import re, subprocess, sys, sysconfig, os
diff, wt = sys.argv[1], sys.argv[2]
text = open(diff).read()
parts = re.split(r'(?m)^(?=--- )', text)
import numpy
for part in parts:
    cands = re.findall(r'^(?:\+\+\+|---) (\S+)', part, re.M)
    cands = [c for c in cands if 'src/biotite/' in c]
    if not cands:
        continue
    rel = cands[-1]
    rel = rel[rel.index('src/biotite/'):]
    tgt = os.path.join(wt, rel)
    p = subprocess.run(['patch', '-s', tgt], input=part, text=True, capture_output=True)
    print('c.diff ->', rel, 'rc', p.returncode, p.stdout[-200:], p.stderr[-200:])
    cpp = tgt.endswith('.cpp')
    so = re.sub(r'\.(c|cpp)$', '.cpython-312-x86_64-linux-gnu.so', tgt)
    cmd = (['g++', '-std=c++11'] if cpp else ['gcc']) + ['-shared', '-fPIC', '-O1', '-w', '-DNPY_NO_DEPRECATED_API=NPY_1_7_API_VERSION',
          '-I' + sysconfig.get_paths()['include'], '-I' + numpy.get_include(), tgt, '-o', so]
    r = subprocess.run(cmd, capture_output=True, text=True)
    print('rebuilt', os.path.basename(so), 'rc', r.returncode, r.stderr[-300:])
PY
fi
if [ -f "$d/demo.py" ]; then
  PYTHONPATH=$wt/src /venv/bin/python "$d/demo.py" >/dev/null 2>&1; echo "demo on mutated tree: exit $?"
  /venv/bin/python "$d/demo.py" >/dev/null 2>&1; echo "demo on /repo: exit $?"
fi
start=$(date +%s)
VERIF_REPO=$wt ./check $pid $tier > .build/seeded-$pid.log 2>&1; rc=$?
echo "check $pid $tier on mutated tree: exit $rc ($(( $(date +%s) - start )) s)"
grep -E "^VIOLATION|^  failing input|^  broken" .build/seeded-$pid.log | head -6
git -C /repo worktree remove --force $wt
./check $pid quick > /dev/null 2>&1; echo "check on /repo afterwards: exit $?"
exit $rc

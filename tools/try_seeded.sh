#!/bin/bash
# tools/try_seeded.sh <dir containing patch.diff [c.diff]> <PID> [tier]
# Applies the change to a scratch worktree of /repo, runs the check against it (VERIF_REPO), prints the verdict,
# removes the worktree and re-runs the check on /repo (so that Gen/*.lean is regenerated from the real tree).
d="$(cd "$1" && pwd)"; pid="$2"; tier="${3:-quick}"
cd "$(dirname "$0")/.."
wt=/tmp/seeded-$pid-$$
tools/mk_scratch_repo.sh $wt >/dev/null 2>&1 || { echo "cannot create worktree"; exit 2; }
( cd $wt && git apply "$d/patch.diff" ) || { echo "patch does not apply"; git -C /repo worktree remove --force $wt; exit 2; }
if [ -f "$d/c.diff" ]; then ( cd $wt && patch -p0 -s < "$d/c.diff" 2>/dev/null || patch -s -p1 < "$d/c.diff" 2>/dev/null || { f=$(grep -m1 '^+++ ' "$d/c.diff" | awk '{print $2}' | sed "s#.*/src/biotite/#src/biotite/#"); patch -s "$f" < "$d/c.diff"; } ); fi
if [ -f "$d/demo.py" ]; then
  PYTHONPATH=$wt/src /venv/bin/python "$d/demo.py" >/dev/null 2>&1; echo "demo on mutated tree: exit $?"
  /venv/bin/python "$d/demo.py" >/dev/null 2>&1; echo "demo on /repo: exit $?"
fi
start=$(date +%s)
VERIF_REPO=$wt ./check $pid $tier > .build/seeded-$pid.log 2>&1; rc=$?
echo "check $pid $tier on mutated tree: exit $rc ($(( $(date +%s) - start )) s)"
grep -E "^VIOLATION|^  failing input|^  broken" .build/seeded-$pid.log | head -6
git -C /repo worktree remove --force $wt
./check $pid quick > /dev/null 2>&1; echo "check on /repo afterwards: exit $?"
exit $rc

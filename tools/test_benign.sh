#!/bin/bash
# tools/test_benign.sh <outdir> <PID> [k...] : run the check against behaviour-preserving changes; one-line verdict each:
#   quiet        = exit 0 (what one wants)
#   tie-only     = exit 1, no failing input (a proof obligation / correspondence that pins the old text broke; allowed, but brittle)
#   FALSE-ALARM  = exit 1 WITH a failing input although behaviour is unchanged (the oracle or model is wrong: must be repaired)
out="$1"; pid="$2"; shift 2
for k in "$@"; do
  if [ -f "$out/$k/equiv_pristine.txt" ] && ! cmp -s "$out/$k/equiv_pristine.txt" "$out/$k/equiv_changed.txt"; then
    echo "$pid/$k NOT-EQUIVALENT (the change-writer's own digest differs) - skipped"; continue
  fi
  r=$(tools/try_seeded.sh "$out/$k" $pid 2>&1)
  rc=$(echo "$r" | grep -o "on mutated tree: exit [0-9]*" | tail -1 | awk '{print $NF}')
  fi_=$(echo "$r" | grep -c "failing input")
  br=$(echo "$r" | grep -E "broken:" | head -1 | cut -c1-220)
  key=$(echo "$r" | grep -E "failing input" | head -2 | cut -c1-200 | tr '\n' ' ')
  if [ "$rc" = "0" ]; then v="quiet"; elif [ "$fi_" -gt 0 ]; then v="FALSE-ALARM"; else v="tie-only"; fi
  echo "$pid/$k $v (exit $rc) :: $br $key"
done

#!/bin/bash
# tools/run_all.sh [tier] [seed...]  — run every claimed check (MANIFEST.json) for the given seeds, 4 at a time; summary at the end.
cd "$(dirname "$0")/.."
tier="${1:-quick}"; shift
seeds="${@:-0}"
props=$(python3 -c "import json;print(' '.join(c['property_id'] for c in json.load(open('MANIFEST.json'))['checks']))")
mkdir -p .build/runall
for s in $seeds; do
  for p in $props; do
    echo "$p $s"
  done
done | xargs -P 4 -L 1 bash -c 'p=$0; s=$1; start=$(date +%s); VERIF_SEED=$s timeout 3600 ./check $p '"$tier"' > .build/runall/$p-$s.log 2>&1; rc=$?; echo "$p seed=$s exit=$rc $(( $(date +%s) - start ))s $(grep -c "^KNOWN-FINDING" .build/runall/$p-$s.log) known; $(grep "^VIOLATION" .build/runall/$p-$s.log | head -2 | tr "\n" " ")"'

#!/usr/bin/env python3
"""tools/baseline_subset.py <pytest paths/args...>: run a subset of /repo's tests and report the tests that are in
BASELINE.json's stable_pass list but do not pass now (a fix: commit must leave this empty)."""
import json, subprocess, sys, tempfile, os, xml.etree.ElementTree as ET
base = set(json.load(open("/root/.vp/BASELINE.json"))["stable_pass"])
with tempfile.TemporaryDirectory() as d:
    xml = os.path.join(d, "r.xml")
    subprocess.run(["/venv/bin/python", "-m", "pytest", "-q", "-p", "no:cacheprovider", "--timeout=900",
                    "--continue-on-collection-errors", "-W", "ignore", f"--junitxml={xml}"] + sys.argv[1:],
                   cwd="/repo", stdout=subprocess.DEVNULL, stderr=subprocess.DEVNULL)
    bad, ok = [], 0
    for tc in ET.parse(xml).getroot().iter("testcase"):
        name = tc.get("classname") + "::" + tc.get("name")
        failed = any(c.tag in ("failure", "error", "skipped") for c in tc)
        if name in base:
            if failed:
                bad.append(name)
            else:
                ok += 1
print(f"stable-pass tests run and passing: {ok}; stable-pass tests NOT passing: {len(bad)}")
for b in bad:
    print("  ", b)
sys.exit(1 if bad else 0)

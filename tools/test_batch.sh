#!/bin/bash
# tools/test_batch.sh <outdir> <PID> [k...]: run try_seeded for each change dir and print a one-line verdict each
out="$1"; pid="$2"; shift 2
for k in "$@"; do
  r=$(tools/try_seeded.sh "$out/$k" $pid 2>&1)
  rc=$(echo "$r" | grep -o "on mutated tree: exit [0-9]*" | tail -1 | awk '{print $NF}')
  demo=$(echo "$r" | grep -o "demo on mutated tree: exit [0-9]*" | awk '{print $NF}')
  key=$(echo "$r" | grep -E "failing input|broken:" | head -2 | cut -c1-200 | tr '\n' ' ')
  after=$(echo "$r" | grep -o "afterwards: exit [0-9]*" | awk '{print $NF}')
  echo "$pid/$k demo=$demo check=$rc after=$after :: $key"
done

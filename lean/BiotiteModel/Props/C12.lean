import BiotiteModel.Proofs.C12Fasta
import BiotiteModel.Proofs.C12Fastq
import BiotiteModel.Proofs.C12Loc
import BiotiteModel.Proofs.C12Gff
import BiotiteModel.Proofs.C12Gb
import BiotiteModel.Proofs.C12Grp
import BiotiteModel.Proofs.C12Feat
import BiotiteModel.Gen.C12
/-!
# C12 — property theorems (sequence file formats return what was written)

Only property statements and non-vacuity examples; the proofs are in `Proofs/C12*.lean`.
All theorems quantify over all inputs (no size bounds).
-/
namespace BiotiteModel.C12

/-! ## FASTA -/

/-- **FASTA round trip, every wrap width ≥ 1.**  Entries with one-line headers (no blank at
either end) and whitespace-free sequences (empty ones included), written with any
`chars_per_line = w ≥ 1`, then the text re-read (with any `chars_per_line`), come back as the
same entries in the same order. -/
theorem C12_fasta (es : List (Str × Str)) (w cpl : Nat) (hw : 1 ≤ w) (hne : es ≠ [])
    (hh : ∀ e ∈ es, HeaderOk e.1) (hs : ∀ e ∈ es, SeqOk e.2) (hnd : (es.map (·.1)).Nodup) :
    ∃ f0 f, es.foldlM (fun f e => fastaSet f e.1 e.2) (Fasta.empty w) = .ok f0 ∧
            fastaRead (textRoundTrip f0.lines) cpl = .ok f ∧ fastaItems f = .ok es := by
  obtain ⟨f0, h0, hl, _, _⟩ := fasta_print_eq_sets es w hw hh hnd
  obtain ⟨f, h1, h2⟩ := fasta_roundtrip es w cpl hw hne hh hs hnd
  exact ⟨f0, f, h0, by rw [hl]; exact h1, h2⟩

/-- Arbitrary header strings (blanks at the ends, embedded `\n`) come back normalised
(`header.replace("\n","").strip()`), provided the normalised headers are distinct. -/
theorem C12_fasta_normalised (es : List (Str × Str)) (w cpl : Nat) (hw : 1 ≤ w) (hne : es ≠ [])
    (hs : ∀ e ∈ es, SeqOk e.2) (hnd : (es.map (fun e => normHeader e.1)).Nodup) :
    ∃ f, fastaRead (textRoundTrip (fastaPrint w es)) cpl = .ok f ∧
         fastaItems f = .ok (es.map (fun e => (normHeader e.1, e.2))) :=
  fasta_roundtrip_norm es w cpl hw hne hs hnd

/-- An empty file cannot be read back (`InvalidFileError`), it is never mistaken for entries. -/
theorem C12_fasta_empty (cpl : Nat) : fastaRead (textRoundTrip []) cpl = .error .invalidFile := by
  rfl

/-- **Edit consistency (FASTA).**  After `__setitem__` / `__delitem__` the entry index of the file
object is exactly what re-indexing its text gives (the repaired `__setitem__` keys the entry by
the normalised header). -/
theorem C12_edit_consistent_fasta (f f' : Fasta) (h seq : Str)
    (hinv : fastaFind f.lines = .ok f.entries) (hs : SeqOk seq) :
    (fastaSet f h seq = .ok f' → fastaFind f'.lines = .ok f'.entries) ∧
    (fastaDel f h = .ok f' → fastaFind f'.lines = .ok f'.entries) :=
  ⟨fasta_set_inv f f' h seq hinv hs, fasta_del_inv f f' h⟩

/-- … and the mapping view follows the dictionary specification: setting a new key appends
exactly that entry and leaves every other entry unchanged. -/
theorem C12_edit_fasta_set_spec (f f' : Fasta) (h seq : Str) (items : List (Str × Str))
    (hinv : fastaFind f.lines = .ok f.entries) (hs : SeqOk seq) (hc : 1 ≤ f.cpl)
    (hfresh : f.entries.lookup (normHeader h) = none)
    (hset : fastaSet f h seq = .ok f') (hit : fastaItems f = .ok items) :
    fastaItems f' = .ok (items ++ [(normHeader h, seq)]) :=
  fasta_set_fresh_items' f f' h seq items hinv hs hc hfresh hset hit


/-! ## FASTQ -/

/-- **Offset arithmetic.**  For **every** integer offset (no `int8` bound since the reader was
repaired) and every score that maps to a printable non-blank ASCII character (`ScoreOk` — exactly
the scores the writer accepts, see `C12_fastq_scores_rejected`), decoding the encoded score string gives the scores back;
the string has one character per score and no character `strip()` would remove. -/
theorem C12_fastq_offset (off : Int) (qs : List Int)
    (h : ∀ q ∈ qs, ScoreOk off q) :
    ∃ s, encodeScores off qs = .ok s ∧ decodeScores off s = .ok qs ∧ s.length = qs.length ∧
         ∀ c ∈ s, 33 ≤ c.toNat ∧ c.toNat ≤ 126 :=
  fastq_offset off qs h

/-- **The length-driven state machine is insensitive to `@` / `+` at line starts inside score
blocks.**  One entry written under *any* wrapping of the sequence (`sc`) and of the score string
(`qc`) — there is no hypothesis at all on the score characters — is recognised as exactly one
entry with the right line ranges, and parsing continues in the idle state after it. -/
theorem C12_fastq_state_machine (id seq sq : Str) (sc qc rest : List Str) (i : Nat)
    (hseq : QSeqOk seq) (hsc : Chunking seq sc) (hqc : Chunking sq qc) (hlen : sq.length = seq.length) :
    qFind .idle i (qBlock id sc qc ++ rest) =
      match qFind .idle (i + qc.length + sc.length + 2) rest with
      | .ok es => .ok ((id, i + 1, i + 1 + sc.length, i + 2 + sc.length, i + 2 + sc.length + qc.length) :: es)
      | .error e => .error e :=
  qFind_block id seq sq sc qc rest i hseq hsc hqc hlen

/-- **FASTQ round trip**, every supported offset, `chars_per_line` none or any width ≥ 1:
non-empty sequences with in-range scores set into an empty file, the text re-read, give the same
entries (identifier, sequence, scores) in the same order. -/
theorem C12_fastq (off : Int) (cpl cpl' : Option Nat)
    (hcpl : ∀ w, cpl = some w → 1 ≤ w)
    (es : List (Str × Str × List Int)) (hne : es ≠ [])
    (hid : ∀ e ∈ es, QIdOk e.1) (hseq : ∀ e ∈ es, QSeqOk e.2.1) (hlen : ∀ e ∈ es, e.2.1.length = e.2.2.length)
    (hq : ∀ e ∈ es, ∀ q ∈ e.2.2, ScoreOk off q) (hnd : (es.map (·.1)).Nodup) :
    ∃ f0 f, es.foldlM (fun f e => fastqSet f e.1 e.2.1 e.2.2) (Fastq.empty off cpl) = .ok f0 ∧
            fastqRead (textRoundTrip f0.lines) off cpl' = .ok f ∧ fastqItems f = .ok es :=
  fastq_roundtrip off cpl cpl' hcpl es hne hid hseq hlen hq hnd

/-- **Out-of-range scores are rejected, never wrapped or written as blanks.**  If some
`score + offset` is not a printable non-blank ASCII code (`33..126`), encoding fails with `ValueError` (repaired: the sum used to be cast to `int8`), and
`__setitem__` fails as a whole **without touching the file** — in the model a failed `fastqSet`
returns no new state, in the code the old entry is deleted only after the new lines exist. -/
theorem C12_fastq_scores_rejected (f : Fastq) (id seq : Str) (qs : List Int)
    (h : ∃ q ∈ qs, q + f.off < 33 ∨ 126 < q + f.off) :
    encodeScores f.off qs = .error .valueError ∧ ∀ f', fastqSet f id seq qs ≠ .ok f' := by
  have he := qEncode_rejects f.off qs h
  refine ⟨he, ?_⟩
  intro f' hset
  unfold fastqSet at hset
  simp only [he] at hset
  split at hset
  · cases hset
  · split at hset
    · cases hset
    · split at hset <;> cases hset

/-- refusals of the two writers at the edge of the hypotheses above: a line width of 0 and an empty
FASTQ sequence (or a score list of another length) are rejected, the file object stays as it is. -/
theorem C12_width_zero_and_empty_rejected (f : Fasta) (q : Fastq) (h s : Str) (qs : List Int) :
    (f.cpl = 0 → fastaSet f h s = .error .valueError) ∧
    (fastqSet q h [] qs = .error .valueError) ∧
    (s.length ≠ qs.length → fastqSet q h s qs = .error .valueError) ∧
    (q.cpl = some 0 → ∀ q', fastqSet q h s qs ≠ .ok q') := by
  refine ⟨fun h0 => by simp [fastaSet, h0], ?_, fun hl => by simp [fastqSet, hl], ?_⟩
  · unfold fastqSet
    by_cases hl : ([] : Str).length ≠ qs.length <;> simp
  · intro h0 q' hset
    unfold fastqSet at hset
    simp only [h0, if_true] at hset
    split at hset
    · cases hset
    · split at hset <;> cases hset

/-- **Edit consistency (FASTQ)**: after `__setitem__` / `__delitem__` the entry index equals a
re-index of the text — also when the text held the same identifier twice. -/
theorem C12_edit_consistent_fastq (f f' : Fastq) (id seq : Str) (qs : List Int)
    (hinv : fastqFind f.lines = .ok f.entries) (hseq : QSeqOk seq) :
    (fastqSet f id seq qs = .ok f' → fastqFind f'.lines = .ok f'.entries) ∧
    (fastqDel f id = .ok f' → fastqFind f'.lines = .ok f'.entries) :=
  ⟨fastq_set_inv f f' id seq qs hinv hseq, fastq_del_inv f f' id⟩

/-- … and the mapping view follows the dictionary specification for a new key. -/
theorem C12_edit_fastq_set_spec (f : Fastq) (id seq : Str) (qs : List Int) (items : List (Str × Str × List Int))
    (hinv : fastqFind f.lines = .ok f.entries) (hseq : QSeqOk seq)
    (hq : ∀ q ∈ qs, ScoreOk f.off q)
    (hlen : seq.length = qs.length) (hfresh : f.entries.lookup (normHeader id) = none)
    (hcpl : ∀ w, f.cpl = some w → 1 ≤ w) (hitems : fastqItems f = .ok items) :
    ∃ f', fastqSet f id seq qs = .ok f' ∧ fastqItems f' = .ok (items ++ [(normHeader id, seq, qs)]) :=
  fastq_set_items_fresh f id seq qs items hinv hseq hq hlen hfresh hcpl hitems

/-! ## GenBank locations -/

/-- **Location print/parse round trip** for every expressible location list: single, joined,
complemented, `<` / `>`, `.` / `^`, single-base (with `>`, `<…>`: the repaired printer), negative
positions.  `Expressible` = `first ≤ last`, no MISS_LEFT/MISS_RIGHT, not both UNK_LOC and BETWEEN. -/
theorem C12_loc_roundtrip (ls : List Loc) (hne : ls ≠ []) (h : ∀ l ∈ ls, Expressible l) :
    parseLocs (printLocs ls) = some ls :=
  parseLocs_printLocs ls hne h

/-- decimal integers: `int(str(i)) = i`. -/
theorem C12_int_roundtrip (i : Int) : readInt (showInt i) = some i := readInt_showInt i


/-! ## GFF3 -/

/-- `_NOT_QUOTED` of the **current source** (regenerated on every run) contains neither `%` nor a
column / attribute delimiter (TAB LF CR `;` `=` `&` `,`), its only whitespace is the blank, and
`_create_line` passes all three text columns through `quote` (the `type` column since the fix). -/
theorem C12_gen_not_quoted :
    SafeOk Gen.C12.notQuoted ∧ SafeSpaceOk Gen.C12.notQuoted ∧
    Gen.C12.quotedColumns = ["seqid", "source", "type"] := by
  refine ⟨by unfold SafeOk; decide, ?_, by decide⟩
  intro b hb hsp
  have hm : b ∈ Gen.C12.notQuoted := by simpa using hb
  have key : ∀ b ∈ Gen.C12.notQuoted, isSpace (Char.ofNat b) = true → b = 32 := by decide
  exact key b hm hsp

/-- **Percent-quoting**: `unquote (quote s) = s` (as UTF-8 bytes; the final decoding is the
trusted codec) for *every* string, and no delimiter survives in `quote s`: every output
character is ASCII, none is TAB LF CR `;` `=` `&` `,`, and the only whitespace is a literal blank. -/
theorem C12_gff_quote (s : Str) :
    unquoteB (quote Gen.C12.notQuoted s) = utf8 s ∧
    (∀ c ∈ quote Gen.C12.notQuoted s, c.toNat < 128 ∧ c.toNat ∉ gffDelims) ∧
    (∀ c ∈ quote Gen.C12.notQuoted s, isSpace c = true → c = ' ') := by
  obtain ⟨hs, hsp, _⟩ := C12_gen_not_quoted
  exact ⟨unquoteB_quote _ hs.1 s, quoteB_no_delim _ hs _ (gff_utf8_lt s), quoteB_space _ hsp _ (gff_utf8_lt s)⟩

/-- **GFF3 line round trip**: whatever `_create_line` accepts is parsed back by `__getitem__` to
the same nine columns (text columns stripped, as UTF-8 bytes), for **all** strings in seqid /
source / type / attribute keys and values, provided attribute keys are distinct (a `dict`).
No whitespace hypothesis: the repaired writer (`_quote_value`) never ends a line in a blank. -/
theorem C12_gff_line (e : GffEntry Str) (line : Str) (hline : createLine Gen.C12.notQuoted e = .ok line)
    (hscore : ∀ t, e.score = some t → t ≠ ['.'] ∧ t ≠ [] ∧ ∀ c ∈ t, c ≠ tab ∧ isSpace c = false)
    (hkeys : (e.attrs.map (fun kv => utf8 kv.1)).Nodup) :
    parseLine line = .ok e.bytes :=
  gff_line_roundtrip_full _ C12_gen_not_quoted.1 C12_gen_not_quoted.2.1 readInt_showInt showInt_chars
    showInt_ne_nil e line hline hscore hkeys

/-- attribute values (`_quote_value`): invertible, delimiter-free, and never ending in whitespace. -/
theorem C12_gff_quote_value (s : Str) :
    unquoteB (quoteV Gen.C12.notQuoted s) = utf8 s ∧
    (∀ c ∈ quoteV Gen.C12.notQuoted s, c.toNat < 128 ∧ c.toNat ∉ gffDelims) ∧
    (∀ c, (quoteV Gen.C12.notQuoted s).getLast? = some c → isSpace c = false) :=
  ⟨unquoteB_quoteV _ C12_gen_not_quoted.1.1 s, quoteV_no_delim _ C12_gen_not_quoted.1 s,
   quoteV_last _ C12_gen_not_quoted.2.1 s⟩

/-- **Edit consistency (GFF3)**: `append`, `insert`, `__setitem__`, `__delitem__`,
`append_directive` keep `(entries, directives, has_fasta) = _index_entries(lines)`; the lines
`_create_line` produces always qualify as entry lines (`C12_gff_created_line_is_entry`). -/
theorem C12_edit_consistent_gff (g g' : Gff) (i : Int) (line d text : Str)
    (hinv : g.idx = gffIndex g.lines) (hl : IsEntryLine line) :
    (gffAppend g line = .ok g' → g'.idx = gffIndex g'.lines) ∧
    (gffInsert g i line = .ok g' → g'.idx = gffIndex g'.lines) ∧
    (gffSet g i line = .ok g' → g.idx.hasFasta = false → g'.idx = gffIndex g'.lines) ∧
    (gffDel g i = .ok g' → g'.idx = gffIndex g'.lines) ∧
    (gffAppendDirective g d text = .ok g' → g.idx.hasFasta = false → text ≠ "FASTA".toList →
      g'.idx = gffIndex g'.lines) :=
  ⟨gff_append_inv g g' line hinv hl, gff_insert_inv g g' i line hinv hl,
   fun h hnf => gff_set_inv g g' i line hinv hnf hl h, gff_del_inv g g' i,
   fun h hnf ht => gff_append_directive_inv g g' d text hinv hnf ht h⟩

/-- every line `_create_line` returns is an entry line for `_index_entries` (a seqid starting
with `#` or `>` is rejected), so the hypothesis `IsEntryLine` above is met by the real edits. -/
theorem C12_gff_created_line_is_entry (e : GffEntry Str) (line : Str)
    (h : createLine Gen.C12.notQuoted e = .ok line) : IsEntryLine line :=
  createLine_isEntryLine _ C12_gen_not_quoted.1 e line h



/-- **ID-grouped locations** (`gff/convert.py`): whatever the repaired `set_annotation` accepts
(unique `ID`s; a feature with several locations has an `ID`) is grouped back by `get_annotation`
into exactly the same features — key, qualifiers and every location with its strand.  The only
remaining hypothesis is the class invariant "a `Feature` has a location". -/
theorem C12_gff_grouping (fs : List (GFeat Str)) (es : List (GEnt Str))
    (hacc : gffSetAnnotE "ID".toList fs = .ok es) (hl : ∀ f ∈ fs, f.locs ≠ []) :
    gffGroup "ID".toList es = fs :=
  gff_grouping_accepted _ fs es hacc hl

/-- two features sharing an `ID` are refused (they would be merged on reading). -/
theorem C12_gff_duplicate_id_rejected :
    gffSetAnnotE "ID".toList
      [⟨"gene".toList, [(1, 5, some false)], [("ID".toList, "x".toList)]⟩,
       ⟨"CDS".toList, [(7, 9, some false)], [("ID".toList, "x".toList)]⟩] = .error .valueError := by decide

/-! ## GenBankFile as a list of fields -/

/-- **Edit consistency (GenBank).**  `GbWF g`: the lines are field blocks (header line in column 0,
continuation lines empty or indented) closed by `//`, and `_field_pos` holds their running
positions.  The empty file and every text of that shape read from disk are well-formed; a
well-formed object has `_field_pos = _find_field_indices(lines)`; and every **successful**
`__setitem__`, `insert`, `append`, `__delitem__`, `set_field` — which shift positions instead of
re-indexing — keeps it well-formed.  No hypothesis on names or content is left: what the invariant
needs (name fits the 12-column name field, does not start with `//`; FEATURES/ORIGIN content is
indented) is exactly what the repaired `_to_lines` refuses otherwise (`C12_genbank_to_lines_rejects`). -/
theorem C12_edit_consistent_genbank (g g' : Gb) (i : Int) (name : Str) (content : List Str)
    (subs : List (Str × List Str)) (hw : GbWF g) :
    g.pos = gbFind g.lines ∧
    (gbDel g i = .ok g' → GbWF g') ∧
    (gbSet g i name content subs = .ok g' → GbWF g') ∧
    (gbInsert g i name content subs = .ok g' → GbWF g') ∧
    (gbAppend g name content subs = .ok g' → GbWF g') ∧
    (gbSetField g name content subs = .ok g' → GbWF g') :=
  ⟨gbWF_inv g hw, gb_del_wf g g' i hw, gb_set_wf g g' i name content subs hw,
   gb_insert_wf g g' i name content subs hw, gb_append_wf g g' name content subs hw,
   gb_setField_wf g g' name content subs hw⟩

/-- `_to_lines` accepts only what can be read back: acceptance implies the name fits the name
column and is not a terminator, and FEATURES/ORIGIN content consists of continuation lines. -/
theorem C12_genbank_to_lines_rejects (name : Str) (content : List Str) (subs : List (Str × List Str))
    (h : ¬ (GbNameOk name ∧ GbContentOk name content)) : ∀ ins, gbToLines name content subs ≠ .ok ins :=
  fun ins hok => h (gbToLines_accepts name content subs ins hok).2

theorem C12_genbank_wf_start :
    GbWF Gb.empty ∧ ∀ bs : List GbBlock, (∀ b ∈ bs, GbBlockOk b) → GbWF (gbRead (gbFlat bs ++ [gbTerm])) :=
  ⟨gbWF_empty, gbWF_read⟩


/-! ## GenBank feature table and ORIGIN block (line level) -/

/-- **Qualifier text round trip.**  The text `get_annotation` accumulates for a feature written by
`set_annotation` (location, then one line per qualifier: `/key`, or `/key="piece"` for every piece
of `value.split("\n")`; the code does not wrap lines) is split by the regex scanner and the
qualifier loop into the same location string and the same qualifiers, in order.  Exactly what the
format cannot express is excluded: keys with whitespace, `=` or `"` (`QKeyOk`; `/` is fine), values
containing `"` (`QValOk`; blanks at either end, `/`, `=`, empty values, `\n` are all fine), and
duplicate keys (a `dict`). -/
theorem C12_qualifiers_roundtrip (loc : Str) (hloc : LocStrOk loc) (quals : List Qual)
    (hk : ∀ q ∈ quals, QKeyOk q.1) (hv : ∀ q ∈ quals, ∀ v, q.2 = some v → QValOk v)
    (hnd : (quals.map (·.1)).Nodup) :
    parseFeatVal (featValue loc quals) = .ok (loc, quals) :=
  qualifiers_roundtrip loc hloc quals hk hv hnd

/-- what the reader's syntax cannot express (no escape for `"`; the repaired writer therefore
refuses such input, `C12_feature_rejects`): text holding the value `a"b` is not
recovered (it comes back as `a` plus a spurious value-less key) — replayed on the real code by the
corpus case `gbf_rt` with the same feature; likewise a key containing `=`. -/
theorem C12_qualifiers_quote_inexpressible :
    parseFeatVal (featValue "7".toList [("note".toList, some "a\"b".toList)]) =
      .ok ("7".toList, [("note".toList, some "a".toList), ("\"".toList, none)]) ∧
    parseFeatVal (featValue "7".toList [("a=b".toList, some "v".toList)]) ≠
      .ok ("7".toList, [("a=b".toList, some "v".toList)]) := by decide

/-- **ORIGIN round trip**: a sequence of any length (0, 1, non-multiples of 10 and 60) with any
`sequence_start` (negative included: repaired reader) is read back as the lower-cased sequence and
the same start; symbols (after lower-casing) are anything but digits, blanks and `-`. -/
theorem C12_origin_roundtrip (start : Int) (seq : Str) (h : ∀ c ∈ lower seq, OSymOk c) :
    originSeq (printOrigin start seq) = lower seq ∧ originStart (printOrigin start seq) = .ok start :=
  ⟨origin_seq_roundtrip start seq h, origin_start_roundtrip start seq⟩

/-- **Feature table round trip**: whatever `set_annotation` accepts (`printFeaturesE`, the repaired
writer checks key column and qualifier syntax) is read back by `get_annotation` as the same list
of features, order kept: key column + location (`C12_loc_roundtrip`) + qualifiers.  The remaining
hypotheses are invariants of the classes (`Feature` has a location, `Location.first ≤ last`, a
`dict` has distinct keys) plus "the format can express the defect" (`Expressible`). -/
theorem C12_feature_roundtrip (fs : List GbFeat) (lines : List Str) (hacc : printFeaturesE fs = .ok lines)
    (hl : ∀ f ∈ fs, f.locs ≠ [] ∧ ∀ l ∈ f.locs, Expressible l) (hnd : ∀ f ∈ fs, (f.quals.map (·.1)).Nodup) :
    parseFeatures lines = .ok fs :=
  feature_roundtrip_accepted fs lines hacc hl hnd

/-- … and what cannot be expressed is **refused** (`ValueError`, nothing written): a key that is
empty, longer than 15 characters or has blanks at its ends, a qualifier key with whitespace / `=` /
`"`, a value containing `"`. -/
theorem C12_feature_rejects (fs : List GbFeat) (h : ∃ f ∈ fs, featCheck f = false) :
    printFeaturesE fs = .error .valueError :=
  printFeaturesE_rejects fs h

/-- the column constants the line model uses are those of the current source -/
theorem C12_gen_feature_columns :
    Gen.C12.keyStart = 5 ∧ Gen.C12.qualStart = 21 ∧ Gen.C12.symbolsPerChunk = 10 ∧ Gen.C12.chunksPerLine = 6 := by
  decide

/-! ## Obligations on the tables regenerated from the source on every run -/

/-- `_OFFSETS` (fastq/file.py): every format offset fits `int8` and maps score 0 to a printable,
non-blank character, and the five format names are present. -/
theorem C12_gen_fastq_offsets :
    (∀ p ∈ Gen.C12.fastqOffsets, ScoreOk p.2 0) ∧
    Gen.C12.fastqOffsets.lookup "Sanger" = some 33 ∧ Gen.C12.fastqOffsets.lookup "Illumina-1.8" = some 33 ∧
    Gen.C12.fastqOffsets.lookup "Solexa" = some 64 ∧ Gen.C12.fastqOffsets.lookup "Illumina-1.3" = some 64 ∧
    Gen.C12.fastqOffsets.lookup "Illumina-1.5" = some 64 := by
  unfold ScoreOk; decide

/-- GenBank column constants: the feature key column lies before the qualifier column and leaves
room for a 15-character key; an ORIGIN line holds `chunks × chunk` symbols. -/
theorem C12_gen_genbank_columns :
    Gen.C12.keyStart + 16 = Gen.C12.qualStart ∧
    Gen.C12.symbolsPerLine = Gen.C12.symbolsPerChunk * Gen.C12.chunksPerLine ∧
    0 < Gen.C12.symbolsPerChunk ∧ 0 < Gen.C12.chunksPerLine := by
  decide

/-! ## Pass 7/8: more of the model's literals regenerated from the source (`ast`, normalised form) and compared -/

/-- FASTA / FASTQ line-start characters of the current source are the ones the model tests, and
the model reacts to exactly these characters. -/
theorem C12_gen_line_start_chars :
    Gen.C12.fastaHeaderChar = '>' ∧ Gen.C12.fastaCommentChar = ';' ∧ Gen.C12.fastaHeaderPrefix = '>' ∧
    Gen.C12.fastqLineStartChars = ['+', '@'] ∧ Gen.C12.fastqIdPrefix = '@' ∧
    isHdr [Gen.C12.fastaHeaderChar, 'x'] = true ∧
    (fastaNewLines 3 "h".toList "AC".toList).head? = some (Gen.C12.fastaHeaderPrefix :: "h".toList) ∧
    (fastaRead [[Gen.C12.fastaCommentChar, 'c'], [Gen.C12.fastaHeaderChar, 'a'], "AC".toList] 80).map (·.lines) =
      .ok [[Gen.C12.fastaHeaderChar, 'a'], "AC".toList] ∧
    (fastqNewLines none "r".toList "A".toList "!".toList) =
      [Gen.C12.fastqIdPrefix :: "r".toList, "A".toList, [Gen.C12.fastqLineStartChars.getD 0 ' '], "!".toList] := by decide

/-- the score range guard of the FASTQ score encoder (`(x < lo) | (x > hi)`) is the guard of
`encodeScores`: accepted at the bounds, refused one beyond them. -/
theorem C12_gen_score_range :
    Gen.C12.scoreLo = 33 ∧ Gen.C12.scoreHi = 126 ∧
    (encodeScores 0 [Gen.C12.scoreLo, Gen.C12.scoreHi]).toBool = true ∧
    encodeScores 0 [Gen.C12.scoreLo - 1] = .error .valueError ∧ encodeScores 0 [Gen.C12.scoreHi + 1] = .error .valueError ∧
    Gen.C12.scoreDtypes = ["int64", "int8", "|", "int", "int8"] := by decide

/-- GenBank: the qualifier regex, the ORIGIN regex and number format, the location keywords and the
order in which the separators are tested, the literals the location printer emits, the name-column
width / limits / header padding / slice widths / terminator of `GenBankFile`. -/
theorem C12_gen_genbank_literals :
    Gen.C12.qualifierRegex = "(\".*?\"|/.*?=)" ∧ Gen.C12.originRegex = "-?[0-9]+| " ∧
    Gen.C12.originNumberFormat = "{:>9d}" ∧
    Gen.C12.locKeywords = ["complement", "join", "order"] ∧ Gen.C12.locSeparators = ["..", ".", "^"] ∧
    Gen.C12.locPrintLiterals = [")", ",", ".", "..", "<", ">", "^", "complement(", "join("] ∧
    Gen.C12.gbLimits = [12, 10] ∧ Gen.C12.gbNameColumn = 12 ∧ Gen.C12.gbHeaderPad = 13 ∧ Gen.C12.gbSliceWidths = [0, 1, 2, 12] ∧
    Gen.C12.gbTerminator = "//" ∧ Gen.C12.gbTerminator.toList = gbTerm ∧
    (fmt9 5).length = 9 ∧
    gbToLines (List.replicate Gen.C12.gbNameColumn 'A') ["x".toList] [] = .ok [List.replicate Gen.C12.gbNameColumn 'A' ++ "x".toList] ∧
    gbToLines (List.replicate (Gen.C12.gbNameColumn + 1) 'A') ["x".toList] [] = .error .valueError := by
  refine ⟨rfl, rfl, rfl, rfl, rfl, rfl, rfl, rfl, rfl, rfl, rfl, by decide, by decide, by decide, by decide⟩

/-- GFF3: column count, the separators / placeholders / escapes used by `__getitem__`, the line
writer (with `_quote_value`) and the line indexer, the directive of an empty file, the `ID` key. -/
theorem C12_gen_gff_literals :
    Gen.C12.gffColumns = 9 ∧ Gen.C12.gffGetitemLiterals = ["\t", "+", "-", "."] ∧
    Gen.C12.gffCreateLineLiterals = ["\t", " ", "#", "%20", "+", "-", ".", ";", "=", ">"] ∧
    Gen.C12.gffIndexLiterals = [" ", "#", "##", "FASTA"] ∧
    Gen.C12.gffInitDirective = ["gff-version", "3"] ∧ Gen.C12.gffIdKey = "ID" ∧
    Gff.empty.lines = ["##gff-version 3".toList] ∧
    quoteV Gen.C12.notQuoted "x ".toList = "x%20".toList := by
  refine ⟨rfl, rfl, rfl, rfl, rfl, rfl, by decide, by decide⟩

/-- `Location.Defect` members in definition order: `auto()` numbers them 1, 2, 4, … in the order the
driver and the adapter decode the defect bits. -/
theorem C12_gen_defect_flags : Gen.C12.defectMembers = ["NONE=0", "MISS_LEFT=auto()", "MISS_RIGHT=auto()", "BEYOND_LEFT=auto()", "BEYOND_RIGHT=auto()", "UNK_LOC=auto()", "BETWEEN=auto()"] := rfl

/-- default values of the optional parameters of every public entry point, as the adapter, the
oracle and the model assume them. -/
theorem C12_gen_defaults : Gen.C12.defaults = ["fasta_file:FastaFile.__init__(chars_per_line=80)", "fasta_file:FastaFile.read(chars_per_line=80)", "fasta_file:FastaFile.write_iter(chars_per_line=80)", "fasta_convert:get_sequence(header=None)", "fasta_convert:get_sequence(seq_type=None)", "fasta_convert:get_sequences(seq_type=None)", "fasta_convert:set_sequence(header=None)", "fasta_convert:set_sequence(as_rna=False)", "fasta_convert:set_sequences(as_rna=False)", "fasta_convert:get_alignment(additional_gap_chars=('_',))", "fasta_convert:get_alignment(seq_type=None)", "fastq_file:FastqFile.__init__(chars_per_line=None)", "fastq_file:FastqFile.read(chars_per_line=None)", "fastq_file:FastqFile.write_iter(chars_per_line=None)", "fastq_convert:get_sequence(header=None)", "fastq_convert:set_sequence(header=None)", "fastq_convert:set_sequence(as_rna=False)", "fastq_convert:set_sequences(as_rna=False)", "gb_annotation:get_annotation(include_only=None)", "gb_sequence:get_sequence(format='gb')", "gb_sequence:get_annotated_sequence(format='gb')", "gb_sequence:get_annotated_sequence(include_only=None)", "gb_sequence:set_sequence(sequence_start=1)", "gb_file:GenBankFile.set_field(subfield_dict=None)", "gb_file:GenBankFile.insert(subfields=None)", "gb_file:GenBankFile.append(subfields=None)", "gb_metadata:set_locus(mol_type=None)", "gb_metadata:set_locus(is_circular=False)", "gb_metadata:set_locus(division=None)", "gb_metadata:set_locus(date=None)", "gff_file:GFFFile.insert(attributes=None)", "gff_file:GFFFile.append(attributes=None)", "gff_convert:set_annotation(seqid=None)", "gff_convert:set_annotation(source=None)", "gff_convert:set_annotation(is_stranded=True)"] := rfl

/-- normal form of every public function / method of the anchored modules (private helpers and
globals inlined): the set of atoms — each constant together with the operator, call or subscript it
occurs in, public names, raised exception classes, `assert` — the ordered list of checks (test of a
guard → what it raises) and the public signature with its defaults, as the model was written and
validated against.  Independent of names of locals and private helpers, comments, docstrings,
annotations, message texts, temporaries, hoisted invariants, comprehension vs loop. -/
theorem C12_gen_structure :
    Gen.C12.fp_file = [("wrap_string", 35419432600929693), ("is_binary", 49626307172125430), ("is_text", 19259285616825936), ("is_open_compatible", 37630586446707519), ("File.read", 49328886594227237), ("File.write", 31799960226389538), ("TextFile.__init__", 69306437034382077), ("TextFile.read", 52120078402071960), ("TextFile.read_iter", 766314282259654), ("TextFile.write", 55057777619693830), ("TextFile.write_iter", 36939992801995813), ("TextFile.__copy_fill__", 6315171286208202), ("TextFile.__str__", 4419374427646216)] ∧
    Gen.C12.fp_fasta_file = [("FastaFile.__init__", 11559488786374512), ("FastaFile.__copy_create__", 14260330013813324), ("FastaFile.__copy_fill__", 12325213545439180), ("FastaFile.read", 26051572126232406), ("FastaFile.__setitem__", 15298155075820850), ("FastaFile.__getitem__", 26497480484120308), ("FastaFile.__delitem__", 51916195431509548), ("FastaFile.__len__", 67197355867975694), ("FastaFile.__iter__", 13476026621538461), ("FastaFile.__contains__", 3138836788283485), ("FastaFile.read_iter", 33375523047882932), ("FastaFile.write_iter", 30297638909034209)] ∧
    Gen.C12.fp_fasta_convert = [("get_sequence", 27097936347591233), ("get_sequences", 15109437369935731), ("set_sequence", 14777882798964464), ("set_sequences", 65240910253567931), ("get_alignment", 50172798922406728), ("set_alignment", 19771020133285036)] ∧
    Gen.C12.fp_fastq_file = [("FastqFile.__init__", 24967520218892889), ("FastqFile.__copy_create__", 40941349759598167), ("FastqFile.__copy_fill__", 12325213545439180), ("FastqFile.read", 5873035550019428), ("FastqFile.get_seq_string", 18731499886280674), ("FastqFile.get_quality", 47514378847239196), ("FastqFile.__setitem__", 65831970734693474), ("FastqFile.__getitem__", 36364006990984904), ("FastqFile.__delitem__", 55488951866436936), ("FastqFile.__len__", 67197355867975694), ("FastqFile.__iter__", 13476026621538461), ("FastqFile.__contains__", 3138836788283485), ("FastqFile.read_iter", 15807796335088371), ("FastqFile.write_iter", 65264733610238904)] ∧
    Gen.C12.fp_fastq_convert = [("get_sequence", 14449425206102564), ("get_sequences", 14962941915508152), ("set_sequence", 63610318038703658), ("set_sequences", 15813476301234174)] ∧
    Gen.C12.fp_gb_annotation = [("get_annotation", 55546838965727864), ("set_annotation", 19514761422724229)] ∧
    Gen.C12.fp_gb_sequence = [("get_raw_sequence", 44050919668491007), ("get_sequence", 36692769385835443), ("get_annotated_sequence", 60394071482171264), ("set_sequence", 40583655808820566), ("set_annotated_sequence", 1037099722766856)] ∧
    Gen.C12.fp_gb_file = [("GenBankFile.__init__", 23984363107182567), ("GenBankFile.__copy_fill__", 6315171286208202), ("GenBankFile.read", 48859915455565095), ("GenBankFile.get_fields", 44852223148681354), ("GenBankFile.get_indices", 55050368588457715), ("GenBankFile.set_field", 64859228809277444), ("GenBankFile.__getitem__", 14690021035584258), ("GenBankFile.__setitem__", 351990800679688), ("GenBankFile.__delitem__", 30399948491175834), ("GenBankFile.__len__", 67197355867975694), ("GenBankFile.insert", 68670262518475396), ("GenBankFile.append", 56939257242020592), ("MultiFile.__iter__", 71428477504929784)] ∧
    Gen.C12.fp_gb_metadata = [("get_locus", 24599632968182420), ("get_definition", 10872155983158050), ("get_accession", 45138340309940518), ("get_version", 4005913266603708), ("get_gi", 14987884493638729), ("get_db_link", 11274162179669594), ("get_source", 45138340309940518), ("set_locus", 46523807615641305)] ∧
    Gen.C12.fp_gff_file = [("GFFFile.__init__", 26650357356290362), ("GFFFile.__copy_fill__", 21142833672742339), ("GFFFile.read", 1524521677750017), ("GFFFile.insert", 63824967934377951), ("GFFFile.append", 45675090618465030), ("GFFFile.append_directive", 37067977286222324), ("GFFFile.directives", 48857077783702527), ("GFFFile.__setitem__", 64397921176684124), ("GFFFile.__getitem__", 2036669111809484), ("GFFFile.__delitem__", 411503896336440), ("GFFFile.__len__", 67197355867975694)] ∧
    Gen.C12.fp_gff_convert = [("get_annotation", 3242169437606570), ("set_annotation", 26582119032847406)] ∧
    Gen.C12.fp_general = [("load_sequence", 17620388700019868), ("save_sequence", 68738560978143839), ("load_sequences", 54461000397802422), ("save_sequences", 52301574359472378)] := by
  refine ⟨rfl, rfl, rfl, rfl, rfl, rfl, rfl, rfl, rfl, rfl, rfl, rfl⟩

/-- Every private helper / global of the anchored source that the adapter and the oracles call directly
(FASTQ score encoder and decoder, GenBank location printer and parser, the ORIGIN start reader, the GFF
line writer, the `safe` set, the offset table) was found by one of its structural traits: no case had
to be judged without its `ops`, no oracle had to abstain. -/
theorem C12_gen_helpers_found : Gen.C12.helpersMissing = [] := rfl

/-! ## Non-vacuity -/

example : HeaderOk "a >b;c".toList ∧ SeqOk "ACG*-N".toList := by
  unfold HeaderOk NoEdgeSpace SeqOk; decide

example : (fastaSet (Fasta.empty 3) " a b\n".toList "ACGTA".toList).map (·.lines) =
    .ok [">a b".toList, "ACG".toList, "TA".toList] := by decide

example : Expressible ⟨5, 5, false, { br := true }⟩ ∧ printLocs [⟨5, 5, false, { br := true }⟩] = ">5".toList := by
  unfold Expressible; decide

example : parseLocs "join(complement(<5..>9),12,7^8)".toList =
    some [⟨5, 9, true, { bl := true, br := true }⟩, ⟨12, 12, false, {}⟩, ⟨7, 8, false, { btw := true }⟩] := by decide

example : fastqFind ["@r".toList, "ACGT".toList, "+".toList, "@+".toList, "+@".toList] = .ok [("r".toList, 1, 2, 3, 5)] := by
  decide

example : quote Gen.C12.notQuoted "a%41b;c=d\te".toList = "a%2541b%3Bc%3Dd%09e".toList := by decide

example : (createLine Gen.C12.notQuoted ⟨"chr 1".toList, "a;b".toList, "t%41".toList, 1, 99, none, some true, some 0,
    [("ID".toList, "x=1,2".toList)]⟩).map String.ofList = .ok "chr 1\ta%3Bb\tt%2541\t1\t99\t.\t-\t0\tID=x%3D1%2C2" := by decide

example : quoteV Gen.C12.notQuoted "x  ".toList = "x %20".toList := by decide

example : gbToLines "AVERYLONGFIELDNAME".toList ["x".toList] [] = .error .valueError ∧
    gbToLines "//x".toList ["x".toList] [] = .error .valueError ∧
    gbToLines "ORIGIN".toList ["gene 1..5".toList] [] = .error .valueError ∧
    gbToLines " Source ".toList ["x".toList] [] = .ok ["SOURCE      x".toList] := by decide

example : (gbAppend Gb.empty "locus".toList ["x".toList] []).map (fun g => (g.lines.map String.ofList, g.pos.map (fun p => (p.1, p.2.1, String.ofList p.2.2)))) =
    .ok (["LOCUS       x", "//"], [(0, 1, "LOCUS")]) := by decide

example : gffGroup "ID".toList
    [⟨"CDS".toList, (1, 5, some false), [("ID".toList, "a".toList)]⟩, ⟨"CDS".toList, (9, 12, some false), [("ID".toList, "a".toList)]⟩,
     ⟨"gene".toList, (1, 12, some true), []⟩, ⟨"gene".toList, (20, 30, none), []⟩] =
    [⟨"CDS".toList, [(1, 5, some false), (9, 12, some false)], [("ID".toList, "a".toList)]⟩,
     ⟨"gene".toList, [(1, 12, some true)], []⟩, ⟨"gene".toList, [(20, 30, none)], []⟩] := by decide

example : printFeatures [⟨"CDS".toList, [⟨5, 9, true, { bl := true }⟩], [("pseudo".toList, none), ("note".toList, some " a=/b\nc".toList)]⟩] =
    ["     CDS             complement(<5..9)".toList, "                     /pseudo".toList,
     "                     /note=\" a=/b\"".toList, "                     /note=\"c\"".toList] := by decide

example : (printOrigin (-5) "ACGTACGTACGT".toList).map String.ofList = ["       -5 acgtacgtac gt"] := by decide

example : featCheck ⟨"gene".toList, [], [("a b".toList, none)]⟩ = false ∧ featCheck ⟨"averyveryverylongkey".toList, [], []⟩ = false ∧
    featCheck ⟨"gene".toList, [], [("note".toList, some "a\"b".toList)]⟩ = false ∧
    featCheck ⟨"a-15-char-key__".toList, [], [("db/xref".toList, some " x=/y ".toList), ("".toList, none)]⟩ = true := by decide

example : (∀ c ∈ lower "ACGTN*acgt".toList, OSymOk c) ∧ QKeyOk "db/xref".toList ∧ QValOk " a=/b ".toList := by
  unfold OSymOk QKeyOk QValOk; decide

end BiotiteModel.C12

import BiotiteModel.Proofs.C12Fasta
import BiotiteModel.Gen.C12
/-!
# C12 — property theorems (sequence file formats return what was written)

Only property statements and non-vacuity examples; the proofs are in `Proofs/C12*.lean`.
All theorems quantify over all inputs (no size bounds).
-/
namespace BiotiteModel.C12

/-! ## FASTA -/

/-- **FASTA round trip, every wrap width ≥ 1.**  Entries with one-line headers (no blank at
either end) and whitespace-free sequences (empty ones included), written with any
`chars_per_line = w ≥ 1`, then the text re-read (with any `chars_per_line`), come back as the
same entries in the same order. -/
theorem C12_fasta (es : List (Str × Str)) (w cpl : Nat) (hw : 1 ≤ w) (hne : es ≠ [])
    (hh : ∀ e ∈ es, HeaderOk e.1) (hs : ∀ e ∈ es, SeqOk e.2) (hnd : (es.map (·.1)).Nodup) :
    ∃ f0 f, es.foldlM (fun f e => fastaSet f e.1 e.2) (Fasta.empty w) = .ok f0 ∧
            fastaRead (textRoundTrip f0.lines) cpl = .ok f ∧ fastaItems f = .ok es := by
  obtain ⟨f0, h0, hl, _, _⟩ := fasta_print_eq_sets es w hw hh hnd
  obtain ⟨f, h1, h2⟩ := fasta_roundtrip es w cpl hw hne hh hs hnd
  exact ⟨f0, f, h0, by rw [hl]; exact h1, h2⟩

/-- Arbitrary header strings (blanks at the ends, embedded `\n`) come back normalised
(`header.replace("\n","").strip()`), provided the normalised headers are distinct. -/
theorem C12_fasta_normalised (es : List (Str × Str)) (w cpl : Nat) (hw : 1 ≤ w) (hne : es ≠ [])
    (hs : ∀ e ∈ es, SeqOk e.2) (hnd : (es.map (fun e => normHeader e.1)).Nodup) :
    ∃ f, fastaRead (textRoundTrip (fastaPrint w es)) cpl = .ok f ∧
         fastaItems f = .ok (es.map (fun e => (normHeader e.1, e.2))) :=
  fasta_roundtrip_norm es w cpl hw hne hs hnd

/-- An empty file cannot be read back (`InvalidFileError`), it is never mistaken for entries. -/
theorem C12_fasta_empty (cpl : Nat) : fastaRead (textRoundTrip []) cpl = .error .invalidFile := by
  decide

/-- **Edit consistency (FASTA).**  After `__setitem__` / `__delitem__` the entry index of the file
object is exactly what re-indexing its text gives (the repaired `__setitem__` keys the entry by
the normalised header). -/
theorem C12_edit_consistent_fasta (f f' : Fasta) (h seq : Str)
    (hinv : fastaFind f.lines = .ok f.entries) (hs : SeqOk seq) :
    (fastaSet f h seq = .ok f' → fastaFind f'.lines = .ok f'.entries) ∧
    (fastaDel f h = .ok f' → fastaFind f'.lines = .ok f'.entries) :=
  ⟨fasta_set_inv f f' h seq hinv hs, fasta_del_inv f f' h⟩

/-- … and the mapping view follows the dictionary specification: setting a new key appends
exactly that entry and leaves every other entry unchanged. -/
theorem C12_edit_fasta_set_spec (f f' : Fasta) (h seq : Str) (items : List (Str × Str))
    (hinv : fastaFind f.lines = .ok f.entries) (hs : SeqOk seq) (hc : 1 ≤ f.cpl)
    (hfresh : f.entries.lookup (normHeader h) = none)
    (hset : fastaSet f h seq = .ok f') (hit : fastaItems f = .ok items) :
    fastaItems f' = .ok (items ++ [(normHeader h, seq)]) :=
  fasta_set_fresh_items' f f' h seq items hinv hs hc hfresh hset hit

/-! ## Non-vacuity -/

example : HeaderOk "a >b;c".toList ∧ SeqOk "ACG*-N".toList := by
  refine ⟨⟨by decide, ?_, ?_⟩, ?_⟩ <;> decide

example : (fastaSet (Fasta.empty 3) " a b\n".toList "ACGTA".toList).map (·.lines) =
    .ok [">a b".toList, "ACG".toList, "TA".toList] := by decide

end BiotiteModel.C12

import BiotiteModel.Proofs.C14
import BiotiteModel.Gen.C14
import BiotiteModel.Proofs.C14Expected
/-!
# C14 — property theorems (cell-list neighbour search is exact)

Model: `Model/C14.lean` (ℚ arithmetic; float32 rounding is the *partial* label).  All theorems
quantify over every coordinate list, cell size, query point, radius and selection.
`mk … = some (.ok c)` means "`CellList(coords, cs, …)` was constructed".
-/
namespace BiotiteModel.C14

/-! ## window sufficiency -/

/-- One axis, C truncation (`<int>`), **any** query point `q` (also left of / beyond the grid):
an atom at `a ≥ min` with `|a - q| ≤ r` has a cell index within `ceil(r/cs)` of the query's.
This is where truncation-toward-zero (instead of floor) matters: it holds because all atoms
have index `≥ 0`. -/
theorem C14_window_sufficient (mn cs a q r : Rat) (hcs : 0 < cs) (ha : mn ≤ a)
    (h1 : a - q ≤ r) (h2 : q - a ≤ r) :
    cellIdx1 mn cs a - cellIdx1 mn cs q ≤ (r / cs).ceil ∧
    cellIdx1 mn cs q - cellIdx1 mn cs a ≤ (r / cs).ceil :=
  window1 mn cs a q r hcs ha h1 h2

-- non-vacuity: a query left of the origin cell truncates to cell 0, not -1
example : cellIdx1 0 4 (-3) = 0 ∧ cellIdx1 0 4 7 = 1 ∧ ((4 : Rat) / 4).ceil = 1 := by decide +kernel

/-- Three axes, on a constructed cell list: every atom within Chebyshev distance `r` of any
query point lies in a cell that the window scan visits (inside the window *and* inside the grid). -/
theorem C14_window_sufficient_3d (coords : List V3) (cs : Rat) (box : Option V3)
    (sel : Option (List Bool)) (c : CL) (h : mk coords cs box sel = some (.ok c))
    (p : V3) (hp : p ∈ c.coord) (q : V3) (r : Rat) (hn : near q p r) :
    CL.inWindow (c.cellOf q) (c.cellOf p) (c.cellRadius r) = true ∧
    CL.inGrid c.dims (c.cellOf p) = true :=
  have hwf := (mk_ok coords cs box sel c h).1
  ⟨inWindow_of_near c hwf p hp q r hn, inGrid_of_wf c hwf p hp⟩

/-- Index invariant behind the unchecked pointer-cell accesses: every binned coordinate
(incl. periodic copies) has `0 ≤ cell index < cell_count` on every axis. -/
theorem C14_cells_in_grid (coords : List V3) (cs : Rat) (box : Option V3)
    (sel : Option (List Bool)) (c : CL) (h : mk coords cs box sel = some (.ok c))
    (p : V3) (hp : p ∈ c.coord) : CL.inGrid c.dims (c.cellOf p) = true :=
  inGrid_of_wf c (mk_ok coords cs box sel c h).1 p hp

/-- The literal three-level window scan with clipping returns exactly the selected atoms whose
cell is in the window and in the grid. -/
theorem C14_scan_characterised (c : CL) (q : V3) (cr : Int) (pt : V3 × Nat) :
    pt ∈ c.scan q cr ↔ pt ∈ c.coord.zipIdx ∧ c.selected pt.2 = true ∧
      CL.inGrid c.dims (c.cellOf pt.1) = true ∧ CL.inWindow (c.cellOf q) (c.cellOf pt.1) cr = true := by
  rw [mem_scan_iff, mem_scanFast]

/-! ## exactness (non-periodic) -/

theorem selected_of_lt (c : CL) (t : Nat) (ht : t < c.n) :
    c.selected t = true ↔ c.sel[t]? = some true := by
  simp [CL.selected, Nat.mod_eq_of_lt ht]

/-- `get_atoms(q, r)` returns exactly the selected atoms with `dist² ≤ r²` — for every query
point, radius `≥ 0` (also `0` and `> extent`), selection or none. -/
theorem C14_exact (coords : List V3) (cs : Rat) (sel : Option (List Bool)) (c : CL)
    (h : mk coords cs none sel = some (.ok c)) (q : V3) (r : Rat) (hr : 0 ≤ r) (t : Nat) :
    t ∈ c.atomsOne q r ↔
      ∃ p, coords[t]? = some p ∧ (selMask sel coords.length)[t]? = some true ∧ sqDist q p ≤ r * r := by
  obtain ⟨hwf, hcoord, hn, hbox, -, -, -, hsel⟩ := mk_ok coords cs none sel c h
  rw [atomsOne_eq]
  simp only [CL.post, CL.prepQ, hbox]
  rw [mem_rawAtoms c hwf q r hr t, hcoord]
  simp only [allCoords]
  constructor
  · rintro ⟨p, hp, hs, hd⟩
    have ht : t < c.n := by rw [hn]; exact (List.getElem?_eq_some_iff.mp hp).1
    exact ⟨p, hp, by rw [← hsel]; exact (selected_of_lt c t ht).mp hs, hd⟩
  · rintro ⟨p, hp, hs, hd⟩
    have ht : t < c.n := by rw [hn]; exact (List.getElem?_eq_some_iff.mp hp).1
    exact ⟨p, hp, (selected_of_lt c t ht).mpr (by rw [hsel]; exact hs), hd⟩

/-- masks ⇔ indices: the mask row is `true` exactly at the returned indices. -/
theorem C14_exact_mask (coords : List V3) (cs : Rat) (sel : Option (List Bool)) (c : CL)
    (h : mk coords cs none sel = some (.ok c)) (q : V3) (r : Rat) (hr : 0 ≤ r) (t : Nat) :
    (c.asMask (c.atomsOne q r))[t]? = some true ↔ t ∈ c.atomsOne q r := by
  rw [mem_asMask]
  constructor
  · exact fun h => h.2
  · intro ht
    refine ⟨?_, ht⟩
    obtain ⟨p, hp, -, -⟩ := (C14_exact coords cs sel c h q r hr t).mp ht
    rw [(mk_ok coords cs none sel c h).2.2.1]
    exact (List.getElem?_eq_some_iff.mp hp).1

/-- Batches: whenever the batch call answers, row `i` is the exact set for query `i` with its
radius (scalar or per-query) — also when the result-buffer length wrapped to a still sufficient value.
Hypothesis `hsmall`: every `ceil(r/cs)` fits int32; beyond it a scalar radius is refused
(`C14_scalar_radius_beyond_int32_rejects`) and per-query radii are silently wrong
(`C14_per_query_radius_beyond_int32_defect`). -/
theorem C14_exact_batch (coords : List V3) (cs : Rat) (sel : Option (List Bool)) (c : CL)
    (h : mk coords cs none sel = some (.ok c)) (qs : List V3) (rad : Rad Rat) (rows : List (List Nat))
    (hsmall : ∀ r ∈ rad.expand qs.length, c.cellRadius r < 2 ^ 31)
    (hb : c.atomsBatch qs rad = some (.ok rows)) :
    rows.length = min qs.length (rad.expand qs.length).length ∧
    ∀ (i : Nat) (q : V3) (r : Rat) (row : List Nat), qs[i]? = some q → (rad.expand qs.length)[i]? = some r → rows[i]? = some row →
      ∀ t, t ∈ row ↔ ∃ p, coords[t]? = some p ∧ (selMask sel coords.length)[t]? = some true ∧
        sqDist q p ≤ r * r := by
  have hrows := atomsBatch_rows c qs rad rows hsmall hb
  constructor
  · rw [hrows]; simp
  · intro i q r row hq hr hrow t
    have hne : qs ≠ [] := by intro h0; subst h0; simp at hq
    have hnn := atomsBatch_nonneg c qs rad rows hne hb r (List.mem_of_getElem? hr)
    rw [hrows] at hrow
    simp only [List.getElem?_map, List.getElem?_zip_eq_some, Option.map_eq_some_iff] at hrow
    obtain ⟨⟨q', r'⟩, ⟨hq', hr'⟩, rfl⟩ := hrow
    rw [hq] at hq'; rw [hr] at hr'
    have e1 := Option.some.inj hq'; have e2 := Option.some.inj hr'
    subst e1; subst e2
    exact C14_exact coords cs sel c h q r hnn t

/-- The batch call answers whenever the radii are valid and the C `int` result-buffer length does
not overflow (`Guard.fits`; otherwise see `C14_overflow_defect`). -/
theorem C14_batch_defined (c : CL) (qs : List V3) (rad : Rad Rat) (hq : qs ≠ [])
    (hchk : rad.check qs.length (fun r => decide (r < 0)) = .ok ())
    (hsmall : ∀ r ∈ rad.expand qs.length, c.cellRadius r < 2 ^ 31)
    (hfit : c.guard (maxRadius ((rad.expand qs.length).map c.cellRadius)) = .fits) :
    c.atomsBatch qs rad =
      some (.ok ((qs.zip (rad.expand qs.length)).map fun qr => c.atomsOne qr.1 qr.2)) :=
  atomsBatch_ok c qs rad hq hchk hsmall hfit

/-- scalar ⇔ per-query radii (for `ceil(r/cs) < 2^31`; beyond it the two differ: see the defect below). -/
theorem C14_scalar_iff_multi (c : CL) (qs : List V3) (r : Rat) (hsmall : c.cellRadius r < 2 ^ 31) :
    c.atomsBatch qs (.scalar r) = c.atomsBatch qs (.multi (List.replicate qs.length r)) :=
  scalar_eq_multi c qs r hsmall

/-- A scalar radius with `ceil(r/cs) ≥ 2^31` is refused with `OverflowError` (never answered). -/
theorem C14_scalar_radius_beyond_int32_rejects (c : CL) (qs : List V3) (r : Rat) (hq : qs ≠ []) (hr : 0 ≤ r)
    (hh : 2 ^ 31 ≤ c.cellRadius r) : c.atomsBatch qs (.scalar r) = some (.error .overflowError) :=
  atomsBatch_scalar_huge c qs r hq hr hh

/-- Known defect (kept visible; known finding `C14/per-query-radius/cell-radius-beyond-int32-silently-empty`):
the same radius given per query is *not* refused: `ceil(r/cs).astype(int32)` wraps, the window is empty and the
query silently returns nothing — here radius `2^32` with cell size 1 finds none of the two atoms at distance ≤ 1,
while the second query (radius 1) is answered correctly. -/
theorem C14_per_query_radius_beyond_int32_defect :
    ∃ c, mk [⟨0,0,0⟩, ⟨1,0,0⟩] 1 none none = some (.ok c) ∧
      c.atomsBatch [⟨0,0,0⟩, ⟨0,0,0⟩] (.multi [4294967296, 1]) = some (.ok [[], [0, 1]]) ∧
      c.atomsBatch [⟨0,0,0⟩, ⟨0,0,0⟩] (.scalar 4294967296) = some (.error .overflowError) :=
  ⟨_, rfl, by decide +kernel, by decide +kernel⟩

/-- The batch also answers (with the same rows) when the buffer length wrapped to a positive value that still
holds everything every query writes. -/
theorem C14_batch_defined_wrapped (c : CL) (qs : List V3) (rad : Rad Rat) (hq : qs ≠ [])
    (hchk : rad.check qs.length (fun r => decide (r < 0)) = .ok ())
    (hsmall : ∀ r ∈ rad.expand qs.length, c.cellRadius r < 2 ^ 31)
    (hw : c.guard (maxRadius ((rad.expand qs.length).map c.cellRadius)) = .wrapped)
    (hlen : ((qs.zip ((rad.expand qs.length).map c.cellRadius)).all fun qr =>
      decide ((c.scanLen CL.scan qr.1 qr.2 : Int) ≤
        wrap32 (c.bufLen (maxRadius ((rad.expand qs.length).map c.cellRadius))))) = true) :
    c.atomsBatch qs rad =
      some (.ok ((qs.zip (rad.expand qs.length)).map fun qr => c.atomsOne qr.1 qr.2)) := by
  unfold CL.atomsBatch CL.atomsBatchWith
  have he : qs.isEmpty = false := by simpa using hq
  have hany := any_huge_false c.cellRadius _ hsmall
  simp only [he, hchk, hany, hw, CL.wrappedAnswer, hlen]
  rfl

/-- 16 atoms on one point (one cell holds 16 = `max_cell_length`) and three more in neighbouring cells -/
def dupWitness : List V3 :=
  List.replicate 16 ⟨0,0,0⟩ ++ [⟨3/2,0,0⟩, ⟨5/2,0,0⟩, ⟨7/2,0,0⟩]

/-- Known defect beyond `Guard.fits`/`negative` (kept visible; known finding
`C14/result-buffer-length-int-overflow/wrapped-positive-length-truncates-result`, replayed on the real code):
with cell radius `2^27` the C `int` length `(2·2^27+1)³·16` wraps to **16**, but the query writes 19 indices
(`mem_scan_iff`: the literal scan visits exactly the atoms `scanFast` lists): the code writes past the row and
returns only 16 of the 19 atoms.  The model abstains (`none`) exactly there. -/
theorem C14_wrapped_buffer_defect :
    ∃ c, mk dupWitness 1 none none = some (.ok c) ∧
      c.guard (2 ^ 27) = .wrapped ∧ wrap32 (c.bufLen (2 ^ 27)) = 16 ∧
      c.scanLen CL.scanFast ⟨0,0,0⟩ (2 ^ 27) = 19 ∧
      c.cellsBatchWith CL.scanFast [⟨0,0,0⟩] (.scalar (2 ^ 27)) = none :=
  ⟨_, rfl, by decide +kernel, by decide +kernel, by decide +kernel, by decide +kernel⟩
/-- Negative radii are refused with `ValueError` (scalar; never answered). -/
theorem C14_negative_radius_rejects (c : CL) (qs : List V3) (r : Rat) (hq : qs ≠ []) (hr : r < 0) :
    c.atomsBatch qs (.scalar r) = some (.error .valueError) := by
  unfold CL.atomsBatch CL.atomsBatchWith
  have he : qs.isEmpty = false := by simpa using hq
  simp [he, Rad.check, hr]

/-- The constructor (no box) refuses exactly: a selection error, or `cell_size ≤ 0`; otherwise it constructs. -/
theorem C14_constructor_rejects (coords : List V3) (cs : Rat) (sel : Option (List Bool)) :
    (∀ e, selError coords sel = some e → mk coords cs none sel = some (.error e)) ∧
    (selError coords sel = none → cs ≤ 0 → mk coords cs none sel = some (.error .valueError)) ∧
    (selError coords sel = none → 0 < cs → ∃ c, mk coords cs none sel = some (.ok c)) := by
  refine ⟨?_, ?_, ?_⟩
  · intro e he; simp [mk, he]
  · intro he hc; simp [mk, he, boxOk, hc]
  · intro he hc
    have hne : coords ≠ [] := by
      intro h0; subst h0
      cases sel with
      | none => simp [selError] at he
      | some s =>
        simp only [selError] at he
        split at he
        · simp at he
        · rename_i hl
          have : s = [] := by simpa using hl
          subst this; simp at he
    obtain ⟨p, ps, rfl⟩ := List.exists_cons_of_ne_nil hne
    exact ⟨build (p :: ps) cs none sel p ps, by simp [mk, he, boxOk, not_le.mpr hc, allCoords]⟩

/-- A singular box matrix is refused (`numpy.linalg.inv` raises `LinAlgError`) before the cell size is looked at. -/
theorem C14_singular_box_rejects (coords : List V3) (cs : Rat) (B : M3) (sel : Option (List Bool))
    (hs : selError coords sel = none) (hd : B.det = 0) :
    mkG coords cs B sel = some (.error (.other "LinAlgError")) := by
  simp [mkG, hs, hd]

/-- Known defect (kept visible): with 5 atoms, cell size 1 and radius 700 — the documented
"radius larger than the extent" use — `(2*700+1)**3 * 1` does not fit a C `int`, wraps negative
and the query fails with `ValueError` instead of returning the atoms. -/
theorem C14_overflow_defect :
    ∃ c, mk [⟨0,0,0⟩, ⟨1,0,0⟩, ⟨2,0,0⟩, ⟨3,0,0⟩, ⟨4,0,0⟩] 1 none none = some (.ok c) ∧
      c.atomsBatch [⟨0,0,0⟩] (.scalar 700) = some (.error .valueError) :=
  ⟨_, rfl, by decide +kernel⟩

/-! ## cell queries -/

/-- `get_atoms_in_cells(q, R)` contains every selected atom within Chebyshev distance `R·cs`
of the query point (any query point, any `R`). -/
theorem C14_cells_superset (coords : List V3) (cs : Rat) (sel : Option (List Bool)) (c : CL)
    (h : mk coords cs none sel = some (.ok c)) (q : V3) (R : Int) (t : Nat) (p : V3)
    (hp : coords[t]? = some p) (hs : (selMask sel coords.length)[t]? = some true)
    (hn : near q p (R * cs)) : t ∈ c.cellsOne q R := by
  obtain ⟨hwf, hcoord, hn', hbox, hcs, -, -, hsel⟩ := mk_ok coords cs none sel c h
  have ht : t < c.n := by rw [hn']; exact (List.getElem?_eq_some_iff.mp hp).1
  show t ∈ c.post ((c.scan (c.prepQ q) R).map (·.2))
  simp only [CL.post, CL.prepQ, hbox]
  apply mem_rawCells c hwf q R t p
  · rw [hcoord]; exact hp
  · exact (selected_of_lt c t ht).mpr (by rw [hsel]; exact hs)
  · rw [hcs]; exact hn

/-- … and nothing but selected atoms of the array. -/
theorem C14_cells_sound (coords : List V3) (cs : Rat) (sel : Option (List Bool)) (c : CL)
    (h : mk coords cs none sel = some (.ok c)) (q : V3) (R : Int) (t : Nat)
    (ht : t ∈ c.cellsOne q R) :
    t < coords.length ∧ (selMask sel coords.length)[t]? = some true := by
  obtain ⟨hwf, hcoord, hn', hbox, hcs, -, -, hsel⟩ := mk_ok coords cs none sel c h
  have ht' : t ∈ c.post ((c.scan (c.prepQ q) R).map (·.2)) := ht
  simp only [CL.post, CL.prepQ, hbox] at ht'
  obtain ⟨p, hp, hs⟩ := mem_rawCells_sound c q R t ht'
  rw [hcoord] at hp
  have hlt : t < coords.length := (List.getElem?_eq_some_iff.mp hp).1
  exact ⟨hlt, by rw [← hsel]; exact (selected_of_lt c t (by rw [hn']; exact hlt)).mp hs⟩

/-! ## adjacency matrix -/

/-- `create_adjacency_matrix(thr)`: one row per atom; entry `(i,j)` is set iff both atoms are
selected and `dist² ≤ thr²`, i.e. the matrix equals the thresholded pairwise distance matrix. -/
theorem C14_adjacency_eq (coords : List V3) (cs : Rat) (sel : Option (List Bool)) (c : CL)
    (h : mk coords cs none sel = some (.ok c)) (thr : Rat) (rows : List (List Nat))
    (ha : c.adjacency thr = some (.ok rows)) :
    rows.length = coords.length ∧
    ∀ (i : Nat) (row : List Nat) (pi : V3), rows[i]? = some row → coords[i]? = some pi → ∀ j : Nat,
      j ∈ row ↔ ∃ pj, coords[j]? = some pj ∧ (selMask sel coords.length)[i]? = some true ∧
        (selMask sel coords.length)[j]? = some true ∧ sqDist pi pj ≤ thr * thr := by
  obtain ⟨hwf, hcoord, hn, hbox, hcs, hselerr, -, hsel⟩ := mk_ok coords cs none sel c h
  have hlen : (selMask sel coords.length).length = coords.length := by
    unfold selError at hselerr
    cases sel with
    | none => simp [selMask]
    | some s =>
      simp only [selMask]
      by_contra hc
      simp [hc] at hselerr
  unfold CL.adjacency CL.adjacencyWith at ha
  split at ha
  · simp at ha
  · rename_i hthr
    have hthr' : 0 ≤ thr := not_lt.mp hthr
    simp only at ha
    split at ha
    · rename_i rows0 hb
      simp only [Option.some.injEq, Except.ok.injEq] at ha
      have hsm : ∀ r ∈ (Rad.scalar thr).expand
          (List.filterMap (fun ps : V3 × Bool => if ps.2 = true then some ps.1 else none)
            ((List.take c.n c.coord).zip c.sel)).length, c.cellRadius r < 2 ^ 31 := by
        intro r hr
        simp only [Rad.expand, List.mem_replicate] at hr
        have hq : (List.filterMap (fun ps : V3 × Bool => if ps.2 = true then some ps.1 else none)
            ((List.take c.n c.coord).zip c.sel)) ≠ [] := by
          intro h0; rw [h0] at hr; simp at hr
        rw [hr.2]; exact atomsBatch_scalar_small c _ thr rows0 hq hb
      have hrows0 := atomsBatch_rows c _ _ rows0 hsm hb
      simp only [Rad.expand] at hrows0
      rw [zip_replicate_map (fun q r => c.atomsOne q r)] at hrows0
      have hbase : List.take c.n c.coord = coords := by
        rw [hcoord, hn]; simp [allCoords]
      rw [hbase, hsel] at hrows0
      rw [hrows0, hsel, scatter_spec (fun q => c.atomsOne q thr) _ _ hlen.symm] at ha
      subst ha
      constructor
      · simp [hlen]
      · intro i row pi hrow hpi j
        simp only [List.getElem?_map, List.getElem?_zip_eq_some, Option.map_eq_some_iff] at hrow
        obtain ⟨⟨p', b⟩, ⟨hp', hb'⟩, rfl⟩ := hrow
        rw [hpi] at hp'
        have e1 := Option.some.inj hp'; subst e1
        cases b with
        | false =>
          simp only [Bool.false_eq_true, if_false, List.not_mem_nil, false_iff]
          rintro ⟨pj, -, hsi, -⟩
          rw [hb'] at hsi; simp at hsi
        | true =>
          simp only [if_true]
          rw [C14_exact coords cs sel c h pi thr hthr' j]
          constructor
          · rintro ⟨pj, hpj, hsj, hd⟩; exact ⟨pj, hpj, hb', hsj, hd⟩
          · rintro ⟨pj, hpj, -, hsj, hd⟩; exact ⟨pj, hpj, hsj, hd⟩
    · rename_i hne
      cases hr : c.atomsBatchWith CL.scan _ (Rad.scalar thr) with
      | none => rw [hr] at ha; simp at ha
      | some e =>
        cases e with
        | error e => rw [hr] at ha; simp at ha
        | ok r0 => exact absurd hr (hne r0)

theorem sqDist_comm (a b : V3) : sqDist a b = sqDist b a := by
  unfold sqDist; ring

/-- The adjacency matrix is symmetric. -/
theorem C14_adjacency_symm (coords : List V3) (cs : Rat) (sel : Option (List Bool)) (c : CL)
    (h : mk coords cs none sel = some (.ok c)) (thr : Rat) (rows : List (List Nat))
    (ha : c.adjacency thr = some (.ok rows)) (i j : Nat) (ri rj : List Nat)
    (hi : rows[i]? = some ri) (hj : rows[j]? = some rj) : j ∈ ri ↔ i ∈ rj := by
  obtain ⟨hlen, hspec⟩ := C14_adjacency_eq coords cs sel c h thr rows ha
  have hil : i < coords.length := by rw [← hlen]; exact (List.getElem?_eq_some_iff.mp hi).1
  have hjl : j < coords.length := by rw [← hlen]; exact (List.getElem?_eq_some_iff.mp hj).1
  have hpi : coords[i]? = some coords[i] := List.getElem?_eq_getElem hil
  have hpj : coords[j]? = some coords[j] := List.getElem?_eq_getElem hjl
  rw [hspec i ri _ hi hpi j, hspec j rj _ hj hpj i]
  constructor
  · rintro ⟨p, hp, hsi, hsj, hd⟩
    rw [hpj] at hp; cases hp
    exact ⟨_, hpi, hsj, hsi, by rw [sqDist_comm]; exact hd⟩
  · rintro ⟨p, hp, hsj, hsi, hd⟩
    rw [hpi] at hp; cases hp
    exact ⟨_, hpj, hsi, hsj, by rw [sqDist_comm]; exact hd⟩

/-! ## periodic (orthorhombic box `diag(Lx,Ly,Lz)`, all lengths > 0)

No hypothesis relating `r` to the box lengths is needed: `move_inside_box` puts the atoms *and the
query* into `[0,L)³`, so per axis the separation is in `(-L, L)` and the nearest image is always one
of the shifts `-1, 0, 1` that the single replication layer of `repeat_box_coord` provides
(`C14_min_image_1d`).  For `r` larger than the box the index output merely lists an atom several
times (once per image within `r`); as a *set* — and as a mask — the result is still exact
(example below, replayed on the real code in the corpus). -/

/-- `move_inside_box` (one axis): the result lies in `[0, L)` and differs from the input by an
integer multiple of the box length. -/
theorem C14_wrap_lattice (L x : Rat) (hL : 0 < L) :
    0 ≤ wrap1 L x ∧ wrap1 L x < L ∧ wrap1 L x = x - ((x / L).floor : Int) * L :=
  ⟨(wrap1_range L x hL).1, (wrap1_range L x hL).2, wrap1_eq L x hL⟩

/-- With both points inside the box (`-L < d < L`), no lattice shift `m` beats the best of the
three shifts `-1, 0, 1` that `repeat_box_coord` provides: the minimum image is among the 27 replicas. -/
theorem C14_min_image_1d (L d : Rat) (hL : 0 < L) (h1 : -L < d) (h2 : d < L) (m : Int) :
    ∃ s : Int, (s = -1 ∨ s = 0 ∨ s = 1) ∧ (d + s * L) * (d + s * L) ≤ (d + m * L) * (d + m * L) :=
  min_image_1d L d hL h1 h2 m

/-- Index bookkeeping of `repeat_box_coord`: position `image·n + atom` of the replicated array
holds image `shifts[image]` of the moved-inside atom (so `position % n` is the atom). -/
theorem C14_replicate_index (b : V3) (coords : List V3) (t' : Nat) (p' : V3) :
    (replicate b (coords.map (wrapV b)))[t']? = some p' ↔
      ∃ si t s p, t' = si * coords.length + t ∧ shifts[si]? = some s ∧ coords[t]? = some p ∧
        p' = shiftV b s (wrapV b p) :=
  replicate_getElem? b coords t' p'

/-- **Periodic exactness, lattice form.** For every query point (inside or outside the box), every
radius `r ≥ 0` (also larger than the box) and every selection, `get_atoms(q, r)` of a periodic
cell list returns exactly the selected atoms that have *some* lattice translate within `r` of `q`. -/
theorem C14_periodic_exact_lattice (coords : List V3) (cs : Rat) (b : V3) (sel : Option (List Bool)) (c : CL)
    (h : mk coords cs (some b) sel = some (.ok c)) (q : V3) (r : Rat) (hr : 0 ≤ r) (t : Nat) :
    t ∈ c.atomsOne q r ↔
      ∃ p, coords[t]? = some p ∧ (selMask sel coords.length)[t]? = some true ∧
        ∃ n : I3, sqDist q (shiftV b n p) ≤ r * r :=
  periodic_exact coords cs b sel c h q r hr t

/-- The squared minimum-image distance `Σ_axis min(e, L-e)²`, `e = (p-q) mod L`, is attained by a
lattice translate and is a lower bound for all of them. -/
theorem C14_minImage_is_min (b : V3) (hb : 0 < b.x ∧ 0 < b.y ∧ 0 < b.z) (q p : V3) :
    (∃ n : I3, sqDist q (shiftV b n p) = minImageSq b q p) ∧
    ∀ n : I3, minImageSq b q p ≤ sqDist q (shiftV b n p) := by
  constructor
  · obtain ⟨n, hn⟩ := (lattice_iff_minImage b hb q p (minImageSq b q p)).mpr (le_refl _)
    have := (lattice_iff_minImage b hb q p (sqDist q (shiftV b n p))).mp ⟨n, le_refl _⟩
    exact ⟨n, le_antisymm hn this⟩
  · intro n
    exact (lattice_iff_minImage b hb q p _).mp ⟨n, le_refl _⟩

/-- **C14_periodic_exact.** `get_atoms(q, r)` in periodic (orthorhombic) mode =
`{a | selected a ∧ minimum-image dist²(a, q) ≤ r²}`. -/
theorem C14_periodic_exact (coords : List V3) (cs : Rat) (b : V3) (sel : Option (List Bool)) (c : CL)
    (h : mk coords cs (some b) sel = some (.ok c)) (q : V3) (r : Rat) (hr : 0 ≤ r) (t : Nat) :
    t ∈ c.atomsOne q r ↔
      ∃ p, coords[t]? = some p ∧ (selMask sel coords.length)[t]? = some true ∧
        minImageSq b q p ≤ r * r := by
  rw [periodic_exact coords cs b sel c h q r hr t]
  have hb := boxPos_of_mk coords cs b sel c h
  constructor
  · rintro ⟨p, hp, hs, hn⟩; exact ⟨p, hp, hs, (lattice_iff_minImage b hb q p _).mp hn⟩
  · rintro ⟨p, hp, hs, hn⟩; exact ⟨p, hp, hs, (lattice_iff_minImage b hb q p _).mpr hn⟩

/-- masks ⇔ indices in periodic mode (the index list may repeat an atom, the mask cannot). -/
theorem C14_periodic_mask (coords : List V3) (cs : Rat) (b : V3) (sel : Option (List Bool)) (c : CL)
    (h : mk coords cs (some b) sel = some (.ok c)) (q : V3) (r : Rat) (hr : 0 ≤ r) (t : Nat) :
    (c.asMask (c.atomsOne q r))[t]? = some true ↔ t ∈ c.atomsOne q r := by
  rw [mem_asMask]
  constructor
  · exact fun h => h.2
  · intro ht
    refine ⟨?_, ht⟩
    obtain ⟨p, hp, -, -⟩ := (periodic_exact coords cs b sel c h q r hr t).mp ht
    rw [(mk_ok coords cs (some b) sel c h).2.2.1]
    exact (List.getElem?_eq_some_iff.mp hp).1

/-- Periodic `get_atoms_in_cells(q, R)` ⊇ selected atoms with a lattice translate within Chebyshev
distance `R·cs` of `q`. -/
theorem C14_periodic_cells_superset (coords : List V3) (cs : Rat) (b : V3) (sel : Option (List Bool)) (c : CL)
    (h : mk coords cs (some b) sel = some (.ok c)) (q : V3) (R : Int) (t : Nat) (p : V3)
    (hp : coords[t]? = some p) (hs : (selMask sel coords.length)[t]? = some true)
    (n : I3) (hn : near q (shiftV b n p) (R * cs)) : t ∈ c.cellsOne q R :=
  periodic_cells_superset coords cs b sel c h q R t p hp hs n hn

/-- Periodic adjacency matrix: `n` rows; `(i,j)` is set iff both atoms are selected and some lattice
translate of `j` is within `thr` of `i` (equivalently: minimum-image dist² ≤ thr²). -/
theorem C14_periodic_adjacency_eq (coords : List V3) (cs : Rat) (b : V3) (sel : Option (List Bool)) (c : CL)
    (h : mk coords cs (some b) sel = some (.ok c)) (thr : Rat) (rows : List (List Nat))
    (ha : c.adjacency thr = some (.ok rows)) :
    rows.length = coords.length ∧
    ∀ (i : Nat) (row : List Nat) (pi : V3), rows[i]? = some row → coords[i]? = some pi → ∀ j : Nat,
      j ∈ row ↔ ∃ pj, coords[j]? = some pj ∧ (selMask sel coords.length)[i]? = some true ∧
        (selMask sel coords.length)[j]? = some true ∧ minImageSq b pi pj ≤ thr * thr := by
  obtain ⟨hwf, hcoord, hn, hbox, hcs, hselerr, -, hsel⟩ := mk_ok coords cs (some b) sel c h
  have hb := boxPos_of_mk coords cs b sel c h
  have hlen := selMask_length coords sel hselerr
  have hbase : List.take c.n c.coord = coords.map (wrapV b) := by
    rw [hcoord, hn]; simp only [allCoords]
    have := take_replicate b (coords.map (wrapV b))
    rwa [List.length_map] at this
  obtain ⟨hthr, hrows⟩ := adjacency_rows c thr rows (by rw [hbase, hsel, hlen]; simp) ha
  rw [hbase, hsel] at hrows
  subst hrows
  constructor
  · simp [hlen]
  · intro i row pi hrow hpi j
    simp only [List.getElem?_map, List.getElem?_zip_eq_some, Option.map_eq_some_iff] at hrow
    obtain ⟨⟨p', bb⟩, ⟨⟨p0, hp0, hp'⟩, hb'⟩, rfl⟩ := hrow
    rw [hpi] at hp0
    have e1 := Option.some.inj hp0; subst e1
    subst hp'
    cases bb with
    | false =>
      simp only [Bool.false_eq_true, if_false, List.not_mem_nil, false_iff]
      rintro ⟨pj, -, hsi, -⟩
      rw [hb'] at hsi; simp at hsi
    | true =>
      simp only [if_true]
      rw [periodic_exact coords cs b sel c h (wrapV b pi) thr hthr j]
      constructor
      · rintro ⟨pj, hpj, hsj, hd⟩
        exact ⟨pj, hpj, hb', hsj, (lattice_iff_minImage b hb pi pj _).mp ((exists_lattice_wrap b hb pi pj _).mp hd)⟩
      · rintro ⟨pj, hpj, -, hsj, hd⟩
        exact ⟨pj, hpj, hsj, (exists_lattice_wrap b hb pi pj _).mpr ((lattice_iff_minImage b hb pi pj _).mpr hd)⟩

/-- The minimum-image distance is symmetric, hence so is the periodic adjacency matrix. -/
theorem C14_periodic_adjacency_symm (coords : List V3) (cs : Rat) (b : V3) (sel : Option (List Bool)) (c : CL)
    (h : mk coords cs (some b) sel = some (.ok c)) (thr : Rat) (rows : List (List Nat))
    (ha : c.adjacency thr = some (.ok rows)) (i j : Nat) (ri rj : List Nat)
    (hi : rows[i]? = some ri) (hj : rows[j]? = some rj) : j ∈ ri ↔ i ∈ rj := by
  obtain ⟨hlen, hspec⟩ := C14_periodic_adjacency_eq coords cs b sel c h thr rows ha
  have hb := boxPos_of_mk coords cs b sel c h
  have hil : i < coords.length := by rw [← hlen]; exact (List.getElem?_eq_some_iff.mp hi).1
  have hjl : j < coords.length := by rw [← hlen]; exact (List.getElem?_eq_some_iff.mp hj).1
  have hpi : coords[i]? = some coords[i] := List.getElem?_eq_getElem hil
  have hpj : coords[j]? = some coords[j] := List.getElem?_eq_getElem hjl
  have hsym : ∀ (a d : V3) (r2 : Rat), minImageSq b a d ≤ r2 → minImageSq b d a ≤ r2 := by
    intro a d r2 hd
    obtain ⟨n, hn⟩ := (lattice_iff_minImage b hb a d r2).mpr hd
    exact (lattice_iff_minImage b hb d a r2).mp ⟨_, by rw [← sqDist_shift_symm]; exact hn⟩
  rw [hspec i ri _ hi hpi j, hspec j rj _ hj hpj i]
  constructor
  · rintro ⟨p, hp, hsi, hsj, hd⟩
    rw [hpj] at hp
    have e := Option.some.inj hp; subst e
    exact ⟨_, hpi, hsj, hsi, hsym _ _ _ hd⟩
  · rintro ⟨p, hp, hsj, hsi, hd⟩
    rw [hpi] at hp
    have e := Option.some.inj hp; subst e
    exact ⟨_, hpj, hsi, hsj, hsym _ _ _ hd⟩

example : wrap1 8 (-1) = 7 ∧ wrap1 8 16 = 0 := by decide +kernel

-- radius far beyond the box (r = 20 > L = 8): nothing is rejected and nothing is missed; the index
-- list repeats atoms (one entry per image within r), the set / mask is still exact
example : ∃ c, mk [⟨0,0,0⟩, ⟨7,0,0⟩, ⟨4,4,4⟩] 8 (some ⟨8,8,8⟩) none = some (.ok c) ∧
    (c.atomsOne ⟨3,0,0⟩ 20).length = 81 ∧ c.asMask (c.atomsOne ⟨3,0,0⟩ 20) = [true, true, true] ∧
    minImageSq ⟨8,8,8⟩ ⟨0,0,0⟩ ⟨7,0,0⟩ = 1 :=
  ⟨_, rfl, by decide +kernel, by decide +kernel, by decide +kernel⟩

/-! ## periodic, general box matrix (rows = box vectors; any invertible ℚ matrix)

`mkG` / `atomsOneG` model the code path for an arbitrary box: `move_inside_box` through fractional
coordinates (`coord·B⁻¹ mod 1 ·B`), replication by `i·B₀ + j·B₁ + k·B₂`, `i,j,k ∈ {-1,0,1}`, `% n`. -/

/-- **What the code computes for ANY invertible box**: `get_atoms(q, r)` = the selected atoms one of
whose 27 images (of the moved-inside atom) lies within `r` of the moved-inside query. -/
theorem C14_periodic_exact_lattice_general (coords : List V3) (cs : Rat) (B : M3) (sel : Option (List Bool))
    (c : CL) (h : mkG coords cs B sel = some (.ok c)) (q : V3) (r : Rat) (hr : 0 ≤ r) (t : Nat) :
    t ∈ c.atomsOneG B q r ↔
      ∃ p, coords[t]? = some p ∧ (selMask sel coords.length)[t]? = some true ∧
        ∃ s ∈ shifts, sqDist (wrapG B q) (shiftG B s (wrapG B p)) ≤ r * r :=
  periodicG_exact27 coords cs B sel c h q r hr t

/-- The 27-image set is always contained in the all-lattice set, and equals it whenever the 27 images
are `Sufficient` for the box's quadratic form at `r²`:
then `get_atoms(q,r) = {a | min over ALL lattice vectors n of |a + n·B − q|² ≤ r²}`. -/
theorem C14_periodic_general_min_image (coords : List V3) (cs : Rat) (B : M3) (sel : Option (List Bool))
    (c : CL) (h : mkG coords cs B sel = some (.ok c)) (q : V3) (r : Rat) (hr : 0 ≤ r)
    (hs : Sufficient B (r * r)) (t : Nat) :
    t ∈ c.atomsOneG B q r ↔
      ∃ p, coords[t]? = some p ∧ (selMask sel coords.length)[t]? = some true ∧
        ∃ n : I3, sqDist q (shiftG B n p) ≤ r * r := by
  have hdet := (mkG_ok coords cs B sel c h).2.2.2.2.2.2.1
  rw [periodicG_exact27 coords cs B sel c h q r hr t]
  constructor
  · rintro ⟨p, hp, hsel, h27⟩
    exact ⟨p, hp, hsel, (images27_iff_lattice B hdet p q _ hs).mp h27⟩
  · rintro ⟨p, hp, hsel, hl⟩
    exact ⟨p, hp, hsel, (images27_iff_lattice B hdet p q _ hs).mpr hl⟩

/-- **Orthogonal boxes in any orientation** (pairwise orthogonal box vectors: rotated, permuted, mirrored
orthorhombic cells): minimum-image exactness for every query point and every radius, unconditionally. -/
theorem C14_orthogonal_min_image (coords : List V3) (cs : Rat) (B : M3) (sel : Option (List Bool))
    (c : CL) (h : mkG coords cs B sel = some (.ok c)) (ho : OrthoRows B) (q : V3) (r : Rat) (hr : 0 ≤ r) (t : Nat) :
    t ∈ c.atomsOneG B q r ↔
      ∃ p, coords[t]? = some p ∧ (selMask sel coords.length)[t]? = some true ∧
        ∃ n : I3, sqDist q (shiftG B n p) ≤ r * r :=
  C14_periodic_general_min_image coords cs B sel c h q r hr (sufficient_of_ortho B ho _) t

/-- **General triclinic boxes**: minimum-image exactness for radii up to half the smallest box height
(`HalfHeight B r²`: `4 r² |colᵢ(B⁻¹)|² ≤ 1` for the three columns, i.e. `r ≤ hᵢ/2`). -/
theorem C14_triclinic_min_image (coords : List V3) (cs : Rat) (B : M3) (sel : Option (List Bool))
    (c : CL) (h : mkG coords cs B sel = some (.ok c)) (q : V3) (r : Rat) (hr : 0 ≤ r)
    (hh : HalfHeight B (r * r)) (t : Nat) :
    t ∈ c.atomsOneG B q r ↔
      ∃ p, coords[t]? = some p ∧ (selMask sel coords.length)[t]? = some true ∧
        ∃ n : I3, sqDist q (shiftG B n p) ≤ r * r :=
  C14_periodic_general_min_image coords cs B sel c h q r hr
    (sufficient_of_halfHeight B (mkG_ok coords cs B sel c h).2.2.2.2.2.2.1 _ hh) t

/-- construct + one periodic query (for closed `decide` statements) -/
def queryG (coords : List V3) (cs : Rat) (B : M3) (q : V3) (r : Rat) : Option (List Nat) :=
  match mkG coords cs B none with
  | some (.ok c) => some (c.atomsOneG B q r)
  | _ => none

theorem queryG_spec (coords : List V3) (cs : Rat) (B : M3) (q : V3) (r : Rat) (l : List Nat)
    (h : queryG coords cs B q r = some l) :
    ∃ c, mkG coords cs B none = some (.ok c) ∧ c.atomsOneG B q r = l := by
  unfold queryG at h
  split at h
  · rename_i c hc
    exact ⟨c, hc, Option.some.inj h⟩
  · simp at h

/-- Known defect beyond the hypothesis (kept visible; replayed on the real code, known finding
`C14/periodic/skewed-triclinic-box/minimum-image-outside-27-replicas`): in the strongly skewed box
`(2,0,0),(0,2,0),(5,0,2)` the atom `(0,0,1)` is at distance exactly 1 from the query `(0,0,0)` — no lattice
shift needed — but `get_atoms((0,0,0), 1)` returns nothing: after `move_inside_box` the minimum image is not
among the 27 replicas.  (`r = 1` exceeds half the smallest box height: `4·r²·|col_x(B⁻¹)|² = 29/4 > 1`.) -/
theorem C14_triclinic_27_images_defect :
    (∃ c, mkG [⟨0,0,1⟩] 1 ⟨⟨2,0,0⟩, ⟨0,2,0⟩, ⟨5,0,2⟩⟩ none = some (.ok c) ∧
      c.atomsOneG ⟨⟨2,0,0⟩, ⟨0,2,0⟩, ⟨5,0,2⟩⟩ ⟨0,0,0⟩ 1 = []) ∧
    sqDist ⟨0,0,0⟩ (shiftG ⟨⟨2,0,0⟩, ⟨0,2,0⟩, ⟨5,0,2⟩⟩ ⟨0,0,0⟩ ⟨0,0,1⟩) ≤ 1 * 1 ∧
    4 * (1 * 1) * (colSq ⟨⟨2,0,0⟩, ⟨0,2,0⟩, ⟨5,0,2⟩⟩).x = 29 / 4 :=
  ⟨queryG_spec _ _ _ _ _ _ (by decide +kernel), by decide +kernel, by decide +kernel⟩

-- non-vacuity: a mirrored + permuted orthorhombic box (rows along y, -x, z) is `OrthoRows`, the model wraps through
-- fractional coordinates and finds the neighbour through the box face
example : OrthoRows ⟨⟨0,8,0⟩, ⟨-4,0,0⟩, ⟨0,0,16⟩⟩ ∧
    queryG [⟨0,0,0⟩, ⟨3,7,0⟩] 2 ⟨⟨0,8,0⟩, ⟨-4,0,0⟩, ⟨0,0,16⟩⟩ ⟨0,0,0⟩ 2 = some [1, 0] := by
  refine ⟨by simp only [OrthoRows, dot]; norm_num, by decide +kernel⟩

-- non-vacuity: a triclinic box that satisfies the half-height hypothesis for r = 1
example : HalfHeight ⟨⟨4,0,0⟩, ⟨2,4,0⟩, ⟨1,-2,4⟩⟩ (1 * 1) := by
  simp only [HalfHeight, colSq, M3.inv, M3.det]; norm_num

/-! ## which box is in effect -/

/-- Documented precedence of the two box sources of a periodic cell list: the explicit `box` argument
overrides the AtomArray's own box; without the argument the AtomArray's box is used; with neither the
constructor raises; with `periodic=False` no box is used at all.  (`chooseBox` is what the driver runs
for `new … E/O/p`; the correspondence stream builds AtomArrays that carry a different box of their own.) -/
theorem C14_box_precedence {β : Type} (e o : β) (oe oo : Option β) :
    chooseBox true (some e) oo = some (.ok e) ∧
    chooseBox true none (some o) = some (.ok o) ∧
    chooseBox true (none : Option β) none = some (.error .valueError) ∧
    chooseBox false oe oo = none :=
  ⟨rfl, rfl, rfl, rfl⟩

/-! ## non-vacuity: the hypotheses are satisfiable and the model computes the expected sets -/

-- query left of the grid (cell index truncates to 0), radius = cell size: atom 0 at distance 3 is found
example : ∃ c, mk [⟨0,0,0⟩, ⟨7,0,0⟩] 4 none none = some (.ok c) ∧
    c.atomsOne ⟨-3,0,0⟩ 4 = [0] ∧ c.atomsOne ⟨-5,0,0⟩ 4 = [] ∧ c.cellsOne ⟨-5,0,0⟩ 1 = [0] ∧ c.cellsOne ⟨-5,0,0⟩ 2 = [0, 1] ∧
    c.atomsBatch [⟨-3,0,0⟩, ⟨7,0,0⟩] (.multi [4, 0]) = some (.ok [[0], [1]]) :=
  ⟨_, rfl, by decide +kernel, by decide +kernel, by decide +kernel, by decide +kernel, by decide +kernel⟩

-- selection: unselected atoms are never returned; adjacency rows of unselected atoms are empty
example : ∃ c, mk [⟨0,0,0⟩, ⟨1,0,0⟩, ⟨2,0,0⟩, ⟨3,0,0⟩] 2 none (some [true, false, true, false]) = some (.ok c) ∧
    c.atomsOne ⟨1,0,0⟩ 5 = [0, 2] ∧ c.adjacency 2 = some (.ok [[0, 2], [], [0, 2], []]) :=
  ⟨_, rfl, by decide +kernel, by decide +kernel⟩

-- periodic: the neighbour through the box face is found, and reported under its original index
example : ∃ c, mk [⟨0,0,0⟩, ⟨7,0,0⟩, ⟨4,4,4⟩] 2 (some ⟨8,8,8⟩) none = some (.ok c) ∧
    c.atomsOne ⟨0,0,0⟩ 1 = [1, 0] ∧ c.atomsOne ⟨16,8,-8⟩ 1 = [1, 0] ∧ c.coord.length = 81 :=
  ⟨_, rfl, by decide +kernel, by decide +kernel, by decide +kernel⟩

/-! ## obligations on the tables regenerated from `celllist.pyx` / `box.py` (`Gen/C14.lean`) -/

/-- The window loops are `range(i - cell_r, i + cell_r + 1)` clipped by `adj >= 0 and adj < shape[axis]`
on the matching axis — the bounds `CL.scan` uses. -/
theorem C14_gen_window : Gen.C14.window =
    [⟨-1, 0, 1, 1, true, 0, true, 0⟩, ⟨-1, 0, 1, 1, true, 0, true, 1⟩, ⟨-1, 0, 1, 1, true, 0, true, 2⟩] := by
  decide

/-- `_get_cell_index` pairs x/y/z with `_min_coord[0/1/2]`; the filter is `sq_dist <= sq_radius`;
`cell_count` adds 1; the buffer length is `(2r+1)**3 * max_cell_length`; 3 images per axis. -/
theorem C14_gen_constants :
    Gen.C14.cellIndex = [(3, 0, 0), (4, 1, 1), (5, 2, 2)] ∧ Gen.C14.distCmp = "<=" ∧
    Gen.C14.cellCountPlus = 1 ∧ Gen.C14.bufLen = (2, 1, 3) ∧ Gen.C14.repeatAmount = 1 ∧
    shifts.length = (2 * Gen.C14.repeatAmount + 1) ^ 3 := by
  decide

/-! ## the modelled functions as they are in /repo now = the snapshot `Proofs/C14Expected.lean` (alpha-normalised)

A changed guard, operator, constant, default, exception class, dtype, loop domain, order of checks or an added early exit
breaks the obligation for all inputs at once; renaming locals / private helpers / private attributes, comments, docstrings,
message texts, annotations do not. -/

/-- `__cinit__` (+ the coordinate validator and the initialised-cells test it calls): default arguments `periodic=False, box=None, selection=None`; order of the steps the model `mk`/`mkG`/`chooseBox` follows — AtomArrayStack `TypeError`, validator on `coord` / `coord[selection]`, then the periodic block (explicit `box` first, then `atom_array.box`, `(3,3)` shape check, neither -> `ValueError`, NaN box `ValueError`, `move_inside_box`, `repeat_box_coord`), then `cell_size <= 0` -> `ValueError`, `nanmin`/`nanmax` over all coordinates, `cell_count = ((max-min)/cell_size + 1).astype(int)`, selection length `IndexError`, binning of `selection[i % orig_length]` atoms with the cell-index helper, maximum cell length; validator: ndim, empty, 3 columns, finite (all `ValueError`). -/
theorem C14_gen_src_constructor :
    Gen.C14.pyx_cinit = Expected.pyx_cinit ∧
    Gen.C14.pyx_H0 = Expected.pyx_H0 ∧
    Gen.C14.pyx_H1 = Expected.pyx_H1 := by
  refine ⟨rfl, rfl, rfl⟩

/-- `get_atoms` (`as_mask=False`; empty batch -> empty result; periodic -> `move_inside_box`; radii as `np.float32`; squared radii = `radius * radius` (a new array); `np.ceil(radius / cellsize).astype(np.int32)` resp. `int(np.ceil(radius[0] / …))` into `np.full(…, dtype=np.int32)`; filter `!= -1`, `sq_dist <= sq_radius`), `get_atoms_in_cells` (`cell_radius=1, as_mask=False`, `np.int32`), the buffer allocation (`np.max(cell_radii)` vs `cell_radii[0]`; `cdef int length = (2*r + 1)**3 * max_cell_length`; `np.full(…, -1, dtype=np.int32)`), the window scan (non-finite query -> `continue`; the three clipped window loops). -/
theorem C14_gen_src_queries :
    Gen.C14.pyx_get_atoms = Expected.pyx_get_atoms ∧
    Gen.C14.pyx_get_atoms_in_cells = Expected.pyx_get_atoms_in_cells ∧
    Gen.C14.pyx_H5 = Expected.pyx_H5 ∧
    Gen.C14.pyx_H8 = Expected.pyx_H8 := by
  refine ⟨rfl, rfl, rfl, rfl⟩

/-- post-processing (`indices[indices != -1] %= orig_length` iff periodic; mask / index and single / multi branches), the mask builder (stop at the first `-1`), the empty result, `create_adjacency_matrix` (`threshold_distance < 0` -> `ValueError`; queries are `coord[:orig_length]`; with a selection only the selected rows are filled from `get_atoms(coord[selection], …, as_mask=True)`). -/
theorem C14_gen_src_post :
    Gen.C14.pyx_H7 = Expected.pyx_H7 ∧
    Gen.C14.pyx_H9 = Expected.pyx_H9 ∧
    Gen.C14.pyx_H3 = Expected.pyx_H3 ∧
    Gen.C14.pyx_create_adjacency_matrix = Expected.pyx_create_adjacency_matrix := by
  refine ⟨rfl, rfl, rfl, rfl⟩

/-- argument preparation: `(3,)` -> single, `(n,3)` -> multi, else `ValueError`; array radii: single position, `ndim != 1`, length mismatch, `(radius < 0).any()` -> `ValueError`; scalar `radius < 0` -> `ValueError`; `np.full(n, radius, dtype=…)`. -/
theorem C14_gen_src_prepare :
    Gen.C14.pyx_H4 = Expected.pyx_H4 := by
  rfl

/-- cell index (`<int>` truncation of `(x - min[axis]) / cellsize`, x/y/z with axes 0/1/2) and squared distance (`x2 - x1`, sum of the three squares). -/
theorem C14_gen_src_arith :
    Gen.C14.pyx_H2 = Expected.pyx_H2 ∧
    Gen.C14.pyx_H6 = Expected.pyx_H6 := by
  refine ⟨rfl, rfl⟩

/-- box.py (read with `ast`): `repeat_box_coord(coord, box, amount=1)` — original coordinates first, three nested loops over `range(-amount, amount + 1)`, skip `(0,0,0)`, translation `sum(box * [i,j,k][:, newaxis], axis=-2)`, indices `tile(arange(n), (1 + 2*amount)**3)`; `move_inside_box` = `fraction_to_coord(coord_to_fraction(coord, box) % 1, box)` and nothing else; `coord_to_fraction = matmul(coord, inv(box))`, `fraction_to_coord = matmul(fraction, box)`; `is_orthogonal`: tolerance `1e-06`, the three pairs (0,1), (0,2), (1,2). -/
theorem C14_gen_src_box :
    Gen.C14.box_repeat_box_coord = Expected.box_repeat_box_coord ∧
    Gen.C14.box_move_inside_box = Expected.box_move_inside_box ∧
    Gen.C14.box_coord_to_fraction = Expected.box_coord_to_fraction ∧
    Gen.C14.box_fraction_to_coord = Expected.box_fraction_to_coord ∧
    Gen.C14.box_is_orthogonal = Expected.box_is_orthogonal := by
  refine ⟨rfl, rfl, rfl, rfl, rfl⟩

end BiotiteModel.C14

import BiotiteModel.Proofs.C14
import BiotiteModel.Gen.C14
namespace BiotiteModel.C14
theorem C14_stub : True := trivial
end BiotiteModel.C14

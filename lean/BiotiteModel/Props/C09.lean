import BiotiteModel.Model.C09
import BiotiteModel.Proofs.C09
import BiotiteModel.Proofs.C09Band
import BiotiteModel.Props.C08
import BiotiteModel.Gen.C09
/-!
# C09 — property theorems (heuristic alignments are valid, honestly scored, never above the optimum)

`checkResult` is run on EVERY actual output of `align_banded`, `align_local_gapped`, `align_local_ungapped` by the
driver; `C09_checker_sound` says what an accepted output is.  The optimum is the C08 one (`opt mode M g a b`,
`C08_upper_*`); all theorems hold for every matrix and every sequence pair, no length bound.

Partial (notes/C09.md): affine penalties (no optimality theorem, as in C08), "reaches the optimum" for the gapped
X-drop and the table growth — correspondence + oracle only.
-/
namespace BiotiteModel.C09
open BiotiteModel BiotiteModel.C08

/-! ## The checker -/

/-- An accepted output is a valid (contiguous, order preserving, in range) alignment of the two inputs, its score
recomputed from the trace — for semi-global results after completing it by the unaligned ends, which gives an
end-to-end alignment — is the reported score, every paired position lies inside the band, the seed is contained
and the alignment extends only in the requested direction, and for linear penalties the reported score is at most
the true optimum of the unrestricted problem (semi-global resp. local). -/
theorem C09_checker_sound (a b : Seq) (M : Mat) (gap : Gap) (mode : Mode) (band : Option (Int × Int))
    (seed : Option (Nat × Nat)) (dir : XDir) (trace : List (Int × Int)) (sc : Int)
    (h : checkResult a b M gap mode band seed dir trace sc = true) :
    ∃ aln, traceToAln trace = some aln ∧ ValidLocal a b aln ∧ ValidGlobal a b (complete a b aln) ∧
      rescored mode gap M a b aln = sc ∧
      (∀ d1 d2, band = some (d1, d2) → ∀ i j, Col.both i j ∈ aln →
        min d1 d2 ≤ (j : Int) - (i : Int) ∧ (j : Int) - (i : Int) ≤ max d1 d2) ∧
      (∀ si sj, seed = some (si, sj) → Col.both si sj ∈ aln ∧
        (dir = .upstream → aln.getLast? = some (.both si sj)) ∧
        (dir = .downstream → aln.head? = some (.both si sj))) ∧
      (∀ g, gap = .lin g → sc ≤ opt mode M g a b) ∧
      (∀ g, gap = .lin g → mode = .semi → scoreSemiPos M g a b (0, 0) (complete a b aln) = sc) := by
  unfold checkResult at h
  split at h
  · rename_i aln ht
    refine ⟨aln, ht, ?_⟩
    simp only [checkAln, Bool.and_eq_true, decide_eq_true_eq] at h
    obtain ⟨⟨⟨⟨⟨hv, hs⟩, hp⟩, hb⟩, hseed⟩, hu⟩ := h
    obtain ⟨i1, j1, hw, hi, hj⟩ := validB_local_walk a b aln hv
    refine ⟨validB_sound .local a b aln hv, complete_valid a b aln i1 j1 hw hi hj, hs, ?_, ?_, ?_, ?_⟩
    · intro d1 d2 hband i j hm
      subst hband
      exact bandOk_sound d1 d2 aln hb i j hm
    · intro si sj hs'
      subst hs'
      exact seedOk_sound si sj dir aln hseed
    · intro g hg
      subst hg
      rw [← C08_reported_lin]
      cases mode <;> exact of_decide_eq_true hu
    · intro g hg hm
      subst hg; subst hm
      simpa using hp
  · simp at h

/-! ## Never above the optimum of the unrestricted problem (linear penalties; corollaries of `C08_upper_*`) -/

/-- local / seeded results: the score recomputed from ANY valid trace is at most the local optimum. -/
theorem C09_never_above_local (M : Mat) (g : Int) (hg : g ≤ 0) (a b : Seq) (aln : Aln) (h : ValidLocal a b aln) :
    rescored .local (.lin g) M a b aln ≤ optLocal M g a b := by
  have := C08_upper_local M g hg a b aln h
  have e : (Mode.local != Mode.semi) = true := by decide
  simp only [rescored, score, Gap.go, Gap.ge, e, scorePub_lin]
  exact this

/-- semi-global (banded) results: any valid trace, completed by the unaligned ends, scores at most the
semi-global optimum (`terminal_penalty=False`). -/
theorem C09_never_above_semi (M : Mat) (g : Int) (a b : Seq) (aln : Aln) (i1 j1 : Nat)
    (hw : walk (firstA aln, firstB aln) aln = some (i1, j1)) (hi : i1 ≤ a.length) (hj : j1 ≤ b.length) :
    scoreSemiPos M g a b (0, 0) (complete a b aln) ≤ optSemi M g a b :=
  C08_upper_semi M g a b _ (complete_valid a b aln i1 j1 hw hi hj)

/-- the ungapped extension under EVERY gap penalty `g ≤ 0`: a gap-free valid trace never scores above the local
optimum (the result of `align_local_ungapped` has no gap columns, so `g` does not enter its score). -/
theorem C09_never_above_ungapped (M : Mat) (g : Int) (hg : g ≤ 0) (a b : Seq) (aln : Aln) (h : ValidLocal a b aln) :
    scoreLin M g a b aln ≤ optLocal M g a b :=
  C08_upper_local M g hg a b aln h

/-! ## The band: never above the semi-global optimum for ANY band, equal to it for a band covering all diagonals -/

/-- On the model of `align_banded(local=False)` with a linear penalty `g ≤ 0`: whatever the band, the reported
score (maximum over the trace start cells of `get_global_trace_starts`) is at most the semi-global optimum
(`s` is the swapped / cropped setup `bandSetup` produces). -/
theorem C09_banded_le_opt (s : BandSetup) (g : Int) (hg : g ≤ 0) :
    bandedScoreSetup false g s ≤ optSemi s.M g s.a s.b :=
  banded_score_le s.M g s.a s.b s.lower s.upper hg

/-- A band covering all diagonals (after cropping: `lower = 1 - n`, `upper = m - 1`) reaches the semi-global
optimum, up to the alignment that pairs no position at all (score 0, all gaps terminal), which a band cannot
express: `max 0 bandedScore = optSemi`.  In particular the two agree whenever some optimal alignment pairs at
least one position with a non-negative total. -/
theorem C09_band_full (s : BandSetup) (g : Int) (hg : g ≤ 0) (hn : 0 < s.a.length) (hm : 0 < s.b.length)
    (hlo : s.lower = 1 - (s.a.length : Int)) (hhi : s.upper = (s.b.length : Int) - 1) :
    max 0 (bandedScoreSetup false g s) = optSemi s.M g s.a s.b := by
  have h1 := banded_score_le s.M g s.a s.b s.lower s.upper hg
  have h2 := banded_full_ge s.M g s.a s.b s.lower s.upper hn hm hlo hhi
  have h3 := semi_nonneg s.M g s.a s.b
  have e : bandedScoreSetup false g s = (omaxList (startVals s.M g s.a s.b s.lower s.upper)).getD 0 := rfl
  rw [e]; omega

/-- inside the table the full-band table coincides cell by cell with `align_optimal`'s semi-global table -/
theorem C09_band_full_cells (s : BandSetup) (g : Int)
    (hlo : s.lower = 1 - (s.a.length : Int)) (hhi : s.upper = (s.b.length : Int) - 1) (i j : Nat)
    (hi : i < s.a.length) (hj : j < s.b.length) :
    tableGet (bandedFill false s.M g s.a s.b s.lower s.upper) i j = some (some ((linRec .semi s.M g s.a s.b).val i j)) := by
  unfold tableGet bandedFill
  rw [Rec.table_get _ _ _ i j (by omega) (by omega), banded_full_inner s.M g s.a s.b s.lower s.upper hlo hhi i j hi hj]

/-- the setup `align_banded` computes from a user band that covers every diagonal of the (unswapped) table -/
theorem C09_bandSetup_full (a b : Seq) (M : Mat) (band : Int × Int) (hn : 0 < a.length) (hm : 0 < b.length)
    (hab : a.length ≤ b.length)
    (h1 : min band.1 band.2 ≤ 1 - (a.length : Int)) (h2 : (b.length : Int) - 1 ≤ max band.1 band.2) :
    bandSetup a b M band = .ok ⟨a, b, M, 1 - (a.length : Int), (b.length : Int) - 1, false⟩ := by
  have hsw : ¬ (b.length < a.length) := by omega
  simp only [bandSetup, hsw, decide_false, Bool.false_eq_true, if_false]
  have c1 : ¬ ((a.length : Int) + max band.1 band.2 ≤ 0 ∨ min band.1 band.2 ≥ (b.length : Int)) := by omega
  have c2 : ¬ (min (max band.1 band.2) ((b.length : Int) - 1) - max (min band.1 band.2) (-(a.length : Int) + 1) + 1 < 1) := by
    omega
  simp only [c1, c2, if_false]
  congr 2 <;> omega

/-! ## Ungapped X-drop extension -/

/-- A threshold that cannot bind (at least the sum of the magnitudes of all negative steps) ⇒ the extension
returns the best prefix score, i.e. the maximum over all prefixes (`bestPrefix_ge_take`, `bestPrefix_attained`). -/
theorem C09_xdrop_ungapped (thr : Int) (scores : List Int) (h : negSum scores ≤ thr) :
    (xdropExtend thr scores).1 = bestPrefix scores := by
  unfold xdropExtend
  have := xdrop_fold thr scores ⟨0, 0, 0, 0, false⟩ rfl (by simp) (by simpa using h)
  have hb := bestPrefix_nonneg scores
  simp only at this ⊢
  rw [this]; simp; omega

/-- `bestPrefix` is the maximum of the prefix sums. -/
theorem C09_bestPrefix_is_max (scores : List Int) :
    (∀ k, (scores.take k).sum ≤ bestPrefix scores) ∧ ∃ k, k ≤ scores.length ∧ (scores.take k).sum = bestPrefix scores :=
  ⟨bestPrefix_ge_take scores, bestPrefix_attained scores⟩

/-! ## `score_only=True` returns the score of the full call (on the model: `_max` path = `get_trace_*` path) -/

theorem C09_score_only_eq (a b : Seq) (M : Mat) (gap : Gap) (seed : Int × Int) (thr : Int) (dir : XDir)
    (maxNumber : Int) (mts : Option Int) (initSize initOff growF : Nat) :
    gappedScore true a b M gap seed thr dir maxNumber mts initSize initOff growF
      = gappedScore false a b M gap seed thr dir maxNumber mts initSize initOff growF := by
  simp only [gappedScore, regionAlign_so]

/-- `get_trace_linear` writes the maximum of its three candidates -/
theorem C09_trace_linear_max (d l t : Int) : (traceLin d l t).2 = max d (max l t) := traceLin_snd d l t

/-! ## Defects of the pinned code, as modelled (known findings; `.pyx`, cannot be rebuilt) -/

/-- `align_banded(local=False)`: the DP leaves the free border with a gap (−1 beats the substitution score −5) and
reports −2, but the trace it returns, `[(0,0),(1,-1)]`, scores −6: the checker rejects the actual output. -/
theorem C09_banded_leading_gap_defect :
    bandedScore [0, 0] [1, 1] (Mat.ofRows [[1, -5], [-5, 1]]) (-5) (.lin (-1)) false (-1, 1) 10 = .ok (-2) ∧
    rescored .semi (.lin (-1)) (Mat.ofRows [[1, -5], [-5, 1]]) [0, 0] [1, 1] [.both 0 0, .gapB 1] = -6 ∧
    checkResult [0, 0] [1, 1] (Mat.ofRows [[1, -5], [-5, 1]]) (.lin (-1)) .semi (some (-1, 1)) none .both
      [(0, 0), (1, -1)] (-2) = false := by
  decide

/-- `align_banded(local=False)`, affine `(-1, -3)`, non-negative matrix: the `neg_inf` sentinel wraps around and
the reported score is `INT32_MAX`. -/
theorem C09_banded_neginf_defect :
    bandedScore [0, 1] [0, 1, 1] (Mat.ofRows [[1, 0], [0, 1]]) 0 (.aff (-1) (-3)) false (-1, 1) 10
      = .ok 2147483647 := by
  decide

/-! ## Regenerated constants and guards (Gen/C09.lean) -/

/-- `init_score = threshold + 1 ≥ 1` keeps `0` free as the "invalid cell" marker; the table grows by doubling;
the guards reject exactly what the model rejects (`gap ≥ 0` for the X-drop, `gap > 0` for the band, negative
thresholds) and the X-drop tests are the non-strict / strict comparisons the model uses. -/
theorem C09_gen_constants :
    Gen.C09.initOffset = 1 ∧ Gen.C09.growFactor = 2 ∧ 1 ≤ Gen.C09.initSize ∧
    Gen.C09.bandedGapGuard = ">" ∧ Gen.C09.gappedGapGuard = ">=" ∧
    Gen.C09.gappedThresholdGuard = "<" ∧ Gen.C09.ungappedThresholdGuard = "<" ∧
    Gen.C09.gappedAccept = ">=" ∧ Gen.C09.ungappedDrop = ">" ∧ Gen.C09.ungappedKeep = ">=" := by
  decide

/-! ## Non-vacuity -/

set_option maxRecDepth 20000

example : checkResult [0, 1, 0] [1, 1] (Mat.ofRows [[1, -1], [-1, 1]]) (.lin (-1)) .semi (some (5, -5)) none .both
    [(1, 0), (-1, 1)] 0 = true := by decide
example : checkResult [0, 1, 1, 0] [0, 1, 0, 0] (Mat.ofRows [[1, -1], [-1, 1]]) (.lin (-2)) .local none (some (1, 1)) .upstream
    [(0, 0), (1, 1)] 2 = true := by decide
-- wrong direction, seed missing, outside the band, dishonest score: rejected
example : checkResult [0, 1, 1, 0] [0, 1, 0, 0] (Mat.ofRows [[1, -1], [-1, 1]]) (.lin (-2)) .local none (some (0, 0)) .upstream
    [(0, 0), (1, 1)] 2 = false := by decide
example : checkResult [0, 1, 1, 0] [0, 1, 0, 0] (Mat.ofRows [[1, -1], [-1, 1]]) (.lin (-2)) .local none (some (2, 2)) .both
    [(0, 0), (1, 1)] 2 = false := by decide
example : checkResult [0, 1, 0] [1, 1] (Mat.ofRows [[1, -1], [-1, 1]]) (.lin (-1)) .semi (some (0, 5)) none .both
    [(1, 0), (-1, 1)] 0 = false := by decide
example : checkResult [0, 1, 0] [1, 1] (Mat.ofRows [[1, -1], [-1, 1]]) (.lin (-1)) .semi (some (5, -5)) none .both
    [(1, 0), (-1, 1)] 1 = false := by decide
example : bandedScoreSetup false (-1) ⟨[0, 1], [1, 1, 0], Mat.ofRows [[1, -1], [-1, 1]], -1, 2, false⟩ = 1 ∧
    optSemi (Mat.ofRows [[1, -1], [-1, 1]]) (-1) [0, 1] [1, 1, 0] = 1 := by decide
example : complete [0, 1, 0] [1, 1] [.both 1 0, .gapA 1] = [.gapB 0, .both 1 0, .gapA 1, .gapB 2] := by decide
example : xdropExtend 2 [1, -1, -1, 5] = (5 - 1 - 1 + 1, 4) := by decide
example : xdropExtend 1 [1, -1, -1, 5] = (1, 1) := by decide
example : negSum [1, -1, -1, 5] = 2 ∧ bestPrefix [1, -1, -1, 5] = 4 := by decide
example : regionLin false (Mat.ofRows [[1, -1], [-1, 1]]) (-2) 3 [0] [0] none 100 1 2 = .ok 1 := by decide
example : traceLin 3 3 1 = (3, 3) ∧ traceLin 0 2 2 = (6, 2) := by decide

end BiotiteModel.C09

import BiotiteModel.Model.C09
import BiotiteModel.Proofs.C09
import BiotiteModel.Proofs.C09Band
import BiotiteModel.Proofs.C09Aff
import BiotiteModel.Proofs.C09Slack
import BiotiteModel.Proofs.C09Grow
import BiotiteModel.Proofs.C09Abut
import BiotiteModel.Proofs.C09RegionAff
import BiotiteModel.Proofs.C09SlackAff
import BiotiteModel.Proofs.C09Rejects
import BiotiteModel.Proofs.C08Prefix
import BiotiteModel.Props.C08
import BiotiteModel.Gen.C09
/-!
# C09 — property theorems (heuristic alignments are valid, honestly scored, never above the optimum)

`checkResult` is run on EVERY actual output of `align_banded`, `align_local_gapped`, `align_local_ungapped` by the
driver; `C09_checker_sound` says what an accepted output is.  The optimum is the C08 one (`opt mode M g a b`,
`C08_upper_*`); all theorems hold for every matrix and every sequence pair, no length bound.

Partial (notes/C09.md): affine penalties (no optimality theorem, as in C08), "reaches the optimum" for the gapped
X-drop and the table growth — correspondence + oracle only.
-/
namespace BiotiteModel.C09
open BiotiteModel BiotiteModel.C08

/-! ## The checker -/

/-- An accepted output is a valid (contiguous, order preserving, in range) alignment of the two inputs, its score
recomputed from the trace — for semi-global results after completing it by the unaligned ends, which gives an
end-to-end alignment — is the reported score, every paired position lies inside the band, the seed is contained
and the alignment extends only in the requested direction, and for linear penalties the reported score is at most
the true optimum of the unrestricted problem (semi-global resp. local). -/
theorem C09_checker_sound (a b : Seq) (M : Mat) (gap : Gap) (mode : Mode) (band : Option (Int × Int))
    (seed : Option (Nat × Nat)) (dir : XDir) (trace : List (Int × Int)) (sc : Int)
    (h : checkResult a b M gap mode band seed dir trace sc = true) :
    ∃ aln, traceToAln trace = some aln ∧ ValidLocal a b aln ∧ ValidGlobal a b (complete a b aln) ∧
      rescored mode gap M a b aln = sc ∧
      (∀ d1 d2, band = some (d1, d2) → ∀ i j, Col.both i j ∈ aln →
        min d1 d2 ≤ (j : Int) - (i : Int) ∧ (j : Int) - (i : Int) ≤ max d1 d2) ∧
      (∀ si sj, seed = some (si, sj) → Col.both si sj ∈ aln ∧
        (dir = .upstream → aln.getLast? = some (.both si sj)) ∧
        (dir = .downstream → aln.head? = some (.both si sj))) ∧
      (∀ g, gap = .lin g → sc ≤ opt mode M g a b) ∧
      (∀ g, gap = .lin g → mode = .semi → scoreSemiPos M g a b (0, 0) (complete a b aln) = sc) ∧
      (∀ go ge, gap = .aff go ge → NoAbut aln ∧
        (mode = .local → sc ≤ optAff .local M go ge a b) ∧
        (mode = .semi → NoAbut (complete a b aln) → sc ≤ optAff .semi M go ge a b) ∧
        (mode = .semi → ¬ NoAbut (complete a b aln) →
          sc ≤ optAffAbutFree M go ge a b ∧ optAffAbutFree M go ge a b ≤ optSemi M (max go ge) a b)) := by
  unfold checkResult at h
  split at h
  · rename_i aln ht
    refine ⟨aln, ht, ?_⟩
    simp only [checkAln, Bool.and_eq_true, decide_eq_true_eq] at h
    obtain ⟨⟨⟨⟨⟨hv, hs⟩, hp⟩, hb⟩, hseed⟩, hu⟩ := h
    obtain ⟨i1, j1, hw, hi, hj⟩ := validB_local_walk a b aln hv
    refine ⟨validB_sound .local a b aln hv, complete_valid a b aln i1 j1 hw hi hj, hs, ?_, ?_, ?_, ?_, ?_⟩
    · intro d1 d2 hband i j hm
      subst hband
      exact bandOk_sound d1 d2 aln hb i j hm
    · intro si sj hs'
      subst hs'
      exact seedOk_sound si sj dir aln hseed
    · intro g hg
      subst hg
      rw [← C08_reported_lin]
      have hu' : sc ≤ optTFast mode (.lin g) M a b := by cases mode <;> exact of_decide_eq_true hu
      rw [optTFast_eq] at hu'
      exact hu'
    · intro g hg hm
      subst hg; subst hm
      simpa [formOk] using hp
    · intro go ge hg
      subst hg
      refine ⟨by cases mode <;> simpa [NoAbut, formOk] using hp, ?_, ?_, ?_⟩
      · intro hm; subst hm
        rw [← C08_reported_aff]
        have hu' : sc ≤ optTFast .local (.aff go ge) M a b := of_decide_eq_true hu
        rw [optTFast_eq] at hu'
        exact hu'
      · intro hm hn; subst hm
        unfold NoAbut at hn
        simp only [optOk, hn, if_true] at hu
        rw [← C08_reported_aff]
        exact of_decide_eq_true hu
      · intro hm hn; subst hm
        unfold NoAbut at hn
        simp only [optOk, hn, if_false] at hu
        have := of_decide_eq_true hu
        rw [optAffAbutFreeT_eq] at this
        exact ⟨this, optAffAbutFree_le_lin M go ge a b⟩
  · simp at h

/-- the bound the checker evaluates (`optTFast`: the local tables are built once, row by row) is C08's `optT`,
i.e. the true optimum by `C08_reported_lin/aff` -/
theorem C09_checker_bound_is_optT (mode : Mode) (gap : Gap) (M : Mat) (a b : Seq) :
    optTFast mode gap M a b = optT mode gap M a b :=
  optTFast_eq mode gap M a b

/-! ## Never above the optimum of the unrestricted problem (linear penalties; corollaries of `C08_upper_*`) -/

/-- local / seeded results: the score recomputed from ANY valid trace is at most the local optimum. -/
theorem C09_never_above_local (M : Mat) (g : Int) (hg : g ≤ 0) (a b : Seq) (aln : Aln) (h : ValidLocal a b aln) :
    rescored .local (.lin g) M a b aln ≤ optLocal M g a b := by
  have := C08_upper_local M g hg a b aln h
  have e : (Mode.local != Mode.semi) = true := by decide
  simp only [rescored, score, Gap.go, Gap.ge, e, scorePub_lin]
  exact this

/-- semi-global (banded) results: any valid trace, completed by the unaligned ends, scores at most the
semi-global optimum (`terminal_penalty=False`). -/
theorem C09_never_above_semi (M : Mat) (g : Int) (a b : Seq) (aln : Aln) (i1 j1 : Nat)
    (hw : walk (firstA aln, firstB aln) aln = some (i1, j1)) (hi : i1 ≤ a.length) (hj : j1 ≤ b.length) :
    scoreSemiPos M g a b (0, 0) (complete a b aln) ≤ optSemi M g a b :=
  C08_upper_semi M g a b _ (complete_valid a b aln i1 j1 hw hi hj)

/-- the ungapped extension under EVERY gap penalty `g ≤ 0`: a gap-free valid trace never scores above the local
optimum (the result of `align_local_ungapped` has no gap columns, so `g` does not enter its score). -/
theorem C09_never_above_ungapped (M : Mat) (g : Int) (hg : g ≤ 0) (a b : Seq) (aln : Aln) (h : ValidLocal a b aln) :
    scoreLin M g a b aln ≤ optLocal M g a b :=
  C08_upper_local M g hg a b aln h

/-! ## Affine penalties (C08_upper_aff*: `optAff` is the optimum over alignments in which no gap abuts a gap of the
other sequence — for semi-global alignments a FREE terminal gap counts, `C08_noabut_covers_free_terminal_gaps`) -/

/-- local / seeded results with an affine penalty: any valid non-abutting trace scores at most `optAff .local`. -/
theorem C09_never_above_aff_local (M : Mat) (go ge : Int) (hgo : go ≤ 0) (hge : ge ≤ 0) (a b : Seq) (aln : Aln)
    (h : ValidLocal a b aln) (hn : NoAbut aln) :
    rescored .local (.aff go ge) M a b aln ≤ optAff .local M go ge a b :=
  C08_upper_aff_local M go ge hgo hge a b aln h hn

/-- banded semi-global results with an affine penalty, case `affNoAbut`: when the trace completed by the unaligned
ends has no abutting gaps (free terminal gaps included) its public score is at most `optAff .semi`, which is what
`align_optimal` reports. -/
theorem C09_never_above_aff_semi (M : Mat) (go ge : Int) (hgo : go ≤ 0) (hge : ge ≤ 0) (a b : Seq) (aln : Aln)
    (i1 j1 : Nat) (hw : walk (firstA aln, firstB aln) aln = some (i1, j1)) (hi : i1 ≤ a.length) (hj : j1 ≤ b.length)
    (hn : NoAbut (complete a b aln)) :
    rescored .semi (.aff go ge) M a b aln ≤ optAff .semi M go ge a b :=
  C08_upper_pub_aff .semi M go ge hgo hge a b _ (complete_valid a b aln i1 j1 hw hi hj) hn

/-- banded semi-global results with an affine penalty, case `affAbutFree` (and in fact every valid trace): the
"corresponding unrestricted problem" is then the optimum with abutting allowed, which `align_optimal` does not
compute; a proved bound on it is the semi-global optimum for the linear penalty `max go ge` (every penalised gap
column costs at most that).  The exact abutting-allowed optimum is compared per output by the enumeration oracle. -/
theorem C09_never_above_aff_semi_abut (M : Mat) (go ge : Int) (a b : Seq) (aln : Aln)
    (i1 j1 : Nat) (hw : walk (firstA aln, firstB aln) aln = some (i1, j1)) (hi : i1 ≤ a.length) (hj : j1 ≤ b.length) :
    rescored .semi (.aff go ge) M a b aln ≤ optSemi M (max go ge) a b :=
  aff_semi_le_lin_opt M go ge a b _ (complete_valid a b aln i1 j1 hw hi hj)

/-- the C09 witness of the `affAbutFree` case: `align_banded` returns `[(0,2),(-1,3),(-1,4)]` with score 2; the
completed alignment abuts the free terminal gap, `optAff .semi` (= `align_optimal`) is 0, the checker accepts the
output against the linear bound and reports the class. -/
theorem C09_aff_abut_free_witness :
    optClass [1, 2, 2] [1, 0, 1, 0, 0] (.aff (-1) (-1)) .semi [.both 0 2, .gapA 3, .gapA 4] = .affAbutFree ∧
    rescored .semi (.aff (-1) (-1)) (Mat.ofRows [[4, -3], [-3, 4], [-3, -3]]) [1, 2, 2] [1, 0, 1, 0, 0]
      [.both 0 2, .gapA 3, .gapA 4] = 2 ∧
    optAff .semi (Mat.ofRows [[4, -3], [-3, 4], [-3, -3]]) (-1) (-1) [1, 2, 2] [1, 0, 1, 0, 0] = 0 ∧
    checkResult [1, 2, 2] [1, 0, 1, 0, 0] (Mat.ofRows [[4, -3], [-3, 4], [-3, -3]]) (.aff (-1) (-1)) .semi
      (some (-1, 6)) none .both [(0, 2), (-1, 3), (-1, 4)] 2 = true := by
  refine ⟨by decide, by decide, by decide, by decide⟩

/-- The abutting-allowed affine semi-global optimum (three-state recursion with the free-border transitions, as
`align_banded`'s table has them) lies between C08's optimum over non-abutting alignments (= `align_optimal`) and
the linear semi-global optimum for the milder penalty; the executable table value is the recursion. -/
theorem C09_optAffAbutFree_sandwich (M : Mat) (go ge : Int) (a b : Seq) :
    optAff .semi M go ge a b ≤ optAffAbutFree M go ge a b ∧
    optAffAbutFree M go ge a b ≤ optSemi M (max go ge) a b ∧
    optAffAbutFreeT M go ge a b = optAffAbutFree M go ge a b :=
  ⟨optAff_semi_le_abut M go ge a b, optAffAbutFree_le_lin M go ge a b, optAffAbutFreeT_eq M go ge a b⟩

set_option maxRecDepth 20000 in
/-- the two optima differ exactly when an optimal alignment abuts a free terminal gap: the adjudicated witnesses
(1 vs 3, 0 vs 2); they coincide e.g. when both sequences have length 1 or a gap is never worthwhile. -/
theorem C09_optAffAbutFree_witness :
    optAff .semi (Mat.ofRows [[4, -3], [-3, 4], [-3, -3]]) (-1) (-1) [1, 2] [1, 0] = 1 ∧
    optAffAbutFree (Mat.ofRows [[4, -3], [-3, 4], [-3, -3]]) (-1) (-1) [1, 2] [1, 0] = 3 ∧
    optAff .semi (Mat.ofRows [[4, -3], [-3, 4], [-3, -3]]) (-1) (-1) [1, 2, 2] [1, 0, 1, 0, 0] = 0 ∧
    optAffAbutFree (Mat.ofRows [[4, -3], [-3, 4], [-3, -3]]) (-1) (-1) [1, 2, 2] [1, 0, 1, 0, 0] = 2 ∧
    optAff .semi (Mat.ofRows [[1, -1], [-1, 1]]) (-3) (-1) [0, 1, 0] [0, 1, 0] = 3 ∧
    optAffAbutFree (Mat.ofRows [[1, -1], [-1, 1]]) (-3) (-1) [0, 1, 0] [0, 1, 0] = 3 := by
  refine ⟨by decide, by decide, by decide, by decide, by decide, by decide⟩

set_option maxRecDepth 20000 in
/-- full band, affine (witnesses; the general statement is tied by the `abf` correspondence and the oracle): the
`none` = −∞ model of `align_banded`'s affine table with a band covering all diagonals gives `optAffAbutFree`
(up to the pair-free alignment, score 0), and that is above `optAff .semi` on the adjudicated witness. -/
theorem C09_band_full_aff_witness :
    max 0 (bandedAffScoreSetupO false (-1) (-1) ⟨[1, 2, 2], [1, 0, 1, 0, 0], Mat.ofRows [[4, -3], [-3, 4], [-3, -3]], -2, 4, false⟩)
      = optAffAbutFree (Mat.ofRows [[4, -3], [-3, 4], [-3, -3]]) (-1) (-1) [1, 2, 2] [1, 0, 1, 0, 0] ∧
    max 0 (bandedAffScoreSetupO false (-3) (-1) ⟨[0, 1, 0], [0, 1, 1, 0], Mat.ofRows [[1, -1], [-1, 1]], -2, 3, false⟩)
      = optAffAbutFree (Mat.ofRows [[1, -1], [-1, 1]]) (-3) (-1) [0, 1, 0] [0, 1, 1, 0] := by
  refine ⟨by decide, by decide⟩

/-! ## The band: never above the semi-global optimum for ANY band, equal to it for a band covering all diagonals -/

/-- On the model of `align_banded(local=False)` with a linear penalty `g ≤ 0`: whatever the band, the reported
score (maximum over the trace start cells of `get_global_trace_starts`) is at most the semi-global optimum
(`s` is the swapped / cropped setup `bandSetup` produces). -/
theorem C09_banded_le_opt (s : BandSetup) (g : Int) (hg : g ≤ 0) :
    bandedScoreSetup false g s ≤ optSemi s.M g s.a s.b :=
  banded_score_le s.M g s.a s.b s.lower s.upper hg

/-- A band covering all diagonals (after cropping: `lower = 1 - n`, `upper = m - 1`) reaches the semi-global
optimum, up to the alignment that pairs no position at all (score 0, all gaps terminal), which a band cannot
express: `max 0 bandedScore = optSemi`.  In particular the two agree whenever some optimal alignment pairs at
least one position with a non-negative total. -/
theorem C09_band_full (s : BandSetup) (g : Int) (hg : g ≤ 0) (hn : 0 < s.a.length) (hm : 0 < s.b.length)
    (hlo : s.lower = 1 - (s.a.length : Int)) (hhi : s.upper = (s.b.length : Int) - 1) :
    max 0 (bandedScoreSetup false g s) = optSemi s.M g s.a s.b := by
  have h1 := banded_score_le s.M g s.a s.b s.lower s.upper hg
  have h2 := banded_full_ge s.M g s.a s.b s.lower s.upper hn hm hlo hhi
  have h3 := semi_nonneg s.M g s.a s.b
  have e : bandedScoreSetup false g s = (omaxList (startVals s.M g s.a s.b s.lower s.upper)).getD 0 := rfl
  rw [e]; omega

/-- inside the table the full-band table coincides cell by cell with `align_optimal`'s semi-global table -/
theorem C09_band_full_cells (s : BandSetup) (g : Int)
    (hlo : s.lower = 1 - (s.a.length : Int)) (hhi : s.upper = (s.b.length : Int) - 1) (i j : Nat)
    (hi : i < s.a.length) (hj : j < s.b.length) :
    tableGet (bandedFill false s.M g s.a s.b s.lower s.upper) i j = some (some ((linRec .semi s.M g s.a s.b).val i j)) := by
  unfold tableGet bandedFill
  rw [Rec.table_get _ _ _ i j (by omega) (by omega), banded_full_inner s.M g s.a s.b s.lower s.upper hlo hhi i j hi hj]

/-- the setup `align_banded` computes from a user band that covers every diagonal of the (unswapped) table -/
theorem C09_bandSetup_full (a b : Seq) (M : Mat) (band : Int × Int) (hn : 0 < a.length) (hm : 0 < b.length)
    (hab : a.length ≤ b.length)
    (h1 : min band.1 band.2 ≤ 1 - (a.length : Int)) (h2 : (b.length : Int) - 1 ≤ max band.1 band.2) :
    bandSetup a b M band = .ok ⟨a, b, M, 1 - (a.length : Int), (b.length : Int) - 1, false⟩ := by
  have hsw : ¬ (b.length < a.length) := by omega
  simp only [bandSetup, hsw, decide_false, Bool.false_eq_true, if_false]
  have c1 : ¬ ((a.length : Int) + max band.1 band.2 ≤ 0 ∨ min band.1 band.2 ≥ (b.length : Int)) := by omega
  have c2 : ¬ (min (max band.1 band.2) ((b.length : Int) - 1) - max (min band.1 band.2) (-(a.length : Int) + 1) + 1 < 1) := by
    omega
  simp only [c1, c2, if_false]
  congr 2 <;> omega

/-! ## Refusals happen exactly where the documented guards say -/

/-- `align_banded` (model): `ValueError` exactly for a positive gap penalty, `max_number < 1`, or a band the setup
refuses (no overlap with the table / width 0 after cropping); otherwise a score is returned. -/
theorem C09_banded_rejects (a b : Seq) (M : Mat) (ms : Int) (gap : Gap) (loc : Bool) (band : Int × Int) (mx : Int) :
    (bandedScore a b M ms gap loc band mx = .error .valueError ↔
      (gap.go > 0 ∨ gap.ge > 0 ∨ mx < 1 ∨ bandSetup a b M band = .error .valueError)) ∧
    (bandedScore a b M ms gap loc band mx = .error .valueError ∨ ∃ v, bandedScore a b M ms gap loc band mx = .ok v) := by
  have hs : bandSetup a b M band = .error .valueError ∨ ∃ s, bandSetup a b M band = .ok s := by
    unfold bandSetup
    simp only []
    repeat' split
    all_goals first | (left; rfl) | (right; exact ⟨_, rfl⟩)
  unfold bandedScore
  by_cases h1 : gap.go > 0 ∨ gap.ge > 0
  · simp only [h1, if_true, true_iff, true_or]
    exact ⟨by rcases h1 with h | h <;> simp [h], trivial⟩
  · by_cases h2 : mx < 1
    · simp only [h1, h2, if_true, if_false, true_iff, true_or, or_true]
      exact ⟨trivial, trivial⟩
    · have h1a : ¬ gap.go > 0 := fun h => h1 (Or.inl h)
      have h1b : ¬ gap.ge > 0 := fun h => h1 (Or.inr h)
      simp only [h1, h2, if_false, h1a, h1b, false_or]
      rcases hs with hs | ⟨st, hs⟩
      · simp [hs]
      · rw [hs]
        cases gap <;> simp

/-- the band the setup refuses, for `len(seq1) ≤ len(seq2)` (no swap): no overlap, or nothing left after cropping -/
theorem C09_bandSetup_rejects (a b : Seq) (M : Mat) (band : Int × Int) (hab : a.length ≤ b.length) :
    bandSetup a b M band = .error .valueError ↔
      ((a.length : Int) + max band.1 band.2 ≤ 0 ∨ min band.1 band.2 ≥ (b.length : Int) ∨
        min (max band.1 band.2) ((b.length : Int) - 1) - max (min band.1 band.2) (-(a.length : Int) + 1) + 1 < 1) := by
  have hsw : ¬ (b.length < a.length) := by omega
  simp only [bandSetup, hsw, decide_false, Bool.false_eq_true, if_false]
  by_cases c1 : (a.length : Int) + max band.1 band.2 ≤ 0 ∨ min band.1 band.2 ≥ (b.length : Int)
  · simp only [c1, if_true, true_iff]
    rcases c1 with h | h
    · left; exact h
    · right; left; exact h
  · simp only [c1, if_false]
    have n1 : ¬ ((a.length : Int) + max band.1 band.2 ≤ 0) := fun h => c1 (Or.inl h)
    have n2 : ¬ (min band.1 band.2 ≥ (b.length : Int)) := fun h => c1 (Or.inr h)
    simp only [n1, n2, false_or]
    split <;> simp [*]

/-- `align_local_gapped` (model), in the order of the code's checks: `ValueError` for a non-negative penalty,
`max_number < 1`, `max_table_size ≤ 0`; `IndexError` for a seed outside the sequences (in particular for an empty
sequence); `ValueError` for a negative threshold; and WITHOUT a table limit every other call returns a score. -/
theorem C09_gapped_rejects (so : Bool) (a b : Seq) (M : Mat) (gap : Gap) (seed : Int × Int) (thr : Int) (dir : XDir)
    (mx : Int) (mts : Option Int) (is io gf : Nat) :
    let r := gappedScore so a b M gap seed thr dir mx mts is io gf
    let badGap := gap.go ≥ 0 ∨ gap.ge ≥ 0
    let badLim := ∃ l, mts = some l ∧ l ≤ 0
    let badSeed := seed.1 < 0 ∨ seed.2 < 0 ∨ seed.1.toNat ≥ a.length ∨ seed.2.toNat ≥ b.length
    (badGap → r = .error .valueError) ∧
    (¬ badGap → mx < 1 → r = .error .valueError) ∧
    (¬ badGap → ¬ mx < 1 → badLim → r = .error .valueError) ∧
    (¬ badGap → ¬ mx < 1 → ¬ badLim → badSeed → r = .error .indexError) ∧
    (¬ badGap → ¬ mx < 1 → ¬ badLim → ¬ badSeed → thr < 0 → r = .error .valueError) ∧
    (¬ badGap → ¬ mx < 1 → ¬ badSeed → ¬ thr < 0 → mts = none → ∃ v, r = .ok v) := by
  intro r badGap badLim badSeed
  refine ⟨?_, ?_, ?_, ?_, ?_, ?_⟩
  · intro h; simp only [r, gappedScore, badGap] at h ⊢; simp only [h, if_true]
  · intro h1 h2; simp only [r, gappedScore, badGap] at h1 ⊢; simp only [h1, h2, if_true, if_false]
  · intro h1 h2 ⟨l, hl, hl0⟩
    simp only [r, gappedScore, badGap] at h1 ⊢
    subst hl
    simp only [h1, h2, hl0, decide_true, if_true, if_false]
  · intro h1 h2 h3 h4
    simp only [r, gappedScore, badGap, badLim, badSeed] at h1 h3 h4 ⊢
    have key : ∀ (lim : Bool), lim = false →
        (if gap.go ≥ 0 ∨ gap.ge ≥ 0 then (Except.error Err.valueError : Except Err Int) else
          if mx < 1 then .error .valueError else if lim = true then .error .valueError else
          if seed.1 < 0 ∨ seed.2 < 0 then .error .indexError else
          if seed.1.toNat ≥ a.length ∨ seed.2.toNat ≥ b.length then .error .indexError else .ok 0) = .error .indexError := by
      intro lim hl
      subst hl
      simp only [h1, h2, Bool.false_eq_true, if_false]
      by_cases hneg : seed.1 < 0 ∨ seed.2 < 0
      · simp only [hneg, if_true]
      · have : seed.1.toNat ≥ a.length ∨ seed.2.toNat ≥ b.length := by
          rcases h4 with h | h | h | h
          · exact absurd (Or.inl h) hneg
          · exact absurd (Or.inr h) hneg
          · exact Or.inl h
          · exact Or.inr h
        simp only [hneg, this, if_true, if_false]
    cases mts with
    | none =>
      have := key false rfl
      simp only [h1, h2, Bool.false_eq_true, if_false] at this ⊢
      split at this
      · simp only [*, if_true]
      · split at this
        · simp only [*, if_true, if_false]
        · cases this
    | some l =>
      have hl : ¬ l ≤ 0 := fun hl => h3 ⟨l, rfl, hl⟩
      have := key false rfl
      simp only [h1, h2, hl, decide_false, Bool.false_eq_true, if_false] at this ⊢
      split at this
      · simp only [*, if_true]
      · split at this
        · simp only [*, if_true, if_false]
        · cases this
  · intro h1 h2 h3 h4 h5
    simp only [r, gappedScore, badGap, badLim, badSeed] at h1 h3 h4 ⊢
    have n1 : ¬ (seed.1 < 0 ∨ seed.2 < 0) := fun h => h4 (by rcases h with h | h; exact Or.inl h; exact Or.inr (Or.inl h))
    have n2 : ¬ (seed.1.toNat ≥ a.length ∨ seed.2.toNat ≥ b.length) :=
      fun h => h4 (by rcases h with h | h; exact Or.inr (Or.inr (Or.inl h)); exact Or.inr (Or.inr (Or.inr h)))
    cases mts with
    | none => simp only [h1, h2, n1, n2, h5, Bool.false_eq_true, if_false, if_true]
    | some l =>
      have hl : ¬ l ≤ 0 := fun hl => h3 ⟨l, rfl, hl⟩
      simp only [h1, h2, hl, decide_false, n1, n2, h5, Bool.false_eq_true, if_false, if_true]
  · intro h1 h2 h4 h5 hm
    simp only [r, gappedScore, badGap, badSeed] at h1 h4 ⊢
    subst hm
    have n1 : ¬ (seed.1 < 0 ∨ seed.2 < 0) := fun h => h4 (by rcases h with h | h; exact Or.inl h; exact Or.inr (Or.inl h))
    have n2 : ¬ (seed.1.toNat ≥ a.length ∨ seed.2.toNat ≥ b.length) :=
      fun h => h4 (by rcases h with h | h; exact Or.inr (Or.inr (Or.inl h)); exact Or.inr (Or.inr (Or.inr h)))
    simp only [h1, h2, n1, n2, h5, Bool.false_eq_true, if_false]
    have hu : ∀ (c : Bool) x y, ∃ v, (if c = true then regionAlign so M gap thr x y none is io gf else .ok 0) = .ok v := by
      intro c x y
      cases c with
      | true => simpa using regionAlign_none_ok so M gap thr x y is io gf
      | false => exact ⟨0, by simp⟩
    obtain ⟨u, hu'⟩ := hu (dirUp dir && decide (seed.1.toNat ≠ 0) && decide (seed.2.toNat ≠ 0))
      (a.take seed.1.toNat).reverse (b.take seed.2.toNat).reverse
    obtain ⟨d, hd'⟩ := hu (dirDown dir) (a.drop (seed.1.toNat + 1)) (b.drop (seed.2.toNat + 1))
    rw [hu', hd']
    exact ⟨_, rfl⟩

/-- `align_local_ungapped` (model): `ValueError` for a negative threshold, then `IndexError` for a seed outside the
sequences (in particular empty sequences), otherwise a score. -/
theorem C09_ungapped_rejects (a b : Seq) (M : Mat) (seed : Int × Int) (thr : Int) (dir : XDir) :
    let r := ungappedScore a b M seed thr dir
    let badSeed := seed.1 < 0 ∨ seed.2 < 0 ∨ seed.1.toNat ≥ a.length ∨ seed.2.toNat ≥ b.length
    (thr < 0 → r = .error .valueError) ∧ (¬ thr < 0 → badSeed → r = .error .indexError) ∧
    (¬ thr < 0 → ¬ badSeed → ∃ v, r = .ok v) := by
  intro r badSeed
  refine ⟨?_, ?_, ?_⟩
  · intro h; simp only [r, ungappedScore, ungapped, h, if_true]; rfl
  · intro h1 h4
    simp only [r, ungappedScore, ungapped, h1, if_false, badSeed] at h4 ⊢
    by_cases hneg : seed.1 < 0 ∨ seed.2 < 0
    · simp only [hneg, if_true]; rfl
    · have : seed.1.toNat ≥ a.length ∨ seed.2.toNat ≥ b.length := by
        rcases h4 with h | h | h | h
        · exact absurd (Or.inl h) hneg
        · exact absurd (Or.inr h) hneg
        · exact Or.inl h
        · exact Or.inr h
      simp only [hneg, this, if_true, if_false]; rfl
  · intro h1 h4
    simp only [badSeed] at h4
    have n1 : ¬ (seed.1 < 0 ∨ seed.2 < 0) := fun h => h4 (by rcases h with h | h; exact Or.inl h; exact Or.inr (Or.inl h))
    have n2 : ¬ (seed.1.toNat ≥ a.length ∨ seed.2.toNat ≥ b.length) :=
      fun h => h4 (by rcases h with h | h; exact Or.inr (Or.inr (Or.inl h)); exact Or.inr (Or.inr (Or.inr h)))
    simp only [r, ungappedScore, ungapped, h1, n1, n2, if_false]
    exact ⟨_, rfl⟩

/-! ## Ungapped X-drop extension -/

/-- A threshold that cannot bind (at least the sum of the magnitudes of all negative steps) ⇒ the extension
returns the best prefix score, i.e. the maximum over all prefixes (`bestPrefix_ge_take`, `bestPrefix_attained`). -/
theorem C09_xdrop_ungapped (thr : Int) (scores : List Int) (h : negSum scores ≤ thr) :
    (xdropExtend thr scores).1 = bestPrefix scores := by
  unfold xdropExtend
  have := xdrop_fold thr scores ⟨0, 0, 0, 0, false⟩ rfl (by simp) (by simpa using h)
  have hb := bestPrefix_nonneg scores
  simp only at this ⊢
  rw [this]; simp; omega

/-- `bestPrefix` is the maximum of the prefix sums. -/
theorem C09_bestPrefix_is_max (scores : List Int) :
    (∀ k, (scores.take k).sum ≤ bestPrefix scores) ∧ ∃ k, k ≤ scores.length ∧ (scores.take k).sum = bestPrefix scores :=
  ⟨bestPrefix_ge_take scores, bestPrefix_attained scores⟩

/-! ## Gapped X-drop: a threshold that cannot bind reaches the optimum of the seed's quadrant (linear penalties) -/

/-- On the model of `_align_region` (antidiagonal fill with pruning, `0` = invalid cell, no table-size limit), linear
penalty, both code paths: if no cell of the anchored DP table lies more than `thr` below (an upper bound `Vmax` of)
its maximum — `NoBind`: the drop-off cannot bind — nothing is pruned and the result is the maximum over all prefix
pairs of the global optimum `optLin (x.take i) (y.take j)`, i.e. the best extension from the seed. -/
theorem C09_xdrop_gapped (so : Bool) (M : Mat) (g thr : Int) (io : Nat) (x y : Seq) (Vmax : Int)
    (h : NoBind M g thr io x y Vmax) (initSize growF : Nat) :
    ∃ R, regionLin so M g thr x y none initSize io growF = .ok R ∧
      (∀ i j, i ≤ x.length → j ≤ y.length → optLin M g (x.take i) (y.take j) ≤ R) ∧
      (∃ i j, i ≤ x.length ∧ j ≤ y.length ∧ R = optLin M g (x.take i) (y.take j)) := by
  refine ⟨Bk M g thr io x y (x.length + y.length) - (thr + io), ?_, ?_, ?_⟩
  · cases so with
    | true => exact regionLin_nobind M g thr io x y h initSize growF
    | false => rw [← regionLin_so]; exact regionLin_nobind M g thr io x y h initSize growF
  · intro i j hi hj
    have := Bk_ge_cell M g thr io x y i j hi hj
    rw [← table_lin_prefix M g x y i j hi hj]
    simp only [Tv, Vv] at this
    omega
  · obtain ⟨i, j, hi, hj, he⟩ := Bk_attained M g thr io x y (x.length + y.length) (Nat.le_refl _)
    refine ⟨i, j, hi, hj, ?_⟩
    rw [← table_lin_prefix M g x y i j hi hj, he]
    simp only [Tv, Vv]
    omega

/-- consequently no alignment that starts at the seed side of the region (walks from `(0,0)`) scores above the result -/
theorem C09_xdrop_gapped_upper (so : Bool) (M : Mat) (g thr : Int) (io : Nat) (x y : Seq) (Vmax : Int)
    (h : NoBind M g thr io x y Vmax) (initSize growF : Nat) (R : Int)
    (hR : regionLin so M g thr x y none initSize io growF = .ok R) (aln : Aln) (i j : Nat)
    (hw : walk (0, 0) aln = some (i, j)) (hi : i ≤ x.length) (hj : j ≤ y.length) :
    scoreLin M g x y aln ≤ R := by
  obtain ⟨R', hR', hub, _⟩ := C09_xdrop_gapped so M g thr io x y Vmax h initSize growF
  rw [hR] at hR'
  cases hR'
  have h1 := upper_gen _ _ (step_global M g x y) aln (0, 0) (i, j) hw
  rw [← scoreLin_eq_pos] at h1
  have h2 := hub i j hi hj
  rw [← table_lin_prefix M g x y i j hi hj] at h2
  simp only [Rec.val_zero, borderG, gapRun] at h1
  omega

/-- explicit slack: all substitution scores and the gap penalty bounded by `c` in magnitude and
`threshold ≥ 2·(n+m)·c` ⇒ the drop-off cannot bind. -/
theorem C09_xdrop_gapped_slack (M : Mat) (g thr : Int) (io : Nat) (hio : 1 ≤ io) (x y : Seq) (c : Int)
    (hM : ∀ p q, -c ≤ M p q ∧ M p q ≤ c) (h1 : -c ≤ g) (h2 : g ≤ c)
    (hthr : 2 * ((x.length + y.length : Nat) : Int) * c ≤ thr) :
    NoBind M g thr io x y (gapRun c (x.length + y.length)) :=
  noBind_of_bound M g x y thr io hio c hM h1 h2 hthr

/-- Affine penalties (three region tables, `0` = invalid in each): under `NoBindA` (every finite state of every
cell of the anchored three-state table `Wv` = C08's global affine table of the prefixes, `C08_table_aff_prefix`,
is within `thr` of an upper bound `Vmax`; `gap_open, gap_ext < 0` as `align_local_gapped` requires) nothing is
pruned and the result is the maximum over all cells of the MATCH-state value (the best extension ending in a pair,
or 0 for the empty extension; a trailing gap can only lower the score). -/
theorem C09_xdrop_gapped_aff (so : Bool) (M : Mat) (go ge thr : Int) (io : Nat) (x y : Seq) (Vmax : Int)
    (h : NoBindA M go ge thr io x y Vmax) (initSize growF : Nat) :
    ∃ R, regionAff so M go ge thr x y none initSize io growF = .ok R ∧
      (∀ i j w, i ≤ x.length → j ≤ y.length → (Wv M go ge x y i j).m = some w → w ≤ R) ∧
      (∃ i j w, i ≤ x.length ∧ j ≤ y.length ∧ (Wv M go ge x y i j).m = some w ∧ R = w) := by
  refine ⟨MBk M go ge thr io x y (x.length + y.length) - (thr + io), ?_, ?_, ?_⟩
  · cases so with
    | true => exact regionAff_nobind M go ge thr io x y h initSize growF
    | false => rw [← regionAff_so]; exact regionAff_nobind M go ge thr io x y h initSize growF
  · intro i j w hi hj hw
    have := MBk_ge_cell M go ge thr io x y i j hi hj w hw
    omega
  · obtain ⟨i, j, w, hi, hj, hw, he⟩ := MBk_attained M go ge thr io x y (x.length + y.length) (Nat.le_refl _)
    exact ⟨i, j, w, hi, hj, hw, by omega⟩

/-- explicit slack for the affine region: `|M|, |gap_open|, |gap_ext| ≤ c`, both penalties negative and
`threshold ≥ 2·(n+m)·c` ⇒ the drop-off cannot bind. -/
theorem C09_xdrop_gapped_aff_slack (M : Mat) (go ge thr : Int) (io : Nat) (hio : 1 ≤ io) (x y : Seq) (c : Int)
    (hM : ∀ p q, -c ≤ M p q ∧ M p q ≤ c) (ho1 : -c ≤ go) (ho2 : go < 0) (he1 : -c ≤ ge) (he2 : ge < 0)
    (hthr : 2 * ((x.length + y.length : Nat) : Int) * c ≤ thr) :
    NoBindA M go ge thr io x y (gapRun c (x.length + y.length)) :=
  noBindA_of_bound M go ge x y thr io hio c hM ho1 ho2 he1 he2 hthr

/-! ## Table growth and `max_table_size` -/

/-- `_extend_table` (new zero table, old data copied to the top-left corner) changes no cell value: a cell outside
the old table reads 0 (= invalid / never written) before and after. -/
theorem C09_extend_table_preserves (t : List (List Int)) (dim0 : Bool) (cols growF i j : Nat) :
    tget (extendTable t dim0 cols growF) i j = tget t i j :=
  tget_extendTable t dim0 cols growF i j

/-- The region values are a function of the sequences, matrix, penalty and threshold only: with a
`max_table_size` the model either raises `MemoryError` (as soon as a doubling would exceed the limit; the error is
sticky, no score is returned) or returns exactly what the unlimited run returns — linear and affine, both code paths. -/
theorem C09_table_limit_region (so : Bool) (M : Mat) (gap : Gap) (thr : Int) (x y : Seq) (lim : Int)
    (initSize initOff growF : Nat) :
    regionAlign so M gap thr x y (some lim) initSize initOff growF = .error (.other "MemoryError") ∨
      regionAlign so M gap thr x y (some lim) initSize initOff growF
        = regionAlign so M gap thr x y none initSize initOff growF :=
  regionAlign_limit so M gap thr x y lim initSize initOff growF

/-- the same for the whole call (`max_table_size > 0`; non-positive values are rejected with ValueError) -/
theorem C09_table_limit (so : Bool) (a b : Seq) (M : Mat) (gap : Gap) (seed : Int × Int) (thr : Int) (dir : XDir)
    (maxNumber : Int) (lim : Int) (hl : 0 < lim) (initSize initOff growF : Nat) :
    gappedScore so a b M gap seed thr dir maxNumber (some lim) initSize initOff growF = .error (.other "MemoryError") ∨
      gappedScore so a b M gap seed thr dir maxNumber (some lim) initSize initOff growF
        = gappedScore so a b M gap seed thr dir maxNumber none initSize initOff growF := by
  have hl' : ¬ (lim ≤ 0) := by omega
  have comb : ∀ (uL uN dL dN : Except Err Int) (c : Int),
      (uL = .error (.other "MemoryError") ∨ uL = uN) → (dL = .error (.other "MemoryError") ∨ dL = dN) →
      combineRegions uL dL c = .error (.other "MemoryError") ∨ combineRegions uL dL c = combineRegions uN dN c := by
    intro uL uN dL dN c hu hd
    rcases hu with hu | hu
    · left; rw [hu]; rfl
    · subst hu
      cases uL with
      | error e => right; rfl
      | ok u =>
        rcases hd with hd | hd
        · left; rw [hd]; rfl
        · subst hd; right; rfl
  unfold gappedScore
  simp only [hl', decide_false, Bool.false_eq_true, if_false]
  repeat' split
  all_goals first
    | (right; rfl)
    | (apply comb
       · first
         | exact regionAlign_limit ..
         | (right; rfl)
       · first
         | exact regionAlign_limit ..
         | (right; rfl))

/-! ## `score_only=True` returns the score of the full call (on the model: `_max` path = `get_trace_*` path) -/

theorem C09_score_only_eq (a b : Seq) (M : Mat) (gap : Gap) (seed : Int × Int) (thr : Int) (dir : XDir)
    (maxNumber : Int) (mts : Option Int) (initSize initOff growF : Nat) :
    gappedScore true a b M gap seed thr dir maxNumber mts initSize initOff growF
      = gappedScore false a b M gap seed thr dir maxNumber mts initSize initOff growF := by
  simp only [gappedScore, regionAlign_so]

/-- `get_trace_linear` writes the maximum of its three candidates -/
theorem C09_trace_linear_max (d l t : Int) : (traceLin d l t).2 = max d (max l t) := traceLin_snd d l t

/-! ## Defects of the pinned code, as modelled (known findings; `.pyx`, cannot be rebuilt) -/

/-- `align_banded(local=False)`: the DP leaves the free border with a gap (−1 beats the substitution score −5) and
reports −2, but the trace it returns, `[(0,0),(1,-1)]`, scores −6: the checker rejects the actual output. -/
theorem C09_banded_leading_gap_defect :
    bandedScore [0, 0] [1, 1] (Mat.ofRows [[1, -5], [-5, 1]]) (-5) (.lin (-1)) false (-1, 1) 10 = .ok (-2) ∧
    rescored .semi (.lin (-1)) (Mat.ofRows [[1, -5], [-5, 1]]) [0, 0] [1, 1] [.both 0 0, .gapB 1] = -6 ∧
    checkResult [0, 0] [1, 1] (Mat.ofRows [[1, -5], [-5, 1]]) (.lin (-1)) .semi (some (-1, 1)) none .both
      [(0, 0), (1, -1)] (-2) = false := by
  decide

/-- `align_banded(local=False)`, affine `(-1, -3)`, non-negative matrix: the `neg_inf` sentinel wraps around and
the reported score is `INT32_MAX`. -/
theorem C09_banded_neginf_defect :
    bandedScore [0, 1] [0, 1, 1] (Mat.ofRows [[1, 0], [0, 1]]) 0 (.aff (-1) (-3)) false (-1, 1) 10
      = .ok 2147483647 := by
  decide

/-! ## Regenerated constants and guards (Gen/C09.lean) -/

/-- `init_score = threshold + 1 ≥ 1` keeps `0` free as the "invalid cell" marker; the table grows by doubling;
`_extend_table` raises MemoryError only when the new size is STRICTLY greater than `max_table_size` (`growShape`);
the guards reject exactly what the model rejects (`gap ≥ 0` for the X-drop, `gap > 0` for the band, negative
thresholds) and the X-drop tests are the non-strict / strict comparisons the model uses. -/
theorem C09_gen_constants :
    Gen.C09.initOffset = 1 ∧ Gen.C09.growFactor = 2 ∧ 1 ≤ Gen.C09.initSize ∧
    Gen.C09.bandedGapGuard = ">" ∧ Gen.C09.gappedGapGuard = ">=" ∧
    Gen.C09.gappedThresholdGuard = "<" ∧ Gen.C09.ungappedThresholdGuard = "<" ∧
    Gen.C09.gappedAccept = ">=" ∧ Gen.C09.ungappedDrop = ">" ∧ Gen.C09.ungappedKeep = ">=" ∧
    Gen.C09.extendLimit = ">" := by
  decide

/-! ## Structure of the sources, regenerated (Gen/C09.lean: blank-free text of the anchored statements) -/

/-- `align_banded`, `banded._fill_align_table(_affine)`, `get_global_trace_starts` are what the model hard-codes:
swap iff `len(seq2) < len(seq1)` with negated band and transposed matrix (`bandSetup`); `min/max` of the band; cropping to
`[-len(seq1)+1, len(seq2)-1]`; width `upper-lower+1`; table `(len+1) × (width+2)` with `neg_inf` in the first / last column
(`bandedRec`: out-of-band = `none`); `neg_inf = INT32_MIN - min(gap) - min(min_score,0)` (`negInfOf`); G1/G2 initialised with
`neg_inf`; row range `max(0, i+lower) … min(len2, i+upper+1)`, straightened column `j - i - lower + 1`, neighbours
`[i-1,j]` (diagonal), `[i,j-1]` (left), `[i-1,j+1]` (top) — i.e. diagonal / left / top of the classic table; local floor
`≤ 0`; affine transitions M→G with `gap_open`, G→G with `gap_ext`, no G1↔G2; local start = table maximum (`m_table` only
for affine), semi-global start = max over M, G1, G2 of the start cells; start cells: last row while `seq_j < seq2_len`,
otherwise the row `(seq2_len-1) - j - lower + 2` of the last column (`startCells`); result cut to `max_number`; swapped
result returned as `[seq2, seq1]` with flipped trace. -/
theorem C09_gen_banded_facts : Gen.C09.bandedFacts =
    [("banded.swap_condition", "len(seq2)<len(seq1)"),
    ("banded.swap_band", "[-diagfordiaginband]"),
    ("banded.swap_matrix", "matrix.transpose()"),
    ("banded.lower_upper", "min(band),max(band)"),
    ("banded.crop_lower", "max(lower_diag,-len(seq1)+1)"),
    ("banded.crop_upper", "min(upper_diag,len(seq2)-1)"),
    ("banded.band_width", "upper_diag-lower_diag+1"),
    ("banded.table_shape", "(len(seq1)+1,band_width+2)"),
    ("banded.neg_inf", "np.iinfo(np.int32).min"),
    ("banded.neg_inf_gap", "min(gap_penalty)ifaffine_penaltyelsegap_penalty"),
    ("banded.neg_inf_score_guard", "min_score<0"),
    ("banded.border_left", "neg_inf"),
    ("banded.border_right", "neg_inf"),
    ("banded.g1_init", "neg_inf"),
    ("banded.g2_init", "neg_inf"),
    ("banded.local_max_affine", "np.max(m_table)"),
    ("banded.local_max_linear", "np.max(score_table)"),
    ("banded.semi_max_affine", "max(m_max_score,g1_max_score,g2_max_score)"),
    ("banded.cut", "trace_list[:max_number]"),
    ("banded.swapped_result", "[seq2,seq1],np.flip(trace,axis=1),max_score"),
    ("banded.fill.j_lo", "max(0,seq_i+lower_diag)"),
    ("banded.fill.j_hi", "min(code2.shape[0],seq_i+upper_diag+1)"),
    ("banded.fill.j_table", "seq_j-seq_i-lower_diag+1"),
    ("banded.fill.from_diag", "score_table[i-1,j]+mat[code1[seq_i],code2[seq_j]]"),
    ("banded.fill.from_left", "score_table[i,j-1]+gap_penalty"),
    ("banded.fill.from_top", "score_table[i-1,j+1]+gap_penalty"),
    ("banded.fill.local_floor", "local==Trueandscore<=0"),
    ("banded.aff.mm", "m_table[i-1,j]+similarity_score"),
    ("banded.aff.g1m", "g1_table[i-1,j]+similarity_score"),
    ("banded.aff.g2m", "g2_table[i-1,j]+similarity_score"),
    ("banded.aff.mg1", "m_table[i,j-1]+gap_open"),
    ("banded.aff.g1g1", "g1_table[i,j-1]+gap_ext"),
    ("banded.aff.mg2", "m_table[i-1,j+1]+gap_open"),
    ("banded.aff.g2g2", "g2_table[i-1,j+1]+gap_ext"),
    ("banded.aff.local_m", "m_score<=0"),
    ("banded.aff.local_g1", "g1_score<=0"),
    ("banded.aff.local_g2", "g2_score<=0"),
    ("banded.starts.seq_j", "j+(seq1_len-1)+lower_diag-1"),
    ("banded.starts.test", "seq_j<seq2_len"),
    ("banded.starts.column_row", "(seq2_len-1)-j-lower_diag+2")] := by
  decide

/-- `align_local_gapped`, `_align_region`, the X-drop fills and `_extend_table` as modelled by `gappedScore`, `regionLin/Aff`,
`growShape`, `extendTable`: no upstream region when a seed coordinate is 0; regions `code[start-1::-1]` / `code[start+1:]`;
seed score added; table `min(len+1, INIT_SIZE)` per dimension; `init_score = threshold + 1`, result `max_score - init_score`
(`np.max(m_table)` for affine); antidiagonals `k = 1 … len1+len2`; pruned range `min(i_min_k_1, i_min_k_2+1) …
max(i_max_k_1+1, i_max_k_2+1)` clipped to `k-len2 … len1`, stop when empty; growth when `i_max ≥ rows` / `j_max ≥ cols`;
cells `i_min … i_max`, `j = k - i`; diagonal term only from a non-zero (valid) cell; top / left + gap penalty; `_max` of the
three on the score-only path; a new maximum updates `req_score = max_score - threshold`; affine: M→G `gap_open`, G→G `gap_ext`,
three acceptance tests `≥ req_score`; `_extend_table` doubles one dimension and copies the old block. -/
theorem C09_gen_gapped_facts : Gen.C09.gappedFacts =
    [("gapped.no_upstream", "seq1_start==0orseq2_start==0"),
    ("gapped.upstream_slices", "code1[seq1_start-1::-1],code2[seq2_start-1::-1]"),
    ("gapped.downstream_slices", "code1[seq1_start+1:],code2[seq2_start+1:]"),
    ("gapped.seed_score", "score_matrix[code1[seq1_start],code2[seq2_start]]"),
    ("gapped.default_mts", "np.iinfo(np.int64).max"),
    ("gapped.init_size", "(_min(len(code1)+1,INIT_SIZE),_min(len(code2)+1,INIT_SIZE))"),
    ("gapped.init_score", "threshold+1"),
    ("gapped.region_result_score_only", "max_score-init_score,None"),
    ("gapped.region_result", "max_score-init_score,trace_list"),
    ("gapped.region_cut", "trace_list[:max_number]"),
    ("gapped.fill.k_range", "1,code1.shape[0]+code2.shape[0]+1"),
    ("gapped.fill.i_min", "_min(i_min_k_1,i_min_k_2+1)"),
    ("gapped.fill.i_max", "_max(i_max_k_1+1,i_max_k_2+1)"),
    ("gapped.fill.i_min_clip", "_max(i_min,k-code2.shape[0])"),
    ("gapped.fill.i_max_clip", "_min(i_max,code1.shape[0])"),
    ("gapped.fill.stop", "i_min>i_max"),
    ("gapped.fill.j_max", "k-i_min"),
    ("gapped.fill.grow_rows", "i_max>=score_table.shape[0]"),
    ("gapped.fill.grow_cols", "j_max>=score_table.shape[1]"),
    ("gapped.fill.i_range", "i_min,i_max+1"),
    ("gapped.fill.j", "k-i"),
    ("gapped.fill.diag_valid", "from_diag!=0"),
    ("gapped.fill.from_diag", "matrix[code1[i-1],code2[j-1]]"),
    ("gapped.fill.from_top", "score_table[i-1,j]+gap_penalty"),
    ("gapped.fill.from_left", "score_table[i,j-1]+gap_penalty"),
    ("gapped.fill.score_only", "_max(from_diag,_max(from_left,from_top))"),
    ("gapped.fill.new_max", "score>max_score"),
    ("gapped.fill.req_score", "max_score-threshold"),
    ("gapped.aff.mm_valid", "mm_score!=0"),
    ("gapped.aff.mg1", "m_table[i,j-1]+gap_open"),
    ("gapped.aff.g1g1", "g1_table[i,j-1]+gap_ext"),
    ("gapped.aff.mg2", "m_table[i-1,j]+gap_open"),
    ("gapped.aff.g2g2", "g2_table[i-1,j]+gap_ext"),
    ("gapped.aff.accept_m", "m_score>=req_score"),
    ("gapped.aff.accept_g1", "g1_score>=req_score"),
    ("gapped.aff.accept_g2", "g2_score>=req_score"),
    ("gapped.aff.result", "np.max(m_table)"),
    ("gapped.extend.rows", "(table.shape[0]*2,table.shape[1])"),
    ("gapped.extend.cols", "(table.shape[0],table.shape[1]*2)"),
    ("gapped.extend.copy", ":table.shape[0],:table.shape[1]")] := by
  decide

/-- `align_local_ungapped` / `_seed_extend_generic` as modelled by `ungapped`, `xdropExtend`: upstream only when both seed
coordinates are `> 0`, the same slices, seed score added, offsets moved by the returned length, trace = two `arange`s,
loop over `min(len1, len2)` positions, result `(max_score, i_max_score + 1)` with `i_max_score` initialised to −1. -/
theorem C09_gen_ungapped_facts : Gen.C09.ungappedFacts =
    [("ungapped.upstream_condition", "upstreamandseq1_start>0andseq2_start>0"),
    ("ungapped.upstream_slices", "code1[seq1_start-1::-1],code2[seq2_start-1::-1]"),
    ("ungapped.downstream_slices", "code1[seq1_start+1:],code2[seq2_start+1:]"),
    ("ungapped.seed_score", "score_matrix[code1[seq1_start],code2[seq2_start]]"),
    ("ungapped.start_offset", "length"),
    ("ungapped.stop_offset", "length"),
    ("ungapped.trace_rows", "np.arange(seq1_start+start_offset,seq1_start+stop_offset),np.arange(seq2_start+start_offset,seq2_start+stop_offset)"),
    ("ungapped.extend.domain", "_min(code1.shape[0],code2.shape[0])"),
    ("ungapped.extend.step", "matrix[code1[i],code2[i]]"),
    ("ungapped.extend.result", "max_score,i_max_score+1"),
    ("ungapped.extend.init", "-1")] := by
  decide

/-- `get_trace_linear` / `get_trace_affine` (tracetable.pyx): the nested tests and the maximum written in each leaf, in
source order = the decision trees `traceLin`, `traceAffM`, `traceAffG` of the model (whose value is `max`: `C09_trace_linear_max`,
`traceAffM_eq`, `traceAffG_eq`). -/
theorem C09_gen_trace_trees : Gen.C09.traceFacts =
    [("trace.get_trace_linear.tests", "match_score>gap_left_score;match_score>gap_top_score;match_score==gap_top_score;match_score==gap_left_score;match_score>gap_top_score;match_score==gap_top_score;gap_left_score>gap_top_score;gap_left_score==gap_top_score"),
    ("trace.get_trace_linear.maxima", "max_score=match_score;max_score=match_score;max_score=gap_top_score;max_score=match_score;max_score=match_score;max_score=gap_top_score;max_score=gap_left_score;max_score=gap_left_score;max_score=gap_top_score"),
    ("trace.get_trace_affine.tests", "match_to_match_score>gap_left_to_match_score;match_to_match_score>gap_top_to_match_score;match_to_match_score==gap_top_to_match_score;match_to_match_score==gap_left_to_match_score;match_to_match_score>gap_top_to_match_score;match_to_match_score==gap_top_to_match_score;gap_left_to_match_score>gap_top_to_match_score;gap_left_to_match_score==gap_top_to_match_score;match_to_gap_left_score>gap_left_to_gap_left_score;match_to_gap_left_score<gap_left_to_gap_left_score;match_to_gap_top_score>gap_top_to_gap_top_score;match_to_gap_top_score<gap_top_to_gap_top_score"),
    ("trace.get_trace_affine.maxima", "max_match_score=match_to_match_score;max_match_score=match_to_match_score;max_match_score=gap_top_to_match_score;max_match_score=match_to_match_score;max_match_score=match_to_match_score;max_match_score=gap_top_to_match_score;max_match_score=gap_left_to_match_score;max_match_score=gap_left_to_match_score;max_match_score=gap_top_to_match_score;max_gap_left_score=match_to_gap_left_score;max_gap_left_score=gap_left_to_gap_left_score;max_gap_left_score=match_to_gap_left_score;max_gap_top_score=match_to_gap_top_score;max_gap_top_score=gap_top_to_gap_top_score;max_gap_top_score=gap_top_to_gap_top_score")] := by
  rfl

/-- every `if … : raise X` of the public functions IN SOURCE ORDER = the order and the exception classes of the guards in
`bandedScore` / `bandSetup`, `gappedScore`, `ungapped` and `growShape` (`C09_*_rejects`): which error wins is part of the model. -/
theorem C09_gen_guards :
    Gen.C09.guards_align_banded =
    [("notmatrix.get_alphabet1().extends(seq1.get_alphabet())ornotmatrix.get_alphabet2().extends(seq2.get_alphabet())", "ValueError"),
    ("gap_penalty>0", "ValueError"),
    ("gap_penalty[0]>0orgap_penalty[1]>0", "ValueError"),
    ("else", "TypeError"),
    ("max_number<1", "ValueError"),
    ("len(seq1)+upper_diag<=0orlower_diag>=len(seq2)", "ValueError"),
    ("band_width<1", "ValueError")] ∧
    Gen.C09.guards_align_local_gapped =
    [("notmatrix.get_alphabet1().extends(seq1.get_alphabet())ornotmatrix.get_alphabet2().extends(seq2.get_alphabet())", "ValueError"),
    ("gap_penalty>=0", "ValueError"),
    ("gap_penalty[0]>=0orgap_penalty[1]>=0", "ValueError"),
    ("else", "TypeError"),
    ("max_number<1", "ValueError"),
    ("max_table_size<=0", "ValueError"),
    ("seq1_start<0orseq2_start<0", "IndexError"),
    ("seq1_start>=len(code1)orseq2_start>=len(code2)", "IndexError"),
    ("else", "ValueError"),
    ("threshold<0", "ValueError")] ∧
    Gen.C09.guards_align_local_ungapped =
    [("notmatrix.get_alphabet1().extends(seq1.get_alphabet())ornotmatrix.get_alphabet2().extends(seq2.get_alphabet())", "ValueError"),
    ("else", "ValueError"),
    ("threshold<0", "ValueError"),
    ("seq1_start<0orseq2_start<0", "IndexError")] ∧
    Gen.C09.guards_extend_table =
    [("new_shape[0]*new_shape[1]>max_size", "MemoryError")] := by
  decide

/-- parameters and DEFAULT VALUES of the three public functions = what the adapter passes explicitly and what the
argument-spelling stream (`…/defaults`) and the documentation state. -/
theorem C09_gen_defaults :
    Gen.C09.signature_align_banded =
    [("seq1", ""),
    ("seq2", ""),
    ("matrix", ""),
    ("band", ""),
    ("gap_penalty", "-10"),
    ("local", "False"),
    ("max_number", "1000")] ∧
    Gen.C09.signature_align_local_gapped =
    [("seq1", ""),
    ("seq2", ""),
    ("matrix", ""),
    ("seed", ""),
    ("threshold", ""),
    ("gap_penalty", "-10"),
    ("max_number", "1"),
    ("direction", "'both'"),
    ("score_only", "False"),
    ("max_table_size", "None")] ∧
    Gen.C09.signature_align_local_ungapped =
    [("seq1", ""),
    ("seq2", ""),
    ("matrix", ""),
    ("seed", ""),
    ("threshold", ""),
    ("direction", "'both'"),
    ("score_only", "False"),
    ("check_matrix", "True")] := by
  decide

/-! ## Non-vacuity -/

set_option maxRecDepth 20000

example : checkResult [0, 1, 0] [1, 1] (Mat.ofRows [[1, -1], [-1, 1]]) (.lin (-1)) .semi (some (5, -5)) none .both
    [(1, 0), (-1, 1)] 0 = true := by decide
example : checkResult [0, 1, 1, 0] [0, 1, 0, 0] (Mat.ofRows [[1, -1], [-1, 1]]) (.lin (-2)) .local none (some (1, 1)) .upstream
    [(0, 0), (1, 1)] 2 = true := by decide
-- wrong direction, seed missing, outside the band, dishonest score: rejected
example : checkResult [0, 1, 1, 0] [0, 1, 0, 0] (Mat.ofRows [[1, -1], [-1, 1]]) (.lin (-2)) .local none (some (0, 0)) .upstream
    [(0, 0), (1, 1)] 2 = false := by decide
example : checkResult [0, 1, 1, 0] [0, 1, 0, 0] (Mat.ofRows [[1, -1], [-1, 1]]) (.lin (-2)) .local none (some (2, 2)) .both
    [(0, 0), (1, 1)] 2 = false := by decide
example : checkResult [0, 1, 0] [1, 1] (Mat.ofRows [[1, -1], [-1, 1]]) (.lin (-1)) .semi (some (0, 5)) none .both
    [(1, 0), (-1, 1)] 0 = false := by decide
example : checkResult [0, 1, 0] [1, 1] (Mat.ofRows [[1, -1], [-1, 1]]) (.lin (-1)) .semi (some (5, -5)) none .both
    [(1, 0), (-1, 1)] 1 = false := by decide
example : bandedScoreSetup false (-1) ⟨[0, 1], [1, 1, 0], Mat.ofRows [[1, -1], [-1, 1]], -1, 2, false⟩ = 1 ∧
    optSemi (Mat.ofRows [[1, -1], [-1, 1]]) (-1) [0, 1] [1, 1, 0] = 1 := by decide
example : complete [0, 1, 0] [1, 1] [.both 1 0, .gapA 1] = [.gapB 0, .both 1 0, .gapA 1, .gapB 2] := by decide
example : xdropExtend 2 [1, -1, -1, 5] = (5 - 1 - 1 + 1, 4) := by decide
example : xdropExtend 1 [1, -1, -1, 5] = (1, 1) := by decide
example : negSum [1, -1, -1, 5] = 2 ∧ bestPrefix [1, -1, -1, 5] = 4 := by decide
example : regionLin false (Mat.ofRows [[1, -1], [-1, 1]]) (-2) 3 [0] [0] none 100 1 2 = .ok 1 := by decide
-- the hypothesis of `C09_xdrop_gapped` is satisfiable (through the explicit slack bound), and the model then returns
-- the best prefix-pair optimum (2 = both symbols paired)
example : NoBind (fun _ _ => 1) (-1) 8 1 [0, 1] [0, 1] (gapRun 1 4) :=
  C09_xdrop_gapped_slack _ _ _ 1 (by decide) _ _ 1 (fun _ _ => ⟨by decide, by decide⟩) (by decide) (by decide) (by decide)
example : regionLin false (fun _ _ => 1) (-1) 8 [0, 1] [0, 1] none 100 1 2 = .ok 2 := by decide
-- the hypothesis of `C09_xdrop_gapped_aff` is satisfiable, and the model then returns the best match-state value
example : NoBindA (fun _ _ => 1) (-2) (-1) 10 1 [0] [0] 1 := by
  refine ⟨by decide, by decide, by decide, ?_⟩
  intro i j hi hj w hw
  have hi' : i = 0 ∨ i = 1 := by simp at hi; omega
  have hj' : j = 0 ∨ j = 1 := by simp at hj; omega
  have e00 : Wv (fun _ _ => 1) (-2) (-1) [0] [0] 0 0 = ⟨some 0, none, none⟩ := by decide
  have e01 : Wv (fun _ _ => 1) (-2) (-1) [0] [0] 0 1 = ⟨none, some (-2), none⟩ := by decide
  have e10 : Wv (fun _ _ => 1) (-2) (-1) [0] [0] 1 0 = ⟨none, none, some (-2)⟩ := by decide
  have e11 : Wv (fun _ _ => 1) (-2) (-1) [0] [0] 1 1 = ⟨some 1, none, none⟩ := by decide
  rcases hi' with rfl | rfl <;> rcases hj' with rfl | rfl
  · rw [e00] at hw; simp at hw; omega
  · rw [e01] at hw; simp at hw; omega
  · rw [e10] at hw; simp at hw; omega
  · rw [e11] at hw; simp at hw; omega
example : regionAff false (fun _ _ => 1) (-2) (-1) 10 [0] [0] none 100 1 2 = .ok 1 := by decide
example : traceLin 3 3 1 = (3, 3) ∧ traceLin 0 2 2 = (6, 2) := by decide

end BiotiteModel.C09

import BiotiteModel.Proofs.C05
import BiotiteModel.Proofs.C05Ext
import BiotiteModel.Proofs.C05Float
import BiotiteModel.Proofs.C05Ser
import BiotiteModel.Proofs.C05Cont
import BiotiteModel.Gen.C05
/-!
# C05 — property theorems (BinaryCIF encodings are invertible)

Only property statements and their non-vacuity examples live here; helper lemmas are in
`Proofs/C05.lean`.  Every theorem quantifies over *all* arrays (no size bound).
-/
namespace BiotiteModel.C05

/-- `_safe_cast` accepts exactly the arrays whose every value fits the target type, and then
returns them unchanged; otherwise it raises `ValueError`. -/
theorem C05_safe_cast (src dst : DType) (xs : List Int) (h : src ≠ dst) :
    (safeCast src dst xs = .ok xs ↔ ∀ x ∈ xs, dst.inRange x) ∧
    (safeCast src dst xs = .error .valueError ↔ ¬ ∀ x ∈ xs, dst.inRange x) := by
  unfold safeCast
  simp only [h, if_false]
  by_cases hall : xs.all (fun x => decide (dst.inRange x)) = true
  · have hx : ∀ x ∈ xs, dst.inRange x := by simpa using hall
    simp [hall]
    exact hx
  · have hx : ¬ ∀ x ∈ xs, dst.inRange x := by simpa using hall
    simp [hall]
    simpa using hx

/-- Run-length encoding round-trips every non-empty array whose values fit the stored type,
for all six integer types and int64 input (stored as int32). -/
theorem C05_rle (t : DType) (xs : List Int) (hne : xs ≠ [])
    (hr : ∀ x ∈ xs, t.supported.inRange x) :
    ∃ e, rleEncode t none xs = .ok e ∧
         rleDecode t.supported (some xs.length) e = some (.ok xs) ∧
         rleDecode t.supported none e = some (.ok xs) := by
  have hcast : safeCast t t.supported xs = .ok xs := by
    unfold safeCast; split
    · rfl
    · have : xs.all (fun x => decide (t.supported.inRange x)) = true := by simpa using hr
      simp [this]
  cases xs with
  | nil => exact absurd rfl hne
  | cons y ys =>
    refine ⟨rleLoop (wrap .i32 y) 0 (y :: ys), ?_, ?_, ?_⟩
    · simp [rleEncode, rleEncode.go, hcast, bind, Except.bind]
    all_goals
      have hexp := rleExpand_loop t.supported (wrap .i32 y) 0 (y :: ys)
      have hmap : (y :: ys).map (fun x => wrap t.supported (wrap .i32 (wrap .i32 x))) = y :: ys := by
        refine map_eq_self _ _ fun x hx => ?_
        rw [wrap_idem, wrap_wrap32 _ (supported_ne_i64 t), wrap_of_inRange _ _ (hr x hx)]
      simp only [List.replicate, List.nil_append, hmap] at hexp
      simp [rleDecode, rleLoop_even, rleLoop_noNeg, hexp]

/-- A malformed run-length stream (odd length) is rejected. -/
theorem C05_rle_rejects_odd (t : DType) (n : Option Nat) (data : List Int) (h : data.length % 2 = 1) :
    rleDecode t n data = some (.error .valueError) := by
  simp [rleDecode, h]

/-- Empty input is rejected by the encoder (the code reads `data[0]`). -/
theorem C05_rle_empty (t : DType) : rleEncode t none [] = .error .indexError := by
  cases t <;> rfl

/-- Delta encoding round-trips every non-empty array of every ≤32-bit integer type, although
all intermediate arithmetic wraps (differences computed in the source type, stored as int32,
summed in the source type). -/
theorem C05_delta_wrap (t : DType) (ht : t ≠ .i64) (xs : List Int) (hne : xs ≠ [])
    (hr : ∀ x ∈ xs, t.inRange x) :
    ∃ o ds, deltaEncode t xs = .ok (o, ds) ∧ deltaDecode t o ds = xs := by
  cases xs with
  | nil => exact absurd rfl hne
  | cons o ys =>
    refine ⟨o, _, rfl, ?_⟩
    have hsup : t.supported = t := by cases t <;> first | rfl | exact absurd rfl ht
    unfold deltaDecode
    rw [hsup, cumsum_diffs t ht 0 _ ?_ ?_]
    · rw [List.map_map]
      refine map_eq_self _ _ fun x hx => ?_
      show wrap t (wrap t (x - o) + o) = x
      rw [Int.add_comm, wrap_add_wrap]
      have : o + (x - o) = x := by omega
      rw [this]; exact wrap_of_inRange t x (hr x hx)
    · cases t <;> simp [DType.inRange, DType.lo, DType.hi, DType.signed, DType.bits]
    · intro y hy
      simp only [List.mem_map] at hy
      obtain ⟨x, _, rfl⟩ := hy
      exact wrap_inRange t _

/-- The same for a *given* origin — any in-range value, not only the first element (an explicit `origin=`, an encoding
read from a file and kept while the data are renumbered, an encoding object used a second time) — and any array,
the empty one included. -/
theorem C05_delta_explicit_origin (t : DType) (ht : t ≠ .i64) (o : Int) (xs : List Int)
    (hr : ∀ x ∈ xs, t.inRange x) :
    deltaDecode t o (deltaEncodeWith t o xs) = xs := by
  have hsup : t.supported = t := by cases t <;> first | rfl | exact absurd rfl ht
  unfold deltaDecode deltaEncodeWith
  rw [hsup, cumsum_diffs t ht 0 _ ?_ ?_]
  · rw [List.map_map]
    refine map_eq_self _ _ fun x hx => ?_
    show wrap t (wrap t (x - o) + o) = x
    rw [Int.add_comm, wrap_add_wrap]
    have : o + (x - o) = x := by omega
    rw [this]; exact wrap_of_inRange t x (hr x hx)
  · cases t <;> simp [DType.inRange, DType.lo, DType.hi, DType.signed, DType.bits]
  · intro y hy
    simp only [List.mem_map] at hy
    obtain ⟨x, _, rfl⟩ := hy
    exact wrap_inRange t _

example : deltaEncodeWith .u8 200 [250, 3, 255] = [50, 9, -4] ∧ deltaDecode .u8 200 [50, 9, -4] = [250, 3, 255] := by decide

/-- **Defect (negation of the full-strength statement for int64 input).**  `DeltaEncoding`
performs no range check: an int64 array whose differences exceed int32 is silently altered. -/
theorem C05_delta_int64_defect :
    ∃ o ds, deltaEncode .i64 [0, 2 ^ 40, 5] = .ok (o, ds) ∧ deltaDecode .i64 o ds = [0, 0, 5] := by
  refine ⟨0, _, rfl, ?_⟩
  decide

/-- Integer packing round-trips every int32 array into 1- or 2-byte signed or unsigned words
(unsigned only for non-negative data). -/
theorem C05_packing (bc : Nat) (hbc : bc = 1 ∨ bc = 2) (u : Bool) (xs : List Int)
    (hr : ∀ x ∈ xs, DType.i32.inRange x) (hu : u = true → ∀ x ∈ xs, 0 ≤ x) :
    ∃ pt e, packedType bc u = .ok pt ∧ packEncode bc (some u) xs = some (.ok e) ∧
            packDecode pt xs.length e = .ok xs := by
  have hpt : ∃ pt, packedType bc u = .ok pt ∧ 0 < pt.hi ∧ (pt.hi.toNat : Int) = pt.hi ∧
      (u = false → pt.lo < 0 ∧ -(pt.lo.natAbs : Int) = pt.lo ∧ 0 < pt.lo.natAbs) ∧ (u = true → pt.lo = 0) := by
    rcases hbc with rfl | rfl <;> cases u <;>
      simp [packedType, DType.hi, DType.lo, DType.signed, DType.bits] <;> decide
  obtain ⟨pt, hpt, hhi, hhiN, hs, hun⟩ := hpt
  refine ⟨pt, ?_⟩
  -- the decoder's lower sentinel
  let lo : Int := if pt.lo = 0 then -1 else pt.lo
  have hlo : lo < 0 := by
    show (if pt.lo = 0 then (-1 : Int) else pt.lo) < 0
    cases u
    · have := (hs rfl).1; split <;> omega
    · simp [hun rfl]
  -- generalised statement over the tail of the stream
  have key : ∀ ys : List Int, (∀ x ∈ ys, DType.i32.inRange x) → (u = true → ∀ x ∈ ys, 0 ≤ x) →
      ∃ e, packAll pt ys = .ok e ∧ unpackLoop lo pt.hi 0 e = ys := by
    intro ys
    induction ys with
    | nil => intro _ _; exact ⟨[], rfl, rfl⟩
    | cons y ys ih =>
      intro hr' hu'
      obtain ⟨e, he, hdec⟩ := ih (fun x hx => hr' x (by simp [hx])) (fun h x hx => hu' h x (by simp [hx]))
      by_cases hneg : y < 0
      · -- negative: only possible for signed packing
        have hu0 : u = false := by
          cases u
          · rfl
          · have := hu' rfl y (by simp); omega
        obtain ⟨hl, hlabs, hlpos⟩ := hs hu0
        have hlo' : lo = -(pt.lo.natAbs : Int) := by
          show (if pt.lo = 0 then (-1 : Int) else pt.lo) = _
          rw [hlabs]; split <;> omega
        refine ⟨packNeg pt.lo.natAbs y.natAbs y.natAbs ++ e, ?_, ?_⟩
        · have : pt.lo ≠ 0 := by omega
          simp [packAll, packOne, hneg, this, he, bind, Except.bind, pure, Except.pure]
        · have hp := unpack_packNeg pt.hi pt.lo.natAbs hlpos hhi y.natAbs y.natAbs (Nat.le_refl _) 0 e
          rw [← hlo'] at hp
          rw [hp, hdec]
          congr 1; omega
      · by_cases hpos : y > 0
        · refine ⟨packPos pt.hi.toNat y.toNat y.toNat ++ e, ?_, ?_⟩
          · simp [packAll, packOne, hneg, hpos, he, bind, Except.bind, pure, Except.pure]
          · have hp := unpack_packPos lo pt.hi.toNat (by omega) hlo y.toNat y.toNat (Nat.le_refl _) 0 e
            rw [hhiN] at hp
            rw [hp, hdec]
            congr 1; omega
        · have hy0 : y = 0 := by omega
          subst hy0
          refine ⟨[0] ++ e, ?_, ?_⟩
          · simp [packAll, packOne, he, bind, Except.bind, pure, Except.pure]
          · have h1 : ¬ ((0 : Int) = pt.hi ∨ (0 : Int) = lo) := by omega
            simp only [List.cons_append, List.nil_append, unpackLoop, h1, if_false, hdec]
            rfl
  obtain ⟨e, he, hdec⟩ := key xs hr hu
  refine ⟨e, hpt, ?_, ?_⟩
  · have hall : xs.all (fun x => decide (DType.i32.inRange x)) = true := by simpa using hr
    cases xs <;> simp [packEncode, hall, hpt, he, bind, Except.bind]
  · show (let out := unpackLoop lo pt.hi 0 e
          if out.length > xs.length then Except.error Err.indexError
          else Except.ok (out ++ List.replicate (xs.length - out.length) 0)) = _
    simp [hdec]

/-- Negative values are refused by unsigned packing instead of being altered. -/
theorem C05_packing_rejects_negative (bc : Nat) (hbc : bc = 1 ∨ bc = 2) (x : Int) (hx : x < 0)
    (hr : DType.i32.inRange x) :
    packEncode bc (some true) [x] = some (.error .valueError) := by
  have hall : [x].all (fun x => decide (DType.i32.inRange x)) = true := by simpa using hr
  rcases hbc with rfl | rfl <;>
    simp [packEncode, hall, packedType, packAll, packOne, hx, DType.lo, DType.signed, bind, Except.bind]

/-- On int32-range data the wide path is the ordinary one … -/
theorem C05_packing_wide_agrees (bc : Nat) (u : Option Bool) (xs : List Int)
    (hr : ∀ x ∈ xs, DType.i32.inRange x) :
    packEncode bc u xs = some (packEncodeWide bc u xs) := by
  have hall : xs.all (fun x => decide (DType.i32.inRange x)) = true := by simpa using hr
  have hmap : xs.map (wrap .i32) = xs := map_eq_self _ _ fun x hx => wrap_of_inRange .i32 x (hr x hx)
  unfold packEncode packEncodeWide
  simp only [hall, not_true_eq_false, if_false, hmap]
  cases xs <;> cases u <;> rfl

/-- **Defect (the full-strength statement is false for wider input types).** `IntegerPackingEncoding.encode` casts with
`astype(int32)` instead of `_safe_cast`: a uint64/int64 value beyond 32 bits is silently reduced modulo 2³², and with
`is_unsigned=False` a uint32 value above int32 comes back negative. (With the sign detected automatically, values in
[2³¹, 2³²) are *refused* — the wrapped negative value meets the unsigned packing — which is what the property asks.) -/
theorem C05_packing_wide_defect :
    (∃ e, packEncodeWide 1 none [300, 2 ^ 32 + 5] = .ok e ∧ packDecode .u8 2 e = .ok [300, 5]) ∧
    (∃ e, packEncodeWide 2 (some false) [4294967293] = .ok e ∧ packDecode .i16 1 e = .ok [-3]) ∧
    packEncodeWide 1 none [4294967293] = .error .valueError := by
  refine ⟨⟨_, rfl, ?_⟩, ⟨_, rfl, ?_⟩, ?_⟩ <;> decide +kernel

/-! ## Floating point data (exact rational model) -/

/-- Fixed-point encoding is within half a fixed-point step (`1/(2·factor)`) of the original
whenever the scaled value fits the int32 it is stored in — the guard `compress()` applies. -/
theorem C05_fixed (f x : Rat) (hf : 0 < f) (hfit : fitsFixed f x = true) :
    ∃ k, fixedEncode f x = some k ∧
    -(1/2 : Rat) ≤ (fixedDecode f k - x) * f ∧ (fixedDecode f k - x) * f ≤ 1/2 := by
  refine ⟨fixedRound f x, ?_, fixed_err f x hf⟩
  simp [fixedEncode, fixedRound_inRange f x hfit]

/-- **Defect of the bare encoding (`encoding.pyx`, known finding).**  Without the guard a value
whose scaled magnitude exceeds int32 has no representation; the real code stores `INT_MIN`
silently instead of raising. -/
theorem C05_fixed_overflow_defect : fixedEncode 10 300000000 = none := by
  decide +kernel

/-- **compress() on a float column stays within the relative tolerance** (exact arithmetic):
whenever `_get_decimal_places` returns `d`, every non-zero value `x` of the column (i) fits the
int32 fixed-point representation with factor `10^d` (so `FixedPointEncoding` stores the exact
rounded integer) and (ii) decodes to a value within `tol·|x|` of `x`; and `d ≤ 18`, so the factor `10^d` that is
written into the file fits a 64-bit integer (the msgpack layer cannot write a larger one: a column containing `1e-40` made
`BinaryCIFFile.write` fail before fix 575ec004).  When it returns `None` the column is stored as plain bytes (lossless,
`C05_bytes`). -/
theorem C05_compress_float_tolerance (fuel : Nat) (d0 d : Int) (xs : List Rat) (tol : Rat)
    (h : decimalsFrom fuel d0 xs tol = some d) :
    d ≤ 18 ∧ ∀ x ∈ xs, ∃ k, fixedEncode (pow10 d) x = some k ∧
      absQ (fixedDecode (pow10 d) k - x) < tol * absQ x := by
  obtain ⟨h18, hmax, hall⟩ := decimalsFrom_sound fuel d0 xs tol d h
  refine ⟨h18, ?_⟩
  intro x hx
  have hp := pow10_pos d
  have hle := le_maxAbs xs x hx
  have hb := absQ_bounds x
  have hfit : fitsFixed (pow10 d) x = true := by
    simp only [fitsFixed, decide_eq_true_eq]
    have h1 : absQ x * pow10 d ≤ maxAbs xs * pow10 d := by nlinarith
    constructor
    · nlinarith [hb.1]
    · nlinarith [hb.2]
  refine ⟨fixedRound (pow10 d) x, ?_, ?_⟩
  · simp [fixedEncode, fixedRound_inRange _ _ hfit]
  · rw [fixedDecode_round]; exact hall x hx

/-- Interval quantisation maps every value of `[min, max]` to the next grid point at or above
it: the decoded value is at most one step above the original (`searchsorted(side="left")`). -/
theorem C05_interval (mn mx x : Rat) (n : Nat) (hn : 2 ≤ n) (hlt : mn < mx) (hx1 : mn ≤ x) (hx2 : x ≤ mx) :
    0 ≤ intervalDecode mn mx n (intervalEncode mn mx n x) - x ∧
    intervalDecode mn mx n (intervalEncode mn mx n x) - x < (mx - mn) / ((n : Rat) - 1) :=
  interval_err mn mx x n hn hlt hx1 hx2

/-- **Defect (the hypotheses `min ≤ x ≤ max` of `C05_interval` are needed, and the code does not check them).** A value above
the interval is given index `num_steps` and decodes to `max + step`, one below decodes to `min`: silently altered, not
refused. (NaN and ±inf take the same two paths in the real code.) -/
theorem C05_interval_outside_defect :
    intervalDecode 10 20 21 (intervalEncode 10 20 21 25) = 41 / 2 ∧
    intervalDecode 10 20 21 (intervalEncode 10 20 21 5) = 10 := by decide +kernel

/-! ## Strings and bytes -/

/-- String-array encoding (first-occurrence dictionary + indices) is lossless for every list
of strings. -/
theorem C05_string (ss : List String) :
    stringDecode (stringEncode ss).1 (stringEncode ss).2 = .ok ss := by
  unfold stringEncode
  exact stringDecode_map _ _ (fun s hs => (mem_firstOcc s ss).mpr hs)

/-- The same with a *given* string table (explicit `strings=`, a table read from a file, an encoding object reused for a
second column): whatever the table, an accepted array decodes to itself … -/
theorem C05_string_table (tbl ss : List String) (idx : List Nat)
    (h : stringEncodeWith tbl ss = .ok idx) : stringDecode tbl idx = .ok ss := by
  unfold stringEncodeWith at h
  split at h
  · cases h
  · split at h
    · rename_i hall
      cases h
      exact stringDecode_map _ _ (fun s hs => by
        have := (List.all_eq_true.mp hall) s hs
        simpa using this)
    · cases h

/-- … and an array containing a string the table lacks is rejected, never encoded as some other string. -/
theorem C05_string_table_rejects (tbl ss : List String) (s : String) (hs : s ∈ ss) (hn : s ∉ tbl) :
    ∃ e, stringEncodeWith tbl ss = .error e := by
  unfold stringEncodeWith
  split
  · exact ⟨_, rfl⟩
  · split
    · rename_i hall
      have := (List.all_eq_true.mp hall) s hs
      exact absurd (by simpa using this) hn
    · exact ⟨_, rfl⟩

example : stringEncodeWith ["ALA", "GLY", "SER", "TRP"] ["ALA", "CYS", "SER"] = .error .valueError := by decide
example : stringEncodeWith ["ALA", "GLY"] ["ALA", "ZN"] = .error .indexError := by decide
example : stringEncodeWith ["b", "", "a"] ["a", "", "a", "b"] = .ok [2, 1, 2, 0] := by decide

/-- Byte-array encoding (little endian two's complement) is lossless for every in-range array
of every integer type. -/
theorem C05_bytes (t : DType) (xs : List Int) (h : ∀ x ∈ xs, t.inRange x) :
    bytesDecode t (bytesEncode t xs) = .ok xs := by
  unfold bytesDecode
  have hl := bytesEncode_length t xs
  have hmod : (bytesEncode t xs).length % (t.bits / 8) = 0 := by rw [hl]; exact Nat.mul_mod_left _ _
  simp only [hmod, ne_eq, not_true_eq_false, if_false]
  rw [bytesDecode_go t xs h _ ?_]
  rw [hl]
  exact Nat.le_mul_of_pos_right _ (bits_div_pos t)

/-- `_to_smallest_integer_type`: whatever type is chosen holds every value of the array (so the
`astype` that follows is lossless), and it is one of the eight numpy integer types with its true
range. -/
theorem C05_smallest_type_fits (xs : List Int) (c : String × Int × Int) (h : toSmallest xs = some c) :
    (∀ x ∈ xs, c.2.1 ≤ x ∧ x ≤ c.2.2) ∧ c ∈ unsignedCands ++ signedCands := by
  unfold toSmallest at h
  split at h
  · cases h
  · have hf := List.find?_some h
    have hm := List.mem_of_find?_eq_some h
    refine ⟨by simpa [fitsCand] using hf, ?_⟩
    simp only [List.mem_append] at hm ⊢
    rcases hm with hm | hm
    · split at hm
      · exact Or.inl hm
      · cases hm
    · exact Or.inr hm

example : toSmallest [-1, 0, 128] = some ("i16", -32768, 32767) := by decide
example : toSmallest [0, 255] = some ("u8", 0, 255) := by decide

/-! ## Chains -/

theorem delta_sound (t : DType) (ht : t ≠ .i64) (xs : List Int) (hr : ∀ x ∈ xs, t.inRange x)
    (o : Int) (ds : List Int) (h : deltaEncode t xs = .ok (o, ds)) :
    deltaDecode t o ds = xs ∧ ∀ d ∈ ds, DType.i32.inRange d := by
  have hne : xs ≠ [] := by intro h0; subst h0; simp [deltaEncode] at h
  obtain ⟨o', ds', he, hd⟩ := C05_delta_wrap t ht xs hne hr
  rw [he] at h
  injection h with h; injection h with h1 h2; subst h1; subst h2
  refine ⟨hd, ?_⟩
  cases xs with
  | nil => exact absurd rfl hne
  | cons a l =>
    simp only [deltaEncode] at he
    injection he with he; injection he with _ he2
    rw [← he2]
    intro d hd'
    -- every element of diffsW is a wrap into int32
    have : ∀ (prev : Int) (ys : List Int), ∀ d ∈ diffsW t prev ys, DType.i32.inRange d := by
      intro prev ys
      induction ys generalizing prev with
      | nil => intro d hd; simp [diffsW] at hd
      | cons y ys ih =>
        intro d hd
        simp only [diffsW, List.mem_cons] at hd
        rcases hd with rfl | hd
        · exact wrap_inRange _ _
        · exact ih _ _ hd
    exact this _ _ d hd'

theorem rle_sound (t1 : DType) (s1 : List Int) (hr : ∀ x ∈ s1, t1.supported.inRange x)
    (e : List Int) (h : rleEncode t1 none s1 = .ok e) :
    rleDecode t1.supported (some s1.length) e = some (.ok s1) := by
  have hne : s1 ≠ [] := by
    intro h0; subst h0
    have := C05_rle_empty t1
    rw [this] at h; cases h
  obtain ⟨e', he, hd, _⟩ := C05_rle t1 s1 hne hr
  rw [he] at h; injection h with h; subst h; exact hd

theorem pack_sound (bc : Nat) (s2 : List Int) (e : List Int) (pt : DType)
    (h : packEncode bc (some (s2.all (fun x => decide (0 ≤ x)))) s2 = some (.ok e))
    (hpt : packedType bc (s2.all (fun x => decide (0 ≤ x))) = .ok pt) :
    packDecode pt s2.length e = .ok s2 := by
  have hbc : bc = 1 ∨ bc = 2 := by
    unfold packedType at hpt
    split at hpt <;> first | (left; rfl) | (right; rfl) | cases hpt
  have hr : ∀ x ∈ s2, DType.i32.inRange x := by
    by_contra hcon
    have : ¬ (s2.all (fun x => decide (DType.i32.inRange x)) = true) := by simpa using hcon
    simp [packEncode, this] at h
  have hu : (s2.all (fun x => decide (0 ≤ x))) = true → ∀ x ∈ s2, 0 ≤ x := by
    intro hall; simpa using hall
  obtain ⟨pt', e', hpt', he', hd⟩ := C05_packing bc hbc _ s2 hr hu
  rw [hpt'] at hpt; injection hpt with hpt; subst hpt
  rw [he'] at h; injection h with h; injection h with h; subst h
  exact hd

theorem packStage_sound (p : Option Nat) (s2 : List Int) (pt : Option DType) (e : List Int)
    (h : packStage p s2 = some (pt, e)) : unpackStage pt s2.length e = some s2 := by
  unfold packStage at h
  split at h
  · injection h with h; injection h with h1 h2; subst h1; subst h2; rfl
  · simp only at h
    split at h
    · cases h
    split at h
    · rename_i e' pt' hpe hpt
      injection h with h; injection h with h1 h2; subst h1; subst h2
      simp [unpackStage, pack_sound _ s2 e' pt' hpe hpt]
    · cases h

theorem rleStage_sound (on : Bool) (t1 : DType) (s1 s2 : List Int)
    (hr : ∀ x ∈ s1, t1.supported.inRange x) (h : rleStage on t1 s1 = some s2) :
    unrleStage on t1 s1.length s2 = some s1 := by
  unfold rleStage at h
  cases on with
  | false => simp at h; subst h; simp [unrleStage]
  | true =>
    simp only [if_true] at h
    split at h
    · rename_i e he
      injection h with h; subst h
      simp [unrleStage, rle_sound t1 s1 hr _ he]
    · cases h

/-- **Every** chain `compress()` can choose for an integer column — `{delta?} × {run-length?} ×
{packing: none, 1 byte, 2 bytes}` followed by the byte array — decodes to the original array,
for all six integer types and all in-range arrays.  The size-based choice among the candidates
is deliberately not modelled (so the theorem survives any change of the heuristic). -/
theorem C05_compress_candidates_sound (c : Chain)
    (t : DType) (ht : t ≠ .i64) (xs : List Int) (hr : ∀ x ∈ xs, t.inRange x)
    (e : Encoded) (h : chainEncode c t xs = some e) : chainDecode c e = some xs := by
  have hsup : t.supported = t := by cases t <;> first | rfl | exact absurd rfl ht
  obtain ⟨d, r, p⟩ := c
  simp only [chainEncode] at h
  split at h
  · cases h
  · rename_i origin s1 t1 hd
    split at h
    · cases h
    · rename_i s2 hrl
      split at h
      · cases h
      · rename_i pt e' hpk
        injection h with h; subst h
        have hps := packStage_sound p s2 pt e' hpk
        -- facts from the delta stage
        have hfacts : (∀ x ∈ s1, t1.supported.inRange x) ∧ t1 = (if d then DType.i32 else t) ∧
            (if d then deltaDecode t origin s1 = xs else s1 = xs) := by
          unfold deltaStage at hd
          cases d with
          | false =>
            simp at hd
            obtain ⟨_, h2, h3⟩ := hd
            subst h2; subst h3
            simp [hsup]; exact hr
          | true =>
            simp only [if_true] at hd
            split at hd
            · rename_i o ds hde
              injection hd with hd; injection hd with h1 hd; injection hd with h2 h3
              subst h1; subst h2; subst h3
              obtain ⟨hdd, hdr⟩ := delta_sound t ht xs hr _ _ hde
              exact ⟨hdr, by simp, by simpa using hdd⟩
            · cases hd
        obtain ⟨hr1, ht1, hdec⟩ := hfacts
        have hrs := rleStage_sound r t1 s1 s2 hr1 hrl
        simp only [chainDecode, hps]
        rw [← ht1, hrs]
        cases d <;> simp_all

/-! ## Obligations on the tables regenerated from `encoding.pyx` on every run -/

/-- numpy dtype string of a model dtype, little endian as the format prescribes. -/
def dtypeString : DType → String
  | .i8 => "|i1" | .i16 => "<i2" | .i32 => "<i4" | .u8 => "|u1" | .u16 => "<u2" | .u32 => "<u4" | .i64 => "<i8"

def typeCodeName : DType → String
  | .i8 => "INT8" | .i16 => "INT16" | .i32 => "INT32" | .u8 => "UINT8" | .u16 => "UINT16" | .u32 => "UINT32" | .i64 => "INT64"

/-- The `TypeCode` enum and `_TYPE_CODE_TO_DTYPE` of the *current* source: codes and dtype
strings are pairwise distinct (so `from_dtype`/`to_dtype` are mutually inverse), both tables
have the same members, and each integer member denotes the width/signedness the model
assigns to it. -/
theorem C05_gen_typecodes :
    (Gen.C05.typeCodes.map (·.2)).Nodup ∧ (Gen.C05.typeCodes.map (·.1)).Nodup ∧
    (Gen.C05.typeCodeToDtype.map (·.2)).Nodup ∧
    Gen.C05.typeCodeToDtype.map (·.1) = Gen.C05.typeCodes.map (·.1) ∧
    ∀ t ∈ [DType.i8, .i16, .i32, .u8, .u16, .u32],
      Gen.C05.typeCodeToDtype.lookup (typeCodeName t) = some (dtypeString t) := by
  decide

/-- The candidate space regenerated from `compress.py` (Python `ast`) is exactly the one the theorems above cover:
`_find_best_integer_compression` tries {delta?} × {run-length?} × {no packing, 1 byte, 2 bytes} and extends a chain in the
order Delta → RunLength → IntegerPacking → ByteArray (the order `chainEncode`/`chainDecode` assume: every enumerated chain
is a `Chain` for which `C05_compress_candidates_sound` holds); `_to_smallest_integer_type` walks the two ladders
`toSmallest` walks; `_get_decimal_places` gives up beyond the 18 decimals `decimalsFrom` gives up at; arrays of exactly one
value take the uncompressed path. A candidate added, a stage reordered or a bound moved breaks this obligation. -/
theorem C05_gen_compress_tables :
    Gen.C05.deltaDomain = [false, true] ∧ Gen.C05.rleDomain = [false, true] ∧
    Gen.C05.packDomain = [none, some 1, some 2] ∧
    Gen.C05.stageOrder = ["DeltaEncoding", "RunLengthEncoding", "IntegerPackingEncoding", "ByteArrayEncoding"] ∧
    Gen.C05.chainExtends = [("v0", "v1"), ("v2", "v0"), ("v3", "v2")] ∧
    Gen.C05.unsignedLadder = unsignedCands.map (·.1) ∧ Gen.C05.signedLadder = signedCands.map (·.1) ∧
    Gen.C05.maxDecimals = 18 ∧ Gen.C05.singleValueLength = 1 := by
  decide

/-- numpy dtype name of a model dtype -/
def npName : DType → String
  | .i8 => "int8" | .i16 => "int16" | .i32 => "int32" | .u8 => "uint8" | .u16 => "uint16" | .u32 => "uint32" | .i64 => "int64"

def packedName (bc : Nat) (u : Bool) : Option String :=
  match packedType bc u with
  | .ok pt => some (npName pt)
  | .error _ => none

/-- More facts of the current source that the hand-written model relies on: `TypeCode.from_dtype` substitutes exactly the
dtypes `DType.supported` substitutes (int64 → int32, and uint64 / float16 / float128 → their 32- or 64-bit relatives);
`_determine_packed_dtype` is `packedType`; an array gets `StringArrayEncoding` by default iff it is a string array; only the
public `compress` has a default tolerance (1e-6) — every internal level must be handed the caller's value; every
component class reads in `deserialize` exactly the keys its `serialize` writes; and `BinaryCIFBlock` strips the underscore
it adds (counted occurrences of either). -/
theorem C05_gen_source_facts :
    Gen.C05.dtypeSubstitutions = [("int64", "int32"), ("uint64", "uint32"), ("float16", "float32"), ("float128", "float64")] ∧
    (∀ t ∈ [DType.i8, .i16, .i32, .u8, .u16, .u32, .i64],
      (Gen.C05.dtypeSubstitutions.lookup (npName t)).getD (npName t) = npName t.supported) ∧
    (∀ bc ∈ [0, 1, 2, 3, 4], ∀ u ∈ [true, false],
      (Gen.C05.packedDtypes.lookup bc).map (fun p => if u then p.1 else p.2) = packedName bc u) ∧
    Gen.C05.packedDtypes.map (·.1) = [1, 2] ∧
    Gen.C05.uncompressedDefault = ("str_", "StringArrayEncoding", "ByteArrayEncoding") ∧
    Gen.C05.toleranceDefaults.filter (fun p => p.2.isSome) = [("compress", some "1e-06")] ∧
    (∀ cls ∈ ["BinaryCIFData", "BinaryCIFColumn", "BinaryCIFCategory", "BinaryCIFBlock", "BinaryCIFFile"],
      Gen.C05.containerKeys.lookup (cls ++ ".serialize") = Gen.C05.containerKeys.lookup (cls ++ ".deserialize") ∧
      (Gen.C05.containerKeys.lookup (cls ++ ".serialize")).isSome) ∧
    Gen.C05.containerKeys.lookup "BinaryCIFFile.write" = some ["biotite", "encoder", "version"] ∧
    Gen.C05.blockPrefixAdded = 5 ∧ Gen.C05.blockPrefixStripped = 2 := by
  decide +kernel

/-- Every chain the regenerated loops enumerate decodes to what it encoded (instance of `C05_compress_candidates_sound`). -/
theorem C05_gen_candidates_sound (d r : Bool) (p : Option Nat)
    (_hd : d ∈ Gen.C05.deltaDomain) (_hr : r ∈ Gen.C05.rleDomain) (_hp : p ∈ Gen.C05.packDomain)
    (t : DType) (ht : t ≠ .i64) (xs : List Int) (hr : ∀ x ∈ xs, t.inRange x)
    (e : Encoded) (h : chainEncode ⟨d, r, p⟩ t xs = some e) : chainDecode ⟨d, r, p⟩ e = some xs :=
  C05_compress_candidates_sound ⟨d, r, p⟩ t ht xs hr e h

/-! ## Serialised encodings read back equal -/

/-- `_camel_to_snake_case ∘ _snake_to_camel_case` is the identity on every well-formed snake-case parameter name
(non-empty words of lower-case letters and digits, later words starting with a letter), of any length. -/
theorem C05_param_names_roundtrip (ws : List (List Char)) (h : wordsOk ws = true) :
    ∃ r, snakeToCamelW ws = some r ∧ camelToSnake r = joinUnderscore ws :=
  camel_snake_words ws h

/-- …and it is *not* for the shapes the predicate excludes (so the predicate is not decoration): a word starting with a
digit, a leading underscore and a doubled underscore all read back under another name; the empty name is an `IndexError`. -/
theorem C05_param_names_illformed :
    (snakeToCamel "a_2b".toList).map camelToSnake = some "a2b".toList ∧
    (snakeToCamel "_x".toList).map camelToSnake = some "x".toList ∧
    (snakeToCamel "a__b".toList).map camelToSnake = some "a_b".toList ∧
    snakeToCamel [] = none := by decide +kernel

/-- The tables regenerated from `encoding.pyx`: every parameter name any encoding class declares is well-formed (hence
reads back under its own name), the kind table and the class table are mutually inverse, every class has a kind, and
`StringArrayEncoding.deserialize` reads only keys its `serialize` writes. -/
theorem C05_gen_encoding_tables :
    (∀ c ∈ Gen.C05.encodingParams, ∀ n ∈ c.2, wordsOk (splitUnderscore n.toList) = true ∧
        joinUnderscore (splitUnderscore n.toList) = n.toList) ∧
    (∀ ck ∈ Gen.C05.encodingKinds, Gen.C05.encodingClasses.lookup ck.2 = some ck.1) ∧
    (∀ kc ∈ Gen.C05.encodingClasses, Gen.C05.encodingKinds.lookup kc.2 = some kc.1) ∧
    Gen.C05.encodingParams.map (·.1) = Gen.C05.encodingKinds.map (·.1) ∧
    (∀ k ∈ Gen.C05.stringArrayRead, k ∈ Gen.C05.stringArrayWritten) := by
  decide +kernel

/-- Hence every encoding object of every class in the source, with any parameter values, deserialises from what
`serialize` wrote to the same class with the same values under the same names. -/
theorem C05_serialized_encoding_roundtrip {V : Type} (c : String × List String) (hc : c ∈ Gen.C05.encodingParams)
    (vals : List V) :
    (serializeEnc Gen.C05.encodingKinds c.1 (c.2.zip vals)).bind (deserializeEnc Gen.C05.encodingClasses)
      = some (c.1, c.2.zip vals) := by
  have hnames : ∀ n ∈ c.2, (camelS n).map snakeS = some n := by
    intro n hn
    obtain ⟨hw, hj⟩ := C05_gen_encoding_tables.1 c hc n hn
    obtain ⟨r, hr1, hr2⟩ := camel_snake_words _ hw
    simp only [camelS, snakeToCamel, hr1, Option.map_some, snakeS, String.toList_ofList, hr2, hj, String.ofList_toList]
  have hk : ∃ k, Gen.C05.encodingKinds.lookup c.1 = some k ∧ Gen.C05.encodingClasses.lookup k = some c.1 := by
    have : ∀ c ∈ Gen.C05.encodingParams, ∃ k, Gen.C05.encodingKinds.lookup c.1 = some k ∧
        Gen.C05.encodingClasses.lookup k = some c.1 := by decide +kernel
    exact this c hc
  obtain ⟨k, hk1, hk2⟩ := hk
  exact ser_deser _ _ _ k _ hk1 hk2 (fun p hp => hnames p.1 (List.of_mem_zip hp).1)

example : serializeEnc (V := Nat) Gen.C05.encodingKinds "RunLengthEncoding" [("src_size", 7), ("src_type", 3)]
    = some ⟨"RunLength", [("srcSize", 7), ("srcType", 3)]⟩ := by decide +kernel

/-! ## Whole files: the lazily deserialising containers behave like a plain ordered map -/

/-- Refinement, one step: whatever mixture of untouched (serialised) and touched (live) elements a file / block / category
holds, `container[k]` returns what the plain map returns (including `KeyError` and `DeserializationError`), and
`get` / `set` / `del` commute with the abstraction — in particular the caching done by an access is invisible. -/
theorem C05_container_refines {S L : Type} (c : Codec S L) (m : Cont S L) :
    (∀ k, (m.get c k).1 = Spec.get (m.abs c) k) ∧
    (∀ op, (m.step c op).abs c = (m.abs c).step op) := by
  refine ⟨fun k => ?_, fun op => ?_⟩
  · simp only [Cont.get, Spec.get, abs_find]
    cases h : Dict.find m k with
    | none => rfl
    | some e =>
      cases e with
      | live l => rfl
      | lazy s => simp only [Option.map_some, Elem.view]; cases c.de s <;> rfl
  · cases op with
    | get k =>
      simp only [Cont.step, Spec.step]
      rcases get_state c m k with h | ⟨s, l, hs, hl, h⟩
      · rw [h]
      · rw [h, abs_upd]
        exact upd_same _ _ _ (by simp [abs_find, hs, Elem.view, hl])
    | set k l => exact abs_upd c m k (Elem.live l)
    | del k =>
      simp only [Cont.step, Spec.step, Cont.del]
      cases h : Dict.find m k with
      | none => exact (del_of_find_none _ _ (by simp [abs_find, h])).symm
      | some e => exact abs_del c m k

/-- Keys stay distinct in every reachable state. -/
theorem C05_container_keys_nodup {S L : Type} (c : Codec S L) (m : Cont S L) (ops : List (Op L))
    (h : m.keys.Nodup) : (ops.foldl (Cont.step c) m).keys.Nodup := by
  induction ops generalizing m with
  | nil => exact h
  | cons op ops ih =>
    apply ih
    cases op with
    | get k =>
      simp only [Cont.step]
      rcases get_state c m k with h' | ⟨s, l, _, _, h'⟩
      · rw [h']; exact h
      · rw [h']; exact keys_nodup_upd _ _ _ h
    | set k l => exact keys_nodup_upd _ _ _ h
    | del k =>
      simp only [Cont.step, Cont.del]
      cases Dict.find m k with
      | none => exact h
      | some e => exact keys_nodup_del _ _ h

/-- Write then read: if every element type round-trips (`de (ser l) = some l` — the encoding-level theorems above, and this
theorem one level down), a container in *any* state, touched or not, reads back as the same map; elements whose bytes
were unreadable stay exactly as unreadable. -/
theorem C05_container_write_read {S L : Type} (c : Codec S L) (hc : ∀ l, c.de (c.ser l) = some l)
    (m : Cont S L) (h : m.keys.Nodup) :
    (Cont.ofContent (m.serialize c) : Cont S L).abs c = m.abs c := by
  have hk : ((m.serialize c).map (·.1)).Nodup := by simpa [Cont.serialize, Dict.keys, Function.comp_def] using h
  rw [ofContent_nodup _ hk]
  simp only [Cont.abs, Cont.serialize, List.map_map]
  apply List.map_congr_left
  intro p _
  cases hp : p.2 with
  | lazy s => simp [Elem.view, Elem.out, hp]
  | live l => simp [Elem.view, Elem.out, hp, hc]

/-- Every history: read a file, access / replace / delete elements in any order, write, read again — the result is the
plain map after the same edits. -/
theorem C05_container_history {S L : Type} (c : Codec S L) (hc : ∀ l, c.de (c.ser l) = some l)
    (content : List (String × S)) (hk : (content.map (·.1)).Nodup) (ops : List (Op L)) :
    (Cont.ofContent ((ops.foldl (Cont.step c) (Cont.ofContent content)).serialize c) : Cont S L).abs c
      = ops.foldl Spec.step (content.map fun p => (p.1, c.de p.2)) := by
  have h0 : (Cont.ofContent content : Cont S L).keys.Nodup := by
    rw [ofContent_nodup _ hk]; simpa [Dict.keys, Function.comp_def] using hk
  rw [C05_container_write_read c hc _ (C05_container_keys_nodup c _ ops h0)]
  have hfold : ∀ (ops : List (Op L)) (m : Cont S L),
      (ops.foldl (Cont.step c) m).abs c = ops.foldl Spec.step (m.abs c) := by
    intro ops; induction ops with
    | nil => intro m; rfl
    | cons op ops ih => intro m; simp only [List.foldl_cons]; rw [ih, (C05_container_refines c m).2 op]
  rw [hfold, ofContent_nodup _ hk]
  simp [Cont.abs, Elem.view, Function.comp_def]

/-- `BinaryCIFBlock` key handling: what is stored under `"_" + name` is listed as `name` again, for every name — also one
that itself begins with underscores. -/
theorem C05_block_key_roundtrip (k : String) : removePrefixUnderscore (blockKeyIn k) = k := by
  simp [removePrefixUnderscore, blockKeyIn, String.toList_append]

/-- non-vacuity: a two-element category, one element unreadable; touch, replace, delete, append -/
example :
    let c : Codec (Option Int) Int := ⟨some, id⟩
    let m : Cont (Option Int) Int := Cont.ofContent [("a", some 1), ("b", none), ("c", some 3)]
    ((m.get c "a").1 = .ok 1) ∧ ((m.get c "b").1 = .error .deserializationError) ∧ ((m.get c "z").1 = .error .keyError) ∧
    (([Op.get "a", .set "c" 9, .del "a", .set "d" 4].foldl (Cont.step c) m).serialize c
      = [("b", none), ("c", some 9), ("d", some 4)]) := by decide

/-! ## Non-vacuity (float / string / byte part) -/

example : fitsFixed 1000 (12345/1000) = true ∧ fixedEncode 1000 (12345/1000) = some 12345 := by decide +kernel
example : decimalsFrom 40 0 [12345/1000, -5/2] (1/1000000) = some 3 := by decide +kernel
example : decimalsFrom 40 (-8) [100000000, 12345678/10000000, 3] (1/1000000) = none := by decide +kernel
example : intervalEncode 0 10 11 (7/2) = 4 ∧ intervalDecode 0 10 11 4 = 4 := by decide +kernel
example : stringEncode ["b", "a", "b", ""] = (["b", "a", ""], [0, 1, 0, 2]) := by decide
example : bytesEncode .i16 [-2, 258] = [254, 255, 2, 1] := by decide

/-! ## Non-vacuity: the hypotheses are met by concrete, non-trivial arrays. -/

example : ([3, 3, 3, -7, 200, 200] : List Int) ≠ [] ∧ ∀ x ∈ ([3, 3, 3, -7, 200, 200] : List Int), DType.i16.supported.inRange x := by
  decide
example : rleEncode .i16 none [3, 3, 3, -7, 200, 200] = .ok [3, 3, -7, 1, 200, 2] := by decide
example : deltaEncode .u8 [250, 3, 255, 0] = .ok (250, [0, 9, -4, 1]) := by decide
example : deltaDecode .u8 250 [0, 9, -4, 1] = [250, 3, 255, 0] := by decide
example : packEncode 1 (some false) [300, -129, 0, 127] = some (.ok [127, 127, 46, -128, -1, 0, 127, 0]) := by decide
example : packDecode .i8 4 [127, 127, 46, -128, -1, 0, 127, 0] = .ok [300, -129, 0, 127] := by decide

end BiotiteModel.C05

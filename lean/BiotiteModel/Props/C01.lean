import BiotiteModel.Proofs.C01RefStep
import BiotiteModel.Gen.C01
import BiotiteModel.Gen.C01Skel
import BiotiteModel.Proofs.C01Expected
/-!
# C01 — property theorems (atom arrays and stacks stay coherent)

Only property statements and non-vacuity examples; helper lemmas are in `Proofs/C01*.lean`.
All theorems quantify over all containers / histories / indices (no size bound).
-/
namespace BiotiteModel.C01

/-- numpy's list semantics of one axis of length `n`, stated without the algorithm: `xs[i]` with negative
wrap, `xs[a:b:c]` as "the positions `lo, lo+c, … < hi`" (a filter of `range n`; reversed for `c < 0`), the
mask filter, element-wise wrap for index arrays, everything for `...`. -/
def IndexSpec (n : Nat) : Index → List Nat → Prop
  | .int i, l => ∃ k, l = [k] ∧ k < n ∧ ((0 ≤ i ∧ (k : Int) = i) ∨ (i < 0 ∧ (k : Int) = i + n))
  | .slice a b c, l =>
    let step := c.getD 1
    step ≠ 0 ∧
    (step > 0 → l = (List.range n).filter (fun x =>
        decide (startUp n a ≤ x ∧ x < stopUp n b ∧ (x - startUp n a) % step.toNat = 0))) ∧
    (step < 0 → l.reverse = (List.range n).filter (fun x =>
        decide (stopDown n b ≤ x ∧ x < startDown n a ∧ (startDown n a - 1 - x) % (-step).toNat = 0)))
  | .mask bs _, l => (bs = [] ∧ l = []) ∨ (bs.length = n ∧ l = (List.range n).filter (fun i => bs.getD i false))
  | .arr is _, l => l.length = is.length ∧
      ∀ p ∈ is.zip l, p.2 < n ∧ ((0 ≤ p.1 ∧ (p.2 : Int) = p.1) ∨ (p.1 < 0 ∧ (p.2 : Int) = p.1 + n))
  | .ellipsis, l => l = List.range n

/-- `resolve` (CPython's `PySlice_AdjustIndices` arithmetic, mask scan, wrap) computes exactly numpy's
list semantics, and every resolved position is in range. -/
theorem C01_resolve_sound (n : Nat) (ix : Index) (l : List Nat) (h : resolve n ix = .ok l) :
    IndexSpec n ix l ∧ ∀ k ∈ l, k < n := by
  refine ⟨?_, resolve_lt h⟩
  cases ix with
  | int i =>
    simp only [resolve] at h
    cases hn : normInt n i with
    | error e => rw [hn] at h; cases h
    | ok k => rw [hn] at h; cases h; exact ⟨k, rfl, normInt_ok hn⟩
  | slice a b c =>
    simp only [resolve] at h
    split at h
    · cases h
    · rename_i hz
      cases h
      refine ⟨hz, ?_, ?_⟩
      · intro hpos
        have hs : 0 < (c.getD 1).toNat := by omega
        unfold sliceSel; rw [if_pos hpos]
        refine eq_filter_range n _ _ (rangeUp_sorted _ _ _ hs) ?_
        intro x
        rw [mem_rangeUp hs]
        have := stopUp_le n b
        simp only [decide_eq_true_eq]
        omega
      · intro hneg
        have hs : 0 < (-(c.getD 1)).toNat := by omega
        unfold sliceSel; rw [if_neg (by omega)]
        refine eq_filter_range n _ _ ?_ ?_
        · rw [List.pairwise_reverse]; exact rangeDown_sorted hs
        · intro x
          rw [List.mem_reverse, mem_rangeDown hs]
          have := startDown_le n a
          simp only [decide_eq_true_eq]
          omega
  | mask bs kind =>
    simp only [resolve] at h
    split at h
    · rename_i he; cases h; exact Or.inl ⟨he, rfl⟩
    · split at h
      · rename_i hlen
        cases h
        refine Or.inr ⟨hlen, eq_filter_range n _ _ (maskSel_sorted bs 0) ?_⟩
        intro x
        rw [maskSel_mem]
        simp only [Nat.zero_le, Nat.sub_zero, true_and, List.getD_eq_getElem?_getD]
        rcases Nat.lt_or_ge x bs.length with hx | hx
        · simp [List.getElem?_eq_getElem hx, ← hlen, hx]
        · simp [List.getElem?_eq_none hx]
      · cases h
  | arr is nd =>
    simp only [resolve] at h
    have ⟨hl, hz⟩ := normAll_ok h
    exact ⟨hl, fun p hp => normInt_ok (hz p hp)⟩
  | ellipsis =>
    simp only [resolve] at h
    cases h; rfl

/-- An integer index is rejected (IndexError) exactly when it is outside `[-n, n)`. -/
theorem C01_resolve_int_rejects (n : Nat) (i : Int) :
    resolve n (.int i) = .error .indexError ↔ (i < -(n : Int) ∨ (n : Int) ≤ i) := by
  simp only [resolve]
  cases hn : normInt n i with
  | error e => have := normInt_err hn; simp [Except.map, this.1, this.2]
  | ok k => have := normInt_ok hn; simp [Except.map]; omega

/-- The empty register file is well formed. -/
theorem C01_wf_init : WFState init := by
  intro v hv
  simp only [init, List.mem_cons, List.not_mem_nil, or_false, or_self] at hv
  subst hv; trivial

/-- Every operation (indexing of any kind, assignment, deletion, concatenation, stacking, repetition,
templates, annotation edits, setters, copy) keeps every register well formed: all annotation columns and
every model's coordinate block have length `n`, the box has one entry per model, the bond list counts `n`
atoms and every bond joins two different atoms `i < j < n`. -/
theorem C01_wf_step (st : State) (op : Op) (h : WFState st) : WFState (step st op).1 :=
  step_wf st op h

/-- ... hence after every finite history. -/
theorem C01_wf_history (ops : List Op) : WFState (run init ops) := by
  have key : ∀ (ops : List Op) (st : State), WFState st → WFState (run st ops) := by
    intro ops
    induction ops with
    | nil => intro st h; exact h
    | cons op r ih => intro st h; exact ih _ (step_wf st op h)
  exact key ops init C01_wf_init

theorem pos_complete : ∀ {l : List Nat} {a i : Nat}, l.Nodup → l[a]? = some i → pos l i = some a
  | [], a, i, _, h => by simp at h
  | x :: xs, 0, i, _, h => by simp at h; simp [pos, h]
  | x :: xs, a + 1, i, hnd, h => by
    simp only [List.getElem?_cons_succ] at h
    have hx : x ≠ i := by
      intro e; subst e
      exact (List.nodup_cons.1 hnd).1 (List.mem_of_getElem? h)
    simp [pos, hx, pos_complete (List.nodup_cons.1 hnd).2 h]

/-- **Bonds keep connecting the same atoms.**  For every duplicate-free selection `sel` (sorted or not:
slices, masks, unsorted index arrays, deletion) the sub-container has a bond between new positions
`a ≤ c` of type `t` exactly when the original has a bond of type `t` between the atoms `sel[a]` and `sel[c]`. -/
theorem C01_bonds_same_atoms (bs : List Bond) (sel : List Nat) (hnd : sel.Nodup) (a c t : Nat) :
    (a, c, t) ∈ relabel bs sel ↔
      a ≤ c ∧ ∃ i j, (i, j, t) ∈ bs ∧
        ((sel[a]? = some i ∧ sel[c]? = some j) ∨ (sel[a]? = some j ∧ sel[c]? = some i)) := by
  unfold relabel
  rw [List.mem_filterMap]
  constructor
  · rintro ⟨⟨i, j, t'⟩, hb, hy⟩
    simp only at hy
    split at hy
    · rename_i p q hp hq
      simp only [Option.some.injEq, Prod.mk.injEq] at hy
      obtain ⟨rfl, rfl, rfl⟩ := hy
      refine ⟨by omega, i, j, hb, ?_⟩
      have h1 := pos_some hp
      have h2 := pos_some hq
      rcases Nat.le_total p q with hpq | hpq
      · left; rw [Nat.min_eq_left hpq, Nat.max_eq_right hpq]; exact ⟨h1, h2⟩
      · right; rw [Nat.min_eq_right hpq, Nat.max_eq_left hpq]; exact ⟨h2, h1⟩
    · cases hy
  · rintro ⟨hac, i, j, hb, h⟩
    refine ⟨(i, j, t), hb, ?_⟩
    rcases h with ⟨h1, h2⟩ | ⟨h1, h2⟩
    · simp [pos_complete hnd h1, pos_complete hnd h2, Nat.min_eq_left hac, Nat.max_eq_right hac]
    · simp [pos_complete hnd h1, pos_complete hnd h2, Nat.min_eq_right hac, Nat.max_eq_left hac]

/-- Concatenation keeps the bonds of the first operand and shifts those of the second by its atom count. -/
theorem C01_bonds_concat_offset (x y : Bonds) (a c t : Nat) :
    (a, c, t) ∈ (Bonds.concat [x, y]).bs ↔
      (a, c, t) ∈ x.bs ∨ ∃ i j, (i, j, t) ∈ y.bs ∧ a = i + x.count ∧ c = j + x.count := by
  simp only [Bonds.concat, offsetBonds, List.map_nil, List.append_nil, List.mem_append, List.mem_map]
  constructor
  · rintro (h | ⟨⟨i, j, t'⟩, hb, he⟩)
    · exact Or.inl h
    · simp only [Prod.mk.injEq] at he
      obtain ⟨rfl, rfl, rfl⟩ := he
      exact Or.inr ⟨i, j, hb, rfl, rfl⟩
  · rintro (h | ⟨i, j, hb, rfl, rfl⟩)
    · exact Or.inl h
    · exact Or.inr ⟨(i, j, t), hb, rfl⟩

/-- `copy` stores an equal value and leaves every other register alone (value semantics of the model; that
the real copy shares no memory is the Gen obligation below plus the harness' `np.shares_memory` oracle). -/
theorem C01_copy_equal (st : State) (d s : Nat) (hs : reg st s ≠ .none) (hd : d < st.length) :
    reg (step st (.copy d s)).1 d = reg st s ∧ ∀ k, k ≠ d → reg (step st (.copy d s)).1 k = reg st k := by
  simp only [step]
  refine ⟨by simp [reg, List.getD_eq_getElem?_getD, hd], fun k hk => ?_⟩
  simp [reg, List.getD_eq_getElem?_getD, List.getElem?_set, Ne.symm hk]


/-! ## Refusals happen exactly where the contract says (audit 6: every hypothesis / abstention that is reachable) -/

/-- `C01_bonds_same_atoms` needs a duplicate-free selection.  With duplicates the code refuses — exactly when the
container has bonds and an index array / list selects an atom twice (`NotImplementedError`, documented). -/
theorem C01_dup_index_rejects (a : Arr) (is : List Int) (sel : List Nat) (b : Bonds)
    (hb : a.bonds = some b) (hr : resolve a.n (.arr is .nd) = .ok sel) :
    subarray a (.arr is .nd) = .error .notImplemented ↔ hasDup sel = true := by
  unfold subarray
  simp only [hr, hb, bondsErr, bondsMaskUB, bondsIndexErr, reduceCtorEq, if_false, Bool.false_eq_true]
  by_cases hd : hasDup sel = true <;> simp [hd]

/-- … and a container without bonds accepts every resolvable index, duplicates included. -/
theorem C01_no_bonds_accepts (a : Arr) (ix : Index) (sel : List Nat) (hb : a.bonds = none)
    (he : ix ≠ .ellipsis) (hr : resolve a.n ix = .ok sel) : ∃ a', subarray a ix = .ok a' := by
  unfold subarray
  simp [he, hr, hb]

/-- `array[index] = atom` is refused with `KeyError` exactly when the index is an integer/ndarray and the atom
lacks a category of the array — before anything is written (the state is unchanged on every error). -/
theorem C01_setitem_missing_category_rejects (a : Arr) (ix : Index) (v : AtomV) :
    setElement a ix v = .error .keyError ↔
      (setIndexOk ix = true ∧ (a.annot.all (fun p => hasKey p.1 v.annot)) = false) := by
  unfold setElement
  by_cases h1 : setIndexOk ix = true
  · by_cases h2 : (a.annot.all (fun p => hasKey p.1 v.annot)) = true
    · simp only [h1, h2, Bool.not_true, Bool.false_eq_true, if_false, true_and]
      cases hr : resolve a.n ix with
      | error e =>
        have : e ≠ .keyError := by
          rcases resolve_err hr with h | h <;> subst h <;> simp
        simp [this]
      | ok sel => simp
    · have h2' : (a.annot.all (fun p => hasKey p.1 v.annot)) = false := by simpa using h2
      simp [h1, h2']
  · have h1' : setIndexOk ix = false := by simpa using h1
    simp [h1']

/-- A stack refuses a box whose number of models differs from its coordinates (`stack.box = …`), and
coordinates with another number of models while it has a box (`stack.coord = …`) — `ValueError`, exactly then. -/
theorem C01_box_depth_rejects (a : Arr) (hs : a.stack = true) (b : List Tok) (coord : List (List Tok))
    (hb : a.box = some b) (hlen : ∀ c ∈ coord, c.length = a.n) :
    (setBox a (some b') = .error .valueError ↔ b'.length ≠ a.coord.length) ∧
    (setCoord a coord = .error .valueError ↔ coord.length ≠ a.coord.length) := by
  constructor
  · unfold setBox boxDepthBad boxErr
    by_cases h : b'.length = a.coord.length <;> simp [h, hs]
  · unfold setCoord
    have hall : coord.all (fun c => c.length == a.n) = true := by
      simp only [List.all_eq_true, beq_iff_eq]; exact hlen
    by_cases h : coord.length = a.coord.length <;> simp [hs, hall, hb, h]

/-- `stack[i] = array`: an array without box is refused by a stack that has boxes (`ValueError`), before the index
is looked at. -/
theorem C01_setmodel_boxless_rejects (a x : Arr) (i : Int) (b : List Tok) (hx : x.stack = false) (hn : x.n = a.n)
    (ha : equalAnnot a.annot x.annot = true) (hbd : equalBonds a.bonds x.bonds = true)
    (hb : a.box = some b) (hxb : x.box = none) :
    setModel a (.int i) (.arr x) = .error .valueError := by
  simp [setModel, hx, hn, ha, hbd, hb, hxb]

/-! ## Obligations on what is regenerated from `atoms.py` on every run -/

/-- Every mutable field assigned in `_AtomArrayBase.__init__` is re-created by a `.copy(...)` call in the copy
path (`_array_length` is an immutable int passed through `__copy_create__`), `__copy_create__` passes the
current sizes, `del stack[i]` re-assigns both `_coord` and `_box`, `_del_element` re-assigns length,
annotations, coordinates and bonds, `_subarray` fills coordinates, bonds, box and annotations, and the
mandatory categories are the model's. -/
theorem C01_gen_copy_path :
    (∀ f ∈ Gen.C01.initFields, f = "_array_length" ∨ (f, true) ∈ Gen.C01.copiedFields) ∧
    (∀ p ∈ Gen.C01.copiedFields, p.2 = true) ∧
    Gen.C01.copyCreate = [("AtomArray", "AtomArray", ["array_length()"]),
                          ("AtomArrayStack", "AtomArrayStack", ["stack_depth()", "array_length()"])] ∧
    (∀ f ∈ ["_coord", "_box"], f ∈ Gen.C01.delModelFields) ∧
    (∀ f ∈ ["_annot", "_coord", "_array_length", "_bonds"], f ∈ Gen.C01.delAtomFields) ∧
    (∀ f ∈ ["_coord", "_bonds", "_box", "_annot"], f ∈ Gen.C01.subarrayFields) ∧
    Gen.C01.mandatory = mandatory := by
  decide


/-! ## The source the model was written against (tie, pass 7)

`Gen/C01Skel.lean` is regenerated on every run: for each anchored function of `atoms.py` / `copyable.py` its
normalised skeleton (statement by statement: guards with their comparison operators and constants, exception
classes, helper calls, assignment targets, default argument values, order of checks and steps; local names
alpha-renamed, messages and docstrings dropped, private helpers found by their caller, behaviour-preserving
normal form: guard clauses, `not` pushed inwards, constants on the right, `.items()` loops as key loops), and for `bonds.pyx` the code lines of the index-relabelling
functions.  `Proofs/C01Expected.lean` is what the hand-written model encodes.  A changed operator, constant,
default, exception class, helper or order breaks the obligation of its family for every input at once. -/

theorem C01_gen_skeleton_getitem :
    Gen.C01Skel.skel_AtomArray___getitem__ = Expected.C01Skel.skel_AtomArray___getitem__ ∧
    Gen.C01Skel.skel_AtomArrayStack___getitem__ = Expected.C01Skel.skel_AtomArrayStack___getitem__ ∧
    Gen.C01Skel.skel_AtomArray_get_atom = Expected.C01Skel.skel_AtomArray_get_atom ∧
    Gen.C01Skel.skel_AtomArrayStack_get_array = Expected.C01Skel.skel_AtomArrayStack_get_array ∧
    Gen.C01Skel.skel__AtomArrayBase__subarray = Expected.C01Skel.skel__AtomArrayBase__subarray ∧
    Gen.C01Skel.skel_AtomArray___iter__ = Expected.C01Skel.skel_AtomArray___iter__ ∧
    Gen.C01Skel.skel_AtomArrayStack___iter__ = Expected.C01Skel.skel_AtomArrayStack___iter__ ∧
    Gen.C01Skel.skel_AtomArray___len__ = Expected.C01Skel.skel_AtomArray___len__ ∧
    Gen.C01Skel.skel_AtomArrayStack___len__ = Expected.C01Skel.skel_AtomArrayStack___len__ ∧
    Gen.C01Skel.skel__AtomArrayBase___len__ = Expected.C01Skel.skel__AtomArrayBase___len__ ∧
    Gen.C01Skel.skel_AtomArrayStack_stack_depth = Expected.C01Skel.skel_AtomArrayStack_stack_depth ∧
    Gen.C01Skel.skel__AtomArrayBase_array_length = Expected.C01Skel.skel__AtomArrayBase_array_length := by
  refine ⟨rfl, rfl, rfl, rfl, rfl, rfl, rfl, rfl, rfl, rfl, rfl, rfl⟩

theorem C01_gen_skeleton_setitem :
    Gen.C01Skel.skel__AtomArrayBase__set_element = Expected.C01Skel.skel__AtomArrayBase__set_element ∧
    Gen.C01Skel.skel_AtomArray___setitem__ = Expected.C01Skel.skel_AtomArray___setitem__ ∧
    Gen.C01Skel.skel_AtomArrayStack___setitem__ = Expected.C01Skel.skel_AtomArrayStack___setitem__ := by
  refine ⟨rfl, rfl, rfl⟩

theorem C01_gen_skeleton_del :
    Gen.C01Skel.skel__AtomArrayBase__del_element = Expected.C01Skel.skel__AtomArrayBase__del_element ∧
    Gen.C01Skel.skel_AtomArray___delitem__ = Expected.C01Skel.skel_AtomArray___delitem__ ∧
    Gen.C01Skel.skel_AtomArrayStack___delitem__ = Expected.C01Skel.skel_AtomArrayStack___delitem__ := by
  refine ⟨rfl, rfl, rfl⟩

theorem C01_gen_skeleton_annot :
    Gen.C01Skel.skel__AtomArrayBase___init__ = Expected.C01Skel.skel__AtomArrayBase___init__ ∧
    Gen.C01Skel.skel__AtomArrayBase_add_annotation = Expected.C01Skel.skel__AtomArrayBase_add_annotation ∧
    Gen.C01Skel.skel__AtomArrayBase_del_annotation = Expected.C01Skel.skel__AtomArrayBase_del_annotation ∧
    Gen.C01Skel.skel__AtomArrayBase_get_annotation = Expected.C01Skel.skel__AtomArrayBase_get_annotation ∧
    Gen.C01Skel.skel__AtomArrayBase_set_annotation = Expected.C01Skel.skel__AtomArrayBase_set_annotation ∧
    Gen.C01Skel.skel__AtomArrayBase_get_annotation_categories = Expected.C01Skel.skel__AtomArrayBase_get_annotation_categories ∧
    Gen.C01Skel.skel__AtomArrayBase___getattr__ = Expected.C01Skel.skel__AtomArrayBase___getattr__ := by
  refine ⟨rfl, rfl, rfl, rfl, rfl, rfl, rfl⟩

theorem C01_gen_skeleton_setters :
    Gen.C01Skel.skel__AtomArrayBase___setattr__ = Expected.C01Skel.skel__AtomArrayBase___setattr__ := rfl

theorem C01_gen_skeleton_eq :
    Gen.C01Skel.skel__AtomArrayBase_equal_annotations = Expected.C01Skel.skel__AtomArrayBase_equal_annotations ∧
    Gen.C01Skel.skel__AtomArrayBase_equal_annotation_categories = Expected.C01Skel.skel__AtomArrayBase_equal_annotation_categories ∧
    Gen.C01Skel.skel__AtomArrayBase___eq__ = Expected.C01Skel.skel__AtomArrayBase___eq__ ∧
    Gen.C01Skel.skel_AtomArray___eq__ = Expected.C01Skel.skel_AtomArray___eq__ ∧
    Gen.C01Skel.skel_AtomArrayStack___eq__ = Expected.C01Skel.skel_AtomArrayStack___eq__ ∧
    Gen.C01Skel.skel_Atom___eq__ = Expected.C01Skel.skel_Atom___eq__ ∧
    Gen.C01Skel.skel_Atom___ne__ = Expected.C01Skel.skel_Atom___ne__ := by
  refine ⟨rfl, rfl, rfl, rfl, rfl, rfl, rfl⟩

theorem C01_gen_skeleton_copy :
    Gen.C01Skel.skel__AtomArrayBase___copy_fill__ = Expected.C01Skel.skel__AtomArrayBase___copy_fill__ ∧
    Gen.C01Skel.skel__AtomArrayBase__copy_annotations = Expected.C01Skel.skel__AtomArrayBase__copy_annotations ∧
    Gen.C01Skel.skel_Atom___copy_create__ = Expected.C01Skel.skel_Atom___copy_create__ ∧
    Gen.C01Skel.skel_AtomArray___copy_create__ = Expected.C01Skel.skel_AtomArray___copy_create__ ∧
    Gen.C01Skel.skel_AtomArrayStack___copy_create__ = Expected.C01Skel.skel_AtomArrayStack___copy_create__ ∧
    Gen.C01Skel.skel_Copyable_copy = Expected.C01Skel.skel_Copyable_copy ∧
    Gen.C01Skel.skel_Copyable___copy_create__ = Expected.C01Skel.skel_Copyable___copy_create__ ∧
    Gen.C01Skel.skel_Copyable___copy_fill__ = Expected.C01Skel.skel_Copyable___copy_fill__ := by
  refine ⟨rfl, rfl, rfl, rfl, rfl, rfl, rfl, rfl⟩

theorem C01_gen_skeleton_constructors :
    Gen.C01Skel.skel_Atom___init__ = Expected.C01Skel.skel_Atom___init__ ∧
    Gen.C01Skel.skel_AtomArray___init__ = Expected.C01Skel.skel_AtomArray___init__ ∧
    Gen.C01Skel.skel_AtomArrayStack___init__ = Expected.C01Skel.skel_AtomArrayStack___init__ ∧
    Gen.C01Skel.skel_array = Expected.C01Skel.skel_array ∧
    Gen.C01Skel.skel_from_template = Expected.C01Skel.skel_from_template ∧
    Gen.C01Skel.skel_coord = Expected.C01Skel.skel_coord := by
  refine ⟨rfl, rfl, rfl, rfl, rfl, rfl⟩

theorem C01_gen_skeleton_concat_stack_repeat :
    Gen.C01Skel.skel_concatenate = Expected.C01Skel.skel_concatenate ∧
    Gen.C01Skel.skel__AtomArrayBase___add__ = Expected.C01Skel.skel__AtomArrayBase___add__ ∧
    Gen.C01Skel.skel_stack = Expected.C01Skel.skel_stack ∧
    Gen.C01Skel.skel_repeat = Expected.C01Skel.skel_repeat := by
  refine ⟨rfl, rfl, rfl, rfl⟩

theorem C01_gen_skeleton_bonds :
    Gen.C01Skel.skel_bonds_pyx___getitem__ = Expected.C01Skel.skel_bonds_pyx___getitem__ ∧
    Gen.C01Skel.skel_bonds_pyx_concatenate = Expected.C01Skel.skel_bonds_pyx_concatenate ∧
    Gen.C01Skel.skel_bonds_pyx___copy_create__ = Expected.C01Skel.skel_bonds_pyx___copy_create__ ∧
    Gen.C01Skel.skel_bonds_pyx___copy_fill__ = Expected.C01Skel.skel_bonds_pyx___copy_fill__ ∧
    Gen.C01Skel.skel_bonds_pyx___eq__ = Expected.C01Skel.skel_bonds_pyx___eq__ ∧
    Gen.C01Skel.skel_bonds_pyx__invert_index = Expected.C01Skel.skel_bonds_pyx__invert_index ∧
    Gen.C01Skel.skel_bonds_pyx__to_positive_index_array = Expected.C01Skel.skel_bonds_pyx__to_positive_index_array ∧
    Gen.C01Skel.skel_bonds_pyx__to_index_array = Expected.C01Skel.skel_bonds_pyx__to_index_array ∧
    Gen.C01Skel.skel_bonds_pyx_BondList_decorators = Expected.C01Skel.skel_bonds_pyx_BondList_decorators := by
  refine ⟨rfl, rfl, rfl, rfl, rfl, rfl, rfl, rfl, rfl⟩

/-- The exception classes the anchored functions raise, in source order, are the ones the model returns
(`Err.toString` of the model's error values). -/
theorem C01_gen_error_classes :
    Gen.C01Skel.raises =
      [("_AtomArrayBase.add_annotation", [Err.valueError.toString]),
       ("_AtomArrayBase.get_annotation", [Err.valueError.toString]),
       ("_AtomArrayBase.set_annotation", [Err.indexError.toString]),                       -- `setAnnotation`
       ("_AtomArrayBase._set_element", [Err.typeError.toString, Err.keyError.toString]),   -- `setElement`
       ("_AtomArrayBase._del_element", [Err.typeError.toString]),                          -- `delitem`
       ("_AtomArrayBase.__getattr__", ["AttributeError"]),
       ("_AtomArrayBase.__setattr__",                                                      -- `setCoord` / `setBox` / `setBonds`
         [Err.typeError.toString, Err.valueError.toString, Err.valueError.toString, Err.valueError.toString,
          Err.typeError.toString, Err.valueError.toString,
          Err.valueError.toString, Err.typeError.toString,
          Err.valueError.toString, Err.valueError.toString, Err.typeError.toString, Err.valueError.toString,
          Err.typeError.toString]),
       ("Atom.__init__", [Err.valueError.toString]),
       ("AtomArray.__getitem__", [Err.indexError.toString]),                               -- `getitem2` on an array
       ("AtomArrayStack.__getitem__", [Err.indexError.toString, Err.indexError.toString]), -- tuple length, atom bounds
       ("AtomArrayStack.__setitem__",                                                      -- `setModel`
         [Err.valueError.toString, Err.valueError.toString, Err.typeError.toString, Err.valueError.toString]),
       ("AtomArrayStack.__delitem__", [Err.typeError.toString]),
       ("array", [Err.valueError.toString]),                                               -- `arrayOf`
       ("stack", [Err.valueError.toString]),                                               -- `stackArrays`
       ("concatenate", [Err.typeError.toString, Err.indexError.toString]),                 -- `concatCheck`
       ("repeat", [Err.valueError.toString, Err.valueError.toString, Err.valueError.toString, Err.typeError.toString,
                   Err.valueError.toString]),                                              -- (guard-clause normal form)
       ("from_template", [Err.valueError.toString]),                                       -- `fromTemplate`
       ("bonds.pyx:_invert_index", [Err.notImplemented.toString]),                         -- `bondsIndexErr`
       ("bonds.pyx:_to_positive_index_array", [Err.indexError.toString, Err.indexError.toString])] := by
  decide

/-- The mandatory categories are created with the dtypes whose kind the model's `kindOf` (and the harness) assumes. -/
theorem C01_gen_mandatory_kinds :
    Gen.C01.mandatoryDtypes.map (fun p => (p.1, match p.2.toList with
                                                 | 'U' :: _ => "U" | ['i', 'n', 't'] => "i" | ['b', 'o', 'o', 'l'] => "b"
                                                 | _ => p.2)) =
      mandatory.map (fun k => (k, kindOf k)) := by
  decide

/-- Default argument values the model and the adapter rely on: `equal_annotations(item, equal_nan=True)` (a NaN
token equals itself in `equalAnnot`), `from_template(template, coord, box=None)`, constructor argument order
`AtomArrayStack(depth, length)`, `repeat(atoms, coord)`, `Atom(coord, **kwargs)`. -/
theorem C01_gen_defaults :
    Gen.C01Skel.skel__AtomArrayBase_equal_annotations.head? = some "def(self, v1, v2=True)" ∧
    Gen.C01Skel.skel_from_template.head? = some "def(v1, v2, v3=None)" ∧
    Gen.C01Skel.skel_AtomArrayStack___init__.head? = some "def(self, v1, v2)" ∧
    Gen.C01Skel.skel_AtomArrayStack___init__.getD 1 "" = "  super().__init__(v2)" ∧
    Gen.C01Skel.skel_repeat.head? = some "def(v1, v2)" ∧
    Gen.C01Skel.skel_Atom___init__.head? = some "def(self, v1, **v2)" ∧
    Gen.C01Skel.skel__AtomArrayBase_add_annotation.head? = some "def(self, v1, v2)" ∧
    Gen.C01Skel.skel__AtomArrayBase_set_annotation.head? = some "def(self, v1, v2)" := by
  decide

/-! ## Non-vacuity -/

example : resolve 5 (.slice none none (some (-2))) = .ok [4, 2, 0] := by decide
example : resolve 5 (.slice (some (-4)) (some 9) (some 3)) = .ok [1, 4] := by decide
example : resolve 4 (.arr [3, -4, 1] .nd) = .ok [3, 0, 1] := by decide
example : resolve 4 (.mask [false, true, true, false] .nd) = .ok [1, 2] := by decide
example : resolve 3 (.int (-4)) = .error .indexError := by decide
example : relabel [(0, 1, 1), (1, 2, 2), (0, 3, 4)] [3, 0, 1] = [(1, 2, 1), (0, 1, 4)] := by decide
example : [3, 0, 1].Nodup := by decide

/-- a stack with box and bonds: `stack[:, -1]` keeps one atom (the repaired behaviour) and `del stack[0]`
drops the model's box as well -/
def exStack : Arr :=
  { stack := true, n := 3, annot := [("res_id", [21, 22, 23])], coord := [[101, 102, 103], [104, 105, 106]]
    box := some [201, 202], bonds := some ⟨3, [(0, 1, 1), (1, 2, 2)]⟩ }

example : getitem2 exStack (.slice none none none) (.int (-1)) =
    .ok (.arr { exStack with n := 1, annot := [("res_id", [23])], coord := [[103], [106]], bonds := some ⟨1, []⟩ }) := by
  decide
example : delitem exStack (.int 0) = .ok { exStack with coord := [[104, 105, 106]], box := some [202] } := by decide
example : (subarray { exStack with stack := false, coord := [[101, 102, 103]], box := some [201] }
    (.arr [2, 0, 1] .nd)).map (·.bonds) = .ok (some ⟨3, [(1, 2, 1), (0, 2, 2)]⟩) := by decide

/-! ## Refinement to the list-of-atoms reference model (`Model/C01Spec.lean`)

`abs` transposes the column store into a list of atom records (annotation record + one coordinate token per
model), boxes, and bonds as positions in that list; `S…` are the reference operations on such lists.  Each
theorem says: running the container operation and abstracting equals running the reference operation on the
abstraction — results **and errors**. -/

/-- every kind of `__getitem__` (1-D and `(i0, i1)`; atoms, arrays, stacks; all index kinds) -/
theorem C01_refines_getitem (a : Arr) (ix i0 i1 : Index) :
    Sgetitem (abs a) ix = (getitem a ix).map absVal ∧ Sgetitem2 (abs a) i0 i1 = (getitem2 a i0 i1).map absVal :=
  ⟨Sgetitem_ref a ix, Sgetitem2_ref a i0 i1⟩

/-- `__setitem__`: an atom into an array (integer, mask, index array), an array into a stack model -/
theorem C01_refines_setitem (a : Arr) (ix : Index) (v : Val) (hw : WF a) (hv : WFVal v) :
    Ssetitem (abs a) ix (absVal v) = (setitem a ix v).map abs := Ssetitem_ref a ix v hw hv

/-- `__delitem__`: atom of an array (bonds follow), model of a stack (box follows) -/
theorem C01_refines_del (a : Arr) (ix : Index) (hw : WF a) : Sdelitem (abs a) ix = (delitem a ix).map abs :=
  Sdelitem_ref a ix hw

/-- `stack(arrays)` -/
theorem C01_refines_stack (xs : List Arr) (hw : ∀ a ∈ xs, WF a) :
    SstackArrays (xs.map abs) = (stackArrays xs).map abs := SstackArrays_ref xs hw

/-- `repeat(atoms, coord)` -/
theorem C01_refines_repeat (a : Arr) (k : Nat) (toks : List Tok) (hw : WF a) :
    SrepeatArr (abs a) k toks = (repeatArr a k toks).map abs := SrepeatArr_ref a k toks hw

/-- `add/set/del_annotation`, the `coord`/`box`/`bonds` setters, `from_template`, `array(atoms)` and the
constructor used by the harness -/
theorem C01_refines_annot (a : Arr) (k : String) (c : List Tok) (coord : List (List Tok)) (box : Option (List Tok))
    (bs : Option (List Bond)) :
    SaddAnnotation (abs a) k = abs (addAnnotation a k) ∧
    SsetAnnotation (abs a) k c = (setAnnotation a k c).map abs ∧
    SdelAnnotation (abs a) k = (delAnnotation a k).map abs ∧
    SsetCoord (abs a) coord = (setCoord a coord).map abs ∧
    SsetBox (abs a) box = (setBox a box).map abs ∧
    SsetBonds (abs a) bs = (setBonds a bs).map abs ∧
    SfromTemplate (abs a) coord box = (fromTemplate a coord box).map abs :=
  ⟨SaddAnnotation_ref a k, SsetAnnotation_ref a k c, SdelAnnotation_ref a k, SsetCoord_ref a coord,
   SsetBox_ref a box, SsetBonds_ref a bs, SfromTemplate_ref a coord box⟩

theorem C01_refines_array (xs : List AtomV) : SarrayOf xs = (arrayOf xs).map abs := SarrayOf_ref xs

/-- `concatenate(list)`: all atoms of all parts one after the other, restricted to the categories every part
has; bonds shifted by the number of atoms before their part; the first box. -/
theorem C01_refines_concat (xs : List Arr) (hw : ∀ a ∈ xs, WF a) :
    Sconcatenate (xs.map abs) = (concatenate xs).map abs := Sconcatenate_ref xs hw

/-- the `==` observation -/
theorem C01_refines_eq (a b : Arr) (hwa : WF a) (hwb : WF b) : SequalArr (abs a) (abs b) = equalArr a b :=
  SequalArr_ref a b hwa hwb

/-- **Refinement of one step of the register machine**: for **every** operation and every well-formed state,
the abstraction of the next state and of the output equals the reference step on the abstraction. -/
theorem C01_refines (st : State) (op : Op) (hst : WFState st) :
    Sstep (absState st) op = (absState (step st op).1, absOut (step st op).2) :=
  step_refines st op hst trivial

/-- … and for every history from the empty register file: the container state equals the list-of-atoms
reference state after the same operations. -/
theorem C01_refines_history (ops : List Op) : Srun (absState init) ops = absState (run init ops) := by
  have key : ∀ (ops : List Op) (st : State), WFState st → Srun (absState st) ops = absState (run st ops) := by
    intro ops
    induction ops with
    | nil => intro st _; rfl
    | cons op r ih =>
      intro st hst
      simp only [Srun, run, List.foldl_cons]
      rw [step_refines st op hst trivial]
      exact ih _ (step_wf st op hst)
  exact key ops init C01_wf_init

/-- **Defect (bonds.pyx, cannot be rebuilt).**  A size-0 boolean ndarray is accepted by numpy on any axis
(`resolve` returns the empty selection), and on a container with at least one bond the code then reads the
mask out of bounds: the model's outcome is `ub`, whereas the list-of-atoms reading of the property asks for
an `IndexError` (mask of the wrong length).  Replayed in a forked child by the harness. -/
theorem C01_empty_mask_bonds_defect :
    ∃ a, WF a ∧ 0 < a.n ∧ resolve a.n (.mask [] .nd) = .ok [] ∧ subarray a (.mask [] .nd) = .error ub :=
  ⟨{ exStack with stack := false, coord := [[101, 102, 103]], box := some [201] },
   ⟨by decide, by decide, by decide, fun b hb => by cases hb; rfl,
    fun b hb => by cases hb; exact ⟨rfl, by decide⟩⟩, by decide, by decide, by decide⟩

example : (abs exStack).atoms = [⟨[("res_id", 21)], [101, 104]⟩, ⟨[("res_id", 22)], [102, 105]⟩, ⟨[("res_id", 23)], [103, 106]⟩] := by
  decide

end BiotiteModel.C01

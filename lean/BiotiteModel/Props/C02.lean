import BiotiteModel.Proofs.C02Slice
import BiotiteModel.Gen.C02
import BiotiteModel.Proofs.C02Source
/-!
# C02 — property theorems (a bond list is a set of undirected typed bonds with safe indices)

Only property statements and their non-vacuity examples; lemmas are in `Proofs/C02.lean`.
All theorems quantify over every state, operation and input (no size bound other than `n < 2^31`
where the C index arithmetic is involved).

Full-strength statement that does NOT hold on the current code (kept visible):
  `∀ n i, ¬ (-n ≤ i ∧ i < n) → posIndex n i = .err .indexError`
(an atom index outside `[-n, n)` is rejected with an IndexError).  It fails for every `i < -n`
(`C02_index_defect`, `C02_index_below_minus_n_accepted`) and, by class only, outside int32
(`C02_index_outside_int32`); the provable part is `C02_index_guard_partial`.
-/
namespace BiotiteModel.C02
open BiotiteModel

/-! ## Index guard -/

/-- `_to_positive_index` on the accepted range and above it: indices in `[-n, n)` resolve to `i mod n`,
indices `≥ n` (inside int32) raise IndexError. -/
theorem C02_index_guard_partial (n : Nat) (i : Int) (hn : n < 2147483648) :
    (-(n : Int) ≤ i ∧ i < n → posIndex n i = .ok (i % n).toNat ∧ (i % n).toNat < n) ∧
    ((n : Int) ≤ i ∧ i ≤ 2147483647 → posIndex n i = .err .indexError) := by
  constructor
  · intro hi
    have h1 : -2147483648 ≤ i := by omega
    have h2 : i ≤ 2147483647 := by omega
    have ht : toInt32 i = .ok (BitVec.ofInt 32 i) := by simp [toInt32, h1, h2]
    have hp : posIndex n i = posIndex32 n (BitVec.ofInt 32 i) := by simp [posIndex, ht]
    have hw := withIndices_valid (fun a _ => Res.ok ⟨a, [], 0⟩) hn hi hi
    simp only [withIndices, ht] at hw
    cases hq : posIndex32 n (BitVec.ofInt 32 i) with
    | ok a =>
      obtain ⟨hlt, heq, _⟩ := posIndex32_ok_lt hn ht hi.1 hq
      rw [hp, hq, heq]; exact ⟨rfl, by omega⟩
    | err e => simp [hq] at hw
    | crash => simp [hq] at hw
    | ub => simp [hq] at hw
  · intro hi
    have h1 : -2147483648 ≤ i := by omega
    have ht : toInt32 i = .ok (BitVec.ofInt 32 i) := by simp [toInt32, h1, hi.2]
    have h0 : 0 ≤ i := by omega
    have hlt : ¬ i < n := by omega
    simp [posIndex, ht, posIndex32_spec n i hn h1 hi.2, h0, hlt]

/-- **Defect (negation of the full-strength guard).**  On 4 atoms, `-5` hits the `except -1` sentinel (observed
SIGSEGV) and `-6` is accepted and wraps to `2^32 - 2`. -/
theorem C02_index_defect :
    posIndex 4 (-5) = .crash ∧ posIndex 4 (-6) = .ok 4294967294 ∧ posIndex 0 (-1) = .crash := by
  decide

/-- The defect for every list: `-n-1` crashes, everything below it (inside int32) is accepted as the
out-of-range position `2^32 + n + i ≥ n`. -/
theorem C02_index_below_minus_n_accepted (n : Nat) (i : Int) (hn : n < 2147483648)
    (h1 : -2147483648 ≤ i) (h2 : i < -(n : Int)) :
    (i = -(n : Int) - 1 → posIndex n i = .crash) ∧
    (i < -(n : Int) - 1 → posIndex n i = .ok (4294967296 + i + n).toNat ∧ n ≤ (4294967296 + i + n).toNat) := by
  have h3 : i ≤ 2147483647 := by omega
  have ht : toInt32 i = .ok (BitVec.ofInt 32 i) := by simp [toInt32, h1, h3]
  have h0 : ¬ (0 ≤ i) := by omega
  have hp : posIndex n i = posIndex32 n (BitVec.ofInt 32 i) := by simp [posIndex, ht]
  constructor
  · intro he
    rw [hp, posIndex32_spec n i hn h1 h3, if_neg h0, if_pos he]
  · intro hl
    have hne : ¬ (i = -(n : Int) - 1) := by omega
    have e : (i + n) % 4294967296 = 4294967296 + i + n := by
      rw [← Int.add_emod_left, Int.emod_eq_of_lt] <;> omega
    refine ⟨by rw [hp, posIndex32_spec n i hn h1 h3, if_neg h0, if_neg hne, e], by omega⟩

/-- outside int32 the argument conversion raises OverflowError (a rejection, but not the IndexError of the statement) -/
theorem C02_index_outside_int32 (n : Nat) (i : Int) (h : i < -2147483648 ∨ 2147483647 < i) :
    posIndex n i = .err .overflowError := by
  have : ¬ (-2147483648 ≤ i ∧ i ≤ 2147483647) := by omega
  simp [posIndex, toInt32, this]

/-- `_to_positive_index_array` (constructor, index arrays) does reject: exactly `[-n, n)` is accepted. -/
theorem C02_index_array_guard (n : Nat) (x : Int) :
    normOne n x = if -(n : Int) ≤ x ∧ x < n then some (x % n).toNat else none :=
  normOne_spec n x

/-! ## Invariants: canonical form and the cached maximum -/

/-- Every operation keeps both lists canonical (sorted pairs, indices `< n`, valid types, no duplicate pair).
*Partial*: for `add_bond` the indices must not lie below `-n` (see `C02_canon_defect`). -/
theorem C02_canon_partial (st : State) (op : Op) (hw : WFS st) (hs : OpSafe st op) :
    Canon (step st op).cur ∧ Canon (step st op).aux :=
  ⟨(step_wf hw hs).1.1, (step_wf hw hs).2.1⟩

/-- The cached `_max_bonds_per_atom` bounds the degree of every atom after every operation: the unchecked writes of
`get_bonds` / `get_all_bonds` stay inside their buffers. -/
theorem C02_cachedMax_bounds (st : State) (op : Op) (hw : WFS st) (hs : OpSafe st op) :
    MaxOk (step st op).cur ∧ MaxOk (step st op).aux :=
  ⟨(step_wf hw hs).1.2, (step_wf hw hs).2.2⟩

/-- Lifted to whole histories from the empty lists. -/
theorem C02_canon_history (ops : List Op) (hs : SafeRun State.init ops) :
    WFS (run ops) :=
  run_wf ops State.init ⟨wf_empty 0, wf_empty 0⟩ hs

/-- **Defect.** On an empty list `add_bond(-2, -3)` is accepted and stores atom indices `2^32-3, 2^32-2`
for an atom count of 0: the list is corrupted. -/
theorem C02_canon_defect : ¬ Canon (step State.init (.add (-2) (-3) 1)).cur := by
  intro h
  have hb : (step State.init (.add (-2) (-3) 1)).cur.bonds = [(4294967293, 4294967294, 1)] := by decide
  have := h.bound (4294967293, 4294967294, 1) (by rw [hb]; simp)
  have hn : (step State.init (.add (-2) (-3) 1)).cur.n = 0 := by decide
  rw [hn] at this
  omega

/-! ## Refinement to a map from sorted pairs to one type (`lookup s.bonds i j`) -/

/-- Construction: indices are normalised by `x mod n` (`C02_index_array_guard`), each row is sorted, and the first row
of a pair wins: the map of the new list is `lookup` (= first match) in the normalised input. -/
theorem C02_refines_new (n : Nat) (typed : Bool) (input : List (Int × Int × Nat)) (s : BL)
    (h : newBL n typed input = .ok s) :
    ∃ rows, normRows n input = some rows ∧ s.n = n ∧
      ∀ i j, lookup s.bonds i j = lookup (rows.map (sortRow typed)) i j := by
  unfold newBL at h
  split at h
  · rename_i he
    injection h with h; subst h
    have : input = [] := by simpa using he
    subst this
    exact ⟨[], rfl, rfl, fun i j => rfl⟩
  · split at h
    · cases h
    · rename_i rows hrows
      obtain ⟨rfl, _⟩ := ctorCore_ok h
      exact ⟨rows, hrows, rfl, fun i j => by simp [lookup_dedupAux]⟩

/-- `add_bond` with indices in `[-n, n)` and a valid type succeeds, and the new type overwrites. -/
theorem C02_refines_add (s : BL) (i j t : Int) (hw : WF s) (hn : s.n < 2147483648)
    (hi : -(s.n : Int) ≤ i ∧ i < s.n) (hj : -(s.n : Int) ≤ j ∧ j < s.n) (ht : 0 ≤ t ∧ t < 10) :
    ∃ s', addBond s i j t = .ok s' ∧ s'.n = s.n ∧
      ∀ x y, lookup s'.bonds x y =
        if x = (sortPair (i % s.n).toNat (j % s.n).toNat).1 ∧ y = (sortPair (i % s.n).toNat (j % s.n).toNat).2
        then some t.toNat else lookup s.bonds x y := by
  have htc : (if t ≥ 10 then some Err.valueError else none) = none := by
    have : ¬ t ≥ 10 := by omega
    simp [this]
  have hadd : addBond s i j t = addCore s (i % s.n).toNat (j % s.n).toNat t := by
    unfold addBond; rw [htc]; exact withIndices_valid _ hn hi hj
  have ha : (i % (s.n : Int)).toNat < s.n := ((C02_index_guard_partial s.n i hn).1 hi).2
  have hb : (j % (s.n : Int)).toNat < s.n := ((C02_index_guard_partial s.n j hn).1 hj).2
  have hn0 : s.n ≠ 0 := by omega
  -- the core cannot fail
  have hex : ∃ s', addCore s (i % s.n).toNat (j % s.n).toNat t = .ok s' := by
    unfold addCore
    simp only
    have : ¬ t < 0 := by omega
    simp only [this, if_false, hn0]
    split
    · exact ⟨_, rfl⟩
    · have hr : inRange s.n (s.bonds ++ [((sortPair (i % s.n).toNat (j % s.n).toNat).1,
          (sortPair (i % s.n).toNat (j % s.n).toNat).2, t.toNat)]) = true := by
        simp only [inRange, List.all_eq_true, Bool.and_eq_true, decide_eq_true_eq]
        intro c hc
        rcases List.mem_append.mp hc with hc | hc
        · have := hw.1.sorted c hc; have := hw.1.bound c hc; omega
        · simp only [List.mem_singleton] at hc; subst hc
          exact sortPair_lt ha hb
      simp only [hr, if_true]
      exact ⟨_, rfl⟩
  obtain ⟨s', hs'⟩ := hex
  exact ⟨s', by rw [hadd, hs'], (addCore_wf hw ha hb ht.2 hs').2, addCore_lookup hn0 hs'⟩

/-- `remove_bond` with indices in `[-n, n)` removes exactly that pair. -/
theorem C02_refines_remove (s : BL) (i j : Int) (hw : WF s) (hn : s.n < 2147483648)
    (hi : -(s.n : Int) ≤ i ∧ i < s.n) (hj : -(s.n : Int) ≤ j ∧ j < s.n) :
    ∃ s', removeBond s i j = .ok s' ∧ s'.n = s.n ∧
      ∀ x y, lookup s'.bonds x y =
        if x = (sortPair (i % s.n).toNat (j % s.n).toNat).1 ∧ y = (sortPair (i % s.n).toNat (j % s.n).toNat).2
        then none else lookup s.bonds x y := by
  refine ⟨removeCore s (i % s.n).toNat (j % s.n).toNat, ?_, rfl, removeCore_lookup _ _ hw⟩
  unfold removeBond
  exact withIndices_valid _ hn hi hj

/-- `remove_bonds_to(k)`: every pair containing `k` disappears, nothing else changes. -/
theorem C02_refines_remove_to (s s' : BL) (i : Int) (k : Nat) (hk : posIndex s.n i = .ok k)
    (h : removeBondsTo s i = .ok s') :
    s'.n = s.n ∧ ∀ x y, lookup s'.bonds x y = if x = k ∨ y = k then none else lookup s.bonds x y := by
  unfold removeBondsTo at h
  rw [hk] at h
  injection h with h; subst h
  refine ⟨rfl, fun x y => ?_⟩
  have hl := lookup_filter (fun a b => !(a == k || b == k)) s.bonds x y
  rw [hl]
  by_cases hxy : x = k ∨ y = k
  · have : (x == k || y == k) = true := by simpa using hxy
    simp [hxy, this]
  · have : (x == k || y == k) = false := by rw [← Bool.not_eq_true]; simpa using hxy
    simp [hxy, this]

/-- `remove_bonds(other)`: the pairs of `other` disappear (types are ignored). -/
theorem C02_refines_remove_bonds (s o : BL) (x y : Nat) :
    lookup (removeBonds s o).bonds x y = if (lookup o.bonds x y).isSome then none else lookup s.bonds x y := by
  have hl := lookup_filter (fun a b => !(o.bonds.any (isPair a b))) s.bonds x y
  simp only [removeBonds]
  rw [hl]
  by_cases h : (lookup o.bonds x y).isSome
  · have : o.bonds.any (isPair x y) = true := by rw [any_isPair_iff, ← lookup_isSome_iff]; exact h
    simp [h, this]
  · have : o.bonds.any (isPair x y) = false := by
      rw [← Bool.not_eq_true, any_isPair_iff, ← lookup_isSome_iff]; exact h
    simp [h, this]

/-- `merge`: the atom count is the maximum and the argument's type wins. -/
theorem C02_refines_merge (s o s' : BL) (hs : Canon s) (ho : Canon o) (h : merge s o = .ok s') :
    s'.n = max s.n o.n ∧ ∀ x y, lookup s'.bonds x y = (lookup o.bonds x y).or (lookup s.bonds x y) :=
  ⟨(merge_wf h).2, merge_lookup hs ho h⟩

/-- `concatenate([s, o])` / `+`: disjoint union with the second list shifted by the first atom count. -/
theorem C02_refines_concat (s o s' : BL) (h : concatenate [s, o] = .ok s') :
    s'.n = s.n + o.n ∧
    ∀ x y, lookup s'.bonds x y =
      (lookup s.bonds x y).or (if s.n ≤ x ∧ s.n ≤ y then lookup o.bonds (x - s.n) (y - s.n) else none) := by
  simp only [concatenate, List.isEmpty_cons, Bool.false_eq_true, if_false, concatFrom] at h
  injection h with h; subst h
  refine ⟨by simp, fun x y => ?_⟩
  simp only [lookup_append, lookup_shift, lookup_nil, Nat.zero_le, and_self, if_true, Nat.sub_zero, Nat.zero_add,
    Option.or_none]

/-- `offset_indices(k)`: the same map, shifted. -/
theorem C02_refines_offset (s s' : BL) (k : Int) (h : offsetIndices s k = .ok s') :
    s'.n = s.n + k.toNat ∧
    ∀ x y, lookup s'.bonds x y =
      if k.toNat ≤ x ∧ k.toNat ≤ y then lookup s.bonds (x - k.toNat) (y - k.toNat) else none := by
  unfold offsetIndices at h
  split at h
  · cases h
  · split at h
    · cases h
    · injection h with h; subst h
      exact ⟨rfl, fun x y => lookup_shift _ _ _ _⟩

/-- `remove_aromaticity` / `remove_bond_order`: the same pairs, types mapped. -/
theorem C02_refines_types (s : BL) (x y : Nat) :
    lookup (removeAromaticity s).bonds x y = (lookup s.bonds x y).map (applyPairs aromPairs) ∧
    lookup (removeBondOrder s).bonds x y = (lookup s.bonds x y).map (fun _ => 0) :=
  ⟨lookup_map_type _ _ _ _, lookup_map_type (fun _ => 0) s.bonds x y⟩

/-! ## Views -/

/-- `get_bonds(i)` for `i ∈ [-n, n)`: never leaves its buffers (no `ub`), and returns exactly the partners of atom
`i mod n` with their types. -/
theorem C02_views_get_bonds (s : BL) (i : Int) (hw : WF s) (hn : s.n < 2147483648)
    (hi : -(s.n : Int) ≤ i ∧ i < s.n) :
    getBonds s i = .ok (incident s.bonds (i % s.n).toNat) ∧
    ∀ x t, (x, t) ∈ incident s.bonds (i % s.n).toNat ↔
      ((i % s.n).toNat, x, t) ∈ s.bonds ∨ (x, (i % s.n).toNat, t) ∈ s.bonds := by
  constructor
  · unfold getBonds
    rw [((C02_index_guard_partial s.n i hn).1 hi).1]
    have := Nat.le_trans (incident_length_le_deg s.bonds (i % s.n).toNat) (hw.2 _)
    have hgt : ¬ (incident s.bonds (i % s.n).toNat).length > s.cachedMax := by omega
    simp [hgt]
  · intro x t
    simp only [incident, List.mem_filterMap]
    constructor
    · rintro ⟨c, hc, h⟩
      split at h
      · rename_i h1; injection h with h; left; rw [← h1]; injection h with e1 e2; rw [← e1, ← e2]; exact hc
      · split at h
        · rename_i _ h2; injection h with h; right; rw [← h2]; injection h with e1 e2; rw [← e1, ← e2]; exact hc
        · cases h
    · rintro (h | h)
      · exact ⟨_, h, by simp⟩
      · refine ⟨_, h, ?_⟩
        by_cases hx : x = (i % s.n).toNat
        · simp [hx]
        · simp [hx]

/-- adjacency and bond-type matrices are symmetric: both are the unordered-pair map `sym`. -/
theorem C02_views_symmetric (bs : List Bond) (i j : Nat) : sym bs i j = sym bs j i := by
  simp [sym, Nat.min_comm, Nat.max_comm]

/-- `==` on canonical lists ⇔ equal atom counts and equal maps. -/
theorem C02_views_eq (s o : BL) (hs : Canon s) (ho : Canon o) :
    beq s o = true ↔ s.n = o.n ∧ ∀ i j, lookup s.bonds i j = lookup o.bonds i j := by
  simp only [beq, Bool.and_eq_true, beq_iff_eq, List.all_eq_true, List.contains_iff_mem]
  constructor
  · rintro ⟨⟨hn, h1⟩, h2⟩
    refine ⟨hn, fun i j => ?_⟩
    apply Option.ext
    intro t
    rw [lookup_eq_some_iff hs.nodup, lookup_eq_some_iff ho.nodup]
    exact ⟨h1 _, h2 _⟩
  · rintro ⟨hn, h⟩
    refine ⟨⟨hn, fun c hc => ?_⟩, fun c hc => ?_⟩
    · have := (lookup_eq_some_iff hs.nodup c.1 c.2.1 c.2.2).mpr hc
      rw [h] at this
      exact (lookup_eq_some_iff ho.nodup _ _ _).mp this
    · have := (lookup_eq_some_iff ho.nodup c.1 c.2.1 c.2.2).mpr hc
      rw [← h] at this
      exact (lookup_eq_some_iff hs.nodup _ _ _).mp this

/-- **Defect.** Membership with an in-range negative index raises OverflowError instead of answering. -/
theorem C02_contains_defect (s : BL) (i j : Int) (h : i < 0 ∨ j < 0) :
    containsPair s i j = .err .overflowError := by
  unfold containsPair
  have : min i j < 0 := by omega
  simp [this]

/-! ## `__getitem__`: relabelling of the map by the inverse index -/

/-- Index-array branch on a normalised index array: a duplicate-free in-range selection is accepted and the result is
the map relabelled by the selection (a bond is kept iff both atoms are selected, new indices are the positions in the
selection, unsorted selections included); duplicates are rejected with NotImplementedError, as the code documents. -/
theorem C02_refines_getitem (s : BL) (sel : List Nat) (hc : Canon s) (hlt : ∀ a ∈ sel, a < s.n) :
    (sel.Nodup → ∃ s', getSel s sel = .ok s' ∧ abs s' = (abs s).select sel) ∧
    (¬ sel.Nodup → getSel s sel = .err .notImplemented) := by
  constructor
  · intro hnd
    refine ⟨_, getSel_total hc hnd hlt, abs_eq rfl (fun x y => ?_)⟩
    exact lookup_relabel hc.sorted hc.nodup hnd x y
  · intro hnd
    have h1 : sel.any (fun a => decide (a ≥ s.n)) = false := by
      rw [← Bool.not_eq_true]
      simp only [List.any_eq_true, decide_eq_true_eq, not_exists, not_and]
      intro a ha; have := hlt a ha; omega
    have h2 : hasDup sel = true := by
      cases h : hasDup sel with
      | true => rfl
      | false => exact absurd ((hasDup_false_iff sel).mp h) hnd
    simp [getSel, h1, h2]

/-- A boolean mask of the right length is the index array of its `nonzero` positions: both branches of the code are
the same function. -/
theorem C02_getitem_mask_is_index (s : BL) (m : List Bool) (hc : Canon s) (hlen : m.length = s.n) :
    getMask s m = getSel s (truePositions m) :=
  getMask_eq_getSel hc hlen

/-- Every kind of index object (mask, Python bool list, integer array / list with negative entries, slice with step)
refines the one `select` specification through the atoms it selects (`resolveIdx`). -/
theorem C02_refines_getitem_any (s : BL) (ix : Idx) (sel : List Nat) (hc : Canon s)
    (hr : resolveIdx s.n ix = some sel) (hnd : sel.Nodup) (hlt : ∀ a ∈ sel, a < s.n) :
    ∃ s', getitem s ix = .ok s' ∧ abs s' = (abs s).select sel := by
  have key : getitem s ix = getSel s sel := by
    cases ix with
    | mask m =>
      simp only [resolveIdx] at hr
      split at hr
      · rename_i hl; injection hr with hr; subst hr
        exact getMask_eq_getSel hc hl
      · cases hr
    | smask m =>
      simp only [resolveIdx] at hr
      split at hr
      · rename_i hl; injection hr with hr; subst hr
        have : ¬ m.length ≥ 2 := by omega
        simp only [getitem, this, if_false]
        exact getMask_eq_getSel hc hl.1
      · cases hr
    | blist m =>
      simp only [resolveIdx] at hr
      split at hr
      · rename_i he; injection hr with hr; subst hr
        simp [getitem, he]
      · rename_i he
        split at hr
        · rename_i hl; injection hr with hr; subst hr
          have : ¬ m.length ≠ s.n := by omega
          simp [getitem, he, hl]
        · cases hr
    | arr is =>
      simp only [resolveIdx] at hr
      simp [getitem, hr]
    | slice a b c =>
      simp only [resolveIdx] at hr
      split at hr
      · rename_i sel' hs; injection hr with hr; subst hr
        simp [getitem, hs]
      · cases hr
  rw [key]
  exact (C02_refines_getitem s sel hc hlt).1 hnd

/-- Index objects are safe: whatever a mask, bool list, integer array / list or slice (any step, any bounds) selects
lies below the atom count, and only an integer index array can select an atom twice.  A zero step is the only
rejected slice. -/
theorem C02_index_objects_sound (n : Nat) (ix : Idx) (sel : List Nat) (h : resolveIdx n ix = some sel) :
    (∀ a ∈ sel, a < n) ∧ ((∀ is, ix ≠ .arr is) → sel.Nodup) :=
  resolveIdx_sound h

theorem C02_slice_sound (n : Nat) (a b c : Option Int) :
    (c.getD 1 = 0 → sliceIndices n a b c = .error .valueError) ∧
    (c.getD 1 ≠ 0 → ∃ sel, sliceIndices n a b c = .ok sel ∧ sel.Nodup ∧ ∀ x ∈ sel, x < n) :=
  sliceIndices_sound n a b c

/-- **Defect (memory layout of the index object).**  The same selection is refused when the integer index array is
byte-swapped, and a mask is refused when it is read-only (typed memoryviews), although numpy selects with both; in the
native layout `getitemL` is `getitem`, to which all refinement theorems apply. -/
theorem C02_getitem_layout_defect (s : BL) :
    (∀ is sel, normArr s.n is = some sel → getitemL s (.arr is) .byteSwapped = .err .valueError) ∧
    (∀ m, getitemL s (.mask m) .readOnly = .err .valueError) ∧
    (∀ ix, getitemL s ix .native = getitem s ix) := by
  refine ⟨fun is sel h => by simp [getitemL, h], fun m => rfl, fun ix => rfl⟩

/-- A refused call changes nothing: whenever an operation does not succeed (exception, crash), the history goes on
from exactly the same pair of lists.  (For the real objects the oracle replays every refused call on the objects the
history continues with and compares all views, the cached maximum and the arguments with their snapshots.) -/
theorem C02_refused_call_changes_nothing (st : State) (op : Op) (h : ∀ st', apply st op ≠ .ok st') :
    step st op = st := by
  unfold step
  split
  · rename_i st' h'; exact absurd h' (h st')
  · rfl

/-! ## The remaining views as functions of the map

In the model every view is a *value* computed from the state at call time (`getBonds s i`, `getAllBonds s`,
`adjacencyMatrix s`, `asGraph s`, … are pure functions of `s`), so a view handed out earlier cannot change later and
editing it cannot change the list.  For the real objects this "no aliasing" part of "every view agrees with the
mapping" is not a consequence of the theorems: it is tied by the oracle (`_alias_problems` / `_ctor_alias_problems` in
`harness/props/c02.py`: snapshot every returned array/container before the next in-place operation, overwrite returned
objects and constructor arguments, re-check the list). -/

/-- `as_array()` / `as_set()` / `as_graph()` edges are the graph of the map (as values of the state at call time; that the
real `as_array()` is a copy and not the internal array is checked by the oracle's aliasing stream): a row `(i, j, t)` is present iff the map
sends `(i, j)` to `t`; rows are sorted, in range, and no row occurs twice. -/
theorem C02_views_as_array (s : BL) (hc : Canon s) :
    (∀ i j t, (i, j, t) ∈ s.bonds ↔ lookup s.bonds i j = some t) ∧
    (∀ i j t, (i, j, t) ∈ asGraph s ↔ lookup s.bonds i j = some t) ∧
    (∀ c ∈ s.bonds, c.1 ≤ c.2.1 ∧ c.2.1 < s.n) ∧ s.bonds.Nodup := by
  refine ⟨fun i j t => (lookup_eq_some_iff hc.nodup i j t).symm,
          fun i j t => (lookup_eq_some_iff hc.nodup i j t).symm,
          fun c h => ⟨hc.sorted c h, hc.bound c h⟩, ?_⟩
  have h := hc.nodup
  simp only [pairs, List.Nodup, List.pairwise_map] at h ⊢
  exact h.imp (fun hne e => hne (by rw [e]))

/-- `get_all_bonds()` never leaves its buffers (no `ub`): row `k` occupies `deg k ≤ cachedMax` slots (so the `-1`
padding up to the cached maximum fits), and without the `-1` entries it is exactly the `get_bonds(k)` table. -/
theorem C02_views_get_all_bonds (s : BL) (hw : WF s) :
    getAllBonds s = .ok ((List.range s.n).map (rowOf s.bonds)) ∧
    ∀ k, (rowOf s.bonds k).length ≤ s.cachedMax ∧ (rowOf s.bonds k).filterMap id = incident s.bonds k :=
  ⟨getAllBonds_ok hw, fun k => ⟨by rw [rowOf_length]; exact hw.2 k, rowOf_filterMap _ _⟩⟩

/-- `adjacency_matrix()` / `bond_type_matrix()`: entry `[i][j]` is the map's value on the unordered pair `{i, j}`
(`True`/type, or `False`/`-1` when there is no bond). -/
theorem C02_views_matrices (s : BL) (hc : Canon s) :
    ∃ A T, adjacencyMatrix s = .ok A ∧ bondTypeMatrix s = .ok T ∧
      ∀ i j, i < s.n → j < s.n →
        (A[i]?.bind (·[j]?)) = some (sym s.bonds i j).isSome ∧ (T[i]?.bind (·[j]?)) = some (sym s.bonds i j) := by
  refine ⟨_, _, by simp [adjacencyMatrix, canon_inRange hc]; rfl, by simp [bondTypeMatrix, canon_inRange hc]; rfl, ?_⟩
  intro i j hi hj
  simp [List.getElem?_map, List.getElem?_range, hi, hj]

/-- `(i, j) in bonds` for non-negative indices answers membership of the unordered pair in the map. -/
theorem C02_views_contains (s : BL) (i j : Int) (hi : 0 ≤ i ∧ i ≤ 4294967295) (hj : 0 ≤ j ∧ j ≤ 4294967295) :
    containsPair s i j = .ok (sym s.bonds i.toNat j.toNat).isSome := by
  unfold containsPair
  have h1 : ¬ (min i j < 0 ∨ min i j > 4294967295) := by omega
  have h2 : ¬ (max i j < 0 ∨ max i j > 4294967295) := by omega
  simp only [h1, h2, if_false]
  have e1 : (min i j).toNat = min i.toNat j.toNat := by omega
  have e2 : (max i j).toNat = max i.toNat j.toNat := by omega
  rw [e1, e2, any_isPair_eq]; rfl

/-! ## Totality and the combined refinement over histories -/

/-- `merge` of two well-formed lists never fails (and never reaches an unchecked access). -/
theorem C02_merge_total (s o : BL) (hs : WF s) (ho : WF o) :
    ∃ s', merge s o = .ok s' ∧ abs s' = (abs s).merge (abs o) := by
  obtain ⟨s', h⟩ := merge_total hs ho
  exact ⟨s', h, abs_eq (merge_wf h).2 (merge_lookup hs.1 ho.1 h)⟩

/-- **Refinement, one step.** Inside the acceptance domain every operation succeeds on well-formed lists and the map
of the result is the reference operation applied to the map of the input: construction — first type wins; add — the
new type; merge — the argument; concatenate — disjoint union with offset; getitem — relabelling by the selection. -/
theorem C02_refines_step (st : State) (op : Op) (hw : WFS st) (hv : Valid st op) :
    (∃ st', apply st op = .ok st') ∧ absState (step st op) = (absState st).step op := by
  obtain ⟨hc, ha⟩ := hw
  have fin : ∀ st' : State, apply st op = .ok st' → abs st'.cur = ((absState st).step op).cur →
      abs st'.aux = ((absState st).step op).aux →
      (∃ st', apply st op = .ok st') ∧ absState (step st op) = (absState st).step op := by
    intro st' h h1 h2
    refine ⟨⟨st', h⟩, ?_⟩
    rw [step_of_apply h]
    cases hs : (absState st).step op
    rw [hs] at h1 h2
    simp only at h1 h2
    simp [absState, h1, h2]
  cases op with
  | new toAux n typed input =>
    obtain ⟨hrows, htypes⟩ := hv
    obtain ⟨rows, hr⟩ := Option.isSome_iff_exists.mp hrows
    have htot : ∃ b, newBL n typed input = .ok b := by
      unfold newBL
      split
      · exact ⟨_, rfl⟩
      · simp only [hr, ctorCore]
        have : (typed && rows.any (fun c => decide (c.2.2 ≥ 10))) = false := by
          cases typed
          · rfl
          · simp only [Bool.true_and]
            rw [← Bool.not_eq_true]
            simp only [List.any_eq_true, decide_eq_true_eq, not_exists, not_and]
            intro c hcm
            have hm : c.2.2 ∈ rows.map (·.2.2) := List.mem_map.mpr ⟨c, hcm, rfl⟩
            rw [normRows_types hr] at hm
            obtain ⟨r, hrm, he⟩ := List.mem_map.mp hm
            have := htypes rfl r hrm
            omega
        simp only [this, Bool.false_eq_true, if_false]
        exact ⟨_, rfl⟩
    obtain ⟨b, hb⟩ := htot
    obtain ⟨rows', hr', hn, hl⟩ := C02_refines_new n typed input b hb
    have hrr : rows' = rows := by rw [hr] at hr'; injection hr' with e; exact e.symm
    subst hrr
    have habs : abs b = Spec.ofRows n (rows'.map (sortRow typed)) :=
      abs_eq hn (fun x y => by rw [hl, lookup_eq_find]; rfl)
    cases toAux
    · refine fin ⟨b, st.aux⟩ (by simp [apply, hb]) ?_ rfl
      simp [SpecState.step, absState, habs, hr]
    · refine fin ⟨st.cur, b⟩ (by simp [apply, hb]) rfl ?_
      simp [SpecState.step, absState, habs, hr]
  | swap => exact fin ⟨st.aux, st.cur⟩ rfl rfl rfl
  | dup => exact fin ⟨st.cur, st.cur⟩ rfl rfl rfl
  | add i j t =>
    obtain ⟨hn, hi, hj, ht0, ht⟩ := hv
    obtain ⟨s', h, hn', hl⟩ := C02_refines_add st.cur i j t hc hn hi hj ⟨ht0, ht⟩
    refine fin ⟨s', st.aux⟩ (by simp [apply, h, Res.toState]) (abs_eq hn' (fun x y => ?_)) rfl
    rw [hl]; rfl
  | remove i j =>
    obtain ⟨hn, hi, hj⟩ := hv
    obtain ⟨s', h, hn', hl⟩ := C02_refines_remove st.cur i j hc hn hi hj
    refine fin ⟨s', st.aux⟩ (by simp [apply, h, Res.toState]) (abs_eq hn' (fun x y => ?_)) rfl
    rw [hl]; rfl
  | removeTo i =>
    obtain ⟨hn, hi⟩ := hv
    have hk := ((C02_index_guard_partial st.cur.n i hn).1 hi).1
    have h : removeBondsTo st.cur i =
        .ok { st.cur with bonds := st.cur.bonds.filter fun c => !(c.1 == (i % st.cur.n).toNat || c.2.1 == (i % st.cur.n).toNat) } := by
      simp [removeBondsTo, hk]
    obtain ⟨hn', hl⟩ := C02_refines_remove_to st.cur _ i _ hk h
    refine fin ⟨_, st.aux⟩ (by simp [apply, h, Res.toState]) (abs_eq hn' (fun x y => ?_)) rfl
    rw [hl]; rfl
  | removeBonds =>
    refine fin ⟨removeBonds st.cur st.aux, st.aux⟩ rfl (abs_eq rfl (fun x y => ?_)) rfl
    rw [C02_refines_remove_bonds]; rfl
  | merge =>
    obtain ⟨s', h, habs⟩ := C02_merge_total st.cur st.aux hc ha
    exact fin ⟨s', st.aux⟩ (by simp [apply, h, Res.toState]) habs rfl
  | concat =>
    have h : concatenate [st.cur, st.aux] = .ok ⟨_, _, _⟩ := rfl
    obtain ⟨hn', hl⟩ := C02_refines_concat st.cur st.aux _ h
    refine fin ⟨_, st.aux⟩ (by simp [apply, h, Res.toState]) (abs_eq hn' (fun x y => ?_)) rfl
    rw [hl]; rfl
  | concat3 =>
    have h : concatenate [st.cur, st.aux, st.cur] =
        .ok ⟨(concatFrom 0 [st.cur, st.aux, st.cur]).2.1, (concatFrom 0 [st.cur, st.aux, st.cur]).1,
             (concatFrom 0 [st.cur, st.aux, st.cur]).2.2⟩ := rfl
    refine fin ⟨⟨(concatFrom 0 [st.cur, st.aux, st.cur]).2.1, (concatFrom 0 [st.cur, st.aux, st.cur]).1,
             (concatFrom 0 [st.cur, st.aux, st.cur]).2.2⟩, st.aux⟩
      (by simp [apply, h, Res.toState]) (abs_eq ?_ (fun x y => ?_)) rfl
    · show (concatFrom 0 [st.cur, st.aux, st.cur]).2.1 = st.cur.n + st.aux.n + st.cur.n
      simp [concatFrom]
    · show lookup (concatFrom 0 [st.cur, st.aux, st.cur]).1 x y = _
      simp only [concatFrom, lookup_append, lookup_shift, lookup_nil, Nat.zero_le, and_self, if_true, Nat.sub_zero,
        Nat.zero_add, Option.or_none]
      rfl
  | offset k =>
    obtain ⟨hk0, hk1⟩ := hv
    have h : offsetIndices st.cur k = .ok ⟨st.cur.n + k.toNat, shift k.toNat st.cur.bonds, st.cur.cachedMax⟩ := by
      have h1 : ¬ (k < -2147483648 ∨ k > 2147483647) := by omega
      have h2 : ¬ k < 0 := by omega
      simp [offsetIndices, h1, h2]
    obtain ⟨hn', hl⟩ := C02_refines_offset st.cur _ k h
    refine fin ⟨_, st.aux⟩ (by simp [apply, h, Res.toState]) (abs_eq hn' (fun x y => ?_)) rfl
    rw [hl]; rfl
  | rmArom =>
    refine fin ⟨removeAromaticity st.cur, st.aux⟩ rfl (abs_eq rfl (fun x y => ?_)) rfl
    rw [(C02_refines_types st.cur x y).1]; rfl
  | rmOrder =>
    refine fin ⟨removeBondOrder st.cur, st.aux⟩ rfl (abs_eq rfl (fun x y => ?_)) rfl
    rw [(C02_refines_types st.cur x y).2]; rfl
  | getitem ix =>
    obtain ⟨sel, hr, hnd⟩ := hv
    obtain ⟨s', h, habs⟩ := C02_refines_getitem_any st.cur ix sel hc.1 hr hnd (resolveIdx_sound hr).1
    have hspec : ((absState st).step (.getitem ix)).cur = (abs st.cur).select sel := by
      show (abs st.cur).select ((resolveIdx st.cur.n ix).getD []) = _
      rw [hr]; rfl
    exact fin ⟨s', st.aux⟩ (by simp [apply, h, Res.toState]) (by rw [hspec]; exact habs) rfl

/-- **Refinement over whole histories.** From the empty lists, a history inside the acceptance domain leaves the
real lists observationally equal to the reference maps obtained by folding the reference operations. -/
theorem C02_refines (ops : List Op) (st : State) (hw : WFS st) (hv : ValidRun st ops) :
    absState (ops.foldl step st) = ops.foldl SpecState.step (absState st) ∧ WFS (ops.foldl step st) := by
  induction ops generalizing st with
  | nil => exact ⟨rfl, hw⟩
  | cons op ops ih =>
    obtain ⟨hv1, hv2⟩ := hv
    have hsafe : OpSafe st op := by
      cases op <;> simp only [OpSafe]
      case add i j t => exact ⟨hv1.1, hv1.2.1.1, hv1.2.2.1.1⟩
    have hw' := step_wf hw hsafe
    have := ih (step st op) hw' hv2
    simp only [List.foldl_cons]
    rw [this.1, (C02_refines_step st op hw hv1).2]
    exact ⟨rfl, this.2⟩

/-! ## Machine widths, array dtypes, refusals (audit pass 6)

Every hypothesis above that bounds a size or restricts an input has a counterpart here that says what the code does
*outside* it: it refuses with a definite exception (`…_rejects`), coincides with the core (`…_agrees`), or violates
the property (`…_defect`, listed as known findings with the same witnesses). -/

/-- The index guard for every atom count a `uint32` can hold (`n < 2^32`), for every `int32` index: exactly the
three-way split of `_to_positive_index`. -/
theorem C02_index_guard_32 (n : Nat) (i : Int) (hn : n < 4294967296) (h1 : -2147483648 ≤ i) (h2 : i ≤ 2147483647) :
    posIndex n i =
      if 0 ≤ i then (if i < n then .ok i.toNat else .err .indexError)
      else if i = -(n : Int) - 1 then .crash
      else .ok ((i + n) % 4294967296).toNat := by
  have ht : toInt32 i = .ok (BitVec.ofInt 32 i) := by simp [toInt32, h1, h2]
  simp only [posIndex, ht]
  exact posIndex32_spec32 n i hn h1 h2

/-- An atom count that does not fit `uint32` makes every scalar-index method raise OverflowError. -/
theorem C02_index_atom_count_rejects (n : Nat) (i : Int) (hn : n ≥ 4294967296) (h1 : -2147483648 ≤ i) (h2 : i ≤ 2147483647) :
    posIndex n i = .err .overflowError := by
  have ht : toInt32 i = .ok (BitVec.ofInt 32 i) := by simp [toInt32, h1, h2]
  simp [posIndex, ht, posIndex32, hn]

/-- **Defect.** On a list with more than `2^31` atoms the valid atom indices `≥ 2^31` cannot be addressed: the
`int32` argument conversion refuses them (while `-2^31`, out of range for a small list, is atom `n - 2^31`). -/
theorem C02_index_huge_list_defect :
    posIndex 2147483653 2147483648 = .err .overflowError ∧ posIndex 2147483653 (-2147483648) = .ok 5 := by
  decide

/-- Constructor: inside the machine bounds (`n < 2^32`, the array dtype can hold `n`) and with non-negative bond
types the full constructor is the core `newBL`. -/
theorem C02_new_full_agrees (n : Nat) (typed : Bool) (input : List (Int × Int × Int)) (dmax : Option Nat)
    (hn : n < 4294967296) (hd : dtypeRefuses n dmax = false) (ht : ∀ r ∈ input, 0 ≤ r.2.2) :
    newBLFull n typed input dmax = newBL n typed (input.map fun r => (r.1, r.2.1, r.2.2.toNat)) := by
  unfold newBLFull
  have h1 : ¬ n ≥ 4294967296 := by omega
  have h2 : input.all (fun r => decide (0 ≤ r.2.2)) = true := by simpa using ht
  simp only [h1, if_false, hd, h2, if_true, Bool.false_eq_true]
  split
  · rename_i he
    have : input = [] := by simpa using he
    subst this; rfl
  · rfl

/-- Constructor refusals, exactly: atom count beyond `uint32` → OverflowError; a non-empty array whose dtype cannot
hold the atom count → OverflowError (NumPy); some index outside `[-n, n)` → IndexError; otherwise some type `≥ 10` →
ValueError. -/
theorem C02_new_rejects (n : Nat) (typed : Bool) :
    (∀ input dmax, n ≥ 4294967296 → newBLFull n typed input dmax = .err .overflowError) ∧
    (∀ input dmax, n < 4294967296 → input ≠ [] → dtypeRefuses n dmax = true →
        newBLFull n typed input dmax = .err .overflowError) ∧
    (∀ input, input ≠ [] → normRows n input = none → newBL n typed input = .err .indexError) ∧
    (∀ input rows, input ≠ [] → normRows n input = some rows → typed = true → (∃ c ∈ rows, c.2.2 ≥ 10) →
        newBL n typed input = .err .valueError) := by
  refine ⟨fun input dmax h => by simp [newBLFull, h], fun input dmax h hne hd => ?_, fun input hne hr => ?_,
          fun input rows hne hr ht hex => ?_⟩
  · have h1 : ¬ n ≥ 4294967296 := by omega
    have h2 : input.isEmpty = false := by cases input <;> simp_all
    simp [newBLFull, h1, h2, hd]
  · have h2 : input.isEmpty = false := by cases input <;> simp_all
    simp [newBL, h2, hr]
  · have h2 : input.isEmpty = false := by cases input <;> simp_all
    have h3 : rows.any (fun c => decide (c.2.2 ≥ 10)) = true := by
      obtain ⟨c, hc, h⟩ := hex
      simp only [List.any_eq_true, decide_eq_true_eq]; exact ⟨c, hc, h⟩
    simp [newBL, h2, hr, ctorCore, ht, h3]

/-- **Defect.** A negative bond type passes the `>= len(BondType)` test and is stored as `t mod 2^32`: the list
holds a type that is no `BondType` (`as_graph()` then raises, `bond_type_matrix()` shows `-1` = "no bond"). -/
theorem C02_new_negative_type_defect :
    newBLFull 3 true [(0, 1, -1), (1, 2, -7)] none = .ok ⟨3, [(0, 1, 4294967295), (1, 2, 4294967289)], 2⟩ := by
  decide

/-- `add_bond` refusals for `int32` indices: a type `≥ 10` → ValueError before the indices are looked at; with
indices in `[-n, n)` a negative type → OverflowError (the `uint32` store), the list unchanged in both cases. -/
theorem C02_add_rejects (s : BL) (i j t : Int) (hi : -2147483648 ≤ i ∧ i ≤ 2147483647)
    (hj : -2147483648 ≤ j ∧ j ≤ 2147483647) :
    (t ≥ 10 → addBond s i j t = .err .valueError) ∧
    (t < 0 → s.n < 2147483648 → (-(s.n : Int) ≤ i ∧ i < s.n) → (-(s.n : Int) ≤ j ∧ j < s.n) →
        addBond s i j t = .err .overflowError) := by
  constructor
  · intro ht
    simp [addBond, withIndices, toInt32, hi.1, hi.2, hj.1, hj.2, ht]
  · intro ht hn hi' hj'
    have h10 : ¬ t ≥ 10 := by omega
    have htc : (if t ≥ 10 then some Err.valueError else none) = none := by simp [h10]
    unfold addBond
    rw [htc, withIndices_valid _ hn hi' hj']
    simp [addCore, ht]

/-- `concatenate`: the running atom count is a C `int`: a total above `2^31 - 1` is refused with OverflowError
(although a `uint32` could hold it); below, the full function is the core. -/
theorem C02_concat_rejects (ls : List BL) (hne : ls ≠ []) :
    ((ls.map (·.n)).sum > 2147483647 → concatenateFull ls = .err .overflowError) ∧
    ((ls.map (·.n)).sum ≤ 2147483647 → concatenateFull ls = concatenate ls) := by
  have h : ls.isEmpty = false := by cases ls <;> simp_all
  constructor
  · intro hs; simp [concatenateFull, h, hs]
  · intro hs
    have : ¬ (ls.map (·.n)).sum > 2147483647 := by omega
    simp [concatenateFull, h, this]

/-- `offset_indices`: as long as the new atom count fits `uint32` nothing wraps and the full function is the core;
a negative offset → ValueError, an offset outside C `int` → OverflowError. -/
theorem C02_offset_full_agrees (s : BL) (k : Int) (hc : Canon s) :
    (0 ≤ k → s.n + k.toNat ≤ 4294967296 → offsetFull s k = offsetIndices s k) ∧
    (k < 0 → -2147483648 ≤ k → offsetFull s k = .err .valueError) ∧
    (k > 2147483647 → offsetFull s k = .err .overflowError) := by
  refine ⟨fun h0 hfit => ?_, fun hneg hlo => ?_, fun hbig => ?_⟩
  · by_cases hk : k > 2147483647
    · have : k < -2147483648 ∨ k > 2147483647 := Or.inr hk
      simp [offsetFull, offsetIndices, this]
    · have h1 : ¬ (k < -2147483648 ∨ k > 2147483647) := by omega
      have h2 : ¬ k < 0 := by omega
      simp only [offsetFull, offsetIndices, h1, h2, if_false]
      have : wrap32 (shift k.toNat s.bonds) = shift k.toNat s.bonds := by
        simp only [wrap32, shift, List.map_map]
        apply List.map_congr_left
        intro c hcm
        have hb := hc.bound c hcm
        have hs := hc.sorted c hcm
        simp only [Function.comp]
        rw [Nat.mod_eq_of_lt (by omega), Nat.mod_eq_of_lt (by omega)]
      rw [this]
  · have h1 : ¬ (k < -2147483648 ∨ k > 2147483647) := by omega
    simp [offsetFull, offsetIndices, h1, hneg]
  · have : k < -2147483648 ∨ k > 2147483647 := Or.inr hbig
    simp [offsetFull, offsetIndices, this]

/-- **Defect.** Two legal offsets push the atom count beyond `2^32`: the `uint32` bond array wraps silently
(`(2^32-1, 0)`: unsorted, unrelated atoms) while the Python atom count does not. -/
theorem C02_offset_wrap_defect :
    (match offsetFull ⟨3, [(0, 1, 1), (1, 2, 2)], 2⟩ 2147483647 with
     | .ok r => offsetFull r 2147483647
     | e => e) = .ok ⟨4294967297, [(4294967294, 4294967295, 1), (4294967295, 0, 2)], 2⟩ := by
  decide

/-- `copy()` of a list whose atom count left `uint32` (only reachable through `C02_offset_wrap_defect`) raises
OverflowError; every other list is copied as it is. -/
theorem C02_copy_rejects (s : BL) :
    (s.n ≥ 4294967296 → copyFull s = .err .overflowError) ∧ (s.n < 4294967296 → copyFull s = .ok s) := by
  constructor <;> intro h
  · simp [copyFull, h]
  · have : ¬ s.n ≥ 4294967296 := by omega
    simp [copyFull, this]

/-- `__getitem__` with an integer index array: a dtype that cannot hold the atom count is refused with OverflowError
whatever the array contains (**defect**: NumPy itself selects with such arrays); otherwise dtype plays no role. -/
theorem C02_getitem_dtype (s : BL) (is : List Int) (layout : Layout) (dmax : Option Nat) :
    (dtypeRefuses s.n dmax = true → getitemFull s (.arr is) layout dmax = .err .overflowError) ∧
    (dtypeRefuses s.n dmax = false → getitemFull s (.arr is) layout dmax = getitemL s (.arr is) layout) := by
  constructor <;> intro h <;> simp [getitemFull, h]

theorem C02_getitem_dtype_defect :
    getitemFull ⟨300, [(0, 5, 1)], 1⟩ (.arr [5, 0]) .native (some 255) = .err .overflowError ∧
    getitemFull ⟨300, [(0, 5, 1)], 1⟩ (.arr [5, 0]) .native none = .ok ⟨2, [(0, 1, 1)], 1⟩ := by
  decide

/-- `__getitem__` refusals of well-defined index objects: an integer array with an entry outside `[-n, n)` →
IndexError; a Python bool list of the wrong (non-zero) length → IndexError; a slice with step 0 → ValueError
(`C02_slice_sound`); a duplicate → NotImplementedError (`C02_refines_getitem`). -/
theorem C02_getitem_rejects (s : BL) :
    (∀ is, normArr s.n is = none → getitem s (.arr is) = .err .indexError) ∧
    (∀ m, m ≠ [] → m.length ≠ s.n → getitem s (.blist m) = .err .indexError) ∧
    (∀ a b, getitem s (.slice a b (some 0)) = .err .valueError) := by
  refine ⟨fun is h => by simp [getitem, h], fun m hne hl => ?_, fun a b => by simp [getitem, sliceIndices]⟩
  have : m.isEmpty = false := by cases m <;> simp_all
  simp [getitem, this, hl]

/-! ## Obligations on the tables regenerated from `bonds.pyx` on every run -/

/-- `BondType` is `0..len-1` without gaps (so `>= len(BondType)` is exactly "not a member"), the model's bound `10`
is `len(BondType)`, both guards are present, the aromaticity tables of `without_aromaticity` and `remove_aromaticity`
agree with each other and with the model, the sequential replacement equals the simultaneous one, its image contains
no aromatic type and it is idempotent. -/
theorem C02_gen_bond_types :
    Gen.C02.bondTypes.map (·.2) = List.range Gen.C02.bondTypes.length ∧
    Gen.C02.bondTypes.length = 10 ∧
    (Gen.C02.bondTypes.map (·.1)).Nodup ∧
    Gen.C02.typeGuards = 2 ∧
    Gen.C02.removeAromaticity = aromPairs ∧
    Gen.C02.withoutAromaticity = Gen.C02.removeAromaticity ∧
    (∀ t, t < 10 → applyPairs Gen.C02.removeAromaticity t = ((Gen.C02.withoutAromaticity.lookup t).getD t)) ∧
    (∀ t, t < 10 → applyPairs Gen.C02.removeAromaticity t < 10 ∧
        applyPairs Gen.C02.removeAromaticity (applyPairs Gen.C02.removeAromaticity t) = applyPairs Gen.C02.removeAromaticity t ∧
        (Gen.C02.removeAromaticity.lookup (applyPairs Gen.C02.removeAromaticity t)) = none) ∧
    (∀ p ∈ Gen.C02.removeAromaticity,
        (Gen.C02.bondTypes.find? (·.2 == p.1)).map (·.1) = (Gen.C02.bondTypes.find? (·.2 == p.2)).map ("AROMATIC_" ++ ·.1)
        ∨ p = (9, 0)) := by
  decide

/-- The control skeleton of `_to_positive_index` is the one that `toPositiveIndex` models (negative branch without
an effective check, `except -1` signature found by the extractor). -/
theorem C02_gen_index_guard :
    Gen.C02.toPositiveIndexSkeleton =
      ["if index < 0:", "pos_index = <uint32> (array_length + index)", "if pos_index < 0:", "return pos_index",
       "else:", "if <uint32> index >= array_length:", "return <uint32> index"] := by
  decide

/-! ## The source text of every modelled function is the one the model was written against (pass 7)

`Gen.C02.sig_*` / `body_*` are regenerated from `bonds.pyx` on every run; `Source.*` is the frozen text next to the model.
A changed guard, comparison operator, constant, fill value, dtype, default argument, C parameter type, helper call, order of
checks or steps, exception class or `except` clause in function `f` breaks `C02_gen_fn_f` — for every input at once. -/

theorem C02_gen_fn_BondType_without_aromaticity : Gen.C02.sig_BondType_without_aromaticity = Source.sig_BondType_without_aromaticity ∧ Gen.C02.body_BondType_without_aromaticity = Source.body_BondType_without_aromaticity := ⟨rfl, rfl⟩
theorem C02_gen_fn_dunder_initdunder : Gen.C02.sig_dunder_initdunder = Source.sig_dunder_initdunder ∧ Gen.C02.body_dunder_initdunder = Source.body_dunder_initdunder := ⟨rfl, rfl⟩
theorem C02_gen_fn_concatenate : Gen.C02.sig_concatenate = Source.sig_concatenate ∧ Gen.C02.body_concatenate = Source.body_concatenate := ⟨rfl, rfl⟩
theorem C02_gen_fn_dunder_copy_createdunder : Gen.C02.sig_dunder_copy_createdunder = Source.sig_dunder_copy_createdunder ∧ Gen.C02.body_dunder_copy_createdunder = Source.body_dunder_copy_createdunder := ⟨rfl, rfl⟩
theorem C02_gen_fn_dunder_copy_filldunder : Gen.C02.sig_dunder_copy_filldunder = Source.sig_dunder_copy_filldunder ∧ Gen.C02.body_dunder_copy_filldunder = Source.body_dunder_copy_filldunder := ⟨rfl, rfl⟩
theorem C02_gen_fn_offset_indices : Gen.C02.sig_offset_indices = Source.sig_offset_indices ∧ Gen.C02.body_offset_indices = Source.body_offset_indices := ⟨rfl, rfl⟩
theorem C02_gen_fn_as_array : Gen.C02.sig_as_array = Source.sig_as_array ∧ Gen.C02.body_as_array = Source.body_as_array := ⟨rfl, rfl⟩
theorem C02_gen_fn_as_set : Gen.C02.sig_as_set = Source.sig_as_set ∧ Gen.C02.body_as_set = Source.body_as_set := ⟨rfl, rfl⟩
theorem C02_gen_fn_as_graph : Gen.C02.sig_as_graph = Source.sig_as_graph ∧ Gen.C02.body_as_graph = Source.body_as_graph := ⟨rfl, rfl⟩
theorem C02_gen_fn_remove_aromaticity : Gen.C02.sig_remove_aromaticity = Source.sig_remove_aromaticity ∧ Gen.C02.body_remove_aromaticity = Source.body_remove_aromaticity := ⟨rfl, rfl⟩
theorem C02_gen_fn_remove_bond_order : Gen.C02.sig_remove_bond_order = Source.sig_remove_bond_order ∧ Gen.C02.body_remove_bond_order = Source.body_remove_bond_order := ⟨rfl, rfl⟩
theorem C02_gen_fn_get_atom_count : Gen.C02.sig_get_atom_count = Source.sig_get_atom_count ∧ Gen.C02.body_get_atom_count = Source.body_get_atom_count := ⟨rfl, rfl⟩
theorem C02_gen_fn_get_bond_count : Gen.C02.sig_get_bond_count = Source.sig_get_bond_count ∧ Gen.C02.body_get_bond_count = Source.body_get_bond_count := ⟨rfl, rfl⟩
theorem C02_gen_fn_get_bonds : Gen.C02.sig_get_bonds = Source.sig_get_bonds ∧ Gen.C02.body_get_bonds = Source.body_get_bonds := ⟨rfl, rfl⟩
theorem C02_gen_fn_get_all_bonds : Gen.C02.sig_get_all_bonds = Source.sig_get_all_bonds ∧ Gen.C02.body_get_all_bonds = Source.body_get_all_bonds := ⟨rfl, rfl⟩
theorem C02_gen_fn_adjacency_matrix : Gen.C02.sig_adjacency_matrix = Source.sig_adjacency_matrix ∧ Gen.C02.body_adjacency_matrix = Source.body_adjacency_matrix := ⟨rfl, rfl⟩
theorem C02_gen_fn_bond_type_matrix : Gen.C02.sig_bond_type_matrix = Source.sig_bond_type_matrix ∧ Gen.C02.body_bond_type_matrix = Source.body_bond_type_matrix := ⟨rfl, rfl⟩
theorem C02_gen_fn_add_bond : Gen.C02.sig_add_bond = Source.sig_add_bond ∧ Gen.C02.body_add_bond = Source.body_add_bond := ⟨rfl, rfl⟩
theorem C02_gen_fn_remove_bond : Gen.C02.sig_remove_bond = Source.sig_remove_bond ∧ Gen.C02.body_remove_bond = Source.body_remove_bond := ⟨rfl, rfl⟩
theorem C02_gen_fn_remove_bonds_to : Gen.C02.sig_remove_bonds_to = Source.sig_remove_bonds_to ∧ Gen.C02.body_remove_bonds_to = Source.body_remove_bonds_to := ⟨rfl, rfl⟩
theorem C02_gen_fn_remove_bonds : Gen.C02.sig_remove_bonds = Source.sig_remove_bonds ∧ Gen.C02.body_remove_bonds = Source.body_remove_bonds := ⟨rfl, rfl⟩
theorem C02_gen_fn_merge : Gen.C02.sig_merge = Source.sig_merge ∧ Gen.C02.body_merge = Source.body_merge := ⟨rfl, rfl⟩
theorem C02_gen_fn_dunder_adddunder : Gen.C02.sig_dunder_adddunder = Source.sig_dunder_adddunder ∧ Gen.C02.body_dunder_adddunder = Source.body_dunder_adddunder := ⟨rfl, rfl⟩
theorem C02_gen_fn_dunder_getitemdunder : Gen.C02.sig_dunder_getitemdunder = Source.sig_dunder_getitemdunder ∧ Gen.C02.body_dunder_getitemdunder = Source.body_dunder_getitemdunder := ⟨rfl, rfl⟩
theorem C02_gen_fn_dunder_iterdunder : Gen.C02.sig_dunder_iterdunder = Source.sig_dunder_iterdunder ∧ Gen.C02.body_dunder_iterdunder = Source.body_dunder_iterdunder := ⟨rfl, rfl⟩
theorem C02_gen_fn_dunder_strdunder : Gen.C02.sig_dunder_strdunder = Source.sig_dunder_strdunder ∧ Gen.C02.body_dunder_strdunder = Source.body_dunder_strdunder := ⟨rfl, rfl⟩
theorem C02_gen_fn_dunder_eqdunder : Gen.C02.sig_dunder_eqdunder = Source.sig_dunder_eqdunder ∧ Gen.C02.body_dunder_eqdunder = Source.body_dunder_eqdunder := ⟨rfl, rfl⟩
theorem C02_gen_fn_dunder_containsdunder : Gen.C02.sig_dunder_containsdunder = Source.sig_dunder_containsdunder ∧ Gen.C02.body_dunder_containsdunder = Source.body_dunder_containsdunder := ⟨rfl, rfl⟩
theorem C02_gen_fn_get_max_bonds_per_atom : Gen.C02.sig_get_max_bonds_per_atom = Source.sig_get_max_bonds_per_atom ∧ Gen.C02.body_get_max_bonds_per_atom = Source.body_get_max_bonds_per_atom := ⟨rfl, rfl⟩
theorem C02_gen_fn_remove_redundant_bonds : Gen.C02.sig_remove_redundant_bonds = Source.sig_remove_redundant_bonds ∧ Gen.C02.body_remove_redundant_bonds = Source.body_remove_redundant_bonds := ⟨rfl, rfl⟩
theorem C02_gen_fn_to_positive_index : Gen.C02.sig_to_positive_index = Source.sig_to_positive_index ∧ Gen.C02.body_to_positive_index = Source.body_to_positive_index := ⟨rfl, rfl⟩
theorem C02_gen_fn_to_positive_index_array : Gen.C02.sig_to_positive_index_array = Source.sig_to_positive_index_array ∧ Gen.C02.body_to_positive_index_array = Source.body_to_positive_index_array := ⟨rfl, rfl⟩
theorem C02_gen_fn_to_index_array : Gen.C02.sig_to_index_array = Source.sig_to_index_array ∧ Gen.C02.body_to_index_array = Source.body_to_index_array := ⟨rfl, rfl⟩
theorem C02_gen_fn_in_array : Gen.C02.sig_in_array = Source.sig_in_array ∧ Gen.C02.body_in_array = Source.body_in_array := ⟨rfl, rfl⟩
theorem C02_gen_fn_sort : Gen.C02.sig_sort = Source.sig_sort ∧ Gen.C02.body_sort = Source.body_sort := ⟨rfl, rfl⟩
theorem C02_gen_fn_invert_index : Gen.C02.sig_invert_index = Source.sig_invert_index ∧ Gen.C02.body_invert_index = Source.body_invert_index := ⟨rfl, rfl⟩

/-- C widths: the scalar atom-index parameters are `int32`, atom counts `uint32`, the offset a C `int`; the model's
argument conversion `toInt32` accepts exactly the `int32` range, `posIndex32`/`newBLFull` refuse exactly beyond the
`uint32` range, `offsetIndices` refuses exactly outside the `int` range. -/
theorem C02_gen_param_types :
    Gen.C02.sig_get_bonds.2.2.map (·.2.1) = ["", "int32"] ∧
    Gen.C02.sig_add_bond.2.2.map (·.2.1) = ["", "int32", "int32", ""] ∧
    Gen.C02.sig_remove_bond.2.2.map (·.2.1) = ["", "int32", "int32"] ∧
    Gen.C02.sig_remove_bonds_to.2.2.map (·.2.1) = ["", "int32"] ∧
    Gen.C02.sig_to_positive_index = ("uint32", "except-1", [("a0", "int32", ""), ("a1", "uint32", "")]) ∧
    Gen.C02.sig_dunder_initdunder.2.2.map (·.2.1) = ["", "uint32", "np.ndarray"] ∧
    Gen.C02.sig_offset_indices.2.2.map (·.2.1) = ["", "int"] ∧
    Gen.C02.sig_invert_index.2.2.map (·.2.1) = ["IndexType[:]", "uint32"] ∧
    Source.ctypeRange "int32" = some (-2147483648, 2147483647) ∧ Source.ctypeRange "uint32" = some (0, 4294967295) ∧
    (∀ i : Int, (∃ v, toInt32 i = .ok v) ↔ (-2147483648 ≤ i ∧ i ≤ 2147483647)) ∧
    BitVec.ofInt 32 (-1) = sentinel := by
  refine ⟨rfl, rfl, rfl, rfl, rfl, rfl, rfl, rfl, rfl, rfl, fun i => ?_, by decide⟩
  unfold toInt32
  constructor
  · rintro ⟨v, h⟩
    split at h
    · assumption
    · cases h
  · intro h; exact ⟨_, by rw [if_pos h]⟩

/-- Default arguments the adapter and the protocol rely on: `add_bond(i, j)` uses `BondType.ANY`, which is `0`
(the `add2` op is `Op.add i j 0`); `BondList(n)` has `bonds=None` (the `@none` spelling → the empty list). -/
theorem C02_gen_defaults :
    Gen.C02.sig_add_bond.2.2.map (·.2.2) = ["", "", "", "BondType.ANY"] ∧
    Gen.C02.bondTypes.lookup "ANY" = some 0 ∧
    Gen.C02.sig_dunder_initdunder.2.2.map (·.2.2) = ["", "", "None"] ∧
    newBLFull 5 true [] none = .ok (BL.empty 5) := by
  decide

/-- Exception classes: what each modelled function raises itself is what the model returns for that refusal
(`Err.toString` of the model's constructors, in source order). -/
theorem C02_gen_exception_classes :
    Gen.C02.raises_dunder_initdunder = [Err.valueError, .valueError, .valueError].map Err.toString ∧
    Gen.C02.raises_add_bond = [Err.valueError].map Err.toString ∧
    Gen.C02.raises_offset_indices = [Err.valueError].map Err.toString ∧
    Gen.C02.raises_to_positive_index = [Err.indexError, .indexError].map Err.toString ∧
    Gen.C02.raises_to_positive_index_array = [Err.indexError, .indexError].map Err.toString ∧
    Gen.C02.raises_invert_index = [Err.notImplemented].map Err.toString ∧
    Gen.C02.raises_dunder_iterdunder = [Err.typeError].map Err.toString ∧
    Gen.C02.raises_dunder_containsdunder = [Err.typeError].map Err.toString ∧
    Gen.C02.raises_get_bonds = [] ∧ Gen.C02.raises_remove_bond = [] ∧ Gen.C02.raises_remove_bonds_to = [] ∧
    Gen.C02.raises_merge = [] ∧ Gen.C02.raises_concatenate = [] ∧ Gen.C02.raises_dunder_getitemdunder = [] := by
  decide

/-! ## Non-vacuity -/

example : newBL 4 true [(0, 1, 1), (1, 0, 7), (-1, 0, 5), (1, 2, 2)] = .ok ⟨4, [(0, 1, 1), (0, 3, 5), (1, 2, 2)], 2⟩ := by decide
example : WF ⟨4, [(0, 1, 1), (0, 3, 5), (1, 2, 2)], 2⟩ :=
  (newBL_wf (n := 4) (typed := true) (input := [(0, 1, 1), (1, 0, 7), (-1, 0, 5), (1, 2, 2)]) (by decide)).1
example : addBond ⟨4, [(0, 1, 1), (0, 3, 5), (1, 2, 2)], 2⟩ (-1) 1 9 = .ok ⟨4, [(0, 1, 1), (0, 3, 5), (1, 2, 2), (1, 3, 9)], 3⟩ := by decide
example : addBond ⟨4, [(0, 1, 1), (0, 3, 5), (1, 2, 2)], 2⟩ 1 (-4) 6 = .ok ⟨4, [(0, 1, 6), (0, 3, 5), (1, 2, 2)], 2⟩ := by decide
example : OpSafe ⟨⟨4, [(0, 1, 1)], 1⟩, BL.empty 0⟩ (.add (-4) 3 2) := by simp [OpSafe]
example : merge ⟨4, [(0, 1, 1), (0, 3, 5)], 2⟩ ⟨6, [(0, 1, 7), (4, 5, 1)], 1⟩ = .ok ⟨6, [(0, 1, 7), (4, 5, 1), (0, 3, 5)], 2⟩ := by decide
example : getitem ⟨4, [(0, 1, 1), (1, 2, 2), (0, 3, 5)], 2⟩ (.arr [3, -4, 1]) = .ok ⟨3, [(1, 2, 1), (0, 1, 5)], 2⟩ := by decide
example : getitem ⟨4, [(0, 1, 1), (1, 2, 2), (0, 3, 5)], 2⟩ (.mask [true, true, false, true]) = .ok ⟨3, [(0, 1, 1), (0, 2, 5)], 2⟩ := by decide
example : getitem ⟨4, [(0, 1, 1), (1, 2, 2), (0, 3, 5)], 2⟩ (.slice none none (some (-1))) = .ok ⟨4, [(2, 3, 1), (1, 2, 2), (0, 3, 5)], 2⟩ := by decide
example : getBonds ⟨4, [(0, 1, 1), (1, 2, 2), (0, 3, 5)], 2⟩ (-3) = .ok [(0, 1), (2, 2)] := by decide
example : beq ⟨4, [(0, 1, 1), (1, 2, 2)], 2⟩ ⟨4, [(1, 2, 2), (0, 1, 1)], 5⟩ = true := by decide
example : (applyPairs aromPairs 5, applyPairs aromPairs 9, applyPairs aromPairs 8) = (1, 0, 8) := by decide

-- the acceptance domain and the reference are inhabited by non-trivial instances
example : Valid ⟨⟨4, [(0, 1, 1), (1, 2, 2), (0, 3, 5)], 2⟩, BL.empty 0⟩ (.getitem (.arr [3, -4, 1])) :=
  ⟨[3, 0, 1], by decide, by decide⟩
example : Valid ⟨⟨4, [(0, 1, 1)], 1⟩, BL.empty 0⟩ (.getitem (.slice none none (some (-2)))) :=
  ⟨[3, 1], by decide, by decide⟩
example : ValidRun State.init [.new false 4 true [(0, 1, 1), (1, 0, 7), (-1, 0, 5)], .add (-1) 1 9, .merge, .rmArom] :=
  ⟨⟨by decide, by decide⟩, ⟨by decide, ⟨by decide, by decide⟩, ⟨by decide, by decide⟩, by decide, by decide⟩,
   trivial, trivial, trivial⟩
example : ((abs ⟨4, [(0, 1, 1), (1, 2, 2), (0, 3, 5)], 2⟩).select [3, 0, 1]).m 0 1 = some 5 ∧
    ((abs ⟨4, [(0, 1, 1), (1, 2, 2), (0, 3, 5)], 2⟩).select [3, 0, 1]).m 1 2 = some 1 ∧
    ((abs ⟨4, [(0, 1, 1), (1, 2, 2), (0, 3, 5)], 2⟩).select [3, 0, 1]).m 0 2 = none := by decide
example : getAllBonds ⟨3, [(1, 1, 2), (1, 2, 1), (0, 1, 3)], 4⟩ =
    .ok [[some (1, 3)], [some (1, 2), none, some (2, 1), some (0, 3)], [some (1, 1)]] := by decide
example : containsPair ⟨4, [(0, 1, 1)], 1⟩ 1 0 = .ok true := by decide

end BiotiteModel.C02

import BiotiteModel.Proofs.C17Seg
import BiotiteModel.Proofs.C17Graph
import BiotiteModel.Gen.C17
import BiotiteModel.Proofs.C17Source
/-!
# C17 — property theorems (residue / chain / molecule segmentation = per-atom recomputation)

Only property statements and non-vacuity examples; helper lemmas are in `Proofs/C17Seg.lean`
and `Proofs/C17Graph.lean`; the per-atom vocabulary (`isStart`, `segStartP`, `segEndP`,
`sameSegP`, `posP`) is in `Model/C17Spec.lean`.  Every theorem quantifies over all atom
arrays / index arrays / functions / bond graphs (no size bound).
-/
namespace BiotiteModel.C17

/-- The boundary relations are the ones of the property statement: a residue boundary is a
change of chain id, residue id, insertion code or residue name; a chain boundary is a change
of chain id or a decrease of the residue id. -/
theorem C17_boundaries (a c : Atom) :
    (resBoundary a c = true ↔ (c.chain ≠ a.chain ∨ c.res ≠ a.res ∨ c.ins ≠ a.ins ∨ c.name ≠ a.name)) ∧
    (chainBoundary a c = true ↔ (c.chain ≠ a.chain ∨ c.res < a.res)) := by
  simp only [resBoundary, chainBoundary, Bool.or_eq_true, bne_iff_ne, decide_eq_true_eq, ne_eq]
  constructor
  · constructor
    · rintro (((h | h) | h) | h) <;> simp [h]
    · rintro (h | h | h | h) <;> simp [h]
  · constructor
    · rintro (h | h) <;> simp [h]
    · rintro (h | h) <;> simp [h]

/-- **Starts are exactly the per-atom boundaries**: ascending, `j` is listed iff atom `j`
exists and is the first atom or differs from atom `j-1` by the boundary relation; the
exclusive stop is the array length (also for an empty array, after the `fix:` commits). -/
theorem C17_starts_exact (k : Kind) (xs : List Atom) :
    (k.starts xs false).Pairwise (· < ·) ∧
    (∀ j, j ∈ k.starts xs false ↔ k.isStart xs j = true) ∧
    k.starts xs false = (List.range xs.length).filter (k.isStart xs) ∧
    k.starts xs true = k.starts xs false ++ [xs.length] := by
  have h : k.starts xs false = (List.range xs.length).filter (k.isStart xs) := by
    rw [Kind.starts_eq, startsOf_eq_filter]
  refine ⟨?_, ?_, h, ?_⟩
  · rw [h]; exact List.Pairwise.filter _ List.pairwise_lt_range
  · intro j
    rw [h, List.mem_filter, List.mem_range]
    exact ⟨fun hj => hj.2, fun hj => ⟨isStart_lt _ _ _ hj, hj⟩⟩
  · rw [Kind.starts_eq, Kind.starts_eq, startsOf_stop]

/-- **Iteration partitions the array**: concatenating the iterated segments gives the data
back; there is one segment per start; segment `s` is the slice from `s` to the next start
(or the end); it is non-empty; no atom strictly inside it starts a segment and the atom after
it does. -/
theorem C17_partition {β : Type} (k : Kind) (xs : List Atom) (data : List β) (hlen : data.length = xs.length) :
    (segIter (k.starts xs true) data).flatten = data ∧
    segIter (k.starts xs true) data =
      (k.starts xs false).map (fun s => slice data s (segEndP (k.isStart xs) xs.length s)) ∧
    (∀ seg ∈ segIter (k.starts xs true) data, seg ≠ []) ∧
    (∀ s ∈ k.starts xs false,
        s < segEndP (k.isStart xs) xs.length s ∧ segEndP (k.isStart xs) xs.length s ≤ xs.length ∧
        (∀ j, s < j → j < segEndP (k.isStart xs) xs.length s → k.isStart xs j = false) ∧
        (segEndP (k.isStart xs) xs.length s < xs.length →
          k.isStart xs (segEndP (k.isStart xs) xs.length s) = true)) := by
  have hf := (C17_starts_exact k xs).2.2.1
  rw [Kind.starts_true, hf]
  refine ⟨?_, segIter_filter _ _ _, segIter_nonempty _ _ _ hlen, ?_⟩
  · cases xs with
    | nil => simp at hlen; subst hlen; simp [segIter]
    | cons x xs => exact segIter_flatten _ _ (Kind.isStart_zero k _ (by simp)) _ hlen
  · intro s hs
    simp only [List.mem_filter, List.mem_range] at hs
    have e := segEndP_spec (k.isStart xs) xs.length s hs.1
    exact ⟨e.1, e.2.1, e.2.2.2, e.2.2.1⟩

/-- Inside a residue all four annotations are constant. -/
theorem C17_residue_constant (xs : List Atom) :
    ∀ seg ∈ segIter (residueStarts xs true) xs, ∀ a ∈ seg, ∀ c ∈ seg, a = c := by
  intro seg hseg
  have hp := C17_partition Kind.residue xs xs rfl
  have hmem : seg ∈ segIter (Kind.residue.starts xs true) xs := hseg
  rw [hp.2.1] at hmem
  simp only [List.mem_map] at hmem
  obtain ⟨s, hs, rfl⟩ := hmem
  have hb := hp.2.2.2 s hs
  -- every atom of the slice equals atom `s`
  have key : ∀ t, s + t < segEndP (Kind.residue.isStart xs) xs.length s → xs[s + t]? = xs[s]? := by
    intro t
    induction t with
    | zero => intro _; rfl
    | succ t ih =>
      intro ht
      rw [← ih (by omega)]
      have hns := hb.2.2.1 (s + (t + 1)) (by omega) ht
      have hlt : s + (t + 1) < xs.length := by omega
      simp only [Kind.isStart, C17.isStart, hlt, decide_true, Bool.true_and, Bool.or_eq_false_iff] at hns
      have h1 : s + (t + 1) - 1 = s + t := by omega
      rw [h1, List.getElem?_eq_getElem hlt, List.getElem?_eq_getElem (show s + t < xs.length by omega)] at hns
      have hbd := hns.2
      simp only [Kind.boundary] at hbd
      have hnb := (C17_boundaries xs[s + t] xs[s + (t + 1)]).1
      rw [List.getElem?_eq_getElem hlt, List.getElem?_eq_getElem (show s + t < xs.length by omega)]
      have : ¬ (xs[s + (t + 1)].chain ≠ xs[s + t].chain ∨ xs[s + (t + 1)].res ≠ xs[s + t].res ∨
          xs[s + (t + 1)].ins ≠ xs[s + t].ins ∨ xs[s + (t + 1)].name ≠ xs[s + t].name) := by
        intro h; rw [← hnb] at h; simp [hbd] at h
      simp only [ne_eq, not_or, Decidable.not_not] at this
      congr 1
      cases hx : xs[s + (t + 1)]; cases hy : xs[s + t]
      simp_all
  have all_eq : ∀ a ∈ slice xs s (segEndP (Kind.residue.isStart xs) xs.length s), some a = xs[s]? := by
    intro a ha
    simp only [slice] at ha
    obtain ⟨t, ht, rfl⟩ := List.mem_iff_getElem.1 ha
    simp only [List.length_drop, List.length_take] at ht
    rw [← key t (by omega)]
    simp [List.getElem_drop, List.getElem_take]
  intro a ha c hc
  have h1 := all_eq a ha
  have h2 := all_eq c hc
  rw [← h2] at h1
  exact Option.some.inj h1

/-- **Indices are validated**: a negative or out-of-range index makes every index view raise
`ValueError` (for every array, including the empty one). -/
theorem C17_index_rejection (k : Kind) (xs : List Atom) (idx : List Int)
    (h : ∃ i ∈ idx, i < 0 ∨ (xs.length : Int) ≤ i) :
    segMasks (k.starts xs true) idx = .error .valueError ∧
    segStartsFor (k.starts xs true) idx = .error .valueError ∧
    segPositions (k.starts xs true) idx = .error .valueError := by
  rw [Kind.starts_true]; exact seg_views_reject _ _ _ h

/-- **`get_*_starts_for`** = per-atom walk back to the nearest segment start
(`segStartP_spec`: it is a start, `≤ i`, and no start lies after it up to `i`). -/
theorem C17_starts_for (k : Kind) (xs : List Atom) (idx : List Int)
    (h : ∀ i ∈ idx, 0 ≤ i ∧ i < (xs.length : Int)) :
    segStartsFor (k.starts xs true) idx = .ok (idx.map (fun i => segStartP (k.isStart xs) i.toNat)) ∧
    ∀ i ∈ idx, k.isStart xs (segStartP (k.isStart xs) i.toNat) = true ∧
      segStartP (k.isStart xs) i.toNat ≤ i.toNat ∧
      ∀ j, segStartP (k.isStart xs) i.toNat < j → j ≤ i.toNat → k.isStart xs j = false := by
  rw [Kind.starts_true]
  by_cases hne : idx = []
  · subst hne; refine ⟨?_, by simp⟩; unfold segStartsFor; rw [getLast?_withStop]; rfl
  · have hP0 := Kind.isStart_zero k xs (ne_nil_of_valid h hne)
    exact ⟨segStartsFor_filter _ _ hP0 _ h, fun i _ => segStartP_spec _ hP0 _⟩

/-- **`get_*_positions`** = the number of segment starts among atoms `1..i`, and the start
array at that position is the start of `i`'s segment. -/
theorem C17_positions (k : Kind) (xs : List Atom) (idx : List Int)
    (h : ∀ i ∈ idx, 0 ≤ i ∧ i < (xs.length : Int)) :
    segPositions (k.starts xs true) idx = .ok (idx.map (fun i => (posP (k.isStart xs) i.toNat : Int))) ∧
    ∀ i ∈ idx, (k.starts xs false)[posP (k.isStart xs) i.toNat]? = some (segStartP (k.isStart xs) i.toNat) := by
  rw [Kind.starts_true, (C17_starts_exact k xs).2.2.1]
  by_cases hne : idx = []
  · subst hne; refine ⟨?_, by simp⟩; unfold segPositions; rw [getLast?_withStop]; rfl
  · have hP0 := Kind.isStart_zero k xs (ne_nil_of_valid h hne)
    refine ⟨segPositions_filter _ _ hP0 _ h, fun i hi => ?_⟩
    have hlt := toNat_lt (h i hi)
    have := starts_getElem_head _ hP0 xs.length i.toNat hlt []
    rw [List.append_nil, headStarts_length _ hP0] at this
    simpa using this

/-- **`get_*_masks`**: row `t` is `True` exactly at the atoms `k` in the same segment as
`idx[t]`, i.e. with no segment start between the two atoms. -/
theorem C17_masks (k : Kind) (xs : List Atom) (idx : List Int)
    (h : ∀ i ∈ idx, 0 ≤ i ∧ i < (xs.length : Int)) :
    ∃ rows, segMasks (k.starts xs true) idx = .ok rows ∧ rows.length = idx.length ∧
      ∀ (t : Nat) (i : Int), idx[t]? = some i → ∃ row : List Bool, rows[t]? = some row ∧ row.length = xs.length ∧
        ∀ a, a < xs.length → (row[a]? = some true ↔ sameSegP (k.isStart xs) i.toNat a) ∧
                              (row[a]? = some false ↔ ¬ sameSegP (k.isStart xs) i.toNat a) := by
  rw [Kind.starts_true]
  by_cases hne : idx = []
  · subst hne; refine ⟨[], ?_, rfl, by simp⟩; unfold segMasks; rw [getLast?_withStop]; rfl
  · have hP0 := Kind.isStart_zero k xs (ne_nil_of_valid h hne)
    refine ⟨_, segMasks_filter _ _ hP0 _ h, by simp, fun t i hti => ?_⟩
    have hi := h i (List.mem_of_getElem? hti)
    have hlt := toNat_lt hi
    refine ⟨_, by rw [List.getElem?_map, hti]; rfl, by simp, fun a ha => ?_⟩
    have hiff := inSeg_iff_sameSeg _ hP0 xs.length i.toNat a hlt ha
    simp only [List.getElem?_map, List.getElem?_range ha, Option.map_some, Option.some.injEq,
      decide_eq_true_eq, decide_eq_false_iff_not]
    exact ⟨hiff, not_congr hiff⟩

/-- **`spread ∘ apply`**: for every function `f` (scalar- or array-valued) atom `i` receives
`f` of its own segment, the slice between the per-atom walk back (`segStartP`) and the
per-atom walk forward (`segEndP`). Holds for the empty array too (empty result). -/
theorem C17_spread_apply {α β : Type} (k : Kind) (xs : List Atom) (f : List α → β) (data : List α) :
    ∃ out, spreadSeg (k.starts xs true) (applySeg (k.starts xs true) f data) = .ok out ∧
      out.length = xs.length ∧
      ∀ i, i < xs.length →
        out[i]? = some (f (slice data (segStartP (k.isStart xs) i) (segEndP (k.isStart xs) xs.length i))) := by
  rw [Kind.starts_true]
  cases hx : xs with
  | nil => exact ⟨[], by simp [spreadSeg, applySeg, segIter], rfl, by simp⟩
  | cons x xs' =>
    rw [← hx]
    exact spread_apply_filter _ _ (Kind.isStart_zero k xs (by simp [hx])) f data

/-- **`apply`** yields one value per segment (so `[]`, not `None`, for an empty array) and
**`spread`** puts the value given for a segment on each of its atoms. -/
theorem C17_apply_spread {α β : Type} (k : Kind) (xs : List Atom) (f : List α → β) (data : List α)
    (v : Nat → β) :
    applySeg (k.starts xs true) f data =
      (k.starts xs false).map (fun s => f (slice data s (segEndP (k.isStart xs) xs.length s))) ∧
    ∃ out, spreadSeg (k.starts xs true) ((k.starts xs false).map v) = .ok out ∧ out.length = xs.length ∧
      ∀ i, i < xs.length → out[i]? = some (v (segStartP (k.isStart xs) i)) := by
  rw [Kind.starts_true, (C17_starts_exact k xs).2.2.1]
  refine ⟨applySeg_filter _ _ _ _, ?_⟩
  cases hx : xs with
  | nil => exact ⟨[], by simp [spreadSeg], rfl, by simp⟩
  | cons x xs' =>
    rw [← hx]
    exact spread_filter _ _ (Kind.isStart_zero k xs (by simp [hx])) v

/-- **In-place edits are local and nothing is remembered**: the starts of an array whose atom `i`
was overwritten are a function of the new content only (the model is stateless), and they can
differ from the old starts only at atoms `i` and `i + 1`. -/
theorem C17_edit_local (k : Kind) (xs : List Atom) (i : Nat) (a : Atom) (j : Nat)
    (h1 : j ≠ i) (h2 : j ≠ i + 1) :
    (j ∈ k.starts (xs.set i a) false ↔ j ∈ k.starts xs false) := by
  rw [(C17_starts_exact k (xs.set i a)).2.1 j, (C17_starts_exact k xs).2.1 j]
  show C17.isStart k.boundary (xs.set i a) j = true ↔ C17.isStart k.boundary xs j = true
  rw [isStart_set_local k.boundary xs i a j h1 h2]

/-- **`spread` refuses a wrong number of values** (audit 6): with `m ≠ 1` segments an input whose length is not `m`
gives `ValueError` — exactly the complement of the hypothesis of `C17_apply_spread` apart from the case below. -/
theorem C17_spread_rejects {β : Type} (k : Kind) (xs : List Atom) (input : List β)
    (h1 : (k.starts xs false).length ≠ 1) (h2 : (k.starts xs false).length ≠ input.length) :
    spreadSeg (k.starts xs true) input = .error .valueError := by
  rw [Kind.starts_true] at *
  rw [(C17_starts_exact k xs).2.2.1] at h1 h2
  unfold spreadSeg
  rw [zipWith_withStop]
  generalize (List.range xs.length).filter (k.isStart xs) = st at *
  match st, h1, h2 with
  | [], _, h2 => simp at h2 ⊢; exact fun h => h2 (by simp [h])
  | [s], h1, _ => simp at h1
  | s :: t :: r, _, h2 => simp at h2 ⊢; omega

/-- Code as it is (documented contract: "length must equal the number of segments"): with exactly ONE segment
`np.repeat` broadcasts the single repeat count, so an input of any length is accepted and every value repeated.
Outside the contract, recorded so that the behaviour is pinned by the correspondence. -/
theorem C17_spread_single_segment_broadcast {β : Type} (k : Kind) (xs : List Atom) (input : List β)
    (h1 : (k.starts xs false).length = 1) :
    ∃ m, spreadSeg (k.starts xs true) input = .ok (input.flatMap (fun x => List.replicate m x)) := by
  rw [Kind.starts_true]
  rw [(C17_starts_exact k xs).2.2.1] at h1
  unfold spreadSeg
  rw [zipWith_withStop]
  generalize (List.range xs.length).filter (k.isStart xs) = st at *
  match st, h1 with
  | [s], _ => exact ⟨_, rfl⟩

/-! ## molecules -/

/-- **`find_connected`** — the recursive DFS of `_find_connected`, with recursion depth at
most `n`, terminates and returns exactly the atoms reachable from the root, ascending. -/
theorem C17_connected (n : Nat) (adj : Nat → List Nat) (r : Nat) (hwf : WF n adj) (hr : r < n)
    (h32 : n ≤ 4294967296) :
    (∃ m, connectedMask n adj r = some m ∧ m.length = n ∧ ∀ v, m[v]? = some true ↔ Reach adj r v) ∧
    (∃ l, findConnected n adj (r : Int) = .ok l ∧ l.Pairwise (· < ·) ∧ ∀ v, v ∈ l ↔ Reach adj r v) :=
  ⟨connectedMask_spec n adj r hwf hr, findConnected_spec n adj r hwf hr h32⟩

/-- invalid roots are rejected, exactly by the class the conversion to `uint32` / the range check gives:
negative or `≥ 2³²` → `OverflowError`, `n ≤ root < 2³²` → `ValueError` (complement of `hr` in `C17_connected`). -/
theorem C17_connected_rejects (n : Nat) (adj : Nat → List Nat) (root : Int) :
    (root < 0 → findConnected n adj root = .error .overflowError) ∧
    (4294967296 ≤ root → findConnected n adj root = .error .overflowError) ∧
    (0 ≤ root → root < 4294967296 → (n : Int) ≤ root → findConnected n adj root = .error .valueError) := by
  refine ⟨(findConnected_rejects n adj root).1, fun h => ?_, (findConnected_rejects n adj root).2⟩
  unfold findConnected
  rw [if_pos (Or.inr h)]

/-- **`get_molecule_indices`** terminates within `n` iterations and returns exactly the
connected components of the bond graph: non-empty ascending index lists, pairwise disjoint,
covering every atom, each the full reachability class of each of its members. -/
theorem C17_molecules (n : Nat) (adj : Nat → List Nat) (hwf : WF n adj) (hsym : Symm n adj) :
    ∃ comps, moleculeIndices n adj = some comps ∧
      (∀ c ∈ comps, c ≠ [] ∧ c.Pairwise (· < ·)) ∧
      (∀ v, v < n → ∃ c ∈ comps, v ∈ c) ∧
      comps.Pairwise (fun a b => ∀ v, v ∈ a → v ∉ b) ∧
      (∀ c ∈ comps, ∀ u ∈ c, ∀ v, v ∈ c ↔ Reach adj u v) :=
  moleculeIndices_spec n adj hwf hsym

/-- The table `get_all_bonds` builds from a bond list with in-range indices satisfies the
hypotheses of the two theorems above. -/
theorem C17_bond_table (n : Nat) (bonds : List (Nat × Nat)) (h : ∀ b ∈ bonds, b.1 < n ∧ b.2 < n) :
    WF n (neighbours bonds) ∧ Symm n (neighbours bonds) ∧
    ∀ v w, w ∈ neighbours bonds v ↔ (v, w) ∈ bonds ∨ (w, v) ∈ bonds :=
  ⟨neighbours_wf n bonds h, neighbours_symm n bonds, neighbours_mem bonds⟩

/-- **Why long chains crash the real code** (known finding `C17/find_connected/recursion-depth-crash`):
on a linear chain of `n` atoms the recursion really nests `n` deep — one level less does
not finish.  The model's fuel is the C recursion depth; the C stack is finite. -/
theorem C17_chain_recursion_depth (n : Nat) (hn : 0 < n) :
    visit (chainAdj n) (n - 1) 0 (List.replicate n false) = none ∧
    ∃ m, visit (chainAdj n) n 0 (List.replicate n false) = some m := by
  refine ⟨chain_needs_full_depth n hn, ?_⟩
  have hwf : WF n (chainAdj n) := by
    intro v hv w hw
    simp only [chainAdj, List.mem_append] at hw
    rcases hw with hw | hw
    · split at hw <;> simp at hw; omega
    · split at hw <;> simp at hw; omega
  obtain ⟨m, hm, _⟩ := connectedMask_spec n (chainAdj n) 0 hwf hn
  exact ⟨m, hm⟩

/-! ## regenerated from the source (Gen/C17.lean) -/

/-- The annotations `get_residue_starts` compares are the four of the property statement, the
chain test is `res_id[1:] < res_id[:-1]` (no wrapping difference) or a chain id change, the empty-array return is `[]` / `[0]`,
all three index views use `searchsorted(side="right") - 1` and carry both guards. -/
theorem C17_gen_tables :
    Gen.C17.residueFields.isPerm ["chain_id", "res_id", "ins_code", "res_name"] = true ∧
    Gen.C17.chainTerms.isPerm ["chain_id", "decrease:res_id"] = true ∧
    Gen.C17.emptyReturns = [([], [0]), ([], [0])] ∧
    Gen.C17.searchSides.map (fun x => (x.2.1, x.2.2)) = [("right", "1"), ("right", "1"), ("right", "1")] ∧
    Gen.C17.guards.map (·.2) = List.replicate 3 [("Lt 0", "ValueError"), ("GtE starts[-1]", "ValueError")] := by
  decide

/-- **No bond type is filtered** on the path `get_molecule_indices` / `get_molecule_masks` /
`molecule_iter` → `find_connected` → `_find_connected`: molecules.py mentions no `BondType`
member, never reads the type column and removes no bonds, and the DFS in bonds.pyx ignores the
type table of `get_all_bonds()`.  So the graph `C17_molecules` speaks about is the graph of
*all* bonds (COORDINATION, ANY and aromatic ones included), as the model's `neighbours` assumes. -/
theorem C17_no_bond_type_filter :
    Gen.C17.moleculeBondTypeRefs = [] ∧ Gen.C17.connectedBondTypeRefs = [] := by
  decide

/-- **Source shape** (tie pass 7): signatures with their default values, the normalised bodies of every modelled
`.py` function and the code lines of `find_connected` / `_find_connected` / `BondList.get_all_bonds` in bonds.pyx, as
regenerated from the source in this run, are the ones the model was written against (`Proofs/C17Source.lean`).
Any edit of a literal, an operator, a guard, a default, the order of checks or steps, the helper called, a dtype
choice or an exception class in these functions breaks this obligation for all inputs at once; so does module-level
state next to them (a cache, a table) and any sub-extraction that did not recognise the source (`extractProblems`). -/
theorem C17_gen_source_shape :
    Gen.C17.signatures = Source.expectedSignatures ∧
    Gen.C17.pyBodies = Source.expectedPyBodies ∧
    Gen.C17.pyxBodies = Source.expectedPyxBodies ∧
    Gen.C17.moduleState = [] ∧ Gen.C17.extractProblems = [] :=
  ⟨rfl, rfl, rfl, rfl, rfl⟩

/-- **Constants of the starts construction**, regenerated and plugged into the model: for both `get_*_starts` the
array is `[first] ++ (np.where(mask)[0] + off) ++ [array.array_length()]` with the regenerated `first`, `off`, and
that is what `startsOf` computes; `searchsorted(side='right') - 1` is what `searchRight`/`segPositions` compute. -/
theorem C17_gen_model_constants :
    (∀ b ∈ Gen.C17.startsBuild, b.2.2.1 = 0 ∧ b.2.2.2.2 = "[array.array_length()]" ∧
      ∀ (n : Nat) (mask : List Bool), n ≠ 0 →
        startsOf n mask true = [b.2.1] ++ (whereTrue mask).map (· + b.2.2.2.1) ++ [n] ∧
        startsOf n mask false = [b.2.1] ++ (whereTrue mask).map (· + b.2.2.2.1)) ∧
    Gen.C17.startsBuild.map (·.1) = ["get_residue_starts", "get_chain_starts"] ∧
    (∀ t ∈ Gen.C17.searchSides, t.2.1 = "right" ∧ t.2.2 = "1") ∧
    (∀ (ss : List Nat) (v : Nat), searchRight ss v = ss.countP (· ≤ v)) := by
  have h : Gen.C17.startsBuild = [("get_residue_starts", 0, 0, 1, "[array.array_length()]"),
      ("get_chain_starts", 0, 0, 1, "[array.array_length()]")] := by decide
  refine ⟨?_, by rw [h]; rfl, by decide, fun _ _ => rfl⟩
  intro b hb
  rw [h] at hb
  simp only [List.mem_cons, List.not_mem_nil, or_false] at hb
  rcases hb with rfl | rfl <;> exact ⟨rfl, rfl, fun n mask hn => by simp [startsOf, hn]⟩

/-! ## non-vacuity -/

private def ex : List Atom :=
  [⟨0, 1, 0, 0⟩, ⟨0, 1, 0, 0⟩, ⟨0, 2, 0, 0⟩, ⟨1, 2, 0, 0⟩, ⟨1, 1, 0, 0⟩, ⟨1, 1, 1, 0⟩]

example : residueStarts ex true = [0, 2, 3, 4, 5, 6] ∧ chainStarts ex true = [0, 3, 4, 6] := by decide
example : residueStarts [] true = [0] ∧ residueStarts [] false = [] := by decide
example : residueStarts (ex.set 1 ⟨0, 2, 0, 0⟩) false = [0, 1, 3, 4, 5] ∧ residueStarts ex false = [0, 2, 3, 4, 5] := by decide
example : segIter (chainStarts ex true) [10, 11, 12, 13, 14, 15] = [[10, 11, 12], [13], [14, 15]] := by decide
example : segMasks (chainStarts ex true) [4] = .ok [[false, false, false, false, true, true]] := by decide
example : segStartsFor (residueStarts ex true) [1, 5] = .ok [0, 5] ∧
    segPositions (residueStarts ex true) [1, 5] = .ok [0, 4] := by decide
example : segMasks (residueStarts ex true) [6] = .error .valueError ∧
    segMasks (residueStarts [] true) [0] = .error .valueError := by decide
example : spreadSeg (chainStarts ex true) (applySeg (chainStarts ex true) List.sum [1, 2, 3, 4, 5, 6]) =
    .ok [6, 6, 6, 4, 11, 11] := by decide
example : applySeg (residueStarts [] true) List.sum ([] : List Nat) = [] := by decide
example : spreadSeg (chainStarts ex true) [1, 2] = .error .valueError ∧
    spreadSeg (residueStarts [⟨0, 1, 0, 0⟩, ⟨0, 1, 0, 0⟩] true) [7, 8, 9] = .ok [7, 7, 8, 8, 9, 9] := by decide
example : findConnected 5 (neighbours []) 4294967296 = .error .overflowError ∧
    findConnected 5 (neighbours []) 5 = .error .valueError := by decide
example : findConnected 5 (neighbours [(0, 1), (3, 1), (2, 4)]) 3 = .ok [0, 1, 3] := by decide
example : moleculeIndices 5 (neighbours [(0, 1), (3, 1), (2, 4)]) = some [[0, 1, 3], [2, 4]] := by decide
example : WF 5 (neighbours [(0, 1), (3, 1), (2, 4)]) := neighbours_wf 5 _ (by decide)
example : segStartP (Kind.chain.isStart ex) 5 = 4 ∧ segEndP (Kind.chain.isStart ex) 6 3 = 4 ∧
    posP (Kind.chain.isStart ex) 5 = 2 := by decide

end BiotiteModel.C17

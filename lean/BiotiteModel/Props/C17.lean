import BiotiteModel.Model.C17
namespace BiotiteModel.C17
theorem C17_stub : True := trivial
end BiotiteModel.C17

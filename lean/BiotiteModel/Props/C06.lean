import BiotiteModel.Proofs.C06
import BiotiteModel.Proofs.C06Table
import BiotiteModel.Proofs.C06TableLooped
import BiotiteModel.Proofs.C06TableSingle
import BiotiteModel.Proofs.C06Multiline
import BiotiteModel.Proofs.C06File
import BiotiteModel.Proofs.C06Expected
import BiotiteModel.Proofs.C06Containers
import BiotiteModel.Gen.C06
/-!
# C06 — property theorems (the CIF text layer returns every string table unchanged)

Only property statements and non-vacuity examples; helper lemmas are in `Proofs/C06*.lean`.
All theorems quantify over *all* strings / rows / histories (no size bound).
-/
namespace BiotiteModel.C06

/-! ## Tokens and rows (single-line values without both quote characters) -/

/-- **Token.**  Every single-line value (any characters except line breaks; not both quote
characters at once) is returned unchanged by the tokeniser after the writer's quoting decision. -/
theorem C06_token (v : Str) (hs : SingleLine v) (hb : ¬ BothQuotes v) :
    splitOneLine (escape v) = .ok [v] := by
  obtain ⟨htok, hsafe⟩ := escape_tok v hs hb
  have hrel : RowRel [v] [(escape v, 0)] := RowRel.cons htok RowRel.nil
  have := splitOneLine_padded [v] [(escape v, 0)] hrel (by simp) (by simpa [padded] using hsafe.semi)
  simpa [padded] using this

/-- **Row, any padding.**  A row of such values, each written by `_escape` and followed by one or
more blanks (none after the last), is split back into exactly the row — wherever the awkward
value stands, including the first column (no `SafeHead` hypothesis: after the `fix:` commits
the writer quotes `#`, `;`, `data_…`, `loop_…`). -/
theorem C06_row (row : List Str) (pads : List Nat) (hne : row ≠ []) (hlen : pads.length = row.length)
    (h : ∀ v ∈ row, SingleLine v ∧ ¬ BothQuotes v) :
    splitOneLine (padded ((row.map escape).zip pads)) = .ok row := by
  have hm : ((row.map escape).zip pads).map (·.1) = row.map escape := by
    rw [List.map_fst_zip]; simp [hlen]
  have hrel := rowRel_escape row _ hm h
  have hne' : (row.map escape).zip pads ≠ [] := by
    cases row with
    | nil => exact absurd rfl hne
    | cons v vs => cases pads with
      | nil => simp at hlen
      | cons p ps => simp
  refine splitOneLine_padded row _ hrel hne' ?_
  cases row with
  | nil => exact absurd rfl hne
  | cons v vs =>
    cases pads with
    | nil => simp at hlen
    | cons p ps =>
      have hv := h v (by simp)
      have hs := (escape_tok v hv.1 hv.2)
      simp only [List.map_cons, List.zip_cons_cons]
      rw [padded_head? _ _ _ (tok_ne_nil _ _ hs.1)]
      exact hs.2.semi

/-- The column width the writer uses (`itemsize + 1` = longest escaped element + 1) leaves at
least one blank after every element of the column. -/
theorem C06_width_sufficient (col : List Str) (v : Str) (hv : v ∈ col) :
    (escape v).length < maxLen (col.map escape) + 1 := width_sufficient col v hv

/-- **Row as written.**  One value line of `_serialize_looped` (`ljust` to the column widths,
`strip`), stripped again by the reader and tokenised, is the row. -/
theorem C06_row_written (row : List Str) (ws : List Nat) (hne : row ≠ []) (hlen : ws.length = row.length)
    (hw : ∀ p ∈ ws.zip (row.map escape), p.2.length < p.1)
    (h : ∀ v ∈ row, SingleLine v ∧ ¬ BothQuotes v) :
    splitOneLine (strip (rowLine ws (row.map escape))) = .ok row := row_written row ws hne hlen hw h

/-- **All value lines of a looped category**: tokenising the written lines one by one gives back
the rows, in order. -/
theorem C06_looped_lines (rows : List (List Str)) (ws : List Nat)
    (hrow : ∀ row ∈ rows, row ≠ [] ∧ ws.length = row.length ∧
      (∀ p ∈ ws.zip (row.map escape), p.2.length < p.1) ∧ ∀ v ∈ row, SingleLine v ∧ ¬ BothQuotes v) :
    mapM' splitOneLine ((rows.map (fun r => rowLine ws (r.map escape))).map strip) = .ok rows :=
  looped_lines rows ws hrow

/-! ## Whole categories: `deserialize (serialize t) = t` -/

/-- **Looped category.**  Any rectangular table (k ≥ 1 columns with distinct names, r ≥ 2 rows) of
single-line values — blanks, tabs, either quote character, any special first character or
reserved word, empty strings, `.`/`?` — written by `CIFCategory.serialize` and read by
`CIFCategory.deserialize` comes back with the same name, columns, order and values. -/
theorem C06_table_looped (name : Str) (cols : List (Str × List Str)) (r : Nat)
    (hname : NameOk name) (hkeys : ∀ kv ∈ cols, NameOk kv.1) (hnodup : (cols.map (·.1)).Nodup)
    (hcols : cols ≠ []) (hr : 2 ≤ r) (hrect : ∀ kv ∈ cols, kv.2.length = r)
    (hvals : ∀ kv ∈ cols, ∀ v ∈ kv.2, SingleLine v ∧ ¬ BothQuotes v) :
    ∃ text, categorySerialize name cols = .ok text ∧ categoryDeserialize text = .ok (name, cols) := by
  obtain ⟨W, h1, _, h2⟩ := table_looped name cols r hname hkeys hnodup hcols hr hrect hvals
  exact ⟨_, h1, h2⟩

/-- **Single-row category** (`_name.key   value` lines). -/
theorem C06_table_single (name : Str) (kvs : List (Str × Str))
    (hname : NameOk name) (hkeys : ∀ kv ∈ kvs, NameOk kv.1) (hnodup : (kvs.map (·.1)).Nodup)
    (hne : kvs ≠ []) (hvals : ∀ kv ∈ kvs, SingleLine kv.2 ∧ ¬ BothQuotes kv.2) :
    ∃ text, categorySerialize name (kvs.map (fun kv => (kv.1, [kv.2]))) = .ok text ∧
      categoryDeserialize text = .ok (name, kvs.map (fun kv => (kv.1, [kv.2]))) := by
  obtain ⟨W, h1, _, h2⟩ := table_single name kvs hname hkeys hnodup hne hvals
  exact ⟨_, h1, h2⟩

/-! ## What the writer refuses (the complement of the hypotheses above) -/

/-- **Names that `_<category>.<column>` cannot give back are refused** (after two `fix:` commits):
a category or column name containing `.` or any whitespace character makes `serialize()` raise
`SerializationError` — exactly the names excluded by the first two clauses of `NameOk`. -/
theorem C06_bad_names_rejected (name : Str) (cols : List (Str × List Str)) (hne : cols ≠ [])
    (hbad : ∃ l ∈ name :: cols.map (·.1), '.' ∈ l ∨ ∃ c ∈ l, isWs c = true) :
    categorySerialize name cols = .error serr := by
  obtain ⟨l, hl, hb⟩ := hbad
  have hany : (name :: cols.map (·.1)).any (fun l => has '.' l || l.any isWs) = true := by
    simp only [List.any_eq_true]
    refine ⟨l, hl, ?_⟩
    rcases hb with hd | ⟨c, hc, hw⟩
    · simp [has_iff, hd]
    · simp only [Bool.or_eq_true, List.any_eq_true]; exact Or.inr ⟨c, hc, hw⟩
  cases cols with
  | nil => exact absurd rfl hne
  | cons kv rest => simp only [categorySerialize, hany, if_true]

/-- A block name containing a line boundary is refused. -/
theorem C06_block_name_rejected (name : Str) (cats : List (Str × Cols)) (h : ∃ c ∈ name, isBreak c = true) :
    blockSerialize name cats = .error serr := by
  have : name.any isBreak = true := by simpa [List.any_eq_true] using h
  simp [blockSerialize, this]

/-- A category without columns is refused with `ValueError`; columns of different lengths (under
good names) with `SerializationError`. -/
theorem C06_serialize_rejects (name : Str) :
    categorySerialize name [] = .error .valueError ∧
    ∀ (k1 k2 : Str) (c1 c2 : List Str), NameOk name → NameOk k1 → NameOk k2 → c1.length ≠ c2.length →
      categorySerialize name [(k1, c1), (k2, c2)] = .error serr := by
  refine ⟨rfl, ?_⟩
  intro k1 k2 c1 c2 hn h1 h2 hlen
  have hlab := labels_ok name [k1, k2] hn (by
    intro k hk
    simp only [List.mem_cons, List.mem_nil_iff, or_false] at hk
    rcases hk with rfl | rfl <;> assumption)
  have hany : ([(k1, c1), (k2, c2)].any fun kv => kv.2.length != c1.length) = true := by
    simp only [List.any_cons, List.any_nil, bne_self_eq_false, Bool.false_or, Bool.or_false, bne_iff_ne, ne_eq]
    exact fun e => hlen e.symm
  simp only [categorySerialize, List.map_cons, List.map_nil, hlab, Bool.false_eq_true, if_false, hany, if_true]

/-- An explicit `row_count` that contradicts the first column (constructor argument of
`BinaryCIFCategory`, or the `rowCount` of a file) makes `serialize()` refuse. -/
theorem C06_rowcount_explicit_rejects {κ : Type} [BEq κ] (binary : Bool) (k : κ) (n m : Nat) (rest : List (κ × Nat))
    (h : n ≠ m) : (rcStep binary ⟨(k, n) :: rest, some m⟩ .ser).2 = .error serr := by
  have hb : (n != m) = true := by simpa [bne_iff_ne] using h
  simp [rcStep, rcSerLoop, hb]

/-! ## Blocks and files: no written line can be misread as a header or a boundary -/

/-- **Line-start safety lifted from tokens to lines.**  The lines `W` that `CIFCategory.serialize`
writes for a good category (looped or single-row; values in the first column included):
no line contains a line break, is blank or a comment, or starts a data block (`data_`); the
first line starts the category (`loop_` followed by a key line of this category, or a
`_name.key value` line); no later line starts a loop, and every later line either has no
category name (value lines) or the name of this category. -/
theorem C06_written_lines_safe (c : Str × Cols) (h : GoodCat c) :
    ∃ W, categorySerialize c.1 c.2 = .ok (unlines W) ∧ CatLines c.1 W := by
  obtain ⟨W, h1, h2, _⟩ := goodCat_lines c h
  exact ⟨W, h1, h2⟩

/-- **Block round trip.**  A block of good categories with distinct names: `CIFBlock.serialize`,
then `CIFBlock.deserialize` (cutting the text at `loop_` / category-name changes, through comment
lines) and `CIFCategory.deserialize` of every piece give back the same categories, in order. -/
theorem C06_block_roundtrip (bname : Str) (cats : List (Str × Cols)) (hb : NameOk bname)
    (hcats : ∀ c ∈ cats, GoodCat c) (hnd : (cats.map (·.1)).Nodup) :
    ∃ text, blockSerialize bname cats = .ok text ∧
      blockParse text = .ok (cats.map (fun c => (some c.1, c))) := by
  obtain ⟨Ws, _, h1, h2⟩ := block_roundtrip bname cats hb hcats hnd
  exact ⟨_, h1, h2⟩

/-- **File round trip.**  A file of good blocks with distinct names (each a block of good
categories with distinct names, each category a rectangular table of single-line values):
`CIFFile.serialize`, then `CIFFile.deserialize` (cutting at `data_` lines), `CIFBlock.deserialize`
and `CIFCategory.deserialize` give back the same nested mapping. -/
theorem C06_file_roundtrip (blocks : List Block) (hb : ∀ b ∈ blocks, GoodBlock b)
    (hnd : (blocks.map (·.1)).Nodup) :
    ∃ text, fileSerialize blocks = .ok text ∧
      fileParse text = .ok (blocks.map (fun b => (b.1, b.2.map (fun c => (some c.1, c))))) :=
  file_roundtrip blocks hb hnd

/-- A table of cells (PRESENT value / INAPPLICABLE / MISSING): its rendering is a table of
single-line strings to which the two theorems above apply, and inferring the masks of the
strings read back gives the cells again. -/
theorem C06_table_masks (ccols : List (Str × List Cell))
    (hp : ∀ kv ∈ ccols, ∀ c ∈ kv.2, ∀ v, c = .present v → v ≠ sDot ∧ v ≠ sQm ∧ SingleLine v ∧ ¬ BothQuotes v) :
    (∀ kv ∈ ccols, ∀ c ∈ kv.2, SingleLine c.render ∧ ¬ BothQuotes c.render) ∧
    (ccols.map (fun kv => (kv.1, kv.2.map Cell.render))).map (fun kv => (kv.1, kv.2.map Cell.infer)) = ccols := by
  constructor
  · intro kv hkv c hc
    cases c with
    | present v => exact (hp kv hkv _ hc v rfl).2.2
    | inapplicable => exact ⟨by unfold SingleLine; decide, by unfold BothQuotes; decide⟩
    | missing => exact ⟨by unfold SingleLine; decide, by unfold BothQuotes; decide⟩
  · rw [List.map_map]
    conv => rhs; rw [← List.map_id ccols]
    apply List.map_congr_left
    intro kv hkv
    simp only [Function.comp_def, List.map_map, id]
    congr 1
    conv => rhs; rw [← List.map_id kv.2]
    apply List.map_congr_left
    intro c hc
    cases c with
    | present v =>
      have := hp kv hkv _ hc v rfl
      simp [Cell.render, Cell.infer, this.1, this.2.1]
    | inapplicable => decide
    | missing => decide

/-! ## The reader's line-start tests against the writer's quoting (regenerated tables) -/

/-- The if/elif chain extracted from the *current* `_escape` computes the model's `escape`. -/
theorem C06_gen_escape (v : Str) :
    interp Gen.C06.escapeBranches Gen.C06.escapeDefault v = escape v := by
  simp [Gen.C06.escapeBranches, Gen.C06.escapeDefault, interp, Cond.eval, Act.apply, escape,
    quoteWith, q1, q2, sData, sLoop, Bool.or_assoc]

/-- `_multiline` as extracted equals the model's delimiters. -/
theorem C06_gen_multiline (v : Str) :
    Gen.C06.multilinePrefix.toList ++ v ++ Gen.C06.multilineSuffix.toList = multiline v := by
  simp [Gen.C06.multilinePrefix, Gen.C06.multilineSuffix, multiline]

/-- **Every first character / prefix the reader treats specially is quoted by the writer**: of
all first-character tests found in the reader functions of the current `cif.py`, the only one
that can fire on a written single-line token is the test for an opening quote. -/
theorem C06_special_heads_quoted (v : Str) (hs : SingleLine v) (hb : ¬ BothQuotes v) :
    ∀ t ∈ Gen.C06.readerHeadTests, t.2.eval (escape v) = true → t.2 = Cond.firstIn [q1, q2] := by
  obtain ⟨_, hsafe⟩ := escape_tok v hs hb
  intro t ht
  simp only [Gen.C06.readerHeadTests, List.mem_cons, List.mem_nil_iff, or_false] at ht
  have h1 := hsafe.semi
  have h2 := hsafe.hash
  have h3 := hsafe.under
  have h4 := hsafe.data
  have h5 := hsafe.loop
  rcases ht with rfl | rfl | rfl | rfl | rfl | rfl | rfl | rfl <;>
    simp_all [Cond.eval, sData, sLoop]

/-- The reader of the current `cif.py` still performs each line-start test the model has (a
test that disappears or is applied to a derived string breaks this obligation or the extraction). -/
theorem C06_gen_reader_tests_present :
    ([.firstIs '#', .startsWith "data_", .firstIs '_', .startsWith "loop_", .firstIs ';', .firstIn [q1, q2]] :
      List Cond).all (fun c => (Gen.C06.readerHeadTests.map (·.2)).contains c) = true := by
  decide

/-! ## Masks -/

/-- `.`/`?` mask states survive: what the reader infers from a rendered cell is the cell
(a PRESENT value is by construction not the string `.` or `?` — `CIFColumn` itself reads those
as INAPPLICABLE / MISSING). -/
theorem C06_mask (c : Cell) (h : ∀ v, c = .present v → v ≠ sDot ∧ v ≠ sQm) : Cell.infer c.render = c := by
  cases c with
  | present v =>
    have := h v rfl
    simp [Cell.render, Cell.infer, this.1, this.2]
  | inapplicable => decide
  | missing => decide

/-- The limit stated: a PRESENT string `.` cannot be told from INAPPLICABLE. -/
theorem C06_present_dot_indistinguishable : Cell.infer (Cell.present sDot).render = .inapplicable := by decide

/-! ## Containers -/

/-- **Lazy parsing is unobservable.**  For every history of `get/set/set-serialised/del/contains/
iter/len` on a File/Block/Category container of either flavour, started from any mixture of
still-serialised and already-parsed elements, the outputs equal those of a plain
insertion-ordered mapping and the final states are related by the abstraction function. -/
theorem C06_container_refines {κ ρ ν : Type} [BEq κ] [LawfulBEq κ] (kind : Kind) (parse : ρ → Option ν)
    (st : Store κ ρ ν) (ops : List (Op κ ρ ν)) :
    specRun kind parse (absStore parse st) ops =
      (absStore parse (run kind parse st ops).1, (run kind parse st ops).2) :=
  run_refines kind parse ops st

/-- **Containers with an encoded key** (`BinaryCIFBlock`: stored key = `"_" + name`, iteration removes
exactly that one prefix).  If decoding undoes encoding, every history on the store with encoded
keys refines the plain mapping over the *user's* keys: iteration yields exactly the names that
were set, each of them contained and retrievable — for every name, including names with leading,
inner, trailing or doubled underscores. -/
theorem C06_container_refines_prefixed {κ κ' ρ ν : Type} [BEq κ] [LawfulBEq κ] [BEq κ'] [LawfulBEq κ']
    (enc : κ → κ') (dec : κ' → κ) (hdec : ∀ k, dec (enc k) = k) (kind : Kind) (parse : ρ → Option ν)
    (st : Store κ' ρ ν) (hst : Img enc st) (ops : List (Op κ ρ ν)) :
    specRun kind parse (absP dec parse st) ops =
      (absP dec parse (runP enc dec kind parse st ops).1, (runP enc dec kind parse st ops).2) :=
  runP_refines enc dec hdec kind parse ops st hst

/-- The instance the code has after the `fix:` commit: `removeprefix("_")` undoes `"_" + name` for
every name (`lstrip("_")`, and the seeded `strip("_")`, do not: see the examples below). -/
theorem C06_binary_block_refines {ρ ν : Type} (kind : Kind) (parse : ρ → Option ν)
    (st : Store Str ρ ν) (hst : Img encU st) (ops : List (Op Str ρ ν)) :
    specRun kind parse (absP decU parse st) ops =
      (absP decU parse (runP encU decU kind parse st ops).1, (runP encU decU kind parse st ops).2) :=
  runP_refines encU decU (fun _ => rfl) kind parse ops st hst

/-- **Lazy parsing at file level.**  If the whole text parses (`fileParse text = ok r`), the file as
`CIFFile.deserialize` holds it — every block still text, every category of an accessed block still
text — means exactly the fully parsed nested mapping `r`.  By `C06_container_refines` (and
`…_eq_refines`) every history of mapping operations on the file, and on any block obtained from it,
therefore answers like the same history on the parsed form. -/
theorem C06_lazy_file_refines (text : Str) (r : List (Str × List (Option Str × (Str × Cols))))
    (h : fileParse text = .ok r) :
    deepAbs (lazyFile text) = deepAbs (parsedFile r) ∧
    deepAbs (parsedFile r) = r.map (fun b => (b.1, some (b.2.map (fun c => (c.1, some c.2))))) := by
  refine ⟨lazy_file_abs text r h, ?_⟩
  simp [deepAbs, parsedFile, absStore, Entry.force, List.map_map, Function.comp_def]

/-- `file[b][c]` on the lazily held file (two lazy steps, for *any* text, parseable or not) is the
look-up in the nested mapping the file means; after a successful `fileParse` that is the look-up in `r`. -/
theorem C06_lazy_get (text : Str) (b : Str) (c : Option Str) :
    lazyGet text b c = deepGet (deepAbs (lazyFile text)) b c ∧
    ∀ r, fileParse text = .ok r → lazyGet text b c = deepGet (deepAbs (parsedFile r)) b c := by
  have h := lazyGet_eq (lazyFile text) b c
  refine ⟨h, fun r hr => ?_⟩
  rw [← lazy_file_abs text r hr]; exact h

/-- **Column equality is sound for the tables, masks included.**  Columns that `__eq__` calls equal
(data arrays equal *and* masks equal, where "no mask" only equals "no mask") stand for the same
table; so two columns whose tables differ — e.g. identical data of which only one carries a mask
with INAPPLICABLE/MISSING rows — are never equal. -/
theorem C06_masked_eq_sound (a b : MCol) :
    (MCol.eq a b = true → a.render = b.render) ∧ (a.render ≠ b.render → MCol.eq a b = false) := by
  have h1 : MCol.eq a b = true → a.render = b.render := by
    intro h
    simp only [MCol.eq, Bool.and_eq_true, beq_iff_eq] at h
    obtain ⟨ad, am⟩ := a
    obtain ⟨bd, bm⟩ := b
    simp only at h
    rw [h.1, h.2]
  refine ⟨h1, fun hne => ?_⟩
  cases h : MCol.eq a b with
  | false => rfl
  | true => exact absurd (h1 h) hne

/-- **Reads are pure.**  (a) On a column with an explicit mask, `as_array` in every flavour, reading
`.data.array`, and building a second column on the same data leave (data, mask) unchanged, so a
whole history of reads gives what each read gives on the *initial* column.  (b) On the containers,
`get`, `contains`, iteration and `len` never change what the store means (`get` only caches). -/
theorem C06_reads_pure :
    (∀ (c : Col) (op : ColOp), (colStep c op).1 = c) ∧
    (∀ (c : Col) (ops : List ColOp), colRun c ops = (c, ops.map (fun op => (colStep c op).2))) ∧
    (∀ {κ ρ ν : Type} [BEq κ] [LawfulBEq κ] (kind : Kind) (parse : ρ → Option ν) (st : Store κ ρ ν) (k : κ),
      absStore parse (step kind parse st (.get k)).1 = absStore parse st ∧
      (step kind parse st (.has k)).1 = st ∧ (step kind parse st .iter).1 = st ∧ (step kind parse st .len).1 = st) := by
  refine ⟨fun c op => by cases op <;> rfl, ?_, ?_⟩
  · intro c ops
    induction ops with
    | nil => rfl
    | cons op ops ih =>
      have h1 : (colStep c op).1 = c := by cases op <;> rfl
      simp only [colRun, h1, ih, List.map_cons]
  · intro κ ρ ν _ _ kind parse st k
    exact ⟨(get_abs kind parse st k).1, rfl, rfl, rfl⟩

/-- `get` after lazy parsing returns `parse raw`, and the element is cached. -/
theorem C06_get_parses {κ ρ ν : Type} [BEq κ] [LawfulBEq κ] (kind : Kind) (parse : ρ → Option ν)
    (st : Store κ ρ ν) (k : κ) (r : ρ) (v : ν) (h : lookup k st = some (.raw r)) (hp : parse r = some v) :
    (step kind parse st (.get k)).2 = .val v ∧
    lookup k (step kind parse st (.get k)).1 = some (.parsed v) := by
  simp only [step, h, hp, true_and]
  clear hp
  induction st with
  | nil => simp [lookup] at h
  | cons x xs ih =>
    obtain ⟨k', e⟩ := x
    by_cases hk : (k' == k) = true
    · simp [dictSet, lookup, hk]
    · have hk' : (k' == k) = false := by simpa using hk
      simp only [lookup, hk', Bool.false_eq_true, if_false] at h
      simp [dictSet, lookup, hk', ih h]

/-- **Equality refines too**: `a == b` on two lazily parsed containers gives the answer (or the
error) of the element-wise comparison of the plain mappings, and leaves both unchanged in meaning. -/
theorem C06_container_eq_refines {κ ρ ν : Type} [BEq κ] [LawfulBEq κ] [BEq ν] (parse : ρ → Option ν)
    (a b : Store κ ρ ν) :
    absStore parse (eqContainers parse a b).1 = absStore parse a ∧
    absStore parse (eqContainers parse a b).2.1 = absStore parse b ∧
    (eqContainers parse a b).2.2 = specEq (absStore parse a) (absStore parse b) :=
  eq_refines parse a b

/-- **The cached row count is never stale** (after the two `fix:` commits): for every history of
set / delete / serialise / `row_count` on a category, started with an empty cache, every output is
what the *current* columns alone determine (`rcSpecRun` has no cache). -/
theorem C06_rowcount_not_stale {κ : Type} [BEq κ] (binary : Bool) (cols : List (κ × Nat)) (ops : List (RCOp κ)) :
    rcSpecRun binary cols ops =
      ((rcRun binary ⟨cols, none⟩ ops).1.cols, (rcRun binary ⟨cols, none⟩ ops).2) :=
  rcRun_refines binary ops ⟨cols, none⟩ (Or.inl rfl)

/-! ## Multi-line values (partial) -/

/-- **Multi-line values, and single-line values with both quote characters, under explicit line
hypotheses.**  Let the value consist of the lines `l0, l1, …` (joined by line breaks).  If
* no line contains a line break (they are the lines),
* the first line does not end with a blank (it may be empty and may start with anything),
* every later line is non-empty, neither starts nor ends with a blank, and does not start with `#` or `;`,
then the `;`-delimited text written by `_escape` is read back (lines → drop empty/comment lines →
strip → `_to_single` → tokenise: `readTokens`) as exactly that value.
Each excluded case loses data (`…_defect` theorems below).  This is the category-level pipeline;
inside a block/file the later lines must in addition not start with `_`, `loop_` or `data_`
(those are cut by `CIFBlock/CIFFile.deserialize`; known findings, exercised by the oracle only). -/
theorem C06_multiline_partial (l0 : Str) (ls : List Str) (hml : ls ≠ [] ∨ BothQuotes l0)
    (h0nl : NoBreak l0) (h0 : l0 = [] ∨ ∃ s c, l0 = s ++ [c] ∧ isWs c = false)
    (hls : ∀ l ∈ ls, KeptLine l) :
    readTokens (escape (joinNl (l0 :: ls))) = .ok [joinNl (l0 :: ls)] := by
  have hesc : escape (joinNl (l0 :: ls)) = multiline (joinNl (l0 :: ls)) := by
    by_cases hnl : has '\n' (joinNl (l0 :: ls)) = true
    · simp [escape, hnl]
    · have hbq : BothQuotes (joinNl (l0 :: ls)) := by
        cases ls with
        | nil =>
          rcases hml with h | h
          · exact absurd rfl h
          · simpa [joinNl] using h
        | cons l1 ls' =>
          exfalso
          apply hnl
          simp [has_iff, joinNl]
      have : (has q1 (joinNl (l0 :: ls)) && has q2 (joinNl (l0 :: ls))) = true := by
        simp only [Bool.and_eq_true, has_iff]; exact hbq
      simp [escape, hnl, this]
  rw [hesc]
  exact multiline_tokens l0 ls h0nl h0 hls

/-- **Rows that mix multi-line values with ordinary values (partial).**  A written row (or any
sequence of rows) seen as stretches — a line of ordinary tokens (single-line values written by
`_escape`, any padding), or the `;`-delimited lines of a multi-line value whose later lines are
`KeptLine`s — is re-assembled by `_to_single` and tokenised into exactly the values, in order:
a `;` block between token lines is merged into one value, token lines before and after it are
not absorbed, and no written token line is taken for a delimiter.
This starts from the lines *after* the reader dropped empty lines and stripped each line
(`Seg.lines`); that those are the lines of the text `_serialize_looped` writes for such a row
(`ljust` of a token that ends in a line break, the global `strip()`) is established by the
correspondence (`serfile`/`rt` with `good_multiline` values at every row/column), not by a theorem. -/
theorem C06_mixed_row_partial (segs : List Seg) (h : ∀ s ∈ segs, s.Ok) :
    mapM' splitOneLine (toSingle none (segs.flatMap Seg.lines)) = .ok (segs.map Seg.vals) := by
  induction segs with
  | nil => rfl
  | cons s segs ih =>
    have ih' := ih (fun x hx => h x (by simp [hx]))
    have hs := h s (by simp)
    cases s with
    | toks vals pads =>
      obtain ⟨hne, hlen, hv⟩ := hs
      have hrow := C06_row vals pads hne hlen hv
      have hsemi : ((padded ((vals.map escape).zip pads)).head? == some ';') = false := by
        cases vals with
        | nil => exact absurd rfl hne
        | cons v vs =>
          cases pads with
          | nil => simp at hlen
          | cons p ps =>
            have hv0 := hv v (by simp)
            have hs0 := escape_tok v hv0.1 hv0.2
            simp only [List.map_cons, List.zip_cons_cons]
            rw [padded_head? _ _ _ (tok_ne_nil _ _ hs0.1)]
            simpa using hs0.2.semi
      simp only [List.flatMap_cons, Seg.lines, List.singleton_append, toSingle, hsemi, Bool.false_eq_true, if_false,
        mapM', hrow, ih', bind, Except.bind, List.map_cons, Seg.vals]
    | ml l0 ls =>
      have hk : ∀ l ∈ ls, l.head? ≠ some ';' := fun l hl => (hs l hl).nosemi
      have h1 : ((';' :: l0).head? == some ';') = true := by simp
      simp only [List.flatMap_cons, Seg.lines, List.cons_append, List.append_assoc, toSingle, h1, if_true]
      rw [List.nil_append, toSingle_block_rest [';' :: l0] ls _ hk]
      simp only [List.singleton_append, joinNl_cons_head, mapM', splitOneLine, beq_self_eq_true, if_true, ih',
        bind, Except.bind, List.map_cons, Seg.vals]

/-- Special case: a single-line value with both quote characters that does not end with a blank. -/
theorem C06_both_quotes_partial (v : Str) (hs : SingleLine v) (hb : BothQuotes v)
    (hlast : ∃ s c, v = s ++ [c] ∧ isWs c = false) : readTokens (escape v) = .ok [v] := by
  have := C06_multiline_partial v [] (Or.inr hb) hs (Or.inr hlast) (by simp)
  simpa [joinNl] using this

/-! ## Multi-line values: what the current reader loses (known findings; witnesses replayed on the code) -/

def str (s : String) : Str := s.toList

/-- written then read as a looped category `c` with one column `k` and the rows `v`, `"p"` -/
def rt2 (v : Str) : Except Err (Str × List (Str × List Str)) :=
  match categorySerialize ['c'] [(['k'], [v, ['p']])] with
  | .ok t => categoryDeserialize t
  | .error e => .error e

/-- **Other line boundaries** (`\r`, `\x0b`, `\x0c`, `\x1c`–`\x1e`, `\x85`, U+2028/9): `_escape` only routes
`\n` to a multi-line value; `splitlines()` cuts the written line at every boundary character. -/
theorem C06_other_line_break_defect :
    rt2 ['a', '\r', 'b'] = .ok (['c'], [(['k'], [['a'], ['b', q1], ['p']])]) := by decide

/-- blank line inside a multi-line value is lost -/
theorem C06_multiline_blank_line_defect :
    rt2 ['x', '\n', '\n', 'y'] = .ok (['c'], [(['k'], [['x', '\n', 'y'], ['p']])]) := by decide
/-- a `#` line cuts the value -/
theorem C06_multiline_hash_line_defect :
    rt2 ['x', '\n', '#', 'y'] = .ok (['c'], [(['k'], [['x'], ['p']])]) := by decide
/-- a `;` line ends the value; the rest shifts -/
theorem C06_multiline_semicolon_line_defect :
    rt2 ['x', '\n', ';', 'y'] = .ok (['c'], [(['k'], [['x']])]) := by decide
/-- indentation is lost -/
theorem C06_multiline_indented_line_defect :
    rt2 ['x', '\n', ' ', 'y'] = .ok (['c'], [(['k'], [['x', '\n', 'y'], ['p']])]) := by decide
/-- trailing blanks of a line are lost -/
theorem C06_multiline_trailing_blank_defect :
    rt2 ['x', '\n', 'y', ' '] = .ok (['c'], [(['k'], [['x', '\n', 'y'], ['p']])]) := by decide
/-- single-line value with both quote characters: trailing blank lost -/
theorem C06_both_quotes_trailing_blank_defect :
    rt2 ['a', q1, q2, ' '] = .ok (['c'], [(['k'], [['a', q1, q2], ['p']])]) := by decide

/-! ## Pass 7: more of the source regenerated, as proof obligations

`Gen/C06.lean` now also holds, for each of the 99 anchored functions of cif.py / component.py / bcif.py, a
fingerprint read with `ast` (default arguments, string and integer literals, comparison and boolean operators,
raised exception classes, called helpers — all in source order) and the literals the model hard-codes. -/

/-- **Reader literals.**  The prefixes, first characters, separators and slice positions the reader functions
of the current source use are those of the model (`sData`, `sLoop`, `parseDataBlockName`, `parseCategoryName`,
`isEmptyLine`, `toSingle`, `splitOneLine`/`splitQuoted`). -/
theorem C06_gen_reader_consts :
    Gen.C06.dataPrefix.toList = sData ∧ Gen.C06.dataSlice = sData.length ∧
    (∀ l, parseDataBlockName l = if sData.isPrefixOf l then some (l.drop Gen.C06.dataSlice) else none) ∧
    Gen.C06.loopPrefix.toList = sLoop ∧
    Gen.C06.catNameFirst = "_" ∧ Gen.C06.catNameSep = "." ∧ Gen.C06.catNameIndex = 0 ∧ Gen.C06.catNameSliceStart = 1 ∧
    Gen.C06.commentChar = "#" ∧ Gen.C06.semiChar = ";" ∧ Gen.C06.joinSep = "\n" ∧ Gen.C06.splitSemi = ";" ∧
    Gen.C06.splitQ1.toList = [q1] ∧ Gen.C06.splitQ2.toList = [q2] ∧ Gen.C06.splitQ1a = Gen.C06.splitQ1 ∧
    Gen.C06.splitQ2a = Gen.C06.splitQ2 ∧ Gen.C06.partitionSep = " " ∧ Gen.C06.quotedMinLen = 1 := by
  refine ⟨by decide, by decide, fun l => rfl, by decide, rfl, rfl, rfl, rfl, rfl, rfl, rfl, rfl, by decide, by decide, rfl, rfl, rfl, rfl⟩

/-- **Writer literals.**  Key lines, padding, the `loop_` line, block header and category trailer of the current
source are those of `serializeSingle`, `serializeLooped`, `blockSerialize`, `catBlockText`; the order of the
`raise` statements in `CIFCategory.serialize` is the order of the model's refusals. -/
theorem C06_gen_writer_consts :
    Gen.C06.keyPartsSingle = ["_", "."] ∧ Gen.C06.keyPartsLooped = ["_", ".", " "] ∧
    (∀ name cols, serializeSingle name cols =
      List.zipWith (fun key kv => strip (ljust (maxLen (cols.map (fun kv => '_' :: name ++ '.' :: kv.1)) + Gen.C06.singlePad) key ++ escape kv.2))
        (cols.map (fun kv => '_' :: name ++ '.' :: kv.1)) cols) ∧
    Gen.C06.loopedPad = 1 ∧ Gen.C06.unicodeCharSize = 4 ∧ Gen.C06.loopHeader.toList = sLoop ∧ Gen.C06.loopedLineInit = "" ∧
    Gen.C06.blockHeaderParts.map String.toList = [sData, ['\n', '#', '\n']] ∧ Gen.C06.catTrailer.toList = ['#', '\n'] ∧
    Gen.C06.blockJoin = "" ∧ Gen.C06.fileJoin = ["", ""] ∧ Gen.C06.elementJoin = ["\n", "\n"] ∧
    Gen.C06.categoryLineEnd = [".", "", "\n"] ∧ Gen.C06.categoryChecksInts = [0, 1] ∧
    Gen.C06.categoryRaises = ["SerializationError", "ValueError", "SerializationError", "SerializationError", "ValueError"] := by
  refine ⟨rfl, rfl, fun _ _ => rfl, rfl, rfl, by decide, rfl, by decide, by decide, rfl, rfl, rfl, rfl, rfl, rfl⟩

/-- **Mask table.**  `.` ↦ INAPPLICABLE and `?` ↦ MISSING on reading, the inverse on writing, and the enum
values are the numbers `maskOf` uses. -/
theorem C06_gen_masks :
    Gen.C06.maskInferPairs = [[".", "INAPPLICABLE"], ["?", "MISSING"]] ∧
    Gen.C06.maskRenderPairs = [["INAPPLICABLE", "."], ["MISSING", "?"]] ∧
    Gen.C06.maskNames.zip Gen.C06.maskValues = [("PRESENT", 0), ("INAPPLICABLE", 1), ("MISSING", 2)] ∧
    maskOf sDot = 1 ∧ maskOf sQm = 2 ∧ maskOf [] = 0 := by
  refine ⟨rfl, rfl, by decide, by decide, by decide, by decide⟩

/-- **The `'_'` key prefix of `BinaryCIFBlock`**: all five accessors add the same one-character prefix and
both places that take it off use `removeprefix` with that prefix — the `encU`/`decU` of
`C06_binary_block_refines`. -/
theorem C06_gen_binary_prefix :
    Gen.C06.binaryPrefixes = ["_", "_", "_", "_", "_"] ∧
    Gen.C06.binaryStrip = [["removeprefix", "_"], ["removeprefix", "_"]] ∧
    (∀ k, encU k = "_".toList ++ k) ∧ (∀ k, decU (encU k) = k) := by
  refine ⟨rfl, rfl, fun _ => rfl, fun _ => rfl⟩

/-- **The cached row count is forgotten in `__setitem__` and `__delitem__` of both category classes** (the sites
`rcStep` resets the cache at). -/
theorem C06_gen_rowcount_resets :
    ["CIFCategory.__setitem__", "CIFCategory.__delitem__", "BinaryCIFCategory.__setitem__", "BinaryCIFCategory.__delitem__"].all
      (fun m => Gen.C06.rowCountResets.contains m) = true := by decide

/-! ### Shape of every anchored function = the snapshot the model was written against (`Proofs/C06Expected.lean`):
default argument values, literals, comparison operators, order of the `raise` statements (which error wins), helpers
called and their order. -/

theorem C06_gen_shape_reader :
    Gen.C06.fp_cifUarrayfy = Expected.fp_cifUarrayfy ∧
    Gen.C06.fp_cifUcreate_element_dict = Expected.fp_cifUcreate_element_dict ∧
    Gen.C06.fp_cifUescape = Expected.fp_cifUescape ∧
    Gen.C06.fp_cifUis_empty = Expected.fp_cifUis_empty ∧
    Gen.C06.fp_cifUis_loop_start = Expected.fp_cifUis_loop_start ∧
    Gen.C06.fp_cifUmultiline = Expected.fp_cifUmultiline ∧
    Gen.C06.fp_cifUparse_category_name = Expected.fp_cifUparse_category_name ∧
    Gen.C06.fp_cifUparse_data_block_name = Expected.fp_cifUparse_data_block_name ∧
    Gen.C06.fp_cifUsplit_one_line = Expected.fp_cifUsplit_one_line ∧
    Gen.C06.fp_cifUto_single = Expected.fp_cifUto_single := by
  refine ⟨?_, ?_, ?_, ?_, ?_, ?_, ?_, ?_, ?_, ?_⟩ <;> rfl

theorem C06_gen_shape_column :
    Gen.C06.fp_cif_CIFColumnU_eqU = Expected.fp_cif_CIFColumnU_eqU ∧
    Gen.C06.fp_cif_CIFColumnU_initU = Expected.fp_cif_CIFColumnU_initU ∧
    Gen.C06.fp_cif_CIFColumn_as_array = Expected.fp_cif_CIFColumn_as_array ∧
    Gen.C06.fp_cif_CIFColumn_as_item = Expected.fp_cif_CIFColumn_as_item ∧
    Gen.C06.fp_cif_CIFDataU_eqU = Expected.fp_cif_CIFDataU_eqU ∧
    Gen.C06.fp_cif_CIFDataU_initU = Expected.fp_cif_CIFDataU_initU ∧
    Gen.C06.fp_cif_UNICODE_CHAR_SIZE = Expected.fp_cif_UNICODE_CHAR_SIZE := by
  refine ⟨?_, ?_, ?_, ?_, ?_, ?_, ?_⟩ <;> rfl

theorem C06_gen_shape_category :
    Gen.C06.fp_cif_CIFCategoryU_containsU = Expected.fp_cif_CIFCategoryU_containsU ∧
    Gen.C06.fp_cif_CIFCategoryU_delitemU = Expected.fp_cif_CIFCategoryU_delitemU ∧
    Gen.C06.fp_cif_CIFCategoryU_eqU = Expected.fp_cif_CIFCategoryU_eqU ∧
    Gen.C06.fp_cif_CIFCategoryU_getitemU = Expected.fp_cif_CIFCategoryU_getitemU ∧
    Gen.C06.fp_cif_CIFCategoryU_initU = Expected.fp_cif_CIFCategoryU_initU ∧
    Gen.C06.fp_cif_CIFCategoryU_iterU = Expected.fp_cif_CIFCategoryU_iterU ∧
    Gen.C06.fp_cif_CIFCategoryU_lenU = Expected.fp_cif_CIFCategoryU_lenU ∧
    Gen.C06.fp_cif_CIFCategoryU_setitemU = Expected.fp_cif_CIFCategoryU_setitemU ∧
    Gen.C06.fp_cif_CIFCategoryUdeserialize_looped = Expected.fp_cif_CIFCategoryUdeserialize_looped ∧
    Gen.C06.fp_cif_CIFCategoryUdeserialize_single = Expected.fp_cif_CIFCategoryUdeserialize_single ∧
    Gen.C06.fp_cif_CIFCategoryUserialize_looped = Expected.fp_cif_CIFCategoryUserialize_looped ∧
    Gen.C06.fp_cif_CIFCategoryUserialize_single = Expected.fp_cif_CIFCategoryUserialize_single ∧
    Gen.C06.fp_cif_CIFCategory_deserialize = Expected.fp_cif_CIFCategory_deserialize ∧
    Gen.C06.fp_cif_CIFCategory_row_count = Expected.fp_cif_CIFCategory_row_count ∧
    Gen.C06.fp_cif_CIFCategory_serialize = Expected.fp_cif_CIFCategory_serialize := by
  refine ⟨?_, ?_, ?_, ?_, ?_, ?_, ?_, ?_, ?_, ?_, ?_, ?_, ?_, ?_, ?_⟩ <;> rfl

theorem C06_gen_shape_block :
    Gen.C06.fp_cif_CIFBlockU_containsU = Expected.fp_cif_CIFBlockU_containsU ∧
    Gen.C06.fp_cif_CIFBlockU_delitemU = Expected.fp_cif_CIFBlockU_delitemU ∧
    Gen.C06.fp_cif_CIFBlockU_eqU = Expected.fp_cif_CIFBlockU_eqU ∧
    Gen.C06.fp_cif_CIFBlockU_getitemU = Expected.fp_cif_CIFBlockU_getitemU ∧
    Gen.C06.fp_cif_CIFBlockU_initU = Expected.fp_cif_CIFBlockU_initU ∧
    Gen.C06.fp_cif_CIFBlockU_iterU = Expected.fp_cif_CIFBlockU_iterU ∧
    Gen.C06.fp_cif_CIFBlockU_lenU = Expected.fp_cif_CIFBlockU_lenU ∧
    Gen.C06.fp_cif_CIFBlockU_setitemU = Expected.fp_cif_CIFBlockU_setitemU ∧
    Gen.C06.fp_cif_CIFBlock_deserialize = Expected.fp_cif_CIFBlock_deserialize ∧
    Gen.C06.fp_cif_CIFBlock_serialize = Expected.fp_cif_CIFBlock_serialize := by
  refine ⟨?_, ?_, ?_, ?_, ?_, ?_, ?_, ?_, ?_, ?_⟩ <;> rfl

theorem C06_gen_shape_file :
    Gen.C06.fp_cif_CIFFileU_containsU = Expected.fp_cif_CIFFileU_containsU ∧
    Gen.C06.fp_cif_CIFFileU_copy_fillU = Expected.fp_cif_CIFFileU_copy_fillU ∧
    Gen.C06.fp_cif_CIFFileU_delitemU = Expected.fp_cif_CIFFileU_delitemU ∧
    Gen.C06.fp_cif_CIFFileU_eqU = Expected.fp_cif_CIFFileU_eqU ∧
    Gen.C06.fp_cif_CIFFileU_getitemU = Expected.fp_cif_CIFFileU_getitemU ∧
    Gen.C06.fp_cif_CIFFileU_initU = Expected.fp_cif_CIFFileU_initU ∧
    Gen.C06.fp_cif_CIFFileU_iterU = Expected.fp_cif_CIFFileU_iterU ∧
    Gen.C06.fp_cif_CIFFileU_lenU = Expected.fp_cif_CIFFileU_lenU ∧
    Gen.C06.fp_cif_CIFFileU_setitemU = Expected.fp_cif_CIFFileU_setitemU ∧
    Gen.C06.fp_cif_CIFFile_block = Expected.fp_cif_CIFFile_block ∧
    Gen.C06.fp_cif_CIFFile_deserialize = Expected.fp_cif_CIFFile_deserialize ∧
    Gen.C06.fp_cif_CIFFile_lines = Expected.fp_cif_CIFFile_lines ∧
    Gen.C06.fp_cif_CIFFile_read = Expected.fp_cif_CIFFile_read ∧
    Gen.C06.fp_cif_CIFFile_serialize = Expected.fp_cif_CIFFile_serialize ∧
    Gen.C06.fp_cif_CIFFile_write = Expected.fp_cif_CIFFile_write := by
  refine ⟨?_, ?_, ?_, ?_, ?_, ?_, ?_, ?_, ?_, ?_, ?_, ?_, ?_, ?_, ?_⟩ <;> rfl

theorem C06_gen_shape_component :
    Gen.C06.fp_component_MaskValue = Expected.fp_component_MaskValue ∧
    Gen.C06.fp_componentUHierarchicalContainerU_containsU = Expected.fp_componentUHierarchicalContainerU_containsU ∧
    Gen.C06.fp_componentUHierarchicalContainerU_delitemU = Expected.fp_componentUHierarchicalContainerU_delitemU ∧
    Gen.C06.fp_componentUHierarchicalContainerU_eqU = Expected.fp_componentUHierarchicalContainerU_eqU ∧
    Gen.C06.fp_componentUHierarchicalContainerU_getitemU = Expected.fp_componentUHierarchicalContainerU_getitemU ∧
    Gen.C06.fp_componentUHierarchicalContainerU_initU = Expected.fp_componentUHierarchicalContainerU_initU ∧
    Gen.C06.fp_componentUHierarchicalContainerU_iterU = Expected.fp_componentUHierarchicalContainerU_iterU ∧
    Gen.C06.fp_componentUHierarchicalContainerU_lenU = Expected.fp_componentUHierarchicalContainerU_lenU ∧
    Gen.C06.fp_componentUHierarchicalContainerU_setitemU = Expected.fp_componentUHierarchicalContainerU_setitemU ∧
    Gen.C06.fp_componentUHierarchicalContainerUdeserialize_elements = Expected.fp_componentUHierarchicalContainerUdeserialize_elements ∧
    Gen.C06.fp_componentUHierarchicalContainerUserialize_elements = Expected.fp_componentUHierarchicalContainerUserialize_elements := by
  refine ⟨?_, ?_, ?_, ?_, ?_, ?_, ?_, ?_, ?_, ?_, ?_⟩ <;> rfl

theorem C06_gen_shape_bcif_column :
    Gen.C06.fp_bcif_BinaryCIFColumnU_eqU = Expected.fp_bcif_BinaryCIFColumnU_eqU ∧
    Gen.C06.fp_bcif_BinaryCIFColumnU_initU = Expected.fp_bcif_BinaryCIFColumnU_initU ∧
    Gen.C06.fp_bcif_BinaryCIFColumn_as_array = Expected.fp_bcif_BinaryCIFColumn_as_array ∧
    Gen.C06.fp_bcif_BinaryCIFColumn_as_item = Expected.fp_bcif_BinaryCIFColumn_as_item ∧
    Gen.C06.fp_bcif_BinaryCIFColumn_deserialize = Expected.fp_bcif_BinaryCIFColumn_deserialize ∧
    Gen.C06.fp_bcif_BinaryCIFColumn_serialize = Expected.fp_bcif_BinaryCIFColumn_serialize ∧
    Gen.C06.fp_bcif_BinaryCIFDataU_eqU = Expected.fp_bcif_BinaryCIFDataU_eqU ∧
    Gen.C06.fp_bcif_BinaryCIFDataU_initU = Expected.fp_bcif_BinaryCIFDataU_initU ∧
    Gen.C06.fp_bcif_BinaryCIFData_deserialize = Expected.fp_bcif_BinaryCIFData_deserialize ∧
    Gen.C06.fp_bcif_BinaryCIFData_serialize = Expected.fp_bcif_BinaryCIFData_serialize := by
  refine ⟨?_, ?_, ?_, ?_, ?_, ?_, ?_, ?_, ?_, ?_⟩ <;> rfl

theorem C06_gen_shape_bcif_containers :
    Gen.C06.fp_bcif_BinaryCIFBlockU_containsU = Expected.fp_bcif_BinaryCIFBlockU_containsU ∧
    Gen.C06.fp_bcif_BinaryCIFBlockU_delitemU = Expected.fp_bcif_BinaryCIFBlockU_delitemU ∧
    Gen.C06.fp_bcif_BinaryCIFBlockU_getitemU = Expected.fp_bcif_BinaryCIFBlockU_getitemU ∧
    Gen.C06.fp_bcif_BinaryCIFBlockU_initU = Expected.fp_bcif_BinaryCIFBlockU_initU ∧
    Gen.C06.fp_bcif_BinaryCIFBlockU_iterU = Expected.fp_bcif_BinaryCIFBlockU_iterU ∧
    Gen.C06.fp_bcif_BinaryCIFBlockU_setitemU = Expected.fp_bcif_BinaryCIFBlockU_setitemU ∧
    Gen.C06.fp_bcif_BinaryCIFBlock_deserialize = Expected.fp_bcif_BinaryCIFBlock_deserialize ∧
    Gen.C06.fp_bcif_BinaryCIFBlock_serialize = Expected.fp_bcif_BinaryCIFBlock_serialize ∧
    Gen.C06.fp_bcif_BinaryCIFCategoryU_delitemU = Expected.fp_bcif_BinaryCIFCategoryU_delitemU ∧
    Gen.C06.fp_bcif_BinaryCIFCategoryU_initU = Expected.fp_bcif_BinaryCIFCategoryU_initU ∧
    Gen.C06.fp_bcif_BinaryCIFCategoryU_setitemU = Expected.fp_bcif_BinaryCIFCategoryU_setitemU ∧
    Gen.C06.fp_bcif_BinaryCIFCategory_deserialize = Expected.fp_bcif_BinaryCIFCategory_deserialize ∧
    Gen.C06.fp_bcif_BinaryCIFCategory_row_count = Expected.fp_bcif_BinaryCIFCategory_row_count ∧
    Gen.C06.fp_bcif_BinaryCIFCategory_serialize = Expected.fp_bcif_BinaryCIFCategory_serialize ∧
    Gen.C06.fp_bcif_BinaryCIFFileU_copy_fillU = Expected.fp_bcif_BinaryCIFFileU_copy_fillU ∧
    Gen.C06.fp_bcif_BinaryCIFFileU_initU = Expected.fp_bcif_BinaryCIFFileU_initU ∧
    Gen.C06.fp_bcif_BinaryCIFFile_block = Expected.fp_bcif_BinaryCIFFile_block ∧
    Gen.C06.fp_bcif_BinaryCIFFile_deserialize = Expected.fp_bcif_BinaryCIFFile_deserialize ∧
    Gen.C06.fp_bcif_BinaryCIFFile_read = Expected.fp_bcif_BinaryCIFFile_read ∧
    Gen.C06.fp_bcif_BinaryCIFFile_serialize = Expected.fp_bcif_BinaryCIFFile_serialize ∧
    Gen.C06.fp_bcif_BinaryCIFFile_write = Expected.fp_bcif_BinaryCIFFile_write := by
  refine ⟨?_, ?_, ?_, ?_, ?_, ?_, ?_, ?_, ?_, ?_, ?_, ?_, ?_, ?_, ?_, ?_, ?_, ?_, ?_, ?_, ?_⟩ <;> rfl

/-! ## Non-vacuity -/

example : SingleLine (str "loop_ it's #1") ∧ ¬ BothQuotes (str "loop_ it's #1") := by
  constructor
  · unfold SingleLine; decide
  · unfold BothQuotes; decide
example : escape (str "#x") = str "'#x'" := by decide
example : escape (str "_a' b") = str "\"_a' b\"" := by decide
example : splitOneLine (str "'#x'   \"_a' b\" data 'data_1' ''") =
    .ok [str "#x", str "_a' b", str "data", str "data_1", []] := by decide
example : rt2 ['#', 'x'] = .ok (['c'], [(['k'], [['#', 'x'], ['p']])]) := by decide
example : rt2 ['x', '\n', 'y'] = .ok (['c'], [(['k'], [['x', '\n', 'y'], ['p']])]) := by decide
example : rt2 ['a', q1, q2, 'b'] = .ok (['c'], [(['k'], [['a', q1, q2, 'b'], ['p']])]) := by decide
example : KeptLine ['i', 't', q1, 's', ' ', q2, '#', '2'] := by
  refine ⟨⟨⟨'i', _, rfl, by decide⟩, ⟨['i', 't', q1, 's', ' ', q2, '#'], '2', rfl, by decide⟩⟩,
    by decide, by decide, by decide⟩
example : readTokens (escape (str "a\nb c\n$x")) = .ok [str "a\nb c\n$x"] := by decide
example : decU (encU (str "_p")) = str "_p" ∧ decU (encU (str "t_")) = str "t_" := by decide
-- `lstrip("_")` (before the fix) and `strip("_")` (seeded change C06-3) are not inverse to the prefixing:
example : (encU (str "_p")).dropWhile (· == '_') ≠ str "_p" := by decide
example : (runP (ρ := Nat) (ν := Nat) encU decU ⟨false, true⟩ (fun r => some r) []
    [.set (str "t_") 1, .set (str "_p") 2, .iter, .has (str "t_"), .get (str "_p")]).2 =
    [.unit, .unit, .keys [str "t_", str "_p"], .bool true, .val 2] := by decide
example : (Col.mk [str "x1", str "x2", str "x3"] [0, 1, 2]).asArray none = [str "x1", sDot, sQm] := by decide
example : (colRun ⟨[str "x1", str "x2"], [2, 0]⟩ [.arr none, .data, .arr (some (str "-")), .plain]).2 =
    [[sQm, str "x2"], [str "x1", str "x2"], [str "-", str "x2"], [str "x1", str "x2"]] := by decide
example : (match fileParse (str "data_b\n#\nloop_\n_c.k \n'#x'\n'data_1'\n#\nloop_\n_d.j \n'loop_'\n';'\n#\n") with
    | .ok r => r == [(str "b", [(some (str "c"), (str "c", [(str "k", [str "#x", str "data_1"])])),
                                (some (str "d"), (str "d", [(str "j", [str "loop_", str ";"])]))])]
    | .error _ => false) = true := by decide
example : fileSerialize [(str "b", [(str "c", [(str "k", [str "#x", str "data_1"])]), (str "d", [(str "j", [str "loop_", str ";"])])])] =
    .ok (str "data_b\n#\nloop_\n_c.k \n'#x'\n'data_1'\n#\nloop_\n_d.j \n'loop_'\n';'\n#\n") := by decide
example : (Seg.toks [str "a", str "#x"] [2, 0]).Ok ∧ (Seg.ml (str "first") [str "second line"]).Ok := by
  refine ⟨⟨by simp, rfl, ?_⟩, ?_⟩
  · intro v hv
    simp only [List.mem_cons, List.mem_nil_iff, or_false] at hv
    rcases hv with rfl | rfl <;> exact ⟨by unfold SingleLine; decide, by unfold BothQuotes; decide⟩
  · intro l hl
    simp only [List.mem_cons, List.mem_nil_iff, or_false] at hl
    subst hl
    exact ⟨⟨⟨'s', _, rfl, by decide⟩, ⟨str "second lin", 'e', by decide, by decide⟩⟩, by decide, by decide, by decide⟩
example : ([Seg.toks [str "a", str "#x"] [2, 0], Seg.ml (str "first") [str "second line"], Seg.toks [str "b"] [0]].flatMap Seg.lines) =
    [str "a   '#x'", str ";first", str "second line", str ";", str "b"] := by decide
example : MCol.eq ⟨[str "x", str "y", str "z"], none⟩ ⟨[str "x", str "y", str "z"], some [0, 2, 1]⟩ = false ∧
    (MCol.mk [str "x", str "y", str "z"] (some [0, 2, 1])).render = [str "x", sQm, sDot] := by decide
example : rt2 ['a', Char.ofNat 0xa0, 'b'] = .ok (['c'], [(['k'], [['a', Char.ofNat 0xa0, 'b'], ['p']])]) := by decide
example : SingleLine ['a', Char.ofNat 0xa0, ' ', '\t', Char.ofNat 0x1f] := by unfold SingleLine; decide
example : (rcRun (κ := Nat) false ⟨[(0, 2)], none⟩ [.ser, .set 0 3, .ser, .count]).2 =
    [.ok (some 2), .ok none, .ok (some 3), .ok (some 3)] := by decide
example : NameOk (str "atom_site") := by unfold NameOk; decide
example : (run (κ := Nat) (ρ := Nat) (ν := Nat) ⟨false, true⟩ (fun r => if r = 0 then none else some r)
    [(1, .raw 5), (2, .raw 0)] [.get 1, .get 2, .del 1, .iter, .get 1]).2 =
    [.val 5, .err derr, .unit, .keys [2], .err .keyError] := by decide

end BiotiteModel.C06

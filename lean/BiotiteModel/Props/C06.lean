import BiotiteModel.Model.C06Containers
import BiotiteModel.Gen.C06
namespace BiotiteModel.C06
theorem C06_placeholder : escape [] = [q1, q1] := by decide
end BiotiteModel.C06

import BiotiteModel.Proofs.C06
import BiotiteModel.Proofs.C06Containers
import BiotiteModel.Gen.C06
/-!
# C06 — property theorems (the CIF text layer returns every string table unchanged)

Only property statements and non-vacuity examples; helper lemmas are in `Proofs/C06*.lean`.
All theorems quantify over *all* strings / rows / histories (no size bound).
-/
namespace BiotiteModel.C06

/-! ## Tokens and rows (single-line values without both quote characters) -/

/-- **Token.**  Every single-line value (any characters except line breaks; not both quote
characters at once) is returned unchanged by the tokeniser after the writer's quoting decision. -/
theorem C06_token (v : Str) (hs : SingleLine v) (hb : ¬ BothQuotes v) :
    splitOneLine (escape v) = .ok [v] := by
  obtain ⟨htok, hsafe⟩ := escape_tok v hs hb
  have hrel : RowRel [v] [(escape v, 0)] := RowRel.cons htok RowRel.nil
  have := splitOneLine_padded [v] [(escape v, 0)] hrel (by simp) (by simpa [padded] using hsafe.semi)
  simpa [padded] using this

theorem rowRel_escape (row : List Str) (toks : List (Str × Nat)) (hm : toks.map (·.1) = row.map escape)
    (h : ∀ v ∈ row, SingleLine v ∧ ¬ BothQuotes v) : RowRel row toks := by
  induction row generalizing toks with
  | nil => cases toks <;> simp_all [RowRel.nil]
  | cons v vs ih =>
    cases toks with
    | nil => simp at hm
    | cons tn rest =>
      simp only [List.map_cons, List.cons.injEq] at hm
      have hv := h v (by simp)
      refine RowRel.cons ?_ (ih rest hm.2 (fun x hx => h x (by simp [hx])))
      rw [hm.1]; exact (escape_tok v hv.1 hv.2).1

/-- **Row, any padding.**  A row of such values, each written by `_escape` and followed by one or
more blanks (none after the last), is split back into exactly the row — wherever the awkward
value stands, including the first column (no `SafeHead` hypothesis: after the `fix:` commits
the writer quotes `#`, `;`, `data_…`, `loop_…`). -/
theorem C06_row (row : List Str) (pads : List Nat) (hne : row ≠ []) (hlen : pads.length = row.length)
    (h : ∀ v ∈ row, SingleLine v ∧ ¬ BothQuotes v) :
    splitOneLine (padded ((row.map escape).zip pads)) = .ok row := by
  have hm : ((row.map escape).zip pads).map (·.1) = row.map escape := by
    rw [List.map_fst_zip]; simp [hlen]
  have hrel := rowRel_escape row _ hm h
  have hne' : (row.map escape).zip pads ≠ [] := by
    cases row with
    | nil => exact absurd rfl hne
    | cons v vs => cases pads with
      | nil => simp at hlen
      | cons p ps => simp
  refine splitOneLine_padded row _ hrel hne' ?_
  cases row with
  | nil => exact absurd rfl hne
  | cons v vs =>
    cases pads with
    | nil => simp at hlen
    | cons p ps =>
      have hv := h v (by simp)
      have hs := (escape_tok v hv.1 hv.2)
      simp only [List.map_cons, List.zip_cons_cons]
      rw [padded_head? _ _ _ (tok_ne_nil _ _ hs.1)]
      exact hs.2.semi

theorem length_le_maxLen (xs : List Str) (x : Str) (hx : x ∈ xs) : x.length ≤ maxLen xs := by
  unfold maxLen
  have gen : ∀ (ys : List Str) (m : Nat), m ≤ ys.foldl (fun m x => max m x.length) m ∧
      ∀ y ∈ ys, y.length ≤ ys.foldl (fun m x => max m x.length) m := by
    intro ys
    induction ys with
    | nil => intro m; simp
    | cons y ys ih =>
      intro m
      have h1 := ih (max m y.length)
      refine ⟨by simp only [List.foldl_cons]; omega, ?_⟩
      intro z hz
      simp only [List.foldl_cons]
      rcases List.mem_cons.mp hz with e | e
      · subst e; omega
      · exact h1.2 z e
  exact (gen xs 0).2 x hx

/-- The column width the writer uses (`itemsize + 1` = longest escaped element + 1) leaves at
least one blank after every element of the column. -/
theorem C06_width_sufficient (col : List Str) (v : Str) (hv : v ∈ col) :
    (escape v).length < maxLen (col.map escape) + 1 := by
  have := length_le_maxLen (col.map escape) (escape v) (List.mem_map_of_mem hv)
  omega

/-- **Row as written.**  One value line of `_serialize_looped` (`ljust` to the column widths,
`strip`), stripped again by the reader and tokenised, is the row. -/
theorem C06_row_written (row : List Str) (ws : List Nat) (hne : row ≠ []) (hlen : ws.length = row.length)
    (hw : ∀ p ∈ ws.zip (row.map escape), p.2.length < p.1)
    (h : ∀ v ∈ row, SingleLine v ∧ ¬ BothQuotes v) :
    splitOneLine (strip (rowLine ws (row.map escape))) = .ok row := by
  have hlen' : ws.length = (row.map escape).length := by simp [hlen]
  have hne' : row.map escape ≠ [] := by simpa using hne
  have hm := padsOf_map_fst ws (row.map escape) hlen'
  have hrel := rowRel_escape row _ hm h
  have hpn := padsOf_ne_nil ws (row.map escape) hlen' hne'
  rw [rowLine_padded row ws _ hlen' hrel hne' hw, strip_padded _ hpn (rowRel_edges _ _ hrel)]
  refine splitOneLine_padded row _ hrel hpn ?_
  cases row with
  | nil => exact absurd rfl hne
  | cons v vs =>
    cases ws with
    | nil => simp at hlen
    | cons w ws' =>
      have hv := h v (by simp)
      have hs := (escape_tok v hv.1 hv.2)
      simp only [List.map_cons, padsOf]
      rw [padded_head? _ _ _ (tok_ne_nil _ _ hs.1)]
      exact hs.2.semi

/-- **All value lines of a looped category**: tokenising the written lines one by one gives back
the rows, in order. -/
theorem C06_looped_lines (rows : List (List Str)) (ws : List Nat)
    (hrow : ∀ row ∈ rows, row ≠ [] ∧ ws.length = row.length ∧
      (∀ p ∈ ws.zip (row.map escape), p.2.length < p.1) ∧ ∀ v ∈ row, SingleLine v ∧ ¬ BothQuotes v) :
    mapM' splitOneLine ((rows.map (fun r => rowLine ws (r.map escape))).map strip) = .ok rows := by
  induction rows with
  | nil => rfl
  | cons r rs ih =>
    obtain ⟨h1, h2, h3, h4⟩ := hrow r (by simp)
    have := C06_row_written r ws h1 h2 h3 h4
    have ih' := ih (fun x hx => hrow x (by simp [hx]))
    simp only [List.map_cons, mapM', this, ih', bind, Except.bind]

/-! ## The reader's line-start tests against the writer's quoting (regenerated tables) -/

/-- The if/elif chain extracted from the *current* `_escape` computes the model's `escape`. -/
theorem C06_gen_escape (v : Str) :
    interp Gen.C06.escapeBranches Gen.C06.escapeDefault v = escape v := by
  simp [Gen.C06.escapeBranches, Gen.C06.escapeDefault, interp, Cond.eval, Act.apply, escape,
    quoteWith, q1, q2, sData, sLoop, Bool.or_assoc]

/-- `_multiline` as extracted equals the model's delimiters. -/
theorem C06_gen_multiline (v : Str) :
    Gen.C06.multilinePrefix.toList ++ v ++ Gen.C06.multilineSuffix.toList = multiline v := by
  simp [Gen.C06.multilinePrefix, Gen.C06.multilineSuffix, multiline]

/-- **Every first character / prefix the reader treats specially is quoted by the writer**: of
all first-character tests found in the reader functions of the current `cif.py`, the only one
that can fire on a written single-line token is the test for an opening quote. -/
theorem C06_special_heads_quoted (v : Str) (hs : SingleLine v) (hb : ¬ BothQuotes v) :
    ∀ t ∈ Gen.C06.readerHeadTests, t.2.eval (escape v) = true → t.2 = Cond.firstIn [q1, q2] := by
  obtain ⟨_, hsafe⟩ := escape_tok v hs hb
  intro t ht
  simp only [Gen.C06.readerHeadTests, List.mem_cons, List.mem_nil_iff, or_false] at ht
  have h1 := hsafe.semi
  have h2 := hsafe.hash
  have h3 := hsafe.under
  have h4 := hsafe.data
  have h5 := hsafe.loop
  rcases ht with rfl | rfl | rfl | rfl | rfl | rfl | rfl | rfl <;>
    simp_all [Cond.eval, sData, sLoop]

/-- The reader of the current `cif.py` still performs each line-start test the model has (a
test that disappears or is applied to a derived string breaks this obligation or the extraction). -/
theorem C06_gen_reader_tests_present :
    ([.firstIs '#', .startsWith "data_", .firstIs '_', .startsWith "loop_", .firstIs ';', .firstIn [q1, q2]] :
      List Cond).all (fun c => (Gen.C06.readerHeadTests.map (·.2)).contains c) = true := by
  decide

/-! ## Masks -/

/-- `.`/`?` mask states survive: what the reader infers from a rendered cell is the cell
(a PRESENT value is by construction not the string `.` or `?` — `CIFColumn` itself reads those
as INAPPLICABLE / MISSING). -/
theorem C06_mask (c : Cell) (h : ∀ v, c = .present v → v ≠ sDot ∧ v ≠ sQm) : Cell.infer c.render = c := by
  cases c with
  | present v =>
    have := h v rfl
    simp [Cell.render, Cell.infer, this.1, this.2]
  | inapplicable => decide
  | missing => decide

/-- The limit stated: a PRESENT string `.` cannot be told from INAPPLICABLE. -/
theorem C06_present_dot_indistinguishable : Cell.infer (Cell.present sDot).render = .inapplicable := by decide

/-! ## Containers -/

/-- **Lazy parsing is unobservable.**  For every history of `get/set/set-serialised/del/contains/
iter/len` on a File/Block/Category container of either flavour, started from any mixture of
still-serialised and already-parsed elements, the outputs equal those of a plain
insertion-ordered mapping and the final states are related by the abstraction function. -/
theorem C06_container_refines {κ ρ ν : Type} [BEq κ] [LawfulBEq κ] (kind : Kind) (parse : ρ → Option ν)
    (st : Store κ ρ ν) (ops : List (Op κ ρ ν)) :
    specRun kind parse (absStore parse st) ops =
      (absStore parse (run kind parse st ops).1, (run kind parse st ops).2) :=
  run_refines kind parse ops st

/-- `get` after lazy parsing returns `parse raw`, and the element is cached. -/
theorem C06_get_parses {κ ρ ν : Type} [BEq κ] [LawfulBEq κ] (kind : Kind) (parse : ρ → Option ν)
    (st : Store κ ρ ν) (k : κ) (r : ρ) (v : ν) (h : lookup k st = some (.raw r)) (hp : parse r = some v) :
    (step kind parse st (.get k)).2 = .val v ∧
    lookup k (step kind parse st (.get k)).1 = some (.parsed v) := by
  simp only [step, h, hp, true_and]
  clear hp
  induction st with
  | nil => simp [lookup] at h
  | cons x xs ih =>
    obtain ⟨k', e⟩ := x
    by_cases hk : (k' == k) = true
    · simp [dictSet, lookup, hk]
    · have hk' : (k' == k) = false := by simpa using hk
      simp only [lookup, hk', Bool.false_eq_true, if_false] at h
      simp [dictSet, lookup, hk', ih h]

/-! ## Multi-line values: what the current reader loses (known findings; witnesses replayed on the code) -/

def str (s : String) : Str := s.toList

/-- written then read as a looped category `c` with one column `k` and the rows `v`, `"p"` -/
def rt2 (v : Str) : Except Err (Str × List (Str × List Str)) :=
  match categorySerialize ['c'] [(['k'], [v, ['p']])] with
  | .ok t => categoryDeserialize t
  | .error e => .error e

/-- blank line inside a multi-line value is lost -/
theorem C06_multiline_blank_line_defect :
    rt2 ['x', '\n', '\n', 'y'] = .ok (['c'], [(['k'], [['x', '\n', 'y'], ['p']])]) := by decide
/-- a `#` line cuts the value -/
theorem C06_multiline_hash_line_defect :
    rt2 ['x', '\n', '#', 'y'] = .ok (['c'], [(['k'], [['x'], ['p']])]) := by decide
/-- a `;` line ends the value; the rest shifts -/
theorem C06_multiline_semicolon_line_defect :
    rt2 ['x', '\n', ';', 'y'] = .ok (['c'], [(['k'], [['x']])]) := by decide
/-- indentation is lost -/
theorem C06_multiline_indented_line_defect :
    rt2 ['x', '\n', ' ', 'y'] = .ok (['c'], [(['k'], [['x', '\n', 'y'], ['p']])]) := by decide
/-- trailing blanks of a line are lost -/
theorem C06_multiline_trailing_blank_defect :
    rt2 ['x', '\n', 'y', ' '] = .ok (['c'], [(['k'], [['x', '\n', 'y'], ['p']])]) := by decide
/-- single-line value with both quote characters: trailing blank lost -/
theorem C06_both_quotes_trailing_blank_defect :
    rt2 ['a', q1, q2, ' '] = .ok (['c'], [(['k'], [['a', q1, q2], ['p']])]) := by decide

/-! ## Non-vacuity -/

example : SingleLine (str "loop_ it's #1") ∧ ¬ BothQuotes (str "loop_ it's #1") := by
  constructor
  · unfold SingleLine; decide
  · unfold BothQuotes; decide
example : escape (str "#x") = str "'#x'" := by decide
example : escape (str "_a' b") = str "\"_a' b\"" := by decide
example : splitOneLine (str "'#x'   \"_a' b\" data 'data_1' ''") =
    .ok [str "#x", str "_a' b", str "data", str "data_1", []] := by decide
example : rt2 ['#', 'x'] = .ok (['c'], [(['k'], [['#', 'x'], ['p']])]) := by decide
example : rt2 ['x', '\n', 'y'] = .ok (['c'], [(['k'], [['x', '\n', 'y'], ['p']])]) := by decide
example : rt2 ['a', q1, q2, 'b'] = .ok (['c'], [(['k'], [['a', q1, q2, 'b'], ['p']])]) := by decide
example : (run (κ := Nat) (ρ := Nat) (ν := Nat) ⟨false, true⟩ (fun r => if r = 0 then none else some r)
    [(1, .raw 5), (2, .raw 0)] [.get 1, .get 2, .del 1, .iter, .get 1]).2 =
    [.val 5, .err derr, .unit, .keys [2], .err .keyError] := by decide

end BiotiteModel.C06

import BiotiteModel.Proofs.C16
import BiotiteModel.Proofs.C16Kabsch
import BiotiteModel.Gen.C16
/-!
# C16 — property theorems (superimposition: proper rotation, matrix form, anchors)

Only property statements and their non-vacuity examples live here; helper lemmas are in
`Proofs/C16.lean`.  Every theorem quantifies over *all* inputs (no size bound).

**Partial, stated plainly.**  The SVD *computation* (LAPACK, float32) is external: `svd` is a parameter of
the model and its contract is the explicit structure `IsSVD` (orthogonal factors, `H = V·diag(s)·W`,
`s₁ ≥ s₂ ≥ s₃ ≥ 0`).  *Given* an SVD, optimality of the rotation is a theorem here: `C16_rmsd_trace`,
`C16_trace_bound`, `C16_trace_bound_reflected`, `C16_kabsch_optimal_no_reflection`,
`C16_kabsch_optimal_reflection`, `C16_kabsch_optimal`, `C16_kabsch_optimal_superimpose`.  That LAPACK
meets the contract, and float rounding, are validated per output by the oracle in
`harness/props/c16.py` (independent quaternion optimum, perturbations, certificate), not proved.
-/
namespace BiotiteModel.C16

/-! ## The 4×4 matrix form equals `apply` (any commutative ring) -/

/-- `as_matrix()` of one model, applied to `(x, y, z, 1)`, is `apply` of that model followed by `1`:
`(T(t)·Rot(R))·T(c) · [x;1] = [R·(x + c) + t; 1]`. -/
theorem C16_matrix_form {α : Type} [CommRing α] (c : V3 α) (R : M3 α) (t x : V3 α) :
    (asMatrix1 c R t).mulVec x.homog = (applyPoint c R t x).homog :=
  matrix_form c R t x

/-- The stacked `as_matrix()`: one matrix per rotation, built from the (broadcast) translations of
that model; a translation array that is neither `(1,3)` nor `(m,3)` is rejected. -/
theorem C16_matrix_form_stack {α : Type} [CommRing α] (T : Transform α) (Ms : List (M4 α))
    (h : T.asMatrix = .ok Ms) :
    Ms.length = T.rotation.length ∧
    ∀ (k : Nat) (R : M3 α), T.rotation[k]? = some R →
      ∃ c t, bget T.center k = some c ∧ bget T.target k = some t ∧ Ms[k]? = some (asMatrix1 c R t) := by
  unfold Transform.asMatrix at h
  cases h1 : bcastTo T.rotation.length T.center with
  | error e => simp [h1, bind, Except.bind] at h
  | ok cs =>
    cases h2 : bcastTo T.rotation.length T.target with
    | error e => simp [h1, h2, bind, Except.bind] at h
    | ok ts =>
      simp only [h1, h2, bind, Except.bind, pure, Except.pure] at h
      have hMs := Except.ok.inj h
      obtain ⟨hcl, hcs⟩ := bcastTo_spec _ _ _ h1
      obtain ⟨htl, hts⟩ := bcastTo_spec _ _ _ h2
      subst hMs
      refine ⟨zipWith3_length _ _ _ _ hcl htl, ?_⟩
      intro k R hR
      have hk : k < T.rotation.length := by
        rcases Nat.lt_or_ge k T.rotation.length with h1 | h1
        · exact h1
        · rw [List.getElem?_eq_none h1] at hR; cases hR
      obtain ⟨c, hc, hck⟩ := hcs k hk
      obtain ⟨t, ht, htk⟩ := hts k hk
      exact ⟨c, t, hc, ht, zipWith3_getElem? _ _ _ _ _ _ _ _ hck hR htk⟩

/-! ## `apply` acts model-wise on stacks -/

/-- `AffineTransformation.apply` on an `(m,n,3)` array — implemented by whole-array operations
(`+=` with broadcasting, `_multi_matmul`, `+=`) — transforms model `k` by the `k`-th rotation and the
`k`-th (or the single, broadcast) translations only: `Y[k][i] = R_k·(X[k][i] + c_k) + t_k`. -/
theorem C16_stack_modelwise {α : Type} [CommRing α] (T : Transform α) (X Y : Stack α)
    (h : T.applyStack X = .ok Y) :
    Y.length = X.length ∧ X.length = T.rotation.length ∧
    ∀ (k : Nat) (pts : List (V3 α)), X[k]? = some pts →
      ∃ c R t, bget T.center k = some c ∧ T.rotation[k]? = some R ∧ bget T.target k = some t ∧
        Y[k]? = some (pts.map (applyPoint c R t)) := by
  unfold Transform.applyStack at h
  split at h
  · cases h
  · rename_i hlen
    have hlen' : X.length = T.rotation.length := by
      rcases Nat.decEq X.length T.rotation.length with h0 | h0
      · exact absurd h0 hlen
      · exact h0
    cases h1 : addBroadcast X T.center with
    | error e => simp [h1, bind, Except.bind] at h
    | ok s =>
      simp only [h1, bind, Except.bind] at h
      obtain ⟨hs_len, hs⟩ := addBroadcast_spec X T.center s h1
      obtain ⟨hm_len, hm⟩ := multiMatmul_spec T.rotation s (by omega)
      obtain ⟨hy_len, hy⟩ := addBroadcast_spec _ T.target Y h
      refine ⟨by omega, hlen', ?_⟩
      intro k pts hk
      obtain ⟨c, hc, hsk⟩ := hs k pts hk
      obtain ⟨R, hR, hmk⟩ := hm k _ hsk
      obtain ⟨t, ht, hyk⟩ := hy k _ hmk
      refine ⟨c, R, t, hc, hR, ht, ?_⟩
      rw [hyk]
      simp [List.map_map, applyPoint, Function.comp_def]

/-- The degenerate transformations need no special treatment: with a zero centre translation and the
identity rotation `apply` is the pure translation `x ↦ x + t` (and the identity for `t = 0`) — as a
*function* of its input, which the model (and the property) never modifies. -/
theorem C16_apply_pure_translation {α : Type} [CommRing α] (t x : V3 α) :
    applyPoint V3.zero M3.one t x = x.add t ∧ applyPoint V3.zero M3.one V3.zero x = x := by
  obtain ⟨a, b, c⟩ := x
  obtain ⟨u, v, w⟩ := t
  simp only [applyPoint, M3.mulVec, M3.one, V3.zero, V3.dot, V3.add, V3.mk.injEq]
  refine ⟨⟨?_, ?_, ?_⟩, ⟨?_, ?_, ?_⟩⟩ <;> ring

/-- A structure whose number of models differs from the number of transformations is rejected with
`IndexError`, and this is the only way `apply` raises `IndexError`. -/
theorem C16_apply_model_count {α : Type} [CommRing α] (T : Transform α) (X : Stack α) :
    T.applyStack X = .error .indexError ↔ X.length ≠ T.rotation.length := by
  unfold Transform.applyStack
  constructor
  · intro h
    split at h
    · assumption
    · exfalso
      cases h1 : addBroadcast X T.center with
      | error e =>
        have he := addBroadcast_error _ _ _ h1
        subst he
        simp [h1, bind, Except.bind] at h
      | ok s =>
        simp only [h1, bind, Except.bind] at h
        have he := addBroadcast_error _ _ _ h
        cases he
  · intro h
    simp [h]

/-- **Error paths, exactly.**  `apply` succeeds iff the model counts agree and both translation arrays
have one row or one row per model; every other call is refused (`IndexError` for the model count —
`C16_apply_model_count` — otherwise `ValueError`), and since the model is a pure function a refused
call cannot have changed the transformation or its argument. -/
theorem C16_apply_accepts_iff {α : Type} [CommRing α] (T : Transform α) (X : Stack α) :
    (∃ Y, T.applyStack X = .ok Y) ↔
      X.length = T.rotation.length ∧ (T.center.length = X.length ∨ T.center.length = 1) ∧
      (T.target.length = X.length ∨ T.target.length = 1) := by
  unfold Transform.applyStack
  by_cases hlen : X.length = T.rotation.length
  · simp only [hlen, ne_eq, not_true_eq_false, if_false, true_and]
    constructor
    · rintro ⟨Y, h⟩
      cases h1 : addBroadcast X T.center with
      | error e => simp [h1, bind, Except.bind] at h
      | ok s =>
        simp only [h1, bind, Except.bind] at h
        have hs := (addBroadcast_spec X T.center s h1).1
        have hm := (multiMatmul_spec T.rotation s (by omega)).1
        have c1 := (addBroadcast_isOk X T.center).mp ⟨s, h1⟩
        have c2 := (addBroadcast_isOk _ T.target).mp ⟨Y, h⟩
        refine ⟨by omega, by omega⟩
    · rintro ⟨c1, c2⟩
      obtain ⟨s, h1⟩ := (addBroadcast_isOk X T.center).mpr (by omega)
      have hs := (addBroadcast_spec X T.center s h1).1
      have hm := (multiMatmul_spec T.rotation s (by omega)).1
      obtain ⟨Y, h2⟩ := (addBroadcast_isOk (multiMatmul T.rotation s) T.target).mpr (by omega)
      exact ⟨Y, by simp only [h1, bind, Except.bind]; exact h2⟩
  · simp [hlen]

/-! ## The fitted coordinates are `apply` of the returned transformation -/

/-- `superimpose` returns `(transform.apply(mobile), transform)`: the fitted coordinates are
reproduced by applying the returned transformation to the mobile structure. -/
theorem C16_apply_reproduces (rot : Stack Rat → Stack Rat → Except Err (List (M3 Rat)))
    (fixed mobile : Coords Rat) (mask : Option (List Bool)) (fitted : Coords Rat) (T : Transform Rat)
    (h : superimposeWith rot fixed mobile mask = .ok (fitted, T)) :
    superimposeTransform rot fixed mobile mask = .ok T ∧ T.apply mobile = .ok fitted := by
  unfold superimposeWith at h
  cases h1 : superimposeTransform rot fixed mobile mask with
  | error e => simp [h1, bind, Except.bind] at h
  | ok T' =>
    simp only [h1, bind, Except.bind] at h
    cases h2 : T'.apply mobile with
    | error e => simp [h2] at h
    | ok f =>
      simp only [h2, pure, Except.pure, Except.ok.injEq, Prod.mk.injEq] at h
      obtain ⟨rfl, rfl⟩ := h
      exact ⟨rfl, h2⟩

/-- For two single structures without mask the transformation is
`AffineTransformation(-centroid(mobile), R, centroid(fixed))`. -/
theorem C16_transform_shape (rot : Stack Rat → Stack Rat → Except Err (List (M3 Rat)))
    (f m : List (V3 Rat)) (T : Transform Rat)
    (h : superimposeTransform rot (.single f) (.single m) none = .ok T) :
    ∃ cm cf, centroid m = .ok cm ∧ centroid f = .ok cf ∧ T.center = [cm.neg] ∧ T.target = [cf] := by
  unfold superimposeTransform at h
  simp only [Coords.to3d, pure, Except.pure, bind, Except.bind, List.mapM_cons, List.mapM_nil] at h
  cases h1 : centroid m with
  | error e => simp [h1] at h
  | ok cm =>
    cases h2 : centroid f with
    | error e => simp [h1, h2] at h
    | ok cf =>
      simp only [h1, h2] at h
      split at h
      · cases h
      · have := Except.ok.inj h
        subst this
        exact ⟨cm, cf, rfl, rfl, rfl, rfl⟩

/-! ## A masked fit depends only on the masked atoms -/

theorem to3d_selectMask (mk : List Bool) (c sel : Coords Rat) (h : c.selectMask mk = .ok sel) :
    c.to3d.mapM (selectMask mk) = .ok sel.to3d := by
  cases c with
  | single pts =>
    simp only [Coords.selectMask, bind, Except.bind, pure, Except.pure] at h
    cases h1 : selectMask mk pts with
    | error e => simp [h1] at h
    | ok q =>
      simp only [h1, Except.ok.injEq] at h
      subst h
      simp [Coords.to3d, h1, bind, Except.bind, pure, Except.pure]
  | stack X =>
    simp only [Coords.selectMask, bind, Except.bind, pure, Except.pure] at h
    cases h1 : X.mapM (selectMask mk) with
    | error e => simp [h1] at h
    | ok Y =>
      simp only [h1, Except.ok.injEq] at h
      subst h
      simp [Coords.to3d, h1]

/-- **The transformation of a masked fit is the transformation of the fit of the selected atoms
alone** (`superimpose(fixed, mobile, atom_mask)` builds the same `AffineTransformation` as
`superimpose(fixed[..., mask, :], mobile[..., mask, :])`), for every rotation routine. -/
theorem C16_mask_only_selected (rot : Stack Rat → Stack Rat → Except Err (List (M3 Rat)))
    (mk : List Bool) (fixed mobile fixedSel mobileSel : Coords Rat)
    (hf : fixed.selectMask mk = .ok fixedSel) (hm : mobile.selectMask mk = .ok mobileSel) :
    superimposeTransform rot fixed mobile (some mk) = superimposeTransform rot fixedSel mobileSel none := by
  unfold superimposeTransform
  simp only [to3d_selectMask mk fixed fixedSel hf, to3d_selectMask mk mobile mobileSel hm, bind, Except.bind,
    pure, Except.pure]

/-- Hence atoms outside the mask do not matter: two inputs that agree on the masked atoms get the
same transformation, whatever the other atoms are. -/
theorem C16_mask_unselected_irrelevant (rot : Stack Rat → Stack Rat → Except Err (List (M3 Rat)))
    (mk : List Bool) (fixed mobile fixed' mobile' fixedSel mobileSel : Coords Rat)
    (hf : fixed.selectMask mk = .ok fixedSel) (hm : mobile.selectMask mk = .ok mobileSel)
    (hf' : fixed'.selectMask mk = .ok fixedSel) (hm' : mobile'.selectMask mk = .ok mobileSel) :
    superimposeTransform rot fixed mobile (some mk) = superimposeTransform rot fixed' mobile' (some mk) := by
  rw [C16_mask_only_selected rot mk fixed mobile fixedSel mobileSel hf hm,
    C16_mask_only_selected rot mk fixed' mobile' fixedSel mobileSel hf' hm']

/-! ## The reflection correction yields a proper rotation -/

/-- `det V = ±1 → det W = ±1 → det (correct V W) = 1`: after `v[:, -1] *= -1` (performed iff
`det(v)·det(w) < 0`) the product `v @ w` has determinant `+1`. -/
theorem C16_proper_det (V W : M3 ℚ) (hV : V.det = 1 ∨ V.det = -1) (hW : W.det = 1 ∨ W.det = -1) :
    (correct V W).det = 1 :=
  correct_det V W hV hW

/-- For orthogonal SVD factors the returned matrix is orthogonal (the column flip preserves
orthonormality) with determinant `+1`: a proper rotation. -/
theorem C16_proper (V W : M3 ℚ) (hV : IsOrtho V) (hW : IsOrtho W) :
    IsOrtho (correct V W) ∧ (correct V W).det = 1 :=
  ⟨correct_ortho V W hV hW, correct_det V W hV.det_pm hW.det_pm⟩

/-- The correction is needed: without it the product is improper exactly when the test fires, and
the test fires for a mirror-image covariance (`V = 1`, `W = diag(1,1,-1)`). -/
theorem C16_uncorrected_improper :
    (M3.mul (M3.one : M3 ℚ) flipD).det = -1 ∧ (correct (M3.one : M3 ℚ) flipD).det = 1 := by
  refine ⟨?_, ?_⟩
  · rw [det_mul, det_one]; simp only [flipD, M3.det]; norm_num
  · exact correct_det _ _ (Or.inl det_one) (Or.inr (by simp only [flipD, M3.det]; norm_num))

/-- Every rotation matrix `_get_rotation_matrices` returns (all models, all broadcast combinations)
is a proper rotation, for every SVD routine whose factors are orthogonal. -/
theorem C16_rotation_proper (svd : M3 ℚ → M3 ℚ × M3 ℚ)
    (hsvd : ∀ H, IsOrtho (svd H).1 ∧ IsOrtho (svd H).2)
    (fixed mobile : Stack ℚ) (Rs : List (M3 ℚ)) (h : getRotation svd fixed mobile = .ok Rs) :
    ∀ R ∈ Rs, IsOrtho R ∧ R.det = 1 := by
  unfold getRotation at h
  cases h1 : bzip fixed mobile with
  | error e => simp [h1, bind, Except.bind] at h
  | ok pairs =>
    simp only [h1, bind, Except.bind] at h
    split at h
    · cases h
    · split at h
      · cases h
      · have := Except.ok.inj h
        subst this
        intro R hR
        simp only [List.mem_map] at hR
        obtain ⟨p, _, rfl⟩ := hR
        exact C16_proper _ _ (hsvd _).1 (hsvd _).2

/-- **Different atom counts are refused.**  Two structures with different numbers of (selected)
atoms, neither of them a single atom, make `_get_rotation_matrices` — and hence `superimpose` — raise
`ValueError` (numpy cannot broadcast the outer products); no fit is reported. -/
theorem C16_atom_count_rejects (svd : M3 ℚ → M3 ℚ × M3 ℚ) (f m : List (V3 ℚ))
    (hne : f.length ≠ m.length) (hf : f.length ≠ 1) (hm : m.length ≠ 1) :
    getRotation svd [f] [m] = .error .valueError := by
  simp [getRotation, bzip, bind, Except.bind, hne, hf, hm]

/-- …and equal counts are never refused by that step. -/
theorem C16_atom_count_accepts (svd : M3 ℚ → M3 ℚ × M3 ℚ) (f m : List (V3 ℚ)) (h : f.length = m.length) :
    getRotation svd [f] [m] = .ok [correct (svd (cov1 f m)).1 (svd (cov1 f m)).2] := by
  simp [getRotation, bzip, bind, Except.bind, pure, Except.pure, h]

/-! ## The translation is optimal for any rotation -/

/-- **Completing the square.**  Let `cf`, `cm` be the centroids of the (selected) fixed and mobile
atoms.  For *every* matrix `R` and *every* translation `t`, the placement the code builds with that
`R` — `x ↦ R·(x − cm) + cf`, i.e. `AffineTransformation(-cm, R, cf)` — has a sum of squared deviations
(`n·RMSD²`) not above that of `x ↦ R·x + t`. -/
theorem C16_centroid_optimal_translation (R : M3 ℚ) (fixed mobile : List (V3 ℚ))
    (hlen : fixed.length = mobile.length) (cf cm : V3 ℚ)
    (hf : centroid fixed = .ok cf) (hm : centroid mobile = .ok cm) (t : V3 ℚ) :
    ssd fixed (mobile.map (applyPoint cm.neg R cf)) ≤ ssd fixed (mobile.map fun x => (R.mulVec x).add t) := by
  obtain ⟨hfne, hcf⟩ := centroid_ok hf
  obtain ⟨hmne, hcm⟩ := centroid_ok hm
  -- the code's placement is the bare matrix placement shifted by `t₀ = cf − R·cm`
  let t0 : V3 ℚ := cf.sub (R.mulVec cm)
  have h1 : ssd fixed (mobile.map (applyPoint cm.neg R cf))
      = ((resid R fixed mobile).map fun d => (d.add t0).normSq).sum := by
    apply ssd_map_right
    intro p q
    simp only [applyPoint, M3.mulVec, V3.dot, V3.add, V3.sub, V3.neg, V3.mk.injEq, t0]
    refine ⟨?_, ?_, ?_⟩ <;> ring
  have h2 : ssd fixed (mobile.map fun x => (R.mulVec x).add t)
      = ((resid R fixed mobile).map fun d => (d.add t).normSq).sum := by
    apply ssd_map_right
    intro p q
    simp only [M3.mulVec, V3.dot, V3.add, V3.sub, V3.mk.injEq]
    refine ⟨?_, ?_, ?_⟩ <;> ring
  rw [h1, h2, sum_normSq_shift, sum_normSq_shift]
  obtain ⟨sx, sy, sz⟩ := resid_sums R fixed mobile hlen
  rw [sx, sy, sz, resid_length R fixed mobile hlen]
  have hn : (0 : ℚ) < (mobile.length : ℚ) := by
    have : 0 < mobile.length := List.length_pos_iff.mpr hmne
    exact_mod_cast this
  have hnf : (fixed.length : ℚ) = (mobile.length : ℚ) := by exact_mod_cast hlen
  -- sums in terms of the centroids
  have ex : sumX mobile = mobile.length * cm.x := by rw [hcm]; field_simp
  have ey : sumY mobile = mobile.length * cm.y := by rw [hcm]; field_simp
  have ez : sumZ mobile = mobile.length * cm.z := by rw [hcm]; field_simp
  have fx : sumX fixed = mobile.length * cf.x := by rw [hcf, hnf]; field_simp
  have fy : sumY fixed = mobile.length * cf.y := by rw [hcf, hnf]; field_simp
  have fz : sumZ fixed = mobile.length * cf.z := by rw [hcf, hnf]; field_simp
  rw [ex, ey, ez, fx, fy, fz]
  -- difference = n · |t − t₀|² ≥ 0
  have key : ∀ (n : ℚ), 0 < n →
      2 * ((R.r0.dot ⟨n * cm.x, n * cm.y, n * cm.z⟩ - n * cf.x) * t0.x
          + (R.r1.dot ⟨n * cm.x, n * cm.y, n * cm.z⟩ - n * cf.y) * t0.y
          + (R.r2.dot ⟨n * cm.x, n * cm.y, n * cm.z⟩ - n * cf.z) * t0.z) + n * t0.normSq
      ≤ 2 * ((R.r0.dot ⟨n * cm.x, n * cm.y, n * cm.z⟩ - n * cf.x) * t.x
          + (R.r1.dot ⟨n * cm.x, n * cm.y, n * cm.z⟩ - n * cf.y) * t.y
          + (R.r2.dot ⟨n * cm.x, n * cm.y, n * cm.z⟩ - n * cf.z) * t.z) + n * t.normSq := by
    intro n hn
    have h0 : 0 ≤ n * ((t.x - t0.x) ^ 2 + (t.y - t0.y) ^ 2 + (t.z - t0.z) ^ 2) := by positivity
    simp only [t0, V3.sub, M3.mulVec, V3.dot, V3.normSq] at h0 ⊢
    linear_combination h0
  have := key (mobile.length : ℚ) hn
  linarith

/-! ## Every atom enters the cross-covariance -/

/-- The cross-covariance of a structure is the sum of the cross-covariances of its consecutive blocks
of atoms — *all* of them: a block-wise evaluation (for memory) must cover the trailing partial block
too, and no atom may be dropped from the rotation fit. -/
theorem C16_cov_blockwise (a a' b b' : List (V3 ℚ)) (h : a.length = b.length) :
    cov1 (a ++ a') (b ++ b') = (cov1 a b).add (cov1 a' b') := by
  unfold cov1
  rw [List.zipWith_append h, List.foldl_append, foldl_M3add]

/-- Dropping trailing atoms changes the covariance (here: by the outer product of the dropped pair). -/
theorem C16_cov_tail_matters :
    cov1 [⟨1, 0, 0⟩, ⟨0, 1, 0⟩] [⟨1, 0, 0⟩, ⟨0, 0, (1 : ℚ)⟩] ≠ cov1 [⟨1, 0, 0⟩] [⟨1, 0, (0 : ℚ)⟩] := by
  decide +kernel

/-! ## Kabsch optimality of the rotation, *given* a singular value decomposition

LAPACK's SVD computation is external.  `IsSVD H V W s` states what `v, s, w = np.linalg.svd(H)` is
assumed to return: `V`, `W` orthogonal, `H = V·diag(s)·W`, `s₁ ≥ s₂ ≥ s₃ ≥ 0`.  From that assumption
the optimality of `correct V W` (the matrix `_get_rotation_matrices` returns) is a theorem.
`ssd` is `n·RMSD²`; `√` is monotone, so the statements are about RMSD. -/

/-- For orthonormal `R` the sum of squared deviations of the code's placement is
`spread − 2·⟨R, H⟩` with `⟨R, H⟩ = trace(Rᵀ·H)`, `H` the cross-covariance of the centred sets and
`spread = Σ|x−cm|² + |y−cf|²` independent of `R`: minimising RMSD = maximising the trace. -/
theorem C16_rmsd_trace (R : M3 ℚ) (hR : R.transpose.mul R = M3.one) (fixed mobile : List (V3 ℚ))
    (cf cm : V3 ℚ) :
    ssd fixed (mobile.map (applyPoint cm.neg R cf))
      = spread fixed mobile cf cm
        - 2 * (R.transpose.mul (cov1 (fixed.map fun p => p.sub cf) (mobile.map fun p => p.sub cm))).trace := by
  rw [← inner_eq_trace]
  exact ssd_trace R hR fixed mobile cf cm

/-- `trace(M·diag(s)) ≤ s₁+s₂+s₃` for orthogonal `M` and `s ≥ 0` (since `Mᵢᵢ ≤ 1`), with equality at `M = 1`. -/
theorem C16_trace_bound (M : M3 ℚ) (hM : IsOrtho M) (s : V3 ℚ) (hx : 0 ≤ s.x) (hy : 0 ≤ s.y) (hz : 0 ≤ s.z) :
    (M.mul (M3.diag s)).trace ≤ s.x + s.y + s.z ∧ ((M3.one : M3 ℚ).mul (M3.diag s)).trace = s.x + s.y + s.z := by
  refine ⟨by rw [trace_mul_diag]; exact diag_bound hM.1 s hx hy hz, ?_⟩
  rw [trace_mul_diag]; simp only [M3.one]; ring

/-- `trace(M·diag(s)) ≤ s₁+s₂−s₃` for orthogonal `M` with `det M = −1` and `s₁ ≥ s₂ ≥ s₃ ≥ 0`
(because then `trace M ≤ 1`), with equality at `M = diag(1,1,−1)`. -/
theorem C16_trace_bound_reflected (M : M3 ℚ) (hM : IsOrtho M) (hd : M.det = -1) (s : V3 ℚ)
    (hxy : s.y ≤ s.x) (hyz : s.z ≤ s.y) (hz : 0 ≤ s.z) :
    (M.mul (M3.diag s)).trace ≤ s.x + s.y - s.z ∧ ((flipD : M3 ℚ).mul (M3.diag s)).trace = s.x + s.y - s.z := by
  refine ⟨by rw [trace_mul_diag]; exact diag_bound_reflected hM.1 hd s hxy hyz hz, ?_⟩
  rw [trace_mul_diag]; simp only [flipD]; ring

/-- No reflection needed (`det V·det W = +1`): `V·W` maximises `⟨R, H⟩` over **all** orthogonal `R`,
hence over all proper rotations. -/
theorem C16_kabsch_optimal_no_reflection {H V W : M3 ℚ} {s : V3 ℚ} (hs : IsSVD H V W s)
    (hpos : ¬ V.det * W.det < 0) (R : M3 ℚ) (hR : IsOrtho R) :
    correct V W = V.mul W ∧ R.inner H ≤ (correct V W).inner H := by
  refine ⟨by simp [correct, hpos], ?_⟩
  rw [inner_correct hs, if_neg hpos, inner_of_svd hs R]
  obtain ⟨hxy, hyz, hz⟩ := hs.sorted
  exact diag_bound ((hs.orthoW.mul hR.transpose).mul hs.orthoV).1 s (by linarith) (by linarith) hz

/-- Reflected case (`det V·det W = −1`): the corrected matrix (last column of `V` negated)
maximises `⟨R, H⟩` over all proper rotations `R`. -/
theorem C16_kabsch_optimal_reflection {H V W : M3 ℚ} {s : V3 ℚ} (hs : IsSVD H V W s)
    (hneg : V.det * W.det < 0) (R : M3 ℚ) (hR : IsOrtho R) (hdet : R.det = 1) :
    correct V W = V.flipLastCol.mul W ∧ R.inner H ≤ (correct V W).inner H :=
  ⟨by simp [correct, hneg], inner_le_correct hs R hR hdet⟩

/-- **Kabsch optimality given the SVD.**  Let `cf`, `cm` be the centroids and `H` the cross-covariance
of the centred fixed and mobile atoms, and let `(V, s, W)` be a singular value decomposition of `H`.
Then the placement the code computes — `x ↦ (correct V W)·(x − cm) + cf` — has a sum of squared
deviations (`n·RMSD²`) not above that of **any** rigid-body placement `x ↦ R'·x + t` with a proper
rotation `R'` and arbitrary translation `t`. -/
theorem C16_kabsch_optimal (fixed mobile : List (V3 ℚ)) (hlen : fixed.length = mobile.length)
    (cf cm : V3 ℚ) (hf : centroid fixed = .ok cf) (hm : centroid mobile = .ok cm)
    (V W : M3 ℚ) (s : V3 ℚ)
    (hsvd : IsSVD (cov1 (fixed.map fun p => p.sub cf) (mobile.map fun p => p.sub cm)) V W s)
    (R' : M3 ℚ) (hR' : IsOrtho R') (hdet : R'.det = 1) (t : V3 ℚ) :
    ssd fixed (mobile.map (applyPoint cm.neg (correct V W) cf))
      ≤ ssd fixed (mobile.map fun x => (R'.mulVec x).add t) := by
  have h1 := C16_centroid_optimal_translation R' fixed mobile hlen cf cm hf hm t
  have h2 := ssd_trace (correct V W) (correct_ortho V W hsvd.orthoV hsvd.orthoW).1 fixed mobile cf cm
  have h3 := ssd_trace R' hR'.1 fixed mobile cf cm
  have h4 := inner_le_correct hsvd R' hR' hdet
  linarith

/-- The model's `superimpose` of two single structures without mask returns exactly that placement. -/
theorem C16_superimpose_single (svd : M3 ℚ → M3 ℚ × M3 ℚ) (f m : List (V3 ℚ)) (hlen : f.length = m.length)
    (cf cm : V3 ℚ) (hf : centroid f = .ok cf) (hm : centroid m = .ok cm) :
    let H := cov1 (f.map fun p => p.sub cf) (m.map fun p => p.sub cm)
    let R := correct (svd H).1 (svd H).2
    superimpose svd (.single f) (.single m) none
      = .ok (.single (m.map (applyPoint cm.neg R cf)), ⟨[cm.neg], [R], [cf]⟩) := by
  intro H R
  have hT : superimposeTransform (getRotation svd) (.single f) (.single m) none
      = .ok ⟨[cm.neg], [R], [cf]⟩ := by
    simp [superimposeTransform, Coords.to3d, pure, Except.pure, bind, Except.bind, hf, hm, getRotation, bzip,
      hlen, H, R]
  have hA : (⟨[cm.neg], [R], [cf]⟩ : Transform ℚ).apply (.single m)
      = .ok (.single (m.map (applyPoint cm.neg R cf))) := by
    simp [Transform.apply, Transform.applyStack, addBroadcast, multiMatmul, bind, Except.bind, pure, Except.pure,
      applyPoint, Function.comp_def]
  simp only [superimpose, superimposeWith, hT, hA, bind, Except.bind, pure, Except.pure]

/-- **End to end for the model's `superimpose`** (two single structures): if the external `svd`
satisfies its contract on the covariance it is given, the fitted coordinates `superimpose` returns
are at least as close to the fixed structure as any proper rigid-body placement of the mobile one. -/
theorem C16_kabsch_optimal_superimpose (svd : M3 ℚ → M3 ℚ × M3 ℚ)
    (hsvd : ∀ H, ∃ s, IsSVD H (svd H).1 (svd H).2 s)
    (f m : List (V3 ℚ)) (hlen : f.length = m.length) (fitted : List (V3 ℚ)) (T : Transform ℚ)
    (h : superimpose svd (.single f) (.single m) none = .ok (.single fitted, T))
    (R' : M3 ℚ) (hR' : IsOrtho R') (hdet : R'.det = 1) (t : V3 ℚ) :
    ssd f fitted ≤ ssd f (m.map fun x => (R'.mulVec x).add t) := by
  -- centroids exist, otherwise `superimpose` would not have succeeded
  cases hm : centroid m with
  | error e =>
    simp [superimpose, superimposeWith, superimposeTransform, Coords.to3d, pure, Except.pure, bind,
      Except.bind, hm] at h
  | ok cm =>
    cases hf : centroid f with
    | error e =>
      simp [superimpose, superimposeWith, superimposeTransform, Coords.to3d, pure, Except.pure, bind,
        Except.bind, hm, hf] at h
    | ok cf =>
      have hs := C16_superimpose_single svd f m hlen cf cm hf hm
      simp only at hs
      rw [hs] at h
      simp only [Except.ok.injEq, Prod.mk.injEq, Coords.single.injEq] at h
      obtain ⟨s, hs'⟩ := hsvd (cov1 (f.map fun p => p.sub cf) (m.map fun p => p.sub cm))
      rw [← h.1]
      exact C16_kabsch_optimal f m hlen cf cm hf hm _ _ s hs' R' hR' hdet t

/-! ## Anchor bookkeeping of the outlier-tolerant and homolog variants -/

/-- Loop invariant of `superimpose_without_outliers` (for every inner fit and every outlier test):
the returned anchors are a sublist of the anchors the pass started from, the returned transformation
is the fit on exactly the returned anchors, and the anchor count never drops below `min_anchors`. -/
theorem C16_anchor_loop {τ : Type} (fit : List Nat → Except Err τ)
    (cls : List Nat → τ → Except Err (List Bool)) (minA n : Nat) :
    ∀ (k : Nat) (inl : List Nat) (T : τ) (anchors : List Nat),
      wooIter fit cls minA n k inl = .ok (T, anchors) →
      fit anchors = .ok T ∧ anchors.Sublist inl ∧ (minA ≤ inl.length → minA ≤ anchors.length) := by
  intro k
  induction k with
  | zero =>
    intro inl T anchors h
    unfold wooIter at h
    cases h1 : fit inl with
    | error e => simp [h1, bind, Except.bind] at h
    | ok T' =>
      cases h2 : cls inl T' with
      | error e => simp [h1, h2, bind, Except.bind] at h
      | ok keep =>
        simp only [h1, h2, bind, Except.bind, pure, Except.pure, Except.ok.injEq, Prod.mk.injEq] at h
        obtain ⟨rfl, rfl⟩ := h
        exact ⟨h1, List.Sublist.refl _, fun h => h⟩
  | succ k ih =>
    intro inl T anchors h
    unfold wooIter at h
    cases h1 : fit inl with
    | error e => simp [h1, bind, Except.bind] at h
    | ok T' =>
      cases h2 : cls inl T' with
      | error e => simp [h1, h2, bind, Except.bind] at h
      | ok keep =>
        simp only [h1, h2, bind, Except.bind, pure, Except.pure] at h
        split at h
        · simp only [Except.ok.injEq, Prod.mk.injEq] at h
          obtain ⟨rfl, rfl⟩ := h
          exact ⟨h1, List.Sublist.refl _, fun h => h⟩
        · split at h
          · simp only [Except.ok.injEq, Prod.mk.injEq] at h
            obtain ⟨rfl, rfl⟩ := h
            exact ⟨h1, List.Sublist.refl _, fun h => h⟩
          · rename_i _ hmin
            obtain ⟨hfit, hsub, hcount⟩ := ih _ _ _ h
            exact ⟨hfit, hsub.trans (keepIdx_sublist inl keep), fun _ => hcount (by omega)⟩

/-- `superimpose_without_outliers`: the returned anchor indices are strictly increasing indices of
the structure (a sublist of `0 … n-1`), at least `min_anchors` of them whenever the structure has that
many atoms; the returned transformation is exactly the inner `superimpose` of `fixed[anchors]` and
`mobile[anchors]`; and the returned coordinates are `apply` of it on the whole mobile structure. -/
theorem C16_anchor_monotone
    (sup : Coords Rat → Coords Rat → Except Err (Coords Rat × Transform Rat)) (cfg : WooCfg)
    (fixed mobile fitted : Coords Rat) (T : Transform Rat) (anchors : List Nat)
    (h : superimposeWithoutOutliers sup cfg fixed mobile = .ok (fitted, T, anchors)) :
    anchors.Sublist (List.range fixed.nAtoms) ∧
    (cfg.minAnchors ≤ fixed.nAtoms → cfg.minAnchors ≤ anchors.length) ∧
    (∃ f m s, fixed.take anchors = .ok f ∧ mobile.take anchors = .ok m ∧ sup f m = .ok (s, T)) ∧
    T.apply mobile = .ok fitted := by
  unfold superimposeWithoutOutliers at h
  cases h1 : wooGeneric (wooFit sup fixed mobile) (wooCls cfg) cfg.minAnchors cfg.maxIter fixed.nAtoms with
  | error e => simp [h1, bind, Except.bind] at h
  | ok r =>
    obtain ⟨⟨f, s, T'⟩, anc⟩ := r
    simp only [h1, bind, Except.bind] at h
    cases h2 : T'.apply mobile with
    | error e => simp [h2] at h
    | ok fit' =>
      simp only [h2, pure, Except.pure, Except.ok.injEq, Prod.mk.injEq] at h
      obtain ⟨rfl, rfl, rfl⟩ := h
      unfold wooGeneric at h1
      split at h1
      · cases h1
      · obtain ⟨hfit, hsub, hcount⟩ := C16_anchor_loop _ _ _ _ _ _ _ _ h1
        refine ⟨hsub, fun hn => hcount (by simpa using hn), ?_, h2⟩
        unfold wooFit at hfit
        cases h3 : fixed.take anc with
        | error e => simp [h3, bind, Except.bind] at hfit
        | ok f' =>
          cases h4 : mobile.take anc with
          | error e => simp [h3, h4, bind, Except.bind] at hfit
          | ok m' =>
            cases h5 : sup f' m' with
            | error e => simp [h3, h4, h5, bind, Except.bind] at hfit
            | ok r' =>
              simp only [h3, h4, h5, bind, Except.bind, pure, Except.pure, Except.ok.injEq, Prod.mk.injEq] at hfit
              obtain ⟨_, _, hT⟩ := hfit
              exact ⟨f', m', r'.1, rfl, rfl, by subst hT; exact h5⟩

/-- `max_iterations < 1` is rejected. -/
theorem C16_woo_rejects_zero_iterations
    (sup : Coords Rat → Coords Rat → Except Err (Coords Rat × Transform Rat)) (cfg : WooCfg)
    (fixed mobile : Coords Rat) (h : cfg.maxIter = 0) :
    superimposeWithoutOutliers sup cfg fixed mobile = .error .valueError := by
  simp [superimposeWithoutOutliers, wooGeneric, h, bind, Except.bind]

/-- `superimpose_homologs`, anchor selection before the outlier removal: on success both index
lists have the same length, at least `min_anchors`, and consist of backbone anchor indices. -/
theorem C16_homolog_initial (F M : List Nat) (A : List (Nat × Nat)) (minA : Nat) (f m : List Nat)
    (h : homologInitialAnchors F M A minA = .ok (f, m)) :
    f.length = m.length ∧ minA ≤ f.length ∧ (∀ i ∈ f, i ∈ F) ∧ (∀ j ∈ m, j ∈ M) := by
  unfold homologInitialAnchors at h
  split at h
  · cases h
  · rename_i hlen
    split at h
    · rename_i hA
      split at h
      · cases h
      · rename_i heq
        simp only [Except.ok.injEq, Prod.mk.injEq] at h
        obtain ⟨rfl, rfl⟩ := h
        refine ⟨by omega, by omega, fun _ h => h, fun _ h => h⟩
    · rename_i hA
      cases h1 : pickIdx F (A.map (·.1)) with
      | error e => simp [h1, bind, Except.bind] at h
      | ok f' =>
        cases h2 : pickIdx M (A.map (·.2)) with
        | error e => simp [h1, h2, bind, Except.bind] at h
        | ok m' =>
          simp only [h1, h2, bind, Except.bind, pure, Except.pure, Except.ok.injEq, Prod.mk.injEq] at h
          obtain ⟨rfl, rfl⟩ := h
          obtain ⟨l1, s1⟩ := pickIdx_spec _ _ _ h1
          obtain ⟨l2, s2⟩ := pickIdx_spec _ _ _ h2
          simp only [List.length_map] at l1 l2
          exact ⟨by omega, by omega, s1, s2⟩

/-- **Offsets of `_find_matching_anchors`.**  The anchors of the chain pair `k` (here: the chain
after `pre`) are its local alignment columns shifted by the total length of the *fixed* structure's
previous chains in the first component and by the total length of the *mobile* structure's previous
chains in the second one; the other chains contribute independently. -/
theorem C16_homolog_offsets (pre post : List (Nat × Nat × List (Nat × Nat))) (lf lm : Nat)
    (ps : List (Nat × Nat)) :
    matchAnchorsFrom (pre ++ (lf, lm, ps) :: post) 0 0
      = matchAnchorsFrom pre 0 0 ++ offsetPairs (sumF pre) (sumM pre) ps
          ++ matchAnchorsFrom post (sumF pre + lf) (sumM pre + lm) := by
  rw [matchAnchorsFrom_append]
  simp [matchAnchorsFrom]

/-- Consequently no anchor leaves its structure: if every local anchor lies inside its chain pair,
every returned pair indexes the backbone atoms of the fixed / mobile structure (so the subsequent
`fixed_anchor_indices[anchors[:, 0]]`, `mobile_anchor_indices[anchors[:, 1]]` cannot raise). -/
theorem C16_homolog_offsets_in_range (fixedChains mobileChains : List Nat) (loc : List (List (Nat × Nat)))
    (r : List (Nat × Nat)) (h : findMatchingAnchors fixedChains mobileChains loc = .ok r)
    (hloc : ∀ c ∈ fixedChains.zip (mobileChains.zip loc), ∀ p ∈ c.2.2, p.1 < c.1 ∧ p.2 < c.2.1) :
    ∀ p ∈ r, p.1 < sumF (fixedChains.zip (mobileChains.zip loc)) ∧
             p.2 < sumM (fixedChains.zip (mobileChains.zip loc)) := by
  unfold findMatchingAnchors at h
  split at h
  · cases h
  · have h' := Except.ok.inj h
    subst h'
    intro p hp
    have := matchAnchorsFrom_range _ 0 0 hloc p hp
    omega

/-- A different number of chains is rejected. -/
theorem C16_homolog_chain_count (fixedChains mobileChains : List Nat) (loc : List (List (Nat × Nat)))
    (h : fixedChains.length ≠ mobileChains.length) :
    findMatchingAnchors fixedChains mobileChains loc = .error .valueError := by
  simp [findMatchingAnchors, h]

/-! ## Obligations on the guards regenerated from `superimpose.py` on every run -/

/-- The guards and constants of the *current* source are the ones the model hard-codes:
the reflection test is `det(v)*det(w) < 0`, the flipped column is the last one (`-1`) of the first SVD
factor, multiplied by `-1`, the product is `v @ w`; `as_matrix` multiplies target · rotation · centre
with the blocks `[:, :3, 3]`, `[:, :3, :3]`, `[:, :3, 3]`; `apply` adds the centre translation,
multiplies, adds the target translation; `superimpose` builds the transformation from (minus a mobile-only quantity, a fixed+mobile quantity,
a fixed-only quantity), i.e. `(-mob_centroid, rotation, fix_centroid)`;
the outlier loop keeps `sq_dist <= bound`, stops when `count < min_anchors`, rejects
`max_iterations < 1` and returns the indices of the *fitted* mask. -/
theorem C16_gen_guards :
    Gen.C16.reflectCmp = "Lt" ∧ Gen.C16.reflectConst = 0 ∧
    Gen.C16.flipMatrixPos = 0 ∧ Gen.C16.flipColumn = -1 ∧ Gen.C16.flipFactor = -1 ∧
    Gen.C16.productOrder = [0, 2] ∧
    Gen.C16.matrixOrder = ["target_translation", "rotation", "center_translation"] ∧
    Gen.C16.matrixBlocks = ["(:,:3,3)", "(:,:3,:3)", "(:,:3,3)"] ∧
    Gen.C16.applySteps = ["add:center_translation", "matmul:rotation", "add:target_translation"] ∧
    Gen.C16.ctorArgs = ["-mobile", "fixed+mobile", "fixed"] ∧
    Gen.C16.inlierCmp = "LtE" ∧ Gen.C16.minAnchorsCmp = "Lt" ∧
    Gen.C16.maxIterCmp = "Lt" ∧ Gen.C16.maxIterConst = 1 ∧
    Gen.C16.returnedAnchors = "fitted-mask" := by
  decide

/-- The default parameters of the outlier removal are sane: quantiles inside `[0,1]` and ordered,
non-negative threshold, at least one iteration, and enough anchors to determine a rotation. -/
theorem C16_gen_defaults :
    (Gen.C16.defaultQuantiles.all fun q => decide (0 ≤ q.1 ∧ q.1 ≤ (q.2 : Int) ∧ 0 < q.2)) = true ∧
    1 ≤ Gen.C16.defaultMaxIterations ∧ 3 ≤ Gen.C16.defaultMinAnchors ∧ 0 ≤ Gen.C16.defaultThreshold.1 := by
  decide

/-! ### Structural facts of the source (pass 7): every literal / guard / order of steps the model hard-codes

Each conjunct reads "what the *current* source says = what the hand-written model does".  The right-hand
sides are the model's choices, cited by definition. -/

/-- `AffineTransformation`: constructor parameter order `(center, rotation, target)` stored with 2/3/2
dimensions (`Transform.center/rotation/target`); `apply` compares the model count with the number of
**rotations** by `≠` and raises `IndexError` (`Transform.applyStack`), works on a copy of the input and
reshapes back (`Transform.apply`); `_reshape_to_3d` accepts exactly 2-d (→ one model) and 3-d input
(`Coords.single/stack`), anything else is a `ValueError`; `as_matrix` builds 4×4 identities, one per
rotation (`Transform.asMatrix`, `M4`), in float64; `_multi_matmul` is `(R·Xᵀ)ᵀ` (`multiMatmul`). -/
theorem C16_gen_transformation :
    Gen.C16.ctorParams = ["center_translation", "rotation", "target_translation"] ∧
    Gen.C16.ctorStores = [("center_translation", "center_translation", 2), ("rotation", "rotation", 3),
                          ("target_translation", "target_translation", 2)] ∧
    Gen.C16.expandDims = "prepend-axes-while-ndim<n" ∧
    Gen.C16.applyGuard = ["NotEq", "rotation", "IndexError"] ∧
    Gen.C16.applyCopiesInput = true ∧ Gen.C16.applyReshapesBack = true ∧
    Gen.C16.applyInput = ["coord(atoms)", "RESHAPE3D(mobile_coord)"] ∧
    Gen.C16.reshapeLadder = ["0:raise:ValueError", "1:raise:ValueError", "2:newaxis", "3:identity",
                             "4:raise:ValueError", "5:raise:ValueError"] ∧
    Gen.C16.matrixSize = 4 ∧ Gen.C16.matrixCount = "self.rotation.shape[0]" ∧ Gen.C16.identityDtype = "float" ∧
    Gen.C16.multiMatmul = "transpose(matmul(matrices, transpose(vectors,(0,2,1))),(0,2,1))" := by
  decide

/-- `superimpose(fixed, mobile, atom_mask=None)`: the mask selects along the atom axis of both arrays
(`selectMask`), the centroids are those of the **filtered** arrays and each array is centred by its own
centroid (`superimposeTransform`), the rotation is computed from `(fixed centred, mobile centred)` in
that order; `_get_rotation_matrices(fixed, mobile)` forms `Σ_atoms fixed[a]·mobile[b]` (outer product
fixed ⊗ mobile summed over the atom axis: `cov1`, `V3.outer`) and hands it unmodified to the SVD
(`getRotation`); the result is `(transform.apply(mobile), transform)` (`superimposeWith`). -/
theorem C16_gen_superimpose :
    Gen.C16.supParams = ["fixed", "mobile", "atom_mask"] ∧ Gen.C16.supDefaults = [("atom_mask", "None")] ∧
    Gen.C16.supMaskSlice = "[:,atom_mask,:]" ∧
    Gen.C16.supCentroidOf = ["filtered-fixed", "filtered-mobile"] ∧ Gen.C16.supCentred = ["fixed", "mobile"] ∧
    Gen.C16.supRotationArgs = ["fixed", "mobile"] ∧ Gen.C16.supReturn = "(transform.apply(mobile),transform)" ∧
    Gen.C16.rotParams = ["fixed", "mobile"] ∧ Gen.C16.covFactors = ["0@3", "1@2"] ∧ Gen.C16.covAxis = 1 ∧
    Gen.C16.covDirectlyToSvd = true := by
  decide

/-- `superimpose_without_outliers`: parameter order, `max_iterations < 1 → ValueError` first
(`wooGeneric`), `sorted(quantiles)` (`classify`), all atoms of `fixed` are anchors initially
(`List.range fixed.nAtoms`), `range(max_iterations)` passes (`wooIter` fuel), the inner fit is
`superimpose(fixed[sel], mobile[sel])` (`wooFit`), squared `distance(fixed[sel], superimposed)` averaged
over axis 0 when 2-dimensional (`sqDist`, `colMeans`), `np.quantile` with the default (linear) method
(`quantileSorted`), `ipr = upper − lower`, exits in the order "all" then "min_anchors" (`wooIter`), result
`(transform.apply(mobile), transform, anchor_indices)` (`superimposeWithoutOutliers`). -/
theorem C16_gen_outlier_loop :
    Gen.C16.wooParams = ["fixed", "mobile", "min_anchors", "max_iterations", "quantiles", "outlier_threshold"] ∧
    Gen.C16.wooFirstGuard = ["max_iterations<1", "ValueError"] ∧ Gen.C16.wooQuantilePrep = "sorted(quantiles)" ∧
    Gen.C16.wooInitialMask = "np.ones(coord(fixed).shape[-2],dtype=bool)" ∧ Gen.C16.wooLoop = "range(max_iterations)" ∧
    Gen.C16.wooInnerFit = ["coord(fixed)", "coord(mobile)"] ∧
    Gen.C16.wooSqDist = ["distance", "coord(fixed)", "superimposed", "**2"] ∧
    Gen.C16.wooMeanOverModels = ["Eq", "2", "np.mean", "axis=0"] ∧
    Gen.C16.wooQuantileCall = ["SQ_DIST", "quantiles"] ∧ Gen.C16.wooIprIsSecondMinusFirst = true ∧
    Gen.C16.wooBreaks = ["all", "min_anchors"] ∧
    Gen.C16.wooReturn = "(transform.apply(mobile),transform,anchor_indices)" := by
  decide

/-- `superimpose_homologs` and helpers: signature and defaults; the guards and their exception class in
the order of `homologInitialAnchors`; fixed anchors come from column 0, mobile anchors from column 1 of
the matched pairs; `min_anchors` and the keyword arguments are forwarded to the outlier loop
(`superimposeHomologs`); backbone anchors are `CA` of amino acids and `P` of nucleotides;
`_find_matching_anchors` offsets column `c` by a counter advanced by the length of the sequence of the
**same** structure (`0<-0`, `1<-1`: `matchAnchorsFrom`), starting at 0, over a strict zip
(`findMatchingAnchors` → `ValueError`), keeping positively scoring columns of one optimal alignment
`align_optimal(fixed_seq, mobile_seq, matrix, gap_penalty, terminal_penalty=…, max_number=1)`. -/
theorem C16_gen_homologs :
    Gen.C16.homParams = ["fixed", "mobile", "substitution_matrix", "gap_penalty", "min_anchors", "terminal_penalty", "**kwargs"] ∧
    Gen.C16.homDefaults = [("substitution_matrix", "None"), ("gap_penalty", "-10"), ("min_anchors", "3"), ("terminal_penalty", "False")] ∧
    Gen.C16.homGuards = ["Or:len(BACKBONE_fixed) Lt min_anchors,len(BACKBONE_mobile) Lt min_anchors:ValueError",
                         "len(BACKBONE_fixed) NotEq len(BACKBONE_mobile):ValueError"] ∧
    Gen.C16.homFallbackTest = ["len(MATCHED)", "Lt", "min_anchors"] ∧
    Gen.C16.homColumns = [("BACKBONE_fixed", "MATCHED[:,0]"), ("BACKBONE_mobile", "MATCHED[:,1]")] ∧
    Gen.C16.homWooArgs = ["min_anchors", "**kwargs"] ∧
    Gen.C16.backboneAtoms = ["filter_amino_acids:CA", "filter_nucleotides:P"] ∧
    Gen.C16.anchorOffsetIncrements = ["0<-0", "1<-1"] ∧ Gen.C16.anchorOffsetStart = [0, 0] ∧
    Gen.C16.chainZip = ["strict=True"] ∧ Gen.C16.scoreFilter = ["Gt", "0"] ∧
    Gen.C16.alignKeywords = ["max_number=1", "terminal_penalty=terminal_penalty"] ∧
    Gen.C16.alignArgs = ["0", "1", "substitution_matrix", "gap_penalty"] := by
  decide

/-- `rmsd = sqrt(mean(|subject − reference|², axis=-1))` with a 2-d reference (else `TypeError`);
`centroid = mean over the atom axis` (`centroid`, `ssd`). -/
theorem C16_gen_compare :
    Gen.C16.rmsdExpr = "np.sqrt(np.mean(SQ_EUCLID(reference,subject),axis=-1))" ∧
    Gen.C16.sqEuclidGuard = ["coord(reference).ndim!=2", "TypeError"] ∧
    Gen.C16.sqEuclidDiff = "coord(subject)-coord(reference)" ∧
    Gen.C16.centroidExpr = "np.mean(coord(atoms),axis=-2)" := by
  decide

/-- The default values the harness and the notes assume (a changed default must break this). -/
theorem C16_gen_default_values :
    Gen.C16.defaultMinAnchors = 3 ∧ Gen.C16.defaultMaxIterations = 10 ∧
    Gen.C16.defaultQuantiles = [(1, 4), (3, 4)] ∧ Gen.C16.defaultThreshold = (3, 2) := by
  decide

/-- The outlier-loop configuration built from the regenerated defaults. -/
def genDefaultCfg : WooCfg :=
  let q (p : Int × Nat) : Rat := (p.1 : Rat) / (p.2 : Rat)
  match Gen.C16.defaultQuantiles with
  | [a, b] => ⟨Gen.C16.defaultMinAnchors, Gen.C16.defaultMaxIterations, q a, q b, q Gen.C16.defaultThreshold⟩
  | _ => ⟨0, 0, 0, 0, 0⟩

/-- The general anchor theorem instantiated at the **regenerated** defaults: with the source's own
default parameters the outlier removal is never refused for its configuration (at least one pass,
quantiles inside `[0,1]` and ordered), so every default call that returns satisfies
`C16_anchor_monotone` with `min_anchors = Gen.defaultMinAnchors`. -/
theorem C16_gen_default_cfg_sound {τ : Type} (fit : List Nat → Except Err τ)
    (cls : List Nat → τ → Except Err (List Bool)) (n : Nat) :
    wooGeneric fit cls genDefaultCfg.minAnchors genDefaultCfg.maxIter n
      = wooIter fit cls Gen.C16.defaultMinAnchors n (Gen.C16.defaultMaxIterations - 1) (List.range n) ∧
    (0 ≤ genDefaultCfg.qlo ∧ genDefaultCfg.qlo ≤ genDefaultCfg.qhi ∧ genDefaultCfg.qhi ≤ 1 ∧ 0 ≤ genDefaultCfg.thr) := by
  refine ⟨?_, by decide +kernel⟩
  have h : ¬ genDefaultCfg.maxIter < 1 := by decide
  simp only [wooGeneric, h, if_false]
  rfl

/-! ## Non-vacuity: the hypotheses are met by concrete, non-trivial inputs. -/

/-- a quarter turn about z (integers: `decide` evaluates the model) -/
def rotZ : M3 Int := ⟨⟨0, -1, 0⟩, ⟨1, 0, 0⟩, ⟨0, 0, 1⟩⟩

example : (asMatrix1 (⟨1, 2, 3⟩ : V3 Int) rotZ ⟨5, 0, -1⟩).mulVec (V3.homog ⟨7, 8, 9⟩) = ⟨-5, 8, 11, 1⟩ := by decide
example : applyPoint (⟨1, 2, 3⟩ : V3 Int) rotZ ⟨5, 0, -1⟩ ⟨7, 8, 9⟩ = ⟨-5, 8, 11⟩ := by decide
-- a two-model stack with a broadcast centre translation and model-wise target translations
example : (Transform.mk [(⟨1, 0, 0⟩ : V3 Int)] [rotZ, M3.one] [⟨0, 0, 0⟩, ⟨0, 0, 5⟩]).applyStack
    [[⟨1, 1, 1⟩], [⟨1, 1, 1⟩]] = .ok [[⟨-1, 2, 1⟩], [⟨2, 1, 6⟩]] := by decide
example : (Transform.mk [(⟨1, 0, 0⟩ : V3 Int)] [rotZ, M3.one] [⟨0, 0, 0⟩]).applyStack [[⟨1, 1, 1⟩]]
    = .error .indexError := by decide
-- orthogonal factors with a reflection: the hypotheses of `C16_proper` are satisfiable and the flip happens
example : IsOrtho (M3.one : M3 ℚ) ∧ IsOrtho (flipD : M3 ℚ) := ⟨isOrtho_one, isOrtho_flipD⟩
example : (correct (M3.one : M3 Int) ⟨⟨1, 0, 0⟩, ⟨0, 1, 0⟩, ⟨0, 0, -1⟩⟩) = M3.one := by decide
-- the SVD contract is satisfiable, without and with a reflection (H = diag(3,2,-1) = 1·diag(3,2,1)·diag(1,1,-1))
example : IsSVD (M3.diag ⟨3, 2, 1⟩ : M3 ℚ) M3.one M3.one ⟨3, 2, 1⟩ :=
  ⟨isOrtho_one, isOrtho_one, by rw [one_mul3, mul_one3], by norm_num⟩
example : IsSVD (M3.diag ⟨3, 2, -1⟩ : M3 ℚ) M3.one flipD ⟨3, 2, 1⟩ :=
  ⟨isOrtho_one, isOrtho_flipD, by
    rw [one_mul3]
    simp only [M3.mul, M3.diag, flipD, V3.dot, M3.c0, M3.c1, M3.c2, M3.mk.injEq, V3.mk.injEq]
    norm_num, by norm_num⟩
-- in the reflected example the uncorrected product is improper and the corrected one attains s₁+s₂−s₃ = 4
example : (correct (M3.one : M3 ℚ) flipD).inner (M3.diag ⟨3, 2, -1⟩) = 4 := by
  simp only [correct, flipD, M3.det, M3.flipLastCol, M3.one, M3.mul, M3.inner, M3.diag, V3.dot, M3.c0, M3.c1, M3.c2]
  norm_num
-- a mask really selects: the second atom is dropped
example : (Coords.single [⟨1, 2, 3⟩, ⟨9, 9, 9⟩, ⟨4, 5, 6⟩]).selectMask [true, false, true]
    = .ok (.single [⟨1, 2, 3⟩, ⟨4, 5, 6⟩]) := by decide +kernel
-- centroids exist for non-empty sets, so `C16_centroid_optimal_translation` is not vacuous
example : centroid [⟨0, 0, 0⟩, ⟨2, 4, 6⟩] = .ok ⟨1, 2, 3⟩ := by decide +kernel
-- the outlier loop really removes an anchor and stops at `min_anchors`
example : wooIter (fun inl => Except.ok inl) (fun inl _ => Except.ok (inl.map (· ≠ 2))) 3 5 9 [0, 1, 2, 3, 4]
    = .ok ([0, 1, 3, 4], [0, 1, 3, 4]) := by decide
example : wooIter (fun inl => Except.ok inl) (fun inl _ => Except.ok (inl.map (· ≠ 2))) 5 5 9 [0, 1, 2, 3, 4]
    = .ok ([0, 1, 2, 3, 4], [0, 1, 2, 3, 4]) := by decide
-- two chains, the first one 4 residues longer in the mobile structure: the second chain's anchors are
-- shifted by 6 (fixed) and by 10 (mobile)
example : findMatchingAnchors [6, 5] [10, 5] [[(0, 4), (1, 5)], [(0, 0), (4, 4)]]
    = .ok [(0, 4), (1, 5), (6, 10), (10, 14)] := by decide
example : homologInitialAnchors [1, 4, 7, 9] [0, 2, 5] [(0, 0), (2, 1), (3, 2)] 3 = .ok ([1, 7, 9], [0, 2, 5]) := by decide

end BiotiteModel.C16

import BiotiteModel.Model.C11Msa
import BiotiteModel.Gen.C11
namespace BiotiteModel.C11
theorem C11_placeholder : aggregate [] = [] := rfl
end BiotiteModel.C11

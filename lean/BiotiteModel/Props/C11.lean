import BiotiteModel.Proofs.C11
import BiotiteModel.Gen.C11
/-!
# C11 — property theorems (alignment traces through every conversion; progressive MSA)

Only property statements and non-vacuity examples; helper lemmas are in `Proofs/C11*.lean`.
All theorems quantify over traces / op lists / guide trees of every size.
-/
namespace BiotiteModel.C11
open BiotiteModel

/-! ## gapped strings, code matrices, FASTA -/

/-- Gapped strings and back, per sequence `k`: if the trace visits positions `s, s+1, …` of the sequence
(contiguous, e.g. every trace produced by an aligner or a parser) and no symbol is the gap character, then
numbering the non-gap characters of `_gapped_str(k)` from `s` (`trace_from_strings` starts at `s = 0`) gives the
sequence's trace entries back, and removing the gap characters spells the covered part of the sequence. -/
theorem C11_strings_roundtrip (seq : List Char) (hsym : ∀ c ∈ seq, c ≠ '-') (k : Nat) (t : Trace)
    (cs : List Char) (s m : Nat) (h : gappedStr seq t k = .ok cs) (hcov : covered t k = List.range' s m) :
    numberRow s cs = t.map (fun c => (c[k]?).join) ∧
    stripChars cs = (covered t k).filterMap (fun j => seq[j]?) :=
  gappedStr_number seq hsym k t cs s m h hcov

/-- FASTA round trip (set_alignment ∘ get_alignment), per sequence: for a trace that covers the whole sequence
from position 0 the re-parsed row is the original row and the re-parsed sequence is the original sequence. -/
theorem C11_fasta_roundtrip (seq : List Char) (hsym : ∀ c ∈ seq, c ≠ '-') (k : Nat) (t : Trace)
    (cs : List Char) (h : gappedStr seq t k = .ok cs) (hcov : covered t k = List.range seq.length) :
    numberRow 0 cs = t.map (fun c => (c[k]?).join) ∧ stripChars cs = seq := by
  have := gappedStr_number seq hsym k t cs 0 seq.length h (by rw [hcov, List.range_eq_range'])
  refine ⟨this.1, ?_⟩
  rw [this.2, hcov, range_filterMap_get]

/-- `get_codes` / `get_symbols` rows: same gap pattern as the trace, and without the gaps they spell the
covered part of the sequence (codes or symbols: `α` is arbitrary). -/
theorem C11_codes_symbols {α : Type} (seq : List α) (k : Nat) (t : Trace) (row : List (Option α))
    (h : mapE (codeAt seq k) t = .ok row) :
    row.map Option.isSome = t.map (fun c => ((c[k]?).join).isSome) ∧
    row.filterMap id = (covered t k).filterMap (fun j => seq[j]?) :=
  codes_row seq k t row h

example : gappedStr ['A', 'C', 'G', 'T'] [[some 1, some 0], [none, some 1], [some 2, none]] 0 = .ok ['C', '-', 'G'] := by decide
example : covered [[some 1, some 0], [none, some 1], [some 2, none]] 0 = List.range' 1 2 := by decide
example : numberRow 1 ['C', '-', 'G'] = [some 1, none, some 2] := by decide

/-! ## helpers keep the trace invariant -/

/-- `remove_gaps`, column slicing (`alignment[a:b]`) and `remove_terminal_gaps` return valid traces, and
`remove_gaps` leaves no gap. -/
theorem C11_helpers_valid {n : Nat} {t : Trace} (h : Valid n t) :
    Valid n (removeGaps t) ∧ (∀ c ∈ removeGaps t, ∀ x ∈ c, x ≠ none) ∧ (∀ a b, Valid n (sliceCols t a b)) ∧
    (∀ t', removeTerminalGaps n t = .ok t' → Valid n t') :=
  ⟨removeGaps_valid h, removeGaps_noGap t, fun a b => sliceCols_valid a b h, fun _ hr => removeTerminalGaps_valid h hr⟩

example : validB 2 [[some 0, none], [some 1, some 0], [none, some 1]] = true := by decide
example : removeTerminalGaps 2 [[some 0, none], [some 1, some 0], [none, some 1]] = .ok [[some 1, some 0]] := by decide

/-! ## CIGAR -/

/-- `_aggregate_consecutive` is a lossless run-length encoding with maximal runs of positive length. -/
theorem C11_aggregate (ops : List Op) :
    expand (aggregate ops) = ops ∧ NoAdj (aggregate ops) ∧ ∀ p ∈ aggregate ops, 0 < p.2 :=
  ⟨expand_aggregate ops, aggregate_noAdj ops, aggregate_pos ops⟩

/-- `_op_tuples_from_cigar(_cigar_from_op_tuples(ops)) = ops` for every list of operations and counts. -/
theorem C11_cigar_string (ops : List (Op × Nat)) : parseCigar (printOps ops) = .ok ops := parse_print ops

/-- Reader ∘ writer = identity on the written trace, for **every** combination of `hard_clip`,
`distinguish_matches`, `introns` and `include_terminal_gaps`: whenever `write_alignment_to_cigar` accepts a
pairwise trace with consecutive indices and no double gap (`Follows`), `read_alignment_from_cigar` at the first
reference position of the written part returns exactly the written part (the trace without terminal segment
gaps unless they are included); with hard clipping the segment indices are relative to the clipped segment. -/
theorem C11_cigar_roundtrip (o : WOpts) (refSeq segSeq : List Nat) (t : PTrace) (ops : List (Op × Nat))
    (hf : ∃ rp sp, Follows rp sp t) (hw : writeOps o refSeq segSeq t = .ok (some ops)) :
    ∃ t' a, (if o.itg then .ok t else trimSeg t) = .ok t' ∧ firstSeg t' = some a ∧
      readOps ((firstRef t').getD 0) ops = .ok (if o.hc then shiftSeg a t' else t') :=
  cigar_roundtrip o refSeq segSeq t ops hf hw

/-- the same through the CIGAR *string* -/
theorem C11_cigar_roundtrip_string (o : WOpts) (refSeq segSeq : List Nat) (t : PTrace) (ops : List (Op × Nat))
    (hf : ∃ rp sp, Follows rp sp t) (hw : writeOps o refSeq segSeq t = .ok (some ops)) :
    ∃ t' a, (if o.itg then .ok t else trimSeg t) = .ok t' ∧ firstSeg t' = some a ∧
      readCigar ((firstRef t').getD 0) (printOps ops) = .ok (if o.hc then shiftSeg a t' else t') := by
  obtain ⟨t', a, h1, h2, h3⟩ := cigar_roundtrip o refSeq segSeq t ops hf hw
  exact ⟨t', a, h1, h2, by simp [readCigar, parse_print, h3]⟩

-- non-vacuity: the docstring example of cigar.py in small (terminal gaps, a deletion inside an intron, clipped ends)
example : writeOps ⟨[(3, 4)], true, true, false⟩ [0, 1, 2, 3, 0, 1, 2] [3, 2, 3, 1, 1]
    [(some 1, none), (some 2, some 1), (some 3, none), (some 4, some 2), (none, some 3), (some 5, none)]
    = .ok (some [(.H, 1), (.EQ, 1), (.N, 1), (.X, 1), (.I, 1), (.H, 1)]) := by decide
example : Follows 1 1 [(some 1, none), (some 2, some 1), (some 3, none), (some 4, some 2), (none, some 3), (some 5, none)] := by
  simp [Follows]
example : readOps 2 [(.H, 1), (.EQ, 1), (.N, 1), (.X, 1), (.I, 1), (.H, 1)]
    = .ok [(some 2, some 0), (some 3, none), (some 4, some 1), (none, some 2)] := by decide
example : parseCigar ['4', 'S', '1', '2', 'M', '2', 'D'] = .ok [(.S, 4), (.M, 12), (.D, 2)] := by decide

/-! ## regenerated tables (cigar.py) -/

/-- `CigarOp` and `_str_to_op` are the model's table: a bijection between the ten symbols and the ten members
(order of the source dict is irrelevant). -/
theorem C11_gen_symbols :
    (∀ e ∈ Gen.C11.strToOp, ∃ o ∈ Op.all, e = (o.symbol, o.name)) ∧
    (∀ o ∈ Op.all, (o.symbol, o.name) ∈ Gen.C11.strToOp) ∧ Gen.C11.strToOp.length = Op.all.length ∧
    (∀ e ∈ Gen.C11.cigarOps, ∃ o ∈ Op.all, e = (o.name, o.code)) ∧
    (∀ o ∈ Op.all, (o.name, o.code) ∈ Gen.C11.cigarOps) ∧ Gen.C11.cigarOps.length = Op.all.length ∧
    (Op.all.map Op.symbol).Nodup ∧ (Op.all.map Op.code).Nodup := by decide

def kindRow : Kind → Option (Bool × Bool × Bool × Bool × Bool)
  | .both => some (true, true, false, false, false)
  | .segOnly => some (false, true, false, true, false)
  | .refOnly => some (true, false, false, false, true)
  | .softClip => some (false, true, true, false, false)
  | .hardClip => some (false, false, true, false, false)
  | .unsupported => none

/-- which operations consume reference / segment, are clipped, or are rejected: the branches of
`read_alignment_from_cigar` are the model's `Op.kind`. -/
theorem C11_gen_reader : ∀ o ∈ Op.all, (Gen.C11.readerTable.lookup o.name) = kindRow o.kind := by decide

/-- every operation the writer can emit is one the reader accepts as a column, and the clip operations are
hard/soft clip in that order. -/
theorem C11_gen_writer :
    (∀ e ∈ Gen.C11.writerTable, ∃ o ∈ Op.all, o.name = e.2 ∧ (o.kind = .both ∨ o.kind = .segOnly ∨ o.kind = .refOnly)) ∧
    Gen.C11.clipOp.2 = (Op.H.name, Op.S.name) := by decide

/-! ## progressive multiple alignment -/

/-- `_replace_gaps` along one side of a valid global trace keeps the row's gap-stripped content. -/
theorem C11_msa_rows (g : Nat) (row : Row) (tr : List (Option Nat)) (h : tr.filterMap id = List.range row.length) :
    ∃ r, replaceGaps g tr row = .ok r ∧ r.length = tr.length ∧ strip g r = strip g row :=
  replaceGaps_strip g row tr h

/-- the merge step: two sub-MSAs that spell their inputs and have no all-gap column, merged along a valid global
pairwise trace, give a sub-MSA (width = trace length) that spells its inputs and has no all-gap column. -/
theorem C11_msa_no_allgap {g : Nat} {seqs : List Row} {w1 w2 : Nat} {o1 o2 : List Nat} {r1 r2 : List Row} {tr : PTrace}
    (h1 : Inv g seqs w1 o1 r1) (h2 : Inv g seqs w2 o2 r2) (hv : GlobalValid tr w1 w2) :
    ∃ rows, mergeGroups g tr r1 r2 = .ok rows ∧ Inv g seqs tr.length (o1 ++ o2) rows :=
  merge_inv h1 h2 hv

/-- by induction over any guide tree: `_progressive_align` returns the tree's leaf list as order and rows that
spell the inputs, have one width and no all-gap column. -/
theorem C11_msa_progressive {al : List Nat → List Nat → PTrace} {g : Nat} {seqs : List Row}
    (hin : ∀ s ∈ seqs, ∀ c ∈ s, c ≠ g) (tree : GTree) (hv : AllValid al g seqs tree)
    (hl : ∀ i ∈ tree.leaves, i < seqs.length) :
    ∃ rows w, progressive al g seqs tree = .ok (tree.leaves, rows) ∧ Inv g seqs w tree.leaves rows :=
  progressive_inv hin tree hv hl

/-- `align_multiple`: for every guide tree that contains every sequence exactly once and every `align_optimal`
that returns valid global traces, the result has `order` = the tree's leaf list (a permutation), the sequences
come back in **input order** (`argsort(order)` undoes the tree order), and row `k` of the trace visits positions
`0 … len(input k) − 1` of input `k` in order (one row per input; gap-stripped rows = inputs). -/
theorem C11_msa_invariant {al : List Nat → List Nat → PTrace} {g : Nat} {seqs : List Row} (tree : GTree)
    (hin : ∀ s ∈ seqs, ∀ c ∈ s, c ≠ g) (hv : AllValid al g seqs tree)
    (hperm : tree.leaves.Perm (List.range seqs.length)) :
    ∃ res, alignMultiple al g seqs tree = .ok (some res) ∧ res.order = tree.leaves ∧ res.seqs = seqs ∧
      All₂ (fun s row => row.filterMap id = List.range s.length) seqs res.rows :=
  msa_invariant tree hin hv hperm

-- non-vacuity: two sequences, one merge
example : GlobalValid [(some 0, some 0), (some 1, none), (some 2, some 1)] 3 2 := by
  refine ⟨by decide, by decide, ?_⟩
  intro c hc; simp at hc; rcases hc with rfl | rfl | rfl <;> simp
example : mergeGroups 4 [(some 0, some 0), (some 1, none), (some 2, some 1)] [[0, 1, 2]] [[0, 2]]
    = .ok [[0, 1, 2], [0, 4, 2]] := by decide
example : (GTree.node (.leaf 1) (.leaf 0)).leaves.Perm (List.range 2) := by decide

end BiotiteModel.C11

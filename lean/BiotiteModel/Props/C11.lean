import BiotiteModel.Proofs.C11Helpers
import BiotiteModel.Proofs.C11MsaFinal
import BiotiteModel.Proofs.C11Accept
import BiotiteModel.Gen.C11
/-!
# C11 — property theorems (alignment traces through every conversion; progressive MSA)

Only property statements and non-vacuity examples; helper lemmas are in `Proofs/C11*.lean`.
All theorems quantify over traces / op lists / guide trees of every size.
-/
namespace BiotiteModel.C11
open BiotiteModel

/-! ## gapped strings, code matrices, FASTA -/

/-- Gapped strings and back, per sequence `k`: if the trace visits positions `s, s+1, …` of the sequence
(contiguous, e.g. every trace produced by an aligner or a parser) and no symbol is the gap character, then
numbering the non-gap characters of `_gapped_str(k)` from `s` (`trace_from_strings` starts at `s = 0`) gives the
sequence's trace entries back, and removing the gap characters spells the covered part of the sequence. -/
theorem C11_strings_roundtrip (seq : List Char) (hsym : ∀ c ∈ seq, c ≠ '-') (k : Nat) (t : Trace)
    (cs : List Char) (s m : Nat) (h : gappedStr seq t k = .ok cs) (hcov : covered t k = List.range' s m) :
    numberRow s cs = t.map (fun c => (c[k]?).join) ∧
    stripChars cs = (covered t k).filterMap (fun j => seq[j]?) :=
  gappedStr_number seq hsym k t cs s m h hcov

/-- FASTA round trip (set_alignment ∘ get_alignment), per sequence: for a trace that covers the whole sequence
from position 0 the re-parsed row is the original row and the re-parsed sequence is the original sequence. -/
theorem C11_fasta_roundtrip (seq : List Char) (hsym : ∀ c ∈ seq, c ≠ '-') (k : Nat) (t : Trace)
    (cs : List Char) (h : gappedStr seq t k = .ok cs) (hcov : covered t k = List.range seq.length) :
    numberRow 0 cs = t.map (fun c => (c[k]?).join) ∧ stripChars cs = seq := by
  have := gappedStr_number seq hsym k t cs 0 seq.length h (by rw [hcov, List.range_eq_range'])
  refine ⟨this.1, ?_⟩
  rw [this.2, hcov, range_filterMap_get]

/-- `get_codes` / `get_symbols` rows: same gap pattern as the trace, and without the gaps they spell the
covered part of the sequence (codes or symbols: `α` is arbitrary). -/
theorem C11_codes_symbols {α : Type} (seq : List α) (k : Nat) (t : Trace) (row : List (Option α))
    (h : mapE (codeAt seq k) t = .ok row) :
    row.map Option.isSome = t.map (fun c => ((c[k]?).join).isSome) ∧
    row.filterMap id = (covered t k).filterMap (fun j => seq[j]?) :=
  codes_row seq k t row h

/-- Gapped strings and back for the **whole alignment** (columns), general form with start offsets: for a
rectangular trace of at least two sequences whose rows are contiguous (`covered t k = s k, s k + 1, …`), with
indices inside the sequences and no symbol equal to the gap character, `get_gapped_sequences` succeeds and
`trace_from_strings` of the result is the trace with every row shifted to start at 0. -/
theorem C11_strings_roundtrip_cols (seqs : List (List Char)) (t : Trace) (s m : Nat → Nat)
    (hn : 2 ≤ seqs.length) (hrect : ∀ c ∈ t, c.length = seqs.length)
    (hsym : ∀ seq ∈ seqs, ∀ c ∈ seq, c ≠ '-')
    (hcov : ∀ k, k < seqs.length → covered t k = List.range' (s k) (m k))
    (hin : ∀ k (h : k < seqs.length), ∀ j ∈ covered t k, j < seqs[k].length) :
    ∃ strs, gappedStrings seqs t = .ok strs ∧ traceFromStrings strs = .ok (shiftTrace s t) := by
  obtain ⟨strs, h1, _, _, h4⟩ := strings_roundtrip_cols seqs t s m hn hrect hsym hcov hin
  exact ⟨strs, h1, h4⟩

/-- … and for rows that start at index 0: `traceFromStrings (gappedStrings seqs t) = t`. -/
theorem C11_strings_roundtrip_whole (seqs : List (List Char)) (t : Trace) (m : Nat → Nat)
    (hn : 2 ≤ seqs.length) (hrect : ∀ c ∈ t, c.length = seqs.length)
    (hsym : ∀ seq ∈ seqs, ∀ c ∈ seq, c ≠ '-')
    (hcov : ∀ k, k < seqs.length → covered t k = List.range (m k))
    (hin : ∀ k (h : k < seqs.length), ∀ j ∈ covered t k, j < seqs[k].length) :
    ∃ strs, gappedStrings seqs t = .ok strs ∧ traceFromStrings strs = .ok t := by
  obtain ⟨strs, h1, _, _, h4⟩ := strings_roundtrip_cols seqs t (fun _ => 0) m hn hrect hsym
    (fun k hk => by rw [hcov k hk, List.range_eq_range']) hin
  exact ⟨strs, h1, by rw [h4, shiftTrace_zero]⟩

/-- The contiguity hypothesis of the string round trips is necessary: gapped strings only show the aligned symbols, so a
valid trace that skips a position (e.g. the result of `remove_gaps`) is rendered without the skipped symbol and parses
back as a different trace — the text format cannot express it (witness evaluated by `decide`, replayed on the code). -/
theorem C11_strings_needs_contiguous :
    ∃ (seqs : List (List Char)) (t : Trace), Valid 2 t ∧
      (gappedStrings seqs t).toOption.bind (fun strs => (traceFromStrings strs).toOption) = some [[some 0, some 0], [some 1, some 1]] ∧
      t = [[some 0, some 0], [some 2, some 1]] := by
  refine ⟨[['A', 'C', 'G'], ['A', 'G']], [[some 0, some 0], [some 2, some 1]], ?_, by decide, rfl⟩
  refine ⟨by decide, ?_, by decide⟩
  intro k hk
  have : k = 0 ∨ k = 1 := by omega
  rcases this with rfl | rfl <;> decide

/-- audit 6, the excluded regions of the string theorems are refusals or format limits: fewer than two strings → ValueError, a
later string shorter than the first → IndexError (longer ones are cut). -/
theorem C11_strings_rejects (s s' : List Char) (rest : List (List Char)) :
    traceFromStrings [] = .error .valueError ∧ traceFromStrings [s] = .error .valueError ∧
    (s'.length < s.length → traceFromStrings (s :: s' :: rest) = .error .indexError) := by
  refine ⟨rfl, rfl, fun h => ?_⟩
  simp [traceFromStrings, h]

/-- …and the hypothesis "no symbol is the gap character" is necessary: an alphabet that contains `-` renders a symbol and a
gap alike (witness replayed on the code: rows `a-b` / `a-b` parse back with an all-gap column). -/
theorem C11_strings_needs_no_gap_symbol :
    (gappedStrings [['a', '-', 'b'], ['a', 'b']] [[some 0, some 0], [some 1, none], [some 2, some 1]]).toOption.bind
        (fun strs => (traceFromStrings strs).toOption) = some [[some 0, some 0], [none, none], [some 1, some 1]] := by decide

/-- FASTA round trip of the whole alignment (`set_alignment` then `get_alignment` with **any** set `extra` of additional gap
characters): a trace that covers every sequence completely comes back unchanged together with the sequences, provided no
symbol is `-` or one of the additional gap characters. -/
theorem C11_fasta_roundtrip_cols (extra : List Char) (seqs : List (List Char)) (t : Trace)
    (hn : 2 ≤ seqs.length) (hrect : ∀ c ∈ t, c.length = seqs.length)
    (hsym : ∀ seq ∈ seqs, ∀ c ∈ seq, c ≠ '-' ∧ c ∉ extra)
    (hcov : ∀ k (h : k < seqs.length), covered t k = List.range seqs[k].length) :
    ∃ strs, gappedStrings seqs t = .ok strs ∧ fastaGet extra strs = .ok (seqs, t) :=
  fasta_roundtrip_cols extra seqs t hn hrect hsym hcov

/-- additional gap characters: a FASTA text in which some gaps `-` are written as characters of `extra` (any number of them,
any order — `extra` is a set here) is read exactly like the plain `-` text. -/
theorem C11_fasta_gapchars (extra : List Char) (strs strs' : List (List Char))
    (hclean : ∀ s ∈ strs, ∀ c ∈ s, c ∉ extra)
    (hsub : All₂ (All₂ fun c c' => c' = c ∨ (c = '-' ∧ c' ∈ extra)) strs strs') :
    fastaGet extra strs' = fastaGet [] strs :=
  fastaGet_gapchars extra strs strs' hclean hsub

/-- `get_symbols`: row `k` is row `k` of `get_codes` decoded entry by entry through the alphabet of sequence `k` (its own,
not the first sequence's): a gap stays a gap, a code `x` becomes `alphs[k][x]`; a code outside that alphabet is an error. -/
theorem C11_symbols_rows (alphs : List (List Char)) (seqs : List (List Nat)) (t : Trace) (sy : List (List (Option Char)))
    (h : getSymbols alphs seqs t = .ok sy) :
    ∃ codes, getCodes seqs t = .ok codes ∧
      All₂ (fun (p : List Char × List (Option Nat)) sr => All₂ (DecodesTo p.1) p.2 sr) (alphs.zip codes) sy := by
  unfold getSymbols at h
  split at h
  · cases h
  · next codes hc => exact ⟨codes, hc, decodeRows_spec alphs codes sy h⟩

example : getSymbols [['A', 'C', 'G', 'T'], ['A', 'C', 'G', 'T', 'R', 'Y']] [[3, 0], [5, 4]] [[some 0, some 1], [some 1, none]]
    = .ok [[some 'T', some 'A'], [some 'R', none]] := by decide
example : fastaGet ['.', '_'] [['A', '.', 'C'], ['_', 'G', '-']] = fastaGet [] [['A', '-', 'C'], ['-', 'G', '-']] := by decide

/-- `get_codes` as a matrix: transposed it is, column by column, the code of every sequence in that column
(`colCodes`).  The model's codes are unbounded naturals and the gap is a separate value, so the statement is
independent of any integer dtype: an entry is a gap iff the trace entry is a gap, otherwise it *is* the code. -/
theorem C11_codes_cols {α : Type} (seqs : List (List α)) (t : Trace) (codes : List (List (Option α)))
    (h : codesFrom t 0 seqs = .ok codes) :
    codes = (seqs.zipIdx 0).map (fun p => t.map (codeOf p.1 p.2)) ∧ transpose t.length codes = t.map (colCodes seqs) :=
  ⟨codesFrom_spec t seqs 0 codes h, getCodes_cols seqs t codes h⟩

example : gappedStrings [['A', 'C'], ['G']] [[some 0, none], [some 1, some 0]] = .ok [['A', 'C'], ['-', 'G']] := by decide
example : traceFromStrings [['A', 'C'], ['-', 'G']] = .ok [[some 0, none], [some 1, some 0]] := by decide
example : getCodes [[7, 70000], []] [[some 1, none]] = .ok [[some 70000], [none]] := by decide

example : gappedStr ['A', 'C', 'G', 'T'] [[some 1, some 0], [none, some 1], [some 2, none]] 0 = .ok ['C', '-', 'G'] := by decide
example : covered [[some 1, some 0], [none, some 1], [some 2, none]] 0 = List.range' 1 2 := by decide
example : numberRow 1 ['C', '-', 'G'] = [some 1, none, some 2] := by decide

/-! ## helpers keep the trace invariant -/

/-- `remove_gaps`, column slicing (`alignment[a:b]`) and `remove_terminal_gaps` return valid traces, and
`remove_gaps` leaves no gap. -/
theorem C11_helpers_valid {n : Nat} {t : Trace} (h : Valid n t) :
    Valid n (removeGaps t) ∧ (∀ c ∈ removeGaps t, ∀ x ∈ c, x ≠ none) ∧ (∀ a b, Valid n (sliceCols t a b)) ∧
    (∀ t', removeTerminalGaps n t = .ok t' → Valid n t') :=
  ⟨removeGaps_valid h, removeGaps_noGap t, fun a b => sliceCols_valid a b h, fun _ hr => removeTerminalGaps_valid h hr⟩

example : validB 2 [[some 0, none], [some 1, some 0], [none, some 1]] = true := by decide
example : removeTerminalGaps 2 [[some 0, none], [some 1, some 0], [none, some 1]] = .ok [[some 1, some 0]] := by decide

/-- `find_terminal_gaps` = (first column at which every sequence has started, one past the last column at which
no sequence has ended), both defined column by column (`allStarted`, `noneEnded`); ValueError only without
sequences.  Sequences without any symbol (e.g. empty sequences) give `start = number of columns`, `stop = 0`. -/
theorem C11_terminal_gaps_spec (n : Nat) (t : Trace) :
    (n = 0 → findTerminalGaps n t = .error .valueError) ∧
    (0 < n → ∃ a b, findTerminalGaps n t = .ok (a, b) ∧ a ≤ t.length ∧ b ≤ t.length ∧
      ∀ i, i < t.length → ((allStarted n t i = true ↔ a ≤ i) ∧ (noneEnded n t i = true ↔ i < b))) :=
  findTerminalGaps_spec n t

/-- `remove_terminal_gaps` returns exactly the columns `a ≤ i < b` (in order) and refuses iff `b < a`;
`remove_gaps` returns exactly the columns without a gap (in order). -/
theorem C11_gap_removal_spec (n : Nat) (t : Trace) (a b : Nat) (h : findTerminalGaps n t = .ok (a, b)) :
    (b < a → removeTerminalGaps n t = .error .valueError) ∧
    (a ≤ b → ∃ t', removeTerminalGaps n t = .ok t' ∧ ∀ j, t'[j]? = if a + j < b then t[a + j]? else none) ∧
    (removeGaps t).Sublist t ∧ (∀ c, c ∈ removeGaps t ↔ c ∈ t ∧ ∀ x ∈ c, x ≠ none) :=
  ⟨(removeTerminalGaps_spec n t a b h).1, (removeTerminalGaps_spec n t a b h).2, (removeGaps_spec t).1, (removeGaps_spec t).2⟩

/-- `get_sequence_identity` (all three modes) = number of columns whose codes — computed from that column alone —
are one and the same symbol (`colMatch_iff`), over the length the mode prescribes; the length is never 0. -/
theorem C11_identity_spec (seqs : List (List Nat)) (t : Trace) (mode : IdMode) (m len : Nat)
    (h : identity seqs t mode = .ok (m, len)) :
    m = (t.filter fun c => colMatch (colCodes seqs c)).length ∧ 0 < len ∧
    (∀ col, colMatch col = true ↔ col ≠ [] ∧ ∃ a, ∀ x ∈ col, x = some a) ∧
    (match mode with
      | .all => len = t.length
      | .notTerminal => ∃ a b, findTerminalGaps seqs.length t = .ok (a, b) ∧ a < b ∧ len = b - a
      | .shortest => seqs ≠ [] ∧ len = minL (seqs.map List.length) ∧ minL (seqs.map List.length) ∈ seqs.map List.length ∧
          ∀ x ∈ seqs.map List.length, minL (seqs.map List.length) ≤ x) := by
  obtain ⟨h1, h2, h3⟩ := identity_spec seqs t mode m len h
  refine ⟨h1, h2, colMatch_iff, ?_⟩
  cases mode with
  | all => exact h3
  | notTerminal => exact h3
  | shortest =>
    obtain ⟨hne, hl⟩ := h3
    have hne' : seqs.map List.length ≠ [] := by simpa using hne
    exact ⟨hne, hl, (minL_spec _ hne').1, (minL_spec _ hne').2⟩

/-- `score(alignment, matrix, (go, ge), terminal_penalty)` = similarity of all unordered non-gap pairs summed column
by column + for every sequence the affine cost `go + (L − 1)·ge` of each maximal gap run of length `L` between
the bounds (the whole alignment with terminal penalty, the `find_terminal_gaps` bounds without). -/
theorem C11_score_spec (M : List (List Int)) (go ge : Int) (terminal : Bool) (seqs : List (List Nat)) (t : Trace) (v : Int)
    (h : score M go ge terminal seqs t = .ok v) :
    ∃ sims a b, mapE (colPairScore M) (t.map (colCodes seqs)) = .ok sims ∧
      (terminal = true → a = 0 ∧ b = t.length) ∧
      (terminal = false → seqs ≠ [] → findTerminalGaps seqs.length t = .ok (a, b)) ∧
      v = isum sims + isum ((seqs.zipIdx).map fun p =>
            isum ((gapRuns ((sliceCols t a b).map (codeOf p.1 p.2))).map (runCost go ge))) :=
  score_spec M go ge terminal seqs t v h

/-- `get_pairwise_sequence_identity` (all modes): an `n × n` matrix; entry `(i, j)` = (number of columns in which rows `i` and
`j` carry the same code and no gap — counted column by column, length of the mode for that pair): #columns /
`b − a` with `a < b` for the terminal-gap bounds of the two-row alignment `alignment[:, [i, j]]` (whose meaning is
`C11_terminal_gaps_spec`) / the shorter of the two sequences.  A length of 0 is *not* an error here (numpy yields nan). -/
theorem C11_pairwise_identity_spec (seqs : List (List Nat)) (t : Trace) (mode : IdMode) (M : List (List (Nat × Nat)))
    (h : pairIdentity seqs t mode = .ok M) :
    M.length = seqs.length ∧ ∀ i j (hi : i < seqs.length) (hj : j < seqs.length),
      ∃ len, (M[i]?).bind (·[j]?) = some (specPairMatches seqs[i] seqs[j] i j t, len) ∧
        (match mode with
          | .all => len = t.length
          | .notTerminal => ∃ a b, findTerminalGaps 2 (t.map fun c => [(c[i]?).join, (c[j]?).join]) = .ok (a, b) ∧ a < b ∧ len = b - a
          | .shortest => len = Nat.min (seqs.getD i []).length (seqs.getD j []).length) := by
  cases mode <;>
    (obtain ⟨h1, h2⟩ := pairIdentity_spec seqs t _ M h
     refine ⟨h1, fun i j hi hj => ?_⟩
     obtain ⟨len, hl, hm⟩ := h2 i j hi hj
     exact ⟨len, hm, pairLen_spec seqs t _ i j len hl⟩)

/-- the decode step of `get_symbols` against the trace: entry (row `k`, column `c`) is a gap iff the trace entry is a gap and
otherwise the symbol `alphs[k][seqs[k][j]]` of the trace entry `j` — every row through its own alphabet (combines
`C11_symbols_rows` with `C11_codes_cols`). -/
theorem C11_symbols_spec (alphs : List (List Char)) (seqs : List (List Nat)) (t : Trace) (sy : List (List (Option Char)))
    (h : getSymbols alphs seqs t = .ok sy) :
    All₂ (fun (p : List Char × (List Nat × Nat)) sr => All₂ (fun c s => DecodesTo p.1 (codeOf p.2.1 p.2.2 c) s) t sr)
      (alphs.zip seqs.zipIdx) sy :=
  getSymbols_spec alphs seqs t sy h

example : pairIdentity [[0, 1, 2], [0, 2]] [[some 0, some 0], [some 1, none], [some 2, some 1]] .all
    = .ok [[(3, 3), (2, 3)], [(2, 3), (2, 3)]] := by decide
example : findTerminalGaps 2 [[some 0, none], [some 1, none], [some 2, none]] = .ok (3, 0) := by decide
example : identity [[0, 1, 2], [0, 2]] [[some 0, some 0], [some 1, none], [some 2, some 1]] .notTerminal = .ok (2, 3) := by decide
example : score [[1, 0], [0, 1]] (-5) (-2) true [[0, 1, 1, 0], [0, 0]] [[some 0, some 0], [some 1, none], [some 2, none], [some 3, some 1]]
    = .ok (-5) := by decide
-- orientation of the matrix: row index = code of the earlier alignment row (not symmetric matrices, two alphabets)
example : score [[0, 5, 1], [7, 0, 2]] (-5) (-2) true [[0], [1]] [[some 0, some 0]] = .ok 5 := by decide
example : gapRuns [some 0, none, none, some 1, none] = [2, 1] := by decide
example : runCost (-5) (-2) 2 = -7 := by decide

/-! ## CIGAR -/

/-- `_aggregate_consecutive` is a lossless run-length encoding with maximal runs of positive length. -/
theorem C11_aggregate (ops : List Op) :
    expand (aggregate ops) = ops ∧ NoAdj (aggregate ops) ∧ ∀ p ∈ aggregate ops, 0 < p.2 :=
  ⟨expand_aggregate ops, aggregate_noAdj ops, aggregate_pos ops⟩

/-- `_op_tuples_from_cigar(_cigar_from_op_tuples(ops)) = ops` for every list of operations and counts. -/
theorem C11_cigar_string (ops : List (Op × Nat)) : parseCigar (printOps ops) = .ok ops := parse_print ops

/-- Reader ∘ writer = identity on the written trace, for **every** combination of `hard_clip`,
`distinguish_matches`, `introns` and `include_terminal_gaps`: whenever `write_alignment_to_cigar` accepts a
pairwise trace (it refuses double gaps and, since fix b62f18f5, skipped positions), `read_alignment_from_cigar` at the first
reference position of the written part returns exactly the written part (the trace without terminal segment
gaps unless they are included); with hard clipping the segment indices are relative to the clipped segment. -/
theorem C11_cigar_roundtrip (o : WOpts) (refSeq segSeq : List Nat) (t : PTrace) (ops : List (Op × Nat))
    (hw : writeOps o refSeq segSeq t = .ok (some ops)) :
    ∃ t' a, (if o.itg then .ok t else trimSeg t) = .ok t' ∧ firstSeg t' = some a ∧
      readOps ((firstRef t').getD 0) ops = .ok (if o.hc then shiftSeg a t' else t') :=
  cigar_roundtrip o refSeq segSeq t ops hw

/-- the same through the CIGAR *string* -/
theorem C11_cigar_roundtrip_string (o : WOpts) (refSeq segSeq : List Nat) (t : PTrace) (ops : List (Op × Nat))
    (hw : writeOps o refSeq segSeq t = .ok (some ops)) :
    ∃ t' a, (if o.itg then .ok t else trimSeg t) = .ok t' ∧ firstSeg t' = some a ∧
      readCigar ((firstRef t').getD 0) (printOps ops) = .ok (if o.hc then shiftSeg a t' else t') := by
  obtain ⟨t', a, h1, h2, h3⟩ := cigar_roundtrip o refSeq segSeq t ops hw
  exact ⟨t', a, h1, h2, by simp [readCigar, parse_print, h3]⟩

/-- Which traces the writer accepts: `write_alignment_to_cigar` produces a CIGAR **iff** `acceptB` holds — the written part
exists (the segment has an aligned base, `trimSeg_ok_iff`) and is non-empty, no column is a double gap, every intron
is `0 ≤ start < stop` and covers only columns with a segment gap, reference and segment positions are consecutive
(`contigB`), with `distinguish_matches` all indices are inside
the sequences, and the last aligned segment base lies inside the segment. -/
theorem C11_cigar_accept (o : WOpts) (refSeq segSeq : List Nat) (t : PTrace) :
    ((∃ ops, writeOps o refSeq segSeq t = .ok (some ops)) ↔ acceptB o refSeq.length segSeq.length t = true) ∧
    ((∃ t', trimSeg t = .ok t') ↔ ∃ c ∈ t, c.2.isSome = true) :=
  ⟨writeOps_accept_iff o refSeq segSeq t, trimSeg_ok_iff t⟩

/-- unconditional round trip: every accepted trace is written and read back unchanged (no hypothesis besides `acceptB`).
Before fix b62f18f5 the writer accepted traces with skipped positions (e.g. `remove_gaps` output `[[0,0],[2,1]]` → `2M`),
for which this statement is false; the witness is replayed as a regression case. -/
theorem C11_cigar_roundtrip_total (o : WOpts) (refSeq segSeq : List Nat) (t : PTrace)
    (ha : acceptB o refSeq.length segSeq.length t = true) :
    ∃ ops t' a, writeOps o refSeq segSeq t = .ok (some ops) ∧ written o t = some t' ∧ firstSeg t' = some a ∧
      readCigar ((firstRef t').getD 0) (printOps ops) = .ok (if o.hc then shiftSeg a t' else t') := by
  obtain ⟨ops, hw⟩ := (writeOps_accept_iff o refSeq segSeq t).2 ha
  obtain ⟨t', a, h1, h2, h3⟩ := cigar_roundtrip o refSeq segSeq t ops hw
  refine ⟨ops, t', a, hw, ?_, h2, by simp [readCigar, parse_print, h3]⟩
  unfold written
  by_cases hitg : o.itg = true
  · simp only [hitg, if_true] at h1 ⊢; cases h1; rfl
  · simp only [hitg, if_false, Bool.false_eq_true] at h1 ⊢; rw [h1]

example : acceptB ⟨[(3, 4)], true, true, false⟩ 7 5
    [(some 1, none), (some 2, some 1), (some 3, none), (some 4, some 2), (none, some 3), (some 5, none)] = true := by decide
example : acceptB ⟨[], false, false, true⟩ 7 5 [(some 1, none), (none, none)] = false := by decide
-- a trace with a skipped reference position (what `remove_gaps` returns) is refused
example : writeOps ⟨[], false, false, false⟩ [0, 1, 2, 3] [0, 2, 3] [(some 0, some 0), (some 2, some 1), (some 3, some 2)]
    = .error .valueError := by decide

-- non-vacuity: the docstring example of cigar.py in small (terminal gaps, a deletion inside an intron, clipped ends)
example : writeOps ⟨[(3, 4)], true, true, false⟩ [0, 1, 2, 3, 0, 1, 2] [3, 2, 3, 1, 1]
    [(some 1, none), (some 2, some 1), (some 3, none), (some 4, some 2), (none, some 3), (some 5, none)]
    = .ok (some [(.H, 1), (.EQ, 1), (.N, 1), (.X, 1), (.I, 1), (.H, 1)]) := by decide
example : Follows 1 1 [(some 1, none), (some 2, some 1), (some 3, none), (some 4, some 2), (none, some 3), (some 5, none)] := by
  simp [Follows]
example : readOps 2 [(.H, 1), (.EQ, 1), (.N, 1), (.X, 1), (.I, 1), (.H, 1)]
    = .ok [(some 2, some 0), (some 3, none), (some 4, some 1), (none, some 2)] := by decide
example : parseCigar ['4', 'S', '1', '2', 'M', '2', 'D'] = .ok [(.S, 4), (.M, 12), (.D, 2)] := by decide

/-! ## regenerated tables (cigar.py) -/

/-- `CigarOp` and `_str_to_op` are the model's table: a bijection between the ten symbols and the ten members
(order of the source dict is irrelevant). -/
theorem C11_gen_symbols :
    (∀ e ∈ Gen.C11.strToOp, ∃ o ∈ Op.all, e = (o.symbol, o.name)) ∧
    (∀ o ∈ Op.all, (o.symbol, o.name) ∈ Gen.C11.strToOp) ∧ Gen.C11.strToOp.length = Op.all.length ∧
    (∀ e ∈ Gen.C11.cigarOps, ∃ o ∈ Op.all, e = (o.name, o.code)) ∧
    (∀ o ∈ Op.all, (o.name, o.code) ∈ Gen.C11.cigarOps) ∧ Gen.C11.cigarOps.length = Op.all.length ∧
    (Op.all.map Op.symbol).Nodup ∧ (Op.all.map Op.code).Nodup := by decide

def kindRow : Kind → Option (Bool × Bool × Bool × Bool × Bool)
  | .both => some (true, true, false, false, false)
  | .segOnly => some (false, true, false, true, false)
  | .refOnly => some (true, false, false, false, true)
  | .softClip => some (false, true, true, false, false)
  | .hardClip => some (false, false, true, false, false)
  | .unsupported => none

/-- which operations consume reference / segment, are clipped, or are rejected: the branches of
`read_alignment_from_cigar` are the model's `Op.kind`. -/
theorem C11_gen_reader : ∀ o ∈ Op.all, (Gen.C11.readerTable.lookup o.name) = kindRow o.kind := by decide

/-- every operation the writer can emit is one the reader accepts as a column, and the clip operations are
hard/soft clip in that order. -/
theorem C11_gen_writer :
    (∀ e ∈ Gen.C11.writerTable, ∃ o ∈ Op.all, o.name = e.2 ∧ (o.kind = .both ∨ o.kind = .segOnly ∨ o.kind = .refOnly)) ∧
    Gen.C11.clipOp.2 = (Op.H.name, Op.S.name) := by decide

/-! ### pass 7: literals, guards, defaults, step order and exception classes regenerated from the source -/

/-- default arguments of the public functions (what the adapter and the model assume when an argument is omitted) -/
theorem C11_gen_defaults :
    Gen.C11.writerDefaults = [("reference_index", "0"), ("segment_index", "1"), ("introns", "()"), ("distinguish_matches", "False"),
      ("hard_clip", "False"), ("include_terminal_gaps", "False"), ("as_string", "True")] ∧
    Gen.C11.readerDefaults = [] ∧
    Gen.C11.facts.lookup "get_sequence_identity.defaults" = some "mode='not_terminal'" ∧
    Gen.C11.facts.lookup "get_pairwise_sequence_identity.defaults" = some "mode='not_terminal'" ∧
    Gen.C11.facts.lookup "score.defaults" = some "gap_penalty=-10;terminal_penalty=True" ∧
    Gen.C11.facts.lookup "get_alignment.defaults" = some "additional_gap_chars=('_',);seq_type=None" ∧
    Gen.C11.facts.lookup "align_multiple.defaults" = some "gap_penalty=-10;terminal_penalty=True;distances=None;guide_tree=None" := by
  decide

/-- cigar.py: the writer's refusing guards in source order (double gap, skipped positions `diff != 1`, intron `start >= stop`,
`start < 0`, intron outside a deletion — all ValueError, as `columnOps`/`acceptB` assume), the reader's refusals, the clip
formula `len(segment) − seg_trace[−1] − 1` / `seg_trace[0]`, the trimming slice `pos[0] : pos[−1] + 1`, count before symbol in
the printer, `ref_pos = position`, `seg_pos = 0` in the reader — each next to the model evaluated at the deciding input. -/
theorem C11_gen_cigar_steps :
    Gen.C11.writerGuards = [("mask-and", "", "ValueError"), ("diff-not", "1", "ValueError"), ("GtE", "var", "ValueError"),
      ("Lt", "0", "ValueError"), ("mask-and-not", "", "ValueError")] ∧
    Gen.C11.readerRaises = ["ValueError"] ∧
    (Gen.C11.startClipIndex, Gen.C11.endClipIndex, Gen.C11.endClipMinus) = (0, -1, 1) ∧
    clips 5 [(some 0, some 1), (some 1, some 2)] = .ok (some (1, 2)) ∧
    (Gen.C11.trimLower, Gen.C11.trimUpper, Gen.C11.trimPlus) = (0, -1, 1) ∧
    trimSeg [(some 0, none), (some 1, some 0), (some 2, some 1), (some 3, none)] = .ok [(some 1, some 0), (some 2, some 1)] ∧
    Gen.C11.printerCountFirst = true ∧ parseCigar ['3', 'M'] = .ok [(.M, 3)] ∧
    Gen.C11.readerInit = [("refCursor", "position"), ("segCursor", "0"), ("row", "0")] ∧
    readOps 7 [(.M, 1)] = .ok [(some 7, some 0)] ∧
    -- intron guards: `start >= stop` refuses the empty intron, `start < 0` the negative one, (0, 1) is fine
    columnOps ⟨[(3, 3)], false, false, false⟩ [] [] [(some 0, some 0)] = .error .valueError ∧
    columnOps ⟨[(-1, 2)], false, false, false⟩ [] [] [(some 5, some 0)] = .error .valueError ∧
    columnOps ⟨[(0, 1)], false, false, false⟩ [] [] [(some 5, some 0)] = .ok [.M] := by decide

/-- alignment.py / fasta/convert.py: gap character, `< 2` strings, counter step, the int64 code matrix with gap fill −1,
per-row alphabet in `get_symbols`, the modes, `stop <= start` (identity) vs `stop < start` (remove_terminal_gaps), the
orientation `matrix[column[i], column[j]]` with `j > i`, extension-before-opening test order, the terminal-gap fall-backs, the
IndexError of integer indices, the gap replacement loops of `get_alignment`, `set_alignment`'s name count guard — each next
to the model evaluated at the deciding input. -/
theorem C11_gen_alignment_facts :
    Gen.C11.facts.lookup "gapped.gapChar" = some "-" ∧ Gen.C11.facts.lookup "gapped.test" = some "gap iff index == -1" ∧
    gappedStr [] [[none]] 0 = .ok ['-'] ∧ numberRow 0 ['-', 'x'] = [none, some 0] ∧
    Gen.C11.facts.lookup "trace_from_strings.guard" = some "Lt 2 ValueError" ∧
    Gen.C11.facts.lookup "trace_from_strings.gapTest" = some "Eq '-'" ∧ Gen.C11.facts.lookup "trace_from_strings.increment" = some "1" ∧
    traceFromStrings [['A']] = .error .valueError ∧ traceFromStrings [['A'], ['-']] = .ok [[some 0, none]] ∧
    Gen.C11.facts.lookup "get_codes.dtype" = some "np.int64" ∧ Gen.C11.facts.lookup "get_codes.gapFill" = some "np.int64(-1)" ∧
    Gen.C11.facts.lookup "get_symbols.alphabet" = some "alignment.sequences[k].get_alphabet()|per-row" := by decide

/-- identity / terminal gaps part of the alignment.py facts (see `C11_gen_alignment_facts`) -/
theorem C11_gen_alignment_guards :
    Gen.C11.facts.lookup "get_sequence_identity.modes" = some "'all','not_terminal','shortest'" ∧
    Gen.C11.facts.lookup "get_pairwise_sequence_identity.modes" = some "'all','not_terminal','shortest'" ∧
    Gen.C11.facts.lookup "get_sequence_identity.guards" = some "stop LtE start ValueError" ∧
    Gen.C11.facts.lookup "get_pairwise_sequence_identity.guards" = some "stop LtE start ValueError" ∧
    Gen.C11.facts.lookup "get_sequence_identity.raises" = some "ValueError" ∧
    Gen.C11.facts.lookup "get_sequence_identity.match" = some "one symbol in the column and not -1" ∧
    Gen.C11.facts.lookup "remove_terminal_gaps.guard" = some "stop Lt start ValueError" ∧
    -- stop = start: identity refuses (`<=`), remove_terminal_gaps returns the empty alignment (`<`)
    findTerminalGaps 2 [[some 0, none], [none, some 0]] = .ok (1, 1) ∧
    identity [[0], [0]] [[some 0, none], [none, some 0]] .notTerminal = .error .valueError ∧
    removeTerminalGaps 2 [[some 0, none], [none, some 0]] = .ok [] := by decide

/-- score / find_terminal_gaps / indexing / FASTA part of the facts (see `C11_gen_alignment_facts`) -/
theorem C11_gen_alignment_score :
    Gen.C11.facts.lookup "score.lookup" = some "matrix[earlier,later]" ∧
    Gen.C11.facts.lookup "score.pairs" = some "every unordered pair once (earlier < later)" ∧
    Gen.C11.facts.lookup "score.gapOrder" = some "ext,open" ∧ Gen.C11.facts.lookup "score.raises" = some "TypeError" ∧
    score [[0, 5], [7, 0]] 0 0 true [[0], [1]] [[some 0, some 0]] = .ok 5 ∧
    Gen.C11.facts.lookup "find_terminal_gaps.start" = some "max(pos[0] if len Gt 0 else ncols)+0" ∧
    Gen.C11.facts.lookup "find_terminal_gaps.stop" = some "min(pos[-1] if len Gt 0 else -1)+1" ∧
    findTerminalGaps 2 [[some 0, none]] = .ok (1, 0) ∧
    Gen.C11.facts.lookup "remove_gaps.mask" = some "columns without any -1" ∧
    Gen.C11.facts.lookup "getitem.raises" = some "IndexError" ∧
    Gen.C11.facts.lookup "getitem.integerTest" = some "numbers.Integral in the 1-D and the 2-D branch" ∧
    Gen.C11.facts.lookup "get_alignment.replace" = some "'-','';char,'-'" ∧
    Gen.C11.facts.lookup "get_alignment.loops" = some "every additional gap character is replaced in the current text" ∧
    Gen.C11.facts.lookup "set_alignment.guard" = some "len(rows) NotEq len(seq_names) ValueError" := by decide

/-- multiple.pyx: the leaf returns a **copy**; rows of the first child are rewritten along trace column 0, of the second along
column 1; order and rows are concatenated first-then-second; `_replace_gaps` writes the gap code for −1 and `seq_code[index]`
otherwise; the final numbering tests `== gap code → −1`, strips `!= gap code`, reorders rows and trace by `argsort(order)`; the
distance guard is the strict `S < S_rand` with ValueError and the formula is `−log((S − S_rand)/(S_max − S_rand))` with
`S_max = (S_ii + S_jj)/2`, `S_rand = pairSum / L + opens·go + extensions·ge` — next to the model at the deciding inputs. -/
theorem C11_gen_msa_steps :
    Gen.C11.facts.lookup "progressive.leaf" = some "[sequences[tree_node.index].copy()]" ∧
    Gen.C11.facts.lookup "progressive.children" = some "child1,child2=tree_node.children" ∧
    Gen.C11.facts.lookup "progressive.traceColumns" = some "aligned_seqs1:0;aligned_seqs2:1" ∧
    Gen.C11.facts.lookup "progressive.concat" = some "np.append(incides1,incides2);aligned_seqs1+aligned_seqs2" ∧
    mergeGroups 9 [(some 0, none), (none, some 0)] [[1]] [[2]] = .ok [[1, 9], [9, 2]] ∧
    Gen.C11.facts.lookup "replace_gaps.branches" = some "== -1 gap_symbol_code seq_code[index]" ∧
    replaceGaps 9 [none, some 0] [4] = .ok [9, 4] ∧
    Gen.C11.facts.lookup "align_multiple.gapCode" = some "new_alphabet.encode(gap_symbol)" ∧
    Gen.C11.facts.lookup "align_multiple.gapTest" = some "== -1" ∧
    Gen.C11.facts.lookup "align_multiple.strip" = some "code[code!=gap_symbol_code]" ∧
    numberCodes 9 0 [4, 9, 5] = [some 0, none, some 1] ∧ strip 9 [4, 9, 5] = [4, 5] ∧
    Gen.C11.facts.lookup "align_multiple.reorder" = some "np.argsort(order)" ∧
    Gen.C11.facts.lookup "align_multiple.pick" = some "[aligned_seqs[pos] for pos in new_order]" ∧
    Gen.C11.facts.lookup "align_multiple.traceReorder" = some "trace[:,new_order]" ∧
    argsortPerm [2, 0, 1] = [1, 2, 0] ∧
    Gen.C11.facts.lookup "distance.scoreMax" = some "(scores_v[i,i]+scores_v[j,j])/2.0" ∧
    Gen.C11.facts.lookup "distance.guard" = some "scores_v[i,j] < score_rand ValueError" ∧
    Gen.C11.facts.lookup "distance.formula" = some "-log((scores_v[i,j]-score_rand)/(score_max-score_rand))" ∧
    Gen.C11.facts.lookup "distance.randDivisor" = some "alignments[i,j].trace.shape[0]" ∧
    Gen.C11.facts.lookup "distance.gapTerms" = some "gap_open_count*gap_open;gap_ext_count*gap_ext" ∧
    -- strict guard: S = S_rand is not the documented rejection; S_max = (20 + 15)/2 enters as Saa + Sbb
    distOutcome ⟨5, 20, 15, 60, 4, 1, 0, -10, -10⟩ = .infinite ∧ distOutcome ⟨4, 20, 15, 60, 4, 1, 0, -10, -10⟩ = .belowRandom ∧
    (⟨5, 20, 15, 60, 4, 1, 0, -10, -10⟩ : DistIn).den = 4 * (20 + 15) - 2 * (60 + 4 * (1 * -10 + 0 * -10)) := by decide

/-! ## progressive multiple alignment -/

/-- an aligner answer used in witnesses: the ungapped alignment of two rows of width 2 -/
def exAl0 : List Nat → List Nat → PTrace := fun _ _ => [(some 0, some 0), (some 1, some 1)]

/-- `_replace_gaps` along one side of a valid global trace keeps the row's gap-stripped content. -/
theorem C11_msa_rows (g : Nat) (row : Row) (tr : List (Option Nat)) (h : tr.filterMap id = List.range row.length) :
    ∃ r, replaceGaps g tr row = .ok r ∧ r.length = tr.length ∧ strip g r = strip g row :=
  replaceGaps_strip g row tr h

/-- the merge step: two sub-MSAs that spell their inputs and have no all-gap column, merged along a valid global
pairwise trace, give a sub-MSA (width = trace length) that spells its inputs and has no all-gap column. -/
theorem C11_msa_no_allgap {g : Nat} {seqs : List Row} {w1 w2 : Nat} {o1 o2 : List Nat} {r1 r2 : List Row} {tr : PTrace}
    (h1 : Inv g seqs w1 o1 r1) (h2 : Inv g seqs w2 o2 r2) (hv : GlobalValid tr w1 w2) :
    ∃ rows, mergeGroups g tr r1 r2 = .ok rows ∧ Inv g seqs tr.length (o1 ++ o2) rows :=
  merge_inv h1 h2 hv

/-- by induction over any guide tree: `_progressive_align` returns the tree's leaf list as order and rows that
spell the inputs, have one width and no all-gap column. -/
theorem C11_msa_progressive {al : List Nat → List Nat → PTrace} {g : Nat} {seqs : List Row}
    (hin : ∀ s ∈ seqs, ∀ c ∈ s, c ≠ g) (tree : GTree) (hv : AllValid al g seqs tree)
    (hl : ∀ i ∈ tree.leaves, i < seqs.length) :
    ∃ rows w, progressive al g seqs tree = .ok (tree.leaves, rows) ∧ Inv g seqs w tree.leaves rows :=
  progressive_inv hin tree hv hl

/-- `align_multiple`: for every guide tree that contains every sequence exactly once and every `align_optimal`
that returns valid global traces, the result has `order` = the tree's leaf list (a permutation), the sequences
come back in **input order** (`argsort(order)` undoes the tree order), and row `k` of the trace visits positions
`0 … len(input k) − 1` of input `k` in order (one row per input; gap-stripped rows = inputs). -/
theorem C11_msa_invariant {al : List Nat → List Nat → PTrace} {g : Nat} {seqs : List Row} (tree : GTree)
    (hin : ∀ s ∈ seqs, ∀ c ∈ s, c ≠ g) (hv : AllValid al g seqs tree)
    (hperm : tree.leaves.Perm (List.range seqs.length)) :
    ∃ res, alignMultiple al g seqs tree = .ok (some res) ∧ res.order = tree.leaves ∧ res.seqs = seqs ∧
      All₂ (fun s row => row.filterMap id = List.range s.length) seqs res.rows :=
  msa_invariant tree hin hv hperm

/-- the **returned, re-ordered** alignment: `order` is a permutation of `0 … n−1`, the sequences are the inputs in input
order, and the trace is valid — `n` entries per column, every row strictly increasing (row `k` visits exactly
`0 … len(input k) − 1`), no column of gaps only (re-ordering the rows by `argsort(order)` only permutes them). -/
theorem C11_msa_final {al : List Nat → List Nat → PTrace} {g : Nat} {seqs : List Row} (tree : GTree)
    (hin : ∀ s ∈ seqs, ∀ c ∈ s, c ≠ g) (hv : AllValid al g seqs tree)
    (hperm : tree.leaves.Perm (List.range seqs.length)) :
    ∃ res, alignMultiple al g seqs tree = .ok (some res) ∧ res.order = tree.leaves ∧
      res.order.Perm (List.range seqs.length) ∧ res.seqs = seqs ∧ Valid seqs.length res.trace ∧
      ∀ k (hk : k < seqs.length), covered res.trace k = List.range seqs[k].length :=
  msa_final tree hin hv hperm

/-- What is required of `align_optimal`, precisely: for every inner node of the guide tree, the trace it returns for the two
representatives is `GlobalValid` for the widths of the two sub-alignments — each side visits `0 … w−1` in order and no
column is a double gap.  Nothing else about the aligner enters `C11_msa_invariant` / `C11_msa_final` (their other hypotheses
are about the inputs: no input contains the gap code, the tree's leaves are a permutation).  The driver's checker
`allValidB`, evaluated on the traces recorded from the real calls in every MSA case, *is* this hypothesis. -/
theorem C11_msa_allvalid_checked (al : List Nat → List Nat → PTrace) (g : Nat) (seqs : List Row) (tree : GTree) :
    (allValidB al g seqs tree = true ↔ AllValid al g seqs tree) ∧
    (∀ tr w1 w2, globalValidB tr w1 w2 = true ↔ GlobalValid tr w1 w2) :=
  ⟨allValidB_iff al g seqs tree, globalValidB_iff⟩

/-- The guide tree: whatever the aligner returns, `_progressive_align` reports the tree's leaf list as `order` with one row
per leaf; `as_binary` (applied to a supplied, possibly multifurcating tree) keeps the leaf list.  Hence the result contains
every sequence exactly once iff the supplied/constructed tree does. -/
theorem C11_tree_leaves (al : List Nat → List Nat → PTrace) (g : Nat) (seqs : List Row) :
    (∀ (tree : GTree) (o : List Nat) (rows : List Row), progressive al g seqs tree = .ok (o, rows) →
      o = tree.leaves ∧ rows.length = o.length) ∧
    (∀ (m : MTree) (b : GTree), asBinary m = some b → b.leaves = m.leaves) :=
  ⟨progressive_order al g seqs, asBinary_leaves⟩

/-- …and the tree is **not validated** (multiple.pyx, known findings `C11/msa/guide-tree-not-validated/*`): a tree lacking
sequence 2 is accepted and yields two rows for three inputs; a tree with leaf 1 twice yields a duplicated row. -/
theorem C11_msa_tree_not_validated_defect :
    (progressive exAl0 4 [[0, 1], [0, 1], [1, 1]] (.node (.leaf 0) (.leaf 1))).toOption.map (fun p => (p.1, p.2.length))
      = some ([0, 1], 2) ∧
    (progressive exAl0 4 [[0, 1], [0, 1], [1, 1]] (.node (.leaf 0) (.node (.leaf 1) (.leaf 1)))).toOption.map (fun p => p.1)
      = some [0, 1, 1] := by decide

/-- audit 6, known finding `C11/msa/gap-code-overflows-code-dtype` (multiple.pyx): `C11_msa_rows` needs the code that is
*written* for a gap to be the code that is *stripped* afterwards.  For an alphabet of exactly 256 symbols the gap code 256 is
stored in a uint8 array as `256 % 256 = 0` but compared as 256: the stored row keeps a spurious symbol 0 and no longer spells
the input (255 and 257 symbols are fine). -/
theorem C11_msa_gapcode_wrap_defect :
    replaceGaps (256 % 256) [some 0, none, some 1] [1, 2] = .ok [1, 0, 2] ∧ strip 256 [1, 0, 2] ≠ strip 256 [1, 2] := by decide

/-- The distance `−ln((S − S_rand)/(S_max − S_rand))` on the exact (integer-scaled) model: the code's outcome in the order of
its tests, and the formula has a value iff `S_max ≠ S_rand` and numerator and denominator have the same strict sign — for
`S ≤ S_max` iff `S > S_rand`; the code returns a distance exactly then (when `S ≥ S_rand`). -/
theorem C11_distance_defined (d : DistIn) :
    ((distOutcome d = .belowRandom ↔ d.num < 0) ∧ (distOutcome d = .zeroDivision ↔ 0 ≤ d.num ∧ d.den = 0) ∧
     (distOutcome d = .infinite ↔ d.num = 0 ∧ d.den ≠ 0) ∧ (distOutcome d = .notANumber ↔ 0 < d.num ∧ d.den < 0) ∧
     (distOutcome d = .negative ↔ 0 < d.den ∧ d.den < d.num) ∧ (distOutcome d = .finite ↔ 0 < d.num ∧ d.num ≤ d.den)) ∧
    (d.num ≤ d.den → (DistDefined d ↔ (0 < d.num ∨ d.den < 0)) ∧ (0 ≤ d.num → (DistDefined d ↔ distOutcome d = .finite))) :=
  ⟨distOutcome_spec d, distDefined_iff d⟩

/-- audit 6, the excluded region `S > S_max` (a matrix whose mismatches outscore matches): the distance would be negative or
not a number; `upgma` refuses exactly these ("Distances must be positive" / "must be symmetric" for nan) — never a tree. -/
theorem C11_distance_rejects_beyond_max (d : DistIn) (h : d.den < d.num) (h0 : 0 < d.num) :
    distOutcome d ≠ .finite ∧ (0 < d.den → distOutcome d = .negative) ∧ (d.den < 0 → distOutcome d = .notANumber) :=
  dist_rejects_beyond_max d h h0

/-- known finding `C11/msa/distances/ZeroDivisionError`: two identical homopolymers (`'A','A'` and `'AAAA','AAAA'` with the
standard nucleotide matrix, match 5) have `S = S_max = S_rand`: the ratio is 0/0. -/
theorem C11_distance_homopolymer_defect :
    distOutcome ⟨5, 5, 5, 5, 1, 0, 0, -10, -10⟩ = .zeroDivision ∧
    distOutcome ⟨20, 20, 20, 5 * 4 * 4, 4, 0, 0, -10, -10⟩ = .zeroDivision ∧
    ¬ DistDefined ⟨20, 20, 20, 5 * 4 * 4, 4, 0, 0, -10, -10⟩ := by
  refine ⟨by decide, by decide, ?_⟩
  intro h; exact absurd h.1 (by decide)

/-- known finding `C11/msa/distances/infinite-distance`: `'AAAA'` vs `'AAA'` (match 5, gap −10, one terminal gap): `S = 5 =
S_rand = 60/4 − 10` while `S_max = 17.5`: the argument of `ln` is 0. -/
theorem C11_distance_infinite_defect :
    distOutcome ⟨5, 20, 15, 5 * 4 * 3, 4, 1, 0, -10, -10⟩ = .infinite ∧
    ¬ DistDefined ⟨5, 20, 15, 5 * 4 * 3, 4, 1, 0, -10, -10⟩ := by
  refine ⟨by decide, ?_⟩
  rintro ⟨_, h | h⟩
  · exact absurd h.1 (by decide)
  · exact absurd h.1 (by decide)

example : distOutcome ⟨10, 20, 15, 5 * 4 * 3, 4, 1, 0, -10, -10⟩ = .finite := by decide
example : asBinary (.node [.leaf 0, .node [.leaf 1], .leaf 2, .leaf 3]) =
    some (.node (.node (.node (.leaf 0) (.leaf 1)) (.leaf 2)) (.leaf 3)) := by decide

-- non-vacuity: two sequences, one merge
example : GlobalValid [(some 0, some 0), (some 1, none), (some 2, some 1)] 3 2 := by
  refine ⟨by decide, by decide, ?_⟩
  intro c hc; simp at hc; rcases hc with rfl | rfl | rfl <;> simp
example : mergeGroups 4 [(some 0, some 0), (some 1, none), (some 2, some 1)] [[0, 1, 2]] [[0, 2]]
    = .ok [[0, 1, 2], [0, 4, 2]] := by decide
example : (GTree.node (.leaf 1) (.leaf 0)).leaves.Perm (List.range 2) := by decide

/-- a concrete aligner answer for the hypotheses of `C11_msa_invariant` / `C11_msa_final` -/
def exAl : List Nat → List Nat → PTrace := fun _ _ => [(some 0, some 0), (some 1, none), (some 2, some 1)]

example : AllValid exAl 4 [[0, 1, 2], [0, 2]] (.node (.leaf 0) (.leaf 1)) := by
  refine ⟨trivial, trivial, ?_⟩
  intro o1 r1 o2 r2 h1 h2
  simp [progressive] at h1 h2
  obtain ⟨rfl, rfl⟩ := h1
  obtain ⟨rfl, rfl⟩ := h2
  refine ⟨by decide, by decide, ?_⟩
  intro c hc
  simp [exAl] at hc
  rcases hc with rfl | rfl | rfl <;> simp

example : (alignMultiple exAl 4 [[0, 1, 2], [0, 2]] (.node (.leaf 0) (.leaf 1))).toOption.join.map (·.trace)
    = some [[some 0, some 0], [some 1, none], [some 2, some 1]] := by decide

end BiotiteModel.C11

import BiotiteModel.Proofs.C04
import BiotiteModel.Gen.C04
/-!
# C04 — property theorems (a structure survives a CIF / BinaryCIF write–read cycle)

Model level: tables of tokens (see `Model/C04.lean`).  The component dictionary is a parameter.
Helper lemmas are in `Proofs/C04.lean`.

Full-strength bond statement of the property (kept visible; **false** on the code, see
`C04_inter_type_defect`):

  for every well-formed `s` and every bond `(i, j, t)` of every `BondType` `t` and every placement,
  `(i, j, t) ∈ (read (write s)).bonds ↔ (i, j, t) ∈ s.bonds`.

What is proved instead: `C04_bonds_expressible_types` (the exact sets of types `struct_conn` /
`chem_comp_bond` can carry, computed from the regenerated tables) and
`C04_struct_conn_roundtrip_partial` (bonds written to `struct_conn` come back, for uniquely
identifiable atoms and expressible types).
-/
namespace BiotiteModel.C04

/-! ## Regenerated tables (Gen) agree with the tables of the model -/

/-- The dict literals / lists of `convert.py`, `filter.py`, `bonds.pyx` extracted on this run are
the tables the model computes with. -/
theorem C04_gen_tables :
    (∀ t ∈ List.range 12, Gen.C04.typeToTypeId.lookup t = interTypeId t) ∧
    (∀ t ∈ List.range 12, Gen.C04.typeToOrder.lookup t = interOrder t) ∧
    (∀ t ∈ List.range 12, Gen.C04.orderMasked.contains t = interOrderMasked t) ∧
    (∀ p ∈ Gen.C04.typeIdToType, typeIdToType p.1 = some p.2) ∧
    (∀ s ∈ ["covale", "metalc", "disulf", "hydrog", "mismat", "saltbr", "modres", "covale_base",
            "covale_sugar", "covale_phosphate", "modres_link", ""], Gen.C04.typeIdToType.lookup s = typeIdToType s) ∧
    (∀ p ∈ Gen.C04.orderToType, orderToType p.1 = some p.2) ∧ Gen.C04.orderToType.length = 4 ∧
    (∀ p ∈ Gen.C04.compOrderToType, compOrderToType p.1.1 p.1.2 = some p.2 ∧ compTypeToOrder p.2 = some p.1) ∧
    Gen.C04.compOrderToType.length = 8 ∧
    Gen.C04.canonicalResidues = canonicalResidues ∧
    Gen.C04.noAltloc = noAltloc ∧
    Gen.C04.bondTypes.lookup "ANY" = some btAny ∧ Gen.C04.bondTypes.lookup "SINGLE" = some btSingle ∧
    Gen.C04.bondTypes.lookup "COORDINATION" = some btCoordination ∧
    Gen.C04.bondTypes.lookup "AROMATIC" = some btAromatic ∧ Gen.C04.bondTypes.length = 10 := by
  decide

/-- Shape of the repaired source: `_filter_canonical_links` returns a pure `&`-chain whose
comparisons are parenthesised terms (the precedence defect would make the top node a comparison),
with the atom-name tuples the model uses; the altloc filters no longer test `isalpha()`; the link
classes are the ones the fixture dictionary is classified by. -/
theorem C04_gen_guards :
    Gen.C04.canonShape = "and-chain" ∧ Gen.C04.canonTerms = 8 ∧ Gen.C04.canonCompareTerms = 4 ∧
    Gen.C04.canonAtomNames = [["C", "O3'"], ["N", "P"]] ∧
    Gen.C04.altlocUsesIsalpha = false ∧
    Gen.C04.peptideLinks = ["PEPTIDE LINKING", "L-PEPTIDE LINKING", "D-PEPTIDE LINKING"] ∧
    Gen.C04.nucleicLinks = ["RNA LINKING", "DNA LINKING"] := by
  decide

/-! ## Which bond types survive -/

/-- The `struct_conn` row fields written for a bond of type `t`, read back by `connType`. -/
def interRoundtrip (t : Nat) : Option Nat :=
  match interTypeId t, interOrder t with
  | some tid, some ord =>
    connType ⟨1, tid, ⟨ord, if interOrderMasked t then .missing else .present⟩, ⟨"", "", 0, "", ""⟩, ⟨"", "", 0, "", ""⟩⟩
  | _, _ => none

/-- The `chem_comp_bond` cells written for a bond of type `t`, read back by `parseIntra`'s rule. -/
def intraRoundtrip (t : Nat) : Option Nat :=
  if t == btAny then some ((compOrderToType (upperAscii "?") "?").getD btAny)
  else (compTypeToOrder t).map fun p => (compOrderToType (upperAscii p.1) p.2).getD btAny

/-- **Exact sets of expressible bond types**, computed from the tables: `struct_conn` returns
SINGLE, DOUBLE, TRIPLE, QUADRUPLE and COORDINATION unchanged (and only those); `chem_comp_bond`
returns every type except COORDINATION (which `_filter_bonds` routes to `struct_conn`). -/
theorem C04_bonds_expressible_types :
    (List.range 10).filter (fun t => interRoundtrip t == some t) = [1, 2, 3, 4, 8] ∧
    (List.range 10).filter (fun t => intraRoundtrip t == some t) = [0, 1, 2, 3, 4, 5, 6, 7, 9] := by
  decide +kernel

/-- **Defect (negation of the full-strength bond statement; known findings).**  An inter-residue
bond of type ANY comes back SINGLE, the aromatic types lose the aromatic flag. -/
theorem C04_inter_type_defect :
    interRoundtrip 0 = some 1 ∧ interRoundtrip 5 = some 1 ∧ interRoundtrip 6 = some 2 ∧
    interRoundtrip 7 = some 3 ∧ interRoundtrip 9 = some 1 := by
  decide +kernel

/-! ## Atoms -/

/-- **Atom table round-trip.**  For every structure with at least one atom whose coordinate
lists have one entry per atom: the written `atom_site`, cut into models by `_filter_model`, has
one group per model, and reading group `k` returns all atoms in order with every annotation
(`charge` / `atom_id` exactly when the structure has them) and the coordinates of model `k`.
Covers empty insertion codes (masked), zero charges (masked), hetero flags and any number of models. -/
theorem C04_atoms_roundtrip (s : Structure) (hne : s.atoms ≠ [])
    (hc : ∀ c ∈ s.coords, c.length = s.atoms.length) :
    (splitModels (writeSite s)).length = s.coords.length ∧
    ∀ k (hk : k < s.coords.length), ∃ g, (splitModels (writeSite s))[k]? = some g ∧
      g.map (readRow s.hasCharge s.hasAtomId) = s.atoms.map (normAtom s.hasCharge s.hasAtomId) ∧
      g.map (·.xyz) = s.coords[k] := by
  have hrows : writeRows s ≠ [] := by
    intro h
    have := writeRows_length s
    rw [h] at this
    exact hne (List.length_eq_zero_iff.mp this.symm)
  have hcne : ∀ c ∈ s.coords, c ≠ [] := by
    intro c hcm h
    have := hc c hcm
    rw [h] at this
    exact hne (List.length_eq_zero_iff.mp this.symm)
  have hsplit : splitModels (writeSite s) = modelBlocks s.hasAtomId (writeRows s) 0 s.coords :=
    split_blocks _ (blocksOk_modelBlocks _ _ hrows _ hcne 0 [] (by simp))
  rw [hsplit]
  refine ⟨modelBlocks_length _ _ _ _, fun k hk => ?_⟩
  rw [modelBlocks_getElem?]
  simp only [List.getElem?_eq_getElem hk, Option.map_some]
  refine ⟨_, rfl, ?_⟩
  have hes : (entityIds (s.atoms.map (·.chain))).length = s.atoms.length := by
    simp [entityIds, entityIdsAux_length]
  exact read_modelBlock _ _ _ s.atoms _ _ _ hes (hc _ (List.getElem_mem hk))

/-- **Model selection is exact.**  For any table that consists of non-empty blocks with pairwise
different model numbers (in any order, not necessarily 1..m), `_filter_model` cuts it into exactly
these blocks: model `k` selects the rows of the k-th distinct model number and no others. -/
theorem C04_filter_model_exact (blocks : List (List SiteRow)) (h : BlocksOk [] blocks) :
    splitModels blocks.flatten = blocks :=
  split_blocks blocks h

/-! ## `struct_conn` matching -/

/-- **The two matching implementations agree on every input** (the dictionary variant is used
above `FIND_MATCHES_SWITCH_THRESHOLD`), and both return, per query row, the index of the *unique*
matching reference row, `-1` if there is none, and fail iff some query matches several rows. -/
theorem C04_find_matches_agree (queries refs : List Key) :
    findDense queries refs = findDict queries refs ∧
    findDict queries refs = queries.mapM (lookupOne refs) := by
  have h2 : findDict queries refs = queries.mapM (lookupOne refs) := by
    unfold findDict
    congr 1
    funext q
    exact dictLookup_eq refs q
  refine ⟨?_, h2⟩
  rw [h2, mapM_lookup]
  rfl

/-! ## Bonds -/

/-- **Bond partition.**  Every bond is in exactly one of: written to `chem_comp_bond`
(intra-residue, not a coordination bond), omitted as a canonical backbone link, written to
`struct_conn`; and `setInter` writes one row per bond of the third class. -/
theorem C04_bond_partition (atoms : List Atom) (bonds : List Bond) :
    (∀ b, (isIntra atoms b && !isDroppedLink atoms b && !isConnRow atoms b) ||
          (!isIntra atoms b && isDroppedLink atoms b && !isConnRow atoms b) ||
          (!isIntra atoms b && !isDroppedLink atoms b && isConnRow atoms b) = true) ∧
    (bonds.filter (isIntra atoms)).length + (bonds.filter (isDroppedLink atoms)).length +
      (bonds.filter (isConnRow atoms)).length = bonds.length := by
  have part : ∀ b, (isIntra atoms b && !isDroppedLink atoms b && !isConnRow atoms b) ||
          (!isIntra atoms b && isDroppedLink atoms b && !isConnRow atoms b) ||
          (!isIntra atoms b && !isDroppedLink atoms b && isConnRow atoms b) = true := by
    intro b
    unfold isIntra isDroppedLink isConnRow
    cases inStructConn (resPos atoms) b <;> cases isCanonicalLink atoms (resPos atoms) b <;> rfl
  refine ⟨part, ?_⟩
  induction bonds with
  | nil => rfl
  | cons b bs ih =>
    have hb := part b
    simp only [List.filter_cons]
    cases h1 : isIntra atoms b <;> cases h2 : isDroppedLink atoms b <;> cases h3 : isConnRow atoms b <;>
      simp [h1, h2, h3] at hb ⊢ <;> omega

/-- A dropped link is always a SINGLE bond inside one chain without a numbering gap — the
conditions under which `connect_via_residue_names` re-creates it (repaired code). -/
theorem C04_dropped_link_restorable (atoms : List Atom) (b : Bond) (h : isDroppedLink atoms b = true) :
    b.t = btSingle ∧ (atomAt atoms b.i).chain = (atomAt atoms b.j).chain ∧
    (atomAt atoms b.j).resId - (atomAt atoms b.i).resId ≤ 1 := by
  unfold isDroppedLink isCanonicalLink at h
  simp only [Bool.and_eq_true, beq_iff_eq, decide_eq_true_eq] at h
  exact ⟨h.2.1.1.2, h.2.1.2, h.2.2⟩

/-- **Bond round-trip through `struct_conn` (partial).**  For any single-model `atom_site` table whose
rows are uniquely identifiable by (label_asym_id, label_comp_id, label_seq_id, label_atom_id,
pdbx_PDB_ins_code) — after the reader's `?`→`.` normalisation — and any list of bonds between
existing atoms whose types are SINGLE, DOUBLE, TRIPLE, QUADRUPLE or COORDINATION: the writer
produces rows, and `_parse_inter_residue_bonds` on these rows returns exactly the `BondList` of the
written bonds (same atoms, same types).  *Partial*: the types ANY and AROMATIC* are excluded
(`C04_inter_type_defect`); the `chem_comp_bond` path and the re-creation of dropped backbone links
from the component dictionary are covered by the correspondence and the oracle, not by a theorem. -/
theorem C04_struct_conn_roundtrip_partial (site : List SiteRow) (bs : List Bond)
    (hnd : (site.map siteKey).Nodup)
    (hb : ∀ b ∈ bs, b.i < site.length ∧ b.j < site.length ∧ InterOk b.t) :
    ∃ rows, connRows 0 site bs = .ok rows ∧ parseInter site rows = .ok (normBonds bs) := by
  have hok : ∀ b ∈ bs, InterOk b.t := fun b h => (hb b h).2.2
  refine ⟨mkConnRows site 0 bs, connRows_eq site bs 0 hok, ?_⟩
  obtain ⟨k1, k2⟩ := keys_mk site bs 0 (fun b h => ⟨(hb b h).1, (hb b h).2.1⟩)
  have d1 := dense_nodup (site.map siteKey) hnd ⟨"", "", 0, "", ""⟩ (bs.map (·.i))
    (by intro i hi; obtain ⟨b, hbm, rfl⟩ := List.mem_map.mp hi; simpa using (hb b hbm).1)
  have d2 := dense_nodup (site.map siteKey) hnd ⟨"", "", 0, "", ""⟩ (bs.map (·.j))
    (by intro i hi; obtain ⟨b, hbm, rfl⟩ := List.mem_map.mp hi; simpa using (hb b hbm).2.1)
  simp only [List.map_map] at d1 d2
  simp only [Function.comp_def] at d1 d2
  have hp := pick_mk site bs 0 hok
  simp only [parseInter, filter_cov_mk site bs 0 hok, k1, k2, d1, d2, bind, Except.bind, pure, Except.pure, hp]

/-! ## Altloc -/

/-- **`first` policy is exact** (per residue): an atom is kept iff it has no altloc id or its id
is the first altloc id that occurs in the residue — whatever characters the ids consist of. -/
theorem C04_altloc_first_exact (alts : List String) :
    firstAltlocRes alts =
      alts.map (fun a => !hasAltloc a || (some a == (alts.filter hasAltloc).head?)) := by
  unfold firstAltlocRes
  cases h : alts.filter hasAltloc with
  | nil =>
    apply List.map_congr_left
    intro a ha
    have : hasAltloc a = false := by
      have := List.filter_eq_nil_iff.mp h a ha
      simpa using this
    simp [this]
  | cons f rest =>
    apply List.map_congr_left
    intro a _
    simp

/-- The writer marks every atom as having no altloc, so nothing is filtered after a round-trip. -/
theorem C04_altloc_written_all_kept (n : Nat) :
    firstAltlocRes (List.replicate n ".") = List.replicate n true := by
  rw [C04_altloc_first_exact]
  simp [hasAltloc, noAltloc]

/-! ## Non-vacuity -/

def exAtom (rid : Int) (ins name : String) (c : Int) : Atom := ⟨"A", rid, ins, "ALA", false, name, "C", c, 0, ["b"]⟩
def exS : Structure := ⟨[exAtom (-3) "" "N" 0, exAtom (-3) "" "CA" 1, exAtom (-3) "B" "N" (-1)], true, false,
  [["x0", "x1", "x2"], ["y0", "y1", "y2"]], none, none⟩

example : exS.atoms ≠ [] ∧ ∀ c ∈ exS.coords, c.length = exS.atoms.length := by decide
example : (splitModels (writeSite exS)).length = 2 ∧
    ((splitModels (writeSite exS))[1]?.map fun g => g.map (·.xyz)) = some ["y0", "y1", "y2"] := by decide
example : BlocksOk [] (modelBlocks false (writeRows exS) 0 exS.coords) :=
  blocksOk_modelBlocks _ _ (by decide) _ (by decide) 0 [] (by simp)
example : findDense [⟨"A", "ALA", 1, "C", "."⟩, ⟨"B", "ALA", 1, "C", "."⟩]
    [⟨"A", "ALA", 1, "N", "."⟩, ⟨"A", "ALA", 1, "C", "."⟩] = .ok [1, -1] := by decide
example : findDict [⟨"A", "ALA", 1, "C", "."⟩] [⟨"A", "ALA", 1, "C", "."⟩, ⟨"A", "ALA", 1, "C", "."⟩] =
    .error .invalidFile := by decide
def exSite : List SiteRow := (modelBlocks false (writeRows exS) 0 [["x0", "x1", "x2"]]).flatten
example : (exSite.map siteKey).Nodup ∧ ∀ b ∈ [(⟨0, 2, 2⟩ : Bond), ⟨1, 2, 8⟩], b.i < exSite.length ∧ b.j < exSite.length ∧ InterOk b.t := by
  decide +kernel
example : ∃ rows, connRows 0 exSite [⟨0, 2, 2⟩, ⟨1, 2, 8⟩] = .ok rows ∧ rows.length = 2 ∧
    parseInter exSite rows = .ok [⟨0, 2, 2⟩, ⟨1, 2, 8⟩] :=
  ⟨_, rfl, by decide +kernel, by decide +kernel⟩
example : firstAltlocRes [".", "1", "2", "1"] = [true, true, false, true] := by decide
example : isDroppedLink [exAtom 1 "" "C" 0, ⟨"A", 2, "", "GLY", false, "N", "N", 0, 0, []⟩] ⟨0, 1, 1⟩ = true ∧
    isDroppedLink [exAtom 1 "" "C" 0, ⟨"A", 2, "", "GLY", false, "N", "N", 0, 0, []⟩] ⟨0, 1, 2⟩ = false ∧
    isDroppedLink [exAtom 1 "" "C" 0, ⟨"B", 2, "", "GLY", false, "N", "N", 0, 0, []⟩] ⟨0, 1, 1⟩ = false := by decide

end BiotiteModel.C04

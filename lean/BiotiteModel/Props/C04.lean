import BiotiteModel.Proofs.C04
import BiotiteModel.Proofs.C04Mask
import BiotiteModel.Proofs.C04Altloc
import BiotiteModel.Gen.C04
import BiotiteModel.Proofs.C04Expected
/-!
# C04 — property theorems (a structure survives a CIF / BinaryCIF write–read cycle)

Model level: tables of tokens (see `Model/C04.lean`).  The component dictionary is a parameter.
Helper lemmas are in `Proofs/C04.lean`.

Full-strength bond statement of the property (kept visible; **false** on the code, see
`C04_inter_type_defect`):

  for every well-formed `s` and every bond `(i, j, t)` of every `BondType` `t` and every placement,
  `(i, j, t) ∈ (read (write s)).bonds ↔ (i, j, t) ∈ s.bonds`.

What is proved instead: `C04_bonds_expressible_types` (the exact sets of types `struct_conn` /
`chem_comp_bond` can carry, computed from the regenerated tables), the three paths
`C04_struct_conn_roundtrip_partial`, `C04_chem_comp_bond_roundtrip`, `C04_backbone_links_restored`
and their composition through `set_structure` / `get_structure`, `C04_bonds_roundtrip_partial`:
for a well-formed structure (`WFS`, expressible types) the whole typed bond set comes back.
-/
namespace BiotiteModel.C04

/-! ## Regenerated tables (Gen) agree with the tables of the model -/

/-- The dict literals / lists of `convert.py`, `filter.py`, `bonds.pyx` extracted on this run are
the tables the model computes with. -/
theorem C04_gen_tables :
    (∀ t ∈ List.range 12, Gen.C04.typeToTypeId.lookup t = interTypeId t) ∧
    (∀ t ∈ List.range 12, Gen.C04.typeToOrder.lookup t = interOrder t) ∧
    (∀ t ∈ List.range 12, Gen.C04.orderMasked.contains t = interOrderMasked t) ∧
    (∀ p ∈ Gen.C04.typeIdToType, typeIdToType p.1 = some p.2) ∧
    (∀ s ∈ ["covale", "metalc", "disulf", "hydrog", "mismat", "saltbr", "modres", "covale_base",
            "covale_sugar", "covale_phosphate", "modres_link", ""], Gen.C04.typeIdToType.lookup s = typeIdToType s) ∧
    (∀ p ∈ Gen.C04.orderToType, orderToType p.1 = some p.2) ∧ Gen.C04.orderToType.length = 4 ∧
    (∀ p ∈ Gen.C04.compOrderToType, compOrderToType p.1.1 p.1.2 = some p.2 ∧ compTypeToOrder p.2 = some p.1) ∧
    Gen.C04.compOrderToType.length = 8 ∧
    Gen.C04.canonicalAA = canonicalAA ∧ Gen.C04.canonicalNuc = canonicalNuc ∧
    Gen.C04.noAltloc = noAltloc ∧
    Gen.C04.bondTypes.lookup "ANY" = some btAny ∧ Gen.C04.bondTypes.lookup "SINGLE" = some btSingle ∧
    Gen.C04.bondTypes.lookup "COORDINATION" = some btCoordination ∧
    Gen.C04.bondTypes.lookup "AROMATIC" = some btAromatic ∧ Gen.C04.bondTypes.length = 10 := by
  decide

/-- Shape of the repaired source: `_filter_canonical_links` returns a pure `&`-chain whose
comparisons are parenthesised terms (the precedence defect would make the top node a comparison);
its first term is `is_peptide_link | is_nucleotide_link`, each an `&`-chain over one canonical list
and one atom pair (C–N for amino acids, O3'–P for nucleotides — no mixed pairs); the altloc filters no longer test `isalpha()`; the link
classes are the ones the fixture dictionary is classified by. -/
theorem C04_gen_guards :
    Gen.C04.canonShape = "and-chain" ∧ Gen.C04.canonTerms = 5 ∧ Gen.C04.canonCompareTerms = 4 ∧
    Gen.C04.canonKinds = [("aa", "C", "N"), ("nuc", "O3'", "P")] ∧
    Gen.C04.altlocUsesIsalpha = false ∧
    Gen.C04.peptideLinks = ["PEPTIDE LINKING", "L-PEPTIDE LINKING", "D-PEPTIDE LINKING"] ∧
    Gen.C04.nucleicLinks = ["RNA LINKING", "DNA LINKING"] := by
  decide

/-- **Regenerated = snapshot** (default argument values of `get_structure`, `set_structure`, `get_model_count`): every fact of this group extracted from the source on this run
equals the fact the model was written against (`Proofs/C04Expected.lean`). -/
theorem C04_gen_facts_defaults :
    ∀ k ∈ ["defaults.get_model_count", "defaults.get_structure", "defaults.set_structure"],
      Gen.C04.facts.lookup k = Expected.facts.lookup k ∧ (Gen.C04.facts.lookup k).isSome = true := by
  decide +kernel

/-- **Regenerated = snapshot** (exception classes raised by the public functions, the matchers, the writers, the altloc dispatcher and the non-empty check, in source order): every fact of this group extracted from the source on this run
equals the fact the model was written against (`Proofs/C04Expected.lean`). -/
theorem C04_gen_facts_raises :
    ∀ k ∈ ["raises.altloc", "raises.chem_comp_bond_writer", "raises.get_structure", "raises.matchers", "raises.non_empty_check", "raises.set_structure"],
      Gen.C04.facts.lookup k = Expected.facts.lookup k ∧ (Gen.C04.facts.lookup k).isSome = true := by
  decide +kernel

/-- **Regenerated = snapshot** (column names and their order, key columns of `struct_conn`, `1_555`, masks, `HETATM`/`ATOM`, charge format, reader defaults (`-1`, `''`, `0`), reserved names, `box[0]`, `upper`/`lower`): every fact of this group extracted from the source on this run
equals the fact the model was written against (`Proofs/C04Expected.lean`). -/
theorem C04_gen_facts_columns :
    ∀ k ∈ ["chem_comp_bond.order_case", "chem_comp_bond.read_columns", "columns.atom_site+cell", "columns.chem_comp_bond", "columns.struct_conn", "reader.as_array_args", "reader.consts", "set_structure.box_index", "set_structure.format_specs", "set_structure.name_lists", "set_structure.strings", "struct_conn.colname_consts", "struct_conn.matched_columns", "struct_conn.order_case", "struct_conn.read_columns", "struct_conn.written_key_columns"],
      Gen.C04.facts.lookup k = Expected.facts.lookup k ∧ (Gen.C04.facts.lookup k).isSome = true := by
  decide +kernel

/-- **Regenerated = snapshot** (comparison operators and constants of the guards: matcher threshold and `<=`, canonical link terms, bond split, model index checks, altloc options): every fact of this group extracted from the source on this run
equals the fact the model was written against (`Proofs/C04Expected.lean`). -/
theorem C04_gen_facts_guards :
    ∀ k ∈ ["altloc.options", "bond_split.ops", "canon.compare_terms", "canon.shape", "find.switch", "find.threshold", "get_structure.model_guards", "model_filter.calls", "model_filter.ops"],
      Gen.C04.facts.lookup k = Expected.facts.lookup k ∧ (Gen.C04.facts.lookup k).isSome = true := by
  decide +kernel

/-- **Regenerated = snapshot** (`filter_highest_occupancy_altloc` (strict `>`, start −1.0, `sorted(set())`) and `_connect_inter_residue` in bonds.pyx (`!=` chain, `> 1`, C/N, O3'/P, SINGLE)): every fact of this group extracted from the source on this run
equals the fact the model was written against (`Proofs/C04Expected.lean`). -/
theorem C04_gen_facts_filter_and_pyx :
    ∀ k ∈ ["filter.occupancy.id_order", "filter.occupancy.init", "filter.occupancy.ops", "pyx.link.atom_names", "pyx.link.bond_type", "pyx.link.chain_guard", "pyx.link.res_id_guard"],
      Gen.C04.facts.lookup k = Expected.facts.lookup k ∧ (Gen.C04.facts.lookup k).isSome = true := by
  decide +kernel

/-- No fact is extracted that the snapshot does not know, and none is missing. -/
theorem C04_gen_facts_keys : Gen.C04.facts.map (·.1) = Expected.facts.map (·.1) := by
  decide +kernel

/-! ## Which bond types survive -/

/-- The `struct_conn` row fields written for a bond of type `t`, read back by `connType`. -/
def interRoundtrip (t : Nat) : Option Nat :=
  match interTypeId t, interOrder t with
  | some tid, some ord =>
    connType ⟨1, tid, ⟨ord, if interOrderMasked t then .missing else .present⟩, ⟨"", "", 0, "", ""⟩, ⟨"", "", 0, "", ""⟩⟩
  | _, _ => none

/-- The `chem_comp_bond` cells written for a bond of type `t`, read back by `parseIntra`'s rule. -/
def intraRoundtrip (t : Nat) : Option Nat :=
  if t == btAny then some ((compOrderToType (upperAscii "?") "?").getD btAny)
  else (compTypeToOrder t).map fun p => (compOrderToType (upperAscii p.1) p.2).getD btAny

/-- **Exact sets of expressible bond types**, computed from the tables: `struct_conn` returns
SINGLE, DOUBLE, TRIPLE, QUADRUPLE and COORDINATION unchanged (and only those); `chem_comp_bond`
returns every type except COORDINATION (which `_filter_bonds` routes to `struct_conn`). -/
theorem C04_bonds_expressible_types :
    (List.range 10).filter (fun t => interRoundtrip t == some t) = [1, 2, 3, 4, 8] ∧
    (List.range 10).filter (fun t => intraRoundtrip t == some t) = [0, 1, 2, 3, 4, 5, 6, 7, 9] := by
  decide +kernel

/-- **Defect (negation of the full-strength bond statement; known findings).**  An inter-residue
bond of type ANY comes back SINGLE, the aromatic types lose the aromatic flag. -/
theorem C04_inter_type_defect :
    interRoundtrip 0 = some 1 ∧ interRoundtrip 5 = some 1 ∧ interRoundtrip 6 = some 2 ∧
    interRoundtrip 7 = some 3 ∧ interRoundtrip 9 = some 1 := by
  decide +kernel

/-! ## Atoms -/

/-- **Atom table round-trip.**  For every structure with at least one atom whose coordinate
lists have one entry per atom: the written `atom_site`, cut into models by `_filter_model`, has
one group per model, and reading group `k` returns all atoms in order with every annotation
(`charge` / `atom_id` exactly when the structure has them) and the coordinates of model `k`.
Covers empty insertion codes (masked), zero charges (masked), hetero flags and any number of models. -/
theorem C04_atoms_roundtrip (s : Structure) (hne : s.atoms ≠ [])
    (hc : ∀ c ∈ s.coords, c.length = s.atoms.length) :
    (splitModels (writeSite s)).length = s.coords.length ∧
    ∀ k (hk : k < s.coords.length), ∃ g, (splitModels (writeSite s))[k]? = some g ∧
      g.map (readRow s.hasCharge s.hasAtomId) = s.atoms.map (normAtom s.hasCharge s.hasAtomId) ∧
      g.map (·.xyz) = s.coords[k] := by
  have hrows : writeRows s ≠ [] := by
    intro h
    have := writeRows_length s
    rw [h] at this
    exact hne (List.length_eq_zero_iff.mp this.symm)
  have hcne : ∀ c ∈ s.coords, c ≠ [] := by
    intro c hcm h
    have := hc c hcm
    rw [h] at this
    exact hne (List.length_eq_zero_iff.mp this.symm)
  have hsplit : splitModels (writeSite s) = modelBlocks s.hasAtomId (writeRows s) 0 s.coords :=
    split_blocks _ (blocksOk_modelBlocks _ _ hrows _ hcne 0 [] (by simp))
  rw [hsplit]
  refine ⟨modelBlocks_length _ _ _ _, fun k hk => ?_⟩
  rw [modelBlocks_getElem?]
  simp only [List.getElem?_eq_getElem hk, Option.map_some]
  refine ⟨_, rfl, ?_⟩
  have hes : (entityIds (s.atoms.map (·.chain))).length = s.atoms.length := by
    simp [entityIds, entityIdsAux_length]
  exact read_modelBlock _ _ _ s.atoms _ _ _ hes (hc _ (List.getElem_mem hk))

/-- **Model selection is exact.**  For any table that consists of non-empty blocks with pairwise
different model numbers (in any order, not necessarily 1..m), `_filter_model` cuts it into exactly
these blocks: model `k` selects the rows of the k-th distinct model number and no others. -/
theorem C04_filter_model_exact (blocks : List (List SiteRow)) (h : BlocksOk [] blocks) :
    splitModels blocks.flatten = blocks :=
  split_blocks blocks h

/-! ## `struct_conn` matching -/

/-- **The two matching implementations agree on every input** (the dictionary variant is used
above `FIND_MATCHES_SWITCH_THRESHOLD`), and both return, per query row, the index of the *unique*
matching reference row, `-1` if there is none, and fail iff some query matches several rows. -/
theorem C04_find_matches_agree (queries refs : List Key) :
    findDense queries refs = findDict queries refs ∧
    findDict queries refs = queries.mapM (lookupOne refs) := by
  have h2 : findDict queries refs = queries.mapM (lookupOne refs) := by
    unfold findDict
    congr 1
    funext q
    exact dictLookup_eq refs q
  refine ⟨?_, h2⟩
  rw [h2, mapM_lookup]
  rfl

/-! ## Bonds -/

/-- **Bond partition.**  Every bond is in exactly one of: written to `chem_comp_bond`
(intra-residue, not a coordination bond), omitted as a canonical backbone link, written to
`struct_conn`; and `setInter` writes one row per bond of the third class. -/
theorem C04_bond_partition (atoms : List Atom) (bonds : List Bond) :
    (∀ b, (isIntra atoms b && !isDroppedLink atoms b && !isConnRow atoms b) ||
          (!isIntra atoms b && isDroppedLink atoms b && !isConnRow atoms b) ||
          (!isIntra atoms b && !isDroppedLink atoms b && isConnRow atoms b) = true) ∧
    (bonds.filter (isIntra atoms)).length + (bonds.filter (isDroppedLink atoms)).length +
      (bonds.filter (isConnRow atoms)).length = bonds.length := by
  have part : ∀ b, (isIntra atoms b && !isDroppedLink atoms b && !isConnRow atoms b) ||
          (!isIntra atoms b && isDroppedLink atoms b && !isConnRow atoms b) ||
          (!isIntra atoms b && !isDroppedLink atoms b && isConnRow atoms b) = true := by
    intro b
    unfold isIntra isDroppedLink isConnRow
    cases inStructConn (resPos atoms) b <;> cases isCanonicalLink atoms (resPos atoms) b <;> rfl
  refine ⟨part, ?_⟩
  induction bonds with
  | nil => rfl
  | cons b bs ih =>
    have hb := part b
    simp only [List.filter_cons]
    cases h1 : isIntra atoms b <;> cases h2 : isDroppedLink atoms b <;> cases h3 : isConnRow atoms b <;>
      simp [h1, h2, h3] at hb ⊢ <;> omega

/-- A dropped link is always a SINGLE bond inside one chain without a numbering gap — the
conditions under which `connect_via_residue_names` re-creates it (repaired code). -/
theorem C04_dropped_link_restorable (atoms : List Atom) (b : Bond) (h : isDroppedLink atoms b = true) :
    b.t = btSingle ∧ (atomAt atoms b.i).chain = (atomAt atoms b.j).chain ∧
    (atomAt atoms b.j).resId - (atomAt atoms b.i).resId ≤ 1 := by
  unfold isDroppedLink isCanonicalLink at h
  simp only [Bool.and_eq_true, beq_iff_eq, decide_eq_true_eq] at h
  exact ⟨h.2.1.1.2, h.2.1.2, h.2.2⟩

/-- **Bond round-trip through `struct_conn` (partial).**  For any single-model `atom_site` table whose
rows are uniquely identifiable by (label_asym_id, label_comp_id, label_seq_id, label_atom_id,
pdbx_PDB_ins_code) — after the reader's `?`→`.` normalisation — and any list of bonds between
existing atoms whose types are SINGLE, DOUBLE, TRIPLE, QUADRUPLE or COORDINATION: the writer
produces rows, and `_parse_inter_residue_bonds` on these rows returns exactly the `BondList` of the
written bonds (same atoms, same types).  *Partial*: the types ANY and AROMATIC* are excluded
(`C04_inter_type_defect`). -/
theorem C04_struct_conn_roundtrip_partial (site : List SiteRow) (bs : List Bond)
    (hnd : (site.map siteKey).Nodup)
    (hb : ∀ b ∈ bs, b.i < site.length ∧ b.j < site.length ∧ InterOk b.t) :
    ∃ rows, connRows 0 site bs = .ok rows ∧ parseInter site rows = .ok (normBonds bs) := by
  exact ⟨mkConnRows site 0 bs, connRows_eq site bs 0 (fun b h => (hb b h).2.2), parseInter_mk site bs hnd hb⟩


/-- **Bond round-trip through `chem_comp_bond`.**  For bonds `i < j < n` with unique pairs, non-empty
residue/atom names and **consistent components** (`Consistent`, decidable: a residue that contains
atoms named like the two atoms of an intra-residue bond of an equally named residue has the same
bond of the same type): `_set_intra_residue_bonds` writes rows, and `connect_via_residue_names`
with the dictionary parsed from these rows yields exactly the intra-residue bonds of the structure
— for every type `chem_comp_bond` can express (ANY, SINGLE…QUADRUPLE, AROMATIC_*, AROMATIC). -/
theorem C04_chem_comp_bond_roundtrip (atoms : List Atom) (bonds : List Bond)
    (hwf : ∀ b ∈ bonds, b.i < b.j ∧ b.j < atoms.length) (hu : UniquePairs bonds)
    (hty : ∀ b ∈ bonds, isIntra atoms b = true → IntraOk b.t)
    (hnames : ∀ a ∈ atoms, a.resName ≠ "" ∧ a.atomName ≠ "")
    (hcons : Consistent atoms bonds)
    (hne : ∃ b ∈ bonds, isIntra atoms b = true) :
    ∃ rows, setIntra atoms bonds = .ok (some rows) ∧
      ∀ b, b ∈ normBonds (connectIntra atoms (dictOf (parseIntra rows))) ↔
        (b ∈ bonds ∧ isIntra atoms b = true) :=
  chem_comp_bond_roundtrip atoms bonds hwf hu hty hnames hcons hne

/-- **Writer ⇔ reader on backbone links** (`_filter_canonical_links` vs `_connect_inter_residue`,
component dictionary as a parameter).
(1) Every bond the reader creates from the dictionary is a SINGLE bond between two consecutive
residues, and the writer omits exactly this bond from `struct_conn` iff its atoms are C–N of two
canonical amino acids or O3'–P of two canonical nucleotides (`canonKind`; a C–P bond between an amino
acid and a nucleotide is kept — repaired).
(2) A bond the writer omits is re-created by the reader iff the dictionary links the two residues
through exactly the two bonded atoms (C→N for two peptide-linking, O3'→P for two nucleotide-linking
components); atom names unique per residue.
On the unrepaired code (1) is false (links across a chain border / numbering gap were omitted). -/
theorem C04_backbone_links_restored (ccd : Ccd) (atoms : List Atom) (b : Bond) :
    (b ∈ connectInter ccd (residues atoms) →
      b.i < atoms.length ∧ b.j < atoms.length ∧ b.t = btSingle ∧ inStructConn (resPos atoms) b = true ∧
      isDroppedLink atoms b = canonKind (atomAt atoms b.i) (atomAt atoms b.j)) ∧
    (NamesUnique atoms → b.i < atoms.length → b.j < atoms.length → isDroppedLink atoms b = true →
      (b ∈ connectInter ccd (residues atoms) ↔
        linkNames ccd (atomAt atoms b.i).resName (atomAt atoms b.j).resName =
          some ((atomAt atoms b.i).atomName, (atomAt atoms b.j).atomName))) :=
  ⟨generated_link_class ccd atoms b, fun hu hi hj hd => dropped_link_restored ccd atoms hu b hi hj hd⟩

/-- **Whole-structure round-trip through `set_structure` and `get_structure` (partial).**  For every
well-formed structure (`WFS`: uniquely identifiable atoms, consistent components, expressible
types — `IntraOk` within residues, `InterOk` in `struct_conn` —, every backbone link the dictionary
implies is bonded, with any `struct_conn` type): `set_structure(include_bonds=True)` succeeds and on
the written block
* `get_structure(model=None)` returns the **stack**: the same atoms (all annotations), the coordinates
  of **every** model, the box token and a bond list with exactly the same typed bonds;
* `model=k+1` and `model=k−M` (negative index) return model `k` with the same atoms and bonds;
* `model=0`, `model>M`, `model<−M` raise `ValueError` (repaired: negative out-of-range indices).
*Partial* with respect to the property: inter-residue ANY / AROMATIC* are excluded
(`C04_inter_type_defect`). -/
theorem C04_stack_roundtrip (ccd : Ccd) (s : Structure) (bs : List Bond) (w : WFS ccd s bs) :
    ∃ blk bs', writeBlock s true = .ok blk ∧ (∀ b, b ∈ bs' ↔ b ∈ bs) ∧
      readStructure ccd blk ⟨none, .first, true, s.hasCharge, s.hasAtomId⟩ =
        .ok ⟨s.atoms, s.hasCharge, s.hasAtomId, s.coords, s.box, some bs'⟩ ∧
      (∀ (k : Nat) (hk : k < s.coords.length) (m : Int),
        (m = (k : Int) + 1 ∨ m = (k : Int) - (s.coords.length : Int)) →
        readStructure ccd blk ⟨some m, .first, true, s.hasCharge, s.hasAtomId⟩ =
          .ok ⟨s.atoms, s.hasCharge, s.hasAtomId, [s.coords[k]], s.box, some bs'⟩) ∧
      (∀ m : Int, (m = 0 ∨ m > (s.coords.length : Int) ∨ m < -(s.coords.length : Int)) →
        readStructure ccd blk ⟨some m, .first, true, s.hasCharge, s.hasAtomId⟩ = .error .valueError) :=
  stack_roundtrip ccd s bs w

/-- **Bond round-trip, composed (the `model=1` instance of `C04_stack_roundtrip`).** -/
theorem C04_bonds_roundtrip_partial (ccd : Ccd) (s : Structure) (bs : List Bond) (w : WFS ccd s bs) :
    ∃ blk bs' c0, s.coords.head? = some c0 ∧ writeBlock s true = .ok blk ∧
      readStructure ccd blk ⟨some 1, .first, true, s.hasCharge, s.hasAtomId⟩ =
        .ok ⟨s.atoms, s.hasCharge, s.hasAtomId, [c0], s.box, some bs'⟩ ∧
      ∀ b, b ∈ bs' ↔ b ∈ bs := by
  obtain ⟨blk, bs', hw, hmem, _, hk, _⟩ := stack_roundtrip ccd s bs w
  have hpos : 0 < s.coords.length := by
    cases h : s.coords with
    | nil => exact absurd h w.coords_ne
    | cons _ _ => simp
  refine ⟨blk, bs', s.coords[0], by simp [List.head?_eq_getElem?, List.getElem?_eq_getElem hpos], hw, ?_, hmem⟩
  exact hk 0 hpos 1 (Or.inl (by simp))

/-- **Unequal model lengths and interleaved models are rejected** by `get_structure(model=None)`:
whenever some group has another length than the first model — also when the total happens to fit
(2, 1 and 3 atoms; accepted as 3 × 2 by the unrepaired check) — or a group between two first
occurrences contains rows of another model (1, 1, 2, 1; accepted as 2 × 2 before the repair). -/
theorem C04_unequal_models_rejected (ccd : Ccd) (b : Block) (o : ReadOpts) (hom : o.model = none)
    (h : (∃ g ∈ splitModels b.site, g.length ≠ (selectModel b.site 0).length) ∨
         (∃ g ∈ splitModels b.site, ∃ r ∈ g, some r.model ≠ g.head?.map (·.model))) :
    readStructure ccd b o = .error .invalidFile :=
  readStructure_unequal ccd b o hom h

/-- **A model is the set of rows with its number** (repaired `_filter_model`): on a table made of
blocks the k-th model is the k-th block, and on *any* table — also with interleaved models — the
selected rows are exactly the rows that carry the k-th model number (in order of first appearance). -/
theorem C04_select_model_exact (site : List SiteRow) (k : Nat) :
    (∀ r, r ∈ selectModel site k ↔ r ∈ site ∧ (modelNumbers site)[k]? = some r.model) ∧
    (∀ (bs : List (List SiteRow)), BlocksOk [] bs → ∀ g, bs[k]? = some g → selectModel bs.flatten k = g) := by
  constructor
  · intro r
    unfold selectModel
    cases h : (modelNumbers site)[k]? with
    | none => simp
    | some v =>
      simp only [List.mem_filter, beq_iff_eq, Option.some.injEq]
      constructor
      · rintro ⟨h1, h2⟩; exact ⟨h1, h2.symm⟩
      · rintro ⟨h1, h2⟩; exact ⟨h1, h2.symm⟩
  · intro bs hok g hg
    exact select_blocks bs hok k g hg

/-- `model_count` (`len(np.unique(models))`) is the number of groups `_filter_model` cuts, for every table. -/
theorem C04_model_count_eq_groups (site : List SiteRow) :
    distinctCount (site.map (·.model)) = (splitModels site).length :=
  distinct_eq_groups site

/-- **A dictionary-implied backbone link of another type than SINGLE** is not omitted by the writer
(it is a `struct_conn` row with its order), while the reader still creates the implicit SINGLE link;
`merge` lets the `struct_conn` list take precedence: in `BondList(A ++ B)` a bond of `B` whose atom
pair already occurs in `A` is dropped, everything else is kept (this is the order seeded change
C04-4 flipped).  `C04_stack_roundtrip` uses both facts: the written type comes back. -/
theorem C04_nonsingle_link_and_merge_precedence :
    (∀ (ccd : Ccd) (atoms : List Atom) (b : Bond) (t : Nat), b ∈ connectInter ccd (residues atoms) → t ≠ btSingle →
      isConnRow atoms ⟨b.i, b.j, t⟩ = true) ∧
    (∀ (bonds A B : List Bond), UniquePairs bonds → (∀ b ∈ bonds, b.i < b.j) → (∀ x ∈ A, x ∈ bonds) →
      (∀ x ∈ B, x ∈ bonds ∨ ∃ a ∈ A, pairOf a = pairOf x) →
      ∀ y, y ∈ mergeBonds B A ↔ y ∈ A ∨ (y ∈ B ∧ y ∈ bonds)) := by
  constructor
  · intro ccd atoms b t hb ht
    obtain ⟨_, _, hbt, hin, _⟩ := generated_link_class ccd atoms b hb
    have hz : inStructConn (resPos atoms) ⟨b.i, b.j, t⟩ = true := inStructConn_pair _ b _ rfl rfl hin hbt
    have hnc : isCanonicalLink atoms (resPos atoms) ⟨b.i, b.j, t⟩ = false := by
      unfold isCanonicalLink
      have : (t == btSingle) = false := by simpa using ht
      simp [this]
    simp [isConnRow, hz, hnc]
  · intro bonds A B hu hlt hA hB y
    exact mem_normBonds_shadow bonds A B hu hlt hA hB y

/-- **text ≙ binary ≙ compressed, at table level.**  `set_structure` is one function for the three
writers: they all serialise the block `writeBlock s`.  *Assumed* about the layers below this model:
C06 (`CIFFile`: deserialize ∘ serialize is the identity on every category table), C05
(`BinaryCIFFile` encodings and `compress`: decode ∘ encode is the identity on string/integer
columns and on float columns up to the stated tolerance, which this token model does not see).
Under that assumption (`hL`) reading through any two layers gives the same structure, and for a
well-formed structure all of them return the structure that was written. -/
theorem C04_formats_agree (ccd : Ccd) (blk : Block) (o : ReadOpts) (text binary compressed : Block → Block)
    (hL : ∀ b, text b = b ∧ binary b = b ∧ compressed b = b) :
    readStructure ccd (text blk) o = readStructure ccd (binary blk) o ∧
    readStructure ccd (binary blk) o = readStructure ccd (compressed blk) o ∧
    readStructure ccd (text blk) o = readStructure ccd blk o := by
  rw [(hL blk).1, (hL blk).2.1, (hL blk).2.2]
  exact ⟨rfl, rfl, rfl⟩

/-- **`chem_comp_bond` de-duplication is by the name *triple*.**  `np.unique(axis=0)` over the columns
(res_name, atom_1, atom_2): every row's triple is represented, exactly once, and a kept row is a
written row — so two bonds whose names merely *concatenate* to the same string (ligand atoms C, C1,
1H, 11H with bonds C–11H and C1–1H; components XY:Z1–Q and X:YZ1–Q) both stay (witness below).
A separator-free concatenated key (seeded change C04-13) violates this. -/
theorem C04_ccb_unique_by_triple (rows : List CompBondRow) :
    ((uniqueRowsAux [] rows).map rowKey).Nodup ∧
    (∀ x ∈ uniqueRowsAux [] rows, x ∈ rows) ∧
    (∀ x ∈ rows, ∃ y ∈ uniqueRowsAux [] rows, rowKey y = rowKey x) ∧
    uniqueRowsAux [] [⟨"LIG", "C", "11H", ⟨"SING", .present⟩, ⟨"N", .present⟩⟩,
        ⟨"LIG", "C1", "1H", ⟨"DOUB", .present⟩, ⟨"N", .present⟩⟩] =
      [⟨"LIG", "C", "11H", ⟨"SING", .present⟩, ⟨"N", .present⟩⟩, ⟨"LIG", "C1", "1H", ⟨"DOUB", .present⟩, ⟨"N", .present⟩⟩] :=
  ⟨uniqueRows_nodup rows [], fun x hx => (uniqueRows_sub rows [] x hx).1,
   fun x hx => uniqueRows_covers rows [] x hx (by simp), by decide⟩

/-- **A reused block does not leak the previous structure; a refused structure changes nothing.**
Writing a structure that has a `BondList` into a block that already holds another structure gives
exactly the block a fresh file would get (no stale `struct_conn` / `chem_comp_bond` / `cell`); without
a `BondList` only the bond categories of the old block survive, `atom_site` and `cell` are the new
ones; and when `set_structure` raises, no new block is produced at all (the file keeps the old one). -/
theorem C04_reused_block (old : Block) (s : Structure) (incl : Bool) :
    (s.bonds ≠ none → writeInto old s incl = writeBlock s incl) ∧
    (∀ b, writeBlock s incl = .ok b → ∃ b', writeInto old s incl = .ok b' ∧ b'.site = b.site ∧ b'.cell = b.cell) ∧
    (∀ e, writeBlock s incl = .error e → writeInto old s incl = .error e) := by
  refine ⟨?_, ?_, ?_⟩
  · intro h
    unfold writeInto
    cases hb : s.bonds with
    | none => exact absurd hb h
    | some bs =>
      cases hw : writeBlock s incl <;> simp [bind, Except.bind, pure, Except.pure]
  · intro b hw
    unfold writeInto
    rw [hw]
    cases s.bonds <;> exact ⟨_, rfl, rfl, rfl⟩
  · intro e hw
    unfold writeInto
    rw [hw]; rfl

def exCcd : Ccd := ⟨fun n => if n == "ALA" || n == "GLY" then .peptide else .other, fun _ => []⟩

/-! ## Refusals (the regions the round-trip theorems exclude, where the code refuses) -/

/-- **An empty structure is refused**: no atoms or no models → `BadStructureError`, nothing is written. -/
theorem C04_empty_rejects (s : Structure) (incl : Bool) (h : s.atoms = [] ∨ s.coords = []) :
    writeBlock s incl = .error .badStructure := by
  unfold writeBlock
  have : (s.atoms.isEmpty || s.coords.isEmpty) = true := by
    rcases h with h | h <;> simp [h]
  simp [this, bind, Except.bind, throw, throwThe, MonadExceptOf.throw]

/-- **Empty residue or atom names are refused when bonds are written** (`chem_comp_bond` is keyed by
names): `BadStructureError`. -/
theorem C04_empty_name_rejects (atoms : List Atom) (bonds : List Bond)
    (h : ∃ a ∈ atoms, a.resName = "" ∨ a.atomName = "") :
    setIntra atoms bonds = .error .badStructure := by
  obtain ⟨a, ha, hn⟩ := h
  have : (atoms.any (fun a => a.resName == "") || atoms.any (fun a => a.atomName == "")) = true := by
    rw [Bool.or_eq_true, List.any_eq_true, List.any_eq_true]
    rcases hn with hn | hn
    · left; exact ⟨a, ha, by simp [hn]⟩
    · right; exact ⟨a, ha, by simp [hn]⟩
  simp [setIntra, this]

/-- **A `struct_conn` partner that matches several atoms is refused**: if the key of a partner of some
covalent row occurs at two or more rows of `atom_site` (an atom that is not uniquely identifiable),
`_parse_inter_residue_bonds` raises `InvalidFileError` — it never picks one of them. -/
theorem C04_ambiguous_partner_rejects (site : List SiteRow) (conn : List ConnRow)
    (h : ∃ r ∈ conn, (typeIdToType r.typeId).isSome = true ∧
      (2 ≤ (idxsFrom (normKey r.p1) 0 (site.map siteKey)).length ∨
       2 ≤ (idxsFrom (normKey r.p2) 0 (site.map siteKey)).length)) :
    parseInter site conn = .error .invalidFile := by
  obtain ⟨r, hr, hcov, hamb⟩ := h
  have hrc : r ∈ conn.filter (fun r => (typeIdToType r.typeId).isSome) := List.mem_filter.mpr ⟨hr, hcov⟩
  have herr : ∀ qs, findDense qs (site.map siteKey) = .error .invalidFile ∨ ∃ xs, findDense qs (site.map siteKey) = .ok xs := by
    intro qs; unfold findDense; split
    · left; rfl
    · right; exact ⟨_, rfl⟩
  have hbad : ∀ (f : ConnRow → Key), 2 ≤ (idxsFrom (f r) 0 (site.map siteKey)).length →
      findDense ((conn.filter (fun r => (typeIdToType r.typeId).isSome)).map f) (site.map siteKey) = .error .invalidFile := by
    intro f h2
    unfold findDense
    have : ((conn.filter (fun r => (typeIdToType r.typeId).isSome)).map f).any
        (fun q => decide ((idxsFrom q 0 (site.map siteKey)).length > 1)) = true := by
      rw [List.any_eq_true]
      exact ⟨f r, List.mem_map.mpr ⟨r, hrc, rfl⟩, by simp; omega⟩
    simp [this]
  unfold parseInter
  simp only [bind, Except.bind]
  rcases hamb with h1 | h2
  · rw [hbad (fun r => normKey r.p1) h1]
  · rcases herr ((conn.filter (fun r => (typeIdToType r.typeId).isSome)).map fun r => normKey r.p1) with e | ⟨xs, e⟩
    · rw [e]
    · rw [e]; simp only []; rw [hbad (fun r => normKey r.p2) h2]

/-- **A model index outside 1…M / −M…−1 is refused** (`ValueError`) for every table (repaired for
negative indices). -/
theorem C04_model_out_of_range_rejects (ccd : Ccd) (b : Block) (o : ReadOpts) (m : Int) (hom : o.model = some m)
    (h : m = 0 ∨ normModel (distinctCount (b.site.map (·.model))) m > (distinctCount (b.site.map (·.model)) : Int) ∨
      normModel (distinctCount (b.site.map (·.model))) m < 1) :
    readStructure ccd b o = .error .valueError :=
  readStructure_model_rejected ccd b o m hom h

/-! ## Defects outside the hypotheses of `C04_stack_roundtrip` (known findings, format limits) -/

def ligAtom (rid : Int) (name : String) : Atom := ⟨"A", rid, "", "LG1", true, name, "C", 0, 0, []⟩
def writeRead (ccd : Ccd) (s : Structure) : Except Err (Option (List Bond)) :=
  (writeBlock s true).bind fun blk => (readStructure ccd blk ⟨some 1, .first, true, false, false⟩).map (·.bonds)

/-- **Inconsistent components (negation of the bond round-trip without `WFS.consistent`).**  Two
residues of one component, the bond X1=X2 present only in the first: `chem_comp_bond` describes the
*component*, so the second residue comes back with the bond too. -/
theorem C04_inconsistent_components_defect :
    writeRead exCcd ⟨[ligAtom 1 "X1", ligAtom 1 "X2", ligAtom 2 "X1", ligAtom 2 "X2"], false, false,
      [["a", "b", "c", "d"]], none, some [⟨0, 1, 2⟩]⟩ = .ok (some [⟨0, 1, 2⟩, ⟨2, 3, 2⟩]) := by
  decide +kernel

/-- **No bond for `chem_comp_bond` → dictionary fallback (negation without `WFS.noFallback`).**  A structure
with a `BondList` that has no intra-residue bond is written without `chem_comp_bond`; the reader then
takes the bonds of the component dictionary: an ALA written with an empty bond list comes back bonded. -/
theorem C04_dictionary_fallback_defect :
    writeRead ⟨fun _ => .other, fun n => if n == "ALA" then [(("N", "CA"), 1)] else []⟩
      ⟨[⟨"A", 1, "", "ALA", false, "N", "N", 0, 0, []⟩, ⟨"A", 1, "", "ALA", false, "CA", "C", 0, 0, []⟩], false, false,
       [["a", "b"]], none, some []⟩ = .ok (some [⟨0, 1, 1⟩]) := by
  decide +kernel

/-- **An implied backbone link is always created (negation without `WFS.linksPaired`).**  Two consecutive
peptide-linking residues without a C–N bond in the structure come back with one. -/
theorem C04_implied_link_invented_defect :
    writeRead exCcd ⟨[⟨"A", 1, "", "ALA", false, "C", "C", 0, 0, []⟩, ⟨"A", 2, "", "GLY", false, "N", "N", 0, 0, []⟩], false, false,
      [["a", "b"]], none, some []⟩ = .ok (some [⟨0, 1, 1⟩]) := by
  decide +kernel

/-! ## Altloc -/

/-- **`first` policy is exact** (per residue): an atom is kept iff it has no altloc id or its id
is the first altloc id that occurs in the residue — whatever characters the ids consist of. -/
theorem C04_altloc_first_exact (alts : List String) :
    firstAltlocRes alts =
      alts.map (fun a => !hasAltloc a || (some a == (alts.filter hasAltloc).head?)) := by
  unfold firstAltlocRes
  cases h : alts.filter hasAltloc with
  | nil =>
    apply List.map_congr_left
    intro a ha
    have : hasAltloc a = false := by
      have := List.filter_eq_nil_iff.mp h a ha
      simpa using this
    simp [this]
  | cons f rest =>
    apply List.map_congr_left
    intro a _
    simp

/-- **`occupancy` policy is exact** (per residue): an atom is kept iff it has no altloc id or its id
is the selected one; no id is selected iff the residue has no altloc id; the selected id `b` is the
**first** id in `sorted(set(ids))` (ascending, i.e. the smallest on ties) whose occupancy sum is
**maximal**: all ids before it have a strictly smaller sum, all ids after it a smaller or equal one. -/
theorem C04_altloc_occupancy_exact (alts : List String) (occ : List Nat) :
    occAltlocRes alts occ = alts.map (fun a => !hasAltloc a || (some a == bestAltloc alts occ)) ∧
    (bestAltloc alts occ = none ↔ ∀ a ∈ alts, hasAltloc a = false) ∧
    (∀ b, bestAltloc alts occ = some b → ∃ pre post, altIds alts = pre ++ b :: post ∧
      (∀ x ∈ pre, occSum alts occ x < occSum alts occ b) ∧ (∀ x ∈ post, occSum alts occ x ≤ occSum alts occ b)) ∧
    (altIds alts).Pairwise (fun a b => a ≤ b) ∧ (∀ x, x ∈ altIds alts ↔ x ∈ alts ∧ hasAltloc x = true) := by
  refine ⟨?_, ?_, ?_, altIds_sorted alts, mem_altIds alts⟩
  · unfold occAltlocRes
    cases h : bestAltloc alts occ with
    | none =>
      apply List.map_congr_left
      intro a _; simp
    | some b =>
      apply List.map_congr_left
      intro a _; simp
  · rw [bestAltloc_eq]
    rcases argfold_spec (occSum alts occ) (altIds alts) with ⟨hnil, hnone⟩ | ⟨b, pre, post, hb, hl, _, _⟩
    · constructor
      · intro _ a ha
        cases hh : hasAltloc a with
        | false => rfl
        | true =>
          have : a ∈ altIds alts := (mem_altIds alts a).mpr ⟨ha, hh⟩
          rw [hnil] at this; simp at this
      · intro _; exact hnone
    · constructor
      · intro h; rw [hb] at h; exact absurd h (by simp)
      · intro h
        have : b ∈ altIds alts := by rw [hl]; simp
        have := ((mem_altIds alts b).mp this)
        rw [h b this.1] at this
        exact absurd this.2 (by simp)
  · intro b hb
    rw [bestAltloc_eq] at hb
    rcases argfold_spec (occSum alts occ) (altIds alts) with ⟨_, hnone⟩ | ⟨b', pre, post, hb', hl, h1, h2⟩
    · rw [hnone] at hb; exact absurd hb (by simp)
    · rw [hb'] at hb
      have : b' = b := by simpa using hb
      subst this
      exact ⟨pre, post, hl, h1, h2⟩

/-- The writer marks every atom as having no altloc, so nothing is filtered after a round-trip. -/
theorem C04_altloc_written_all_kept (n : Nat) :
    firstAltlocRes (List.replicate n ".") = List.replicate n true := by
  rw [C04_altloc_first_exact]
  simp [hasAltloc, noAltloc]

/-- **Altloc filtering and bonds are consistent** (`array[..., mask]` after `_filter_altloc`, any
policy, any mask of the right length): (1) the bond list after filtering consists exactly of the bonds
whose two atoms are both kept, with the same type and both indices replaced by the rank among the
kept atoms; (2) a kept atom is found at that new index in the filtered atom list, so every remapped
bond joins the same two atoms as before; (3) the renumbering is strictly increasing on kept atoms —
different kept atoms never collapse, bonds are not merged. -/
theorem C04_altloc_bonds_consistent (mask : List Bool) (atoms : List Atom) (bs : List Bond)
    (hl : mask.length = atoms.length) :
    (∀ y, y ∈ filterBondsByMask mask bs ↔
      ∃ b ∈ bs, mask.getD b.i false = true ∧ mask.getD b.j false = true ∧
        y = ⟨newIndex mask b.i, newIndex mask b.j, b.t⟩) ∧
    (∀ i, mask.getD i false = true → (applyMask mask atoms)[newIndex mask i]? = atoms[i]?) ∧
    (∀ i j, i < j → mask.getD i false = true → newIndex mask i < newIndex mask j) :=
  ⟨mem_filterBondsByMask mask bs,
   fun i hi => applyMask_newIndex mask atoms i hl ((getD_true_iff mask i).mp hi),
   fun i j hij hi => newIndex_lt mask i j hij ((getD_true_iff mask i).mp hi)⟩

/-! ## Box -/

/-- **The box.**  `set_structure` writes one `cell` category, computed from the box of the **first**
model (`writeCell`; at token level the six `unitcell_from_vectors` fields are one token), and
`get_structure(model=None)` repeats the box of the file for every model.  Hence the boxes of a stack
round-trip **iff** all models have the first model's box; an `AtomArray` (one model) always does.
Per-model differing boxes are *not* preserved (known finding `C04/box/per-model-boxes-collapsed`:
a PDBx data block has exactly one `cell` category). -/
theorem C04_box_first_model_only (b : Tok) (rest : List Tok) :
    writeCell (some (b :: rest)) = some b ∧ writeCell none = none ∧
    (readBoxes (writeCell (some (b :: rest))) (rest.length + 1) = some (b :: rest) ↔ ∀ x ∈ rest, x = b) ∧
    readBoxes (writeCell (some ["p", "q"])) 2 = some ["p", "p"] := by
  refine ⟨rfl, rfl, ?_, by decide⟩
  simp only [writeCell, List.head?_cons, readBoxes, Option.map_some, Option.some.injEq, List.replicate_succ,
    List.cons.injEq, true_and]
  constructor
  · intro h x hx
    rw [← h] at hx
    exact (List.mem_replicate.mp hx).2
  · intro h
    exact (List.eq_replicate_iff.mpr ⟨rfl, h⟩).symm

/-! ## Non-vacuity -/

def exAtom (rid : Int) (ins name : String) (c : Int) : Atom := ⟨"A", rid, ins, "ALA", false, name, "C", c, 0, ["b"]⟩
def exS : Structure := ⟨[exAtom (-3) "" "N" 0, exAtom (-3) "" "CA" 1, exAtom (-3) "B" "N" (-1)], true, false,
  [["x0", "x1", "x2"], ["y0", "y1", "y2"]], none, none⟩

example : exS.atoms ≠ [] ∧ ∀ c ∈ exS.coords, c.length = exS.atoms.length := by decide
example : (splitModels (writeSite exS)).length = 2 ∧
    ((splitModels (writeSite exS))[1]?.map fun g => g.map (·.xyz)) = some ["y0", "y1", "y2"] := by decide
example : BlocksOk [] (modelBlocks false (writeRows exS) 0 exS.coords) :=
  blocksOk_modelBlocks _ _ (by decide) _ (by decide) 0 [] (by simp)
example : findDense [⟨"A", "ALA", 1, "C", "."⟩, ⟨"B", "ALA", 1, "C", "."⟩]
    [⟨"A", "ALA", 1, "N", "."⟩, ⟨"A", "ALA", 1, "C", "."⟩] = .ok [1, -1] := by decide
example : findDict [⟨"A", "ALA", 1, "C", "."⟩] [⟨"A", "ALA", 1, "C", "."⟩, ⟨"A", "ALA", 1, "C", "."⟩] =
    .error .invalidFile := by decide
def exSite : List SiteRow := (modelBlocks false (writeRows exS) 0 [["x0", "x1", "x2"]]).flatten
example : (exSite.map siteKey).Nodup ∧ ∀ b ∈ [(⟨0, 2, 2⟩ : Bond), ⟨1, 2, 8⟩], b.i < exSite.length ∧ b.j < exSite.length ∧ InterOk b.t := by
  decide +kernel
example : ∃ rows, connRows 0 exSite [⟨0, 2, 2⟩, ⟨1, 2, 8⟩] = .ok rows ∧ rows.length = 2 ∧
    parseInter exSite rows = .ok [⟨0, 2, 2⟩, ⟨1, 2, 8⟩] :=
  ⟨_, rfl, by decide +kernel, by decide +kernel⟩
example : firstAltlocRes [".", "1", "2", "1"] = [true, true, false, true] := by decide
example : isDroppedLink [exAtom 1 "" "C" 0, ⟨"A", 2, "", "GLY", false, "N", "N", 0, 0, []⟩] ⟨0, 1, 1⟩ = true ∧
    isDroppedLink [exAtom 1 "" "C" 0, ⟨"A", 2, "", "GLY", false, "N", "N", 0, 0, []⟩] ⟨0, 1, 2⟩ = false ∧
    isDroppedLink [exAtom 1 "" "C" 0, ⟨"B", 2, "", "GLY", false, "N", "N", 0, 0, []⟩] ⟨0, 1, 1⟩ = false := by decide

/-! ### non-vacuity of the bond theorems: a concrete well-formed structure -/

def exAtoms : List Atom :=
  [⟨"A", 1, "", "ALA", false, "N", "N", 0, 0, []⟩, ⟨"A", 1, "", "ALA", false, "CA", "C", 0, 0, []⟩,
   ⟨"A", 1, "", "ALA", false, "C", "C", 0, 0, []⟩, ⟨"A", 2, "", "GLY", false, "N", "N", 0, 0, []⟩,
   ⟨"A", 2, "", "GLY", false, "CA", "C", 0, 0, []⟩, ⟨"A", 3, "", "LG1", true, "C1", "C", 0, 0, []⟩,
   ⟨"A", 3, "", "LG1", true, "C2", "C", 0, 0, []⟩]
/-- intra-residue bonds (incl. AROMATIC), the C→N backbone link, a TRIPLE and a COORDINATION bond
between residues -/
def exBonds : List Bond := [⟨0, 1, 1⟩, ⟨1, 2, 2⟩, ⟨3, 4, 1⟩, ⟨2, 3, 1⟩, ⟨5, 6, 9⟩, ⟨2, 5, 3⟩, ⟨1, 6, 8⟩]
def exW : Structure := ⟨exAtoms, false, false, [["a", "b", "c", "d", "e", "f", "g"]], some "box", some exBonds⟩

instance (atoms : List Atom) : Decidable (NamesUnique atoms) := by unfold NamesUnique; infer_instance
instance (bonds : List Bond) : Decidable (UniquePairs bonds) := by unfold UniquePairs; infer_instance

example : Consistent exAtoms exBonds ∧ (∃ b ∈ exBonds, isIntra exAtoms b = true) ∧
    exBonds.filter (isDroppedLink exAtoms) = [⟨2, 3, 1⟩] ∧
    exBonds.filter (isConnRow exAtoms) = [⟨2, 5, 3⟩, ⟨1, 6, 8⟩] ∧
    connectInter exCcd (residues exAtoms) = [⟨2, 3, 1⟩] := by decide +kernel

theorem exW_wf : WFS exCcd exW exBonds where
  bonds := rfl
  atoms_ne := by decide
  coords_ne := by decide
  coords_len := by decide
  normal := by decide +kernel
  lt := by decide
  unique := by decide
  names := by decide +kernel
  keys := by decide +kernel
  namesUnique := by decide +kernel
  intraTypes := by decide +kernel
  interTypes := by decide +kernel
  consistent := by decide +kernel
  noFallback := by decide +kernel
  linksPaired := by
    intro b hb
    have h : connectInter exCcd (residues exAtoms) = [⟨2, 3, 1⟩] := by decide +kernel
    have hb' : b ∈ connectInter exCcd (residues exAtoms) := hb
    rw [h] at hb'
    have : b = ⟨2, 3, 1⟩ := by simpa using hb'
    subst this
    exact ⟨1, by decide⟩
  droppedClassified := by decide +kernel

/-- the same structure with two models and a **DOUBLE** C→N link: `struct_conn` keeps it and wins the merge -/
def exBonds2 : List Bond := [⟨0, 1, 1⟩, ⟨1, 2, 2⟩, ⟨3, 4, 1⟩, ⟨2, 3, 2⟩, ⟨5, 6, 9⟩, ⟨2, 5, 3⟩, ⟨1, 6, 8⟩]
def exW2 : Structure := ⟨exAtoms, false, false, [["a", "b", "c", "d", "e", "f", "g"], ["A", "B", "C", "D", "E", "F", "G"]],
  some "box", some exBonds2⟩

theorem exW2_wf : WFS exCcd exW2 exBonds2 where
  bonds := rfl
  atoms_ne := by decide
  coords_ne := by decide
  coords_len := by decide
  normal := by decide +kernel
  lt := by decide
  unique := by decide
  names := by decide +kernel
  keys := by decide +kernel
  namesUnique := by decide +kernel
  intraTypes := by decide +kernel
  interTypes := by decide +kernel
  consistent := by decide +kernel
  noFallback := by decide +kernel
  linksPaired := by
    intro b hb
    have h : connectInter exCcd (residues exAtoms) = [⟨2, 3, 1⟩] := by decide +kernel
    have hb' : b ∈ connectInter exCcd (residues exAtoms) := hb
    rw [h] at hb'
    have : b = ⟨2, 3, 1⟩ := by simpa using hb'
    subst this
    exact ⟨2, by decide⟩
  droppedClassified := by decide +kernel

example : exBonds2.filter (isDroppedLink exAtoms) = [] ∧
    exBonds2.filter (isConnRow exAtoms) = [⟨2, 3, 2⟩, ⟨2, 5, 3⟩, ⟨1, 6, 8⟩] := by decide +kernel

example : ∃ blk bs', writeBlock exW2 true = .ok blk ∧ (∀ b, b ∈ bs' ↔ b ∈ exBonds2) ∧
    readStructure exCcd blk ⟨none, .first, true, false, false⟩ =
      .ok ⟨exAtoms, false, false, exW2.coords, some "box", some bs'⟩ := by
  obtain ⟨blk, bs', h1, h2, h3, _⟩ := C04_stack_roundtrip exCcd exW2 exBonds2 exW2_wf
  exact ⟨blk, bs', h1, h2, h3⟩

example : ∃ blk bs' c0, exW.coords.head? = some c0 ∧ writeBlock exW true = .ok blk ∧
    readStructure exCcd blk ⟨some 1, .first, true, false, false⟩ =
      .ok ⟨exAtoms, false, false, [c0], some "box", some bs'⟩ ∧ ∀ b, b ∈ bs' ↔ b ∈ exBonds :=
  C04_bonds_roundtrip_partial exCcd exW exBonds exW_wf

/-- models of 2, 1 and 3 rows: the total fits 3 × 2, the table is rejected all the same -/
example : let r := fun (m : Int) => ({ (writeRow false (exAtom 1 "" "N" 0) 1) with model := m } : SiteRow)
    (splitModels [r 1, r 1, r 2, r 3, r 3, r 3]).map List.length = [2, 1, 3] := by decide +kernel

/-- ids "A" (4+1 = 5 eighths) and "B" (3+2 = 5 eighths) tie: the fold keeps the first, "A". -/
example : ["A", "B"].foldl (argStep (occSum [".", "B", "A", "B", "A"] [8, 3, 4, 2, 1])) none = some "A" ∧
    occSum [".", "B", "A", "B", "A"] [8, 3, 4, 2, 1] "A" = 5 ∧ occSum [".", "B", "A", "B", "A"] [8, 3, 4, 2, 1] "B" = 5 := by
  decide +kernel
example : "A" ∈ altIds [".", "B", "A", "B", "A"] ∧ "." ∉ altIds [".", "B", "A", "B", "A"] :=
  ⟨(mem_altIds _ _).mpr ⟨by decide, by decide⟩, fun h => absurd ((mem_altIds _ _).mp h).2 (by decide)⟩

example : filterBondsByMask [true, false, true, true] [⟨0, 1, 1⟩, ⟨0, 2, 2⟩, ⟨2, 3, 8⟩] = [⟨0, 1, 2⟩, ⟨1, 2, 8⟩] ∧
    applyMask [true, false, true, true] ["a", "b", "c", "d"] = ["a", "c", "d"] := by decide

end BiotiteModel.C04

import BiotiteModel.Proofs.C13
import BiotiteModel.Gen.C13
import BiotiteModel.Proofs.C13Expected
/-!
# C13 — property theorems (slicing annotations and annotated sequences)

Only property statements and their non-vacuity examples live here; helper lemmas are in
`Proofs/C13.lean`.  Every theorem quantifies over *all* annotations / sequences / positions
(no size bound).  The model is the code after the four `fix:` commits (see `notes/C13.md`);
before them `C13_slice_pairing` (open stop), `C13_feature_assign` (location order),
`C13_copy_equal_independent` (sequence not copied) and the empty-slice case of
`C13_slice_total` were false on the code.
-/
set_option linter.unusedSimpArgs false
namespace BiotiteModel.C13

/-! ## Construction -/

/-- `Location(first, last)` is refused (`ValueError`) exactly when `first > last`; so every
location that exists satisfies the well-formedness hypothesis `Loc.WF` of the theorems below. -/
theorem C13_location_rejects (first last : Int) (st : Strand) (d : Defect) :
    (mkLoc first last st d = .error .valueError ↔ first > last) ∧
    (∀ l, mkLoc first last st d = .ok l → l.WF ∧ l = ⟨first, last, st, d⟩) := by
  unfold mkLoc
  by_cases h : first > last
  · simp [h]
  · rw [if_neg h]
    constructor
    · constructor
      · intro hc; cases hc
      · intro hc; exact absurd hc h
    · intro l hl
      have hl' : (⟨first, last, st, d⟩ : Loc) = l := by injection hl
      subst hl'
      exact ⟨by unfold Loc.WF; show first ≤ last; omega, rfl⟩

/-! ## Slicing an annotation -/

/-- On well-formed annotations `Annotation.__getitem__` never raises (in particular not for
empty slices) and equals the exception-free specification; the result is well-formed. -/
theorem C13_slice_total (a b : Option Int) (ann : Annot) (h : Annot.WF ann) :
    sliceAnnotE a b ann = .ok (sliceAnnotO a (b.map (· - 1)) ann) ∧
    Annot.WF (sliceAnnotO a (b.map (· - 1)) ann) ∧
    (∀ x y, sliceAnnotO (some x) (some y) ann = sliceAnnot x y ann) := by
  refine ⟨sliceAnnotE_eq a b ann h, ?_, fun x y => rfl⟩
  intro f' hf'
  unfold sliceAnnotO at hf'
  rw [List.mem_filterMap] at hf'
  obtain ⟨f, hf, hs⟩ := hf'
  obtain ⟨_, _, hlocs, hne⟩ := sliceFeatureO_some _ _ f f' hs
  refine ⟨hne, ?_⟩
  intro l' hl'
  rw [hlocs, List.mem_filterMap] at hl'
  obtain ⟨l, hl, hsl⟩ := hl'
  exact sliceLoc_wf _ _ l l' ((h f hf).2 l hl) hsl

/-- Open bounds.  With an omitted start (`iF = none`) nothing is removed on the left of any
location, *wherever it lies*: the first base and the `MISS_LEFT` flag are unchanged and the
coverage is only bounded on the right; symmetrically for an omitted stop.  (Before the
infinite-bound fix the sentinel `∓sys.maxsize` cut locations beyond ±(2⁶³−1).) -/
theorem C13_slice_open_bounds (iF iL : Option Int) (l l' : Loc) (h : l.WF)
    (hs : sliceLocO iF iL l = some l') :
    (iF = none → l'.first = l.first ∧ l'.defect.missLeft = l.defect.missLeft) ∧
    (iL = none → l'.last = l.last ∧ l'.defect.missRight = l.defect.missRight) ∧
    (∀ p, l'.covers p ↔ (l.covers p ∧ (∀ x, iF = some x → x ≤ p) ∧ (∀ y, iL = some y → p ≤ y))) := by
  unfold sliceLocO at hs
  obtain ⟨hc, hf, hl, _, hd⟩ := sliceLoc_some _ _ l l' h hs
  have hcov := sliceLoc_covers _ _ l l' h hs
  unfold Loc.WF at h
  refine ⟨?_, ?_, ?_⟩
  · intro hn; subst hn
    simp only [Option.getD_none] at hf hd
    rw [hf, hd]
    have : ¬ (l.first < l.first) := by omega
    simp [this]
  · intro hn; subst hn
    simp only [Option.getD_none] at hl hd
    rw [hl, hd]
    have : ¬ (l.last > l.last) := by omega
    simp [this]
  · intro p
    rw [hcov p]
    unfold Loc.covers
    cases iF with
    | none =>
      cases iL with
      | none =>
        simp only [Option.getD_none]; constructor
        · rintro ⟨hp, _, _⟩; exact ⟨hp, fun x hx => (by cases hx), fun y hy => (by cases hy)⟩
        · rintro ⟨hp, _, _⟩; exact ⟨hp, hp.1, hp.2⟩
      | some y =>
        simp only [Option.getD_none, Option.getD_some]; constructor
        · rintro ⟨hp, _, h4⟩
          exact ⟨hp, fun x hx => (by cases hx), fun z hz => (by cases hz; exact h4)⟩
        · rintro ⟨hp, _, h4⟩; exact ⟨hp, hp.1, h4 y rfl⟩
    | some x =>
      cases iL with
      | none =>
        simp only [Option.getD_none, Option.getD_some]; constructor
        · rintro ⟨hp, h3, _⟩
          exact ⟨hp, fun z hz => (by cases hz; exact h3), fun y hy => (by cases hy)⟩
        · rintro ⟨hp, h3, _⟩; exact ⟨hp, h3 x rfl, hp.2⟩
      | some y =>
        simp only [Option.getD_some]; constructor
        · rintro ⟨hp, h3, h4⟩
          exact ⟨hp, fun z hz => (by cases hz; exact h3), fun z hz => (by cases hz; exact h4)⟩
        · rintro ⟨hp, h3, h4⟩; exact ⟨hp, h3 x rfl, h4 y rfl⟩

/-- Per-base coverage, one location: the sliced location covers exactly the bases of the
location inside the window `[iF, iL]`; it disappears iff no base is inside. -/
theorem C13_slice_bases_loc (iF iL : Int) (l : Loc) (h : l.WF) :
    (∀ l', sliceLoc iF iL l = some l' →
        l'.WF ∧ ∀ p, l'.covers p ↔ (l.covers p ∧ iF ≤ p ∧ p ≤ iL)) ∧
    (sliceLoc iF iL l = none ↔ ∀ p, l.covers p → ¬ (iF ≤ p ∧ p ≤ iL)) :=
  ⟨fun l' hs => ⟨sliceLoc_wf iF iL l l' h hs, sliceLoc_covers iF iL l l' h hs⟩,
   sliceLoc_none_iff iF iL l h⟩

/-- Per-base coverage, one feature: key and qualifiers are kept, the sliced feature covers
exactly the covered bases inside the window, and the feature disappears iff none is inside.
(`Annotation[a:b]` is `filterMap` of this over the features: `C13_slice_total`.) -/
theorem C13_slice_bases (iF iL : Int) (f : Feature) (h : f.WF) :
    (∀ f', sliceFeature iF iL f = some f' →
        f'.key = f.key ∧ f'.qual = f.qual ∧
        ∀ p, f'.covers p ↔ (f.covers p ∧ iF ≤ p ∧ p ≤ iL)) ∧
    (sliceFeature iF iL f = none ↔ ∀ p, f.covers p → ¬ (iF ≤ p ∧ p ≤ iL)) := by
  constructor
  · intro f' hs
    obtain ⟨hk, hq, hlocs, _⟩ := sliceFeature_some iF iL f f' hs
    refine ⟨hk, hq, fun p => ?_⟩
    unfold Feature.covers
    rw [hlocs]
    constructor
    · rintro ⟨l', hl', hc⟩
      rw [List.mem_filterMap] at hl'
      obtain ⟨l, hl, hsl⟩ := hl'
      have := (sliceLoc_covers iF iL l l' (h.2 l hl) hsl p).mp hc
      exact ⟨⟨l, hl, this.1⟩, this.2⟩
    · rintro ⟨⟨l, hl, hc⟩, hw⟩
      cases hsl : sliceLoc iF iL l with
      | none => exact absurd hw ((sliceLoc_none_iff iF iL l (h.2 l hl)).mp hsl p hc)
      | some l' =>
        refine ⟨l', ?_, (sliceLoc_covers iF iL l l' (h.2 l hl) hsl p).mpr ⟨hc, hw⟩⟩
        rw [List.mem_filterMap]
        exact ⟨l, hl, hsl⟩
  · rw [sliceFeature_none]
    constructor
    · intro hnil p ⟨l, hl, hc⟩
      have : sliceLoc iF iL l = none := by
        cases hsl : sliceLoc iF iL l with
        | none => rfl
        | some l' =>
          have : l' ∈ f.locs.filterMap (sliceLoc iF iL) := by
            rw [List.mem_filterMap]; exact ⟨l, hl, hsl⟩
          rw [hnil] at this; cases this
      exact (sliceLoc_none_iff iF iL l (h.2 l hl)).mp this p hc
    · intro hall
      apply List.eq_nil_iff_forall_not_mem.mpr
      intro l' hl'
      rw [List.mem_filterMap] at hl'
      obtain ⟨l, hl, hsl⟩ := hl'
      have hnone := (sliceLoc_none_iff iF iL l (h.2 l hl)).mpr (fun p hc => hall p ⟨l, hl, hc⟩)
      rw [hnone] at hsl; cases hsl

/-- Defect flags: a sliced location is marked `MISS_LEFT` iff it already was or a base of it
lies left of the window (i.e. was removed on that side); likewise `MISS_RIGHT`; every other
flag and the strand are unchanged. -/
theorem C13_slice_defects (iF iL : Int) (l l' : Loc) (h : l.WF) (hs : sliceLoc iF iL l = some l') :
    (l'.defect.missLeft = true ↔ (l.defect.missLeft = true ∨ ∃ p, l.covers p ∧ p < iF)) ∧
    (l'.defect.missRight = true ↔ (l.defect.missRight = true ∨ ∃ p, l.covers p ∧ iL < p)) ∧
    l'.defect.beyondLeft = l.defect.beyondLeft ∧ l'.defect.beyondRight = l.defect.beyondRight ∧
    l'.defect.unkLoc = l.defect.unkLoc ∧ l'.defect.between = l.defect.between ∧
    l'.strand = l.strand := by
  obtain ⟨_, _, _, hst, hd⟩ := sliceLoc_some iF iL l l' h hs
  unfold Loc.WF at h
  rw [hd]
  refine ⟨?_, ?_, rfl, rfl, rfl, rfl, hst⟩
  · simp only [Bool.or_eq_true, decide_eq_true_eq]
    unfold Loc.covers
    constructor
    · rintro (h1 | h1)
      · exact Or.inl h1
      · exact Or.inr ⟨l.first, ⟨by omega, h⟩, h1⟩
    · rintro (h1 | ⟨p, hp, hlt⟩)
      · exact Or.inl h1
      · exact Or.inr (by omega)
  · simp only [Bool.or_eq_true, decide_eq_true_eq]
    unfold Loc.covers
    constructor
    · rintro (h1 | h1)
      · exact Or.inl h1
      · exact Or.inr ⟨l.last, ⟨h, by omega⟩, by omega⟩
    · rintro (h1 | ⟨p, hp, hlt⟩)
      · exact Or.inl h1
      · exact Or.inr (by omega)

/-! ## Slicing an annotated sequence: `[a:b]`, `[a:]`, `[:b]`, `[:]` -/

/-- Pairing.  For every slice the code accepts — neither bound left of the sequence start; an
open bound stands for the respective end of the sequence; the stop may lie beyond the end and
the slice may be empty or reversed — the result has the sub-sequence `seq[lo-start : hi-start]`, the new start
`lo`, the annotation clipped to the same window `[lo, hi)` (an open start clips nothing on the
left), and sequence and annotation describe the same absolute positions: the base at
position `p` of the result is the base at position `p` of the original.
This failed for an open stop before the fix (`hi` was passed array-relative). -/
theorem C13_slice_pairing (s : ASeq) (a b : Option Int) (hwf : Annot.WF s.annot)
    (lo hi : Int) (hlo : lo = a.getD s.start) (hhi : hi = b.getD (s.start + s.seq.length))
    (h1 : s.start ≤ lo) (h2 : s.start ≤ hi) :
    ∃ r, getSlice s a b = .ok r ∧
      r.start = lo ∧
      r.seq = (s.seq.drop (lo - s.start).toNat).take (hi - lo).toNat ∧
      (lo ≤ hi → hi ≤ s.start + s.seq.length → r.seq.length = (hi - lo).toNat) ∧
      r.annot = sliceAnnotO a (some (hi - 1)) s.annot ∧ Annot.WF r.annot ∧
      (∀ p, lo ≤ p → p < hi → r.seq[(p - r.start).toNat]? = s.seq[(p - s.start).toNat]?) := by
  have hseq : pySlice s.seq (lo - s.start) (hi - s.start)
      = (s.seq.drop (lo - s.start).toNat).take (hi - lo).toNat := by
    have e1 : lo - s.start = (((lo - s.start).toNat : Nat) : Int) := by omega
    have e2 : hi - s.start = (((hi - s.start).toNat : Nat) : Int) := by omega
    rw [e1, e2, pySlice_nat]
    congr 1; omega
  have hlen : lo ≤ hi → hi ≤ s.start + s.seq.length →
      ((s.seq.drop (lo - s.start).toNat).take (hi - lo).toNat).length = (hi - lo).toNat := by
    intro _ _
    rw [List.length_take, List.length_drop]; omega
  have hpos : ∀ p, lo ≤ p → p < hi →
      ((s.seq.drop (lo - s.start).toNat).take (hi - lo).toNat)[(p - lo).toNat]?
        = s.seq[(p - s.start).toNat]? := by
    intro p hp1 hp2
    rw [List.getElem?_take, List.getElem?_drop]
    have : (p - lo).toNat < (hi - lo).toNat := by omega
    simp only [this, if_true]
    congr 1; omega
  -- the stop handed to the annotation is `hi` in all four forms
  have hb0 : ∀ (b : Option Int), hi = b.getD (s.start + s.seq.length) →
      (match b with | none => some ((s.seq.length : Int) + s.start) | some b => some b) = some hi := by
    intro b hb
    cases b with
    | none => simp only [Option.getD_none] at hb; rw [hb, Int.add_comm]
    | some b => simp only [Option.getD_some] at hb; rw [hb]
  have hb' := hb0 b hhi
  have hann := C13_slice_total a (some hi) s.annot hwf
  have hiL : (some hi : Option Int).map (· - 1) = some (hi - 1) := rfl
  rw [hiL] at hann
  refine ⟨⟨sliceAnnotO a (some (hi - 1)) s.annot, (s.seq.drop (lo - s.start).toNat).take (hi - lo).toNat, lo⟩,
    ?_, rfl, rfl, hlen, rfl, hann.2.1, hpos⟩
  unfold getSlice
  cases a with
  | none =>
    simp only [Option.getD_none] at hlo
    subst hlo
    cases b with
    | none =>
      simp only [Option.getD_none] at hhi
      simp only [hb', Bool.false_eq_true, if_false] at hann ⊢
      rw [hann.1]
      simp only [ASeq.mk.injEq, Except.ok.injEq, true_and, and_true]
      rw [← hseq]; congr 1 <;> omega
    | some b =>
      simp only [Option.getD_some] at hhi
      subst hhi
      have hnb : ¬ (hi < s.start) := by omega
      simp only [hnb, decide_false, Bool.false_eq_true, if_false] at hann ⊢
      rw [hann.1]
      simp only [ASeq.mk.injEq, Except.ok.injEq, true_and, and_true]
      rw [← hseq]; congr 1; omega
  | some a =>
    simp only [Option.getD_some] at hlo
    subst hlo
    have hnlt : ¬ (lo < s.start) := by omega
    cases b with
    | none =>
      simp only [Option.getD_none] at hhi
      simp only [hnlt, if_false, hb', Bool.false_eq_true] at hann ⊢
      rw [hann.1]
      simp only [ASeq.mk.injEq, Except.ok.injEq, true_and, and_true]
      rw [← hseq]; congr 1; omega
    | some b =>
      simp only [Option.getD_some] at hhi
      subst hhi
      have hnb : ¬ (hi < s.start) := by omega
      simp only [hnlt, if_false, hnb, decide_false, Bool.false_eq_true] at hann ⊢
      rw [hann.1]
      simp only [ASeq.mk.injEq, Except.ok.injEq, true_and, and_true]
      exact hseq

/-- An open stop is exactly the explicit stop "end of the sequence" (for any annotation, also
one reaching beyond the sequence): `aseq[a:] = aseq[a : start+len]`, `aseq[:] = aseq[: start+len]`. -/
theorem C13_slice_open_stop (s : ASeq) (a : Option Int) :
    getSlice s a none = getSlice s a (some (s.start + s.seq.length)) := by
  unfold getSlice
  have e1 : (s.seq.length : Int) + s.start = s.start + s.seq.length := by omega
  have e2 : s.start + (s.seq.length : Int) - s.start = s.seq.length := by omega
  have e3 : ¬ (s.start + (s.seq.length : Int) < s.start) := by omega
  cases a with
  | none => simp only [e1, e2, e3, decide_false, Bool.false_eq_true, if_false]
  | some a =>
    by_cases h : a < s.start
    · simp [h]
    · simp only [h, if_false, e1, e2, e3, decide_false, Bool.false_eq_true]

/-- A bound left of the sequence start is refused with `IndexError` — it is never taken for a
negative array index counting from the end of the sequence (which the code did for the stop
before the `_check_position` fix): exactly the slices with `a < start` or `b < start` are refused. -/
theorem C13_slice_rejects_before_start (s : ASeq) (a b : Option Int) (hwf : Annot.WF s.annot) :
    getSlice s a b = .error .indexError ↔
      ((∃ x, a = some x ∧ x < s.start) ∨ (∃ y, b = some y ∧ y < s.start)) := by
  constructor
  · intro h
    by_cases ha : ∃ x, a = some x ∧ x < s.start
    · exact Or.inl ha
    · by_cases hb : ∃ y, b = some y ∧ y < s.start
      · exact Or.inr hb
      · exfalso
        have h1 : s.start ≤ a.getD s.start := by
          cases a with
          | none => simp
          | some x => simp only [Option.getD_some]; by_cases hx : x < s.start
                      · exact absurd ⟨x, rfl, hx⟩ ha
                      · omega
        have h2 : s.start ≤ b.getD (s.start + s.seq.length) := by
          cases b with
          | none => simp only [Option.getD_none]; omega
          | some y => simp only [Option.getD_some]; by_cases hy : y < s.start
                      · exact absurd ⟨y, rfl, hy⟩ hb
                      · omega
        obtain ⟨r, hr, _⟩ := C13_slice_pairing s a b hwf _ _ rfl rfl h1 h2
        rw [hr] at h; cases h
  · rintro (⟨x, rfl, hx⟩ | ⟨y, rfl, hy⟩)
    · unfold getSlice; simp [hx]
    · unfold getSlice
      cases a with
      | none => simp [hy]
      | some x => by_cases hx : x < s.start <;> simp [hx, hy]

/-! ## Indexing with a feature -/

/-- `aseq[f]` for a feature whose locations share one strand: the location sub-sequences are
concatenated in biological order — a permutation of the locations sorted by ascending `first`
(forward) resp. descending `last` (reverse) — each reverse-complemented on the reverse strand;
and the sub-sequence of a location inside the sequence is exactly the bases at its absolute
positions. -/
theorem C13_feature_index (s : ASeq) (f : Feature) (st : Strand) (hne : f.locs ≠ [])
    (hst : ∀ l ∈ f.locs, l.strand = st) (hleft : ∀ l ∈ f.locs, s.start ≤ l.first) :
    ∃ order : List Loc,
      getFeature s f = .ok (order.flatMap fun l =>
        match st with | .fwd => locSub s l | .rev => revComp (locSub s l)) ∧
      order.Perm f.locs ∧
      (st = .fwd → order.Pairwise (fun x y => x.first ≤ y.first)) ∧
      (st = .rev → order.Pairwise (fun x y => y.last ≤ x.last)) ∧
      (∀ l ∈ f.locs, InRange s.start s.seq.length l →
        (locSub s l).length = l.len ∧
        ∀ p, l.covers p → (locSub s l)[(p - l.first).toNat]? = s.seq[(p - s.start).toNat]?) := by
  refine ⟨bioOrder st f.locs, ?_, bioOrder_perm st f.locs, ?_, ?_, ?_⟩
  · unfold getFeature
    have h0 : ¬ f.locs.length = 0 := fun h => hne (List.eq_nil_of_length_eq_zero h)
    have hany := any_first_lt_false (bioOrder st f.locs) s.start
      (fun l hl => hleft l ((bioOrder_perm st f.locs).mem_iff.mp hl))
    simp only [h0, if_false, uniformStrand_of st f.locs hne hst, hany, Bool.false_eq_true]
    congr 1
    apply flatMap_congr'
    intro l hl
    have hls : l.strand = st := hst l ((bioOrder_perm st f.locs).mem_iff.mp hl)
    cases st with
    | fwd => exact locSeq_fwd s l hls
    | rev => exact locSeq_rev s l hls
  · intro h; subst h; exact bioOrder_sorted_fwd f.locs
  · intro h; subst h; exact bioOrder_sorted_rev f.locs
  · intro l _ hin
    rw [locSub_inRange s l hin]
    unfold InRange at hin
    constructor
    · rw [List.length_take, List.length_drop]; unfold idx Loc.len; omega
    · intro p hp
      unfold Loc.covers at hp
      rw [List.getElem?_take, List.getElem?_drop]
      have : (p - l.first).toNat < l.len := by unfold Loc.len; omega
      simp only [this, if_true]
      congr 1; unfold idx; omega

/-- `aseq[f] = x` for a feature with one strand, pairwise disjoint locations inside the
sequence and `len x` = number of bases: nothing is raised, annotation, start and length are
unchanged, every base outside the feature is unchanged, the locations taken in biological
order hold the consecutive chunks of `x`, and (forward strand) `aseq[f]` reads `x` back.
Before the ordering fix the chunks went to the locations in set-iteration order. -/
theorem C13_feature_assign (s : ASeq) (f : Feature) (st : Strand) (x : List Nat)
    (hne : f.locs ≠ []) (hst : ∀ l ∈ f.locs, l.strand = st)
    (hin : ∀ l ∈ f.locs, InRange s.start s.seq.length l)
    (hdis : f.locs.Pairwise Disjoint) (hx : x.length = total f.locs) :
    ∃ s', setFeature s f x = (s', none) ∧
      s'.annot = s.annot ∧ s'.start = s.start ∧ s'.seq.length = s.seq.length ∧
      (∀ p, (∀ l ∈ f.locs, ¬ l.covers p) → s.start ≤ p →
          s'.seq[(p - s.start).toNat]? = s.seq[(p - s.start).toNat]?) ∧
      (bioOrder st f.locs).flatMap (locSub s') = x ∧
      (st = .fwd → getFeature s' f = .ok x) := by
  have hperm := bioOrder_perm st f.locs
  have hin' : ∀ l ∈ bioOrder st f.locs, InRange s.start s.seq.length l :=
    fun l hl => hin l (hperm.mem_iff.mp hl)
  have hdis' : (bioOrder st f.locs).Pairwise Disjoint :=
    (hperm.pairwise_iff (fun h => Disjoint.symm h)).mpr hdis
  have htot : total (bioOrder st f.locs) = total f.locs := total_perm hperm
  obtain ⟨seq', hrun, hlen, hout, hflat⟩ :=
    setLoop_spec s.start x s.seq.length (bioOrder st f.locs) hin' hdis' 0 s.seq rfl (by omega)
  have hflat' : (bioOrder st f.locs).flatMap (locSub { s with seq := seq' }) = x := by
    rw [flatMap_congr' _ (fun l => (seq'.drop (idx s.start l)).take l.len) _
      (fun l hl => locSub_inRange { s with seq := seq' } l (by simp only [hlen]; exact hin' l hl))]
    rw [hflat, htot, List.drop_zero, ← hx, List.take_length]
  refine ⟨{ s with seq := seq' }, ?_, rfl, rfl, hlen, ?_, hflat', ?_⟩
  · unfold setFeature
    rw [setOrder_of st f.locs hne hst]
    have hany := any_first_lt_false (bioOrder st f.locs) s.start (fun l hl => (hin' l hl).1)
    have : ((0 : Nat) : Int) = 0 := rfl
    rw [this] at hrun
    simp only [hany, Bool.false_eq_true, if_false]
    rw [hrun]
  · intro p hp hsp
    apply hout
    intro l hl hc
    have hr := hin' l hl
    apply hp l (hperm.mem_iff.mp hl)
    unfold InRange at hr; unfold Loc.covers; unfold idx Loc.len at hc
    omega
  · intro hfw
    subst hfw
    unfold getFeature
    have h0 : ¬ f.locs.length = 0 := fun h => hne (List.eq_nil_of_length_eq_zero h)
    have hany := any_first_lt_false (bioOrder .fwd f.locs) s.start (fun l hl => (hin' l hl).1)
    simp only [h0, if_false, uniformStrand_of .fwd f.locs hne hst, hany, Bool.false_eq_true]
    congr 1
    rw [← hflat']
    apply flatMap_congr'
    intro l hl
    exact locSeq_fwd _ l (hst l (hperm.mem_iff.mp hl))

/-- Refusals of the feature index.  Locations on both strands → `ValueError`; one strand but a
location starting left of the sequence start → `IndexError` (read) resp. `IndexError` with the
sequence untouched (write) — never a wrap-around to the end of the sequence. -/
theorem C13_feature_index_rejects (s : ASeq) (f : Feature) :
    (∀ l1 ∈ f.locs, ∀ l2 ∈ f.locs, l1.strand ≠ l2.strand → getFeature s f = .error .valueError) ∧
    (∀ st, f.locs ≠ [] → (∀ l ∈ f.locs, l.strand = st) → (∃ l ∈ f.locs, l.first < s.start) →
        getFeature s f = .error .indexError ∧ ∀ x, setFeature s f x = (s, some .indexError)) := by
  constructor
  · intro l1 h1 l2 h2 hne
    unfold getFeature
    have h0 : ¬ f.locs.length = 0 := by
      intro h; rw [List.eq_nil_of_length_eq_zero h] at h1; cases h1
    have hu : uniformStrand f.locs = none := by
      cases hl : f.locs with
      | nil => rfl
      | cons l r =>
        rw [hl] at h1 h2
        show (if (r.all fun l' => decide (l'.strand = l.strand)) = true then some l.strand else none) = none
        have : ¬ (r.all fun l' => decide (l'.strand = l.strand)) = true := by
          intro hall
          rw [List.all_eq_true] at hall
          have e : ∀ x ∈ l :: r, x.strand = l.strand := by
            intro x hx
            rcases List.mem_cons.mp hx with rfl | hx
            · rfl
            · have := hall x hx; simpa using this
          exact hne ((e l1 h1).trans (e l2 h2).symm)
        rw [if_neg this]
    simp only [h0, if_false, hu]
  · intro st hne hst ⟨l, hl, hlt⟩
    have hany := any_first_lt_true (bioOrder st f.locs) s.start l ((bioOrder_perm st f.locs).mem_iff.mpr hl) hlt
    constructor
    · unfold getFeature
      have h0 : ¬ f.locs.length = 0 := fun h => hne (List.eq_nil_of_length_eq_zero h)
      simp only [h0, if_false, uniformStrand_of st f.locs hne hst, hany, if_true]
    · intro x
      unfold setFeature
      rw [setOrder_of st f.locs hne hst]
      simp only [hany, if_true]

/-! ## Assigning through a slice or a position; editing the annotation in place -/

/-- `aseq[a:b] = v` (any of the four forms, inside the sequence, `len v` = width): no exception;
annotation, start and length unchanged; the window holds `v`; every base outside is unchanged;
and reading the same slice of the sequence gives `v` back. -/
theorem C13_slice_assign (s : ASeq) (a b : Option Int) (v : List Nat) (lo hi : Int)
    (hlo : lo = a.getD s.start) (hhi : hi = b.getD (s.start + s.seq.length))
    (h1 : s.start ≤ lo) (h2 : lo ≤ hi) (h3 : hi ≤ s.start + s.seq.length)
    (hv : v.length = (hi - lo).toNat) :
    ∃ s', setSlice s a b v = .ok s' ∧ s'.annot = s.annot ∧ s'.start = s.start ∧
      s'.seq.length = s.seq.length ∧
      (∀ p, lo ≤ p → p < hi → s'.seq[(p - s.start).toNat]? = v[(p - lo).toNat]?) ∧
      (∀ p, s.start ≤ p → (p < lo ∨ hi ≤ p) → s'.seq[(p - s.start).toNat]? = s.seq[(p - s.start).toNat]?) ∧
      pySlice s'.seq (lo - s.start) (hi - s.start) = v := by
  have e1 : lo - s.start = (((lo - s.start).toNat : Nat) : Int) := by omega
  have e2 : hi - s.start = (((hi - s.start).toNat : Nat) : Int) := by omega
  have hv' : v.length = (hi - s.start).toNat - (lo - s.start).toNat := by omega
  have hassign := assignSlice_nat s.seq v (lo - s.start).toNat (hi - s.start).toNat (by omega) (by omega) hv'
  have hj : (hi - s.start).toNat = (lo - s.start).toNat + v.length := by omega
  have hbound : (lo - s.start).toNat + v.length ≤ s.seq.length := by omega
  have hget := write_getElem? s.seq v (lo - s.start).toNat hbound
  have hlen := write_length s.seq v (lo - s.start).toNat hbound
  rw [← hj] at hget hlen
  refine ⟨{ s with seq := s.seq.take (lo - s.start).toNat ++ v ++ s.seq.drop (hi - s.start).toNat }, ?_, rfl, rfl, hlen, ?_, ?_, ?_⟩
  · have hA : (a.map (· - s.start)).getD 0 = lo - s.start := by
      rw [hlo]; cases a <;> simp
    have hB : (b.map (· - s.start)).getD (s.seq.length : Int) = hi - s.start := by
      rw [hhi]; cases b <;> simp <;> omega
    have hassign' : assignSlice s.seq (lo - s.start) (hi - s.start) v
        = .ok (s.seq.take (lo - s.start).toNat ++ v ++ s.seq.drop (hi - s.start).toNat) := by
      rw [e1, e2]; simp only [Int.toNat_natCast]; exact hassign
    have hal : ∀ x, a = some x → s.start ≤ x := by
      intro x hx; subst hx; simp only [Option.getD_some] at hlo; omega
    have hbl : ∀ x, b = some x → s.start ≤ x := by
      intro x hx; subst hx; simp only [Option.getD_some] at hhi; omega
    rw [setSlice_eq s a b v hal hbl, hA, hB, hassign']
  · intro p hp1 hp2
    show (s.seq.take (lo - s.start).toNat ++ v ++ s.seq.drop (hi - s.start).toNat)[(p - s.start).toNat]? = _
    rw [hget]
    have : (lo - s.start).toNat ≤ (p - s.start).toNat ∧ (p - s.start).toNat < (hi - s.start).toNat := by omega
    simp only [this, and_self, if_true]
    congr 1; omega
  · intro p hp hout
    show (s.seq.take (lo - s.start).toNat ++ v ++ s.seq.drop (hi - s.start).toNat)[(p - s.start).toNat]? = _
    rw [hget]
    have : ¬ ((lo - s.start).toNat ≤ (p - s.start).toNat ∧ (p - s.start).toNat < (hi - s.start).toNat) := by omega
    simp only [this, if_false]
  · show pySlice (s.seq.take (lo - s.start).toNat ++ v ++ s.seq.drop (hi - s.start).toNat) _ _ = v
    rw [e1, e2, pySlice_nat]
    simp only [Int.toNat_natCast]
    apply List.ext_getElem?
    intro j
    rw [List.getElem?_take, List.getElem?_drop, hget]
    by_cases hjv : j < v.length
    · have c1 : j < (hi - s.start).toNat - (lo - s.start).toNat := by omega
      have c2 : (lo - s.start).toNat ≤ (lo - s.start).toNat + j ∧ (lo - s.start).toNat + j < (hi - s.start).toNat := by omega
      simp only [c1, if_true, c2, and_self]
      congr 1; omega
    · have c1 : ¬ j < (hi - s.start).toNat - (lo - s.start).toNat := by omega
      simp only [c1, if_false]
      exact (List.getElem?_eq_none (by omega)).symm

/-- `aseq[p] = c` inside the sequence: `aseq[p]` then reads `c`, every other position, the
annotation and the start are unchanged. -/
theorem C13_int_assign (s : ASeq) (p : Int) (c : Nat) (h1 : s.start ≤ p) (h2 : p < s.start + s.seq.length) :
    ∃ s', setInt s p c = .ok s' ∧ s'.annot = s.annot ∧ s'.start = s.start ∧
      getInt s' p = .ok c ∧
      (∀ q, q ≠ p → s.start ≤ q → q < s.start + s.seq.length → getInt s' q = getInt s q) := by
  have hn : ¬ (p - s.start < 0 ∨ p - s.start ≥ (s.seq.length : Int)) := by omega
  refine ⟨{ s with seq := s.seq.set (p - s.start).toNat c }, ?_, rfl, rfl, ?_, ?_⟩
  · unfold setInt; simp only [hn, if_false]
  · unfold getInt
    simp only [List.length_set, hn, if_false, List.getElem?_set]
    have : (p - s.start).toNat < s.seq.length := by omega
    simp [this]
  · intro q hq hq1 hq2
    unfold getInt
    have hnq : ¬ (q - s.start < 0 ∨ q - s.start ≥ (s.seq.length : Int)) := by omega
    simp only [List.length_set, hnq, if_false, List.getElem?_set]
    have : ¬ (p - s.start).toNat = (q - s.start).toNat := by omega
    simp only [this, if_false]

/-- Exactly the positions outside `[start, start+len)` are refused by `aseq[p]` and `aseq[p] = c`
(`IndexError`); in particular `aseq[start-1]` is not the last base. -/
theorem C13_int_rejects (s : ASeq) (p : Int) (c : Nat) :
    (getInt s p = .error .indexError ↔ (p < s.start ∨ s.start + s.seq.length ≤ p)) ∧
    (setInt s p c = .error .indexError ↔ (p < s.start ∨ s.start + s.seq.length ≤ p)) := by
  by_cases h : p - s.start < 0 ∨ p - s.start ≥ (s.seq.length : Int)
  · have hr : p < s.start ∨ s.start + s.seq.length ≤ p := by omega
    constructor
    · unfold getInt; simp only [h, if_true, true_iff]; exact hr
    · unfold setInt; simp only [h, if_true, true_iff]; exact hr
  · have hr : ¬ (p < s.start ∨ s.start + s.seq.length ≤ p) := by omega
    have hlt : (p - s.start).toNat < s.seq.length := by omega
    constructor
    · unfold getInt
      simp only [h, if_false, hr, iff_false]
      rw [List.getElem?_eq_getElem hlt]
      intro hc; cases hc
    · unfold setInt
      simp only [h, if_false, hr, iff_false]
      intro hc; cases hc

/-- `aseq[a:b] = v`: a bound left of the sequence start is refused (`IndexError`); inside the
sequence a value that has neither the width of the window nor length 1 is refused (`ValueError`).
A refused assignment returns no new state (the sequence is untouched). -/
theorem C13_slice_assign_rejects (s : ASeq) (a b : Option Int) (v : List Nat) :
    (((∃ x, a = some x ∧ x < s.start) ∨ (∃ y, b = some y ∧ y < s.start)) →
        setSlice s a b v = .error .indexError) ∧
    (∀ lo hi, lo = a.getD s.start → hi = b.getD (s.start + s.seq.length) →
        s.start ≤ lo → lo ≤ hi → hi ≤ s.start + s.seq.length →
        v.length ≠ (hi - lo).toNat → v.length ≠ 1 → setSlice s a b v = .error .valueError) := by
  constructor
  · rintro (⟨x, rfl, hx⟩ | ⟨y, rfl, hy⟩)
    · unfold setSlice; simp [hx]
    · unfold setSlice
      cases a with
      | none => simp [hy]
      | some x => by_cases hx : x < s.start <;> simp [hx, hy]
  · intro lo hi hlo hhi h1 h2 h3 hv hv1
    have hal : ∀ x, a = some x → s.start ≤ x := by
      intro x hx; subst hx; simp only [Option.getD_some] at hlo; omega
    have hbl : ∀ x, b = some x → s.start ≤ x := by
      intro x hx; subst hx; simp only [Option.getD_some] at hhi; omega
    have hA : (a.map (· - s.start)).getD 0 = lo - s.start := by
      rw [hlo]; cases a <;> simp
    have hB : (b.map (· - s.start)).getD (s.seq.length : Int) = hi - s.start := by
      rw [hhi]; cases b <;> simp <;> omega
    have e1 : lo - s.start = (((lo - s.start).toNat : Nat) : Int) := by omega
    have e2 : hi - s.start = (((hi - s.start).toNat : Nat) : Int) := by omega
    rw [setSlice_eq s a b v hal hbl, hA, hB, e1, e2]
    have hass : assignSlice s.seq (((lo - s.start).toNat : Nat) : Int) (((hi - s.start).toNat : Nat) : Int) v
        = .error .valueError := by
      unfold assignSlice
      rw [normIdx_nat, normIdx_nat]
      have m1 : min (lo - s.start).toNat s.seq.length = (lo - s.start).toNat := by omega
      have m2 : min (hi - s.start).toNat s.seq.length = (hi - s.start).toNat := by omega
      rw [m1, m2]
      have m3 : ¬ ((hi - s.start).toNat < (lo - s.start).toNat) := by omega
      have m4 : ¬ (v.length = (hi - s.start).toNat - (lo - s.start).toNat) := by omega
      simp only [m3, if_false, m4]
      match v, hv1 with
      | [], _ => rfl
      | [_], h => exact absurd rfl h
      | _ :: _ :: _, _ => rfl
    rw [hass]

/-- In-place edits of an annotation: an added feature is contained; deleting an absent feature
is refused with `KeyError`; after a successful deletion the feature is no longer contained and
every feature different from it is kept. -/
theorem C13_annot_add_del (a : Annot) (f : Feature) :
    annotHas (annotAdd a f) f = true ∧
    (annotHas a f = false → annotDel a f = .error .keyError) ∧
    (∀ a', annotDel a f = .ok a' → annotHas a' f = false ∧
        ∀ g, Feature.same f g = false → (g ∈ a' ↔ g ∈ a)) := by
  refine ⟨?_, ?_, ?_⟩
  · unfold annotHas annotAdd
    simp only [List.any_append, List.any_cons, List.any_nil, Bool.or_false, Feature.same_refl, Bool.or_true]
  · intro h; unfold annotDel; simp [h]
  · intro a' h
    unfold annotDel at h
    by_cases hh : annotHas a f = true
    · simp only [hh, if_true, Except.ok.injEq] at h
      subst h
      constructor
      · unfold annotHas
        rw [Bool.eq_false_iff]
        intro hany
        rw [List.any_eq_true] at hany
        obtain ⟨g, hg, hs⟩ := hany
        rw [List.mem_filter] at hg
        simp [hs] at hg
      · intro g hg
        rw [List.mem_filter]
        simp [hg]
    · simp [hh] at h

/-! ## Reverse complement, copy -/

/-- `reverse_complement` never raises on a well-formed annotated sequence, returns the
reverse complement of the sequence with the requested start, and applying it again with the
original start restores the original (annotation, sequence and start). -/
theorem C13_revcomp_involution (s : ASeq) (k : Int) (hwf : Annot.WF s.annot) (hv : ValidSeq s.seq) :
    ∃ r, reverseComplement s k = .ok r ∧ r.start = k ∧ r.seq = revComp s.seq ∧
      Annot.WF r.annot ∧ reverseComplement r s.start = .ok s := by
  have h1 : reverseComplement s k
      = .ok ⟨s.annot.map (revFeature s.seq.length s.start k), revComp s.seq, k⟩ := by
    unfold reverseComplement
    rw [mapME_ok _ (revFeature s.seq.length s.start k) s.annot
      (fun f hf => revFeatureE_eq _ _ _ f (hwf f hf))]
  have hwf' : Annot.WF (s.annot.map (revFeature s.seq.length s.start k)) := by
    intro f' hf'
    simp only [List.mem_map] at hf'
    obtain ⟨f, hf, rfl⟩ := hf'
    exact revFeature_wf _ _ _ f (hwf f hf)
  refine ⟨_, h1, rfl, rfl, hwf', ?_⟩
  unfold reverseComplement
  simp only [revComp_length]
  rw [mapME_ok _ (revFeature s.seq.length k s.start) _
    (fun f hf => revFeatureE_eq _ _ _ f (hwf' f hf))]
  simp only [List.map_map]
  have : (revFeature s.seq.length k s.start ∘ revFeature s.seq.length s.start k) = id := by
    funext f; exact revFeature_revFeature _ _ _ f
  rw [this, List.map_id, revComp_revComp s.seq hv]

/-- `copy()` on the heap model, with the copy path of the code (`copyKinds`, tied to the source
by `C13_gen_copy_table`): the copy reads equal to the original, and writing the sequence or
the annotation through either object never changes what the other one reads. -/
theorem C13_copy_equal_independent (h : Heap) (o : Obj) (s : ASeq) (hr : h.read o = some s) :
    ∃ h' c, h.copyObj copyKinds o = some (h', c) ∧
      h'.read c = some s ∧ h'.read o = some s ∧
      (∀ x, (h'.writeSeq c x).read o = some s) ∧ (∀ a, (h'.writeAnnot c a).read o = some s) ∧
      (∀ x, (h'.writeSeq o x).read c = some s) ∧ (∀ a, (h'.writeAnnot o a).read c = some s) := by
  unfold Heap.read at hr
  cases ha : h.annots[o.annotRef]? with
  | none => simp [ha] at hr
  | some a0 =>
    cases hs : h.seqs[o.seqRef]? with
    | none => simp [ha, hs] at hr
    | some s0 =>
      simp only [ha, hs, Option.some.injEq] at hr
      subst hr
      have hal : o.annotRef < h.annots.length := by
        rcases Nat.lt_or_ge o.annotRef h.annots.length with h' | h'
        · exact h'
        · rw [List.getElem?_eq_none h'] at ha; cases ha
      have hsl : o.seqRef < h.seqs.length := by
        rcases Nat.lt_or_ge o.seqRef h.seqs.length with h' | h'
        · exact h'
        · rw [List.getElem?_eq_none h'] at hs; cases hs
      have ha' : h.annots[o.annotRef] = a0 := by
        rw [List.getElem?_eq_getElem hal] at ha; exact Option.some.inj ha
      have hs' : h.seqs[o.seqRef] = s0 := by
        rw [List.getElem?_eq_getElem hsl] at hs; exact Option.some.inj hs
      refine ⟨⟨h.annots ++ [a0], h.seqs ++ [s0]⟩, ⟨h.annots.length, h.seqs.length, o.start⟩, ?_, ?_, ?_, ?_, ?_, ?_, ?_⟩
      · simp [Heap.copyObj, copyKinds, ha, hs]
      · simp [Heap.read]
      · simp [Heap.read, List.getElem?_append, hal, hsl, ha, hs, ha', hs']
      · intro x
        have : ¬ h.seqs.length = o.seqRef := by omega
        simp [Heap.read, Heap.writeSeq, List.getElem?_set, List.getElem?_append, hal, hsl, ha, hs, ha', hs', this]
      · intro a
        have : ¬ h.annots.length = o.annotRef := by omega
        simp [Heap.read, Heap.writeAnnot, List.getElem?_set, List.getElem?_append, hal, hsl, ha, hs, ha', hs', this]
      · intro x
        have : ¬ o.seqRef = h.seqs.length := by omega
        simp [Heap.read, Heap.writeSeq, List.getElem?_set, List.getElem?_append, this]
      · intro a
        have : ¬ o.annotRef = h.annots.length := by omega
        simp [Heap.read, Heap.writeAnnot, List.getElem?_set, List.getElem?_append, this]

/-! ## Obligations on the tables regenerated from the source (`Gen/C13.lean`) -/

def copyKindOfString : String → CopyKind
  | "copyCall" => .copyCall
  | "plain" => .plain
  | _ => .other

/-- Copy path: every attribute assigned in `AnnotatedSequence.__init__` is handed to the
constructor by `__copy_create__`, built from the same attribute; the two mutable ones
(annotation, sequence) through a `.copy()` call, the integer start as is — i.e. the table is
the `copyKinds` the heap theorem is about. -/
theorem C13_gen_copy_table :
    Gen.C13.copyCreate.map (·.1) = Gen.C13.initFields ∧
    Gen.C13.copyCreate.map (·.2.1) = Gen.C13.initFields ∧
    Gen.C13.initFields = ["F_annotation", "F_sequence", "F_sequence_start"] ∧
    Gen.C13.copyCreate.map (fun t => copyKindOfString t.2.2)
      = [copyKinds.1, copyKinds.2.1, copyKinds.2.2] := by decide

def accessKindOf (fieldKind how : String) : AccessKind :=
  if fieldKind = "mutable" then (if how = "copy" then .copy else .plain) else .frozen

/-- Kind of the accessor `cls.acc` according to the regenerated tables (`plain` if it is missing). -/
def genAccess (cls acc : String) : AccessKind :=
  match Gen.C13.accessors.find? (fun t => t.1 == cls && t.2.1 == acc) with
  | none => .plain
  | some t =>
    match Gen.C13.fieldKinds.find? (fun k => k.1 == cls && k.2.1 == t.2.2.1) with
    | none => .plain
    | some k => accessKindOf k.2.2 t.2.2.2

/-- Accessors.  `Location` and `Feature` objects are shared between an annotation and its copies
(`Annotation.copy()` builds a new set of the *same* features), so no property or `get_*` method of
`Location`, `Feature` or `Annotation` may hand out an internal `dict`/`set`/`list`: every accessor
of an attribute that `__init__` builds as a mutable container returns a copy; and the three
accessors the model uses have exactly the kinds the model assumes. -/
theorem C13_gen_accessors :
    (∀ t ∈ Gen.C13.accessors, t.1 ∈ ["Location", "Feature", "Annotation"] →
        genAccess t.1 t.2.1 ≠ .plain) ∧
    genAccess "Feature" "qual" = qualAccess ∧ genAccess "Feature" "locs" = locsAccess ∧
    genAccess "Annotation" "get_features" = featuresAccess ∧
    (∀ t ∈ Gen.C13.accessors, t.1 = "AnnotatedSequence" →
        t.2.2.1 ∈ Gen.C13.copyCreate.map (·.1)) := by decide

/-- With these accessor kinds, editing whatever `feature.qual`, `feature.locs` or
`annotation.get_features()` handed out changes nothing: neither the object it came from (so the
hash of a feature inside a set is stable) nor — a fortiori — any copy sharing that feature. -/
theorem C13_accessor_edits_isolated (a : Annot) (q : Nat) :
    a.map (mutQualThrough qualAccess q) = a ∧ clearThrough featuresAccess a = a ∧
    a.map (clearLocsThrough locsAccess) = a := by
  refine ⟨?_, rfl, ?_⟩
  · have : mutQualThrough qualAccess q = id := by funext f; rfl
    rw [this, List.map_id]
  · have : clearLocsThrough locsAccess = id := by funext f; rfl
    rw [this, List.map_id]

/-- Flag values printed by the protocol are the `Flag` values of the source, and the flag
rewiring of `reverse_complement` is the involutive `Defect.mirror` of the model. -/
theorem C13_gen_defect_flags :
    Gen.C13.defectFlags = [("NONE", Defect.none.toNat),
      ("MISS_LEFT", ({ Defect.none with missLeft := true }).toNat),
      ("MISS_RIGHT", ({ Defect.none with missRight := true }).toNat),
      ("BEYOND_LEFT", ({ Defect.none with beyondLeft := true }).toNat),
      ("BEYOND_RIGHT", ({ Defect.none with beyondRight := true }).toNat),
      ("UNK_LOC", ({ Defect.none with unkLoc := true }).toNat),
      ("BETWEEN", ({ Defect.none with between := true }).toNat)] ∧
    Gen.C13.strands = ["FORWARD", "REVERSE"] ∧
    (∀ p ∈ Gen.C13.mirrorPairs, (p.2, p.1) ∈ Gen.C13.mirrorPairs) ∧
    (∀ n ∈ (Gen.C13.defectFlags.map (·.1)).tail, n ∈ Gen.C13.mirrorPairs.map (·.1)) ∧
    Gen.C13.mirrorPairs.length = 6 ∧
    (∀ p ∈ Gen.C13.mirrorPairs, p ∈ [("MISS_LEFT", "MISS_RIGHT"), ("MISS_RIGHT", "MISS_LEFT"),
      ("BEYOND_LEFT", "BEYOND_RIGHT"), ("BEYOND_RIGHT", "BEYOND_LEFT"), ("UNK_LOC", "UNK_LOC"),
      ("BETWEEN", "BETWEEN")]) := by decide

/-- The complement table of the source is the model's, maps the unambiguous alphabet into
itself and is an involution on all 15 codes. -/
theorem C13_gen_complement :
    Gen.C13.complCodes = complTable ∧ Gen.C13.alphabetAmb.toList = letters ∧
    Gen.C13.alphabetUnamb.toList = letters.take 4 ∧
    (∀ c, c < 4 → compl c < 4) ∧ (∀ c, c < 15 → compl (compl c) = c) := by decide

/-! ## The code the model was written against (structural normal forms, regenerated on every run) -/

/-- Same functions, in the same order, as in the reviewed snapshot. -/
theorem C13_gen_nf_keys :
    Gen.C13.nfNames = Expected.nfNames := rfl

/-- Constructors, equality and hashing of Location / Feature / Annotation / AnnotatedSequence:
`first > last` → ValueError, `len(locs) == 0` → ValueError, `frozenset(locs)`, deep-copied qualifiers,
`set(features)`, attribute-wise `==`, the hashed tuples. -/
theorem C13_gen_nf_construct :
    Gen.C13.nf_Location_init = Expected.nf_Location_init ∧
    Gen.C13.nf_Location_eq = Expected.nf_Location_eq ∧
    Gen.C13.nf_Location_hash = Expected.nf_Location_hash ∧
    Gen.C13.nf_Feature_init = Expected.nf_Feature_init ∧
    Gen.C13.nf_Feature_copy_create = Expected.nf_Feature_copy_create ∧
    Gen.C13.nf_Feature_eq = Expected.nf_Feature_eq ∧
    Gen.C13.nf_Feature_hash = Expected.nf_Feature_hash ∧
    Gen.C13.nf_Feature_get_location_range = Expected.nf_Feature_get_location_range ∧
    Gen.C13.nf_Annotation_init = Expected.nf_Annotation_init ∧
    Gen.C13.nf_Annotation_copy_create = Expected.nf_Annotation_copy_create ∧
    Gen.C13.nf_Annotation_eq = Expected.nf_Annotation_eq ∧
    Gen.C13.nf_AnnotatedSequence_init = Expected.nf_AnnotatedSequence_init ∧
    Gen.C13.nf_AnnotatedSequence_copy_create = Expected.nf_AnnotatedSequence_copy_create ∧
    Gen.C13.nf_AnnotatedSequence_eq = Expected.nf_AnnotatedSequence_eq := ⟨rfl, rfl, rfl, rfl, rfl, rfl, rfl, rfl, rfl, rfl, rfl, rfl, rfl, rfl⟩

/-- `Annotation.__getitem__`: the bounds (`±inf`, `stop - 1`), the three in-scope comparisons, the two cut
tests with the flag each one sets, `len(locs_in_scope) > 0`, TypeError for a non-slice — what `sliceLocE`,
`sliceFeatureE`, `sliceAnnotE` model. -/
theorem C13_gen_nf_annotation_getitem :
    Gen.C13.nf_Annotation_getitem = Expected.nf_Annotation_getitem := rfl

/-- In-place edits and queries of an annotation (`annotAdd`, `annotDel`, `annotHas`, `annotCount`). -/
theorem C13_gen_nf_annotation_edit :
    Gen.C13.nf_Annotation_add_feature = Expected.nf_Annotation_add_feature ∧
    Gen.C13.nf_Annotation_del_feature = Expected.nf_Annotation_del_feature ∧
    Gen.C13.nf_Annotation_add = Expected.nf_Annotation_add ∧
    Gen.C13.nf_Annotation_iadd = Expected.nf_Annotation_iadd ∧
    Gen.C13.nf_Annotation_delitem = Expected.nf_Annotation_delitem ∧
    Gen.C13.nf_Annotation_iter = Expected.nf_Annotation_iter ∧
    Gen.C13.nf_Annotation_contains = Expected.nf_Annotation_contains ∧
    Gen.C13.nf_Annotation_len = Expected.nf_Annotation_len := ⟨rfl, rfl, rfl, rfl, rfl, rfl, rfl, rfl⟩

/-- `AnnotatedSequence.__getitem__` (`getSlice`, `getInt`, `getFeature`): the `< sequence_start` guards and
their IndexError, `- sequence_start` / `+ 1` arithmetic, the open-stop substitution `len + sequence_start`,
the strand check, both sort keys and `reverse=True`, reverse → `.reverse().complement()`. -/
theorem C13_gen_nf_aseq_getitem :
    Gen.C13.nf_AnnotatedSequence_getitem = Expected.nf_AnnotatedSequence_getitem := rfl

/-- `AnnotatedSequence.__setitem__` (`setFeature`/`setLoop`, `setSlice`, `setInt`). -/
theorem C13_gen_nf_aseq_setitem :
    Gen.C13.nf_AnnotatedSequence_setitem = Expected.nf_AnnotatedSequence_setitem := rfl

/-- `reverse_complement` (`revLocE`, `reverseComplement`): position formulas, strand flip, `MIRROR` of the
defect (its table is `C13_gen_defect_flags`), the requested start handed to the result. -/
theorem C13_gen_nf_revcomp :
    Gen.C13.nf_AnnotatedSequence_reverse_complement = Expected.nf_AnnotatedSequence_reverse_complement := rfl

/-- The `Sequence` / `NucleotideSequence` helpers the operations rely on (`copy`, `reverse`, slicing,
concatenation, `==`, `complement`, the alphabet test of `__copy_create__`). -/
theorem C13_gen_nf_sequence :
    Gen.C13.nf_Sequence_copy = Expected.nf_Sequence_copy ∧
    Gen.C13.nf_Sequence_reverse = Expected.nf_Sequence_reverse ∧
    Gen.C13.nf_Sequence_getitem = Expected.nf_Sequence_getitem ∧
    Gen.C13.nf_Sequence_len = Expected.nf_Sequence_len ∧
    Gen.C13.nf_Sequence_eq = Expected.nf_Sequence_eq ∧
    Gen.C13.nf_Sequence_add = Expected.nf_Sequence_add ∧
    Gen.C13.nf_NucleotideSequence_copy_create = Expected.nf_NucleotideSequence_copy_create ∧
    Gen.C13.nf_NucleotideSequence_complement = Expected.nf_NucleotideSequence_complement := ⟨rfl, rfl, rfl, rfl, rfl, rfl, rfl, rfl⟩

/-- Default values of the public signatures (what the adapter leaves out and the model assumes: forward
strand, no defect, no qualifiers, no features, sequence start 1 twice, `reverse(copy=True)`), and the
sentinels / exclusive stop of `Annotation.get_location_range` (`annotRange`). -/
theorem C13_gen_defaults :
    Gen.C13.defaults = Expected.defaults ∧ Gen.C13.rangeFacts = Expected.rangeFacts ∧
    Gen.C13.rangeFacts = ["-sys.maxsize", "sys.maxsize", "stop = last + 1"] ∧
    (annotRange [] = (maxsize, -maxsize + 1)) ∧
    (annotRange [⟨0, 0, [⟨2 ^ 70, 2 ^ 70 + 3, .fwd, Defect.none⟩, ⟨-(2 ^ 65), 4, .rev, Defect.none⟩]⟩] = (-(2 ^ 65), 2 ^ 70 + 4)) := by decide

/-! ## Non-vacuity -/

private def exLoc : Loc := ⟨1, 10, .fwd, Defect.none⟩
private def exSeq : ASeq :=
  ⟨[⟨0, 0, [⟨5, 8, .fwd, Defect.none⟩, ⟨11, 14, .fwd, Defect.none⟩]⟩], [0, 1, 2, 3, 0, 1, 2, 3, 0, 1], 5⟩

-- a location is really cut, and an empty slice really yields nothing
example : sliceLoc 3 6 exLoc = some ⟨3, 6, .fwd, { Defect.none with missLeft := true, missRight := true }⟩ := by decide
example : sliceAnnotE (some 3) (some 3) [⟨0, 0, [exLoc]⟩] = .ok [] := by decide
-- the witness of the open-stop defect: aseq[6:] with start 5 keeps the location 11-14
example : (getSlice exSeq (some 6) none).toOption.map (fun r => (r.start, r.seq, r.annot.map (·.locs.map fun l => (l.first, l.last))))
    = some (6, [1, 2, 3, 0, 1, 2, 3, 0, 1], [[(6, 8), (11, 14)]]) := by decide
-- feature read / write on two locations given in the "wrong" order
example : getFeature exSeq ⟨0, 0, [⟨11, 12, .fwd, Defect.none⟩, ⟨5, 6, .fwd, Defect.none⟩]⟩ = .ok [0, 1, 2, 3] := by decide
example : (setFeature exSeq ⟨0, 0, [⟨11, 12, .fwd, Defect.none⟩, ⟨5, 6, .fwd, Defect.none⟩]⟩ [3, 3, 2, 2]).1.seq
    = [3, 3, 2, 3, 0, 1, 2, 2, 0, 1] := by decide
example : getFeature exSeq ⟨0, 0, [⟨5, 6, .rev, Defect.none⟩, ⟨11, 12, .rev, Defect.none⟩]⟩ = .ok [0, 1, 2, 3] := by decide
example : (reverseComplement exSeq 1).toOption.map (fun r => (r.seq, r.annot.map (·.locs.map fun l => (l.first, l.last))))
    = some ([2, 3, 0, 1, 2, 3, 0, 1, 2, 3], [[(7, 10), (1, 4)]]) := by decide
-- the hypotheses of the assignment / involution / pairing theorems are satisfiable
example : True := by
  have := C13_feature_assign exSeq ⟨0, 0, [⟨11, 12, .fwd, Defect.none⟩, ⟨5, 6, .fwd, Defect.none⟩]⟩ .fwd [3, 3, 2, 2]
    (by decide) (by decide) (by decide) (by decide) (by decide)
  trivial
example : True := by
  have := C13_revcomp_involution exSeq 1 (by decide) (by decide)
  trivial
example : True := by
  have := C13_slice_pairing exSeq (some 6) none (by decide) 6 15 rfl (by decide) (by decide) (by decide)
  trivial
-- an accessor handing out the internal dictionary (seeded change C13-13) would let an edit through
example : mutQualThrough .plain 9 ⟨0, 1, [exLoc]⟩ ≠ ⟨0, 1, [exLoc]⟩ := by decide
-- slice / int assignment and annotation edits on concrete data
example : (setSlice exSeq (some 6) (some 8) [3, 3]).toOption.map (·.seq) = some [0, 3, 3, 3, 0, 1, 2, 3, 0, 1] := by decide
example : (setSlice exSeq none (some 7) [3, 3]).toOption.map (·.seq) = some [3, 3, 2, 3, 0, 1, 2, 3, 0, 1] := by decide
example : setSlice exSeq (some 6) (some 8) [3, 3, 3] = .error .valueError := by decide
example : (setInt exSeq 14 2).toOption.map (·.seq) = some [0, 1, 2, 3, 0, 1, 2, 3, 0, 2] := by decide
example : annotDel exSeq.annot ⟨0, 0, [⟨11, 14, .fwd, Defect.none⟩, ⟨5, 8, .fwd, Defect.none⟩]⟩ = .ok [] := by decide
example : annotDel exSeq.annot ⟨0, 0, [⟨5, 8, .fwd, Defect.none⟩]⟩ = .error .keyError := by decide
example : annotRange exSeq.annot = (5, 15) ∧ annotCount (exSeq.annot ++ exSeq.annot) = 1 := by decide
-- refusals and formerly excluded regions on concrete data
example : getInt exSeq 4 = .error .indexError ∧ getInt exSeq 15 = .error .indexError ∧ getInt exSeq 14 = .ok 1 := by decide
example : getSlice exSeq none (some 3) = .error .indexError ∧ getSlice exSeq (some 6) (some 3) = .error .indexError := by decide
example : (getSlice exSeq (some 12) (some 40)).toOption.map (fun r => (r.start, r.seq)) = some (12, [3, 0, 1]) := by decide
example : (getSlice exSeq (some 9) (some 7)).toOption.map (fun r => (r.start, r.seq, r.annot)) = some (9, [], []) := by decide
example : getFeature exSeq ⟨0, 0, [⟨5, 6, .fwd, Defect.none⟩, ⟨8, 9, .rev, Defect.none⟩]⟩ = .error .valueError := by decide
example : getFeature exSeq ⟨0, 0, [⟨4, 6, .fwd, Defect.none⟩]⟩ = .error .indexError := by decide
example : setFeature exSeq ⟨0, 0, [⟨5, 6, .fwd, Defect.none⟩, ⟨3, 4, .fwd, Defect.none⟩]⟩ [1, 1, 1, 1] = (exSeq, some .indexError) := by decide
-- equal first: ordered by the other end
example : getFeature exSeq ⟨0, 0, [⟨5, 7, .fwd, Defect.none⟩, ⟨5, 5, .fwd, Defect.none⟩]⟩ = .ok [0, 0, 1, 2] := by decide
-- an open start cuts nothing, however far left the location lies (the former sentinel witness)
example : sliceAnnotE none (some 10) [⟨0, 0, [⟨-9223372036854775812, 3, .fwd, Defect.none⟩]⟩]
    = .ok [⟨0, 0, [⟨-9223372036854775812, 3, .fwd, Defect.none⟩]⟩] := by decide
example : mkLoc 5 4 .fwd Defect.none = .error .valueError := by decide
-- the heap copy is usable and fresh
example : ((Heap.mk [[]] [[0, 1]]).copyObj copyKinds ⟨0, 0, 1⟩).map (·.2) = some ⟨1, 1, 1⟩ := by decide
-- … and with the bound-method table of the unrepaired code there is no usable copy
example : (Heap.mk [[]] [[0, 1]]).copyObj (.copyCall, .other, .plain) ⟨0, 0, 1⟩ = none := by decide

end BiotiteModel.C13

import BiotiteModel.Proofs.C20
import BiotiteModel.Proofs.C20Web
import BiotiteModel.Gen.C20
/-!
# C20 — property theorems (application wrappers follow their life cycle and always clean up)

Only property statements and their non-vacuity examples live here; helper lemmas are in `Proofs/C20.lean`.
All theorems quantify over *every* wrapper kind, *every* scripted behaviour of the external program, every number of
sequences and every history of calls / environment events (no length bound).

The model is the code *after* the four `fix:` commits listed in notes/C20.md; before them `C20_cleanup_once`
and `C20_refusal_pure` were false (witnesses are kept as regression cases in known_findings.d/C20.json).
-/
namespace BiotiteModel.C20
open BiotiteModel.Gen.C20 (methods assigns skeleton tempFilesCreated refusalPolls bases internalCalls)

/-! ## Ties to the source (tables regenerated from `/repo` on every run) -/

/-- The model's guard table rendered with the source's state names. -/
def tableAsStrings : List (String × String × Option (List String)) :=
  table.map fun (c, m, g) => (c, m, g.map (·.map AppState.name))

/-- The allowed-call table the state machine consults **is** the table of `@requires_state(...)` decorators (and of
undecorated public methods) found in the anchored classes. -/
theorem C20_table_tie : tableAsStrings = methods := by decide +kernel

/-- Every `self._state = AppState.X` assignment in the anchored files is one the model transcribes
(`start`: CANCELLED on a failed launch, else RUNNING; `join`: FINISHED, then CANCELLED or JOINED; `cancel`; the lazy
RUNNING→FINISHED refresh) — no other method touches the state. -/
theorem C20_assigns_tie : assigns =
    [("Application", "__init__", ["CREATED"]), ("Application", "cancel", ["CANCELLED"]),
     ("Application", "get_app_state", ["FINISHED"]), ("Application", "join", ["CANCELLED", "JOINED"]),
     ("Application", "start", ["CANCELLED", "RUNNING"]),
     ("LocalApp", "join", ["FINISHED", "CANCELLED", "JOINED"]),
     ("_DumpApp", "join", ["FINISHED", "CANCELLED", "JOINED"])] := by decide

/-- The life-cycle skeleton of the transcribed methods: where `clean_up()`, `cancel()`, `evaluate()`, `kill()`,
`chdir()` are called relative to the `try`/`except`/`else`/`finally` blocks, the state assignments and the `raise`s; and
that every overriding `run`/`evaluate`/`clean_up` calls its `super()`. -/
theorem C20_skeleton_tie : skeleton =
    [("Application", "cancel", ["assign:CANCELLED", "call:clean_up"]),
     ("Application", "clean_up", []),
     ("Application", "evaluate", []),
     ("Application", "get_app_state", ["if{", "call:is_finished", "assign:FINISHED", "}"]),
     ("Application", "is_finished", []),
     ("Application", "join", ["while{", "call:get_app_state", "if{", "call:cancel", "raise:TimeoutError", "}", "}", "try{", "call:evaluate", "}", "handler:AppStateError{", "raise", "}", "handler:*{", "assign:CANCELLED", "call:clean_up", "raise", "}", "assign:JOINED", "call:clean_up"]),
     ("Application", "run", []),
     ("Application", "start", ["try{", "call:run", "}", "handler:*{", "assign:CANCELLED", "try{", "call:clean_up", "}", "handler:Exception{", "}", "raise", "}", "assign:RUNNING"]),
     ("BlastWebApp", "clean_up", []),
     ("BlastWebApp", "evaluate", []),
     ("BlastWebApp", "is_finished", ["if{", "raise:ValueError", "}"]),
     ("BlastWebApp", "run", ["if{", "raise:ValueError", "}"]),
     ("ClustalOmegaApp", "clean_up", ["super:clean_up", "call:cleanup_tempfile", "call:cleanup_tempfile", "call:cleanup_tempfile", "call:cleanup_tempfile"]),
     ("ClustalOmegaApp", "evaluate", ["super:evaluate"]),
     ("ClustalOmegaApp", "run", ["super:run"]),
     ("DsspApp", "clean_up", ["super:clean_up", "call:cleanup_tempfile", "call:cleanup_tempfile"]),
     ("DsspApp", "evaluate", ["super:evaluate", "if{", "raise:ValueError", "}"]),
     ("DsspApp", "run", ["super:run"]),
     ("LocalApp", "clean_up", ["if{", "call:get_app_state", "proc:kill", "}"]),
     ("LocalApp", "evaluate", ["super:evaluate", "if{", "raise:SubprocessError", "}"]),
     ("LocalApp", "is_finished", ["if{", "proc:communicate", "}"]),
     ("LocalApp", "join", ["try{", "proc:communicate", "}", "handler:TimeoutExpired{", "call:cancel", "raise:TimeoutError", "}", "assign:FINISHED", "try{", "call:evaluate", "}", "handler:AppStateError{", "raise", "}", "handler:*{", "assign:CANCELLED", "call:clean_up", "raise", "}", "assign:JOINED", "call:clean_up"]),
     ("LocalApp", "run", ["call:chdir", "try{", "call:Popen", "}", "finally{", "call:chdir", "}"]),
     ("MSAApp", "clean_up", ["super:clean_up", "call:cleanup_tempfile", "call:cleanup_tempfile", "call:cleanup_tempfile"]),
     ("MSAApp", "evaluate", ["super:evaluate"]),
     ("MSAApp", "run", ["super:run"]),
     ("MafftApp", "clean_up", ["super:clean_up", "try{", "call:remove", "}", "handler:FileNotFoundError{", "}"]),
     ("MafftApp", "evaluate", ["super:evaluate"]),
     ("MafftApp", "run", ["super:run"]),
     ("Muscle5App", "run", ["super:run"]),
     ("MuscleApp", "clean_up", ["super:clean_up", "call:cleanup_tempfile", "call:cleanup_tempfile"]),
     ("MuscleApp", "evaluate", ["super:evaluate"]),
     ("MuscleApp", "run", ["super:run"]),
     ("RNAalifoldApp", "clean_up", ["super:clean_up", "call:cleanup_tempfile", "call:cleanup_tempfile"]),
     ("RNAalifoldApp", "evaluate", ["super:evaluate"]),
     ("RNAalifoldApp", "run", ["super:run"]),
     ("RNAfoldApp", "clean_up", ["super:clean_up", "call:cleanup_tempfile"]),
     ("RNAfoldApp", "evaluate", ["super:evaluate"]),
     ("RNAfoldApp", "run", ["super:run"]),
     ("RNAplotApp", "clean_up", ["super:clean_up", "call:cleanup_tempfile"]),
     ("RNAplotApp", "evaluate", ["super:evaluate"]),
     ("RNAplotApp", "run", ["super:run"]),
     ("TantanApp", "clean_up", ["super:clean_up", "call:cleanup_tempfile", "if{", "call:cleanup_tempfile", "}"]),
     ("TantanApp", "evaluate", ["super:evaluate"]),
     ("TantanApp", "run", ["super:run"]),
     ("VinaApp", "clean_up", ["super:clean_up", "call:cleanup_tempfile", "call:cleanup_tempfile", "call:cleanup_tempfile", "call:cleanup_tempfile"]),
     ("VinaApp", "evaluate", ["super:evaluate"]),
     ("VinaApp", "run", ["super:run"]),
     ("_DumpApp", "clean_up", ["if{", "call:get_app_state", "proc:kill", "}"]),
     ("_DumpApp", "evaluate", ["super:evaluate", "if{", "raise:SubprocessError", "}"]),
     ("_DumpApp", "is_finished", ["if{", "proc:communicate", "}"]),
     ("_DumpApp", "join", ["try{", "proc:communicate", "}", "handler:TimeoutExpired{", "call:cancel", "raise:TimeoutError", "}", "assign:FINISHED", "try{", "call:evaluate", "}", "handler:AppStateError{", "raise", "}", "handler:*{", "assign:CANCELLED", "call:clean_up", "raise", "}", "assign:JOINED", "call:clean_up"]),
     ("_DumpApp", "run", ["call:Popen"])] := by decide

/-- Number of `cleanup_tempfile(...)` calls in a class's own `clean_up`. -/
def cleanedBy (cls : String) : Nat :=
  match skeleton.find? (fun e => e.1 = cls ∧ e.2.1 = "clean_up") with
  | some e => (e.2.2.filter (· = "call:cleanup_tempfile")).length
  | none => 0

/-- Every class removes in its own `clean_up` exactly as many temp files as its `__init__` creates, and the model's
per-wrapper file counts are the sums along the inheritance chain. -/
theorem C20_tempfiles_tie :
    (∀ e ∈ tempFilesCreated, cleanedBy e.1 = e.2) ∧
    (∀ w : Wrapper, w ≠ .base →
      initFiles w + (if w = .tantan then 1 else 0) =     -- TantanApp's matrix file exists only if a matrix is passed
        (w.mro.map fun c => ((tempFilesCreated.find? (·.1 = c)).map (·.2)).getD 0).sum) := by
  refine ⟨by decide, fun w hw => ?_⟩
  cases w <;> first | exact absurd rfl hw | decide

/-- Single-inheritance parent of a class according to the source. -/
def parentOf (c : String) : Option String := (bases.find? (·.1 = c)).bind (·.2.head?)

/-- Method resolution order of a class computed from the regenerated `bases` (fuel = depth of the hierarchy). -/
def mroOf : Nat → String → List String
  | 0, c => [c]
  | n + 1, c => match parentOf c with
    | some p => c :: mroOf n p
    | none => [c]

/-- The model's hand-written MROs are the source's inheritance chains. -/
theorem C20_mro_tie : ∀ w : Wrapper, w ≠ .base → mroOf 6 (w.mro.headD "") = w.mro := by
  intro w hw
  cases w <;> first | exact absurd rfl hw | decide

/-- State(s) the wrapper is in while one of its hooks runs: `run` ← `start` (CREATED), `is_finished` ← `get_app_state`
(RUNNING), `evaluate` ← `join` (FINISHED), `clean_up` (JOINED or CANCELLED). -/
def ctxStates : String → List AppState
  | "run" => [.created]
  | "is_finished" => [.running]
  | "evaluate" => [.finished]
  | "clean_up" => [.joined, .cancelled]
  | _ => []

/-- For a concrete class `cls`: a guarded public method that some class in its MRO calls on `self` inside a hook is
allowed in the state the hook runs in. -/
def callOk (cls : String) (e : String × String × String) : Bool :=
  let mro := mroOf 6 cls
  !(mro.contains e.1) ||
    match resolve table mro e.2.2 with
    | some g => (ctxStates e.2.1).all (passes g)
    | none => true

/-- **No hook of any `Application` subclass in `biotite.application` can trip over its own state guard**: every
guarded method called on `self` inside `run` / `is_finished` / `evaluate` / `clean_up` (regenerated list
`internalCalls`) allows the state in which that hook runs — for all 18 classes (4 MSA wrappers, DSSP, tantan, ViennaRNA ×3,
Vina, SRA ×3, BLAST, and the bases).  In particular `evaluate()` cannot raise `AppStateError` through a guard. -/
theorem C20_internal_calls_allowed :
    (bases.map (·.1)).all (fun c => internalCalls.all (callOk c)) = true := by decide +kernel

/-- The `except AppStateError: raise` branch of `join` (which would leave the state FINISHED without clean-up) is
unreachable: in the model no `evaluate()` outcome is a state error — the only source of `AppStateError` in the anchored
code is a guard, and `C20_internal_calls_allowed` shows no guard can fire inside a hook — hence `join` never ends with a
state error once it passed its own guard, and always ends JOINED or CANCELLED (or diverges). -/
theorem C20_join_state_error_unreachable (s : St) :
    (∀ e, evaluate s = .error e → e ≠ .stateError) ∧
    (joinTail s).2 ≠ .err .stateError ∧
    (∀ t, tableAllows s.w (.join t) s.state = true → (step s (.join t)).2 ≠ .err .stateError) := by
  refine ⟨fun e he => ?_, joinTail_res s, fun t ht h => ?_⟩
  · rcases evaluate_err s e he with h | h <;> simp [h, errSubprocess, errEval]
  · have := (step_refused_iff s (.join t)).1 h
    simp [ht] at this

/-! ### Literals and structural facts of the source that the model hard-codes (regenerated with `ast`) -/

/-- **Every literal the model relies on is the source's.**  Default arguments (`bin_path`, `timeout`, `iteration`,
`version_option`, `obey_rules`), comparison operators and constants of guards (`exit_code != 0`, `len(sequences) < 2`,
`major_version != 3`, `major_version < 5`, `gap_penalty > 0`, `timeout is not None and … > timeout`, `not self._mbed`,
`self._tree is None`), the order of checks and steps (validate-then-store in `set_gap_penalty`, request → `_contact` →
`_request`, `start → join → get_alignment` in `align`), loop domains and index expressions of `MSAApp.evaluate`
(`seq_dict[str(i)]`, length check *inside* the row loop, `_order[i] = int(seq_index)`), which process call `join` makes
(`communicate(timeout=timeout)`), what `clean_up` does to the child (`kill()`), which directory `run` restores, MAFFT's
label prefix pattern, the option strings of every command line (what the fake programs key on), the exception classes. -/
theorem C20_gen_facts : BiotiteModel.Gen.C20.facts =
    [("AppState.members", "CREATED,RUNNING,FINISHED,JOINED,CANCELLED"),
     ("AppStateError.bases", "Exception"),
     ("TimeoutError.bases", "Exception"),
     ("VersionError.bases", "Exception"),
     ("Application.join.defaults", "timeout=None"),
     ("Application.join.cancels-when", "p0 is not None & self.get_app_state() != AppState.FINISHED & time.time() - self.START_TIME > p0"),
     ("Application.join.then-raises", "TimeoutError"),
     ("Application.get_app_state.finished-when", "self.STATE == AppState.RUNNING & self.is_finished()"),
     ("requires_state.refuses-when", "not v0.STATE & app_state"),
     ("LocalApp.__init__.exec_dir", "getcwd()"),
     ("LocalApp.run.restores", "the directory read at entry"),
     ("LocalApp.run.chdir-to", "self.EXEC_DIR"),
     ("LocalApp.run.command", "[self.BIN_PATH] + self.OPTIONS + self.ARGUMENTS"),
     ("LocalApp.join.defaults", "timeout=None"),
     ("LocalApp.join.process-calls", "self.PROCESS.communicate(timeout=p0)"),
     ("LocalApp.evaluate.fail-op", "NotEq"),
     ("LocalApp.evaluate.fail-const", "0"),
     ("LocalApp.evaluate.raises", "SubprocessError"),
     ("LocalApp.clean_up.when", "self.PROCESS is not None & self.get_app_state() == AppState.CANCELLED"),
     ("LocalApp.clean_up.action", "self.PROCESS.kill()"),
     ("LocalApp.is_finished.calls", "self.PROCESS.poll() / self.PROCESS.communicate()"),
     ("get_version.defaults", "version_option='--version'"),
     ("cleanup_tempfile.tolerates", "FileNotFoundError"),
     ("localapp.imports-from-application", "AppState,AppStateError,Application,requires_state"),
     ("MSAApp.__init__.defaults", "matrix=None"),
     ("MSAApp.__init__.first-check", "len(p0) Lt 2"),
     ("MSAApp.__init__.raises-in-order", "ValueError,ValueError,ValueError,TypeError,TypeError,TypeError,TypeError"),
     ("MSAApp.__init__.tempfile-suffixes", "'.fa','.fa','.mat'"),
     ("MSAApp.evaluate.row-loop", "for v3 in range(len(self.SEQUENCES))"),
     ("MSAApp.evaluate.row-lookup", "v2[v3] = v1[str(v3)]"),
     ("MSAApp.evaluate.length-check-in-loop", "symbols of the row NotEq len(input)"),
     ("MSAApp.evaluate.length-check-raises", "ValueError"),
     ("MSAApp.evaluate.order", "order[j] = int(key j) over v1"),
     ("MSAApp.evaluate.rows-size", "[None] * len(v1)"),
     ("MSAApp.run.names", "v1[str(v2)] = str(v3)"),
     ("MSAApp.align.defaults", "bin_path=None,matrix=None"),
     ("MSAApp.align.steps", "start / join / get_alignment"),
     ("MSAApp.get_matrix_file_path", "None unless a matrix was given"),
     ("ClustalOmegaApp.__init__.defaults", "bin_path='clustalo',matrix=None"),
     ("ClustalOmegaApp.run.options", "--distmat-in,--distmat-out,--force,--full,--guidetree-in,--guidetree-out,--in,--out,--output-order=tree-order,--seqtype"),
     ("ClustalOmegaApp.evaluate.tests", "not self.A1 / self.A3 is None"),
     ("ClustalOmegaApp.evaluate.distmat", "np.loadtxt skiprows=1"),
     ("ClustalOmegaApp.evaluate.distmat-columns", "(:, 1:)"),
     ("ClustalOmegaApp.get_distance_matrix.test", "self.A1"),
     ("ClustalOmegaApp.run.tests", "self.get_seqtype() == 'protein' / self.A3 is None / not self.A1 / self.A2 is not None / self.A3 is not None"),
     ("ClustalOmegaApp.super-matrix", "None"),
     ("MuscleApp.__init__.defaults", "bin_path='muscle',matrix=None"),
     ("MuscleApp.run.options", "-center,-gapextend,-gapopen,-hydrofactor,-in,-matrix,-out,-quiet,-seqtype,-tree1,-tree2"),
     ("MuscleApp.version-probe", "get_version(p1, '-version')"),
     ("MuscleApp.version-test", "NotEq 3"),
     ("MuscleApp.version-raises", "VersionError"),
     ("MuscleApp.version-before-super", "True"),
     ("MuscleApp.set_gap_penalty.branches", "[isinstance(p0, numbers.Real)] check,store,store | p0 > 0 || [isinstance(p0, Sequence)] check,store,store | p0[0] > 0 or p0[1] > 0"),
     ("MuscleApp.get_guide_tree.defaults", "iteration='identity'"),
     ("MuscleApp.get_guide_tree.tests", "p0 == 'kmer'->return self.A3 / p0 == 'identity'->return self.A4"),
     ("MuscleApp.run.gap-format", ".1f"),
     ("MuscleApp.align.defaults", "bin_path=None,matrix=None,gap_penalty=None"),
     ("Muscle5App.__init__.defaults", "bin_path='muscle'"),
     ("Muscle5App.run.options", "-,-amino,-consiters,-nt,-output,-refineiters,-threads"),
     ("Muscle5App.version-probe", "get_version(p1, '-version')"),
     ("Muscle5App.version-test", "Lt 5"),
     ("Muscle5App.version-raises", "VersionError"),
     ("Muscle5App.version-before-super", "True"),
     ("Muscle5App.align.defaults", "bin_path='muscle'"),
     ("MafftApp.__init__.defaults", "bin_path='mafft',matrix=None"),
     ("MafftApp.run.options", "--aamatrix,--amino,--auto,--nuc,--quiet,--reorder,--treeout"),
     ("MafftApp.prefix-pattern", "\\d*_"),
     ("MafftApp.tree-file", "self.get_input_file_path() + '.tree'"),
     ("MafftApp.evaluate.writes-stdout-before-super", "True"),
     ("TantanApp.__init__.defaults", "matrix=None,bin_path='tantan'"),
     ("TantanApp.run.options", "-m,-p,-x"),
     ("TantanApp.matrix-file-created", "matrix is None"),
     ("WebApp.__init__.defaults", "obey_rules=True"),
     ("RuleViolationError.bases", "Exception"),
     ("BlastWebApp.wait_interval", "BlastWebApp._contact_delay"),
     ("BlastWebApp.__init__.defaults", "database='nr',app_url=_ncbi_url,obey_rules=True,mail='padix.key@gmail.com'"),
     ("BlastWebApp.run.order", "requests.get,self._contact,self._request"),
     ("BlastWebApp.is_finished.order", "requests.get,self._contact"),
     ("map_matrix.none-test", "p0 is None->TypeError"),
     ("map_matrix.corner", "upper-left square = p0.score_matrix()")] := by decide +kernel

/-- Value of a regenerated fact. -/
def fact (k : String) : String := ((BiotiteModel.Gen.C20.facts.find? (·.1 = k)).map (·.2)).getD ""

/-- Meaning of a Python comparison operator (`ast` class name) on integers. -/
def cmpHolds (op : String) (a b : Int) : Bool :=
  if op = "NotEq" then a ≠ b else if op = "Eq" then a = b else if op = "Lt" then a < b else if op = "LtE" then a ≤ b
  else if op = "Gt" then a > b else if op = "GtE" then a ≥ b else false

/-- Exit status the scripted programs end with. -/
def exitStatus : Tool → Int
  | .exit3 => 3 | .sigkill => -9 | _ => 0

/-- **The model's "failing exit" is the source's test applied to the programs' exit statuses**: evaluating the regenerated
operator and constant of `LocalApp.evaluate` (`exit_code != 0`) on 0, 3 and −9 gives exactly `failingExit`; and the model's
states are the members of the regenerated `AppState` enum, in order. -/
theorem C20_gen_exit_code_and_states :
    (∀ t : Tool, cmpHolds BiotiteModel.Gen.C20.exitFailTest.1 (exitStatus t) BiotiteModel.Gen.C20.exitFailTest.2 = failingExit t) ∧
    BiotiteModel.Gen.C20.minSequencesTest = ("Lt", 2) ∧
    BiotiteModel.Gen.C20.muscle3VersionRefused = ("NotEq", 3) ∧ BiotiteModel.Gen.C20.muscle5VersionRefused = ("Lt", 5) ∧
    ([AppState.created, .running, .finished, .joined, .cancelled].map AppState.name).foldl
      (fun a b => if a = "" then b else a ++ "," ++ b) "" = fact "AppState.members" := by
  refine ⟨fun t => ?_, by decide, by decide, by decide, by decide +kernel⟩
  cases t <;> decide

/-- The refusal branch of `requires_state` does not call `get_app_state()` / `is_finished()`. -/
theorem C20_refusal_no_poll : refusalPolls = false := by decide

/-! ## Life cycle -/

/-- A call is refused with `AppStateError` exactly when the table forbids it in the current state — for every wrapper,
state, environment and call (an allowed call may still fail for another reason, never with a state error). -/
theorem C20_allowed (s : St) (c : Call) :
    (step s c).2 = .err .stateError ↔ tableAllows s.w c s.state = false :=
  step_refused_iff s c

/-- A refused call changes nothing at all: not the state flag, no resource, no option, no result. -/
theorem C20_refusal_pure (s : St) (c : Call) (h : (step s c).2 = .err .stateError) : (step s c).1 = s :=
  step_refused_pure s c h

/-- The life cycle the table amounts to for the three transitions (any wrapper). -/
theorem C20_lifecycle (w : Wrapper) (st : AppState) :
    (tableAllows w .start st = true ↔ st = .created) ∧
    (∀ t, tableAllows w (.join t) st = true ↔ (st = .running ∨ st = .finished)) ∧
    (tableAllows w .cancel st = true ↔ (st = .running ∨ st = .finished)) ∧
    tableAllows w .getState st = true := by
  simp only [tableAllows, Call.methodName, guard_start, guard_join, guard_cancel, guard_state]
  exact ⟨passes_created st, fun _ => passes_rf st, passes_rf st, rfl⟩

/-- Result getters of the MSA wrappers succeed only in the JOINED state … -/
theorem C20_results_only_after_join (s : St) (m : String) (v : String)
    (hm : m = "get_alignment" ∨ m = "get_alignment_order" ∨ m = "get_guide_tree" ∨ m = "get_distance_matrix")
    (h : (step s (.method m)).2 = .ok v) : s.state = .joined := by
  have key : guardOf s.w m = none ∨ guardOf s.w m = some (some [.joined]) := by
    rcases hm with rfl | rfl | rfl | rfl <;> cases s.w <;> decide
  simp only [step] at h
  rcases key with hk | hk
  · simp [hk] at h
  · simp only [hk] at h
    split at h
    · rename_i hp
      cases hs : s.state <;> simp [hs, passes] at hp ⊢
    · simp at h

/-- … and JOINED is reached only through a `join` whose `evaluate()` accepted the program's output: in every
reachable JOINED state of an MSA wrapper the stored result is exactly the parse of what the program wrote; in every
other reachable state there is no result. -/
theorem C20_results_equal_output (w : Wrapper) (t : Tool) (n : Nat) (k : String) (b : Bool) (cs : List Call) :
    let s := run (init w t n k b) cs
    (s.state ≠ .joined → s.result = none) ∧
    (s.state = .joined → w.isMsa = true →
      ∃ r, s.result = some r ∧ parseOutput (toolRows t n) (badLengths t n) n = .ok r) := by
  intro s
  have hi : Inv s := run_inv _ cs (inv_init w t n k b)
  have hfr : s.w = w ∧ s.tool = t ∧ s.n = n := run_frame _ cs
  refine ⟨result_none_of_nonterminal s hi, fun hs hm => ?_⟩
  obtain ⟨r, h1, h2⟩ := hi.resOk hs (by rw [hfr.1]; exact hm)
  rw [hfr.2.1, hfr.2.2] at h2
  exact ⟨r, h1, h2⟩

/-- Order restoration: whenever the program's records carry each input index exactly once (in any order), the
result rows are in *input* order — the record with header `h` lands in row `h` — and `get_alignment_order()` is
the order the program used. -/
theorem C20_order_restored (out : List (Nat × Nat)) (n : Nat)
    (hperm : (out.map Prod.fst).Perm (List.range n)) :
    ∃ rows, parseOutput out false n = .ok (rows, out.map Prod.fst) ∧ rows.length = n ∧
      ∀ h r, (h, r) ∈ out → rows[h]? = some r := by
  have hnd : (out.map Prod.fst).Nodup := hperm.nodup_iff.2 List.nodup_range
  have hlen : out.length = n := by simpa using hperm.length_eq
  have hall : ∀ i ∈ List.range n, ∃ r, find i out = some r := by
    intro i hi
    obtain ⟨⟨k, r⟩, hm, hk⟩ := List.mem_map.1 (hperm.mem_iff.2 hi)
    simp only at hk; subst hk
    exact ⟨r, find_of_mem out k r hnd hm⟩
  obtain ⟨rows, h1, h2, h3⟩ := findAll_spec out (List.range n) hall
  refine ⟨rows, by simp [parseOutput, h1, uniq_of_nodup _ hnd, hlen], by simpa using h2, ?_⟩
  intro h r hm
  have hh : h < n := by
    have := hperm.mem_iff.1 (List.mem_map.2 ⟨(h, r), hm, rfl⟩)
    simpa using this
  have := h3 h (by simpa using hh)
  rw [this]
  simp only [List.getElem_range]
  exact find_of_mem out h r hnd hm

/-- **A rejected call changes nothing.**  Whatever a getter/setter call is rejected for — the state guard, the
validation of its arguments (`ValueError`: a positive gap penalty, a distance matrix / guide tree of the wrong size), a
missing result — the wrapper is exactly as before: in particular `set_gap_penalty((open, ext))` with a valid `open` and an
invalid `ext` does not store `open`. -/
theorem C20_rejected_call_pure (s : St) (c : Call) (e : Err)
    (hc : (∃ m, c = .method m) ∨ (∃ m, c = .methodBad m) ∨ (∃ a b, c = .setGap a b))
    (h : (step s c).2 = .err e) : (step s c).1 = s :=
  rejected_call_pure s c e hc h

/-- `set_gap_penalty` is accepted exactly when every given value is ≤ 0 (in CREATED), and then stores exactly the given
values. -/
theorem C20_set_gap_penalty (s : St) (a : Int) (b : Option Int) :
    ((setGapBody s a b).2 = .ok "" ↔ (a ≤ 0 ∧ ∀ e, b = some e → e ≤ 0)) ∧
    ((setGapBody s a b).2 = .ok "" → (setGapBody s a b).1.gap = some (a, b.getD a)) := by
  unfold setGapBody
  cases b with
  | none => by_cases ha : a > 0 <;> simp [ha] <;> omega
  | some e =>
    by_cases ha : a > 0 <;> by_cases he : e > 0 <;> simp [ha, he] <;> omega

/-- **Symbol counts are checked row by row.**  An MSA wrapper's `evaluate()` accepts the program's output only if *every*
row has exactly as many symbols as its input sequence — not merely the totals: the `garbageSwap` output (row 0 one symbol
too many, row 1 one too few) has the right total and is rejected. -/
theorem C20_symbol_counts_checked_per_row (s : St) (r) (hm : s.w.isMsa = true) (h : evaluate s = .ok r) :
    ∀ i, i < s.n → lengthDelta s.tool i = 0 := by
  intro i hi
  have hb : badLengths s.tool s.n = false := by
    unfold evaluate at h
    cases hw : s.w <;> simp [hw, Wrapper.isMsa] at h hm <;>
    · split at h
      · simp at h
      · split at h
        · simp at h
        · rename_i r' hr
          unfold parseOutput at hr
          simp only at hr
          split at hr
          · simp at hr
          · split at hr
            · simp at hr
            · rename_i hcond
              cases hbl : badLengths s.tool s.n <;> simp_all
  simp only [badLengths, decide_eq_false_iff_not, not_or, List.any_eq_true, not_exists, not_and] at hb
  have := hb.2 i (by simpa using hi)
  simpa using this

example : (List.range 3).map (lengthDelta .garbageSwap) = [1, -1, 0] ∧
    ((List.range 3).map (lengthDelta .garbageSwap)).sum = 0 ∧
    (step (run (init .muscle5 .garbageSwap 3 "protein") [.start]) (.join .none)).2 = .err errEval := by decide

/-- A row that has *lost* a residue (too few symbols, the trace would stay inside the sequence) is refused just like a row
with too many: the check is an equality per row, not an upper bound. -/
example :
    lengthDelta .garbageShort 1 = -1 ∧ lengthDelta .garbageLength 0 = 1 ∧
    (step (run (init .clustalo .garbageShort 3 "protein") [.start]) (.join .none)).2 = .err errEval ∧
    (run (init .clustalo .garbageShort 3 "protein") [.start, .join .none]).state = .cancelled := by decide

/-- A program that fills the STDERR pipe cannot be seen finished by polling, but `join` (which reads the pipes while it
waits) completes it — with and without a (sufficient) timeout. -/
example :
    let s := run (init .mafft .bigout 3 "protein") [.start, .tick, .getState]
    s.state = .running ∧ s.child = .alive ∧
    (step s (.join .pos)).2 = .ok "" ∧ (step s (.join .none)).2 = .ok "" ∧ (step s (.join .pos)).1.state = .joined := by
  decide

/-- A half-valid affine gap penalty is rejected and leaves the previously stored penalty in place. -/
example :
    let s := run (init .muscle3 .ok 3 "protein") [.setGap (-3) (some (-1)), .setGap (-5) (some 5)]
    s.gap = some (-3, -1) ∧ (step (run s [.start]) (.method "get_command")).2 = .ok "gap=-3/-1" := by decide

/-- **Setters do not interfere with results.**  Whatever combination of setters was applied before the run (in any order:
`set_distance_matrix`, `set_guide_tree`, `set_gap_penalty`, `set_exec_dir`, …), once `full_matrix_calculation()` was
requested `get_distance_matrix()` returns the matrix the *program* reported — never the matrix handed in — and
`get_alignment` / `get_alignment_order` / `get_guide_tree` do not depend on the stored input matrix or penalties. -/
theorem C20_results_independent_of_input_options (s : St) (d : Bool) (g : Option (Int × Int)) (m : String)
    (hm : m = "get_distance_matrix" ∨ m = "get_alignment" ∨ m = "get_alignment_order" ∨ m = "get_guide_tree") :
    getterValue { s with distSet := d, gap := g } m = getterValue s m ∧
    (s.mbed = false → getterValue s "get_distance_matrix" = .ok (Proto.showNats (List.range s.n))) := by
  refine ⟨?_, fun hb => by simp [getterValue, hb]⟩
  rcases hm with rfl | rfl | rfl | rfl <;> simp [getterValue]

example :
    let s := run (init .clustalo .ok 3 "protein")
      [.method "set_distance_matrix", .method "full_matrix_calculation", .start, .join .none]
    s.distSet = true ∧ (step s (.method "get_distance_matrix")).2 = .ok "0,1,2" := by decide

/-! ## Exotic sequence types are mapped onto the amino-acid alphabet and back -/

/-- The model's amino-acid alphabet is `ProteinSequence.alphabet`, `map_sequence` rejects with `>` (strictly larger
alphabets only) and takes the code over unchanged. -/
theorem C20_map_tie :
    BiotiteModel.Gen.C20.proteinAlphabet = proteinLetters ∧ BiotiteModel.Gen.C20.mapSequenceRejectOp = "Gt" ∧
    BiotiteModel.Gen.C20.mapSequenceTakesCodeOver = true ∧ proteinLetters.Nodup ∧ '-' ∉ proteinLetters := by decide

/-- **Sequence type round trip.**  For every custom alphabet of size `k` up to the size of the amino-acid alphabet
(24, *including* 24) and every sequence over it: `map_sequence` succeeds, each symbol is shown to the external program as
a distinct amino-acid letter (never the gap character), and mapping the letters back by their position returns exactly the
original codes; for every larger alphabet it raises `TypeError`. -/
theorem C20_map_sequence_roundtrip (k : Nat) (codes : List Nat) (hc : ∀ c ∈ codes, c < k) :
    (k ≤ 24 → ∃ ls, mapSequence k codes = .ok ls ∧ ls.map unmapLetter = codes.map some ∧ '-' ∉ ls) ∧
    (k > 24 → mapSequence k codes = .error .typeError) := by
  have hlen : proteinLetters.length = 24 := by decide
  have key : ∀ c, c < 24 → unmapLetter (proteinLetters.getD c '?') = some c ∧ proteinLetters.getD c '?' ≠ '-' := by
    decide
  constructor
  · intro hk
    refine ⟨codes.map fun c => proteinLetters.getD c '?', by simp [mapSequence, hlen]; omega, ?_, ?_⟩
    · rw [List.map_map]
      apply List.map_congr_left
      intro c hcm
      exact (key c (by have := hc c hcm; omega)).1
    · intro hmem
      obtain ⟨c, hcm, hcc⟩ := List.mem_map.1 hmem
      exact (key c (by have := hc c hcm; omega)).2 hcc
  · intro hk
    simp [mapSequence, hlen]; omega

/-! ## Clean-up exactly once, nothing left behind -/

/-- **Full strength.**  After any history, under any behaviour of the external program (success, reordered or
unparsable output, non-zero exit code, hang, missing binary): if the wrapper is in a terminal state (JOINED or
CANCELLED) then `clean_up()` has run exactly once, no child is alive, no temp file exists and the working directory is
the caller's; in every other state `clean_up()` has not run and the working directory is the caller's. -/
theorem C20_cleanup_once (w : Wrapper) (t : Tool) (n : Nat) (k : String) (b : Bool) (cs : List Call) :
    let s := run (init w t n k b) cs
    (s.state.terminal = true → s.cleanups = 1 ∧ s.child ≠ .alive ∧ s.files = 0 ∧ s.cwdChanged = false) ∧
    (s.state.terminal = false → s.cleanups = 0 ∧ s.cwdChanged = false) := by
  intro s
  have hi : Inv s := run_inv _ cs (inv_init w t n k b)
  exact ⟨hi.term, fun h => ⟨hi.nonterm h, hi.cwd⟩⟩

/-- **`join(float("inf"))` is refused where it cannot be honoured, and a refusal is not an end of the run.**  For a
process-backed wrapper in RUNNING, `Popen.communicate(timeout=inf)` raises OverflowError before anything is touched: the
state is exactly as before (the run goes on, `cancel()` / another `join` remain possible).  In FINISHED (pipes already
drained) and for the generic `Application.join` (`now - start > inf` is never true) it behaves like no timeout. -/
theorem C20_join_inf_rejects (s : St) :
    (s.w ≠ .base → s.state = .running → step s (.join .inf) = (s, .err errOverflow)) ∧
    (s.w ≠ .base → s.state = .finished → step s (.join .inf) = step s (.join .none)) ∧
    (s.w = .base → step s (.join .inf) = step s (.join .none)) := by
  refine ⟨fun hw hs => ?_, fun hw hs => ?_, fun hw => ?_⟩
  · simp [step, guard_join, passes, hs, hw, joinLocalT]
  · simp [step, guard_join, passes, hs, hw, joinLocalT]
  · simp [step, guard_join, hw]

/-- **One record too many is refused** (for every number of inputs): the program's output with an additional record can
never be accepted — `OrderedDict` then has `n + 1` keys. -/
theorem C20_extra_record_rejects (n : Nat) (rg : Bool) :
    parseOutput (toolRows .garbageExtra n) rg n = .error errEval := by
  have hk : (toolRows .garbageExtra n).map Prod.fst = List.range (n + 1) := by
    simp [toolRows, List.range_succ, List.map_append, Function.comp_def]
  unfold parseOutput
  split
  · rfl
  · simp only [hk, uniq_of_nodup _ List.nodup_range, List.length_range]
    simp

/-- A record written twice is *not* refused: like the code's `OrderedDict`, the model keeps one entry per header and accepts
(the harness checks that the contents returned are those of the copy written last).  Missing / non-index headers are refused. -/
example :
    parseOutput (toolRows .dupRecords 3) false 3 = .ok ([0, 1, 2], [0, 1, 2]) ∧
    parseOutput (toolRows .garbageHeader 3) false 3 = .error errEval ∧
    parseOutput (toolRows .garbageMissing 3) false 3 = .error errEval ∧
    (step (run (init .mafft .dupRecords 3 "protein") [.start]) (.join .none)).2 = .ok "" := by decide

/-- Every way a run can end does put the wrapper into a terminal state (so `C20_cleanup_once` applies):
a failed launch, a `join` that returns or raises anything but a state error (timeout, exit code, unparsable output),
and `cancel`.  (The one exception: an argument `communicate` itself refuses, `join(inf)`, see
`C20_join_inf_rejects` — nothing has happened then.) -/
theorem C20_run_ends_terminal (s : St) :
    (∀ e, (step s .start).2 = .err e → e ≠ .stateError → (step s .start).1.state = .cancelled) ∧
    (∀ t, ((step s (.join t)).2 = .ok "" → (step s (.join t)).1.state = .joined) ∧
          (∀ e, (step s (.join t)).2 = .err e → e ≠ .stateError → e ≠ errOverflow →
             (step s (.join t)).1.state = .cancelled)) ∧
    ((step s .cancel).2 = .ok "" → (step s .cancel).1.state = .cancelled) :=
  ⟨start_ends s, fun t => join_ends s t, cancel_ends s⟩

/-! ## WebApp / BlastWebApp: the rule layer on top of the generic life cycle (`Model/C20Web.lean`) -/

section WebRules
open BiotiteModel.C20.Web

/-- The model's rule constants, comparison and order of operations are the source's: `_contact_delay = 3`,
`_request_delay = 60`, both stamps start at 0, both tests are `now - last < delay`, `violate_rule()` is called before the
stamp is overwritten, and `WebApp.violate_rule` raises exactly under `_obey_rules`. -/
theorem C20_web_rules_tie :
    (BiotiteModel.Gen.C20.webContactDelay : Int) = contactDelay ∧
    (BiotiteModel.Gen.C20.webRequestDelay : Int) = requestDelay ∧
    BiotiteModel.Gen.C20.webInitialStamps = [0, 0] ∧
    BiotiteModel.Gen.C20.webRules = [("_contact", "Lt", true), ("_request", "Lt", true)] ∧
    BiotiteModel.Gen.C20.webViolateOnlyIfObey = true ∧
    resolve table blastMro "start" = some (some [.created]) ∧
    resolve table blastMro "join" = some (some [.running, .finished]) ∧
    resolve table blastMro "cancel" = some (some [.running, .finished]) ∧
    resolve table blastMro "get_app_state" = some none := by decide

/-- A server contact / a search request / `violate_rule()` is refused (`RuleViolationError`) **exactly** when the rules
are to be obeyed and less than 3 s (contact) resp. 60 s (request) have passed on the clock since the last accepted one. -/
theorem C20_web_refused_iff (w : Web) :
    ((contact w).2 = some errRule ↔ (w.obey = true ∧ w.now - w.lastContact < 3)) ∧
    ((request w).2 = some errRule ↔ (w.obey = true ∧ w.now - w.lastRequest < 60)) ∧
    (violateRule w = some errRule ↔ w.obey = true) ∧
    (∀ e, (contact w).2 = some e → e = errRule) ∧ (∀ e, (request w).2 = some e → e = errRule) := by
  unfold contact request violateRule contactDelay requestDelay
  refine ⟨?_, ?_, ?_, ?_, ?_⟩ <;> (repeat' split) <;> simp_all

/-- A refused contact / request changes nothing (no time stamp, no state); an accepted one records the current time and
nothing else. -/
theorem C20_web_refusal_pure (w : Web) :
    (∀ e, (contact w).2 = some e → (contact w).1 = w) ∧
    (∀ e, (request w).2 = some e → (request w).1 = w) ∧
    ((contact w).2 = none → (contact w).1 = { w with lastContact := w.now }) ∧
    ((request w).2 = none → (request w).1 = { w with lastRequest := w.now }) := by
  unfold contact request violateRule
  refine ⟨?_, ?_, ?_, ?_⟩ <;> (repeat' split) <;> simp_all

/-- Life-cycle calls refused by the state guard change nothing either. -/
theorem C20_web_state_refusal_pure (w : Web) (c : Web.Call) (h : (Web.step w c).2 = .err .stateError) :
    (Web.step w c).1 = w :=
  Web.step_refused_pure w c h

/-- The model never abstains on a web `join`: for every server script (`k` polls until READY), every clock and every
timeout the poll loop ends before its fuel does — by READY, by the timeout, or by an exception of `is_finished()`. -/
theorem C20_web_join_terminates (w : Web) (t : Option Int) (hs : w.state = .running ∨ w.state = .finished) :
    (Web.step w (.join t)).2 ≠ .diverges := by
  simp only [Web.step, hs, if_true]
  exact Web.joinBody_terminates w t hs

/-- Clean-up exactly once for the web wrapper as well: after any history of calls, clock steps and direct rule calls, with
any server script, a terminal state has seen exactly one `clean_up()` (one Delete request), every other state none; results
exist only in JOINED. -/
theorem C20_web_cleanup_once (obey tooLarge : Bool) (k : Nat) (cs : List Web.Call) :
    let w := Web.run { obey := obey, k := k, tooLarge := tooLarge } cs
    (w.state.terminal = true → w.cleanups = 1) ∧ (w.state.terminal = false → w.cleanups = 0) ∧
    (w.hasResult = true → w.state = .joined) :=
  Web.run_inv _ cs (by simp [Web.Inv, AppState.terminal])

/-- Non-vacuity: the 3 s boundary (2 s refused, 3 s accepted), the free mode, a whole run against a slow server, a
timeout, and a rule violation at submission (60 s rule) that ends CANCELLED and cleaned. -/
example : (contact { obey := true, k := 0, tooLarge := false, now := 1002, lastContact := 1000 }).2 = some errRule := by decide
example : (contact { obey := true, k := 0, tooLarge := false, now := 1003, lastContact := 1000 }).2 = none := by decide
example : (contact { obey := false, k := 0, tooLarge := false, now := 1000, lastContact := 1000 }).2 = none := by decide
example :
    let w := Web.run { obey := true, k := 2, tooLarge := false } [.start, .join none]
    w.state = .joined ∧ w.cleanups = 1 ∧ w.hasResult = true ∧ w.sent = 6 := by decide
example : (Web.step (Web.run { obey := true, k := 9, tooLarge := false } [.start]) (.join (some 4))).2 = .err errTimeout := by
  decide
example :
    let r := Web.step (Web.run { obey := true, k := 0, tooLarge := false } [.request, .clock 3]) .start
    r.2 = .err errRule ∧ r.1.state = .cancelled ∧ r.1.cleanups = 1 := by decide

end WebRules

/-! ## Non-vacuity: the hypotheses are satisfiable and the interesting branches are reached -/

/-- Happy path, reordered output: JOINED, rows in input order, order rotated, everything cleaned. -/
example :
    let s := run (init .muscle3 .reorder 4 "protein") [.start, .tick, .getState, .join .none]
    s.state = .joined ∧ s.result = some ([0, 1, 2, 3], [1, 2, 3, 0]) ∧ s.cleanups = 1 ∧ s.files = 0 ∧ s.child = .dead := by
  decide

/-- Exit code ≠ 0 (the former leak): CANCELLED *and* cleaned. -/
example :
    let s := run (init .clustalo .exit3 3 "protein") [.start, .tick, .join .none]
    s.state = .cancelled ∧ s.cleanups = 1 ∧ s.files = 0 := by decide

/-- Unparsable output. -/
example : (step (run (init .mafft .garbageMissing 3 "protein") [.start]) (.join .none)).2 = .err errEval := by decide

/-- Output with the right headers and equal row lengths but a wrong symbol count is rejected, and cleaned up after. -/
example :
    let s := run (init .muscle5 .garbageLength 3 "protein") [.start, .join .none]
    s.state = .cancelled ∧ s.result = none ∧ s.cleanups = 1 ∧ s.files = 0 := by decide

/-- Missing binary with a changed exec dir (the former cwd leak): CANCELLED, cleaned, cwd restored. -/
example :
    let s := run (init .clustalo .missing 3 "protein") [.method "set_exec_dir", .start]
    s.state = .cancelled ∧ s.cleanups = 1 ∧ s.files = 0 ∧ s.cwdChanged = false ∧ s.execOther = true := by decide

/-- A launch failure that is not an OSError (NUL byte in the command → ValueError) is handled the same way. -/
example :
    let r := step (run (init .clustalo .nulbyte 3 "protein") [.method "set_exec_dir"]) .start
    r.2 = .err .valueError ∧ r.1.state = .cancelled ∧ r.1.cleanups = 1 ∧ r.1.files = 0 ∧ r.1.cwdChanged = false := by decide

/-- A program killed by a signal after writing complete, valid output has *failed* (return code −9 ≠ 0): `join` raises,
no result becomes readable, clean-up runs. -/
example :
    let r := step (run (init .muscle5 .sigkill 3 "protein") [.start, .tick]) (.join .none)
    r.2 = .err errSubprocess ∧ r.1.state = .cancelled ∧ r.1.result = none ∧ r.1.cleanups = 1 ∧
    (step r.1 (.method "get_alignment")).2 = .err .stateError := by decide

/-- The boundary timeout 0 ("do not wait") on an unfinished job is a timeout — for the generic `Application.join` and for
`LocalApp.join` — not "no timeout". -/
example :
    (step (run (init .base .ok 2 "protein") [.start]) (.join .zero)).2 = .err errTimeout ∧
    (run (init .base .hang 2 "protein") [.start, .join .zero]).state = .cancelled ∧
    (run (init .clustalo .ok 3 "protein") [.start, .join .zero]).cleanups = 1 := by decide

/-- A hanging program that ignores SIGTERM is gone after `cancel()` as well. -/
example : (run (init .clustalo .hangIgnoreTerm 2 "protein") [.start, .cancel]).child = .dead := by decide

/-- Timeout on a hanging program: the child is killed. -/
example :
    let s := run (init .mafft .hang 2 "nucleotide") [.start, .join .pos]
    s.state = .cancelled ∧ s.child = .dead ∧ s.cleanups = 1 := by decide

/-- A refusal that is really refused, and a state in which the same call is accepted. -/
example : (step (init .clustalo .ok 3 "protein") (.method "get_alignment")).2 = .err .stateError := by decide
example : (step (run (init .clustalo .ok 3 "protein") [.start, .join .none]) (.method "get_alignment")).2 = .ok "r0,r1,r2" := by
  decide

/-- `C20_order_restored` applies to a genuinely permuted output. -/
example : parseOutput [(2, 20), (0, 0), (1, 10)] false 3 = .ok ([0, 10, 20], [2, 0, 1]) := by decide

/-- Files exist before the run ends (the invariant is not "files are always 0"). -/
example : (run (init .clustalo .ok 3 "protein") [.start, .tick]).files = 7 := by decide

end BiotiteModel.C20

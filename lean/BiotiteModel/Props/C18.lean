import BiotiteModel.Proofs.C18
import BiotiteModel.Gen.C18
/-!
# C18 — property theorems (MOL/SDF files; tables of the RDKit bridge)

Only property statements and non-vacuity examples; helper lemmas are in `Proofs/C18.lean`.
-/
namespace BiotiteModel.C18
open BiotiteModel

/-! ## Obligations on the tables regenerated from the source on every run -/

/-- `dict.get` on a dict literal given in source order (a repeated key: the last one wins). -/
def dictGet {κ ν : Type} [DecidableEq κ] (k : κ) : List (κ × ν) → Option ν
  | [] => none
  | (k', v) :: rest => match dictGet k rest with
    | some r => some r
    | none => if k' = k then some v else none

/-- `{v: k for k, v in d.items()}`. -/
def dictRev {κ ν : Type} (d : List (κ × ν)) : List (ν × κ) := d.map fun p => (p.2, p.1)

/-- The model's bond tables are `BOND_TYPE_MAPPING` / `BOND_TYPE_MAPPING_REV` of the current source,
for every code and every bond type. -/
theorem C18_gen_bond_table :
    (∀ c : Int, bondOfCode c = dictGet c Gen.C18.bondTypeMapping) ∧
    (∀ t : Nat, codeOfBond t = (dictGet t (dictRev Gen.C18.bondTypeMapping)).map Int.toNat) := by
  constructor
  · intro c
    unfold bondOfCode
    split <;> first | rfl | simp_all [dictGet, Gen.C18.bondTypeMapping]
  · intro t
    unfold codeOfBond
    split <;> first | rfl | simp_all [dictGet, dictRev, Gen.C18.bondTypeMapping]

/-- Reading inverts writing on every bond type the bond block can express, and exactly
`QUADRUPLE`, `AROMATIC_TRIPLE`, `COORDINATION` fall back to the default bond type. -/
theorem C18_bond_table :
    (∀ t ∈ [0, 1, 2, 3, 5, 6, 9], ∃ c, codeOfBond t = some c ∧ bondOfCode (c : Int) = some t) ∧
    (∀ t ∈ [4, 7, 8], codeOfBond t = none) ∧
    (∀ t, 10 ≤ t → codeOfBond t = none) ∧
    Gen.C18.bondTypeEnum.map (·.2) = [0, 1, 2, 3, 4, 5, 6, 7, 8, 9] := by
  refine ⟨by decide, by decide, ?_, by decide⟩
  intro t ht
  unfold codeOfBond
  split <;> first | omega | rfl

/-- The charge tables are those of the source; the atom block expresses −3…3 and every other
charge is written as code 0 there (and literally in `M  CHG`). -/
theorem C18_charge_table :
    (∀ c : Int, chargeOfCode c = dictGet c Gen.C18.chargeMapping) ∧
    (∀ q : Int, codeOfCharge q = ((dictGet q (dictRev Gen.C18.chargeMapping)).getD 0).toNat) ∧
    (∀ q : Int, -3 ≤ q → q ≤ 3 → chargeOfCode (codeOfCharge q) = some q) ∧
    (∀ q : Int, (q < -3 ∨ 3 < q) → codeOfCharge q = 0) := by
  refine ⟨?_, ?_, ?_, ?_⟩
  · intro c
    unfold chargeOfCode
    split <;> first | rfl | simp_all [dictGet, Gen.C18.chargeMapping]
  · intro q
    unfold codeOfCharge
    split <;> first | rfl | simp_all [dictGet, dictRev, Gen.C18.chargeMapping]
  · intro q h1 h2
    have : q = -3 ∨ q = -2 ∨ q = -1 ∨ q = 0 ∨ q = 1 ∨ q = 2 ∨ q = 3 := by omega
    rcases this with rfl | rfl | rfl | rfl | rfl | rfl | rfl <;> rfl
  · intro q h
    unfold codeOfCharge
    split <;> first | omega | rfl

/-- Running `(start, stop)` columns of an f-string template. -/
def fieldSpans : Nat → List (String × Nat) → List (Nat × Nat)
  | _, [] => []
  | o, (_, w) :: rest => (o, o + w) :: fieldSpans (o + w) rest

/-- Constants and column layout of the current source: 8 charges per `M  CHG` line; the V2000
bound is `< 10³`, i.e. three columns; 5 pre-decimal digits; every slice the V2000 reader takes is
exactly one field the V2000 writer prints; the lines are 39 / 69 / 21 characters wide. -/
theorem C18_gen_layout :
    Gen.C18.nChargesPerLine = nChargesPerLine ∧
    Gen.C18.v2000Bounds = (v2000MaxCount, v2000MaxCount) ∧ v2000MaxCount = 10 ^ 3 ∧
    Gen.C18.coordDigitLimits = [maxCoordDigits, maxCoordDigits] ∧
    Gen.C18.readerSlices = [(0, 10), (10, 20), (20, 30), (31, 34), (36, 39), (6, 9), (0, 3), (3, 6)] ∧
    Gen.C18.countsSlices = [(0, 3), (3, 6)] ∧ Gen.C18.versionSlice = [(33, 39)] ∧
    (∀ s ∈ Gen.C18.readerSlices.take 5, s ∈ fieldSpans 0 Gen.C18.atomLineWidths) ∧
    (∀ s ∈ Gen.C18.readerSlices.drop 5, s ∈ fieldSpans 0 Gen.C18.bondLineWidths) ∧
    (∀ s ∈ Gen.C18.countsSlices, s ∈ fieldSpans 0 Gen.C18.countsLineWidths) ∧
    (fieldSpans 0 Gen.C18.atomLineWidths).getLast? = some (66, 69) ∧
    (fieldSpans 0 Gen.C18.bondLineWidths).getLast? = some (18, 21) ∧
    (fieldSpans 0 Gen.C18.countsLineWidths).getLast? = some (6, 39) := by
  decide

/-- The two RDKit bond tables: every bond type RDKit can express exactly (`ANY`, `SINGLE`,
`DOUBLE`, `TRIPLE`, `QUADRUPLE` and, as a dative bond, `COORDINATION`) is mapped back to itself;
the four aromatic types become `AROMATIC`, which `from_mol` re-types after kekulisation. -/
theorem C18_rdkit_tables :
    (∀ t ∈ [0, 1, 2, 3, 4, 8],
      (dictGet t Gen.C18.toRdkit).bind (fun r => dictGet r Gen.C18.fromRdkit) = some t) ∧
    (∀ t ∈ [5, 6, 7, 9], dictGet t Gen.C18.toRdkit = some "AROMATIC") ∧
    dictGet "AROMATIC" Gen.C18.fromRdkit = none ∧
    (∀ t ∈ [1, 2, 3], dictGet t Gen.C18.kekulizedToAromatic = some (t + 4)) := by
  decide

/-! ## Version selection -/

/-- Counts that do not fit three columns select V3000, or raise `ValueError` when V2000 was asked
for; a V2000 table is only ever written for fewer than 1000 atoms and bonds. -/
theorem C18_version_switch (m : Mol) (d : Nat) :
    (isV2000Compatible m.atoms.length m.bonds.length = false →
        writeCtab m d .auto = writeV3000 m d ∧ writeCtab m d .v2000 = .error .valueError) ∧
    (isV2000Compatible m.atoms.length m.bonds.length = true →
        writeCtab m d .auto = writeV2000 m d ∧ writeCtab m d .v2000 = writeV2000 m d) ∧
    writeCtab m d .v3000 = writeV3000 m d ∧ writeCtab m d .unknown = .error .valueError ∧
    (isV2000Compatible m.atoms.length m.bonds.length = true ↔ m.atoms.length < 10 ^ 3 ∧ m.bonds.length < 10 ^ 3) := by
  refine ⟨?_, ?_, rfl, rfl, ?_⟩
  · intro h; simp [writeCtab, h]
  · intro h; simp [writeCtab, h]
  · simp [isV2000Compatible, v2000MaxCount]

/-- Whatever `write_structure_to_ctab` returns starts either with the V3000 marker line or with
a V2000 counts line whose two counts are below 1000. -/
theorem C18_version_switch_lines (m : Mol) (d : Nat) (v : Version) (ls : List Line)
    (h : writeCtab m d v = .ok ls) :
    ls.head? = some compatLine ∨
    (m.atoms.length < 1000 ∧ m.bonds.length < 1000 ∧
      ls.head? = some (countsLineV2000 m.atoms.length m.bonds.length)) := by
  have h3 : ∀ ls, writeV3000 m d = .ok ls → ls.head? = some compatLine := by
    intro ls h
    unfold writeV3000 at h
    split at h
    · cases h
    · split at h
      · cases h
      · cases h; rfl
  have h2 : ∀ ls, writeV2000 m d = .ok ls → ls.head? = some (countsLineV2000 m.atoms.length m.bonds.length) := by
    intro ls h
    unfold writeV2000 at h
    split at h
    · cases h
    · split at h
      · cases h
      · cases h; rfl
  cases v with
  | auto =>
    by_cases hc : isV2000Compatible m.atoms.length m.bonds.length = true
    · right
      simp only [writeCtab, hc, if_true] at h
      have hb : m.atoms.length < 1000 ∧ m.bonds.length < 1000 := by
        simpa [isV2000Compatible, v2000MaxCount] using hc
      exact ⟨hb.1, hb.2, h2 ls h⟩
    · left
      simp only [writeCtab, hc] at h
      exact h3 ls h
  | v2000 =>
    by_cases hc : isV2000Compatible m.atoms.length m.bonds.length = true
    · right
      simp only [writeCtab, hc] at h
      have hb : m.atoms.length < 1000 ∧ m.bonds.length < 1000 := by
        simpa [isV2000Compatible, v2000MaxCount] using hc
      exact ⟨hb.1, hb.2, h2 ls (by simpa using h)⟩
    · simp [writeCtab, hc] at h
  | v3000 => left; exact h3 ls h
  | unknown => simp [writeCtab] at h

end BiotiteModel.C18

import BiotiteModel.Proofs.C18Float
import BiotiteModel.Proofs.C18Lazy
import BiotiteModel.Gen.C18
/-!
# C18 — property theorems (MOL/SDF files; tables of the RDKit bridge)

Only property statements and non-vacuity examples; helper lemmas are in `Proofs/C18.lean`.
-/
namespace BiotiteModel.C18
open BiotiteModel

/-! ## Obligations on the tables regenerated from the source on every run -/

/-- `dict.get` on a dict literal given in source order (a repeated key: the last one wins). -/
def dictGet {κ ν : Type} [DecidableEq κ] (k : κ) : List (κ × ν) → Option ν
  | [] => none
  | (k', v) :: rest => match dictGet k rest with
    | some r => some r
    | none => if k = k' then some v else none

/-- `{v: k for k, v in d.items()}`. -/
def dictRev {κ ν : Type} (d : List (κ × ν)) : List (ν × κ) := d.map fun p => (p.2, p.1)

/-- The model's bond tables are `BOND_TYPE_MAPPING` / `BOND_TYPE_MAPPING_REV` of the current source,
for every code and every bond type. -/
theorem C18_gen_bond_table :
    (∀ c : Int, bondOfCode c = dictGet c Gen.C18.bondTypeMapping) ∧
    (∀ t : Nat, codeOfBond t = (dictGet t (dictRev Gen.C18.bondTypeMapping)).map Int.toNat) := by
  constructor
  · intro c
    unfold bondOfCode
    split <;> first | rfl | simp_all [dictGet, Gen.C18.bondTypeMapping]
  · intro t
    unfold codeOfBond
    split <;> first | rfl | simp_all [dictGet, dictRev, Gen.C18.bondTypeMapping]

/-- Reading inverts writing on every bond type the bond block can express, and exactly
`QUADRUPLE`, `AROMATIC_TRIPLE`, `COORDINATION` fall back to the default bond type. -/
theorem C18_bond_table :
    (∀ t ∈ [0, 1, 2, 3, 5, 6, 9], ∃ c, codeOfBond t = some c ∧ bondOfCode (c : Int) = some t) ∧
    (∀ t ∈ [4, 7, 8], codeOfBond t = none) ∧
    (∀ t, 10 ≤ t → codeOfBond t = none) ∧
    Gen.C18.bondTypeEnum.map (·.2) = [0, 1, 2, 3, 4, 5, 6, 7, 8, 9] := by
  refine ⟨by decide, by decide, ?_, by decide⟩
  intro t ht
  unfold codeOfBond
  split <;> first | omega | rfl

/-- The charge tables are those of the source; the atom block expresses −3…3 and every other
charge is written as code 0 there (and literally in `M  CHG`). -/
theorem C18_charge_table :
    (∀ c : Int, chargeOfCode c = dictGet c Gen.C18.chargeMapping) ∧
    (∀ q : Int, codeOfCharge q = ((dictGet q (dictRev Gen.C18.chargeMapping)).getD 0).toNat) ∧
    (∀ q : Int, -3 ≤ q → q ≤ 3 → chargeOfCode (codeOfCharge q) = some q) ∧
    (∀ q : Int, (q < -3 ∨ 3 < q) → codeOfCharge q = 0) := by
  refine ⟨?_, ?_, ?_, ?_⟩
  · intro c
    unfold chargeOfCode
    split <;> first | rfl | simp_all [dictGet, Gen.C18.chargeMapping]
  · intro q
    unfold codeOfCharge
    split
    all_goals first | rfl | skip
    simp_all [dictGet, dictRev, Gen.C18.chargeMapping]
    split <;> rfl
  · intro q h1 h2
    have : q = -3 ∨ q = -2 ∨ q = -1 ∨ q = 0 ∨ q = 1 ∨ q = 2 ∨ q = 3 := by omega
    rcases this with rfl | rfl | rfl | rfl | rfl | rfl | rfl <;> rfl
  · intro q h
    unfold codeOfCharge
    split <;> first | omega | rfl

/-- Running `(start, stop)` columns of an f-string template. -/
def fieldSpans : Nat → List (String × Nat) → List (Nat × Nat)
  | _, [] => []
  | o, (_, w) :: rest => (o, o + w) :: fieldSpans (o + w) rest

/-- Constants and column layout of the current source: 8 charges per `M  CHG` line; the V2000
bound is `< 10³`, i.e. three columns; 5 pre-decimal digits; every slice the V2000 reader takes is
exactly one field the V2000 writer prints; the lines are 39 / 69 / 21 characters wide. -/
theorem C18_gen_layout :
    Gen.C18.nChargesPerLine = nChargesPerLine ∧
    Gen.C18.v2000Bounds = (v2000MaxCount, v2000MaxCount) ∧ v2000MaxCount = 10 ^ 3 ∧
    Gen.C18.coordDigitLimits = [maxCoordDigits, maxCoordDigits] ∧
    Gen.C18.readerSlices = [(0, 10), (10, 20), (20, 30), (31, 34), (36, 39), (6, 9), (0, 3), (3, 6)] ∧
    Gen.C18.countsSlices = [(0, 3), (3, 6)] ∧ Gen.C18.versionSlice = [(33, 39)] ∧
    (∀ s ∈ Gen.C18.readerSlices.take 5, s ∈ fieldSpans 0 Gen.C18.atomLineWidths) ∧
    (∀ s ∈ Gen.C18.readerSlices.drop 5, s ∈ fieldSpans 0 Gen.C18.bondLineWidths) ∧
    (∀ s ∈ Gen.C18.countsSlices, s ∈ fieldSpans 0 Gen.C18.countsLineWidths) ∧
    (fieldSpans 0 Gen.C18.atomLineWidths).getLast? = some (66, 69) ∧
    (fieldSpans 0 Gen.C18.bondLineWidths).getLast? = some (18, 21) ∧
    (fieldSpans 0 Gen.C18.countsLineWidths).getLast? = some (6, 39) := by
  decide

/-- The two RDKit bond tables: every bond type RDKit can express exactly (`ANY`, `SINGLE`,
`DOUBLE`, `TRIPLE`, `QUADRUPLE` and, as a dative bond, `COORDINATION`) is mapped back to itself;
the four aromatic types become `AROMATIC`, which `from_mol` re-types after kekulisation. -/
theorem C18_rdkit_tables :
    (∀ t ∈ [0, 1, 2, 3, 4, 8],
      (dictGet t Gen.C18.toRdkit).bind (fun r => dictGet r Gen.C18.fromRdkit) = some t) ∧
    (∀ t ∈ [5, 6, 7, 9], dictGet t Gen.C18.toRdkit = some "AROMATIC") ∧
    dictGet "AROMATIC" Gen.C18.fromRdkit = none ∧
    (∀ t ∈ [1, 2, 3], dictGet t Gen.C18.kekulizedToAromatic = some (t + 4)) := by
  decide

/-! ## More of the source as regenerated facts (pass 7) -/

/-- Regenerated from the source on every run: the V2000 writer of the current `ctab.py`, f-string by f-string: alignment, width, precision and type of every field (`>10.4f` ×3, blank, element left-aligned in 3 via `capitalize()`, `>2` constant 0, `>3d` charge code with fall-back 0, ten `>3d` zeros; bond partners `+ 1`; `M  CHG` head and entry), the literal tail of the counts line, the order of the line groups, the element width guard and the order of the guards.  Each conjunct is what the hand-written model
(Model/C18*.lean) and the adapters hard-code. -/
theorem C18_gen_v2000_writer :
    Gen.C18.countsLineShape = [("fmt", ">3d", "value"), ("fmt", ">3d", "value"), ("lit", "  0     0  0  0  0  0  0  1 V2000", "")] ∧
    Gen.C18.atomLineShape = [("fmt", ">10.4f", "value"), ("fmt", ">10.4f", "value"), ("fmt", ">10.4f", "value"), ("lit", " ", ""), ("fmt", "3", "call:capitalize"), ("fmt", ">2", "const:0"), ("fmt", ">3d", "dictget-default:0"), ("fmt", ">3d", "const:0"), ("fmt", ">3d", "const:0"), ("fmt", ">3d", "const:0"), ("fmt", ">3d", "const:0"), ("fmt", ">3d", "const:0"), ("fmt", ">3d", "const:0"), ("fmt", ">3d", "const:0"), ("fmt", ">3d", "const:0"), ("fmt", ">3d", "const:0"), ("fmt", ">3d", "const:0")] ∧
    Gen.C18.bondLineShape = [("fmt", ">3d", "plus:1"), ("fmt", ">3d", "plus:1"), ("fmt", ">3d", "value"), ("fmt", ">3d", "const:0"), ("fmt", ">3d", "const:0"), ("fmt", ">3d", "const:0"), ("fmt", ">3d", "const:0")] ∧
    Gen.C18.chargeHeadShape = [("lit", "M  CHG", ""), ("fmt", ">3d", "call:len")] ∧
    Gen.C18.chargeEntryShape = [("lit", " ", ""), ("fmt", ">3d", "plus:1"), ("lit", " ", ""), ("fmt", ">3d", "value")] ∧
    Gen.C18.v2000LineOrder = ["role:counts", "role:atoms", "role:bonds", "role:charges", "lit:M  END"] ∧
    Gen.C18.elemGuard = ("Gt", 3) ∧
    Gen.C18.v2000GuardOrder = true ∧
    Gen.C18.writerPlus = [1] := by
  decide

/-- Regenerated from the source on every run: the V3000 writer: marker line, block skeleton, `M  V30 ` prefix, the COUNTS / atom / bond line f-strings (`.4f`, `+ 1`, `_quote`, `_to_property`), `_to_property` (`== 0` → empty, else `CHG={}`), `_quote` (blank inside or empty → double quotes).  Each conjunct is what the hand-written model
(Model/C18*.lean) and the adapters hard-code. -/
theorem C18_gen_v3000_writer :
    Gen.C18.compatLine = "  0  0  0  0  0  0  0  0  0  0999 V3000" ∧
    Gen.C18.v3000CountsShape = [("lit", "COUNTS ", ""), ("fmt", "", "value"), ("lit", " ", ""), ("fmt", "", "value"), ("lit", " 0 0 0", "")] ∧
    Gen.C18.v3000AtomShape = [("fmt", "", "plus:1"), ("lit", " ", ""), ("fmt", "", "call:private"), ("lit", " ", ""), ("fmt", ".4f", "value"), ("lit", " ", ""), ("fmt", ".4f", "value"), ("lit", " ", ""), ("fmt", ".4f", "value"), ("lit", " 0 ", ""), ("fmt", "", "call:private")] ∧
    Gen.C18.v3000BondShape = [("fmt", "", "plus:1"), ("lit", " ", ""), ("fmt", "", "value"), ("lit", " ", ""), ("fmt", "", "plus:1"), ("lit", " ", ""), ("fmt", "", "plus:1")] ∧
    Gen.C18.v3000Skeleton = ["lit:BEGIN CTAB", "role:counts", "lit:BEGIN ATOM", "role:atoms", "lit:END ATOM", "lit:BEGIN BOND", "role:bonds", "lit:END BOND", "lit:END CTAB"] ∧
    Gen.C18.v30Prefix = "M  V30 " ∧
    Gen.C18.v3000Return = ["name:V2000_COMPATIBILITY_LINE", "role:lines", "lit:M  END"] ∧
    Gen.C18.toPropertyShape = ["Eq:0", "CHG={}", "''"] ∧
    Gen.C18.quoteShape = ["Or", "In:' '", "Eq:0", "\"{}\""] := by
  decide

/-- Regenerated from the source on every run: the readers: `M  CHG` / `M  V30` prefixes and the `line[9:]` / `line[6:]` cuts, block markers and the blocks read, the V3000 column indices, the `R#` / `CHG` / quote constants, the `=` split, the `- 1` offsets, the version strings of both dispatchers in `case` order.  Each conjunct is what the hand-written model
(Model/C18*.lean) and the adapters hard-code. -/
theorem C18_gen_readers :
    Gen.C18.r2StartsWith = ["M  CHG"] ∧
    Gen.C18.r2OpenSlices = [9] ∧
    Gen.C18.r3StartsWith = ["M  V30"] ∧
    Gen.C18.r3OpenSlices = [6] ∧
    Gen.C18.blockMarkers = ["BEGIN {}", "END {}"] ∧
    Gen.C18.blocksRead = ["ATOM", "BOND"] ∧
    Gen.C18.r3Columns = ["0", "1", "2:5", "6:", "1", "2", "3"] ∧
    Gen.C18.r3Strings = ["\"", "'", "CHG", "R#"] ∧
    Gen.C18.propSplit = ["="] ∧
    Gen.C18.readerMinus = [1] ∧
    Gen.C18.versionCases = ["V2000", "V3000", "", "<capture>", "None", "V2000", "V3000", "<capture>"] := by
  decide

/-- Regenerated from the source on every run: `sdf.py`, `mol.py`, `convert.py`: three header lines, the `$$$$` delimiter recognised and checked with `startswith`, the key regexes in dict order, the pieces of `Key.serialize` in order, the guards of `__post_init__` and `_check_metadata_value`, the forward scan of `_get_ctab_stop` from `_N_HEADER` and of `_get_ctab_lines` from `N_HEADER`, the invented record name and the `not in` guard of the convert wrapper, `AddConformer(assignId=True)`.  Each conjunct is what the hand-written model
(Model/C18*.lean) and the adapters hard-code. -/
theorem C18_gen_sdf :
    Gen.C18.nHeader = (3, 3) ∧
    Gen.C18.recordDelimiter = "$$$$" ∧
    Gen.C18.keyNameRegex = "^[a-zA-Z0-9][\\w.]*\\Z" ∧
    Gen.C18.keyComponentRegex = [("number", "^DT(\\d+)$"), ("name", "^<([a-zA-Z0-9][\\w.]*)>$"), ("registry_internal", "^(\\d+)$"), ("registry_external", "^\\(([\\w.-]*)\\)$")] ∧
    Gen.C18.keyExtRegex = ["^[\\w.-]*\\Z"] ∧
    Gen.C18.keyNumberGuards = ["Lt:0", "Lt:0"] ∧
    Gen.C18.keySerializePieces = ["init:> ", "DT{number} ", "<{name}> ", "{registry_internal} ", "({registry_external}) "] ∧
    Gen.C18.valueChecks = [">", "\n", "Eq:0", "Eq:0", "call:startswith", "NotEq:/splitlines"] ∧
    Gen.C18.mdDeserializeStrings = [">", "\n"] ∧
    Gen.C18.ctabStopShape = ["args:2", "start:3", "M  END", "ret:+1"] ∧
    Gen.C18.ctabLinesShape = ["forward-from:3", "M  END"] ∧
    Gen.C18.delimiterTest = ["startswith:delimiter"] ∧
    Gen.C18.delimiterCheck = ["startswith:delimiter"] ∧
    Gen.C18.convertShape = ["Molecule", "NotIn"] ∧
    Gen.C18.addConformerKeywords = ["assignId=True"] := by
  decide

/-- Regenerated from the source on every run: `header.py`: which `Header` field is read from which columns of the second line (and stripped), the order in which the fields are written, the three line indices, the dataclass field order.  Each conjunct is what the hand-written model
(Model/C18*.lean) and the adapters hard-code. -/
theorem C18_gen_header_fields :
    Gen.C18.headerFieldSlices = [("initials", 0, 2, true), ("program", 2, 10, true), ("time", 10, 20, false), ("dimensions", 20, 22, true), ("scaling_factors", 22, 34, true), ("energy", 34, 46, true), ("registry_number", 46, 52, true)] ∧
    Gen.C18.headerWriteOrder = ["initials", "program", "time", "dimensions", "scaling_factors", "energy", "registry_number"] ∧
    Gen.C18.headerLineIndices = [0, 1, 2] ∧
    Gen.C18.headerDataclassFields = ["mol_name", "initials", "program", "time", "dimensions", "scaling_factors", "energy", "registry_number", "comments"] := by
  decide

/-- Regenerated from the source on every run: the exception classes the anchored functions raise, in source order — the classes the model's `Err` values print and the oracle demands.  Each conjunct is what the hand-written model
(Model/C18*.lean) and the adapters hard-code. -/
theorem C18_gen_exceptions :
    Gen.C18.raisesTable = [("write_structure_to_ctab", ["TypeError", "BadStructureError", "BadStructureError", "ValueError", "ValueError"]), ("v2000-writer", ["BadStructureError", "BadStructureError"]), ("v3000-writer", ["BadStructureError"]), ("read_structure_from_ctab", ["InvalidFileError", "InvalidFileError"]), ("v3000-reader", ["InvalidFileError", "NotImplementedError"]), ("v3000-block-scan", ["InvalidFileError"]), ("Key.__post_init__", ["ValueError", "ValueError", "ValueError", "ValueError", "ValueError"]), ("Key.deserialize", ["DeserializationError", "DeserializationError"]), ("Metadata.deserialize", ["DeserializationError"]), ("metadata-value-check", ["ValueError", "ValueError", "ValueError", "ValueError"]), ("metadata-add-pair", ["DeserializationError"]), ("SDRecord.get_structure", ["InvalidFileError"]), ("SDFile.serialize", ["SerializationError", "SerializationError"]), ("SDFile.__getitem__", ["DeserializationError"]), ("SDFile.__setitem__", ["TypeError"]), ("SDFile.record", ["ValueError", "ValueError"]), ("Header.serialize", ["ValueError", "ValueError"]), ("MOLFile.get_structure", ["InvalidFileError"]), ("to_mol", ["BadStructureError", "TypeError", "BadStructureError"]), ("from_mol", ["BadStructureError"])] := by
  decide

/-- Regenerated from the source on every run: the default argument values of the public entry points and of the `Header` / `Metadata.Key` fields that the adapters and the model assume (`default_bond_type=BondType.ANY`, `version=None`, `record_name=None`, `kekulize=False`, …).  Each conjunct is what the hand-written model
(Model/C18*.lean) and the adapters hard-code. -/
theorem C18_gen_defaults :
    Gen.C18.defaultsTable = [("write_structure_to_ctab", [("atoms", "<required>"), ("default_bond_type", "BondType.ANY"), ("version", "None")]), ("MOLFile.set_structure", [("atoms", "<required>"), ("default_bond_type", "BondType.ANY"), ("version", "None")]), ("SDRecord.set_structure", [("atoms", "<required>"), ("default_bond_type", "BondType.ANY"), ("version", "None")]), ("SDRecord.__init__", [("header", "None"), ("ctab", "None"), ("metadata", "None")]), ("SDFile.__init__", [("records", "None")]), ("Metadata.__init__", [("metadata", "None")]), ("convert.get_structure", [("mol_file", "<required>"), ("record_name", "None")]), ("convert.set_structure", [("mol_file", "<required>"), ("atoms", "<required>"), ("default_bond_type", "BondType.ANY"), ("version", "None"), ("record_name", "None")]), ("to_mol", [("atoms", "<required>"), ("kekulize", "False"), ("use_dative_bonds", "False"), ("include_extra_annotations", "()"), ("explicit_hydrogen", "None")]), ("from_mol", [("mol", "<required>"), ("conformer_id", "None"), ("add_hydrogen", "None")]), ("Header", [("mol_name", "''"), ("initials", "''"), ("program", "''"), ("time", "None"), ("dimensions", "''"), ("scaling_factors", "''"), ("energy", "''"), ("registry_number", "''"), ("comments", "''")]), ("Metadata.Key", [("number", "None"), ("name", "None"), ("registry_internal", "None"), ("registry_external", "None")])] := by
  decide

/-- The extractor found every construct it reads in the current source (otherwise the missing facts are
empty, the obligations above fail, and this list says what was not found). -/
theorem C18_gen_extractor_complete : Gen.C18.extractorProblems = [] := by
  decide

/-- The literals above are the ones the executable model is built from (evaluated): marker line,
`M  V30 ` prefix, `M  END`, `$$$$`, the tail of the counts line, the `M  CHG` head, the block
keywords of a written V3000 table, and the error classes of the refusals. -/
theorem C18_gen_model_literals :
    Gen.C18.compatLine.toList = compatLine ∧
    Gen.C18.v30Prefix.toList = v30 [] ∧
    ("lit:" ++ String.ofList mEnd) ∈ Gen.C18.v2000LineOrder ∧ ("lit:" ++ String.ofList mEnd) ∈ Gen.C18.v3000Return ∧
    Gen.C18.recordDelimiter.toList = delim ∧
    (Gen.C18.countsLineShape.getLast?.map (·.2.1.toList)) = some ((countsLineV2000 0 0).drop 6) ∧
    (Gen.C18.chargeHeadShape.head?.map (·.2.1.toList)) = some ((chargeLine []).take 6) ∧
    (Gen.C18.r2StartsWith.map String.toList) = [(chargeLine []).take 6] ∧
    ((writeV3000 ⟨[], []⟩ 0).toOption.map fun ls => ls.map String.ofList)
      = some ([Gen.C18.compatLine] ++ (["BEGIN CTAB", "COUNTS 0 0 0 0 0", "BEGIN ATOM", "END ATOM", "BEGIN BOND", "END BOND", "END CTAB"].map
          (Gen.C18.v30Prefix ++ ·)) ++ ["M  END"]) ∧
    (Gen.C18.nHeader.1 = 3 ∧ ctabStop 0 [[], [], mEnd, mEnd] = 4) ∧
    (Gen.C18.raisesTable.lookup "write_structure_to_ctab").map (·.getLast?) = some (some (Err.toString (match writeCtab ⟨[], []⟩ 0 .unknown with | .error e => e | .ok _ => .other ""))) ∧
    (Gen.C18.raisesTable.lookup "v2000-writer").map (·.head?) = some (some (Err.toString .badStructure)) ∧
    (Gen.C18.raisesTable.lookup "Key.deserialize").map (·.head?) = some (some (Err.toString deserErr)) ∧
    (Gen.C18.raisesTable.lookup "SDFile.serialize").map (·.getLast?) = some (some (Err.toString serErr)) := by
  decide

/-! ## Version selection -/

/-- Counts that do not fit three columns select V3000, or raise `ValueError` when V2000 was asked
for; a V2000 table is only ever written for fewer than 1000 atoms and bonds. -/
theorem C18_version_switch (m : Mol) (d : Nat) :
    (isV2000Compatible m.atoms.length m.bonds.length = false →
        writeCtab m d .auto = writeV3000 m d ∧ writeCtab m d .v2000 = .error .valueError) ∧
    (isV2000Compatible m.atoms.length m.bonds.length = true →
        writeCtab m d .auto = writeV2000 m d ∧ writeCtab m d .v2000 = writeV2000 m d) ∧
    writeCtab m d .v3000 = writeV3000 m d ∧ writeCtab m d .unknown = .error .valueError ∧
    (isV2000Compatible m.atoms.length m.bonds.length = true ↔ m.atoms.length < 10 ^ 3 ∧ m.bonds.length < 10 ^ 3) := by
  refine ⟨?_, ?_, rfl, rfl, ?_⟩
  · intro h; simp [writeCtab, h]
  · intro h; simp [writeCtab, h]
  · exact isV2000Compatible_iff _ _

/-- Whatever `write_structure_to_ctab` returns starts either with the V3000 marker line or with
a V2000 counts line whose two counts are below 1000. -/
theorem C18_version_switch_lines (m : Mol) (d : Nat) (v : Version) (ls : List Line)
    (h : writeCtab m d v = .ok ls) :
    ls.head? = some compatLine ∨
    (m.atoms.length < 1000 ∧ m.bonds.length < 1000 ∧
      ls.head? = some (countsLineV2000 m.atoms.length m.bonds.length)) := by
  have h3 : ∀ ls, writeV3000 m d = .ok ls → ls.head? = some compatLine := by
    intro ls h
    unfold writeV3000 at h
    split at h
    · cases h
    · split at h
      · cases h
      · cases h; rfl
  have h2 : ∀ ls, writeV2000 m d = .ok ls → ls.head? = some (countsLineV2000 m.atoms.length m.bonds.length) := by
    intro ls h
    unfold writeV2000 at h
    split at h
    · cases h
    · split at h
      · cases h
      · cases h; rfl
  cases v with
  | auto =>
    by_cases hc : isV2000Compatible m.atoms.length m.bonds.length = true
    · right
      simp only [writeCtab, hc, if_true] at h
      have hb : m.atoms.length < 1000 ∧ m.bonds.length < 1000 := (isV2000Compatible_iff _ _).mp hc
      exact ⟨hb.1, hb.2, h2 ls h⟩
    · left
      simp only [writeCtab, hc] at h
      exact h3 ls h
  | v2000 =>
    by_cases hc : isV2000Compatible m.atoms.length m.bonds.length = true
    · right
      simp only [writeCtab, hc] at h
      have hb : m.atoms.length < 1000 ∧ m.bonds.length < 1000 := (isV2000Compatible_iff _ _).mp hc
      exact ⟨hb.1, hb.2, h2 ls (by simpa using h)⟩
    · simp [writeCtab, hc] at h
  | v3000 => left; exact h3 ls h
  | unknown => simp [writeCtab] at h

/-! ## V2000 column layout -/

/-- What the writer needs from a molecule so that every field fits its columns: bond partners
are atoms of the molecule (hence below 999 when there are fewer than 1000 atoms), element
symbols have at most 3 characters (biotite stores 2) and every coordinate, rounded to 4 decimals,
still has at most 5 pre-decimal digits, 4 after a minus sign.  For float32 coordinates the last
condition is implied by the guard `number_of_integer_digits(...) <= 5` of the writer
(`coordDigitsOk`), because a float32 at or above 8192 is a multiple of 2⁻¹⁰; it is kept
explicit here since the model's coordinates are arbitrary rationals (see
`C18_coord_carry_needs_float32`). -/
def FitsV2000 (m : Mol) : Prop :=
  (∀ a ∈ m.atoms, CoordOk a.x ∧ CoordOk a.y ∧ CoordOk a.z ∧ a.elem.length ≤ 3) ∧
  (∀ b ∈ m.bonds, b.1 < m.atoms.length ∧ b.2.1 < m.atoms.length)

/-- **Columns.**  With fewer than 1000 atoms and bonds every line of the V2000 table has its
standard width (counts 39, atom 69, bond 21 characters), the counts and the bond partners sit in
their 3-column fields and read back as the numbers written, and the version tag sits in
columns 34–39. -/
theorem C18_v2000_columns (m : Mol) (d : Nat) (ls : List Line) (h : writeV2000 m d = .ok ls)
    (hn : m.atoms.length < 1000) (hm : m.bonds.length < 1000) (hf : FitsV2000 m) :
    ∃ dc, codeOfBond d = some dc ∧
    ls = [countsLineV2000 m.atoms.length m.bonds.length] ++ m.atoms.map atomLineV2000
          ++ m.bonds.map (bondLineV2000 dc) ++ chargeLines m ++ [mEnd] ∧
    (countsLineV2000 m.atoms.length m.bonds.length).length = 39 ∧
    pyInt (slice 0 3 (countsLineV2000 m.atoms.length m.bonds.length)) = some (m.atoms.length : Int) ∧
    pyInt (slice 3 6 (countsLineV2000 m.atoms.length m.bonds.length)) = some (m.bonds.length : Int) ∧
    getVersion (countsLineV2000 m.atoms.length m.bonds.length) = "V2000".toList ∧
    (∀ a ∈ m.atoms, (atomLineV2000 a).length = 69) ∧
    (∀ b ∈ m.bonds, (bondLineV2000 dc b).length = 21 ∧
        pyInt (slice 0 3 (bondLineV2000 dc b)) = some ((b.1 + 1 : Nat) : Int) ∧
        pyInt (slice 3 6 (bondLineV2000 dc b)) = some ((b.2.1 + 1 : Nat) : Int)) := by
  unfold writeV2000 at h
  split at h
  · cases h
  · split at h
    · cases h
    · rename_i dc hdc
      cases h
      have hdc' : dc < 1000 := by
        revert hdc; unfold codeOfBond; split <;> intro h <;> cases h <;> omega
      obtain ⟨hr1, hr2, hr3⟩ := counts_read m.atoms.length m.bonds.length hn hm
      refine ⟨dc, hdc, rfl, countsLineV2000_length _ _ hn hm, hr1, hr2, hr3, ?_, ?_⟩
      · intro a ha
        obtain ⟨hx, hy, hz, he⟩ := hf.1 a ha
        exact atomLineV2000_length a hx hy hz he
      · intro b hb
        obtain ⟨hi, hj⟩ := hf.2 b hb
        have hi' : b.1 < 999 := by omega
        have hj' : b.2.1 < 999 := by omega
        exact ⟨bondLineV2000_length dc b hi' hj' hdc', bond_read dc b hi' hj'⟩

/-- Why the rounding condition of `FitsV2000` cannot be dropped for arbitrary reals: the float64
value 99999.99996 passes the writer's digit guard and prints in 11 columns.  No float32 lies in
that gap, so an `AtomArray` cannot hold such a coordinate. -/
theorem C18_coord_carry_needs_float32 :
    let q : Q := ⟨false, 9999999996, 100000⟩
    (intRepr q.trunc).length ≤ maxCoordDigits ∧ (padL 10 (fmt4 q)).length = 11 := by
  decide

/-- **The writer's guard is enough for float32 coordinates.**  If the truncated value prints in
at most 5 characters (`number_of_integer_digits(...) <= 5`, sign included) and the coordinate lies
on the float32 grid (`F32Grid`: magnitude ≥ 8192 ⇒ denominator one of 1, 2, …, 1024), then the
value rounded to 4 decimals still has at most 5 (4 after a minus sign) pre-decimal digits
(`CoordOk`, the hypothesis of `FitsV2000`/`WFMol`) and its `>10.4f` field is exactly 10 wide. -/
theorem C18_guard_implies_columns (q : Q) (hg : F32Grid q) (hd : (intRepr q.trunc).length ≤ maxCoordDigits) :
    CoordOk q ∧ (padL 10 (fmt4 q)).length = 10 := by
  have h := coordOk_of_guard q hg hd
  exact ⟨h, padL_length_of_le 10 _ (fmt4_length_le q h)⟩

/-! ## `M  CHG` batching -/

/-- **Charge batching.**  The non-zero charges are distributed over `M  CHG` lines of at most 8
entries, none empty, nothing lost or repeated, order kept; every line announces its own count. -/
theorem C18_chg_batching (m : Mol) :
    let pairs := chargePairs 0 (m.atoms.map (·.charge))
    let bs := batched nChargesPerLine pairs
    bs.flatten = pairs ∧ (∀ b ∈ bs, 0 < b.length ∧ b.length ≤ 8) ∧ chargeLines m = bs.map chargeLine ∧
    (∀ b ∈ bs, pyInt (slice 6 9 (chargeLine b)) = some (b.length : Int)) := by
  intro pairs bs
  obtain ⟨h1, h2⟩ := batchedF_spec nChargesPerLine (by decide) pairs.length pairs (Nat.le_refl _)
  refine ⟨h1, h2, rfl, ?_⟩
  intro b hb
  have hl := (h2 b hb).2
  have h3 := pad3_nat_length b.length (by simp [nChargesPerLine] at hl; omega)
  have := slice_at "M  CHG".toList (padL 3 (natRepr b.length)) (b.map chargeEntry).flatten 6 9 rfl (by omega)
  unfold chargeLine
  simp only [← List.append_assoc] at this
  rw [this, pyInt_natRepr]

/-! ## Metadata keys, metadata, records -/

/-- **Key round trip.**  Every key of the grammar (`ValidKey`: a field number or a name is
present, the name matches `[a-zA-Z0-9][\w.]*`, the external registry part `[\w.-]*`) — any
combination of field number, name, internal and external registry number — is read back
unchanged from the line it is serialised to, and also from that line after the `strip()` which
`Metadata.deserialize` applies first. -/
theorem C18_key_roundtrip (k : Key) (hk : ValidKey k) :
    Key.deserialize k.serialize = .ok k ∧ Key.deserialize (strip k.serialize) = .ok k :=
  key_roundtrip k hk

example : ValidKey ⟨some 12, some "a.b_c".toList, some 7, some "x-1".toList⟩ := by decide
example : ValidKey ⟨some 0, none, none, some []⟩ ∧ ValidKey ⟨none, some "DT5".toList, none, none⟩ := by decide

/-- **Metadata round trip.**  A metadata block whose keys are pairwise different keys of the
grammar and whose values are non-empty lists of lines, each line non-empty, without leading or
trailing blanks and not starting with `>` (`ValueLineOk`; blank, `>`-leading lines are the
documented exclusions, `$$$$` only matters for record splitting), is read back from its
serialisation with the same keys, the same multi-line values and the same order. -/
theorem C18_metadata_roundtrip (md : Metadata) (hmd : MdOk md) (hnd : (md.map (·.1)).Nodup) :
    Metadata.deserialize (Metadata.serialize md) = .ok md := by
  have := mdLoop_entries md hmd [] none (by simpa using hnd)
  simpa [Metadata.deserialize, pend] using this

/-- **Records.**  Joining records with `$$$$` lines and splitting the file again returns the
same records, in the same order, each under the name that stands (stripped) in its first line —
provided no line of a record starts with `$$$$` and the names are pairwise different (the file is
a dict keyed by name). -/
theorem C18_records (recs : List (List Line)) (hne : recs ≠ [])
    (hl : ∀ r ∈ recs, ∀ l ∈ r, startsWith delim l = false)
    (hn : (recs.map recName).Nodup) :
    splitRecords (joinRecords recs) = .ok (recs.map fun r => (recName r, r)) ∧
    (∀ f t, recName (f :: t) = strip f) := by
  refine ⟨?_, fun _ _ => rfl⟩
  have hany : (joinRecords recs).any (startsWith delim) = true := by
    cases recs with
    | nil => exact absurd rfl hne
    | cons r rs =>
      have : delim ∈ joinRecords (r :: rs) := by simp [joinRecords]
      exact List.any_eq_true.mpr ⟨delim, this, by decide⟩
  unfold splitRecords
  cases hj : joinRecords recs with
  | nil => rw [hj] at hany; simp at hany
  | cons f t =>
    rw [← hj]
    simp only [hany, if_true]
    rw [splitLoop_join recs hl]
    rw [foldl_dictSet_fresh _ [] (by simpa [List.map_map, Function.comp_def] using hn)]
    simp [hj]

/-! ## CTAB write → read -/

/-- **CTAB round trip, V2000.**  For a well-formed molecule (`WFMol`: coordinates within the
column limits after rounding, element symbols as biotite stores them, bonds as a `BondList`
keeps them) with fewer than 1000 atoms and bonds, reading the V2000 table that was written gives
back the same atoms in the same order — elements, formal charges (−∞…∞ through `M  CHG`,
zeros through the atom block), coordinates as the 4-decimal scaled integers `Q.k4` with their
sign — and the same bonds in the same order, every bond type the bond block can express unchanged
and the others as the default type (`Mol.rt`, `C18_bond_table`). -/
theorem C18_ctab_roundtrip_v2000 (m : Mol) (d : Nat) (ls : List Line) (hw : WFMol m)
    (hn : m.atoms.length < 1000) (hm : m.bonds.length < 1000) (h : writeV2000 m d = .ok ls) :
    ∃ dc, codeOfBond d = some dc ∧ readCtab ls = .ok (m.rt dc) :=
  ctab_roundtrip_v2000 m d ls hw hn hm h

/-- **CTAB round trip, V3000.**  For a well-formed molecule with at least one atom (an empty
ATOM block is rejected by the reader) and *any* number of atoms and bonds, reading the V3000
table that was written gives back the same atoms in the same order and the same bonds, through
the `M  V30` filter, the block scanner, `split()`, the `CHG=` property and the atom-index map. -/
theorem C18_ctab_roundtrip_v3000 (m : Mol) (d : Nat) (ls : List Line) (hw : WFMol m)
    (hne : m.atoms ≠ []) (h : writeV3000 m d = .ok ls) :
    ∃ dc, codeOfBond d = some dc ∧ readCtab ls = .ok (m.rt dc) :=
  ctab_roundtrip_v3000 m d ls hw hne h

/-- **CTAB round trip.**  Whatever `write_structure_to_ctab` returns for a well-formed, non-empty
molecule — V2000 or V3000, chosen automatically or explicitly — reads back as the molecule that
was written (`Mol.rt`: same atoms, order, elements, charges, coordinates to 4 decimals, bonds
with every expressible type unchanged). -/
theorem C18_ctab_roundtrip (m : Mol) (d : Nat) (v : Version) (ls : List Line) (hw : WFMol m)
    (hne : m.atoms ≠ []) (h : writeCtab m d v = .ok ls) :
    ∃ dc, codeOfBond d = some dc ∧ readCtab ls = .ok (m.rt dc) :=
  ctab_roundtrip m d v ls hw hne h

/-! ## Header -/

/-- Column layout of the second header line in the current `header.py`: the slices
`Header.deserialize` takes are exactly the consecutive `>w.w` fields `Header.serialize` prints
(width = precision: padded *and* truncated to the column), 52 columns in total, in the order
initials, program, time stamp, dimensions, scaling factors, energy, registry number; the time
stamp is `%m%d%y%H%M` (ten digits) and the name limit is 80 — the constants of the model. -/
theorem C18_gen_header :
    Gen.C18.headerSlices = [(0, 2), (2, 10), (10, 20), (20, 22), (22, 34), (34, 46), (46, 52)] ∧
    fieldSpans 0 (Gen.C18.headerFields.map fun f => (">", f.1)) = Gen.C18.headerSlices ∧
    (∀ f ∈ Gen.C18.headerFields, f.1 = f.2) ∧
    Gen.C18.headerDateFormat = "%m%d%y%H%M" ∧ Gen.C18.headerNameLimit = 80 := by
  decide

/-- **Header round trip.**  Every header the three lines can express (`ValidHeader`: name ≤ 80
characters, each field within its columns, no field with a leading or trailing blank, time stamp a
valid date with minute resolution and two-digit year) is serialised without error into a name
line, a 52-column line and a comment line, and read back unchanged, field by field. -/
theorem C18_header_roundtrip (h : Header) (hv : ValidHeader h) :
    ∃ l2, h.serialize = .ok [h.molName, l2, h.comments] ∧ l2.length = 52 ∧
      Header.deserialize [h.molName, l2, h.comments] = .ok h := by
  exact ⟨headerLine2 h, header_serialize_eq h hv, headerLine2_length h, header_deserialize_lines h hv []⟩

/-- The second line is 52 columns wide whatever the fields contain (over-long fields are cut, not
shifted), and a name longer than 80 characters is refused. -/
theorem C18_header_columns (h : Header) :
    (h.molName.length ≤ 80 → ∃ l2, h.serialize = .ok [h.molName, l2, h.comments] ∧ l2.length = 52) ∧
    (80 < h.molName.length → h.serialize = .error .valueError) := by
  constructor
  · intro hl
    have : ¬ h.molName.length > 80 := by omega
    refine ⟨headerLine2 h, by simp [Header.serialize, this, headerLine2], headerLine2_length h⟩
  · intro hl
    simp [Header.serialize, hl]

/-- What the format cannot express, as the code behaves (both replayed on the real code by the
corpus cases `header-limits`): a field longer than its columns is silently cut (`ABCDEFGHIJ` →
`ABCDEFGH`, documented in `header.py`), and blanks around a field or the name are lost
(`" a "` → `a`) because fields are padded with blanks and read with `strip()`.  These are limits
of the fixed-column format, stated here so that `ValidHeader` is seen to be necessary. -/
theorem C18_header_truncation_defect :
    (Header.serialize ⟨[], [], "ABCDEFGHIJ".toList, none, [], [], [], [], []⟩).bind Header.deserialize
      = .ok ⟨[], [], "ABCDEFGH".toList, none, [], [], [], [], []⟩ ∧
    (Header.serialize ⟨" a ".toList, [], [], none, [], [], [], [], " c".toList⟩).bind Header.deserialize
      = .ok ⟨"a".toList, [], [], none, [], [], [], [], "c".toList⟩ := by
  decide

/-! ## Whole records and files -/

/-- **One SD record.**  A record with a valid header, a well-formed non-empty molecule and valid
metadata with pairwise different keys (`RecOk`), written with any version argument, is split
again into exactly its three header lines, its CTAB (up to the first `M  END` after the header —
even if the molecule name itself starts with `M  END`) and its metadata lines, and each part reads
back as what was written: the header field by field, the molecule as in `C18_ctab_roundtrip`, the
metadata with keys, multi-line values and order. -/
theorem C18_sdf_record_roundtrip (r : SDRec) (d : Nat) (v : Version) (ls : List Line) (hr : RecOk r)
    (h : r.serialize d v = .ok ls) :
    ∃ dc, codeOfBond d = some dc ∧ SDRec.deserialize ls = .ok ⟨r.header, r.mol.rt dc, r.md⟩ := by
  obtain ⟨dc, _, hdc, _, _, hde⟩ := sdrec_roundtrip r d v ls hr h
  exact ⟨dc, hdc, hde⟩

/-- **A whole SD file.**  A non-empty list of records with pairwise different molecule names, each
`RecOk` and without a header or metadata-value line that starts with `$$$$` (`NoDelim`; CTAB and
key lines never do), serialised with `$$$$` delimiters and read again, gives the same records in
the same order, each under its molecule name, with header, molecule and metadata as written. -/
theorem C18_sdf_file_roundtrip (rs : List SDRec) (d : Nat) (v : Version) (ls : List Line) (hne : rs ≠ [])
    (hok : ∀ r ∈ rs, RecOk r ∧ NoDelim r) (hnames : (rs.map (·.header.molName)).Nodup)
    (h : sdfSerialize rs d v = .ok ls) :
    ∃ dc, codeOfBond d = some dc ∧
      sdfDeserialize ls = .ok (rs.map fun r => (r.header.molName, ⟨r.header, r.mol.rt dc, r.md⟩)) :=
  sdf_file_roundtrip rs d v ls hne hok hnames h

/-! ## Editing a parsed file -/

/-- **Lazy parsing is unobservable.**  A file read from text keeps every record as text, parses a
record, its header and its metadata on first access and caches the parsed object that is then
edited in place.  For every history of edits — header fields, metadata, replacing the molecule,
`file[new] = file[old]; del file[old]`, `del`, inserting a new record — started from any mixture
of text and parsed parts, the outputs (incl. `KeyError` / `DeserializationError`) and the
resulting content are those of the same history on a plain insertion-ordered mapping of fully
parsed records.  (A model in which `record.header` returned the parsed header without caching it
— seeded change C18-9 — does not satisfy this.) -/
theorem C18_sdf_lazy_refines (f : LFile) (ops : List EditOp) :
    specRun f.abs ops = (LFile.abs (lazyRun f ops).1, (lazyRun f ops).2) :=
  run_refines ops f

/-- The file as `SDFile.deserialize` leaves it (every record text) means: every record cut into
header / CTAB / metadata by `recordParts` and each part parsed. -/
theorem C18_sdf_lazy_initial (recs : List (Line × List Line)) :
    (lazyOfRecords recs).abs = recs.map fun nr =>
      (nr.1, ⟨parseH (recordParts nr.2).1, (recordParts nr.2).2.1, parseM (recordParts nr.2).2.2⟩) := by
  simp [lazyOfRecords, LFile.abs, entryAbs, lrecOfLines, LRec.abs, forceH, forceM, List.map_map, Function.comp_def]

/-- **Adopting a record under a name** (`file[k] = record`, and each item of `SDFile({k: record})`):
for any record object — also one taken from another parsed file whose header is still text — with
a parseable header `h`, the file afterwards holds under `k` that record with `h.mol_name = k` (CTAB
and metadata as they were), and `k` keeps its position or is appended.  (Seeded change C18-16
skipped the renaming for headers that are still text.) -/
theorem C18_sdfile_adopt (f : LFile) (k : Line) (r : LRec) (h : Header) (hh : forceH r.header = some h) :
    (lazyStep f (.adopt k r)).2 = .unit ∧
    lookupK k (LFile.abs (lazyStep f (.adopt k r)).1) = some ⟨some { h with molName := k }, r.ctab, forceM r.md⟩ ∧
    (LFile.abs (lazyStep f (.adopt k r)).1).map (·.1)
      = if k ∈ f.abs.map (·.1) then f.abs.map (·.1) else f.abs.map (·.1) ++ [k] := by
  simp only [lazyStep, hh]
  refine ⟨trivial, ?_, ?_⟩
  · rw [dictSet_abs, lookupK_dictSet]; simp only [entryAbs, LRec.abs, forceH]
  · rw [dictSet_abs, keys_dictSet]

/-- **`MOLFile.set_structure` / `get_structure`.**  A rejected structure (`write_structure_to_ctab`
raises: too many atoms or bonds for an explicit V2000, a coordinate too wide, an unknown version,
an inexpressible default bond type) leaves the lines of the file — hence the molecule it holds —
exactly as they were; an accepted one keeps the three header lines, whatever they contain, and
`get_structure` then returns the molecule that was set.  (Seeded change C18-15 deleted the old
CTAB before the new one was known to exist.) -/
theorem C18_molfile_set_structure (l0 l1 l2 : Line) (old : List Line) (m : Mol) (d : Nat) (v : Version) :
    (∀ e, writeCtab m d v = .error e →
        molSetStructure ([l0, l1, l2] ++ old) m d v = ([l0, l1, l2] ++ old, some e)) ∧
    (∀ cl, writeCtab m d v = .ok cl → WFMol m → m.atoms ≠ [] →
        ∃ dc, codeOfBond d = some dc ∧
          molSetStructure ([l0, l1, l2] ++ old) m d v = ([l0, l1, l2] ++ cl, none) ∧
          molGetStructure ([l0, l1, l2] ++ cl) = .ok (m.rt dc)) := by
  constructor
  · intro e he; simp [molSetStructure, he]
  · intro cl hc hw hne
    obtain ⟨dc, hdc, hread⟩ := ctab_roundtrip m d v cl hw hne hc
    obtain ⟨body, rfl, hbody⟩ := writeCtab_lines m d v cl hc
    refine ⟨dc, hdc, by simp [molSetStructure, hc], ?_⟩
    have hp := recordParts_write l0 l1 l2 body [] (fun l hl => (hbody l hl).1)
    have hc' : molCtabLines ([l0, l1, l2] ++ (body ++ [mEnd])) = body ++ [mEnd] := by
      have : molCtabLines ([l0, l1, l2] ++ (body ++ [mEnd]) ++ []) = (recordParts ([l0, l1, l2] ++ (body ++ [mEnd]) ++ [])).2.1 := rfl
      rw [hp] at this
      simpa using this
    have hemp : (body ++ [mEnd]).isEmpty = false := by cases body <;> rfl
    simp only [molGetStructure, hc', hemp, Bool.false_eq_true, if_false, hread]

/-- **Full `M  CHG` lines.**  Every charge line but the last announces and holds exactly 8 entries
(9, 16, 17, … charges fill lines of 8 and one remainder line). -/
theorem C18_chg_full_lines (m : Mol) :
    ∀ b ∈ (batched nChargesPerLine (chargePairs 0 (m.atoms.map (·.charge)))).dropLast, b.length = 8 :=
  batchedF_full nChargesPerLine (by decide) _ _ (Nat.le_refl _)

/-- **A `MOLFile` header edited in place is what gets written.**  `file.header` parses the three
header lines once and hands out that object; after editing it in place (`g`), `write()`/`str()`/
`copy()` emit the edited header followed by the untouched CTAB, and — if the edited header is
valid — a reader of that text gets exactly the edited header back. -/
theorem C18_molfile_header_edit (f : MolFile) (h : Header) (g : Header → Header)
    (hh : f.cached = some h ∨ (f.cached = none ∧ Header.deserialize (f.lines.take 3) = .ok h))
    (hv : ValidHeader (g h)) :
    ∃ f', f.editHeader g = .ok f' ∧ f'.lines = f.lines ∧
      f'.written = .ok ([(g h).molName, headerLine2 (g h), (g h).comments] ++ f.lines.drop 3) ∧
      Header.deserialize ([(g h).molName, headerLine2 (g h), (g h).comments] ++ f.lines.drop 3) = .ok (g h) := by
  have hd := header_deserialize_lines (g h) hv (f.lines.drop 3)
  rcases hh with hc | ⟨hc, hp⟩
  · refine ⟨{ f with cached := some (g h) }, ?_, rfl, ?_, hd⟩
    · simp [MolFile.editHeader, MolFile.getHeader, hc, Except.map]
    · simp [MolFile.written, header_serialize_eq (g h) hv, Except.map]
  · refine ⟨{ f with cached := some (g h) }, ?_, rfl, ?_, hd⟩
    · simp [MolFile.editHeader, MolFile.getHeader, hc, hp, Except.map]
    · simp [MolFile.written, header_serialize_eq (g h) hv, Except.map]

/-! ## Refusals: what lies outside the hypotheses above is rejected, not written -/

/-- An element symbol wider than its three columns makes the V2000 writer raise
`BadStructureError` (it used to shift the atom line). -/
theorem C18_v2000_long_element_rejects (m : Mol) (d : Nat) (h : ∃ a ∈ m.atoms, 3 < a.elem.length) :
    writeV2000 m d = .error .badStructure := by
  obtain ⟨a, ha, hl⟩ := h
  have : elemWidthOk m = false := by
    unfold elemWidthOk
    rw [List.all_eq_false]
    exact ⟨a, ha, by simp; omega⟩
  simp [writeV2000, this]

/-- `Metadata.Key(...)` accepts exactly the keys of the grammar (`ValidKey`): every other
combination — no number and no name, a name outside `[a-zA-Z0-9][\w.]*`, an external registry
part outside `[\w.-]*` — is a `ValueError` (negative numbers are not expressible in the model; the
code refuses them too). -/
theorem C18_key_accepted_iff (k : Key) : k.valid = true ↔ ValidKey k := by
  unfold ValidKey
  constructor
  · intro h
    refine ⟨h, ?_⟩
    intro s hs
    simp only [Key.valid, hs, Bool.and_eq_true] at h
    exact h.2
  · exact fun h => h.1

/-- `metadata[key] = value` is refused with `ValueError` exactly when the key is not of the grammar
or the value is empty, has a blank line or a line starting with `>`; every value allowed by the
round-trip theorem (`ValueLineOk` lines) is accepted. -/
theorem C18_metadata_setitem (md : Metadata) (k : Key) (v : List Line) :
    (Metadata.setItem md k v = .error .valueError ↔ ¬ (k.valid = true ∧ valueOk v = true)) ∧
    (k.valid = true → valueOk v = true → Metadata.setItem md k v = .ok (dictSet k v md)) ∧
    (v ≠ [] → (∀ l ∈ v, ValueLineOk l) → valueOk v = true) := by
  refine ⟨?_, ?_, ?_⟩
  · unfold Metadata.setItem
    cases hk : k.valid <;> cases hv : valueOk v <;> simp
  · intro hk hv; simp [Metadata.setItem, hk, hv]
  · intro hne hl
    unfold valueOk
    have h1 : v.isEmpty = false := by cases v with | nil => exact absurd rfl hne | cons _ _ => rfl
    simp only [h1, Bool.not_false, Bool.true_and, List.all_eq_true, Bool.and_eq_true, Bool.not_eq_true']
    intro l hlm
    obtain ⟨hne', htl, htr, hgt⟩ := hl l hlm
    rw [strip_tight l htl htr]
    refine ⟨?_, hgt⟩
    cases l with
    | nil => exact absurd rfl hne'
    | cons _ _ => rfl

/-- `SDFile.serialize` refuses (`SerializationError`) a file in which some record has a line that
starts with `$$$$`, and whatever it does write contains no such line inside a record. -/
theorem C18_sdf_delim_line_rejects (rs : List SDRec) (d : Nat) (v : Version) (recs : List (List Line))
    (hm : rs.mapM (fun r => r.serialize d v) = .ok recs) :
    (noDelimLines recs = false → sdfSerialize rs d v = .error serErr) ∧
    (noDelimLines recs = true → sdfSerialize rs d v = .ok (joinRecords recs)) := by
  constructor <;> intro h <;> simp [sdfSerialize, hm, h, bind, Except.bind, pure, Except.pure]

/-- An `SDFile` without records is written as the empty text, which the reader refuses
(`IndexError`) — the reason for `rs ≠ []` in `C18_sdf_file_roundtrip`. -/
theorem C18_sdf_empty_rejects (d : Nat) (v : Version) :
    sdfSerialize [] d v = .ok [] ∧ sdfDeserialize [] = .error .indexError := by
  constructor <;> rfl

/-- A molecule without atoms is written as a V3000 table whose ATOM block is empty, which the
reader refuses (`InvalidFileError`) — the reason for `m.atoms ≠ []` in `C18_ctab_roundtrip_v3000`;
V2000 holds it (`0 0` counts line). -/
theorem C18_v3000_empty_rejects (d dc : Nat) (hd : codeOfBond d = some dc) :
    (writeV3000 ⟨[], []⟩ d).bind readCtab = .error .invalidFile ∧
    (writeV2000 ⟨[], []⟩ d).bind readCtab = .ok ⟨[], []⟩ := by
  constructor
  · have h0 : codeOfBond 0 = some 8 := rfl
    have : writeV3000 ⟨[], []⟩ d = writeV3000 ⟨[], []⟩ 0 := by
      unfold writeV3000
      simp only [hd, h0, mapIdxFrom]
    rw [this]; decide
  · have h0 : codeOfBond 0 = some 8 := rfl
    have : writeV2000 ⟨[], []⟩ d = writeV2000 ⟨[], []⟩ 0 := by
      unfold writeV2000
      simp only [hd, h0, List.map_nil]
    rw [this]; decide

/-! ## Coordinates after the float32 store -/

/-- **"Coordinates to 0.0001", over ℚ.**  Let `x = q.val` be a float32 (`IsF32`: `m·2^e`,
`|m| < 2²⁴`) that is written; the text in the file is `fmt4 q`, which the reader parses to the
decimal `q.dec` (`pyFloat_fmt4`), and `|q.dec − x| ≤ ½·10⁻⁴`.  If the value `d'` that reaches the
float32 store is within `ε` of that decimal (`ε` = rounding error of `float()`, ≤ 2⁻³⁷ below 2¹⁷;
`ε = 0` for an exact conversion) and the stored `y` is a float32 nearest to `d'` (IEEE
round-to-nearest, any tie rule — *assumed* of numpy, not modelled), then `|y − x| ≤ 10⁻⁴ + 2ε`.
The proof only uses that `x` itself is on the float32 grid, so it is a candidate for "nearest". -/
theorem C18_coord_reround (q : Q) (hden : 0 < q.den) (hx : IsF32 q.val) (d' y ε : ℚ)
    (hd' : |d' - q.dec.val| ≤ ε) (hy : NearestF32 d' y) :
    pyFloat (fmt4 q) = some q.dec ∧ |q.dec.val - q.val| ≤ 1 / 20000 ∧ |y - q.val| ≤ 1 / 10000 + 2 * ε :=
  ⟨pyFloat_fmt4_tight q, dec_close q hden, reround q hden hx d' y ε hd' hy⟩

/-- With an exact decimal → float32 conversion the coordinate read back is within 10⁻⁴. -/
theorem C18_coord_reround_exact (q : Q) (hden : 0 < q.den) (hx : IsF32 q.val) (y : ℚ)
    (hy : NearestF32 q.dec.val y) : |y - q.val| ≤ 1 / 10000 := by
  have := reround q hden hx q.dec.val y 0 (by simp) hy
  linarith

/-! ## Non-vacuity and concrete round trips (evaluated by the kernel)

The examples below show that the hypotheses of the theorems above (`WFMol`, `FitsV2000`,
`ValidKey`, `MdOk`, record hypotheses) are met by concrete non-trivial inputs, and run the model's
writer and reader on them: both versions, a charge outside −3…3, a non-expressible bond type, a
rounding tie and the column limits. -/

def exMol : Mol :=
  ⟨[⟨⟨false, 9999999, 100⟩, ⟨true, 1, 32⟩, ⟨false, 0, 1⟩, "FE".toList, -15⟩,
    ⟨⟨true, 999999, 100⟩, ⟨false, 3, 32⟩, ⟨true, 1, 100000⟩, "N".toList, 2⟩,
    ⟨⟨false, 5, 4⟩, ⟨false, 0, 1⟩, ⟨false, 0, 1⟩, "H".toList, 0⟩],
   [(0, 1, 8), (1, 2, 9)]⟩

example : FitsV2000 exMol ∧ coordDigitsOk exMol = true := by
  refine ⟨⟨?_, ?_⟩, ?_⟩ <;> decide
example : ∀ q ∈ [(⟨false, 12799999, 128⟩ : Q), ⟨true, 10239999, 1024⟩, ⟨true, 1, 32⟩],
    F32Grid q ∧ (intRepr q.trunc).length ≤ maxCoordDigits := by decide
example : WFMol exMol ∧ exMol.atoms ≠ [] := by
  refine ⟨⟨?_, ?_, ?_⟩, ?_⟩ <;> decide
example : (writeCtab exMol 0 .auto).toOption.map (·.length) = some 8 := by decide
example : (writeCtab exMol 0 .v2000).bind readCtab = .ok (exMol.rt 8) := by decide
example : (writeCtab exMol 1 .v3000).bind readCtab = .ok (exMol.rt 1) := by decide
example : atomLineV2000 ⟨⟨true, 1, 32⟩, ⟨false, 9999999, 100⟩, ⟨true, 999999, 100⟩, "CL".toList, -1⟩
    = "   -0.031299999.9900-9999.9900 Cl  0  5  0  0  0  0  0  0  0  0  0  0".toList := by decide
example : chargeLines ⟨(List.range 9).map (fun (i : Nat) => ⟨⟨false, 0, 1⟩, ⟨false, 0, 1⟩, ⟨false, 0, 1⟩, ['C'], (i : Int) - 15⟩), []⟩
    = ["M  CHG  8   1 -15   2 -14   3 -13   4 -12   5 -11   6 -10   7  -9   8  -8".toList, "M  CHG  1   9  -7".toList] := by decide
example : Key.deserialize (Key.serialize ⟨some 12, some "a.b_c".toList, some 7, some "x-1".toList⟩)
    = .ok ⟨some 12, some "a.b_c".toList, some 7, some "x-1".toList⟩ := by decide
example : Metadata.deserialize (Metadata.serialize [(⟨none, some "k".toList, none, none⟩, ["l1".toList, "l 2".toList]),
      (⟨some 3, none, none, some [] ⟩, ["v".toList])])
    = .ok [(⟨none, some "k".toList, none, none⟩, ["l1".toList, "l 2".toList]), (⟨some 3, none, none, some []⟩, ["v".toList])] := by decide
example : splitRecords (joinRecords [["a".toList, "x".toList], [" b ".toList]])
    = .ok [("a".toList, ["a".toList, "x".toList]), ("b".toList, [" b ".toList])] := by decide

def exMd : Metadata :=
  [(⟨none, some "k".toList, none, none⟩, ["l1".toList, "l 2 <x>".toList]), (⟨some 3, none, some 7, some []⟩, ["v".toList])]
theorem exMd_ok : MdOk exMd ∧ (exMd.map (·.1)).Nodup := by
  refine ⟨?_, by decide⟩
  intro kv hkv
  simp only [exMd, List.mem_cons, List.mem_nil_iff, or_false] at hkv
  rcases hkv with rfl | rfl
  · refine ⟨by decide, by decide, ?_⟩
    intro l hl
    simp only [List.mem_cons, List.mem_nil_iff, or_false] at hl
    rcases hl with rfl | rfl <;>
      exact ⟨by decide, by intro c t h; cases h; decide, by intro c t h; cases h; decide, by decide⟩
  · refine ⟨by decide, by decide, ?_⟩
    intro l hl
    simp only [List.mem_cons, List.mem_nil_iff, or_false] at hl
    subst hl
    exact ⟨by decide, by intro c t h; cases h; decide, by intro c t h; cases h; decide, by decide⟩
example : let recs := [["a".toList, "x".toList], [" b ".toList, "M  END".toList]]
    recs ≠ [] ∧ (∀ r ∈ recs, ∀ l ∈ r, startsWith delim l = false) ∧ (recs.map recName).Nodup := by decide

def exHeader : Header :=
  ⟨"M  END of (+)-x".toList, "AB".toList, "prog 1.0".toList, some (2, 29, 24, 23, 59), "3D".toList,
   "1   1.00000".toList, "-12.5".toList, "123456".toList, "a comment, with blanks".toList⟩
example : ValidHeader exHeader := by decide
example : exHeader.serialize.toOption.map (·.map String.ofList) =
    some ["M  END of (+)-x", "ABprog 1.002292423593D 1   1.00000       -12.5123456", "a comment, with blanks"] := by decide

theorem exMol_wf : WFMol exMol ∧ exMol.atoms ≠ [] := by
  refine ⟨⟨?_, ?_, ?_⟩, ?_⟩ <;> decide

def exRecs : List SDRec :=
  [⟨exHeader, exMol, exMd⟩, ⟨{ exHeader with molName := "second".toList, time := none }, exMol, []⟩]

example : exRecs ≠ [] ∧ (∀ r ∈ exRecs, RecOk r ∧ NoDelim r) ∧ (exRecs.map (·.header.molName)).Nodup := by
  refine ⟨by decide, ?_, by decide⟩
  intro r hr
  simp only [exRecs, List.mem_cons, List.mem_nil_iff, or_false] at hr
  rcases hr with rfl | rfl
  · exact ⟨⟨by decide, exMol_wf.1, exMol_wf.2, exMd_ok.1, exMd_ok.2⟩, by unfold NoDelim; decide⟩
  · exact ⟨⟨by decide, exMol_wf.1, exMol_wf.2, by intro kv h; simp at h, by decide⟩, by unfold NoDelim; decide⟩
example : ((sdfSerialize exRecs 0 .auto).toOption.map (·.length)) = some 31 := by decide
example : (sdfSerialize exRecs 0 .v3000).bind sdfDeserialize
    = .ok (exRecs.map fun r => (r.header.molName, ⟨r.header, r.mol.rt 8, r.md⟩)) := by decide

/-- −1/32 is a float32, and a float32 is its own nearest float32 -/
example : IsF32 (Q.val ⟨true, 1, 32⟩) ∧ NearestF32 (Q.val ⟨true, 1, 32⟩) (Q.val ⟨true, 1, 32⟩) := by
  have h : IsF32 (Q.val ⟨true, 1, 32⟩) := ⟨-1, -5, by norm_num, by norm_num, by simp [Q.val]; norm_num⟩
  exact ⟨h, h, fun z _ => by simp⟩

/-- a rename followed by a header edit on a file that is still text: the record moves to the end
under its new name with the edited header, and the header is now parsed -/
example :
    let f := lazyOfRecords [("a".toList, (exHeader.serialize.toOption.getD []) ++ [mEnd]), ("b".toList, ["b".toList, [], [], mEnd])]
    (lazyRun f [.rename "a".toList "c".toList, .editHeader "c".toList (fun h => { h with comments := "new".toList }),
                .del "zz".toList]).2 = [.unit, .unit, .err .keyError] ∧
    ((lazyRun f [.rename "a".toList "c".toList, .editHeader "c".toList (fun h => { h with comments := "new".toList })]).1.abs.map
        fun kv => (kv.1, kv.2.header.map (·.molName), kv.2.header.map (·.comments)))
      = [("b".toList, some "b".toList, some []), ("c".toList, some "c".toList, some "new".toList)] := by
  decide

/-- a metadata value line that begins with `M  END` (seeded change C18-14 searched the end of the
CTAB from the back): the record still splits after the first `M  END` and reads back -/
def exRecMEnd : SDRec :=
  ⟨exHeader, exMol, [(⟨none, some "note".toList, none, none⟩, ["first".toList, "M  END of data".toList, "last".toList])]⟩
example : (exRecMEnd.serialize 0 .auto).bind SDRec.deserialize = .ok ⟨exHeader, exMol.rt 8, exRecMEnd.md⟩ := by decide
/-- records adopted by the constructor under new names while their headers are still text -/
example :
    let r := lrecOfLines ((exHeader.serialize.toOption.getD []) ++ [mEnd])
    (sdfileOfDict [("x".toList, r), ("y".toList, r)]).2 = [.unit, .unit] ∧
    ((sdfileOfDict [("x".toList, r), ("y".toList, r)]).1.abs.map fun kv => (kv.1, kv.2.header.map (·.molName)))
      = [("x".toList, some "x".toList), ("y".toList, some "y".toList)] := by decide
/-- rejected `set_structure` calls (a coordinate of 123456.7, an unknown version, QUADRUPLE as default bond
type) keep the file -/
example :
    let bad : Mol := ⟨[⟨⟨false, 1234567, 10⟩, ⟨false, 0, 1⟩, ⟨false, 0, 1⟩, ['C'], 0⟩], []⟩
    molSetStructure ["n".toList, [], [], mEnd] bad 0 .auto = (["n".toList, [], [], mEnd], some .badStructure) ∧
    molSetStructure ["n".toList, [], [], mEnd] exMol 0 .unknown = (["n".toList, [], [], mEnd], some .valueError) ∧
    molSetStructure ["n".toList, [], [], mEnd] exMol 4 .auto = (["n".toList, [], [], mEnd], some .keyError) := by decide

/-- a header read from the lines, edited in place, then written -/
example :
    let f : MolFile := ⟨(exHeader.serialize.toOption.getD []) ++ ["  0  0".toList, mEnd], none⟩
    (f.editHeader (fun h => { h with comments := "edited".toList })).bind MolFile.written
      = .ok ([exHeader.molName, headerLine2 exHeader, "edited".toList] ++ ["  0  0".toList, mEnd]) := by decide

end BiotiteModel.C18

import BiotiteModel.Model.C18Sdf
namespace BiotiteModel.C18
theorem C18_stub : natRepr 12 = ['1', '2'] := by decide
end BiotiteModel.C18

import BiotiteModel.Proofs.C07File
import BiotiteModel.Gen.C07
import BiotiteModel.Gen.C07Logic
/-!
# C07 — PDB files round-trip structures and never emit shifted columns: property theorems

Only property statements, regenerated-table obligations and non-vacuity examples; helper lemmas are in
`Proofs/C07*.lean`.  All theorems quantify over all inputs (no size bound).
-/
namespace BiotiteModel.C07

/-! ## hybrid-36 (every width `w ≥ 1`; the PDB format uses 4 and 5) -/

/-- decoding inverts encoding for every number the width can hold -/
theorem C07_h36_decode_encode (w n : Nat) (hw : 1 ≤ w) (hn : n ≤ maxNumber w) :
    ∃ s, encodeH36 (n : Int) w = .ok s ∧ decodeH36 s = .ok (n : Int) := decode_encode w n hw hn

/-- … also inside a blank-padded column of any width (the reader slices fixed columns) -/
theorem C07_h36_decode_encode_padded (w n a b : Nat) (hw : 1 ≤ w) (hn : n ≤ maxNumber w) :
    ∃ s, encodeH36 (n : Int) w = .ok s ∧
      decodeH36 (List.replicate a ' ' ++ s ++ List.replicate b ' ') = .ok (n : Int) :=
  decode_pad_encode w n a b hw hn

/-- encoding inverts decoding on canonical hybrid-36 letter strings (upper or lower case) -/
theorem C07_h36_encode_decode (s : List Char)
    (h : canonicalLetters asciiFirstUpper s = true ∨ canonicalLetters asciiFirstLower s = true) :
    ∃ v : Int, decodeH36 s = .ok v ∧ encodeH36 v s.length = .ok s :=
  h.elim (encode_decode_upper s) (encode_decode_lower s)

/-- an encoded number never exceeds its column and is never empty or blank -/
theorem C07_h36_width (n : Int) (w : Nat) (s : List Char) (h : encodeH36 n w = .ok s) :
    s.length ≤ w ∧ s ≠ [] ∧ ∀ c ∈ s, isWS c = false :=
  ⟨encodeH36_length n w s h, encodeH36_ne_nil n w s h, encodeH36_no_ws n w s h⟩

/-- numbers the width cannot hold (and negative numbers) are refused -/
theorem C07_h36_rejects (w : Nat) (n : Int) (h : n < 0 ∨ (maxNumber w : Int) < n) :
    encodeH36 n w = .error .valueError :=
  h.elim (encode_rejects_neg w n) (encode_rejects w n)

example : encodeH36 2436111 4 = .ok "zzzz".toList ∧ decodeH36 "zzzz".toList = .ok 2436111 := by decide
example : encodeH36 100000 5 = .ok "A0000".toList ∧ maxNumber 5 = 87440031 ∧ maxNumber 4 = 2436111 := by decide
example : encodeH36 2436112 4 = .error .valueError := by decide
example : canonicalLetters asciiFirstUpper "A0Z9".toList = true := by decide

/-! ## rounding: what is written is within half a unit of the last decimal of the exact value -/

theorem C07_round_error (x : Fx) (d : Nat) :
    2 * ((x.scaled d : Int) * 2 ^ x.e - x.m * 10 ^ d).natAbs ≤ 2 ^ x.e := by
  have h := roundHE_error (x.m * 10 ^ d) (2 ^ x.e) (Nat.pow_pos (by decide))
  simpa [Fx.scaled] using h

/-- -999.9996 (float32 -999.99957275390625 = -16383993/2^14) rounds to -1000.000: nine characters -/
example : (fmtFixed 3 ⟨true, 16383993, 14⟩) = "-1000.000".toList := by decide
/-- ties go to the even neighbour, the sign of a negative zero is kept -/
example : fmtFixed 3 ⟨false, 1, 4⟩ = "0.062".toList ∧ fmtFixed 3 ⟨true, 1, 14⟩ = "-0.000".toList := by decide

/-! ## the compatibility check accepts exactly what fits after rounding -/

/-- **soundness of `_check_pdb_compatibility`** (after the fixes): an accepted structure has every field of
every atom inside its columns, magnitudes measured after rounding -/
theorem C07_compat_sound (fl : Flags) (s : Struct) (h : checkCompat fl s = .ok ()) :
    (∀ p ∈ enum s.atoms, CompatStrong fl p.1 p.2) ∧ (∀ m ∈ s.models, ∀ c ∈ m, CoordStrong c) :=
  checkCompat_sound fl s h

/-- the check is exact per atom / coordinate: it refuses nothing that fits -/
theorem C07_compat_exact (fl : Flags) (i : Nat) (a : Atom) (c : Coord) :
    (checkAtom fl i a = true ↔ CompatStrong fl i a) ∧ (checkCoord c = true ↔ CoordStrong c) :=
  ⟨checkAtom_iff fl i a, checkCoord_iff c⟩

/-- what does not fit is refused with `BadStructureError` before anything is written -/
theorem C07_refused (fl : Flags) (s : Struct) (h : checkCompat fl s ≠ .ok ()) :
    writePdb fl s = .error .badStructure := by
  have := checkCompat_rejects fl s h
  simp [writePdb, this, bind, Except.bind]

/-- x = -999.9996 is refused, x = -999.9994 is accepted -/
example : checkCoord (⟨true, 16383993, 14⟩, ⟨false, 0, 0⟩, ⟨false, 0, 0⟩) = false ∧
          checkCoord (⟨true, 16383990, 14⟩, ⟨false, 0, 0⟩, ⟨false, 0, 0⟩) = true := by decide

/-! ## non-finite values -/

/-- **NaN / ±inf are refused.**  A structure with a non-finite coordinate, or a non-finite B-factor / occupancy
in a *present* annotation, is refused with `BadStructureError` before anything is written — although the
text of these values (`nan`, `inf`, `-inf`) is short enough for every column, so the width test alone
(`len(format(v, spec)) > n_columns`) would have accepted them: the explicit `isnan` / `isfinite` tests of
`_check_pdb_compatibility` / `_check_number_columns` are what refuses (`checkNumCol … = false`). -/
theorem C07_nonfinite_refused (fl : Flags) (cell : Option Cell) (s : StructN)
    (h : (∃ m ∈ s.models, ∃ c ∈ m, c.1.isFinite = false ∨ c.2.1.isFinite = false ∨ c.2.2.isFinite = false) ∨
         (∃ a ∈ s.atoms, (fl.hasB = true ∧ a.bf.isFinite = false) ∨ (fl.hasOcc = true ∧ a.occ.isFinite = false))) :
    writePdbN fl cell s = .error .badStructure ∧
    (∀ (x : Num) (d w : Nat), x.isFinite = false → (fmtNum d x).length ≤ 4 ∧ checkNumCol d w x = false) := by
  refine ⟨?_, ?_⟩
  · have hn : s.finite? fl = none := by
      rcases h with ⟨m, hm, c, hc, hcf⟩ | ⟨a, ha, haf⟩
      · exact finite?_none_of_coord fl s m hm c hc hcf
      · exact finite?_none_of_atom fl s a ha haf
    simp [writePdbN, hn]
  · intro x d w hx
    cases x with
    | fin f => simp [Num.isFinite] at hx
    | nan => exact ⟨by simp [fmtNum], by simp [checkNumCol, Num.isFinite]⟩
    | inf neg => cases neg <;> exact ⟨by simp [fmtNum], by simp [checkNumCol, Num.isFinite]⟩

/-- finite input is handled by the finite model all other theorems speak about -/
theorem C07_finite_passthrough (fl : Flags) (cell : Option Cell) (s : StructN) (s' : Struct) (h : s.finite? fl = some s')
    (hne : s'.atoms ≠ []) : writePdbN fl cell s = writePdbBox fl cell s' := by
  have : s'.atoms.isEmpty = false := by cases hs : s'.atoms with | nil => exact absurd hs hne | cons _ _ => rfl
  simp [writePdbN, h, this]

/-- **a structure without atoms is refused** (the excluded case `atoms ≠ []` of the theorems below): the box check still
applies first (`BadStructureError`), otherwise NumPy refuses the empty character arrays (`ValueError`); nothing is written. -/
theorem C07_empty_rejected (fl : Flags) (cell : Option Cell) (s : StructN) (s' : Struct) (h : s.finite? fl = some s')
    (he : s'.atoms = []) :
    writePdbN fl cell s = .error .valueError ∨ writePdbN fl cell s = .error .badStructure := by
  simp only [writePdbN, h, he, List.isEmpty_nil, if_true]
  cases cell with
  | none => exact Or.inl rfl
  | some u => by_cases hc : checkCell u = true <;> simp [hc]

/-- **defect (hybrid36.pyx, known finding).**  Outside the canonical strings of `C07_h36_encode_decode` the decoder does
not validate its characters: a letter of the wrong case is taken as a "digit" ≥ 36, so different strings decode to the
same number and re-encoding does not give the string back (`A0a` and `A16` both give 1042). -/
theorem C07_h36_decode_unvalidated_defect :
    decodeH36 "A0a".toList = .ok 1042 ∧ decodeH36 "A16".toList = .ok 1042 ∧ encodeH36 1042 3 = .ok "A16".toList ∧
    canonicalLetters asciiFirstUpper "A0a".toList = false := by decide

/-- the charge field is read totally: blank is 0, otherwise `int()` of the (possibly reversed) two characters or a
`ValueError` — the model never abstains here -/
theorem C07_charge_field_total (s : List Char) : ∃ r, parseCharge s = some r := by
  unfold parseCharge
  split
  · exact ⟨_, rfl⟩
  · simp only
    split <;> exact ⟨_, rfl⟩

example : writePdbN ⟨false, false, false, false, false, false⟩ none
    { atoms := [], models := [[(.nan, .fin ⟨false, 0, 0⟩, .fin ⟨false, 0, 0⟩)]], bonds := [] } = .error .badStructure := by decide

/-! ## every accepted record has its fields in the fixed columns -/

/-- **columns**: a record accepted by the check (`CompatStrong`, `CoordStrong`), with blank-free fields, is
exactly 80 characters long and every field sits, padded, in its standard columns
(0-based half-open `slice a b`; e.g. `slice 30 38` = PDB columns 31-38). -/
theorem C07_columns (fl : Flags) (i : Nat) (a : Atom) (c : Coord) (idTxt resTxt : List Char)
    (h : CompatStrong fl i a) (hc : CoordStrong c) (hcl : Clean a)
    (hid : idText fl.h36 5 pdbMaxAtoms (effId fl i a) = .ok idTxt)
    (hres : idText fl.h36 4 pdbMaxResidues a.resId = .ok resTxt) :
    let l := atomLine (firstHalf a idTxt resTxt) (secondHalf fl a) c
    l.length = 80 ∧
    slice 0 6 l = ljust 6 (recordName a) ∧ slice 6 11 l = rjust 5 idTxt ∧ slice 11 12 l = [' '] ∧
    slice 12 16 l = ljust 4 (alignedName a) ∧ slice 16 17 l = [' '] ∧ slice 17 20 l = rjust 3 a.resName ∧
    slice 20 21 l = [' '] ∧ slice 21 22 l = ljust 1 a.chain ∧ slice 22 26 l = rjust 4 resTxt ∧
    slice 26 27 l = rjust 1 a.insCode ∧ slice 27 30 l = [' ', ' ', ' '] ∧
    slice 30 38 l = rjust 8 (fmtFixed 3 c.1) ∧ slice 38 46 l = rjust 8 (fmtFixed 3 c.2.1) ∧
    slice 46 54 l = rjust 8 (fmtFixed 3 c.2.2) ∧ slice 54 60 l = occText fl a ∧ slice 60 66 l = bfText fl a ∧
    slice 66 76 l = List.replicate 10 ' ' ∧ slice 76 78 l = rjust 2 a.element ∧ slice 78 80 l = chargeField fl a := by
  have hidf := idText_length fl.h36 5 pdbMaxAtoms _ idTxt (by decide) (by decide)
    (fun hf => by have := h.atomIdLo hf; simpa using this) hid
  have hresf := idText_length fl.h36 4 pdbMaxResidues _ resTxt (by decide) (by decide)
    (fun hf => by have := h.resIdLo hf; simpa using this) hres
  have hcc := (checkCoord_iff c).2 hc
  simp only [checkCoord, Bool.and_eq_true, decide_eq_true_eq] at hcc
  have ho := occText_facts fl i a h
  have hb := bfText_facts fl i a h
  have hq := chargeField_facts fl i a h
  exact atomLine_layout a fl c idTxt resTxt hidf.1 hresf.1 h.name h.resName h.chain h.ins h.element
    hcc.1.1 hcc.1.2 hcc.2 ho.1 hb.1 hq.1
    (firstHalf_ws a idTxt resTxt hcl hidf.2.2 hresf.2.2)
    (secondHalf_ws fl a hcl ho.2 hb.2 hq.2)

/-- the record length does **not** need blank-free fields: with any characters (blanks, tabs) in the name fields an
accepted record is still exactly 80 characters (`rstrip` + re-padding can only replace trailing white space by blanks) -/
theorem C07_record_length (fl : Flags) (i : Nat) (a : Atom) (c : Coord) (idTxt resTxt : List Char)
    (h : CompatStrong fl i a) (hc : CoordStrong c)
    (hid : idText fl.h36 5 pdbMaxAtoms (effId fl i a) = .ok idTxt)
    (hres : idText fl.h36 4 pdbMaxResidues a.resId = .ok resTxt) :
    (atomLine (firstHalf a idTxt resTxt) (secondHalf fl a) c).length = 80 := by
  have hidf := idText_length fl.h36 5 pdbMaxAtoms _ idTxt (by decide) (by decide)
    (fun hf => by have := h.atomIdLo hf; simpa using this) hid
  have hresf := idText_length fl.h36 4 pdbMaxResidues _ resTxt (by decide) (by decide)
    (fun hf => by have := h.resIdLo hf; simpa using this) hres
  have hcc := (checkCoord_iff c).2 hc
  simp only [checkCoord, Bool.and_eq_true, decide_eq_true_eq] at hcc
  have ho := (occText_facts fl i a h).1
  have hb := (bfText_facts fl i a h).1
  have hq := (chargeField_facts fl i a h).1
  have hfh : (firstHalf a idTxt resTxt).length = 27 := by
    rw [firstHalf_eq]
    simp only [List.length_append, ljust_length 6 _ (recordName_length a), rjust_length 5 _ hidf.1,
      ljust_length 4 _ (alignedName_length a h.name), rjust_length 3 _ h.resName, ljust_length 1 _ h.chain,
      rjust_length 4 _ hresf.1, rjust_length 1 _ h.ins, List.length_singleton]
  have hsh : (secondHalf fl a).length = 26 := by
    rw [secondHalf_eq]
    simp only [List.length_append, ho, hb, hq, rjust_length 2 _ h.element, List.length_replicate]
  have hr : ∀ l : List Char, (rstrip l).length ≤ l.length := by
    intro l; unfold rstrip
    have hd : ∀ m : List Char, (m.dropWhile isWS).length ≤ m.length := by
      intro m
      induction m with
      | nil => simp
      | cons x xs ih =>
        by_cases hx : isWS x = true
        · rw [List.dropWhile_cons_of_pos hx]; simp only [List.length_cons]; omega
        · rw [List.dropWhile_cons_of_neg hx]; exact Nat.le_refl _
    have := hd l.reverse
    simpa using this
  have h1 := ljust_length 27 _ (by rw [← hfh]; exact hr _ : (rstrip (firstHalf a idTxt resTxt)).length ≤ 27)
  have h2 := ljust_length 26 _ (by rw [← hsh]; exact hr _ : (rstrip (secondHalf fl a)).length ≤ 26)
  unfold atomLine
  simp only [List.length_append, h1, h2, rjust_length 8 _ hcc.1.1, rjust_length 8 _ hcc.1.2, rjust_length 8 _ hcc.2]
  rfl

/-- inside the hybrid-36 / plain id ranges the writer does not fail on an accepted atom -/
theorem C07_ids_written (fl : Flags) (i : Nat) (a : Atom) (hr : IdsInRange fl i a) :
    (∃ t, idText fl.h36 5 pdbMaxAtoms (effId fl i a) = .ok t) ∧ (∃ t, idText fl.h36 4 pdbMaxResidues a.resId = .ok t) := by
  unfold IdsInRange at hr
  unfold idText
  cases hf : fl.h36
  · exact ⟨⟨_, rfl⟩, ⟨_, rfl⟩⟩
  · simp only [hf, if_true] at hr
    obtain ⟨n, hn⟩ := Int.eq_ofNat_of_zero_le hr.1
    obtain ⟨m, hm⟩ := Int.eq_ofNat_of_zero_le hr.2.2.1
    obtain ⟨s1, h1, _⟩ := decode_encode 5 n (by decide) (by rw [hn] at hr; exact_mod_cast hr.2.1)
    obtain ⟨s2, h2, _⟩ := decode_encode 4 m (by decide) (by rw [hm] at hr; exact_mod_cast hr.2.2.2)
    simp only [if_true]
    exact ⟨⟨s1, by rw [hn]; exact h1⟩, ⟨s2, by rw [hm]; exact h2⟩⟩

/-- Reading the standard columns of a written record gives back hetero flag, atom id, atom name, residue
name, chain, residue id, insertion code and element (the identifier/name part of `C07_atom_roundtrip`). -/
theorem C07_atom_fields_read (fl : Flags) (i : Nat) (a : Atom) (c : Coord) (idTxt resTxt : List Char)
    (h : CompatStrong fl i a) (hc : CoordStrong c) (hcl : Clean a) (hr : IdsInRange fl i a)
    (hid : idText fl.h36 5 pdbMaxAtoms (effId fl i a) = .ok idTxt)
    (hres : idText fl.h36 4 pdbMaxResidues a.resId = .ok resTxt) :
    let l := atomLine (firstHalf a idTxt resTxt) (secondHalf fl a) c
    (slice 0 6 l == "HETATM".toList) = a.hetero ∧ decodeH36 (slice 6 11 l) = .ok (effId fl i a) ∧
    strip (slice 12 16 l) = a.name ∧ slice 16 17 l = [' '] ∧ strip (slice 17 20 l) = a.resName ∧
    strip (slice 21 22 l) = a.chain ∧ decodeH36 (slice 22 26 l) = .ok a.resId ∧
    strip (slice 26 27 l) = a.insCode ∧ strip (slice 76 78 l) = a.element := by
  have hcol := C07_columns fl i a c idTxt resTxt h hc hcl hid hres
  intro l
  obtain ⟨_, s0, s1, _, s3, s4, s5, _, s7, s8, s9, _, _, _, _, _, _, _, s17, _⟩ := hcol
  obtain ⟨c1, c2, c3, c4, c5⟩ := hcl
  have hra : if fl.h36 then 0 ≤ effId fl i a ∧ effId fl i a ≤ (maxNumber 5 : Nat) else effId fl i a ≤ pdbMaxAtoms := by
    unfold IdsInRange at hr
    cases hf : fl.h36
    · simp only [hf, Bool.false_eq_true, if_false] at hr ⊢; simpa [pdbMaxAtoms] using hr.1
    · simp only [hf, if_true] at hr ⊢; exact ⟨hr.1, hr.2.1⟩
  have hrr : if fl.h36 then 0 ≤ a.resId ∧ a.resId ≤ (maxNumber 4 : Nat) else a.resId ≤ pdbMaxResidues := by
    unfold IdsInRange at hr
    cases hf : fl.h36
    · simp only [hf, Bool.false_eq_true, if_false] at hr ⊢; simpa [pdbMaxResidues] using hr.2
    · simp only [hf, if_true] at hr ⊢; exact ⟨hr.2.2.1, hr.2.2.2⟩
  refine ⟨?_, ?_, ?_, s4, ?_, ?_, ?_, ?_, ?_⟩
  · show (slice 0 6 l == _) = _
    rw [s0]; exact recordName_hetatm a
  · show decodeH36 (slice 6 11 l) = _
    rw [s1]
    have := idText_decode fl.h36 5 pdbMaxAtoms _ idTxt (5 - idTxt.length) 0 (by decide) hra hid
    simpa [rjust] using this
  · show strip (slice 12 16 l) = _
    rw [s3]; exact strip_alignedName a 4 c1
  · show strip (slice 17 20 l) = _
    rw [s5]; exact strip_rjust 3 _ c2
  · show strip (slice 21 22 l) = _
    rw [s7]; exact strip_ljust 1 _ c3
  · show decodeH36 (slice 22 26 l) = _
    rw [s8]
    have := idText_decode fl.h36 4 pdbMaxResidues _ resTxt (4 - resTxt.length) 0 (by decide) hrr hres
    simpa [rjust] using this
  · show strip (slice 26 27 l) = _
    rw [s9]; exact strip_rjust 1 _ c4
  · show strip (slice 76 78 l) = _
    rw [s17]; exact strip_rjust 2 _ c5

/-- **record round trip.**  For an atom accepted by the check (`CompatStrong`, `CoordStrong`) with blank-free
fields, a non-empty element and ids inside the un-wrapped range, the reader applied to the written record
returns every annotation unchanged — B-factor and occupancy as the value rounded to 10⁻² (units of 10⁻²),
the charge, and the coordinates rounded to 10⁻³ (units of 10⁻³); by `C07_round_error` these are within half
a unit of the last decimal of the value that was written. -/
theorem C07_atom_roundtrip (fl : Flags) (i : Nat) (a : Atom) (c : Coord) (idTxt resTxt : List Char)
    (h : CompatStrong fl i a) (hc : CoordStrong c) (hcl : Clean a) (hr : IdsInRange fl i a) (hel : a.element ≠ [])
    (hid : idText fl.h36 5 pdbMaxAtoms (effId fl i a) = .ok idTxt)
    (hres : idText fl.h36 4 pdbMaxResidues a.resId = .ok resTxt) :
    let l := atomLine (firstHalf a idTxt resTxt) (secondHalf fl a) c
    parseAtomLine l = some (.ok (expectedRead fl i a)) ∧
    parseCoordLine l = some (.ok (c.1.units 3, c.2.1.units 3, c.2.2.units 3)) := by
  have hcol := C07_columns fl i a c idTxt resTxt h hc hcl hid hres
  have hf := C07_atom_fields_read fl i a c idTxt resTxt h hc hcl hr hid hres
  intro l
  obtain ⟨_, _, _, _, _, _, _, _, _, _, _, _, sx, sy, sz, socc, sbf, _, _, sq⟩ := hcol
  obtain ⟨f0, f1, f2, f3, f4, f5, f6, f7, f8⟩ := hf
  have hocc : (parseFixed (slice 54 60 l)).units 2 = some (.ok (if fl.hasOcc then a.occ.units 2 else 100)) := by
    show (parseFixed (slice 54 60 l)).units 2 = _
    rw [socc]; unfold occText
    cases fl.hasOcc
    · exact parse_default_occ
    · exact units_parse_fmtFixed 2 6 (by decide) a.occ
  have hbf : (parseFixed (slice 60 66 l)).units 2 = some (.ok (if fl.hasB then a.bf.units 2 else 0)) := by
    show (parseFixed (slice 60 66 l)).units 2 = _
    rw [sbf]; unfold bfText
    cases fl.hasB
    · exact parse_default_bf
    · exact units_parse_fmtFixed 2 6 (by decide) a.bf
  have hq : parseCharge (slice 78 80 l) = some (.ok (if fl.hasQ then a.charge else 0)) := by
    show parseCharge (slice 78 80 l) = _
    rw [sq]; exact parseCharge_chargeField fl a h.charge
  have hele : (strip (slice 76 78 l)).isEmpty = false := by
    show (strip (slice 76 78 l)).isEmpty = false
    rw [f8]; cases he : a.element with
    | nil => exact absurd he hel
    | cons _ _ => rfl
  have hx : (parseFixed (slice 30 38 l)).units 3 = some (.ok (c.1.units 3)) := by
    show (parseFixed (slice 30 38 l)).units 3 = _
    rw [sx]; exact units_parse_fmtFixed 3 8 (by decide) c.1
  have hy : (parseFixed (slice 38 46 l)).units 3 = some (.ok (c.2.1.units 3)) := by
    show (parseFixed (slice 38 46 l)).units 3 = _
    rw [sy]; exact units_parse_fmtFixed 3 8 (by decide) c.2.1
  have hz : (parseFixed (slice 46 54 l)).units 3 = some (.ok (c.2.2.units 3)) := by
    show (parseFixed (slice 46 54 l)).units 3 = _
    rw [sz]; exact units_parse_fmtFixed 3 8 (by decide) c.2.2
  exact ⟨parseAtomLine_of_slices l (expectedRead fl i a) f6 f3 hele hq hocc hbf f1 f0 f5 f7 f4 f2 f8,
         parseCoordLine_of_slices l _ _ _ hx hy hz⟩

/-- non-vacuity: a concrete HETATM record on the column limits -/
example :
    let a : Atom := { hetero := true, atomId := -9999, name := "CA".toList, resName := "LIG".toList, chain := [],
                      resId := -999, insCode := "A".toList, element := "C".toList, occ := ⟨false, 1, 0⟩,
                      bf := ⟨false, 999990, 3⟩ /- 124998.75 > limit is *not* used: hasB = false -/, charge := -9 }
    let fl : Flags := { h36 := false, hasId := true, hasB := false, hasOcc := true, hasQ := true, hasBonds := false }
    let c : Coord := (⟨true, 16383990, 14⟩, ⟨false, 81919992, 13⟩, ⟨true, 0, 0⟩)
    checkAtom fl 0 a = true ∧ checkCoord c = true ∧
    atomLine (firstHalf a "-9999".toList "-999".toList) (secondHalf fl a) c =
      "HETATM-9999  CA  LIG  -999A   -999.9999999.999  -0.000  1.00  0.00           C9-".toList := by decide

/-! ## MODEL / ENDMDL indexing -/

/-- **models.**  In a successfully written stack (≥ 2 models) `get_structure(model=k)` selects exactly the atom
records of model `k` (1-based), `model=-k` those of the k-th model from the end, and every other index
(0, beyond the last model, below `-n_models`) is refused with `ValueError`.  The selected records are the
`atomLine`s of that model's coordinates with the per-atom halves `C07_atom_roundtrip` speaks about. -/
theorem C07_models (fl : Flags) (s : Struct) (lines : List (List Char)) (h : writePdb fl s = .ok lines)
    (hM : 2 ≤ s.models.length) :
    ∃ halves : List (List Char × List Char),
      (∀ hv ∈ halves, ∃ a idTxt resTxt, hv = (firstHalf a idTxt resTxt, secondHalf fl a)) ∧
      (∀ k, (hk : k < s.models.length) → selectModel lines ((k : Int) + 1) = .ok (recordsOf halves s.models[k])) ∧
      (∀ k, (hk : k < s.models.length) →
        selectModel lines (-((k : Int) + 1)) = .ok (recordsOf halves (s.models[s.models.length - 1 - k]'(by omega)))) ∧
      (∀ m : Int, m = 0 ∨ (s.models.length : Int) < m ∨ m < -(s.models.length : Int) →
        selectModel lines m = .error .valueError) := by
  obtain ⟨ids, ress, con, _, _, hcon, hl⟩ := writePdb_shape fl s lines h
  have hst : decide (1 < s.models.length) = true := by simp; omega
  rw [hst] at hl
  let halves := (s.atoms.zip (ids.zip ress)).map fun q => (firstHalf q.1 q.2.1 q.2.2, secondHalf fl q.1)
  have hhalves : ∀ hv ∈ halves, ∃ a idTxt resTxt, hv = (firstHalf a idTxt resTxt, secondHalf fl a) := by
    intro hv hm
    obtain ⟨q, _, rfl⟩ := List.mem_map.1 hm
    exact ⟨q.1, q.2.1, q.2.2, rfl⟩
  let bs : List (Line × List Line) :=
    (enum s.models).map fun p => ("MODEL     ".toList ++ rjust 4 (natDec (p.1 + 1)), recordsOf halves p.2)
  have hfile : lines = fileOf bs con := by
    rw [hl]
    simp only [fileOf, bs, List.map_map]
    congr 2
  have hlen : bs.length = s.models.length := by simp [bs, enum_length]
  have hbk : ∀ k, (hk : k < s.models.length) → (bs[k]'(by omega)).2 = recordsOf halves s.models[k] := by
    intro k hk
    simp [bs, enum_getElem]
  have g : GoodFile bs con := by
    refine ⟨?_, ?_, hcon⟩
    · intro b hb
      obtain ⟨p, _, rfl⟩ := List.mem_map.1 hb
      exact modelRecord_kind _
    · intro b hb x hx
      obtain ⟨p, _, rfl⟩ := List.mem_map.1 hb
      obtain ⟨q, hq, rfl⟩ := List.mem_map.1 hx
      obtain ⟨a, idTxt, resTxt, hv⟩ := hhalves q.1 (List.of_mem_zip hq).1
      have : q.1.1 = firstHalf a idTxt resTxt := by rw [hv]
      rw [this]
      exact atomLine_kind a idTxt resTxt _ _
  have hne : bs ≠ [] := by
    intro h0; rw [h0] at hlen; simp at hlen; omega
  obtain ⟨h1, h2, h3⟩ := selectModel_fileOf bs con g hne
  refine ⟨halves, hhalves, ?_, ?_, ?_⟩
  · intro k hk
    rw [hfile, h1 k (by omega), hbk k hk]
  · intro k hk
    rw [hfile, h2 k (by omega)]
    have := hbk (s.models.length - 1 - k) (by omega)
    simp only [hlen]
    rw [this]
  · intro m hm
    rw [hfile]
    exact h3 m (by rw [hlen]; exact hm)

/-- a single model is written without `MODEL` records; it is model 1 and model -1, nothing else -/
theorem C07_models_single (fl : Flags) (s : Struct) (coords : List Coord) (lines : List (List Char))
    (h : writePdb fl s = .ok lines) (hM : s.models = [coords]) (hne : s.atoms ≠ []) (hc : coords ≠ []) :
    ∃ halves : List (List Char × List Char),
      (∀ hv ∈ halves, ∃ a idTxt resTxt, hv = (firstHalf a idTxt resTxt, secondHalf fl a)) ∧ halves.length = s.atoms.length ∧
      selectModel lines 1 = .ok (recordsOf halves coords) ∧ selectModel lines (-1) = .ok (recordsOf halves coords) ∧
      (∀ m : Int, m = 0 ∨ 1 < m ∨ m < -1 → selectModel lines m = .error .valueError) := by
  obtain ⟨ids, ress, con, hi, hr, hcon, hl⟩ := writePdb_shape fl s lines h
  have hst : decide (1 < s.models.length) = false := by simp [hM]
  rw [hst, hM] at hl
  let halves := (s.atoms.zip (ids.zip ress)).map fun q => (firstHalf q.1 q.2.1 q.2.2, secondHalf fl q.1)
  have hhalves : ∀ hv ∈ halves, ∃ a idTxt resTxt, hv = (firstHalf a idTxt resTxt, secondHalf fl a) := by
    intro hv hm
    obtain ⟨q, _, rfl⟩ := List.mem_map.1 hm
    exact ⟨q.1, q.2.1, q.2.2, rfl⟩
  have hlen : halves.length = s.atoms.length := by
    have h1 := mapME_length _ _ _ hi
    have h2 := mapME_length _ _ _ hr
    simp only [enum_length] at h1
    simp [halves, h1, h2]
  have hfile : lines = recordsOf halves coords ++ con := by
    rw [hl]
    simp [enum, modelLines_single, halves]
  have hrne : recordsOf halves coords ≠ [] := by
    obtain ⟨a, as, ha⟩ := List.exists_cons_of_ne_nil hne
    obtain ⟨c, cs, hcc⟩ := List.exists_cons_of_ne_nil hc
    have : halves ≠ [] := by
      intro h0; rw [h0, ha] at hlen; simp at hlen
    obtain ⟨hv, hvs, hh⟩ := List.exists_cons_of_ne_nil this
    simp [recordsOf, hh, hcc]
  have hat : ∀ x ∈ recordsOf halves coords, isAtomLine x = true ∧ isModelLine x = false := by
    intro x hx
    obtain ⟨q, hq, rfl⟩ := List.mem_map.1 hx
    obtain ⟨a, idTxt, resTxt, hv⟩ := hhalves q.1 (List.of_mem_zip hq).1
    have : q.1.1 = firstHalf a idTxt resTxt := by rw [hv]
    rw [this]
    exact atomLine_kind a idTxt resTxt _ _
  obtain ⟨h1, h2, h3⟩ := selectModel_single (recordsOf halves coords) con hrne hat hcon
  rw [hfile]
  exact ⟨halves, hhalves, hlen, h1, h2, h3⟩

/-! ## CONECT records -/

/-- bonds handed to the CONECT writer = bonds with a non-water hetero atom or between different
residues / chains; each atom's partners are the symmetric closure of those rows; they are cut into
records of 1–4 partners without loss or reordering -/
theorem C07_conect (atoms : List Atom) (bonds : List (Nat × Nat)) (cidx p : Nat) :
    (p ∈ partners (bonds.filter (carriable atoms)) cidx ↔
      (((cidx, p) ∈ bonds ∧ carriable atoms (cidx, p) = true) ∨ ((p, cidx) ∈ bonds ∧ carriable atoms (p, cidx) = true))) ∧
    (chunk4 (partners (bonds.filter (carriable atoms)) cidx)).flatten = partners (bonds.filter (carriable atoms)) cidx ∧
    ∀ ch ∈ chunk4 (partners (bonds.filter (carriable atoms)) cidx), 1 ≤ ch.length ∧ ch.length ≤ 4 := by
  refine ⟨?_, chunk4_flatten _, chunk4_sizes _⟩
  rw [mem_partners]
  simp [List.mem_filter]

example : chunk4 [1, 2, 3, 4, 5, 6] = [[1, 2, 3, 4], [5, 6]] := by decide

/-- **CONECT round trip.**  For strictly increasing positive atom ids inside the un-wrapped plain / hybrid-36
range (`idt` = the id texts the writer produced), `_get_bonds` applied to a file that contains the CONECT
records written for the carriable bonds (plus any non-CONECT records, lines padded to 80 as `PDBFile.read`
does) returns exactly the set of carriable bonds, as sorted index pairs, through the atom-id map. -/
theorem C07_conect_roundtrip (h36 : Bool) (atoms : List Atom) (idv : List Int) (idt : List (List Char))
    (bonds : List (Nat × Nat)) (other : List (List Char))
    (hal : atoms.length = idv.length) (hlen : idt.length = idv.length) (hne : idv ≠ [])
    (hinc : idv.Pairwise (· < ·)) (hpos : ∀ v ∈ idv, 0 < v)
    (htxt : ∀ k, (hk : k < idv.length) → idText h36 5 pdbMaxAtoms idv[k] = .ok (idt[k]'(by omega)))
    (hrange : ∀ v ∈ idv, if h36 then v ≤ (maxNumber 5 : Nat) else v ≤ pdbMaxAtoms)
    (hother : ∀ l ∈ other, startsWith "CONECT".toList l = false) :
    ∃ bs, readBonds idv (other ++ (conectLines idt (bonds.filter (carriable atoms))).map (ljust 80)) = some (.ok bs) ∧
      ∀ q, q ∈ bs ↔ ∃ b ∈ bonds, carriable atoms b = true ∧ q = normPair b := by
  have hb : ∀ b ∈ bonds.filter (carriable atoms), b.1 < idv.length ∧ b.2 < idv.length := by
    intro b hbm
    have hc := (List.mem_filter.1 hbm).2
    unfold carriable at hc
    rw [← hal]
    cases h1 : atoms[b.1]? with
    | none => simp [h1] at hc
    | some a =>
      cases h2 : atoms[b.2]? with
      | none => simp [h1, h2] at hc
      | some c =>
        exact ⟨(List.getElem?_eq_some_iff.1 h1).1, (List.getElem?_eq_some_iff.1 h2).1⟩
  obtain ⟨bs, h1, h2⟩ := conect_roundtrip h36 idv idt (bonds.filter (carriable atoms)) other hlen hne hinc hpos htxt
    hrange hb hother
  refine ⟨bs, h1, fun q => ?_⟩
  rw [h2]
  simp only [List.mem_filter]
  constructor
  · rintro ⟨b, ⟨hm, hc⟩, rfl⟩; exact ⟨b, hm, hc, rfl⟩
  · rintro ⟨b, hm, hc, rfl⟩; exact ⟨b, ⟨hm, hc⟩, rfl⟩

/-- non-vacuity: two hybrid-36 ids (99999 → "99999", 100000 → "A0000"), one hetero bond -/
example :
    let a : Atom := { hetero := true, atomId := 0, name := "C".toList, resName := "LIG".toList, chain := "A".toList,
                      resId := 1, insCode := [], element := "C".toList, occ := ⟨false, 1, 0⟩, bf := ⟨false, 0, 0⟩, charge := 0 }
    readBonds [99999, 100000] ((conectLines ["99999".toList, "A0000".toList]
        ([(0, 1)].filter (carriable [a, a]))).map (ljust 80)) = some (.ok [(0, 1)]) := by decide


/-! ## alternate locations -/

/-- **altloc = 'first'.**  The rows are partitioned into residues (`runs`, nothing lost or reordered); inside a
residue exactly the rows without altloc id and the rows carrying the *first* altloc id that occurs are kept. -/
theorem C07_altloc_first (rows : List AltRow) :
    (runs rows).flatten = rows ∧ (∀ run ∈ runs rows, run ≠ []) ∧
    ∀ run, applyMask (firstMaskRun run) run =
      run.filter (fun r => noAlt r.alt || (letterIds run).head? == some r.alt) := by
  refine ⟨runs_flatten rows, runs_ne_nil rows, fun run => ?_⟩
  rw [firstMaskRun_spec]; exact applyMask_map _ run

/-- **altloc = 'occupancy'.**  Inside a residue exactly the rows without altloc id and the rows carrying the chosen
id are kept; the chosen id occurs in the residue and has the maximal summed occupancy among all ids
(nothing is chosen only if no sum exceeds -1.0). -/
theorem C07_altloc_occupancy (run : List AltRow) :
    let best := bestId run (sortedIds (letterIds run))
    applyMask (occMaskRun run) run = run.filter (fun r => noAlt r.alt || (letterIds run != [] && best.2 == some r.alt)) ∧
    (∀ id, best.2 = some id → id ∈ letterIds run ∧ best.1 = occSum run id) ∧
    (∀ id ∈ letterIds run, occSum run id ≤ best.1) ∧ (best.2 = none → ∀ id ∈ letterIds run, occSum run id ≤ -100) := by
  intro best
  obtain ⟨h1, _, h3, h4⟩ := bestId_spec run (sortedIds (letterIds run))
  refine ⟨?_, ?_, ?_, ?_⟩
  · rw [occMaskRun_spec]; exact applyMask_map _ run
  · intro id hid
    obtain ⟨hm, he⟩ := h3 id hid
    exact ⟨(mem_sortedIds _ id).1 hm, he⟩
  · intro id hid
    exact h1 id ((mem_sortedIds _ id).2 hid)
  · intro hn id hid
    have := h1 id ((mem_sortedIds _ id).2 hid)
    rw [h4 hn] at this
    exact this

/-- two alternates A (0.40 + 0.40) and B (0.70 + 0.20): 'first' keeps A, 'occupancy' keeps B; the blank row stays -/
example :
    let k : List Char × Int × List Char × List Char := ("A".toList, 5, [], "ALA".toList)
    let rows : List AltRow := [⟨k, ' ', 100⟩, ⟨k, 'A', 40⟩, ⟨k, 'B', 70⟩, ⟨k, 'A', 40⟩, ⟨k, 'B', 20⟩]
    altMask .first rows = [true, true, false, true, false] ∧ altMask .occupancy rows = [true, false, true, false, true] := by
  decide

/-! ## CRYST1 -/

/-- **CRYST1 round trip.**  The box check accepts exactly the cells whose six values fit their columns after
rounding (lengths ≤ 99999.999, 9 columns; angles 7 columns); a written CRYST1 record is 80 characters, has
a, b, c, alpha, beta, gamma in the standard columns 7-15, 16-24, 25-33, 34-40, 41-47, 48-54, and the reader
(applied to the record or to any file that starts with it) returns the six values rounded to 10⁻³ Å / 10⁻²
degrees, i.e. within half a unit of the last decimal (`C07_round_error`).  A cell that does not fit is
refused before anything is written. -/
theorem C07_cryst1_roundtrip (u : Cell) :
    (checkCell u = true ↔ CellStrong u) ∧
    (checkCell u = true →
      (cryst1Line u).length = 80 ∧ slice 6 15 (cryst1Line u) = rjust 9 (fmtFixed 3 u.a) ∧
      slice 15 24 (cryst1Line u) = rjust 9 (fmtFixed 3 u.b) ∧ slice 24 33 (cryst1Line u) = rjust 9 (fmtFixed 3 u.c) ∧
      slice 33 40 (cryst1Line u) = rjust 7 (fmtFixed 2 u.alpha) ∧ slice 40 47 (cryst1Line u) = rjust 7 (fmtFixed 2 u.beta) ∧
      slice 47 54 (cryst1Line u) = rjust 7 (fmtFixed 2 u.gamma) ∧ slice 54 80 (cryst1Line u) = cryst1Tail ∧
      parseCryst1 (cryst1Line u) = some (some (expectedCell u)) ∧
      ∀ rest, readCell (cryst1Line u :: rest) = some (some (expectedCell u))) ∧
    (checkCell u = false → ∀ fl s, writePdbBox fl (some u) s = .error .badStructure) := by
  refine ⟨checkCell_iff u, fun h => ?_, fun h fl s => by simp [writePdbBox, h]⟩
  obtain ⟨a, b, c, d, e, f, g, t⟩ := cryst1_layout u h
  exact ⟨a, b, c, d, e, f, g, t, parseCryst1_line u h, readCell_written u h⟩

/-- a = 12345.625 (all nine columns), b = float32(99999.99) = 99999.9921875, c = 2⁻¹⁰, β = 2⁻⁷ -/
example : cryst1Line { a := ⟨false, 98765, 3⟩, b := ⟨false, 12799999, 7⟩, c := ⟨false, 1, 10⟩,
                       alpha := ⟨false, 90, 0⟩, beta := ⟨false, 1, 7⟩, gamma := ⟨false, 3071, 8⟩ } =
    "CRYST112345.62599999.992    0.001  90.00   0.01  12.00 P 1           1          ".toList := by decide
/-- 99999.9996 (float32 100000.0) is refused -/
example : checkCell { a := ⟨false, 100000, 0⟩, b := ⟨false, 1, 0⟩, c := ⟨false, 1, 0⟩,
                      alpha := ⟨false, 90, 0⟩, beta := ⟨false, 90, 0⟩, gamma := ⟨false, 90, 0⟩ } = false := by decide

/-! ## assembly of the per-model blocks and the whole file -/

theorem cryst1_neutral (u : Cell) : Neutral [cryst1Line u] := by
  intro x hx
  simp only [List.mem_singleton] at hx
  subst hx
  simp [isAtomLine, isModelLine, startsWith, cryst1Line, litCRYST1, litATOM, litHETATM, litMODEL,
    prefix_ne _ _ 'A' 'C' (by decide), prefix_ne _ _ 'H' 'C' (by decide), prefix_ne _ _ 'M' 'C' (by decide)]

/-- **stack assembly.**  In a written stack (lines padded to 80 as `PDBFile.read` does, optionally after a neutral
prefix such as CRYST1) the reader's split into models returns, for every model `m` in order, exactly the records
written for it — record `j` of model `m` is `atomLine halves[j] models[m][j]`, so the reader's reshape puts it
at `[m, j]` — and if every model has one coordinate triple per atom all blocks have the same length
(`_get_model_length` accepts). -/
theorem C07_stack_assembly (fl : Flags) (s : Struct) (pre lines : List (List Char)) (h : writePdb fl s = .ok lines)
    (hpre : Neutral pre) (hM : 2 ≤ s.models.length) :
    ∃ ids ress : List (List Char),
      ids.length = s.atoms.length ∧ ress.length = s.atoms.length ∧
      splitModels ((pre ++ lines).map (ljust 80)) =
        s.models.map (fun m => (recordsOf (halvesOf fl s.atoms ids ress) m).map (ljust 80)) ∧
      ((∀ m ∈ s.models, m.length = s.atoms.length) →
        ∀ blk ∈ splitModels ((pre ++ lines).map (ljust 80)), blk.length = s.atoms.length) := by
  obtain ⟨ids, ress, hi, hr, hsp⟩ := splitModels_written fl s pre lines h hpre hM
  have h1 : ids.length = s.atoms.length := by have := mapME_length _ _ _ hi; simpa [enum_length] using this
  have h2 : ress.length = s.atoms.length := mapME_length _ _ _ hr
  refine ⟨ids, ress, h1, h2, hsp, ?_⟩
  intro hN blk hb
  rw [hsp] at hb
  obtain ⟨m, hm, rfl⟩ := List.mem_map.1 hb
  simp [recordsOf_length _ m (by rw [halvesOf_length fl s.atoms ids ress h1 h2]; exact hN m hm),
    halvesOf_length fl s.atoms ids ress h1 h2]

/-- models of unequal length are refused (`_get_model_length` raises `InvalidFileError`) -/
theorem C07_unequal_models_rejected (b : Bool) (lines : List (List Char)) (m1 : List (List Char)) (ms : List (List (List Char)))
    (hs : splitModels (lines.map (ljust 80)) = m1 :: ms)
    (hsum : ((m1 :: ms).map List.length).sum = ((lines.map (ljust 80)).filter isAtomLine).length)
    (hne : ∃ m ∈ ms, m.length ≠ m1.length) : readPdb b lines = some (.error .invalidFile) := by
  obtain ⟨m, hm, hl⟩ := hne
  have hany : (m1 :: ms).any (fun m => m.length != m1.length) = true := by
    rw [List.any_eq_true]
    exact ⟨m, List.mem_cons_of_mem _ hm, by simpa using hl⟩
  unfold readPdb
  simp only [hs, hsum, bne_self_eq_false, Bool.false_eq_true, if_false, hany, if_true]

/-- **whole file (record level).**  For a stack with a box whose atoms and coordinates are accepted by the check, with
blank-free fields, non-empty elements and ids in range: the written file starts with the CRYST1 record, which
the reader returns to CRYST1 precision; the reader's model split returns the per-model records (each exactly 80
characters, so padding changes nothing); and every record `[m, j]` is read back as atom `j` with the
coordinates of model `m` rounded to 10⁻³.  (CONECT: `C07_conect_roundtrip` applies to the same file — its `other`
records are arbitrary non-CONECT lines.) -/
theorem C07_file_roundtrip (fl : Flags) (u : Cell) (s : Struct) (lines : List (List Char))
    (h : writePdbBox fl (some u) s = .ok lines) (hM : 2 ≤ s.models.length)
    (hN : ∀ m ∈ s.models, m.length = s.atoms.length)
    (hA : ∀ j, (hj : j < s.atoms.length) → CompatStrong fl j s.atoms[j] ∧ Clean s.atoms[j] ∧ IdsInRange fl j s.atoms[j] ∧
      s.atoms[j].element ≠ [])
    (hC : ∀ m ∈ s.models, ∀ c ∈ m, CoordStrong c) :
    readCell lines = some (some (expectedCell u)) ∧
    ∃ ids ress : List (List Char),
      ids.length = s.atoms.length ∧ ress.length = s.atoms.length ∧
      splitModels (lines.map (ljust 80)) = s.models.map (recordsOf (halvesOf fl s.atoms ids ress)) ∧
      ∀ m, (hm : m < s.models.length) → ∀ j, (hj : j < s.atoms.length) →
        ∃ hr : j < (recordsOf (halvesOf fl s.atoms ids ress) s.models[m]).length,
          ((recordsOf (halvesOf fl s.atoms ids ress) s.models[m])[j]).length = 80 ∧
          parseAtomLine ((recordsOf (halvesOf fl s.atoms ids ress) s.models[m])[j]) = some (.ok (expectedRead fl j s.atoms[j])) ∧
          parseCoordLine ((recordsOf (halvesOf fl s.atoms ids ress) s.models[m])[j]) =
            some (.ok (((s.models[m])[j]'(by rw [hN _ (List.getElem_mem hm)]; exact hj)).1.units 3,
                       ((s.models[m])[j]'(by rw [hN _ (List.getElem_mem hm)]; exact hj)).2.1.units 3,
                       ((s.models[m])[j]'(by rw [hN _ (List.getElem_mem hm)]; exact hj)).2.2.units 3)) := by
  -- unpack the writer
  unfold writePdbBox at h
  simp only at h
  split at h
  · rename_i hcell
    cases hw : writePdb fl s with
    | error e => rw [hw] at h; cases h
    | ok body =>
      rw [hw] at h
      simp only [Except.ok.injEq] at h
      subst h
      refine ⟨readCell_written u hcell body, ?_⟩
      obtain ⟨ids, ress, hi, hr, hsp⟩ := splitModels_written fl s [cryst1Line u] body hw (cryst1_neutral u) hM
      have h1 : ids.length = s.atoms.length := by have := mapME_length _ _ _ hi; simpa [enum_length] using this
      have h2 : ress.length = s.atoms.length := mapME_length _ _ _ hr
      have hhl := halvesOf_length fl s.atoms ids ress h1 h2
      -- every record: 80 characters, parses back
      have hrec : ∀ m, (hm : m < s.models.length) → ∀ j, (hj : j < s.atoms.length) →
          ∃ hr : j < (recordsOf (halvesOf fl s.atoms ids ress) s.models[m]).length,
            ((recordsOf (halvesOf fl s.atoms ids ress) s.models[m])[j]).length = 80 ∧
            parseAtomLine ((recordsOf (halvesOf fl s.atoms ids ress) s.models[m])[j]) = some (.ok (expectedRead fl j s.atoms[j])) ∧
            parseCoordLine ((recordsOf (halvesOf fl s.atoms ids ress) s.models[m])[j]) =
              some (.ok (((s.models[m])[j]'(by rw [hN _ (List.getElem_mem hm)]; exact hj)).1.units 3,
                         ((s.models[m])[j]'(by rw [hN _ (List.getElem_mem hm)]; exact hj)).2.1.units 3,
                         ((s.models[m])[j]'(by rw [hN _ (List.getElem_mem hm)]; exact hj)).2.2.units 3)) := by
        intro m hm j hj
        have hcl : j < (s.models[m]).length := by rw [hN _ (List.getElem_mem hm)]; exact hj
        obtain ⟨hx, hxe⟩ := recordsOf_getElem (halvesOf fl s.atoms ids ress) s.models[m] j (by rw [hhl]; exact hj) hcl
        obtain ⟨_, hhe⟩ := halvesOf_getElem fl s.atoms ids ress h1 h2 j hj
        have hidj := mapME_getElem _ _ _ hi j (by simpa [enum_length] using hj) (by omega)
        rw [enum_getElem] at hidj
        have hresj := mapME_getElem _ _ _ hr j hj (by omega)
        obtain ⟨hcs, hcln, hrg, hel⟩ := hA j hj
        have hcs3 := hC _ (List.getElem_mem hm) _ (List.getElem_mem hcl)
        have hcol := C07_columns fl j s.atoms[j] (s.models[m])[j] _ _ hcs hcs3 hcln hidj hresj
        have hrt := C07_atom_roundtrip fl j s.atoms[j] (s.models[m])[j] _ _ hcs hcs3 hcln hrg hel hidj hresj
        refine ⟨hx, ?_⟩
        rw [hxe, hhe]
        exact ⟨hcol.1, hrt.1, hrt.2⟩
      refine ⟨ids, ress, h1, h2, ?_, hrec⟩
      have hcons : (cryst1Line u :: body) = [cryst1Line u] ++ body := rfl
      rw [hcons, hsp]
      apply List.map_congr_left
      intro m hmm
      obtain ⟨mi, hmi, rfl⟩ := List.mem_iff_getElem.1 hmm
      apply List.ext_getElem
      · simp
      · intro j hj1 hj2
        simp only [List.getElem_map]
        have hjl : j < s.atoms.length := by
          rw [recordsOf_length _ _ (by rw [hhl]; exact hN _ (List.getElem_mem hmi)), hhl] at hj2; exact hj2
        obtain ⟨_, hlen, _, _⟩ := hrec mi hmi j hjl
        simp [ljust, hlen]
  · cases h

/-! ## obligations on the tables regenerated from `file.py` / `hybrid36.pyx` (`Gen/C07.lean`) -/
section Gen
open BiotiteModel.Gen.C07

/-- running offsets of a layout `(name, justification, width)`; unpadded numeric fields take `w0` columns -/
def offsets (start w0 : Nat) : List (String × String × Nat) → List (String × Nat × Nat)
  | [] => []
  | (n, j, w) :: r =>
    let w' := if j = "none" then w0 else w
    (n, start, start + w') :: offsets (start + w') w0 r

def colOf (k : String) (l : List (String × Nat × Nat)) : Option (Nat × Nat) := l.lookup k

/-- writer field offsets = reader slices (first half of the record); total 27 -/
theorem C07_gen_first_half :
    let o := offsets 0 0 Gen.C07.firstHalf
    colOf "record" o = colOf "_record" slices ∧ colOf "pdb_atom_id" o = colOf "_atom_id" slices ∧
    colOf "names" o = colOf "_atom_name" slices ∧ colOf "res_names" o = colOf "_res_name" slices ∧
    colOf "chain_ids" o = colOf "_chain_id" slices ∧ colOf "pdb_res_id" o = colOf "_res_id" slices ∧
    colOf "ins_codes" o = colOf "_ins_code" slices ∧ colOf "_alt_loc" slices = some (16, 17) ∧
    (o.map (·.2.2)).getLast? = some 27 ∧ Gen.C07.firstHalf.all (fun f => f.2.1 != "none") = true := by decide

/-- … coordinates and the total record length 80 -/
theorem C07_gen_line :
    let o := offsets 0 0 Gen.C07.atomLine
    colOf "start" o = some (0, 27) ∧ colOf "x" o = colOf "_coord_x" slices ∧ colOf "y" o = colOf "_coord_y" slices ∧
    colOf "z" o = colOf "_coord_z" slices ∧ colOf "end" o = some (54, 80) ∧
    coordFmt = (">", 8, 3) ∧ Gen.C07.atomLine.all (fun f => f.2.1 != "none") = true := by decide

/-- … second half (starts at column 54): occupancy / B-factor are written with their own 6-column format -/
theorem C07_gen_second_half :
    let o := offsets 54 6 Gen.C07.secondHalf
    colOf "occupancy" o = colOf "_occupancy" slices ∧ colOf "b_factor" o = colOf "_temp_f" slices ∧
    colOf "elements" o = colOf "_element" slices ∧ colOf "charge" o = colOf "_charge" slices ∧
    (o.map (·.2.2)).getLast? = some 80 ∧ bFactorFmt = (">", 6, 2) ∧ occupancyFmt = (">", 6, 2) := by decide

/-- the compatibility check tests every field against the width of its column, numbers with the very format
they are written with; the constants of the Lean model are the constants of the code -/
theorem C07_gen_check :
    checkLengths = [("chain_id", 1), ("res_name", 3), ("atom_name", 4), ("ins_code", 1), ("element", 2)] ∧
    checkNumbers = [("coord", coordFmt, 8), ("b_factor", bFactorFmt, 6), ("occupancy", occupancyFmt, 6)] ∧
    Gen.C07.minAtomId = -(10 ^ (5 - 1) - 1) ∧ Gen.C07.minResId = -(10 ^ (4 - 1) - 1) ∧
    Gen.C07.minAtomId = C07.minAtomId ∧ Gen.C07.minResId = C07.minResId ∧
    Gen.C07.pdbMaxAtoms = 10 ^ 5 - 1 ∧ Gen.C07.pdbMaxResidues = 10 ^ 4 - 1 ∧
    Gen.C07.pdbMaxAtoms = C07.pdbMaxAtoms ∧ Gen.C07.pdbMaxResidues = C07.pdbMaxResidues ∧
    h36AtomWidth = 5 ∧ h36ResWidth = 4 ∧ modelLine = [("lit", "lit", 10), ("model_num", "rjust", 4)] := by decide

/-- CRYST1: the reader slices are exactly the writer's fields (9.3 / 7.2 at the standard columns 7-15, 16-24,
25-33, 34-40, 41-47, 48-54, 0-based half-open here), the record is 80 characters, the trailing literal carries
space group `P 1` and Z = 1 where `get_space_group` reads them, and the box check uses the writer's formats -/
theorem C07_gen_cryst1 :
    let o := offsets 0 0 Gen.C07.cryst1Line
    colOf "a" o = colOf "_a" cryst1Slices ∧ colOf "b" o = colOf "_b" cryst1Slices ∧ colOf "c" o = colOf "_c" cryst1Slices ∧
    colOf "alpha" o = colOf "_alpha" cryst1Slices ∧ colOf "beta" o = colOf "_beta" cryst1Slices ∧
    colOf "gamma" o = colOf "_gamma" cryst1Slices ∧
    cryst1Slices = [("_a", 6, 15), ("_b", 15, 24), ("_c", 24, 33), ("_alpha", 33, 40), ("_beta", 40, 47), ("_gamma", 47, 54),
                    ("_space", 55, 66), ("_z", 66, 70)] ∧
    (o.map (·.2.2)).getLast? = some 80 ∧ cryst1Decimals = [3, 3, 3, 2, 2, 2] ∧
    Gen.C07.cryst1Line.all (fun f => f.2.1 != "none" && f.2.1 != "ljust") = true ∧
    Gen.C07.cryst1Tail.toList = C07.cryst1Tail ∧
    slice (55 - 54) (66 - 54) Gen.C07.cryst1Tail.toList = "P 1        ".toList ∧
    slice (66 - 54) (70 - 54) Gen.C07.cryst1Tail.toList = "   1".toList ∧
    cryst1Check = [((">", 9, 3), 9), ((">", 7, 2), 7)] := by decide

/-- hybrid36.pyx character constants: digits and the two letter ranges are contiguous and disjoint -/
theorem C07_gen_ascii :
    asciiFirstNumber = C07.asciiFirstNumber ∧ asciiLastNumber = C07.asciiLastNumber ∧
    asciiFirstLetterUpper = C07.asciiFirstUpper ∧ asciiLastLetterUpper = C07.asciiLastUpper ∧
    asciiFirstLetterLower = C07.asciiFirstLower ∧ asciiLastLetterLower = C07.asciiLastLower ∧
    asciiLastNumber + 1 = asciiFirstNumber + 10 ∧ asciiLastLetterUpper + 1 = asciiFirstLetterUpper + 26 ∧
    asciiLastLetterLower + 1 = asciiFirstLetterLower + 26 ∧ asciiLastNumber < asciiFirstLetterUpper ∧
    asciiLastLetterUpper < asciiFirstLetterLower ∧ radixFactors = ["10", "26", "26-10"] := by decide

end Gen


/-! ## tighter tie (pass 7): guards, literals, step order, defaults and error classes regenerated from the source

`Gen/C07Logic.lean` is regenerated by `gen_logic()` (Python `ast` for file.py / convert.py / filter.py, the code lines of the five
functions of hybrid36.pyx).  Each theorem states: regenerated fact = what the hand-written model was written against, together
with an evaluation of the model at the boundary the fact decides. -/
section Logic
/-- writer: record names, the wrap `np.where(id > 0, (id - 1) % MAX + 1, id)`, default texts, atom-name alignment rule, charge
text, the stack test, `ENDMDL`, the carriable-bond filter (four disjuncts, hetero ∧ ¬solvent), the solvent list, int64
normalisation, CONECT layout; and the model at those boundaries -/
theorem C07_gen_writer_logic :
    BiotiteModel.Gen.C07Logic.recordNames = ["HETATM", "ATOM"] ∧
    BiotiteModel.Gen.C07Logic.atomWrap = ["id>0", "(id-1)%99999+1", "id"] ∧
    BiotiteModel.Gen.C07Logic.resWrap = ["id>0", "(id-1)%9999+1", "id"] ∧
    BiotiteModel.Gen.C07Logic.defaultTexts = [" ", "  0.00", "  1.00", "  "] ∧
    BiotiteModel.Gen.C07Logic.alignRule = ["len(x0)==1 and len(x1)<4", " {}"] ∧
    BiotiteModel.Gen.C07Logic.chargeText = ["x0>0", "str(np.abs(x0))+'+'", "x0<0", "str(np.abs(x0))+'-'", "''"] ∧
    BiotiteModel.Gen.C07Logic.isStack = "coords.shape[0]>1" ∧
    BiotiteModel.Gen.C07Logic.endmdl = "ENDMDL" ∧
    BiotiteModel.Gen.C07Logic.carriable = ["np.isin(x0[:,0],x1)", "np.isin(x0[:,1],x1)", "array.res_id[x0[:,0]]!=array.res_id[x0[:,1]]", "array.chain_id[x0[:,0]]!=array.chain_id[x0[:,1]]"] ∧
    BiotiteModel.Gen.C07Logic.heteroIndices = "np.where(array.hetero&~filter_solvent(array))[0]" ∧
    BiotiteModel.Gen.C07Logic.int64Casts = ["array.atom_id", "array.get_annotation(x0)"] ∧
    BiotiteModel.Gen.C07Logic.solventList = ["HOH", "SOL"] ∧
    BiotiteModel.Gen.C07Logic.conectPerRecord = 4 ∧
    BiotiteModel.Gen.C07Logic.setBondsArgs = ["BondList(array.array_length(),x0)", "x1"] ∧
    BiotiteModel.Gen.C07Logic.conectParts = [["CONECT", "{>5}"], ["{>5}"]] ∧
    -- the model at the boundaries these literals decide
    wrapId 99999 0 = 0 ∧ wrapId 99999 1 = 1 ∧ wrapId 99999 99999 = 99999 ∧ wrapId 99999 100000 = 1 ∧ wrapId 99999 (-5) = -5 ∧
    wrapId 9999 10000 = 1 ∧
    BiotiteModel.Gen.C07Logic.solventList.map String.toList = solventNames ∧
    BiotiteModel.Gen.C07Logic.endmdl.toList = endmdl ∧
    chargeText 2 = "2+".toList ∧ chargeText (-1) = "1-".toList ∧ chargeText 0 = [] ∧
    chunk4 [1, 2, 3, 4, 5] = [[1, 2, 3, 4], [5]] ∧ BiotiteModel.Gen.C07Logic.conectPerRecord = 4 := by
  decide

/-- reader: record prefixes, padding to 80, the HETATM test, charge decoding (`"+-"`, blank → `"0"`, `[::-1]`), CONECT columns
`line[6:11]`, `range(11, 31, 5)`, the `-1` initial value of the id map, altloc modes, extra fields, the model-index guards in
their order, the record filters, the "no altloc" ids, the occupancy loop (`highest = -1.0`, strict `>`), `sorted(set(…))` -/
theorem C07_gen_reader_logic :
    BiotiteModel.Gen.C07Logic.prefixes = [("index", ["ATOM|HETATM", "MODEL"]), ("get_structure", ["CRYST1"]), ("get_bonds", ["CONECT"])] ∧
    BiotiteModel.Gen.C07Logic.padWidth = 80 ∧
    BiotiteModel.Gen.C07Logic.heteroTest = ["Eq", "HETATM", "slice(0,6)"] ∧
    BiotiteModel.Gen.C07Logic.chargeSigns = "+-" ∧
    BiotiteModel.Gen.C07Logic.chargeBlank = ["Eq", "  ", "0"] ∧
    BiotiteModel.Gen.C07Logic.chargeReversed = "::-1" ∧
    BiotiteModel.Gen.C07Logic.conectRange = [11, 31, 5] ∧
    BiotiteModel.Gen.C07Logic.conectSlices = [["6", "11"], ["i", "i+5"]] ∧
    BiotiteModel.Gen.C07Logic.bondMapInit = "-1" ∧
    BiotiteModel.Gen.C07Logic.altlocModes = ["occupancy", "first", "all"] ∧
    BiotiteModel.Gen.C07Logic.extraFields = ["atom_id", "charge", "occupancy", "b_factor"] ∧
    BiotiteModel.Gen.C07Logic.modelIndex = ["x0==0", "x0<-x1", "x0<x1", "x0==x1"] ∧
    BiotiteModel.Gen.C07Logic.modelRebind = ["x0+x1+1 if x1<0 else x1"] ∧
    BiotiteModel.Gen.C07Logic.modelFilters = ["self.p0<self.p1[x0]", "self.p0>=self.p1[x0-1]"] ∧
    BiotiteModel.Gen.C07Logic.altlocNoneFirst = [".", "?", " ", ""] ∧
    BiotiteModel.Gen.C07Logic.altlocNoneOccupancy = [".", "?", " ", ""] ∧
    BiotiteModel.Gen.C07Logic.altlocBest = ["-1.0", "Gt"] ∧
    BiotiteModel.Gen.C07Logic.altlocIdOrder = "sorted(set(ids))" ∧
    noAlt '.' = true ∧ noAlt '?' = true ∧ noAlt ' ' = true ∧ noAlt 'A' = false ∧ noAlt '1' = false ∧
    (bestId [] []).1 = -100 ∧ sortedIds ['b', 'A', 'b', 'a'] = ['A', 'a', 'b'] ∧
    parseCharge "1+".toList = some (.ok 1) ∧ parseCharge "-2".toList = some (.ok (-2)) ∧ parseCharge "  ".toList = some (.ok 0) ∧
    selectModel [] 0 = .error .valueError := by
  decide

/-- the compatibility check: every guard in source order (comparison operators and bounds included), the two tests of
`_check_number_columns` (finiteness first, then `n_required > n_columns`), and the exception class of every `raise` -/
theorem C07_gen_check_logic :
    BiotiteModel.Gen.C07Logic.checkGuards = ["x0", "'atom_id'in x1", "x2>x3", "(x4.res_id>x5).any()", "not x0", "x6<-9999", "(x4.res_id<-999).any()", "np.isnan(x4.coord).any()", "'b_factor'in x1", "'occupancy'in x1", "x4.box is not None", "len(f'{x7:>9.3f}')>9", "len(f'{x8:>7.2f}')>7", "'charge'in x1", "x9>1"] ∧
    BiotiteModel.Gen.C07Logic.numberCheck = ["not np.isfinite(x0).all()", "x1>x2"] ∧
    BiotiteModel.Gen.C07Logic.raises = [("check", ["BadStructureError"]), ("numcheck", ["BadStructureError"]), ("select", ["ValueError"]), ("model_length", ["InvalidFileError"]), ("get_bonds", ["InvalidFileError"]), ("get_structure", ["ValueError"])] := by
  decide

/-- default argument values at both entry levels (method and package function) and what the wrappers forward -/
theorem C07_gen_defaults :
    BiotiteModel.Gen.C07Logic.defaults = [("PDBFile.get_structure", [("model", "None"), ("altloc", "'first'"), ("extra_fields", "[]"), ("include_bonds", "False")]), ("PDBFile.set_structure", [("array", "<required>"), ("hybrid36", "False")]), ("PDBFile.get_coord", [("model", "None")]), ("PDBFile.get_b_factor", [("model", "None")]), ("pdb.get_structure", [("pdb_file", "<required>"), ("model", "None"), ("altloc", "'first'"), ("extra_fields", "[]"), ("include_bonds", "False")]), ("pdb.set_structure", [("pdb_file", "<required>"), ("array", "<required>"), ("hybrid36", "False")])] ∧
    BiotiteModel.Gen.C07Logic.wrapperForwards = [("get_structure", ["model", "altloc", "extra_fields", "include_bonds"]), ("set_structure", ["array", "hybrid36"])] := by
  decide

/-- hybrid36.pyx: the code lines (comments, doc strings and message texts removed) of the five functions the Lean model
`Model/C07H36.lean` transcribes: guards `< 0`, `< 1`, `< 10**length`, `< 26 * 36**(length-1)`, the offsets, `// 36`, `<= _ASCII_LAST_NUMBER` … -/
theorem C07_gen_h36_logic :
    BiotiteModel.Gen.C07Logic.pyx_encode_hybrid36 = ["def encode_hybrid36(int number, unsigned int length):", "if number < 0:", "raise ValueError(", ")", "if length < 1:", "raise ValueError(", ")", "cdef int num = number", "if num < 10**length:", "return str(num)", "num -= 10**length", "if num < 26 * 36**(length-1):", "num += 10 * 36**(length-1)", "return _encode_base36(num, length, _ASCII_FIRST_LETTER_UPPER)", "num -= 26 * 36**(length-1)", "if num < 26 * 36**(length-1):", "num += 10 * 36**(length-1)", "return _encode_base36(num, length, _ASCII_FIRST_LETTER_LOWER)", "raise ValueError(", ")"] ∧
    BiotiteModel.Gen.C07Logic.pyx_encode_base36 = ["cdef str _encode_base36(int number, unsigned int length,", "unsigned int ascii_letter_offset):", "cdef unsigned char ascii_char", "cdef int remaining", "cdef int last", "cdef bytearray char_array = bytearray(length)", "cdef unsigned char[:] char_array_v = char_array", "cdef int i = char_array_v.shape[0] - 1", "while i >= 0:", "remaining = number // 36", "last = number - remaining * 36", "if last < 10:", "char_array_v[i] = last + _ASCII_FIRST_NUMBER", "else:", "char_array_v[i] = last + ascii_letter_offset - 10", "number = remaining", "i -= 1", "return char_array.decode(\"ascii\")"] ∧
    BiotiteModel.Gen.C07Logic.pyx_decode_hybrid36 = ["def decode_hybrid36(str string):", "cdef int base_value", "cdef unsigned int length", "try:", "return int(string)", "except ValueError:", "pass", "cdef bytes char_array = string.strip().encode(\"ascii\")", "cdef const unsigned char[:] char_array_v = char_array", "length = char_array_v.shape[0]", "if length == 0:", "raise ValueError(", "if char_array_v[0] >= _ASCII_FIRST_LETTER_UPPER \\", "and char_array_v[0] <= _ASCII_LAST_LETTER_UPPER:", "base_value = _decode_base36(", "char_array_v, _ASCII_FIRST_LETTER_UPPER", ")", "return base_value - 10 * 36**(length-1) + 10**length", "elif char_array_v[0] >= _ASCII_FIRST_LETTER_LOWER \\", "and char_array_v[0] <= _ASCII_LAST_LETTER_LOWER:", "base_value = _decode_base36(", "char_array_v, _ASCII_FIRST_LETTER_LOWER", ")", "return base_value + (26-10) * 36**(length-1) + 10**length", "else:", "raise ValueError(", ")"] ∧
    BiotiteModel.Gen.C07Logic.pyx_decode_base36 = ["cdef int _decode_base36(const unsigned char[:] char_array_v,", "unsigned int ascii_letter_offset):", "cdef int i", "cdef int number = 0", "cdef unsigned char ascii_code", "for i in range(char_array_v.shape[0]):", "number *= 36", "ascii_code = char_array_v[i]", "if ascii_code <= _ASCII_LAST_NUMBER:", "number += ascii_code - _ASCII_FIRST_NUMBER", "else:", "number += ascii_code - ascii_letter_offset + 10", "return number"] ∧
    BiotiteModel.Gen.C07Logic.pyx_max_hybrid36_number = ["def max_hybrid36_number(length):", "return 10**length - 1 + 2 * (26 * 36**(length-1))"] ∧
    encodeH36 (-1) 4 = .error .valueError ∧ encodeH36 5 0 = .error .valueError ∧ encodeH36 9999 4 = .ok "9999".toList ∧
    encodeH36 10000 4 = .ok "A000".toList ∧ encodeH36 1223055 4 = .ok "ZZZZ".toList ∧ encodeH36 1223056 4 = .ok "a000".toList ∧
    maxNumber 4 = 2436111 := by
  decide

end Logic

end BiotiteModel.C07

import BiotiteModel.Proofs.C07H36
import BiotiteModel.Model.C07
import BiotiteModel.Gen.C07
namespace BiotiteModel.C07

theorem C07_h36_decode_encode (w n : Nat) (hw : 1 ≤ w) (hn : n ≤ maxNumber w) :
    ∃ s, encodeH36 (n : Int) w = .ok s ∧ decodeH36 s = .ok (n : Int) := decode_encode w n hw hn

end BiotiteModel.C07

import BiotiteModel.Proofs.C03Kmer
import BiotiteModel.Gen.C03
/-!
# C03 — property theorems (symbol encoding is a bijection; sequences behave like their strings)

Only property statements and non-vacuity examples; helper lemmas are in `Proofs/C03.lean`.
All theorems quantify over every alphabet / symbol list / code list (no size bound).
-/
namespace BiotiteModel.C03

section Generic
variable {α : Type} [DecidableEq α]

/-- Encoding then decoding is the identity on every symbol sequence over the alphabet. -/
theorem C03_decode_encode (alph : List α) (xs : List α) (h : ∀ s ∈ xs, s ∈ alph) :
    ∃ cs, encode alph xs = .ok cs ∧ decode alph (cs.map Int.ofNat) = .ok xs := by
  induction xs with
  | nil => exact ⟨[], rfl, rfl⟩
  | cons x xs ih =>
    obtain ⟨cs, hcs, hdec⟩ := ih fun s hs => h s (by simp [hs])
    obtain ⟨i, hi⟩ := indexOf?_of_mem (h x (by simp))
    refine ⟨i :: cs, mapE_cons_ok _ _ _ _ _ (encode1_ok_iff.mpr hi) hcs, ?_⟩
    exact mapE_cons_ok _ _ _ _ _ (decode1_ofNat (indexOf?_some hi)) hdec

/-- Decoding then encoding is the identity on every code sequence in range (alphabet without
duplicate symbols). -/
theorem C03_encode_decode (alph : List α) (hnd : alph.Nodup) (cs : List Int)
    (h : ∀ c ∈ cs, 0 ≤ c ∧ c < alph.length) :
    ∃ xs, decode alph cs = .ok xs ∧ encode alph xs = .ok (cs.map Int.toNat) := by
  induction cs with
  | nil => exact ⟨[], rfl, rfl⟩
  | cons c cs ih =>
    obtain ⟨xs, hxs, henc⟩ := ih fun d hd => h d (by simp [hd])
    obtain ⟨s, hs, hget⟩ := decode1_valid (alph := alph) (h c (by simp)).1 (h c (by simp)).2
    refine ⟨s :: xs, mapE_cons_ok _ _ _ _ _ hs hxs, ?_⟩
    exact mapE_cons_ok _ _ _ _ _ (encode1_ok_iff.mpr (indexOf?_of_getElem hnd hget)) henc

/-- A symbol outside the alphabet raises `AlphabetError` — and nothing else does. -/
theorem C03_encode_rejects (alph : List α) (xs : List α) :
    encode alph xs = .error .alphabetError ↔ ∃ s ∈ xs, s ∉ alph := by
  unfold encode
  rw [mapE_error_iff _ _ _ fun x _ => encode1_total alph x]
  simp only [encode1_error_iff]

/-- A code outside `0 ≤ c < len(alphabet)` raises `AlphabetError` — and nothing else does. -/
theorem C03_decode_rejects (alph : List α) (cs : List Int) :
    decode alph cs = .error .alphabetError ↔ ∃ c ∈ cs, c < 0 ∨ (alph.length : Int) ≤ c := by
  unfold decode
  rw [mapE_error_iff _ _ _ fun c _ => decode1_total alph c]
  constructor
  · rintro ⟨c, hc, he⟩
    refine ⟨c, hc, ?_⟩
    by_cases hv : c < 0 ∨ (alph.length : Int) ≤ c
    · exact hv
    · obtain ⟨s, hs, _⟩ := decode1_valid (alph := alph) (c := c) (by omega) (by omega)
      rw [hs] at he; cases he
  · rintro ⟨c, hc, hv⟩
    exact ⟨c, hc, decode1_invalid hv⟩

end Generic

/-! ## Letter alphabets: the table-driven codec of `codec.pyx` refines the generic alphabet -/

/-- `encode_chars` (256-entry table with the `uint8` illegal-code sentinel) computes exactly
`Alphabet.encode_multiple`, for every alphabet of fewer than 256 distinct bytes and every byte
string — so all four generic theorems hold for `LetterAlphabet.encode_multiple`. -/
theorem C03_letter_encode_eq (alph : List Nat) (hnd : alph.Nodup) (hlen : alph.length < 256) (syms : List Nat) :
    encodeChars alph syms = encode alph syms := by
  unfold encodeChars encode
  exact mapE_congr _ _ _ fun s _ => encodeChars_elem alph hnd hlen s

/-- `LetterAlphabet.decode_multiple` (repaired: range check *before* the `uint8` cast) computes
exactly `Alphabet.decode_multiple` on every integer code array: in particular a code `≥ 256`
raises `AlphabetError` instead of wrapping to a valid code. -/
theorem C03_letter_decode_eq (alph : List Nat) (hlen : alph.length ≤ 256) (cs : List Int) :
    letterDecodeMultiple alph false cs = decode alph cs := by
  unfold letterDecodeMultiple
  by_cases hbad : ∃ c ∈ cs, c < 0 ∨ (alph.length : Int) ≤ c
  · have hany : cs.any (fun c => decide (c < 0 ∨ (alph.length : Int) ≤ c)) = true := by
      simpa using hbad
    simp only [Bool.not_false, Bool.true_and, hany, if_true]
    exact ((C03_decode_rejects alph cs).mpr hbad).symm
  · have hany : cs.any (fun c => decide (c < 0 ∨ (alph.length : Int) ≤ c)) = false := by
      simpa using hbad
    simp only [Bool.not_false, Bool.true_and, hany, Bool.false_eq_true, if_false]
    unfold decodeToChars decode
    rw [mapE_map]
    refine mapE_congr _ _ _ fun c hc => ?_
    have hv : ¬ (c < 0 ∨ (alph.length : Int) ≤ c) := fun h => hbad ⟨c, hc, h⟩
    by_cases h256 : c < 256
    · have hm : (c % 256).toNat = c.toNat := by omega
      have hl : ¬ alph.length ≤ c.toNat := by omega
      simp only [hm, hl, if_false, decode1, hv]
      cases alph[c.toNat]? <;> rfl
    · exfalso; omega

/-! ## Sequence objects behave like their symbol strings -/

section SeqLaws
set_option linter.unusedSectionVars false
variable {α : Type} [DecidableEq α]

/-- Construction then `str()`/`symbols` returns the symbols. -/
theorem C03_seq_new_str (kind : Nat) (alph : List α) (syms : List α) (h : ∀ s ∈ syms, s ∈ alph) :
    ∃ s, Seq.new kind alph syms = .ok s ∧ s.symbols = .ok syms := by
  obtain ⟨cs, hcs, hdec⟩ := C03_decode_encode alph syms h
  exact ⟨⟨kind, alph, cs⟩, by simp [Seq.new, hcs], hdec⟩

/-- Concatenation of sequences concatenates the symbol strings. -/
theorem C03_seq_add (a b : Seq α) (x y : List α) (hal : a.alph = b.alph)
    (ha : a.symbols = .ok x) (hb : b.symbols = .ok y) :
    ∃ c, a.add b = .ok c ∧ c.symbols = .ok (x ++ y) := by
  have hext : extends_ a.alph b.alph = true := by simp [extends_, hal]
  refine ⟨{ a with codes := a.codes ++ b.codes }, by simp [Seq.add, hext], ?_⟩
  unfold Seq.symbols decode at *
  simp only [List.map_append]
  rw [hal] at ha ⊢
  exact mapE_append _ _ _ _ _ ha hb

/-- Reversal reverses the symbol string. -/
theorem C03_seq_reverse (s : Seq α) (x : List α) (h : s.symbols = .ok x) :
    s.reverse.symbols = .ok x.reverse := by
  unfold Seq.symbols decode Seq.reverse at *
  simp only [List.map_reverse]
  exact mapE_reverse _ _ _ h

/-- A copy is equal to the original, and assigning to the original afterwards does not change
the copy (the model is purely functional; the harness checks the real objects agree). -/
theorem C03_seq_copy_eq (s : Seq α) : s.beq s = true := by simp [Seq.beq]

/-- `==` holds exactly for sequences of the same class, alphabet and code. -/
theorem C03_seq_eq (a b : Seq α) : a.beq b = true ↔ a = b := by
  cases a; cases b; simp [Seq.beq, and_assoc]

end SeqLaws

/-! ## k-mer alphabets -/

/-- Fusing then splitting is the identity on every k-mer of valid codes (every base, every k). -/
theorem C03_split_fuse (n k : Nat) (ds : List Nat) (hl : ds.length = k) (hd : ∀ d ∈ ds, d < n) :
    ∃ v : Nat, fuse n k (ds.map Int.ofNat) = .ok (v : Int) ∧ v < n ^ k ∧ split n k v = .ok ds := by
  refine ⟨dotN (radixMult n k) ds, ?_, dotN_lt n k ds hl hd, ?_⟩
  · have hany : (ds.map Int.ofNat).any (fun c => decide (c > (n : Int))) = false := by
      simp only [List.any_eq_false, List.mem_map, decide_eq_true_eq]
      rintro c ⟨d, hdm, rfl⟩
      have := hd d hdm
      simp only [Int.ofNat_eq_natCast]; omega
    simp [fuse, hl, hany, dot_ofNat]
  · have hlt := dotN_lt n k ds hl hd
    have : ¬ (((dotN (radixMult n k) ds : Nat) : Int) ≥ ((n ^ k : Nat) : Int) ∨ ((dotN (radixMult n k) ds : Nat) : Int) < 0) := by omega
    rw [split, if_neg this]
    simp [splitLoop_dotN n k ds hl hd]

/-- Splitting then fusing is the identity on every k-mer code in range; the digits are valid codes. -/
theorem C03_fuse_split (n k : Nat) (hn : 0 < n) (c : Nat) (hc : c < n ^ k) :
    ∃ ds, split n k (c : Int) = .ok ds ∧ ds.length = k ∧ (∀ d ∈ ds, d < n) ∧
      fuse n k (ds.map Int.ofNat) = .ok (c : Int) := by
  obtain ⟨h1, h2, h3⟩ := splitLoop_spec n k c hn hc
  refine ⟨splitLoop (radixMult n k) c, ?_, h1, h2, ?_⟩
  · have : ¬ ((c : Int) ≥ ((n ^ k : Nat) : Int) ∨ (c : Int) < 0) := by omega
    rw [split, if_neg this]; simp
  · have hany : ((splitLoop (radixMult n k) c).map Int.ofNat).any (fun c => decide (c > (n : Int))) = false := by
      simp only [List.any_eq_false, List.mem_map, decide_eq_true_eq]
      rintro x ⟨d, hdm, rfl⟩
      have := h2 d hdm
      simp only [Int.ofNat_eq_natCast]; omega
    simp [fuse, h1, hany, dot_ofNat, h3]

/-- A k-mer code outside `0 ≤ c < n^k` raises `AlphabetError` — and nothing else does. -/
theorem C03_split_rejects (n k : Nat) (c : Int) :
    split n k c = .error .alphabetError ↔ c < 0 ∨ ((n ^ k : Nat) : Int) ≤ c := by
  unfold split
  by_cases h : c ≥ ((n ^ k : Nat) : Int) ∨ c < 0
  · rw [if_pos h]; exact ⟨fun _ => (by omega), fun _ => rfl⟩
  · rw [if_neg h]; exact ⟨fun he => (by cases he), fun h' => absurd (by omega) h⟩

/-- What the rejection statement should be; it holds for the corrected guard `0 ≤ code < n`.
(Full-strength statement, kept visible: the code as written violates it, see below.) -/
theorem C03_fuse_rejects_after_fix (n k : Nat) (codes : List Int) (hl : codes.length = k) :
    fuseChecked n k codes = .error .alphabetError ↔ ∃ c ∈ codes, c < 0 ∨ (n : Int) ≤ c := by
  unfold fuseChecked
  simp only [hl, ne_eq, not_true_eq_false, if_false]
  split
  · rename_i h
    simp only [List.any_eq_true, decide_eq_true_eq] at h
    simpa using h
  · rename_i h
    simp only [List.any_eq_true, decide_eq_true_eq, not_exists, not_and] at h
    simp only [reduceCtorEq, false_iff, not_exists, not_and]
    exact h

/-- The provable part for the code as written: exactly the codes *greater than* `n` are refused. -/
theorem C03_fuse_rejects_partial (n k : Nat) (codes : List Int) (hl : codes.length = k) :
    fuse n k codes = .error .alphabetError ↔ ∃ c ∈ codes, (n : Int) < c := by
  unfold fuse
  simp only [hl, ne_eq, not_true_eq_false, if_false]
  split
  · rename_i h
    simp only [List.any_eq_true, decide_eq_true_eq] at h
    simpa using h
  · rename_i h
    simp only [List.any_eq_true, decide_eq_true_eq, not_exists, not_and] at h
    simp only [reduceCtorEq, false_iff, not_exists, not_and]
    exact h

/-- **Defect** (negation of the full-strength rejection statement, `kmeralphabet.pyx`): a code
equal to the alphabet length and a negative code are accepted and give a colliding / invalid
k-mer code. -/
theorem C03_fuse_defect :
    fuse 4 3 [4, 0, 0] = .ok 64 ∧ fuse 4 3 [0, 0, 4] = fuse 4 3 [0, 1, 0] ∧ fuse 4 3 [-1, 0, 0] = .ok (-16) ∧
    fuseChecked 4 3 [4, 0, 0] = .error .alphabetError ∧ fuseChecked 4 3 [-1, 0, 0] = .error .alphabetError := by
  decide

/-- The guard the model copies is the guard the source has *now* (regenerated on every run). -/
theorem C03_gen_fuse_guard : Gen.C03.fuseGuardOp = ">" ∧ Gen.C03.fuseGuardHasLowerBound = false := by
  decide

/-- On valid codes the guard defect is invisible: `fuse` as written equals the corrected `fuse`. -/
theorem C03_fuse_eq_checked_on_valid (n k : Nat) (cs : List Int) (h : ∀ c ∈ cs, 0 ≤ c ∧ c < (n : Int)) :
    fuse n k cs = fuseChecked n k cs := by
  have h1 : cs.any (fun c => decide (c > (n : Int))) = false := by
    simp only [List.any_eq_false, decide_eq_true_eq]; intro c hc; have := h c hc; omega
  have h2 : cs.any (fun c => decide (c < 0 ∨ c ≥ (n : Int))) = false := by
    simp only [List.any_eq_false, decide_eq_true_eq]; intro c hc; have := h c hc; omega
  simp only [fuse, fuseChecked, h1, h2]

/-- The contiguous windows used below are `seq[i : i+k]` for `i = 0 .. len-k`, in this order. -/
theorem C03_windows_spec (k : Nat) (hk : 1 ≤ k) (seq : List Nat) :
    windows k seq = (List.range (seq.length + 1 - k)).map fun i => (seq.drop i).take k :=
  windows_eq_range k hk seq

/-- **Rolling computation = direct computation** (`_create_continuous_kmers`): for every base,
every `k ≥ 1` and every code sequence the result — including which error is raised — is the
correctly guarded `fuse` mapped over the contiguous windows; a too short sequence is a `ValueError`.
(The first k-mer is the naive sum, every further one `(prev - seq[i-1]·n^(k-1))·n + seq[i+k-1]`.) -/
theorem C03_rolling_eq_direct (n k : Nat) (hk : 1 ≤ k) (seq : List Nat) :
    createKmers n k none seq =
      if seq.length < k then .error .valueError
      else mapE (fun w => fuseChecked n k (w.map Int.ofNat)) (windows k seq) :=
  kmersContinuous_spec n k hk seq

/-- The same for spaced k-mers (`_create_spaced_kmers`): window `i` reads `seq[i + o]` for the
offsets `o` of the spacing model (sorted by the constructor, so the last one is the largest). -/
theorem C03_spaced_eq_direct (n k : Nat) (spacing : List Nat) (hl : spacing.length = k) (last : Nat)
    (hlast : spacing.getLast? = some last) (hmax : ∀ o ∈ spacing, o ≤ last) (seq : List Nat) :
    createKmers n k (some spacing) seq =
      if seq.length < last + 1 then .error .valueError
      else mapE (fun i => fuseChecked n k ((spacedWindow seq spacing i).map Int.ofNat))
        (List.range (seq.length - last)) :=
  kmersSpaced_spec n k spacing hl last hlast hmax seq

/-! ## Translation -/

/-- Complete translation is the codon-by-codon table lookup: it is defined exactly for lengths
divisible by 3, and then the protein is the list of table entries of the consecutive codons. -/
theorem C03_translate_lookup (t : CodonTable) (code : List Nat) :
    (code.length % 3 ≠ 0 → translateComplete t code = .error .valueError) ∧
    (code.length % 3 = 0 → translateComplete t code = mapE (lookupCodon t) (chunk3 code)) ∧
    (∀ a b c, a < 4 → b < 4 → c < 4 → 64 ≤ t.codons.length →
      ∃ aa, t.codons[16 * a + 4 * b + c]? = some aa ∧ lookupCodon t [a, b, c] = .ok aa) := by
  refine ⟨fun h => by simp [translateComplete, h], fun h => by simp [translateComplete, h, mapCodonCodes], ?_⟩
  intro a b c ha hb hc hlen
  have hlt : 16 * a + 4 * b + c < t.codons.length := by omega
  exact ⟨t.codons[16 * a + 4 * b + c], by simp [hlt], by simp [lookupCodon, codonNumber, hlt]⟩

/-- The radix-4 codon number is a bijection between codons and `0..63` (`_to_number` / `_to_codon`). -/
theorem C03_codon_number_bijection :
    (∀ a b c, a < 4 → b < 4 → c < 4 → numberToCodon (16 * a + 4 * b + c) = [a, b, c]) ∧
    (∀ m, m < 64 → ∃ a b c, numberToCodon m = [a, b, c] ∧ a < 4 ∧ b < 4 ∧ c < 4 ∧ codonNumber [a, b, c] = some m) := by
  constructor
  · intro a b c ha hb hc
    simp only [numberToCodon]
    have h1 : (16 * a + 4 * b + c) / 16 = a := by omega
    rw [h1]
    have h2 : 16 * a + 4 * b + c - a * 16 = 4 * b + c := by omega
    rw [h2]
    have h3 : (4 * b + c) / 4 = b := by omega
    rw [h3]
    have h4 : 4 * b + c - b * 4 = c := by omega
    rw [h4]; simp
  · intro m hm
    refine ⟨m / 16, (m - m / 16 * 16) / 4, (m - m / 16 * 16 - (m - m / 16 * 16) / 4 * 4) / 1, rfl, ?_, ?_, ?_, ?_⟩
    · omega
    · omega
    · omega
    · simp only [codonNumber]; congr 1; omega

/-! ## Obligations on the tables regenerated from the source on every run -/

/-- IUPAC ambiguity sets, written from the IUPAC definition (not taken from the source). -/
def iupacSets : List (Nat × List Nat) :=
  [(65, [65]), (67, [67]), (71, [71]), (84, [84]),          -- A C G T
   (82, [65, 71]), (89, [67, 84]), (87, [65, 84]), (83, [67, 71]), (77, [65, 67]), (75, [71, 84]),   -- R Y W S M K
   (72, [65, 67, 84]), (66, [67, 71, 84]), (86, [65, 67, 71]), (68, [65, 71, 84]),                   -- H B V D
   (78, [65, 67, 71, 84])]                                                                          -- N

/-- Watson–Crick pairing of the four bases. -/
def baseCompl : Nat → Nat
  | 65 => 84 | 84 => 65 | 67 => 71 | 71 => 67 | b => b

/-- `compl_symbol_dict` maps `s` to the symbol whose base set is the complement of `s`'s base set,
and back. -/
def complOK (s : Nat) : Bool :=
  match Gen.C03.complDict.lookup s with
  | none => false
  | some t =>
    Gen.C03.complDict.lookup t == some s && Gen.C03.nucAmb.contains t &&
    (match iupacSets.lookup s, iupacSets.lookup t with
     | some S, some T => [65, 67, 71, 84].all fun b => T.contains b == S.contains (baseCompl b)
     | _, _ => false)

/-- `complement()` on one code: the decoded result is the dict complement of the decoded input. -/
def complCodeOK (alph : List Nat) (c : Nat) : Bool :=
  match alph[c]?, complementCodes Gen.C03.nucAmb Gen.C03.complDict [c] with
  | some s, .ok [c'] => decide (c' < alph.length) && alph[c']? == Gen.C03.complDict.lookup s
  | _, _ => false

/-- Complement is an involution and equals the IUPAC pairing, for the dict and for the code
mapper built from it, on both nucleotide alphabets of the current source. -/
theorem C03_gen_complement :
    Gen.C03.nucAmb.all complOK = true ∧
    (Gen.C03.complDict.map (·.1)).Nodup ∧ Gen.C03.nucAmb.Nodup ∧ Gen.C03.nucAmb.length = iupacSets.length ∧
    Gen.C03.nucUnamb = Gen.C03.nucAmb.take 4 ∧ Gen.C03.nucUnamb = [65, 67, 71, 84] ∧
    (List.range Gen.C03.nucAmb.length).all (complCodeOK Gen.C03.nucAmb) = true ∧
    (List.range Gen.C03.nucUnamb.length).all (complCodeOK Gen.C03.nucUnamb) = true := by
  decide +kernel

/-- The protein alphabet has distinct symbols, the 1↔3 letter dicts are mutually inverse on it
and the extra 3-letter codes do not clash. -/
theorem C03_gen_protein :
    Gen.C03.protAlph.Nodup ∧ Gen.C03.dict1to3.map (·.1) = Gen.C03.protAlph ∧
    (Gen.C03.dict1to3.map (·.2)).Nodup ∧
    (Gen.C03.dict3to1Extra.all fun e => Gen.C03.protAlph.contains e.2 && !(Gen.C03.dict1to3.map (·.2)).contains e.1) = true ∧
    Gen.C03.protAlph.contains 42 = true ∧ Gen.C03.protAlph.contains 77 = true := by
  decide +kernel

/-- `LetterAlphabet.PRINTABLES` is exactly the visible ASCII range the model uses. -/
theorem C03_gen_printables :
    ((List.range 256).all fun b => Gen.C03.printables.contains b == printable b) = true := by
  decide +kernel

/-- One shipped codon table: 64 columns, the three base rows enumerate every codon over the
unambiguous alphabet exactly once, amino acids are protein symbols, the init row only uses
`-` and the start marker, and `CodonTable.load` (model) accepts it. -/
def tableOK (r : Gen.C03.TableRows) : Bool :=
  let codons := (List.range 64).map fun i => (r.base1[i]?, r.base2[i]?, r.base3[i]?)
  r.aa.length == 64 && r.init.length == 64 && r.base1.length == 64 && r.base2.length == 64 && r.base3.length == 64 &&
  decide codons.Nodup &&
  (r.base1 ++ r.base2 ++ r.base3).all (Gen.C03.nucUnamb.contains ·) &&
  r.aa.all (Gen.C03.protAlph.contains ·) &&
  r.init.all (fun c => c == 45 || c == Gen.C03.startMarker) &&
  r.init.any (· == Gen.C03.startMarker) &&
  (match codonTableOfRows Gen.C03.nucUnamb Gen.C03.protAlph r.aa
      (r.init.map fun c => if c = Gen.C03.startMarker then 105 else 45) r.base1 r.base2 r.base3 with
   | .ok t => t.codons.length == 64 && t.codons.all (· < Gen.C03.protAlph.length)
   | .error _ => false)

theorem C03_gen_codon_tables :
    Gen.C03.codonTables.all tableOK = true ∧ (Gen.C03.codonTables.map (·.id)).Nodup ∧
    (Gen.C03.codonTables.flatMap (·.names)).Nodup ∧
    (Gen.C03.codonTables.any fun r => r.names.contains Gen.C03.defaultTableName) = true ∧
    (Gen.C03.defaultStarts.all fun s => s.length == 3 && s.all (Gen.C03.nucUnamb.contains ·)) = true ∧
    Gen.C03.codonTables.length ≥ 1 := by
  decide +kernel

/-! ## Non-vacuity: the hypotheses are met by concrete, non-trivial inputs -/

example : encode [65, 67, 71, 84] [71, 65, 84, 84] = .ok [2, 0, 3, 3] := by decide
example : decode [65, 67, 71, 84] [2, 0, 3, 3] = .ok [71, 65, 84, 84] := by decide
example : encode ["x", "y", "zz"] ["zz", "q"] = .error .alphabetError := by decide
example : decode [65, 67, 71, 84] [0, 4] = .error .alphabetError := by decide
example : encodeChars [65, 67, 71, 84] [71, 65, 84, 84] = .ok [2, 0, 3, 3] := by decide
example : encodeChars [65, 67, 71, 84] [71, 200] = .error .alphabetError := by decide
example : letterDecodeMultiple [65, 67, 71, 84] false [256, 1] = .error .alphabetError := by decide
example : letterDecodeMultiple [65, 67, 71, 84] false [3, 1] = .ok [84, 67] := by decide
example : ([65, 67, 71, 84] : List Nat).Nodup ∧ ([65, 67, 71, 84] : List Nat).length < 256 := by decide
example : fuse 4 3 [3, 1, 2] = .ok 54 ∧ split 4 3 54 = .ok [3, 1, 2] := by decide
example : fuse 4 3 [5, 0, 0] = .error .alphabetError ∧ split 4 3 64 = .error .alphabetError := by decide
example : createKmers 4 3 none [0, 1, 2, 3, 3] = .ok [6, 27, 47] ∧ windows 3 [0, 1, 2, 3, 3] = [[0, 1, 2], [1, 2, 3], [2, 3, 3]] := by decide
example : createKmers 4 3 none [0, 1, 2, 4, 3] = .error .alphabetError ∧ createKmers 4 3 none [0, 1] = .error .valueError := by decide
example : createKmers 4 3 (some [0, 2, 3]) [0, 1, 2, 3, 3] = .ok [11, 31] ∧ spacedWindow [0, 1, 2, 3, 3] [0, 2, 3] 1 = [1, 3, 3] ∧
    ([0, 2, 3] : List Nat).getLast? = some 3 := by decide
example : (Seq.new 0 [65, 67] [67, 65]).bind (fun s => s.reverse.symbols) = .ok [65, 67] := by decide
example : numberToCodon 53 = [3, 1, 1] ∧ codonNumber [3, 1, 1] = some 53 := by decide
example : complementCodes Gen.C03.nucAmb Gen.C03.complDict [0, 4, 14] = .ok [3, 5, 14] := by decide +kernel

end BiotiteModel.C03

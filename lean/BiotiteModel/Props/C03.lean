import BiotiteModel.Proofs.C03Kmer
import BiotiteModel.Proofs.C03Codon
import BiotiteModel.Proofs.C03Seq
import BiotiteModel.Proofs.C03Expected
import BiotiteModel.Gen.C03
/-!
# C03 — property theorems (symbol encoding is a bijection; sequences behave like their strings)

Only property statements and non-vacuity examples; helper lemmas are in `Proofs/C03.lean`.
All theorems quantify over every alphabet / symbol list / code list (no size bound).
-/
namespace BiotiteModel.C03

section Generic
variable {α : Type} [DecidableEq α]

/-- Encoding then decoding is the identity on every symbol sequence over the alphabet. -/
theorem C03_decode_encode (alph : List α) (xs : List α) (h : ∀ s ∈ xs, s ∈ alph) :
    ∃ cs, encode alph xs = .ok cs ∧ decode alph (cs.map Int.ofNat) = .ok xs := by
  induction xs with
  | nil => exact ⟨[], rfl, rfl⟩
  | cons x xs ih =>
    obtain ⟨cs, hcs, hdec⟩ := ih fun s hs => h s (by simp [hs])
    obtain ⟨i, hi⟩ := indexOf?_of_mem (h x (by simp))
    refine ⟨i :: cs, mapE_cons_ok _ _ _ _ _ (encode1_ok_iff.mpr hi) hcs, ?_⟩
    exact mapE_cons_ok _ _ _ _ _ (decode1_ofNat (indexOf?_some hi)) hdec

/-- Decoding then encoding is the identity on every code sequence in range (alphabet without
duplicate symbols). -/
theorem C03_encode_decode (alph : List α) (hnd : alph.Nodup) (cs : List Int)
    (h : ∀ c ∈ cs, 0 ≤ c ∧ c < alph.length) :
    ∃ xs, decode alph cs = .ok xs ∧ encode alph xs = .ok (cs.map Int.toNat) := by
  induction cs with
  | nil => exact ⟨[], rfl, rfl⟩
  | cons c cs ih =>
    obtain ⟨xs, hxs, henc⟩ := ih fun d hd => h d (by simp [hd])
    obtain ⟨s, hs, hget⟩ := decode1_valid (alph := alph) (h c (by simp)).1 (h c (by simp)).2
    refine ⟨s :: xs, mapE_cons_ok _ _ _ _ _ hs hxs, ?_⟩
    exact mapE_cons_ok _ _ _ _ _ (encode1_ok_iff.mpr (indexOf?_of_getElem hnd hget)) henc

/-- A symbol outside the alphabet raises `AlphabetError` — and nothing else does. -/
theorem C03_encode_rejects (alph : List α) (xs : List α) :
    encode alph xs = .error .alphabetError ↔ ∃ s ∈ xs, s ∉ alph := by
  unfold encode
  rw [mapE_error_iff _ _ _ fun x _ => encode1_total alph x]
  simp only [encode1_error_iff]

/-- A code outside `0 ≤ c < len(alphabet)` raises `AlphabetError` — and nothing else does. -/
theorem C03_decode_rejects (alph : List α) (cs : List Int) :
    decode alph cs = .error .alphabetError ↔ ∃ c ∈ cs, c < 0 ∨ (alph.length : Int) ≤ c := by
  unfold decode
  rw [mapE_error_iff _ _ _ fun c _ => decode1_total alph c]
  constructor
  · rintro ⟨c, hc, he⟩
    refine ⟨c, hc, ?_⟩
    by_cases hv : c < 0 ∨ (alph.length : Int) ≤ c
    · exact hv
    · obtain ⟨s, hs, _⟩ := decode1_valid (alph := alph) (c := c) (by omega) (by omega)
      rw [hs] at he; cases he
  · rintro ⟨c, hc, hv⟩
    exact ⟨c, hc, decode1_invalid hv⟩

end Generic

/-! ## Letter alphabets: the table-driven codec of `codec.pyx` refines the generic alphabet -/

/-- `encode_chars` (256-entry table with the `uint8` illegal-code sentinel) computes exactly
`Alphabet.encode_multiple`, for every alphabet of fewer than 256 distinct bytes and every byte
string — so all four generic theorems hold for `LetterAlphabet.encode_multiple`. -/
theorem C03_letter_encode_eq (alph : List Nat) (hnd : alph.Nodup) (hlen : alph.length < 256) (syms : List Nat) :
    encodeChars alph syms = encode alph syms := by
  unfold encodeChars encode
  exact mapE_congr _ _ _ fun s _ => encodeChars_elem alph hnd hlen s

/-- `LetterAlphabet.decode_multiple` (repaired: range check *before* the `uint8` cast) computes
exactly `Alphabet.decode_multiple` on every integer code array: in particular a code `≥ 256`
raises `AlphabetError` instead of wrapping to a valid code. -/
theorem C03_letter_decode_eq (alph : List Nat) (hlen : alph.length ≤ 256) (cs : List Int) :
    letterDecodeMultiple alph false cs = decode alph cs := by
  unfold letterDecodeMultiple
  by_cases hbad : ∃ c ∈ cs, c < 0 ∨ (alph.length : Int) ≤ c
  · have hany : cs.any (fun c => decide (c < 0 ∨ (alph.length : Int) ≤ c)) = true := by
      simpa using hbad
    simp only [Bool.not_false, Bool.true_and, hany, if_true]
    exact ((C03_decode_rejects alph cs).mpr hbad).symm
  · have hany : cs.any (fun c => decide (c < 0 ∨ (alph.length : Int) ≤ c)) = false := by
      simpa using hbad
    simp only [Bool.not_false, Bool.true_and, hany, Bool.false_eq_true, if_false]
    unfold decodeToChars decode
    rw [mapE_map]
    refine mapE_congr _ _ _ fun c hc => ?_
    have hv : ¬ (c < 0 ∨ (alph.length : Int) ≤ c) := fun h => hbad ⟨c, hc, h⟩
    by_cases h256 : c < 256
    · have hm : (c % 256).toNat = c.toNat := by omega
      have hl : ¬ alph.length ≤ c.toNat := by omega
      simp only [hm, hl, if_false, decode1, hv]
      cases alph[c.toNat]? <;> rfl
    · exfalso; omega

/-- The same for an array that is `uint8` already (no pre-cast check is made, none is needed):
every `uint8` code array decodes like the generic alphabet, for alphabets of at most 256 letters. -/
theorem C03_letter_decode_eq_u8 (alph : List Nat) (hlen : alph.length ≤ 256) (cs : List Int)
    (hu8 : ∀ c ∈ cs, 0 ≤ c ∧ c < 256) :
    letterDecodeMultiple alph true cs = decode alph cs := by
  unfold letterDecodeMultiple
  simp only [Bool.not_true, Bool.false_and, Bool.false_eq_true, if_false]
  unfold decodeToChars decode
  rw [mapE_map]
  refine mapE_congr _ _ _ fun c hc => ?_
  obtain ⟨h0, h1⟩ := hu8 c hc
  have hm : (c % 256).toNat = c.toNat := by omega
  by_cases hv : (alph.length : Int) ≤ c
  · have hl : alph.length ≤ c.toNat := by omega
    simp only [hm, hl, if_true, decode1]
    simp [hv]
  · have hl : ¬ alph.length ≤ c.toNat := by omega
    have hv' : ¬ (c < 0 ∨ (alph.length : Int) ≤ c) := by omega
    simp only [hm, hl, if_false, decode1, hv']
    cases alph[c.toNat]? <;> rfl

/-! ## Sequence objects behave like their symbol strings -/

section SeqLaws
set_option linter.unusedSectionVars false
variable {α : Type} [DecidableEq α]

/-- Construction then `str()`/`symbols` returns the symbols. -/
theorem C03_seq_new_str (kind : Nat) (alph : List α) (syms : List α) (h : ∀ s ∈ syms, s ∈ alph) :
    ∃ s, Seq.new kind alph syms = .ok s ∧ s.symbols = .ok syms := by
  obtain ⟨cs, hcs, hdec⟩ := C03_decode_encode alph syms h
  exact ⟨⟨kind, alph, cs⟩, by simp [Seq.new, hcs], hdec⟩

/-- Concatenation of sequences concatenates the symbol strings. -/
theorem C03_seq_add (a b : Seq α) (x y : List α) (hal : a.alph = b.alph)
    (ha : a.symbols = .ok x) (hb : b.symbols = .ok y) :
    ∃ c, a.add b = .ok c ∧ c.symbols = .ok (x ++ y) := by
  have hext : extends_ a.alph b.alph = true := by simp [extends_, hal]
  refine ⟨{ a with codes := a.codes ++ b.codes }, by simp [Seq.add, hext], ?_⟩
  unfold Seq.symbols decode at *
  simp only [List.map_append]
  rw [hal] at ha ⊢
  exact mapE_append _ _ _ _ _ ha hb

/-- Reversal reverses the symbol string. -/
theorem C03_seq_reverse (s : Seq α) (x : List α) (h : s.symbols = .ok x) :
    s.reverse.symbols = .ok x.reverse := by
  unfold Seq.symbols decode Seq.reverse at *
  simp only [List.map_reverse]
  exact mapE_reverse _ _ _ h

/-- A copy is equal to the original, and assigning to the original afterwards does not change
the copy (the model is purely functional; the harness checks the real objects agree). -/
theorem C03_seq_copy_eq (s : Seq α) : s.beq s = true := by simp [Seq.beq]

/-- `==` holds exactly for sequences of the same class, alphabet and code. -/
theorem C03_seq_eq (a b : Seq α) : a.beq b = true ↔ a = b := by
  cases a; cases b; simp [Seq.beq, and_assoc]

/-- `==` agrees with the symbol strings *and* class and alphabet: two valid sequences are equal iff
they have the same class, the same alphabet and the same symbol string.  In particular sequences
over different alphabets are unequal even when their code arrays coincide. -/
theorem C03_seq_eq_symbols (a b : Seq α) (hnd : a.alph.Nodup) (x y : List α)
    (ha : a.symbols = .ok x) (hb : b.symbols = .ok y) :
    a.beq b = true ↔ a.kind = b.kind ∧ a.alph = b.alph ∧ x = y :=
  beq_iff_symbols a b hnd x y ha hb

/-- Python/numpy index normalisation: `0 ≤ i < n` → `i`, `-n ≤ i < 0` → `i + n`, otherwise `IndexError`. -/
theorem C03_seq_index_norm (n : Nat) (i : Int) :
    (0 ≤ i → i < n → normIndex n i = .ok i.toNat) ∧
    (i < 0 → -(n : Int) ≤ i → normIndex n i = .ok (i + n).toNat) ∧
    ((n : Int) ≤ i ∨ i < -(n : Int) → normIndex n i = .error .indexError) :=
  normIndex_spec n i

/-- Indexing returns the symbol of the string at the (normalised) position; out of range raises. -/
theorem C03_seq_index (s : Seq α) (x : List α) (h : s.symbols = .ok x) (i : Int) :
    (∀ k, normIndex s.codes.length i = .ok k → k < x.length → ∃ a, x[k]? = some a ∧ s.getItem i = .ok a) ∧
    ((x.length : Int) ≤ i ∨ i < -(x.length : Int) → s.getItem i = .error .indexError) := by
  have hl := symbols_length s x h
  constructor
  · intro k hn hk
    exact getItem_at s x h i k hn (by omega)
  · intro hi
    have := (normIndex_spec s.codes.length i).2.2 (by omega)
    simp [Seq.getItem, this]

/-- Slicing (`seq[a:b]`, any `None`/negative/out-of-range bounds) returns the slice of the string.
The model is value-semantic: the result is a new sequence value.  (In the real code the result
shares its code array with the original — a numpy view — so a *later* assignment to one is
visible in the other; the model asserts nothing about that and the harness never mutates a
sequence that shares memory.  `copy()`, `reverse()`, `+` and `complement()` do not alias; for
`copy()` the harness mutates the original afterwards and compares the copy.) -/
theorem C03_seq_slice (s : Seq α) (x : List α) (h : s.symbols = .ok x) (a b : Option Int) :
    (s.slice a b).symbols =
      .ok ((x.take (sliceBounds x.length a b).2).drop (sliceBounds x.length a b).1) :=
  slice_symbols s x h a b

/-- Assigning a symbol at a position updates exactly that position of the string; a symbol
outside the alphabet is an `AlphabetError` and changes nothing. -/
theorem C03_seq_assign (s : Seq α) (x : List α) (h : s.symbols = .ok x) (i : Int) (sym : α) :
    (sym ∈ s.alph → ∀ k, normIndex s.codes.length i = .ok k →
      ∃ s', s.setItem i sym = .ok s' ∧ s'.symbols = .ok (x.set k sym) ∧ s'.alph = s.alph ∧ s'.kind = s.kind) ∧
    (sym ∉ s.alph → s.setItem i sym = .error .alphabetError) :=
  ⟨fun hs k hn => setItem_symbols s x h i k hn sym hs, setItem_rejects s i sym⟩

/-- Assigning symbols to a slice of the same length replaces that part of the string. -/
theorem C03_seq_assign_slice (s : Seq α) (x : List α) (h : s.symbols = .ok x) (a b : Option Int)
    (syms : List α) (hs : ∀ y ∈ syms, y ∈ s.alph)
    (hl : syms.length = (sliceBounds x.length a b).2 - (sliceBounds x.length a b).1) :
    ∃ s', s.setSlice a b syms = .ok s' ∧
      s'.symbols = .ok (x.take (sliceBounds x.length a b).1 ++ syms ++ x.drop (sliceBounds x.length a b).2) :=
  setSlice_symbols s x h a b syms hs hl

/-- Slice assignment never corrupts: foreign symbol → `AlphabetError`; wrong length (other than
numpy's broadcast of one symbol) → `ValueError`. -/
theorem C03_seq_assign_slice_rejects (s : Seq α) (a b : Option Int) (syms : List α) :
    ((∃ y ∈ syms, y ∉ s.alph) → s.setSlice a b syms = .error .alphabetError) ∧
    ((∀ y ∈ syms, y ∈ s.alph) →
      syms.length ≠ (sliceBounds s.codes.length a b).2 - (sliceBounds s.codes.length a b).1 →
      syms.length ≠ 1 → s.setSlice a b syms = .error .valueError) :=
  setSlice_rejects s a b syms

/-- `a + b` for *different* alphabets: if one alphabet extends the other the strings are concatenated
and the result carries the longer alphabet and the class of the operand that owns it; if neither
extends the other the call is a `ValueError`. -/
theorem C03_seq_add_extends (a b : Seq α) (x y : List α) (ha : a.symbols = .ok x) (hb : b.symbols = .ok y) :
    (extends_ a.alph b.alph = true →
      ∃ c, a.add b = .ok c ∧ c.symbols = .ok (x ++ y) ∧ c.alph = a.alph ∧ c.kind = a.kind) ∧
    (extends_ a.alph b.alph = false → extends_ b.alph a.alph = true →
      ∃ c, a.add b = .ok c ∧ c.symbols = .ok (x ++ y) ∧ c.alph = b.alph ∧ c.kind = b.kind) ∧
    (extends_ a.alph b.alph = false → extends_ b.alph a.alph = false → a.add b = .error .valueError) :=
  add_spec a b x y ha hb

/-- Slice assignment of ONE symbol to a slice of another width: numpy broadcasts it over the slice. -/
theorem C03_seq_assign_slice_broadcast (s : Seq α) (x : List α) (h : s.symbols = .ok x) (a b : Option Int) (y : α)
    (hy : y ∈ s.alph) (hw : (sliceBounds x.length a b).2 - (sliceBounds x.length a b).1 ≠ 1) :
    ∃ s', s.setSlice a b [y] = .ok s' ∧
      s'.symbols = .ok (x.take (sliceBounds x.length a b).1 ++
        List.replicate ((sliceBounds x.length a b).2 - (sliceBounds x.length a b).1) y ++
        x.drop (sliceBounds x.length a b).2) :=
  setSlice_broadcast s x h a b y hy hw

/-- `sequence[a:b] = other_sequence` (repaired code): assigning a Sequence is assigning its symbols,
whatever its alphabet — the same one, one this alphabet extends, one that extends this alphabet or a
foreign one.  Accepted iff every symbol is in this alphabet (then the string is updated and class
and alphabet are kept); a symbol outside this alphabet is an `AlphabetError`. -/
theorem C03_seq_assign_seq (s item : Seq α) (x y : List α) (hs : s.symbols = .ok x) (hi : item.symbols = .ok y)
    (a b : Option Int) :
    ((∀ t ∈ y, t ∈ s.alph) →
      y.length = (sliceBounds x.length a b).2 - (sliceBounds x.length a b).1 →
      ∃ s', s.setSliceSeq a b item = .ok s' ∧
        s'.symbols = .ok (x.take (sliceBounds x.length a b).1 ++ y ++ x.drop (sliceBounds x.length a b).2) ∧
        s'.alph = s.alph ∧ s'.kind = s.kind) ∧
    ((∃ t ∈ y, t ∉ s.alph) → s.setSliceSeq a b item = .error .alphabetError) :=
  setSliceSeq_spec s item x y hs hi a b

/-- `sequence.symbols = value` sets the string to `value`; a symbol outside the alphabet is refused
with `AlphabetError` (and, the model being a value, the sequence is what it was). -/
theorem C03_seq_set_symbols (s : Seq α) (syms : List α) :
    ((∀ y ∈ syms, y ∈ s.alph) → ∃ s', s.setSymbols syms = .ok s' ∧ s'.symbols = .ok syms ∧
      s'.alph = s.alph ∧ s'.kind = s.kind) ∧
    ((∃ y ∈ syms, y ∉ s.alph) → s.setSymbols syms = .error .alphabetError) :=
  setSymbols_spec s syms

/-- `GeneralSequence.as_type(other)`: `other` receives this sequence's symbol string exactly when
its alphabet extends this one's; otherwise `AlphabetError`. -/
theorem C03_seq_as_type (a b : Seq α) (x : List α) (ha : a.symbols = .ok x) :
    (extends_ b.alph a.alph = true → ∃ b', a.asType b = .ok b' ∧ b'.symbols = .ok x ∧ b'.alph = b.alph ∧ b'.kind = b.kind) ∧
    (extends_ b.alph a.alph = false → a.asType b = .error .alphabetError) :=
  asType_spec a b x ha

/-- `AlphabetMapper`: when the target alphabet contains every source symbol the mapper can be
built, and mapping any valid source codes preserves the symbols they denote. -/
theorem C03_mapper_preserves (src tgt : List α) (hsub : ∀ s ∈ src, s ∈ tgt) :
    ∃ m, mapperNew src tgt = .ok m ∧ ∀ codes : List Nat, (∀ c ∈ codes, c < src.length) →
      ∃ out syms, mapperApply m codes = .ok out ∧ decode src (codes.map Int.ofNat) = .ok syms ∧
        decode tgt (out.map Int.ofNat) = .ok syms :=
  mapper_preserves src tgt hsub

end SeqLaws

/-! ## k-mer alphabets -/

/-- Fusing then splitting is the identity on every k-mer of valid codes (every base, every k). -/
theorem C03_split_fuse (n k : Nat) (ds : List Nat) (hl : ds.length = k) (hd : ∀ d ∈ ds, d < n) :
    ∃ v : Nat, fuse n k (ds.map Int.ofNat) = .ok (v : Int) ∧ v < n ^ k ∧ split n k v = .ok ds := by
  refine ⟨dotN (radixMult n k) ds, ?_, dotN_lt n k ds hl hd, ?_⟩
  · have hany : (ds.map Int.ofNat).any (fun c => decide (c > (n : Int))) = false := by
      simp only [List.any_eq_false, List.mem_map, decide_eq_true_eq]
      rintro c ⟨d, hdm, rfl⟩
      have := hd d hdm
      simp only [Int.ofNat_eq_natCast]; omega
    simp [fuse, hl, hany, dot_ofNat]
  · have hlt := dotN_lt n k ds hl hd
    have : ¬ (((dotN (radixMult n k) ds : Nat) : Int) ≥ ((n ^ k : Nat) : Int) ∨ ((dotN (radixMult n k) ds : Nat) : Int) < 0) := by omega
    rw [split, if_neg this]
    simp [splitLoop_dotN n k ds hl hd]

/-- Splitting then fusing is the identity on every k-mer code in range; the digits are valid codes. -/
theorem C03_fuse_split (n k : Nat) (hn : 0 < n) (c : Nat) (hc : c < n ^ k) :
    ∃ ds, split n k (c : Int) = .ok ds ∧ ds.length = k ∧ (∀ d ∈ ds, d < n) ∧
      fuse n k (ds.map Int.ofNat) = .ok (c : Int) := by
  obtain ⟨h1, h2, h3⟩ := splitLoop_spec n k c hn hc
  refine ⟨splitLoop (radixMult n k) c, ?_, h1, h2, ?_⟩
  · have : ¬ ((c : Int) ≥ ((n ^ k : Nat) : Int) ∨ (c : Int) < 0) := by omega
    rw [split, if_neg this]; simp
  · have hany : ((splitLoop (radixMult n k) c).map Int.ofNat).any (fun c => decide (c > (n : Int))) = false := by
      simp only [List.any_eq_false, List.mem_map, decide_eq_true_eq]
      rintro x ⟨d, hdm, rfl⟩
      have := h2 d hdm
      simp only [Int.ofNat_eq_natCast]; omega
    simp [fuse, h1, hany, dot_ofNat, h3]

/-- A k-mer code outside `0 ≤ c < n^k` raises `AlphabetError` — and nothing else does. -/
theorem C03_split_rejects (n k : Nat) (c : Int) :
    split n k c = .error .alphabetError ↔ c < 0 ∨ ((n ^ k : Nat) : Int) ≤ c := by
  unfold split
  by_cases h : c ≥ ((n ^ k : Nat) : Int) ∨ c < 0
  · rw [if_pos h]; exact ⟨fun _ => (by omega), fun _ => rfl⟩
  · rw [if_neg h]; exact ⟨fun he => (by cases he), fun h' => absurd (by omega) h⟩

/-- What the rejection statement should be; it holds for the corrected guard `0 ≤ code < n`.
(Full-strength statement, kept visible: the code as written violates it, see below.) -/
theorem C03_fuse_rejects_after_fix (n k : Nat) (codes : List Int) (hl : codes.length = k) :
    fuseChecked n k codes = .error .alphabetError ↔ ∃ c ∈ codes, c < 0 ∨ (n : Int) ≤ c := by
  unfold fuseChecked
  simp only [hl, ne_eq, not_true_eq_false, if_false]
  split
  · rename_i h
    simp only [List.any_eq_true, decide_eq_true_eq] at h
    simpa using h
  · rename_i h
    simp only [List.any_eq_true, decide_eq_true_eq, not_exists, not_and] at h
    simp only [reduceCtorEq, false_iff, not_exists, not_and]
    exact h

/-- The provable part for the code as written: exactly the codes *greater than* `n` are refused. -/
theorem C03_fuse_rejects_partial (n k : Nat) (codes : List Int) (hl : codes.length = k) :
    fuse n k codes = .error .alphabetError ↔ ∃ c ∈ codes, (n : Int) < c := by
  unfold fuse
  simp only [hl, ne_eq, not_true_eq_false, if_false]
  split
  · rename_i h
    simp only [List.any_eq_true, decide_eq_true_eq] at h
    simpa using h
  · rename_i h
    simp only [List.any_eq_true, decide_eq_true_eq, not_exists, not_and] at h
    simp only [reduceCtorEq, false_iff, not_exists, not_and]
    exact h

/-- **Defect** (negation of the full-strength rejection statement, `kmeralphabet.pyx`): a code
equal to the alphabet length and a negative code are accepted and give a colliding / invalid
k-mer code. -/
theorem C03_fuse_defect :
    fuse 4 3 [4, 0, 0] = .ok 64 ∧ fuse 4 3 [0, 0, 4] = fuse 4 3 [0, 1, 0] ∧ fuse 4 3 [-1, 0, 0] = .ok (-16) ∧
    fuseChecked 4 3 [4, 0, 0] = .error .alphabetError ∧ fuseChecked 4 3 [-1, 0, 0] = .error .alphabetError := by
  decide

/-- The guard the model copies is the guard the source has *now* (regenerated on every run). -/
theorem C03_gen_fuse_guard : Gen.C03.fuseGuardOp = ">" ∧ Gen.C03.fuseGuardHasLowerBound = false := by
  decide

/-- On valid codes the guard defect is invisible: `fuse` as written equals the corrected `fuse`. -/
theorem C03_fuse_eq_checked_on_valid (n k : Nat) (cs : List Int) (h : ∀ c ∈ cs, 0 ≤ c ∧ c < (n : Int)) :
    fuse n k cs = fuseChecked n k cs := by
  have h1 : cs.any (fun c => decide (c > (n : Int))) = false := by
    simp only [List.any_eq_false, decide_eq_true_eq]; intro c hc; have := h c hc; omega
  have h2 : cs.any (fun c => decide (c < 0 ∨ c ≥ (n : Int))) = false := by
    simp only [List.any_eq_false, decide_eq_true_eq]; intro c hc; have := h c hc; omega
  simp only [fuse, fuseChecked, h1, h2]

/-- The contiguous windows used below are `seq[i : i+k]` for `i = 0 .. len-k`, in this order. -/
theorem C03_windows_spec (k : Nat) (hk : 1 ≤ k) (seq : List Nat) :
    windows k seq = (List.range (seq.length + 1 - k)).map fun i => (seq.drop i).take k :=
  windows_eq_range k hk seq

/-- **Rolling computation = direct computation** (`_create_continuous_kmers`): for every base,
every `k ≥ 1` and every code sequence the result — including which error is raised — is the
correctly guarded `fuse` mapped over the contiguous windows; a too short sequence is a `ValueError`.
(The first k-mer is the naive sum, every further one `(prev - seq[i-1]·n^(k-1))·n + seq[i+k-1]`.) -/
theorem C03_rolling_eq_direct (n k : Nat) (hk : 1 ≤ k) (seq : List Nat) :
    createKmers n k none seq =
      if seq.length < k then .error .valueError
      else mapE (fun w => fuseChecked n k (w.map Int.ofNat)) (windows k seq) :=
  kmersContinuous_spec n k hk seq

/-- The same for spaced k-mers (`_create_spaced_kmers`): window `i` reads `seq[i + o]` for the
offsets `o` of the spacing model (sorted by the constructor, so the last one is the largest). -/
theorem C03_spaced_eq_direct (n k : Nat) (spacing : List Nat) (hl : spacing.length = k) (last : Nat)
    (hlast : spacing.getLast? = some last) (hmax : ∀ o ∈ spacing, o ≤ last) (seq : List Nat) :
    createKmers n k (some spacing) seq =
      if seq.length < last + 1 then .error .valueError
      else mapE (fun i => fuseChecked n k ((spacedWindow seq spacing i).map Int.ofNat))
        (List.range (seq.length - last)) :=
  kmersSpaced_spec n k spacing hl last hlast hmax seq

/-- The hypotheses of `C03_spaced_eq_direct` are what `KmerAlphabet.__init__` establishes (it sorts
the offsets): for every spacing model the constructor accepts — list or `"1011"` string — the
spaced k-mers are the guarded `fuse` over the spaced windows. -/
theorem C03_spaced_eq_direct_ctor (n k : Nat) (sp : SpacingArg) (spacing : List Nat)
    (h : kmerNew k sp = .ok (some spacing)) (seq : List Nat) :
    ∃ last, spacing.getLast? = some last ∧ (∀ o ∈ spacing, o ≤ last) ∧ spacing.length = k ∧
      createKmers n k (some spacing) seq =
        if seq.length < last + 1 then .error .valueError
        else mapE (fun i => fuseChecked n k ((spacedWindow seq spacing i).map Int.ofNat))
          (List.range (seq.length - last)) := by
  obtain ⟨hl, last, hlast, hmax⟩ := kmerNew_spacing k sp spacing h
  exact ⟨last, hlast, hmax, hl, kmersSpaced_spec n k spacing hl last hlast hmax seq⟩

/-! ## Translation -/

/-- Complete translation is the codon-by-codon table lookup: it is defined exactly for lengths
divisible by 3, and then the protein is the list of table entries of the consecutive codons. -/
theorem C03_translate_codonwise (t : CodonTable) (code : List Nat) :
    (code.length % 3 ≠ 0 → translateComplete t code = .error .valueError) ∧
    (code.length % 3 = 0 → translateComplete t code = mapE (lookupCodon t) (chunk3 code)) ∧
    (∀ a b c, a < 4 → b < 4 → c < 4 → 64 = t.codons.length →
      ∃ aa, t.codons[16 * a + 4 * b + c]? = some aa ∧ lookupCodon t [a, b, c] = .ok aa) := by
  refine ⟨fun h => by simp [translateComplete, h], fun h => by simp [translateComplete, h, mapCodonCodes], ?_⟩
  intro a b c ha hb hc hlen
  have hlt : 16 * a + 4 * b + c < t.codons.length := by omega
  obtain ⟨aa, haa⟩ := lookupCodon_ok t (by omega) a b c ha hb hc
  refine ⟨t.codons[16 * a + 4 * b + c], by simp [hlt], ?_⟩
  have hany : [a, b, c].any (fun d => decide (4 ≤ d)) = false := by
    simp only [List.any_cons, List.any_nil, Bool.or_false, Bool.or_eq_false_iff, decide_eq_false_iff_not]
    omega
  simp [lookupCodon, hany, codonNumber, hlt]

/-- `CodonTable(codon_dict, starts)` (any dict with distinct codon keys, as a Python dict has):
the table has 64 entries and looking up the *encoded* codon of any dict item returns the
*encoded* amino acid of that item — the 64-slot array is the dict. -/
theorem C03_table_lookup_eq_dict (nuc prot : List Nat) (hnd : nuc.Nodup) (hn4 : nuc.length = 4)
    (dict : List (List Nat × Nat)) (hk : (dict.map (·.1)).Nodup) (starts : List (List Nat)) (t : CodonTable)
    (h : codonTableNew nuc prot dict starts = .ok t) :
    t.codons.length = 64 ∧
    ∀ e ∈ dict, ∃ x y z a, encodeChars nuc e.1 = .ok [x, y, z] ∧ encode1 prot e.2 = .ok a ∧
      lookupCodon t [x, y, z] = .ok a :=
  codonTableNew_lookup nuc prot hnd hn4 dict hk starts t h

/-- **Translation equals a codon-by-codon lookup in the chosen codon table**: the DNA string made
of the codons `k₁ … kₙ` (keys of the dict the table was built from) translates completely to the
protein `dict[k₁] … dict[kₙ]` (both sides in code representation). -/
theorem C03_translate_lookup (nuc prot : List Nat) (hnd : nuc.Nodup) (hn4 : nuc.length = 4)
    (dict : List (List Nat × Nat)) (hk : (dict.map (·.1)).Nodup) (starts : List (List Nat)) (t : CodonTable)
    (h : codonTableNew nuc prot dict starts = .ok t) (items : List (List Nat × Nat))
    (hsub : ∀ e ∈ items, e ∈ dict) :
    ∃ code aas, encodeChars nuc (items.flatMap (·.1)) = .ok code ∧
      mapE (encode1 prot) (items.map (·.2)) = .ok aas ∧ translateComplete t code = .ok aas :=
  translate_eq_dict nuc prot hnd hn4 dict hk starts t h items hsub

/-- A nucleotide code outside `0..3` (the code setter accepts any value of the dtype) is refused by
translation instead of being folded into another codon (repaired code): complete translation of a
sequence whose length is a multiple of 3 is an `AlphabetError` exactly when some codon contains such
a code. -/
theorem C03_translate_rejects_invalid_code (t : CodonTable) (ht : t.codons.length = 64) (code : List Nat)
    (hl : code.length % 3 = 0) :
    translateComplete t code = .error .alphabetError ↔ ∃ x ∈ chunk3 code, ∃ d ∈ x, 4 ≤ d :=
  translateComplete_rejects t ht code hl

/-- `CodonTable(dict, starts)` refuses start codons that are not 3 letters long and an empty list of
start codons with a `ValueError`. -/
theorem C03_table_rejects (nuc prot : List Nat) (dict : List (List Nat × Nat)) (starts : List (List Nat)) :
    ((∃ s ∈ starts, s.length ≠ 3) → codonTableNew nuc prot dict starts = .error .valueError) ∧
    (starts = [] → codonTableNew nuc prot dict starts = .error .valueError) :=
  codonTableNew_rejects nuc prot dict starts

/-- **ORF exactness** (`translate(complete=False)`, any `met_start`): for a 64-entry table and an
unambiguous code sequence the call succeeds and reports exactly the ORFs at the positions
`s = 0 … len-3` whose codon is a start codon, in ascending order of `s` (the order the code
produces by `argsort`); every in-frame translation it uses succeeds. -/
theorem C03_orfs_exact (t : CodonTable) (ht : t.codons.length = 64) (code : List Nat)
    (hc : ∀ c ∈ code, c < 4) (stopCode metCode : Nat) (metStart : Bool) :
    translateOrfs t stopCode metCode metStart code =
      .ok ((List.range (code.length - 2)).filterMap (orfAt t stopCode metCode metStart code)) ∧
    ∀ s, ∃ prot, protFrom t code s = .ok prot := by
  refine ⟨translateOrfs_spec t ht code hc stopCode metCode metStart, fun s => ?_⟩
  exact mapCodon_ok t ht (code.drop s) fun c hcm => hc c (List.mem_of_mem_drop hcm)

/-- The ORF at `s`: present iff the three symbols at `s` are a start codon; it spans from `s` to
`s + 3·|protein|`, where the protein is the complete in-frame translation from `s` cut after
the first stop symbol (or running to the frame end), with `met_start` replacing its first symbol. -/
theorem C03_orf_at (t : CodonTable) (stopCode metCode : Nat) (metStart : Bool) (code : List Nat) (s : Nat) (o : Orf) :
    orfAt t stopCode metCode metStart code s = some o ↔
      ∃ a b c prot, (code.drop s).take 3 = [a, b, c] ∧ isStart t [a, b, c] = true ∧
        protFrom t code s = .ok prot ∧
        o = ⟨s, s + 3 * (uptoStop stopCode prot).length,
             if metStart then (uptoStop stopCode prot).set 0 metCode else uptoStop stopCode prot⟩ :=
  orfAt_spec t stopCode metCode metStart code s o

/-- "First stop codon or the frame end": `uptoStop` keeps a prefix that contains no stop before its
last element, ends with the stop if there is one, and is everything otherwise. -/
theorem C03_upto_stop (stop : Nat) (ps : List Nat) :
    ∃ rest, ps = uptoStop stop ps ++ rest ∧ (∀ p ∈ (uptoStop stop ps).dropLast, p ≠ stop) ∧
      (stop ∈ ps → (uptoStop stop ps).getLast? = some stop) ∧ (stop ∉ ps → rest = []) :=
  uptoStop_spec stop ps

/-- **Derived tables are independent values.**  `with_codon_mappings` returns a table with the same
start codons and 64 entries that differs from the original *only* at the codon numbers of the given
items — where (for distinct codons) it holds the new amino acids; `with_start_codons` keeps every
codon entry.  The original is a value and is not an output of either function: in the model (and
in the driver, where the derived table goes to a second register) it cannot change; that the real
table it was derived from is unchanged is checked op by op (`c_show`, `c_tr` after `c_derive_*`). -/
theorem C03_derive_independent (nuc prot : List Nat) (t : CodonTable) :
    (∀ t' d, t.withMappings nuc prot d = .ok t' →
      t'.starts = t.starts ∧ t'.codons.length = t.codons.length ∧
      (∀ m : Nat, (∀ e ∈ d, ∀ m' a, entryNum nuc prot e = .ok (m', a) → m' ≠ m) → t'.codons[m]? = t.codons[m]?) ∧
      (nuc.Nodup → nuc.length = 4 → (d.map (·.1)).Nodup →
        ∀ e ∈ d, ∀ m a, entryNum nuc prot e = .ok (m, a) → m < t.codons.length → t'.codons[m]? = some a)) ∧
    (∀ t' starts, t.withStarts nuc starts = .ok t' → t'.codons = t.codons) := by
  constructor
  · intro t' d h
    obtain ⟨h1, h2, h3, h4⟩ := withMappings_spec nuc prot t t' d h
    refine ⟨h1, h2, h3, fun hnd hn4 hk => h4 ?_⟩
    have hk' : d.Pairwise fun e1 e2 => e1.1 ≠ e2.1 := List.pairwise_map.mp hk
    refine hk'.imp ?_
    intro e1 e2 hne m1 a1 m2 a2 he1 he2 heq
    subst heq
    exact hne (entryNum_inj nuc prot hnd hn4 e1 e2 m1 a1 a2 he1 he2)
  · intro t' starts h
    unfold CodonTable.withStarts at h
    split at h
    · simp at h
    · split at h
      · simp at h
      · split at h
        · simp at h
        · simp only [Except.ok.injEq] at h; subst h; rfl

/-- The radix-4 codon number is a bijection between codons and `0..63` (`_to_number` / `_to_codon`). -/
theorem C03_codon_number_bijection :
    (∀ a b c, a < 4 → b < 4 → c < 4 → numberToCodon (16 * a + 4 * b + c) = [a, b, c]) ∧
    (∀ m, m < 64 → ∃ a b c, numberToCodon m = [a, b, c] ∧ a < 4 ∧ b < 4 ∧ c < 4 ∧ codonNumber [a, b, c] = some m) := by
  constructor
  · intro a b c ha hb hc
    simp only [numberToCodon]
    have h1 : (16 * a + 4 * b + c) / 16 = a := by omega
    rw [h1]
    have h2 : 16 * a + 4 * b + c - a * 16 = 4 * b + c := by omega
    rw [h2]
    have h3 : (4 * b + c) / 4 = b := by omega
    rw [h3]
    have h4 : 4 * b + c - b * 4 = c := by omega
    rw [h4]; simp
  · intro m hm
    refine ⟨m / 16, (m - m / 16 * 16) / 4, (m - m / 16 * 16 - (m - m / 16 * 16) / 4 * 4) / 1, rfl, ?_, ?_, ?_, ?_⟩
    · omega
    · omega
    · omega
    · simp only [codonNumber]; congr 1; omega

/-! ## Obligations on the tables regenerated from the source on every run -/

/-- IUPAC ambiguity sets, written from the IUPAC definition (not taken from the source). -/
def iupacSets : List (Nat × List Nat) :=
  [(65, [65]), (67, [67]), (71, [71]), (84, [84]),          -- A C G T
   (82, [65, 71]), (89, [67, 84]), (87, [65, 84]), (83, [67, 71]), (77, [65, 67]), (75, [71, 84]),   -- R Y W S M K
   (72, [65, 67, 84]), (66, [67, 71, 84]), (86, [65, 67, 71]), (68, [65, 71, 84]),                   -- H B V D
   (78, [65, 67, 71, 84])]                                                                          -- N

/-- Watson–Crick pairing of the four bases. -/
def baseCompl : Nat → Nat
  | 65 => 84 | 84 => 65 | 67 => 71 | 71 => 67 | b => b

/-- `compl_symbol_dict` maps `s` to the symbol whose base set is the complement of `s`'s base set,
and back. -/
def complOK (s : Nat) : Bool :=
  match Gen.C03.complDict.lookup s with
  | none => false
  | some t =>
    Gen.C03.complDict.lookup t == some s && Gen.C03.nucAmb.contains t &&
    (match iupacSets.lookup s, iupacSets.lookup t with
     | some S, some T => [65, 67, 71, 84].all fun b => T.contains b == S.contains (baseCompl b)
     | _, _ => false)

/-- `complement()` on one code: the decoded result is the dict complement of the decoded input. -/
def complCodeOK (alph : List Nat) (c : Nat) : Bool :=
  match alph[c]?, complementCodes Gen.C03.nucAmb Gen.C03.complDict [c] with
  | some s, .ok [c'] => decide (c' < alph.length) && alph[c']? == Gen.C03.complDict.lookup s
  | _, _ => false

/-- Complement is an involution and equals the IUPAC pairing, for the dict and for the code
mapper built from it, on both nucleotide alphabets of the current source. -/
theorem C03_gen_complement :
    Gen.C03.nucAmb.all complOK = true ∧
    (Gen.C03.complDict.map (·.1)).Nodup ∧ Gen.C03.nucAmb.Nodup ∧ Gen.C03.nucAmb.length = iupacSets.length ∧
    Gen.C03.nucUnamb = Gen.C03.nucAmb.take 4 ∧ Gen.C03.nucUnamb = [65, 67, 71, 84] ∧
    (List.range Gen.C03.nucAmb.length).all (complCodeOK Gen.C03.nucAmb) = true ∧
    (List.range Gen.C03.nucUnamb.length).all (complCodeOK Gen.C03.nucUnamb) = true := by
  decide +kernel

/-- The protein alphabet has distinct symbols, the 1↔3 letter dicts are mutually inverse on it
and the extra 3-letter codes do not clash. -/
theorem C03_gen_protein :
    Gen.C03.protAlph.Nodup ∧ Gen.C03.dict1to3.map (·.1) = Gen.C03.protAlph ∧
    (Gen.C03.dict1to3.map (·.2)).Nodup ∧
    (Gen.C03.dict3to1Extra.all fun e => Gen.C03.protAlph.contains e.2 && !(Gen.C03.dict1to3.map (·.2)).contains e.1) = true ∧
    Gen.C03.protAlph.contains 42 = true ∧ Gen.C03.protAlph.contains 77 = true := by
  decide +kernel

/-- `LetterAlphabet.PRINTABLES` is exactly the visible ASCII range the model uses. -/
theorem C03_gen_printables :
    ((List.range 256).all fun b => Gen.C03.printables.contains b == printable b) = true := by
  decide +kernel

/-- One shipped codon table: 64 columns, the three base rows enumerate every codon over the
unambiguous alphabet exactly once, amino acids are protein symbols, the init row only uses
`-` and the start marker, and `CodonTable.load` (model) accepts it. -/
def tableOK (r : Gen.C03.TableRows) : Bool :=
  let codons := (List.range 64).map fun i => (r.base1[i]?, r.base2[i]?, r.base3[i]?)
  r.aa.length == 64 && r.init.length == 64 && r.base1.length == 64 && r.base2.length == 64 && r.base3.length == 64 &&
  decide codons.Nodup &&
  (r.base1 ++ r.base2 ++ r.base3).all (Gen.C03.nucUnamb.contains ·) &&
  r.aa.all (Gen.C03.protAlph.contains ·) &&
  r.init.all (fun c => c == 45 || c == Gen.C03.startMarker) &&
  r.init.any (· == Gen.C03.startMarker) &&
  (match codonTableOfRows Gen.C03.nucUnamb Gen.C03.protAlph r.aa
      (r.init.map fun c => if c = Gen.C03.startMarker then 105 else 45) r.base1 r.base2 r.base3 with
   | .ok t => t.codons.length == 64 && t.codons.all (· < Gen.C03.protAlph.length)
   | .error _ => false)

theorem C03_gen_codon_tables :
    Gen.C03.codonTables.all tableOK = true ∧ (Gen.C03.codonTables.map (·.id)).Nodup ∧
    (Gen.C03.codonTables.flatMap (·.names)).Nodup ∧
    (Gen.C03.codonTables.any fun r => r.names.contains Gen.C03.defaultTableName) = true ∧
    (Gen.C03.defaultStarts.all fun s => s.length == 3 && s.all (Gen.C03.nucUnamb.contains ·)) = true ∧
    Gen.C03.codonTables.length ≥ 1 := by
  decide +kernel

/-! ## The anchored source still is the source the model was written against (tie pass 7 / 8)

Alpha-normalised facts (comparison operators, constants, order of tests, exception classes, defaults) of every
modelled function, regenerated on each run, equal the snapshot in `Proofs/C03Expected.lean`. -/

theorem C03_gen_facts_alphabet : Gen.C03.factsAlphabet = Expected.factsAlphabet := by decide +kernel
theorem C03_gen_facts_sequence : Gen.C03.factsSequence = Expected.factsSequence := by decide +kernel
theorem C03_gen_facts_translate : Gen.C03.factsTranslate = Expected.factsTranslate := by decide +kernel
theorem C03_gen_facts_codon : Gen.C03.factsCodon = Expected.factsCodon := by decide +kernel
theorem C03_gen_facts_kmer : Gen.C03.factsKmer = Expected.factsKmer := by decide +kernel
theorem C03_gen_defaults : Gen.C03.factsDefaults = Expected.factsDefaults := by decide +kernel

/-- The dtype ladder read from the source, evaluated as the code evaluates it. -/
def ladderBits : List (String × Nat × Nat) → Nat → Nat
  | [], _ => 64
  | (_, bound, bits) :: rest, n => if n ≤ bound then bits else ladderBits rest n

/-- `Sequence.dtype` and `AlphabetMapper._dtype` of the current source are the ladder the model's
`dtypeBits` implements — for every alphabet size. -/
theorem C03_gen_dtype_ladder :
    Gen.C03.seqDtypeLadder = Gen.C03.mapperDtypeLadder ∧ (Gen.C03.seqDtypeLadder.all fun e => e.1 == "LtE") = true ∧
    ∀ n, dtypeBits n = ladderBits Gen.C03.seqDtypeLadder n := by
  refine ⟨by decide, by decide, fun n => ?_⟩
  simp only [dtypeBits, Gen.C03.seqDtypeLadder, ladderBits]

/-- Constants of `translate` / `_to_number` the model hard-codes: stop symbol `*`, start replacement `M`,
three frames, radix exponents 2,1,0 (so the codon number is `16a + 4b + c`). -/
theorem C03_gen_translate_constants :
    Gen.C03.stopSymbol = 42 ∧ Gen.C03.metSymbol = 77 ∧ Gen.C03.frameCount = 3 ∧ Gen.C03.radixExponents = [2, 1, 0] ∧
    Gen.C03.protAlph.contains Gen.C03.stopSymbol = true ∧ Gen.C03.protAlph.contains Gen.C03.metSymbol = true ∧
    ∀ a b c, codonNumber [a, b, c] =
      some (Gen.C03.nucUnamb.length ^ 2 * a + Gen.C03.nucUnamb.length ^ 1 * b + Gen.C03.nucUnamb.length ^ 0 * c) := by
  refine ⟨rfl, rfl, rfl, rfl, by decide, by decide, fun a b c => ?_⟩
  simp [codonNumber, Gen.C03.nucUnamb]

/-! ## Non-vacuity: the hypotheses are met by concrete, non-trivial inputs -/

example : encode [65, 67, 71, 84] [71, 65, 84, 84] = .ok [2, 0, 3, 3] := by decide
example : decode [65, 67, 71, 84] [2, 0, 3, 3] = .ok [71, 65, 84, 84] := by decide
example : encode ["x", "y", "zz"] ["zz", "q"] = .error .alphabetError := by decide
example : decode [65, 67, 71, 84] [0, 4] = .error .alphabetError := by decide
example : encodeChars [65, 67, 71, 84] [71, 65, 84, 84] = .ok [2, 0, 3, 3] := by decide
example : encodeChars [65, 67, 71, 84] [71, 200] = .error .alphabetError := by decide
example : letterDecodeMultiple [65, 67, 71, 84] false [256, 1] = .error .alphabetError := by decide
example : letterDecodeMultiple [65, 67, 71, 84] false [3, 1] = .ok [84, 67] := by decide
example : ([65, 67, 71, 84] : List Nat).Nodup ∧ ([65, 67, 71, 84] : List Nat).length < 256 := by decide
example : fuse 4 3 [3, 1, 2] = .ok 54 ∧ split 4 3 54 = .ok [3, 1, 2] := by decide
example : fuse 4 3 [5, 0, 0] = .error .alphabetError ∧ split 4 3 64 = .error .alphabetError := by decide
example : createKmers 4 3 none [0, 1, 2, 3, 3] = .ok [6, 27, 47] ∧ windows 3 [0, 1, 2, 3, 3] = [[0, 1, 2], [1, 2, 3], [2, 3, 3]] := by decide
example : createKmers 4 3 none [0, 1, 2, 4, 3] = .error .alphabetError ∧ createKmers 4 3 none [0, 1] = .error .valueError := by decide
example : createKmers 4 3 (some [0, 2, 3]) [0, 1, 2, 3, 3] = .ok [11, 31] ∧ spacedWindow [0, 1, 2, 3, 3] [0, 2, 3] 1 = [1, 3, 3] ∧
    ([0, 2, 3] : List Nat).getLast? = some 3 := by decide
example : kmerNew 3 (.ints [3, 0, 2]) = .ok (some [0, 2, 3]) ∧ kmerNew 3 (.str "1011".toList) = .ok (some [0, 2, 3]) := by decide
example : (Seq.new 0 [65, 67] [67, 65]).bind (fun s => s.reverse.symbols) = .ok [65, 67] := by decide
example : (Seq.mk 0 [65, 67, 71] [2, 0, 1]).getItem (-1) = .ok 67 ∧ (Seq.mk 0 [65, 67, 71] [2, 0, 1]).getItem 3 = .error .indexError := by decide
example : ((Seq.mk 0 [65, 67, 71] [2, 0, 1, 1]).slice (some (-3)) none).symbols = .ok [65, 67, 67] := by decide
example : ((Seq.mk 0 [65, 67, 71] [2, 0, 1, 1]).setSlice (some 1) (some 3) [71, 71]).bind Seq.symbols = .ok [71, 71, 71, 67] := by decide
example : (mapperNew [84, 65] [65, 67, 71, 84]).bind (fun m => mapperApply m [0, 1, 1]) = .ok [3, 0, 0] := by decide
example : (codonTableOfRows [65, 67, 71, 84] Gen.C03.protAlph (List.replicate 64 75) (105 :: List.replicate 63 45)
      ((List.range 64).map fun i => [65, 67, 71, 84][i / 16]!) ((List.range 64).map fun i => [65, 67, 71, 84][i / 4 % 4]!)
      ((List.range 64).map fun i => [65, 67, 71, 84][i % 4]!)).bind
      (fun t => translateOrfs t 23 10 false [0, 0, 0, 1, 2, 0, 0, 0]) =
    .ok [⟨0, 6, [8, 8]⟩, ⟨5, 8, [8]⟩] := by decide +kernel
example : (Seq.mk 0 [65, 67, 71, 84] [0, 0, 1, 2, 3]).beq (Seq.mk 0 [84, 71, 67, 65] [0, 0, 1, 2, 3]) = false ∧
    (Seq.mk 0 [65, 67, 71, 84] [0, 0, 1, 2, 3]).symbols = .ok [65, 65, 67, 71, 84] ∧
    (Seq.mk 0 [84, 71, 67, 65] [0, 0, 1, 2, 3]).symbols = .ok [84, 84, 71, 67, 65] := by decide
example : ((CodonTable.mk (List.replicate 64 8) [14]).withMappings [65, 67, 71, 84] Gen.C03.protAlph [([84, 71, 65], 87)]).map
    (fun t => (t.codons[56]?, t.codons[55]?, t.starts)) = .ok (some 18, some 8, [14]) := by decide +kernel
example : ((Seq.mk 0 [65, 67] [0, 1, 1]).asType (Seq.mk 0 [65, 67, 71] [2])).bind Seq.symbols = .ok [65, 67, 67] ∧
    (Seq.mk 0 [65, 67, 71] [2]).asType (Seq.mk 0 [65, 67] []) = .error .alphabetError := by decide
example : ((Seq.mk 0 [65, 67] [0]).setSymbols [67, 67, 65]).bind Seq.symbols = .ok [67, 67, 65] := by decide
example : translateComplete (CodonTable.mk (List.replicate 64 8) [14]) [0, 0, 4] = .error .alphabetError ∧
    translateComplete (CodonTable.mk (List.replicate 64 8) [14]) [0, 1, 0] = .ok [8] := by decide
example : ((Seq.mk 0 [65, 67] [0, 1]).add (Seq.mk 0 [65, 67, 71] [2])).bind Seq.symbols = .ok [65, 67, 71] ∧
    (Seq.mk 0 [65, 67] [0]).add (Seq.mk 0 [67, 65] [0]) = .error .valueError := by decide
example : ((Seq.mk 0 [65, 67] [0, 1, 0, 1]).setSlice (some 1) none [67]).bind Seq.symbols = .ok [65, 67, 67, 67] := by decide
example : ((Seq.mk 1 [65, 67, 71, 84] [0, 1, 2, 3]).setSliceSeq (some 1) (some 3) (Seq.mk 2 [65, 67, 68] [1, 1])).bind Seq.symbols = .ok [65, 67, 67, 84] ∧
    (Seq.mk 1 [65, 67, 71, 84] [0, 1, 2, 3]).setSliceSeq (some 1) (some 3) (Seq.mk 1 [65, 67, 71, 84, 78] [4, 4]) = .error .alphabetError ∧
    ((Seq.mk 1 [65, 67, 71, 84, 78] [4, 4, 4]).setSliceSeq (some 0) (some 2) (Seq.mk 1 [65, 67, 71, 84] [3, 2])).bind Seq.symbols = .ok [84, 71, 78] := by decide
example : numberToCodon 53 = [3, 1, 1] ∧ codonNumber [3, 1, 1] = some 53 := by decide
example : complementCodes Gen.C03.nucAmb Gen.C03.complDict [0, 4, 14] = .ok [3, 5, 14] := by decide +kernel

end BiotiteModel.C03
